import Proofs.SchedProgress

/-! The completion chain across interruptions (default reset mode): what a finished
pipestance looks like after any number of crash / restart / partial resets — the
same as after an uninterrupted run (C05 `restart_completes_same`). -/
namespace Martian.Sched

/-- the completion chain, on disk -/
structure ChainInv (s : State) : Prop where
  c1 : ∀ n f, s.kind n ≠ .pipeline → (s.m ⟨n, f, .fork⟩).disk.has .complete = true →
    (s.m ⟨n, f, .join⟩).disk.has .complete = true
  c2 : ∀ n f, ((s.m ⟨n, f, .join⟩).disk.has .jobinfo = true ∨
      (s.m ⟨n, f, .join⟩).disk.has .complete = true) →
    (∀ i, i < s.nch n f → (s.m ⟨n, f, .chunk i⟩).disk.has .complete = true) ∧
    (s.nch n f = 0 → (s.m ⟨n, f, .split⟩).disk.has .complete = true)
  c3 : ∀ n f i, (s.m ⟨n, f, .chunk i⟩).disk.has .jobinfo = true →
    (s.m ⟨n, f, .split⟩).seen.has .complete = true
  dis : ∀ n f, s.kind n ≠ .pipeline → (s.m ⟨n, f, .fork⟩).disk.has .disabled = true →
    ∀ r, r ≠ .fork → (s.m ⟨n, f, r⟩).disk.has .jobinfo = false ∧
      (s.m ⟨n, f, r⟩).disk.has .complete = false
  inRange : ∀ n f i, (s.m ⟨n, f, .chunk i⟩).disk.has .jobinfo = true → i < s.nch n f

theorem chainInv_init (g : List NodeInfo) : ChainInv (init g) := by
  have hm : ∀ o, (init g).m o = {} := fun o => rfl
  constructor <;> simp [hm]

/-- an object without a state has neither `_jobinfo` nor `_complete` in its directory -/
theorem st_none_disk {s : State} (hobj : ObjsInv s) (hrole : RoleInv s) {o : Obj}
    (h : s.st o = none) :
    (s.m o).disk.has .jobinfo = false ∧ (s.m o).disk.has .complete = false := by
  obtain ⟨_, _, hc, _, _, hj⟩ := metaState_none h
  have hji : (s.m o).disk.has .jobinfo = false := by
    cases hd : (s.m o).disk.has .jobinfo
    · rfl
    · have := (hobj o).ji hd; rw [hj] at this; cases this
  refine ⟨hji, ?_⟩
  cases hd : (s.m o).disk.has .complete
  · rfl
  · cases hjo : jobObj (s.kind o.n) o.r
    · have := ((hrole o).nj hjo).2.2.2 _ hd; rw [hc] at this; cases this
    · have := (hobj o).kk hjo (Or.inr (Or.inl hd)); rw [hji] at this; cases this

/-- default mode: an object whose directory says complete (and carries no failure) is
never reset — job object or mrp's stub alike -/
theorem complete_not_resettable {s : State} (hobj : ObjsInv s) (hrole : RoleInv s)
    (hfull : s.full = false) {o : Obj}
    (hcl : (s.m o).disk.has .errors = false ∧ (s.m o).disk.has .assert = false)
    (hc : (s.m o).disk.has .complete = true) : enabled s (.reset o) = false := by
  cases hen : enabled s (.reset o)
  · rfl
  · have hro := en_reset hen
    have hdst : s.dst o = some .complete := by
      unfold State.dst; rw [metaState_eq, hcl.1, hcl.2, hc]; simp
    unfold resetOk at hro
    simp only [hfull, Bool.false_eq_true, if_false, Bool.and_eq_true, Bool.or_eq_true,
      beq_iff_eq, hdst] at hro
    rcases hro.2.2 with ((h | h) | ⟨h, _⟩) | h
    · cases h
    · cases h
    · cases h
    · -- the branch of `restartQueuedLocal` added by 23063ab: complete ⇒ only the sentinel goes
      simp at h

theorem benign_nf {s : State} {e : Ev} (h : e.benign s = true) : e.failing = false := by
  simp only [Ev.benign, Bool.and_eq_true, Bool.not_eq_true'] at h; exact h.1


/-- `mkchunks n f _` (benign) is impossible once the join of the fork is submitted or
complete, or a chunk of it is submitted -/
theorem benign_no_mkchunks {s : State} (hobj : ObjsInv s) (hrole : RoleInv s)
    (hfl : FirstLoadInv s) (h : ChainInv s) {n f k : Nat}
    (hen : enabled s (.mkchunks n f k) = true) (hb : (Ev.mkchunks n f k).benign s = true) :
    ((s.m ⟨n, f, .join⟩).disk.has .jobinfo = false ∧
      (s.m ⟨n, f, .join⟩).disk.has .complete = false) ∧
    ∀ i, (s.m ⟨n, f, .chunk i⟩).disk.has .jobinfo = false := by
  have hg : s.phase ≠ .normal ∨ (s.nch n f = 0 ∧ s.st ⟨n, f, .join⟩ = none) := by
    simp only [enabled, guards, List.all_cons, List.all_nil, Bool.and_true, Bool.and_eq_true,
      Bool.or_eq_true, bne_iff_ne, ne_eq, beq_iff_eq] at hen
    rcases hen.2.2.2 with h | h
    · exact Or.inl h
    · exact Or.inr ⟨h.1.1.1.1.1, h.2⟩
  have halive : s.phase ≠ .crashed := by
    simp only [enabled, guards, List.all_cons, Bool.and_eq_true, bne_iff_ne, ne_eq] at hen
    exact hen.1
  rcases hg with hp | ⟨hz, hj⟩
  · have hl : s.phase = .loading := by
      cases hq : s.phase
      · rfl
      · exact absurd hq hp
      · exact absurd hq halive
    have hi0 : s.inc = 0 := by
      simp only [Ev.benign, Ev.failing, Bool.not_false, Bool.true_and, Bool.not_eq_true',
        Bool.and_eq_false_iff, beq_eq_false_iff_ne, ne_eq, bne_eq_false_iff_eq, hl,
        not_true_eq_false, false_or] at hb
      exact hb
    exact ⟨hfl hi0 hl _, fun i => (hfl hi0 hl _).1⟩
  · refine ⟨st_none_disk hobj hrole hj, fun i => ?_⟩
    cases hc : (s.m ⟨n, f, .chunk i⟩).disk.has .jobinfo
    · rfl
    · have := h.inRange n f i hc; omega

theorem chainInv_step {s : State} {e : Ev} (hobj : ObjsInv s) (hrole : RoleInv s)
    (hclean : CleanInv s) (hfl : FirstLoadInv s) (hfull : s.full = false) (h : ChainInv s)
    (hen : enabled s e = true) (hb : e.benign s = true) : ChainInv (apply s e) := by
  have hnf := benign_nf hb
  -- `_complete` (on disk / seen) of a clean object survives every event
  have keepC : ∀ (o : Obj), (s.m o).disk.has .complete = true →
      ((apply s e).m o).disk.has .complete = true := by
    intro o hc
    apply disk_mono _ (by simp) hc
    intro he; subst he
    rw [complete_not_resettable hobj hrole hfull (hclean o.n o.f o.r) hc] at hen; cases hen
  have keepS : ∀ (o : Obj), (s.m o).seen.has .complete = true →
      ((apply s e).m o).seen.has .complete = true := by
    intro o hc
    apply seen_mono hobj _ (by simp) hc
    intro he; subst he
    rw [complete_not_resettable hobj hrole hfull (hclean o.n o.f o.r) ((hobj o).sub _ hc)] at hen
    cases hen
  have nch_same : ∀ n f, (((s.m ⟨n, f, .join⟩).disk.has .jobinfo = true ∨
        (s.m ⟨n, f, .join⟩).disk.has .complete = true) ∨
        ∃ i, (s.m ⟨n, f, .chunk i⟩).disk.has .jobinfo = true) →
      (apply s e).nch n f = s.nch n f := by
    intro n f hp
    rw [apply_nch]
    cases e <;> simp only []
    case mkchunks n' f' k =>
      split
      · rename_i heq
        simp only [Prod.mk.injEq] at heq
        obtain ⟨rfl, rfl⟩ := heq
        obtain ⟨⟨a, b⟩, c⟩ := benign_no_mkchunks hobj hrole hfl h hen hb
        rcases hp with (hp | hp) | ⟨i, hp⟩
        · rw [a] at hp; cases hp
        · rw [b] at hp; cases hp
        · rw [c i] at hp; cases hp
      · rfl
  -- whatever is new on disk came from one of five events (never from reset / restart)
  have origin : ∀ (o : Obj) (y : Sentinel), (s.m o).disk.has y = false →
      ((apply s e).m o).disk.has y = true →
      (e = .W o y ∧ mrpWriteOk s o y = true) ∨ e = .jobend o y ∨
      (e = .launch o ∧ (y = .jobinfo ∨ y = .queuedLocally)) ∨ (e = .joblog o ∧ y = .log) ∨
      (e = .silentfail o ∧ y = .errors) := fun o y h0 h1 => disk_origin hen h0 h1
  -- if the object still has `y` afterwards and had it before, fine; used with `by_cases`
  refine ⟨?_, ?_, ?_, ?_, ?_⟩
  · -- c1
    intro n f hk hfc
    rw [apply_kind] at hk
    cases hc : (s.m ⟨n, f, .fork⟩).disk.has .complete
    · rcases origin _ _ hc hfc with ⟨he, hw⟩ | he | ⟨_, he⟩ | ⟨_, he⟩ | ⟨_, he⟩
      · apply keepC
        unfold mrpWriteOk at hw
        simp only [Bool.and_eq_true, Bool.or_eq_true, beq_iff_eq] at hw
        rcases hw.2 with hw | hw
        · exact absurd hw hk
        · exact (hobj _).sub _ (metaState_complete hw).2.2
      · subst he; have := (en_jobend hen).1; simp [Role.isJob] at this
      · rcases he with he | he <;> cases he
      · cases he
      · cases he
    · exact keepC _ (h.c1 n f hk hc)
  · -- c2
    intro n f hp
    by_cases hold : (s.m ⟨n, f, .join⟩).disk.has .jobinfo = true ∨
        (s.m ⟨n, f, .join⟩).disk.has .complete = true
    · rw [nch_same n f (Or.inl hold)]
      obtain ⟨a, b⟩ := h.c2 n f hold
      exact ⟨fun i hi => keepC _ (a i hi), fun hz => keepC _ (b hz)⟩
    · have hji : (s.m ⟨n, f, .join⟩).disk.has .jobinfo = false := by
        cases hc : (s.m ⟨n, f, .join⟩).disk.has .jobinfo
        · rfl
        · exact absurd (Or.inl hc) hold
      have hco : (s.m ⟨n, f, .join⟩).disk.has .complete = false := by
        cases hc : (s.m ⟨n, f, .join⟩).disk.has .complete
        · rfl
        · exact absurd (Or.inr hc) hold
      rcases hp with hp | hp
      · rcases origin _ _ hji hp with ⟨_, hw⟩ | he | ⟨he, _⟩ | ⟨_, he⟩ | ⟨_, he⟩
        · rw [mrpWriteOk_jobinfo] at hw; cases hw
        · subst he; have := (en_jobend hen).2.1; simp at this
        · subst he
          have hlo := en_launch hen
          unfold launchOk at hlo
          simp only [Bool.and_eq_true, beq_iff_eq] at hlo
          have hg := hlo.2.2
          have hn : (apply s (.launch ⟨n, f, .join⟩)).nch n f = s.nch n f := by simp [apply_nch]
          rw [hn]
          constructor
          · intro i hi
            have hz : ¬ s.nch n f = 0 := by omega
            simp only [hz, if_false] at hg
            have := allChunksComplete_iff.mp hg i hi
            exact keepC _ ((hobj _).sub _ (metaState_complete this).2.2)
          · intro hz
            simp only [hz, if_true, beq_iff_eq] at hg
            exact keepC _ ((hobj _).sub _ (metaState_complete hg).2.2)
        · cases he
        · cases he
      · rcases origin _ _ hco hp with ⟨he, hw⟩ | he | ⟨_, he⟩ | ⟨_, he⟩ | ⟨_, he⟩
        · subst he
          unfold mrpWriteOk at hw
          simp only [Bool.and_eq_true, beq_iff_eq, decide_eq_true_eq] at hw
          have hn : (apply s (.W ⟨n, f, .join⟩ .complete)).nch n f = s.nch n f := by
            simp [apply_nch]
          rw [hn]
          constructor
          · intro i hi
            have := allChunksComplete_iff.mp hw.2 i hi
            exact keepC _ ((hobj _).sub _ (metaState_complete this).2.2)
          · intro hz; have := hw.1.2; omega
        · subst he; have := (en_jobend hen).2.2.1; rw [hji] at this; cases this
        · rcases he with he | he <;> cases he
        · cases he
        · cases he
  · -- c3
    intro n f i hj
    cases hc : (s.m ⟨n, f, .chunk i⟩).disk.has .jobinfo
    · rcases origin _ _ hc hj with ⟨_, hw⟩ | he | ⟨he, _⟩ | ⟨_, he⟩ | ⟨_, he⟩
      · rw [mrpWriteOk_jobinfo] at hw; cases hw
      · subst he; have := (en_jobend hen).2.1; simp at this
      · subst he
        have hlo := en_launch hen
        unfold launchOk at hlo
        simp only [Bool.and_eq_true, beq_iff_eq] at hlo
        exact keepS _ (metaState_complete hlo.2.1.2).2.2
      · cases he
      · cases he
    · exact keepS _ (h.c3 n f i hc)
  · -- dis
    intro n f hk hd r hr
    rw [apply_kind] at hk
    have hFclean := hclean n f .fork
    cases hc : (s.m ⟨n, f, .fork⟩).disk.has .disabled
    · -- newly disabled: the fork was `ready`
      rcases origin _ _ hc hd with ⟨he, hw⟩ | he | ⟨_, he⟩ | ⟨_, he⟩ | ⟨_, he⟩
      · subst he
        unfold mrpWriteOk at hw
        simp only [Bool.or_eq_true, beq_iff_eq] at hw
        have hready : forkState s n f = .ready := by
          rcases hw with h' | h'
          · exact absurd h' hk
          · simpa using h'
        have hm : (apply s (.W ⟨n, f, .fork⟩ .disabled)).m ⟨n, f, r⟩ = s.m ⟨n, f, r⟩ := by
          rw [apply_m]; simp only []; split
          · rename_i heq; simp only [Obj.mk.injEq, true_and] at heq; exact absurd heq.symm hr
          · rfl
        rw [hm]
        have hsn := st_none_disk hobj hrole (forkState_ready_split hready)
        cases r
        · exact hsn
        · rename_i j
          have hcj : (s.m ⟨n, f, .chunk j⟩).disk.has .jobinfo = false := by
            cases hx : (s.m ⟨n, f, .chunk j⟩).disk.has .jobinfo
            · rfl
            · exact absurd (forkState_ready_split hready)
                (st_ne_none_of_seen (Or.inr rfl) (h.c3 n f j hx))
          refine ⟨hcj, ?_⟩
          cases hx : (s.m ⟨n, f, .chunk j⟩).disk.has .complete
          · rfl
          · have := (hobj ⟨n, f, .chunk j⟩).kk rfl (Or.inr (Or.inl hx))
            rw [hcj] at this; cases this
        · exact st_none_disk hobj hrole (forkState_ready_join hready)
        · exact absurd rfl hr
      · subst he; have := (en_jobend hen).1; simp [Role.isJob] at this
      · rcases he with he | he <;> cases he
      · cases he
      · cases he
    · -- already disabled: the fork is finished, nothing of it is submitted or written
      obtain ⟨a, b⟩ := h.dis n f hk hc r hr
      have hdone : fmDone s n f = true := by
        rw [fmDone_iff]
        exact ⟨not_seen_of_not_disk hobj hFclean.1, not_seen_of_not_disk hobj hFclean.2,
          Or.inr ((hobj ⟨n, f, .fork⟩).forkEq rfl _ hc)⟩
      have hfs : forkState s n f = .disabled ∨ forkState s n f = .complete := by
        rcases forkState_done.mpr hdone with h' | h'
        · exact Or.inr h'
        · exact Or.inl h'
      constructor
      · cases hx : ((apply s e).m ⟨n, f, r⟩).disk.has .jobinfo
        · rfl
        · rcases origin _ _ a hx with ⟨_, hw⟩ | he | ⟨he, _⟩ | ⟨_, he⟩ | ⟨_, he⟩
          · rw [mrpWriteOk_jobinfo] at hw; cases hw
          · subst he; have := (en_jobend hen).2.1; simp at this
          · subst he
            have := (launchOk_phase (en_launch hen)).2.2.1
            rw [hdone] at this; cases this
          · cases he
          · cases he
      · cases hx : ((apply s e).m ⟨n, f, r⟩).disk.has .complete
        · rfl
        · rcases origin _ _ b hx with ⟨he, hw⟩ | he | ⟨_, he⟩ | ⟨_, he⟩ | ⟨_, he⟩
          · subst he
            unfold mrpWriteOk at hw
            cases r
            · simp only [Bool.and_eq_true, beq_iff_eq] at hw
              rcases hfs with h' | h' <;> rw [h'] at hw <;> cases hw.2
            · simp at hw
            · simp only [Bool.and_eq_true, Bool.not_eq_true'] at hw
              have := hw.1.1.1.2; rw [hdone] at this; cases this
            · exact absurd rfl hr
          · subst he; have := (en_jobend hen).2.2.1; rw [a] at this; cases this
          · rcases he with he | he <;> cases he
          · cases he
          · cases he
  · -- inRange
    intro n f i hj
    cases hc : (s.m ⟨n, f, .chunk i⟩).disk.has .jobinfo
    · rcases origin _ _ hc hj with ⟨_, hw⟩ | he | ⟨he, _⟩ | ⟨_, he⟩ | ⟨_, he⟩
      · rw [mrpWriteOk_jobinfo] at hw; cases hw
      · subst he; have := (en_jobend hen).2.1; simp at this
      · subst he
        have hh := (launchOk_phase (en_launch hen)).2.2.2.2
        have hn : (apply s (.launch ⟨n, f, .chunk i⟩)).nch n f = s.nch n f := by simp [apply_nch]
        rw [hn]
        simp only [State.hasObj, Bool.and_eq_true, decide_eq_true_eq] at hh
        exact hh.2
      · cases he
      · cases he
    · rw [nch_same n f (Or.inr ⟨i, hc⟩)]; exact h.inRange n f i hc


theorem run_chainInv {g : List NodeInfo} {σ : Nat → State} {es : Nat → Ev}
    (hrun : Run (init g) σ es) (hb : ∀ i, (es i).benign (σ i) = true) : ∀ i, ChainInv (σ i) := by
  have hreach := run_reach hrun
  have hlive := run_liveInv hrun (liveInv_init g) (fun i => benign_nf (hb i))
  intro i
  induction i with
  | zero => rw [hrun.start]; exact chainInv_init g
  | succ i ih =>
    rw [hrun.next]
    exact chainInv_step (hlive i).obj (hlive i).role (hlive i).clean
      (reach_firstLoadInv (hreach i)) (reach_full (hreach i)) ih (hrun.en i) (hb i)

/-- the directory state of an object that is not the fork's own metadata, carries no
failure, and has neither `_jobinfo` nor `_complete` is empty -/
theorem dst_none_of {s : State} (hobj : ObjsInv s) (hrole : RoleInv s) {o : Obj}
    (hr : o.r ≠ .fork)
    (hc : (s.m o).disk.has .errors = false ∧ (s.m o).disk.has .assert = false)
    (hj : (s.m o).disk.has .jobinfo = false) (hcomp : (s.m o).disk.has .complete = false) :
    s.dst o = none := by
  have hlog : (s.m o).disk.has .log = false := by
    cases hjo : jobObj (s.kind o.n) o.r
    · exact ((hrole o).nj hjo).1
    · cases hl : (s.m o).disk.has .log
      · rfl
      · have := (hobj o).kk hjo (Or.inl hl); rw [hj] at this; cases this
  unfold State.dst
  rw [metaState_eq, hc.1, hc.2, hcomp, (hrole o).dis hr, hlog, hj]
  simp

theorem dst_complete_of {s : State} {o : Obj}
    (hc : (s.m o).disk.has .errors = false ∧ (s.m o).disk.has .assert = false)
    (h : (s.m o).disk.has .complete = true) : s.dst o = some .complete := by
  unfold State.dst; rw [metaState_eq, hc.1, hc.2, h]; simp

/-- the per-job outcome a finished pipestance shows, as a function of the environment's
choices only (was the fork run or disabled; how many chunks did the split define) -/
def expectedOutcome (forkComplete : Bool) (nch : Nat) : Role → Option MState
  | .chunk i => if forkComplete && decide (i < nch) then some .complete else none
  | _ => if forkComplete then some .complete else none

/-- what the directories of a finished stage fork contain: everything complete (split,
each defined chunk, join; nothing beyond) if the fork ran, nothing at all if it was disabled -/
theorem finished_fork_outcome {s : State} (hobj : ObjsInv s) (hrole : RoleInv s)
    (hclean : CleanInv s) (h : ChainInv s) {n f : Nat} (hk : s.kind n ≠ .pipeline)
    (hdone : fmDone s n f = true) (r : Role) (hr : r ≠ .fork) :
    s.dst ⟨n, f, r⟩ = expectedOutcome ((s.m ⟨n, f, .fork⟩).disk.has .complete) (s.nch n f) r := by
  have hcl := hclean n f
  cases hfc : (s.m ⟨n, f, .fork⟩).disk.has .complete
  · -- disabled
    have hd : (s.m ⟨n, f, .fork⟩).disk.has .disabled = true := by
      rcases (fmDone_iff.mp hdone).2.2 with h' | h'
      · have := (hobj ⟨n, f, .fork⟩).sub _ h'; rw [hfc] at this; cases this
      · exact (hobj ⟨n, f, .fork⟩).sub _ h'
    obtain ⟨a, b⟩ := h.dis n f hk hd r hr
    have := dst_none_of hobj hrole (o := ⟨n, f, r⟩) hr (hcl r) a b
    cases r <;> simp [expectedOutcome, this]
  · have hjc := h.c1 n f hk hfc
    obtain ⟨hch, hsp0⟩ := h.c2 n f (Or.inr hjc)
    cases r
    · -- split
      have : (s.m ⟨n, f, .split⟩).disk.has .complete = true := by
        by_cases hz : s.nch n f = 0
        · exact hsp0 hz
        · have h0 := (hobj ⟨n, f, .chunk 0⟩).kk rfl (Or.inr (Or.inl (hch 0 (by omega))))
          exact (hobj _).sub _ (h.c3 n f 0 h0)
      simp [expectedOutcome, dst_complete_of (hcl .split) this]
    · rename_i i
      by_cases hi : i < s.nch n f
      · simp [expectedOutcome, hi, dst_complete_of (hcl (.chunk i)) (hch i hi)]
      · have hj : (s.m ⟨n, f, .chunk i⟩).disk.has .jobinfo = false := by
          cases hx : (s.m ⟨n, f, .chunk i⟩).disk.has .jobinfo
          · rfl
          · exact absurd (h.inRange n f i hx) hi
        have hc : (s.m ⟨n, f, .chunk i⟩).disk.has .complete = false := by
          cases hx : (s.m ⟨n, f, .chunk i⟩).disk.has .complete
          · rfl
          · have := (hobj ⟨n, f, .chunk i⟩).kk rfl (Or.inr (Or.inl hx)); rw [hj] at this; cases this
        simp [expectedOutcome, hi, dst_none_of hobj hrole (o := ⟨n, f, .chunk i⟩) (by simp) (hcl _) hj hc]
    · simp [expectedOutcome, dst_complete_of (hcl .join) hjc]
    · exact absurd rfl hr

/-- the environment's choices two runs may differ in: fork sets, chunk counts, and which
forks were disabled -/
def SameChoices (s s' : State) : Prop :=
  ∀ n, n < s.nodes.length → s.forksOf n = s'.forksOf n ∧
    ∀ f, f ∈ s.forksOf n → s.nch n f = s'.nch n f ∧
      (s.m ⟨n, f, .fork⟩).disk.has .complete = (s'.m ⟨n, f, .fork⟩).disk.has .complete

instance (s s' : State) : Decidable (SameChoices s s') := by unfold SameChoices; exact inferInstance

/-- the directory state of a finished fork's own metadata -/
theorem finished_fork_dst {s : State} (hobj : ObjsInv s) (hclean : CleanInv s) {n f : Nat}
    (hdone : fmDone s n f = true) :
    s.dst ⟨n, f, .fork⟩ =
      if (s.m ⟨n, f, .fork⟩).disk.has .complete then some .complete else some .disabled := by
  have hcl := hclean n f .fork
  cases hfc : (s.m ⟨n, f, .fork⟩).disk.has .complete
  · have hd : (s.m ⟨n, f, .fork⟩).disk.has .disabled = true := by
      rcases (fmDone_iff.mp hdone).2.2 with h' | h'
      · have := (hobj ⟨n, f, .fork⟩).sub _ h'; rw [hfc] at this; cases this
      · exact (hobj ⟨n, f, .fork⟩).sub _ h'
    unfold State.dst; rw [metaState_eq, hcl.1, hcl.2, hfc, hd]; simp
  · simp [dst_complete_of hcl hfc]

/-- two finished states that satisfy the invariants and agree on the environment's choices
agree on the directory state of every object of every stage fork -/
theorem same_outcomes {s s' : State} (hn : s.nodes = s'.nodes)
    (hobj : ObjsInv s) (hrole : RoleInv s) (hclean : CleanInv s) (h : ChainInv s)
    (hobj' : ObjsInv s') (hrole' : RoleInv s') (hclean' : CleanInv s') (h' : ChainInv s')
    (hfin : Finished s) (hfin' : Finished s') (hsame : SameChoices s s')
    (n f : Nat) (r : Role) (hnl : n < s.nodes.length) (hf : f ∈ s.forksOf n)
    (hk : s.kind n ≠ .pipeline) : s.dst ⟨n, f, r⟩ = s'.dst ⟨n, f, r⟩ := by
  obtain ⟨hfo, hrest⟩ := hsame n hnl
  obtain ⟨hnc, hcomp⟩ := hrest f hf
  have hd : fmDone s n f = true := nodeDone_iff.mp (hfin.2 n hnl).1 f hf
  have hd' : fmDone s' n f = true :=
    nodeDone_iff.mp (hfin'.2 n (by rw [← hn]; exact hnl)).1 f (by rw [← hfo]; exact hf)
  have hk' : s'.kind n ≠ .pipeline := by simpa [State.kind, ← hn] using hk
  by_cases hr : r = .fork
  · subst hr
    rw [finished_fork_dst hobj hclean hd, finished_fork_dst hobj' hclean' hd', hcomp]
  · rw [finished_fork_outcome hobj hrole hclean h hk hd r hr,
      finished_fork_outcome hobj' hrole' hclean' h' hk' hd' r hr, hnc, hcomp]

end Martian.Sched
