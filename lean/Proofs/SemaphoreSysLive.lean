import Proofs.SemaphoreSysAct

/-! No deadlock, ranking, and: every schedule of the local-job system finishes. -/
namespace Martian.Semaphore

theorem find_id (y : Sys) (inv : SInv y) (b : LJob) (hb : b ∈ y.jobs) :
    y.jobs.find? (fun c => c.id == b.id) = some b := by
  cases hf : y.jobs.find? (fun c => c.id == b.id) with
  | none =>
    have := List.find?_eq_none.mp hf b hb
    simp at this
  | some c =>
    have hc : c ∈ y.jobs := List.mem_of_find?_eq_some hf
    have hcid : c.id = b.id := by simpa using List.find?_some hf
    rw [eq_of_mem_of_id _ inv.nd b c hb hc hcid]

theorem enabledId_iff (y : Sys) (inv : SInv y) (j : Nat) :
    y.enabledId j = true ↔ ∃ b ∈ y.jobs, b.id = j ∧ b.enabled = true := by
  unfold Sys.enabledId
  constructor
  · intro h
    cases hf : y.jobs.find? (fun b => b.id == j) with
    | none => rw [hf] at h; simp at h
    | some b =>
      rw [hf] at h
      exact ⟨b, List.mem_of_find?_eq_some hf, by simpa using List.find?_some hf, h⟩
  · rintro ⟨b, hb, rfl, he⟩
    rw [find_id y inv b hb]; exact he

/-! ### no deadlock -/

theorem disabled_phase (b : LJob) (h : b.enabled = false) :
    (∃ s, b.ph = .acq s true) ∨ b.ph = .rel 0 := by
  unfold LJob.enabled at h
  cases hp : b.ph with
  | acq s w =>
    rw [hp] at h
    cases w with
    | true => exact Or.inl ⟨s, rfl⟩
    | false => simp at h
  | rel r =>
    rw [hp] at h
    right
    cases r with
    | zero => rfl
    | succ r => simp at h

theorem no_waiter_of_all_disabled (y : Sys) (inv : SInv y)
    (hdis : ∀ b ∈ y.jobs, b.enabled = false) :
    ∀ d, ∀ b ∈ y.jobs, ∀ s, b.ph = .acq s true → y.gs.length ≤ s + d → False := by
  intro d
  induction d with
  | zero =>
    intro b hb s hph hk
    have := (inv.wf b hb).1
    rw [hph] at this
    have := this.2 rfl
    omega
  | succ d ih =>
    intro b hb s hph hk
    have hwf := (inv.wf b hb).1
    rw [hph] at hwf
    have hlt : s < y.gs.length := hwf.2 rfl
    obtain ⟨g, hg⟩ : ∃ g, y.gs[s]? = some g := ⟨y.gs[s], List.getElem?_eq_getElem hlt⟩
    have hgm : g ∈ y.gs := List.mem_iff_getElem?.mpr ⟨s, hg⟩
    have hheld : g.held = [] := by
      cases hh : g.held with
      | nil => rfl
      | cons w ws =>
        exfalso
        have hx : w.1 ∈ hidG g := by simp [hidG, hh]
        obtain ⟨c, hc, hcid⟩ := inv.own g hgm w.1 (Or.inl hx)
        have hl := (inv.link s g hg c hc).1
        rw [hcid] at hl
        have hholds := hl.mp hx
        rcases disabled_phase c (hdis c hc) with ⟨s', hs'⟩ | h0
        · rw [hs'] at hholds
          simp only [Phase.holds, decide_eq_true_eq] at hholds
          exact ih c hc s' hs' (by omega)
        · rw [h0] at hholds
          simp [Phase.holds] at hholds
    have hgood := inv.good g hgm
    have hw := good_idle (g.sem, g.held) hgood.1 hheld hgood.2
    have hbw := (inv.link s g hg b hb).2.mpr hph
    simp only at hw
    simp [widG, hw] at hbw

/-- **No deadlock**: while some job is not over, some job can act. -/
theorem exists_enabled (y : Sys) (inv : SInv y) (h : y.allOver = false) :
    ∃ b ∈ y.jobs, b.enabled = true := by
  apply Classical.byContradiction
  intro hne
  have hdis : ∀ b ∈ y.jobs, b.enabled = false := by
    intro b hb
    cases he : b.enabled with
    | false => rfl
    | true => exact absurd ⟨b, hb, he⟩ hne
  have : y.allOver = true := by
    unfold Sys.allOver
    rw [List.all_eq_true]
    intro b hb
    rcases disabled_phase b (hdis b hb) with ⟨s, hs⟩ | h0
    · exact (no_waiter_of_all_disabled y inv hdis y.gs.length b hb s hs (by omega)).elim
    · simp [h0]
  rw [this] at h; cases h

/-! ### ranking -/

theorem sum_map_le (l : List LJob) (f g : LJob → Nat) (hle : ∀ x ∈ l, f x ≤ g x) :
    (l.map f).sum ≤ (l.map g).sum := by
  induction l with
  | nil => simp
  | cons x xs ih =>
    simp only [List.map_cons, List.sum_cons]
    have := hle x (by simp)
    have := ih (fun z hz => hle z (by simp [hz]))
    omega

theorem sum_map_lt (l : List LJob) (f g : LJob → Nat) (hle : ∀ x ∈ l, f x ≤ g x)
    (hlt : ∃ x ∈ l, f x < g x) : (l.map f).sum < (l.map g).sum := by
  induction l with
  | nil => obtain ⟨x, hx, _⟩ := hlt; simp at hx
  | cons x xs ih =>
    simp only [List.map_cons, List.sum_cons]
    obtain ⟨z, hz, hzlt⟩ := hlt
    have hx := hle x (by simp)
    have hrest := sum_map_le xs f g (fun z hz => hle z (by simp [hz]))
    rcases List.mem_cons.mp hz with h | h
    · subst h; omega
    · have := ih (fun z hz => hle z (by simp [hz])) ⟨z, h, hzlt⟩
      omega

/-- **Every action of a job that can act strictly decreases the rank.** -/
theorem act_rank_lt (y : Sys) (inv : SInv y) (b : LJob) (hb : b ∈ y.jobs) (he : b.enabled = true) :
    (y.act b.id).rank < y.rank := by
  have uniq : ∀ c ∈ y.jobs, c.id = b.id → c = b := fun c hc h => eq_of_mem_of_id _ inv.nd b c hb hc h
  unfold Sys.act
  rw [find_id y inv b hb]
  simp only
  have hwf := (inv.wf b hb).1
  cases hph : b.ph with
  | acq s w =>
    cases w with
    | true => simp [LJob.enabled, hph] at he
    | false =>
      rw [hph] at hwf
      simp only [PhaseOK] at hwf
      simp only
      cases hs : y.gs[s]? with
      | none =>
        have hk : y.gs.length ≤ s := List.getElem?_eq_none_iff.mp hs
        simp only [Sys.rank, List.map_map]
        apply sum_map_lt
        · intro c hc
          by_cases h : c.id = b.id
          · have := uniq c hc h; subst this
            simp only [Function.comp, if_true, hph, phaseRank]; omega
          · simp [Function.comp, h]
        · refine ⟨b, hb, ?_⟩
          simp only [Function.comp, if_true, hph, phaseRank]; omega
      | some g =>
        have hlt : s < y.gs.length := by
          rcases List.getElem?_eq_some_iff.mp hs with ⟨h, _⟩; exact h
        simp only [Sys.rank, List.map_map, List.length_set]
        have key : phaseRank y.gs.length (acqPhase s (gstep g (.acquire b.id (b.amts.getD s 0))).2)
            < phaseRank y.gs.length (.acq s false) := by
          unfold acqPhase
          split
          · simp only [phaseRank]; omega
          · split <;> simp only [phaseRank] <;> omega
        apply sum_map_lt
        · intro c hc
          by_cases h : c.id = b.id
          · have := uniq c hc h; subst this
            simp only [Function.comp, if_true, hph]; omega
          · simp [Function.comp, h]
        · refine ⟨b, hb, ?_⟩
          simp only [Function.comp, if_true, hph]; exact key
  | rel r =>
    cases r with
    | zero => simp [LJob.enabled, hph] at he
    | succ r =>
      rw [hph] at hwf
      simp only [PhaseOK] at hwf
      simp only
      cases hs : y.gs[r]? with
      | none =>
        have := List.getElem?_eq_none_iff.mp hs
        omega
      | some g =>
        have hgm : g ∈ y.gs := List.mem_iff_getElem?.mpr ⟨r, hs⟩
        have hlb := inv.link r g hs b hb
        rw [hph] at hlb
        have hjh : b.id ∈ hidG g := hlb.1.mpr (by simp [Phase.holds])
        have hjw : b.id ∉ widG g := by
          intro h; have := hlb.2.mp h; simp at this
        obtain ⟨_, hF⟩ := gstep_release_holder g b.id hjh
        have hgr_w : ∀ x ∈ (grantsOf (gstep g (.release b.id)).2).map Prod.fst, x ∈ widG g := by
          intro x hx
          simp only [widG, ← hF, List.map_append, List.mem_append]; exact Or.inl hx
        simp only [Sys.rank, List.map_map, List.length_set]
        apply sum_map_lt
        · intro c hc
          by_cases h : c.id = b.id
          · have := uniq c hc h; subst this
            simp only [Function.comp, if_true, hph, phaseRank]; omega
          · simp only [Function.comp, h, if_false]
            split
            · rename_i hgr
              have hcw : c.ph = .acq r true := (inv.link r g hs c hc).2.mp (hgr_w _ hgr)
              rw [hcw]; simp only [phaseRank]; omega
            · exact Nat.le_refl _
        · refine ⟨b, hb, ?_⟩
          simp only [Function.comp, if_true, hph, phaseRank]; omega

/-! ### schedules -/

theorem sched_bound (y : Sys) (inv : SInv y) (js : List Nat) (h : y.EnabledSched js) :
    js.length + (y.runSched js).rank ≤ y.rank := by
  induction js generalizing y with
  | nil => simp [Sys.runSched]
  | cons j js ih =>
    obtain ⟨he, hrest⟩ := h
    obtain ⟨b, hb, hbid, hen⟩ := (enabledId_iff y inv j).mp he
    subst hbid
    have hlt := act_rank_lt y inv b hb hen
    have := ih (y.act b.id) (act_inv y inv b.id) hrest
    simp only [Sys.runSched, List.length_cons]
    omega

theorem finishing_schedule (n : Nat) : ∀ (y : Sys), SInv y → y.rank ≤ n →
    ∃ js, y.EnabledSched js ∧ (y.runSched js).allOver = true := by
  induction n with
  | zero =>
    intro y inv hr
    cases ho : y.allOver with
    | true => exact ⟨[], trivial, ho⟩
    | false =>
      obtain ⟨b, hb, he⟩ := exists_enabled y inv ho
      have := act_rank_lt y inv b hb he
      omega
  | succ n ih =>
    intro y inv hr
    cases ho : y.allOver with
    | true => exact ⟨[], trivial, ho⟩
    | false =>
      obtain ⟨b, hb, he⟩ := exists_enabled y inv ho
      have hlt := act_rank_lt y inv b hb he
      obtain ⟨js, hjs, hfin⟩ := ih (y.act b.id) (act_inv y inv b.id) (by omega)
      exact ⟨b.id :: js, ⟨(enabledId_iff y inv b.id).mpr ⟨b, hb, rfl, he⟩, hjs⟩, hfin⟩

/-- a schedule that cannot be extended ends with every job over; the jobs that
fit the maxima ran and were not refused -/
theorem maximal_all_over (y : Sys) (inv : SInv y)
    (hmax : ∀ j, y.enabledId j = false) :
    y.allOver = true ∧ ∀ b ∈ y.jobs, b.fits y.gs → b.ph = .rel 0 ∧ b.ran = true ∧ b.failed = false := by
  have hover : y.allOver = true := by
    cases ho : y.allOver with
    | true => rfl
    | false =>
      obtain ⟨b, hb, he⟩ := exists_enabled y inv ho
      have := (enabledId_iff y inv b.id).mpr ⟨b, hb, rfl, he⟩
      rw [hmax] at this; cases this
  refine ⟨hover, ?_⟩
  intro b hb hfit
  have hph : b.ph = .rel 0 := by
    unfold Sys.allOver at hover
    rw [List.all_eq_true] at hover
    simpa using hover b hb
  have hfl := inv.flags b hb
  have hnf : b.failed = false := by
    cases hf : b.failed with
    | false => rfl
    | true => exact absurd hfit (hfl.1 hf)
  refine ⟨hph, ?_, hnf⟩
  rcases hfl.2 0 hph with h | h
  · exact h
  · rw [hnf] at h; cases h

end Martian.Semaphore

namespace Martian.Semaphore

/-! ### what never changes: semaphore sizes, job ids and amounts -/

theorem gstep_max (g : G) (op : COp) : (gstep g op).1.sem.max = g.sem.max := by
  simp only [gstep]
  cases h : toSemOp g op with
  | none => rfl
  | some oh => exact step_max _ _

theorem map_set_same {α β : Type} (l : List α) (f : α → β) (s : Nat) (a x : α)
    (hs : l[s]? = some x) (h : f a = f x) : (l.set s a).map f = l.map f := by
  apply List.ext_getElem?
  intro i
  simp only [List.getElem?_map, List.getElem?_set]
  by_cases his : s = i
  · subst his
    have hlt : s < l.length := by
      rcases List.getElem?_eq_some_iff.mp hs with ⟨h, _⟩; exact h
    have hx : l[s] = x := by
      rcases List.getElem?_eq_some_iff.mp hs with ⟨_, h⟩; exact h
    simp [hlt, h, hx]
  · simp [his]

def jobKey (b : LJob) : Nat × List Int := (b.id, b.amts)

theorem map_key_congr (l : List LJob) (F : LJob → LJob) (h : ∀ c, jobKey (F c) = jobKey c) :
    (l.map F).map jobKey = l.map jobKey := by
  simp [List.map_map, Function.comp_def, h]

theorem act_static (y : Sys) (j : Nat) :
    (y.act j).gs.map (fun g => g.sem.max) = y.gs.map (fun g => g.sem.max) ∧
    (y.act j).jobs.map jobKey = y.jobs.map jobKey := by
  unfold Sys.act
  cases hf : y.jobs.find? (fun b => b.id == j) with
  | none => exact ⟨rfl, rfl⟩
  | some b =>
    simp only
    cases hph : b.ph with
    | acq s w =>
      cases w with
      | true => exact ⟨rfl, rfl⟩
      | false =>
        simp only
        cases hs : y.gs[s]? with
        | none =>
          refine ⟨rfl, map_key_congr _ _ ?_⟩
          intro c; by_cases h : c.id = j <;> simp [h, jobKey]
        | some g =>
          refine ⟨map_set_same _ _ s _ g hs (gstep_max _ _), map_key_congr _ _ ?_⟩
          intro c; by_cases h : c.id = j <;> simp [h, jobKey]
    | rel r =>
      cases r with
      | zero => exact ⟨rfl, rfl⟩
      | succ r =>
        simp only
        cases hs : y.gs[r]? with
        | none =>
          refine ⟨rfl, map_key_congr _ _ ?_⟩
          intro c; by_cases h : c.id = j <;> simp [h, jobKey]
        | some g =>
          refine ⟨map_set_same _ _ r _ g hs (gstep_max _ _), map_key_congr _ _ ?_⟩
          intro c
          by_cases h : c.id = j
          · simp [h, jobKey]
          · simp only [h, if_false]; split <;> rfl

theorem runSched_static (y : Sys) (js : List Nat) :
    (y.runSched js).gs.map (fun g => g.sem.max) = y.gs.map (fun g => g.sem.max) ∧
    (y.runSched js).jobs.map jobKey = y.jobs.map jobKey := by
  induction js generalizing y with
  | nil => exact ⟨rfl, rfl⟩
  | cons j js ih =>
    have h1 := act_static y j
    have h2 := ih (y.act j)
    exact ⟨h2.1.trans h1.1, h2.2.trans h1.2⟩

/-- the amounts fit the sizes the semaphores were created with -/
def fitsSizes (amts sizes : List Int) : Prop :=
  ∀ i m, sizes[i]? = some m → amts.getD i 0 ≤ m

theorem fits_of_fitsSizes (b : LJob) (gs : List G) (sizes : List Int)
    (hm : gs.map (fun g => g.sem.max) = sizes) (h : fitsSizes b.amts sizes) : b.fits gs := by
  intro i g hg
  apply h i g.sem.max
  rw [← hm, List.getElem?_map, hg]; rfl

theorem init_static (sizes : List Int) (jobs : List (Nat × List Int)) :
    (Sys.init sizes jobs).gs.map (fun g => g.sem.max) = sizes ∧
    (Sys.init sizes jobs).jobs.map jobKey = jobs := by
  constructor
  · simp [Sys.init, List.map_map, Function.comp_def, G.init, Sem.init]
  · simp [Sys.init, List.map_map, Function.comp_def, jobKey]

end Martian.Semaphore

namespace Martian.Semaphore

instance decEnabledSched : (y : Sys) → (js : List Nat) → Decidable (y.EnabledSched js)
  | _, [] => isTrue trivial
  | y, j :: js =>
    match decEq (y.enabledId j) true, decEnabledSched (y.act j) js with
    | isTrue h1, isTrue h2 => isTrue ⟨h1, h2⟩
    | isFalse h1, _ => isFalse fun h => h1 h.1
    | _, isFalse h2 => isFalse fun h => h2 h.2

theorem no_enabled_of_allOver (y : Sys) (h : y.allOver = true) : ∀ j, y.enabledId j = false := by
  intro j
  unfold Sys.enabledId
  cases hf : y.jobs.find? (fun b => b.id == j) with
  | none => rfl
  | some b =>
    have hb := List.mem_of_find?_eq_some hf
    unfold Sys.allOver at h
    rw [List.all_eq_true] at h
    have : b.ph = .rel 0 := by simpa using h b hb
    simp [LJob.enabled, this]

end Martian.Semaphore
