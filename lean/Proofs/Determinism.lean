import Martian.Determinism
import Proofs.SortKeys

namespace Martian.Determinism
open Martian.SortKeys List

theorem maxKeyLen_perm (isStruct : Bool) {l₁ l₂ : List (Key × Rendered)} (h : l₁ ~ l₂) :
    maxKeyLen isStruct l₁ = maxKeyLen isStruct l₂ := by
  unfold maxKeyLen
  apply h.foldl_eq'
  intro x _ y _ z
  simp only [Nat.max_assoc]
  rw [Nat.max_comm (if (isStruct && x.2.single) = true then x.1.length else 0)]

theorem isEmpty_perm {α : Type} {l₁ l₂ : List α} (h : l₁ ~ l₂) : l₁.isEmpty = l₂.isEmpty := by
  have := h.length_eq
  cases l₁ <;> cases l₂ <;> simp_all

theorem contains_perm {l₁ l₂ : List Key} (h : l₁ ~ l₂) (k : Key) : l₁.contains k = l₂.contains k := by
  cases h1 : l₁.contains k <;> cases h2 : l₂.contains k <;> simp_all [h.mem_iff]

theorem okeys_entries : ∀ t : JTree, (entries t).map Prod.fst = okeys t
  | .ocons k kj v r => by simp [entries, okeys, okeys_entries r]
  | .leaf _ | .onil => by simp [entries, okeys]

theorem emit_obj : ∀ t : JTree, t.isObj = true → t.emit = jsonObject (entries t)
  | .onil, _ => by simp [JTree.emit, entries]
  | .ocons k kj v r, _ => by simp [JTree.emit, entries]
  | .leaf _, h => by simp [JTree.isObj] at h

theorem wf_ocons (k : Key) (kj : Bytes) (v r : JTree) :
    (JTree.ocons k kj v r).wf = true ↔ v.wf = true ∧ r.wf = true ∧ r.isObj = true ∧ k ∉ okeys r := by
  simp [JTree.wf, and_assoc]

theorem nodup_okeys : ∀ t : JTree, t.wf = true → (okeys t).Nodup
  | .ocons k kj v r, h => by
    obtain ⟨_, hr, _, hk⟩ := (wf_ocons k kj v r).mp h
    simp only [okeys, nodup_cons]
    exact ⟨hk, nodup_okeys r hr⟩
  | .leaf _, _ | .onil, _ => by simp [okeys]

theorem emit_eq_of_entries_perm {a b : JTree} (ha : a.isObj = true) (hb : b.isObj = true)
    (hw : a.wf = true) (hp : entries a ~ entries b) : a.emit = b.emit := by
  rw [emit_obj _ ha, emit_obj _ hb]
  unfold jsonObject
  rw [sortK_eq_of_perm hp (by rw [okeys_entries]; exact nodup_okeys _ hw)]

/-- reordering preserves well-formedness, object-ness, the emitted bytes and
(up to permutation) the emitted entries -/
theorem reorder_aux {a b : JTree} (h : JTree.Reorder a b) : a.wf = true →
    b.wf = true ∧ b.isObj = a.isObj ∧ a.emit = b.emit ∧ entries a ~ entries b := by
  induction h with
  | refl t => exact fun hw => ⟨hw, rfl, rfl, Perm.refl _⟩
  | swap k kj v k' kj' v' r =>
    intro hw
    obtain ⟨hv, hr1, _, hk⟩ := (wf_ocons _ _ _ _).mp hw
    obtain ⟨hv', hr, hro, hk'⟩ := (wf_ocons _ _ _ _).mp hr1
    simp only [okeys, mem_cons, not_or] at hk
    have hp : entries (.ocons k kj v (.ocons k' kj' v' r)) ~ entries (.ocons k' kj' v' (.ocons k kj v r)) := by
      simp only [entries]; exact Perm.swap _ _ _
    have hw2 : (JTree.ocons k' kj' v' (.ocons k kj v r)).wf = true := by
      rw [wf_ocons, wf_ocons]
      refine ⟨hv', ⟨hv, hr, hro, hk.2⟩, rfl, ?_⟩
      simp only [okeys, mem_cons, not_or]
      exact ⟨fun h => hk.1 h.symm, hk'⟩
    exact ⟨hw2, rfl, emit_eq_of_entries_perm rfl rfl hw hp, hp⟩
  | @congr k kj v v' r r' hv hr ihv ihr =>
    intro hw
    obtain ⟨hwv, hwr, hro, hk⟩ := (wf_ocons _ _ _ _).mp hw
    obtain ⟨wv', _, ev, _⟩ := ihv hwv
    obtain ⟨wr', or', _, pr⟩ := ihr hwr
    have hkeys : okeys r ~ okeys r' := by
      rw [← okeys_entries, ← okeys_entries]; exact pr.map Prod.fst
    have hp : entries (.ocons k kj v r) ~ entries (.ocons k kj v' r') := by
      simp only [entries, ev]; exact Perm.cons _ pr
    have hw2 : (JTree.ocons k kj v' r').wf = true :=
      (wf_ocons _ _ _ _).mpr ⟨wv', wr', or'.trans hro, fun h => hk (hkeys.symm.mem_iff.mp h)⟩
    exact ⟨hw2, rfl, emit_eq_of_entries_perm rfl rfl hw hp, hp⟩
  | trans _ _ ih1 ih2 =>
    intro hw
    obtain ⟨w1, o1, e1, p1⟩ := ih1 hw
    obtain ⟨w2, o2, e2, p2⟩ := ih2 w1
    exact ⟨w2, o2.trans o1, e1.trans e2, p1.trans p2⟩

end Martian.Determinism
