import Martian.Determinism
import Proofs.SortKeys

namespace Martian.Determinism
open Martian.SortKeys List

theorem maxKeyLen_perm (isStruct : Bool) {l₁ l₂ : List (Key × Rendered)} (h : l₁ ~ l₂) :
    maxKeyLen isStruct l₁ = maxKeyLen isStruct l₂ := by
  unfold maxKeyLen
  apply h.foldl_eq'
  intro x _ y _ z
  simp only [Nat.max_assoc]
  rw [Nat.max_comm (if (isStruct && x.2.single) = true then x.1.length else 0)]

theorem isEmpty_perm {α : Type} {l₁ l₂ : List α} (h : l₁ ~ l₂) : l₁.isEmpty = l₂.isEmpty := by
  have := h.length_eq
  cases l₁ <;> cases l₂ <;> simp_all

end Martian.Determinism
