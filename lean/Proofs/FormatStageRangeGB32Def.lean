import Proofs.FormatResGB

/-!
C09, `mem_gb` / `vmem_gb` as the REAL parser reads them (`readGB32`: the literal is rounded to the
nearest float32 before `roundUpTo(·, 1024)`): the finite obligation behind
`readGB32 (fmtGB mb) = some mb` for `|mb| < 256 GB`.

`gb32OK m`: for the fraction `m/1024` (`0 < m < 1024`) printed by `formatGB` as `.DDDD`
(`fracDigits m`) and EVERY whole part `I < 256`, the float32 nearest to `I.DDDD`, times 1024 and
rounded up, is `I·1024 + m`.  262 144 values; evaluated by the kernel in 64 slices of 16 fractions
(files `FormatStageRangeGB32S0` … `S3`; about 1.3 ms per value).

Core Lean only.
-/

namespace Martian.FormatRes
open Martian.Lexer (decValFrom)

def gb32OK (m : Nat) : Bool :=
  m == 0 || (List.range 256).all fun I =>
    f32MB (f32Round (I * 10 ^ (fracDigits m).length + decValFrom 0 (fracDigits m))
      (10 ^ (fracDigits m).length)) == I * 1024 + m

/-- 16 fractions: `16·j ≤ m < 16·(j+1)` -/
def gb32Slice (j : Nat) : Bool := (List.range' (16 * j) 16).all gb32OK

end Martian.FormatRes
