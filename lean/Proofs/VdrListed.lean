import Martian.Vdr
import Proofs.VdrInv
import Proofs.VdrShrink

/-! Every path listed in a kill report is gone: for every configuration and
every interleaving no entry with a listed path is left on the (model) disk,
at the event that lists it and ever after. -/
namespace Martian.Vdr

/-- entries with the same path are of the same kind (a path is one entry) -/
def PathKinds (disk : List DiskEnt) : Prop :=
  ∀ d ∈ disk, ∀ d' ∈ disk, d.path = d'.path → d.kind = d'.kind

structure LInv (s : St) : Prop where
  gone : ∀ p ∈ s.report.paths, ∀ d ∈ s.disk, d.path ≠ p
  uniq : PathKinds s.disk

theorem PathKinds.sub {a b : List DiskEnt} (u : PathKinds a) (h : ∀ d ∈ b, d ∈ a) : PathKinds b :=
  fun d hd d' hd' e => u d (h d hd) d' (h d' hd') e

theorem LInv.same {s s' : St} (l : LInv s) (hd : ∀ d ∈ s'.disk, d ∈ s.disk) (hp : s'.report.paths = s.report.paths) :
    LInv s' := by
  refine ⟨?_, l.uniq.sub hd⟩
  intro p hp' d hd'
  exact l.gone p (hp ▸ hp') d (hd d hd')

theorem LInv.ofFrame {s s' : St} (l : LInv s) (f : Frame s s') : LInv s' :=
  l.same (fun d h => f.disk ▸ h) (by rw [f.report])

theorem mem_topLevel {l : List Path} {p : Path} (h : p ∈ topLevel l) : p ∈ l := (List.mem_filter.mp h).1

theorem collapse_sub (acc l : List Path) : ∀ x ∈ collapse acc l, x ∈ acc ∨ x ∈ l := by
  induction l generalizing acc with
  | nil =>
    intro x hx
    simp only [collapse] at hx
    exact Or.inl (List.mem_reverse.mp hx)
  | cons p r ih =>
    intro x hx
    cases acc with
    | nil =>
      simp only [collapse] at hx
      rcases ih [p] x hx with h | h
      · simp at h; subst h; exact Or.inr List.mem_cons_self
      · exact Or.inr (List.mem_cons_of_mem _ h)
    | cons k acc =>
      simp only [collapse] at hx
      split at hx
      · rcases ih (k :: acc) x hx with h | h
        · exact Or.inl h
        · exact Or.inr (List.mem_cons_of_mem _ h)
      · rcases ih (p :: k :: acc) x hx with h | h
        · rcases List.mem_cons.mp h with rfl | h
          · exact Or.inr List.mem_cons_self
          · exact Or.inl h
        · exact Or.inr (List.mem_cons_of_mem _ h)

theorem pathIsInside_self (p : Path) : pathIsInside p p = true := by
  unfold pathIsInside
  simp

theorem LInv.cleanPhase {c : Cfg} {s : St} (l : LInv s) (ph : Nat) : LInv (cleanPhase c s ph) := by
  unfold Martian.Vdr.cleanPhase
  split
  · exact l
  · refine ⟨?_, l.uniq.sub (fun d h => (List.mem_filter.mp h).1)⟩
    intro p hp d hd
    simp only [List.mem_filter] at hd
    have old : p ∈ s.report.paths → d.path ≠ p := fun h => l.gone p h d hd.1
    dsimp only at hp
    split at hp
    · exact old hp
    · rcases List.mem_append.mp hp with h | h
      · exact old h
      · have hm := mem_topLevel h
        simp only [List.mem_map, List.mem_filter] at hm
        obtain ⟨g, ⟨hg, hk⟩, rfl⟩ := hm
        intro e
        have := l.uniq d hd.1 g hg e
        rw [this] at hd
        simp [hk] at hd

theorem cacheMap_report (c : Cfg) (s : St) : (cacheMap c s).report = s.report := by
  unfold cacheMap
  have f1 : Frame s (dropNoFiles c s) := foldRemove_frame (fun a => (c.filesOf a).isEmpty) s.dom s
  have f2 : Frame (dropNoFiles c s) (dropUnused (cacheEntries c s) (dropNoFiles c s)) :=
    foldRemove_frame (fun a => !((cacheEntries c s).any (fun e => e.args.contains a))) _ _
  show (dropUnused (cacheEntries c s) (dropNoFiles c s)).report = s.report
  rw [f2.report, f1.report]

theorem LInv.cleanTmp {c : Cfg} {s : St} (l : LInv s) (upto : Nat) : LInv (cleanTmp c s upto) := by
  rw [cleanTmp_eq]
  generalize List.range upto = r
  induction r generalizing s with
  | nil => exact l
  | cons x r ih => exact ih (l.cleanPhase x)

theorem LInv.normCache {c : Cfg} {s : St} (l : LInv s) : LInv (normCache c s) := by
  unfold Martian.Vdr.normCache
  split
  · exact l.same (fun d h => (cacheMap_disk c s) ▸ h) (by rw [cacheMap_report])
  · exact l.same (fun d h => h) rfl

theorem LInv.killCore {s : St} (l : LInv s) (es : List Entry) : LInv (killCore s es) := by
  unfold Martian.Vdr.killCore
  refine ⟨?_, l.uniq.sub (fun d h => (List.mem_filter.mp h).1)⟩
  intro p hp d hd
  simp only [List.mem_filter] at hd
  rcases List.mem_append.mp hp with h | h
  · exact l.gone p h d hd.1
  · rcases collapse_sub [] _ p h with h1 | h1
    · cases h1
    · rw [List.mem_mergeSort] at h1
      intro e
      have hk : ((List.map (fun x => x.path) (List.filter (fun e => e.args.isEmpty) es)).any
          fun k => pathIsInside d.path k) = true := by
        rw [List.any_eq_true]
        exact ⟨p, h1, by rw [e]; exact pathIsInside_self p⟩
      have := hd.2
      simp only [hk] at this
      cases this

theorem LInv.setFinal {s : St} (l : LInv s) (b : Bool) : LInv { s with final := b } :=
  l.same (fun d h => h) rfl

theorem LInv.vdrKillSome {c : Cfg} {s : St} (l : LInv s) (done : Bool) : LInv (vdrKillSome c s done) := by
  unfold Martian.Vdr.vdrKillSome
  dsimp only
  have h1 := l.normCache (c := c)
  generalize Martian.Vdr.normCache c s = s1 at *
  split
  · split
    · exact h1.setFinal true
    · exact h1
  · have h2 := h1.killCore (s1.cache.getD [])
    split
    · exact h2.setFinal true
    · exact h2

theorem LInv.vdrKill {c : Cfg} {s : St} (l : LInv s) : LInv (vdrKill c s) := by
  unfold Martian.Vdr.vdrKill
  split
  · exact l
  · split
    · exact l.vdrKillSome true
    · refine ⟨?_, l.uniq.sub (fun d h => (List.mem_filter.mp h).1)⟩
      intro p hp d hd
      simp only [List.mem_filter] at hd
      dsimp only at hp
      rcases List.mem_append.mp hp with h | h
      · exact l.gone p h d hd.1
      · have hm := mem_topLevel h
        split at hm
        · simp only [List.mem_map, List.mem_filter] at hm
          obtain ⟨g, ⟨hg, hk⟩, rfl⟩ := hm
          intro e
          have hkind := l.uniq d hd.1 g hg e
          rename_i hsp
          have := hd.2
          rw [hkind] at this
          simp [hsp, hk] at this
        · simp at hm

theorem LInv.kill {c : Cfg} {s : St} (l : LInv s) : LInv (kill c s) := by
  unfold Martian.Vdr.kill
  split
  · exact l
  · dsimp only
    have h1 := l.cleanTmp (c := c) 3
    generalize Martian.Vdr.cleanTmp c s 3 = s1 at *
    have h2 := h1.ofFrame (removePostNodes_frame
      ((s1.postNodes.map (·.1)).filter (fun n => s1.doneNodes.contains n)) s1)
    generalize removePostNodes s1 _ = s2 at *
    split
    · split
      · exact h2.vdrKillSome true
      · exact h2.vdrKill
    · split
      · exact h2.vdrKillSome false
      · exact h2

theorem LInv.step {c : Cfg} {s : St} (l : LInv s) (e : Ev) : LInv (step c s e) := by
  cases e with
  | nodeDone n => exact l.same (fun d h => h) rfl
  | nodeFailed n => exact l
  | nodeReset n => exact l
  | restart => exact l.same (fun d h => h) rfl
  | removeEmpty => exact l.ofFrame (foldRemove_frame (fun a => (c.namesOf a).isEmpty) s.dom s)
  | cacheMap => exact l.same (fun d h => (cacheMap_disk c s) ▸ h) (by show (cacheMap c s).report.paths = _; rw [cacheMap_report])
  | early upto =>
    show LInv (if s.final then s else Martian.Vdr.cleanTmp c s (min upto 3))
    split
    · exact l
    · exact l.cleanTmp _
  | kill => exact l.kill

theorem LInv.run {c : Cfg} {s : St} (l : LInv s) (evs : List Ev) : LInv (run c s evs) := by
  unfold Martian.Vdr.run
  induction evs generalizing s with
  | nil => exact l
  | cons e r ih => exact ih (l.step e)

end Martian.Vdr
