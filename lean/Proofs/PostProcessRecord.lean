/-
C13 `content_preserved`, the RECORD half, global: in a `Clean` situation the
rewritten record is the input record with every file leaf replaced by
`expectVal` — the path of its destination when the source existed, null when
it was missing / empty / relative, the value itself when it is not a string.
`pureHandler` is the traversal without a file system (the leaf function is an
oracle); `Good` says the oracle is right for the leaf calls of a run.
-/
import Martian.PostProcess
import Martian.PostProcessDefs
import Proofs.PostProcess
import Proofs.PostProcessLeaves
import Proofs.PostProcessDests
import Proofs.PostProcessContent

namespace Martian.PostProcess

/-! ## the traversal with an oracle for the leaves -/

/-! ## the oracle is right along a run -/

theorem good_append {ps : Path} {E : Leaf → J} (a b : List Leaf) (fs : FS) :
    Good ps E (a ++ b) fs ↔ Good ps E a fs ∧ Good ps E b (runLeaves ps a fs) := by
  induction a generalizing fs with
  | nil => simp [Good, runLeaves_nil]
  | cons l a ih => simp [Good, ih, runLeaves_cons, and_assoc]

theorem mapIdx_val (ps : Path) (E : Leaf → J) (f : Nat → J → FS → J × FS) (g : Nat → J → List Leaf)
    (pf : Nat → J → J)
    (hrun : ∀ i x fs, (f i x fs).2 = runLeaves ps (g i x) fs)
    (hval : ∀ i x fs, Good ps E (g i x) fs → (f i x fs).1 = pf i x)
    (i : Nat) (xs : List J) (fs : FS) (h : Good ps E (leavesIdx g i xs) fs) :
    (mapIdx f i xs fs).1 = pureIdx pf i xs := by
  induction xs generalizing i fs with
  | nil => rfl
  | cons x xs ih =>
    simp only [leavesIdx, good_append] at h
    simp only [mapIdx, pureIdx]
    rw [hval i x fs h.1, hrun, ih (i + 1) _ h.2]

theorem mapKeys_val (ps : Path) (E : Leaf → J) (f : String → FS → J × FS) (g : String → List Leaf)
    (pf : String → J)
    (hrun : ∀ k fs, (f k fs).2 = runLeaves ps (g k) fs)
    (hval : ∀ k fs, Good ps E (g k) fs → (f k fs).1 = pf k)
    (ks : List String) (fs : FS) (h : Good ps E (leavesKeys g ks) fs) :
    (mapKeys f ks fs).1 = pureKeys pf ks := by
  induction ks generalizing fs with
  | nil => rfl
  | cons k ks ih =>
    simp only [leavesKeys, good_append] at h
    simp only [mapKeys, pureKeys]
    rw [hval k fs h.1, hrun, ih _ h.2]

theorem arrLevel_val (ps : Path) (E : Leaf → J) (h : Handler) (g : LeafFn) (ph : PureH)
    (hrun : ∀ id on v o fs, (h id on v o fs).2 = runLeaves ps (g id on v o) fs)
    (hval : ∀ id on v o fs, Good ps E (g id on v o) fs → (h id on v o fs).1 = ph id on v o)
    (k : Nat) (v : J) (o : Path) (fs : FS) (hg : Good ps E (arrLeaves g k v o) fs) :
    (arrLevel true h k v o fs).1 = pureArr ph k v o := by
  induction k generalizing v o fs with
  | zero =>
    cases v with
    | arr xs =>
      simp only [arrLevel, pureArr]
      simp only [arrLeaves] at hg
      rw [mapIdx_val ps E _ (fun i x => g (pad (width xs.length) i) "" x o) _
        (fun i x fs => hrun _ _ _ _ _) (fun i x fs hh => hval _ _ _ _ _ hh) 0 xs fs hg]
    | null => rfl
    | lit s => rfl
    | str s => rfl
    | obj kvs => rfl
  | succ k ih =>
    cases v with
    | arr xs =>
      simp only [arrLevel, pureArr]
      simp only [arrLeaves] at hg
      rw [mapIdx_val ps E _ (arrElemLeaves (arrLeaves g k) o (width xs.length)) _ ?_ ?_ 0 xs fs hg]
      · intro i x fs
        cases x with
        | null => simp [arrElemLeaves, runLeaves_nil]
        | arr ys => simpa [arrElemLeaves] using arrLevel_run ps h g hrun k _ _ _
        | lit s => simpa [arrElemLeaves] using arrLevel_run ps h g hrun k _ _ _
        | str s => simpa [arrElemLeaves] using arrLevel_run ps h g hrun k _ _ _
        | obj kvs => simpa [arrElemLeaves] using arrLevel_run ps h g hrun k _ _ _
      · intro i x fs hh
        cases x with
        | null => rfl
        | arr ys => simpa [arrElemLeaves] using ih _ _ _ (by simpa [arrElemLeaves] using hh)
        | lit s => simpa [arrElemLeaves] using ih _ _ _ (by simpa [arrElemLeaves] using hh)
        | str s => simpa [arrElemLeaves] using ih _ _ _ (by simpa [arrElemLeaves] using hh)
        | obj kvs => simpa [arrElemLeaves] using ih _ _ _ (by simpa [arrElemLeaves] using hh)
    | null => rfl
    | lit s => rfl
    | str s => rfl
    | obj kvs => rfl

theorem mapLevel_val (ps : Path) (E : Leaf → J) (h : Handler) (g : LeafFn) (ph : PureH)
    (hrun : ∀ id on v o fs, (h id on v o fs).2 = runLeaves ps (g id on v o) fs)
    (hval : ∀ id on v o fs, Good ps E (g id on v o) fs → (h id on v o fs).1 = ph id on v o)
    (v : J) (o : Path) (fs : FS) (hg : Good ps E (mapLeaves g v o) fs) :
    (mapLevel h v o fs).1 = pureMap ph v o := by
  cases v with
  | obj kvs =>
    simp only [mapLevel, pureMap]
    simp only [mapLeaves] at hg
    rw [mapKeys_val ps E _ (fun k => g k "" ((lookupLast kvs k).getD .null) o) _
      (fun k fs => hrun _ _ _ _ _) (fun k fs hh => hval _ _ _ _ _ hh) _ fs hg]
  | null => rfl
  | lit s => rfl
  | str s => rfl
  | arr xs => rfl

theorem structLevel_val (ps : Path) (E : Leaf → J) (hs : MemberHandlers) (gs : MemberLeaves) (phs : PureMembers)
    (hk1 : hs.map Prod.fst = gs.map Prod.fst) (hk2 : hs.map Prod.fst = phs.map Prod.fst)
    (hrun : ∀ k v o fs, (memberHandler hs k v o fs).2 = runLeaves ps (memberLeaves gs k v o) fs)
    (hval : ∀ k v o fs, Good ps E (memberLeaves gs k v o) fs →
      (memberHandler hs k v o fs).1 = pureMember phs k v o)
    (v : J) (o : Path) (fs : FS) (hg : Good ps E (structLeaves gs v o) fs) :
    (structLevel hs v o fs).1 = pureStruct phs v o := by
  cases v with
  | obj kvs =>
    cases kvs with
    | nil => rfl
    | cons kv kvs =>
      simp only [structLevel, pureStruct]
      simp only [structLeaves] at hg
      rw [← hk1] at hg
      rw [← hk2]
      rw [mapKeys_val ps E _ (fun k => memberLeaves gs k ((lookupLast (kv :: kvs) k).getD .null) o) _
        (fun k fs => hrun _ _ _ _) (fun k fs hh => hval _ _ _ _ hh) _ fs hg]
  | null => rfl
  | lit s => rfl
  | str s => rfl
  | arr xs => rfl

theorem pureMs_keys (E : Leaf → J) (ms : List (String × String × Ty)) :
    (pureMs E ms).map Prod.fst = ms.map (·.1) := by
  induction ms with
  | nil => simp [pureMs]
  | cons m ms ih =>
    obtain ⟨id, on, t⟩ := m
    simp [pureMs, ih]

mutual
theorem handler_val (ps : Path) (E : Leaf → J) (ty : Ty) (id on : String) (v : J) (outs : Path) (fs : FS)
    (hg : Good ps E (leavesOf ty id on v outs) fs) :
    (handler true ps ty id on v outs fs).1 = pureHandler E ty id on v outs := by
  cases ty with
  | scalar => simp [handler, pureHandler]
  | file ext =>
    cases v with
    | null => simp [handler, pureHandler]
    | lit s => simpa [handler, pureHandler, leavesOf, Good] using hg
    | str s => simpa [handler, pureHandler, leavesOf, Good] using hg
    | arr xs => simpa [handler, pureHandler, leavesOf, Good] using hg
    | obj kvs => simpa [handler, pureHandler, leavesOf, Good] using hg
  | arr e k =>
    cases he : hasFile e with
    | false => simp [handler, pureHandler, he]
    | true =>
      have hR := fun id on v o fs => handler_run ps e id on v o fs
      have hV := fun id on v o fs hh => handler_val ps E e id on v o fs hh
      have := fun v hh => arrLevel_val ps E (handler true ps e) (leavesOf e) (pureHandler E e) hR hV k v
        (outs ++ [outFilename (.arr e k) id on]) fs hh
      cases v with
      | null => simp [handler, pureHandler, he]
      | lit s => simpa [handler, pureHandler, he] using this (.lit s) (by simpa [leavesOf, he] using hg)
      | str s => simpa [handler, pureHandler, he] using this (.str s) (by simpa [leavesOf, he] using hg)
      | arr xs => simpa [handler, pureHandler, he] using this (.arr xs) (by simpa [leavesOf, he] using hg)
      | obj kvs => simpa [handler, pureHandler, he] using this (.obj kvs) (by simpa [leavesOf, he] using hg)
  | tmap e =>
    cases he : hasFile e with
    | false => simp [handler, pureHandler, he]
    | true =>
      have hR := fun id on v o fs => handler_run ps e id on v o fs
      have hV := fun id on v o fs hh => handler_val ps E e id on v o fs hh
      have := fun v hh => mapLevel_val ps E (handler true ps e) (leavesOf e) (pureHandler E e) hR hV v
        (outs ++ [outFilename (.tmap e) id on]) fs hh
      cases v with
      | null => simp [handler, pureHandler, he]
      | lit s => simpa [handler, pureHandler, he] using this (.lit s) (by simpa [leavesOf, he] using hg)
      | str s => simpa [handler, pureHandler, he] using this (.str s) (by simpa [leavesOf, he] using hg)
      | arr xs => simpa [handler, pureHandler, he] using this (.arr xs) (by simpa [leavesOf, he] using hg)
      | obj kvs => simpa [handler, pureHandler, he] using this (.obj kvs) (by simpa [leavesOf, he] using hg)
  | struct ms =>
    cases he : hasFileMs ms with
    | false => simp [handler, pureHandler, he]
    | true =>
      have hR := fun k v o fs => handlersMs_run ps ms k v o fs
      have hV := fun k v o fs hh => handlersMs_val ps E ms k v o fs hh
      have := fun v hh => structLevel_val ps E (handlersMs true ps ms) (leavesMs ms) (pureMs E ms)
        (by rw [handlersMs_keys, leavesMs_keys]) (by rw [handlersMs_keys, pureMs_keys]) hR hV v
        (outs ++ [outFilename (.struct ms) id on]) fs hh
      cases v with
      | null => simp [handler, pureHandler, he]
      | lit s => simpa [handler, pureHandler, he] using this (.lit s) (by simpa [leavesOf, he] using hg)
      | str s => simpa [handler, pureHandler, he] using this (.str s) (by simpa [leavesOf, he] using hg)
      | arr xs => simpa [handler, pureHandler, he] using this (.arr xs) (by simpa [leavesOf, he] using hg)
      | obj kvs => simpa [handler, pureHandler, he] using this (.obj kvs) (by simpa [leavesOf, he] using hg)
theorem handlersMs_val (ps : Path) (E : Leaf → J) (ms : List (String × String × Ty)) (k : String) (v : J)
    (o : Path) (fs : FS) (hg : Good ps E (memberLeaves (leavesMs ms) k v o) fs) :
    (memberHandler (handlersMs true ps ms) k v o fs).1 = pureMember (pureMs E ms) k v o := by
  cases ms with
  | nil => simp [handlersMs, memberHandler, pureMs, pureMember]
  | cons m ms =>
    obtain ⟨id, on, t⟩ := m
    simp only [handlersMs, memberHandler, pureMs, pureMember]
    simp only [leavesMs, memberLeaves] at hg
    by_cases hk : id = k
    · simp only [hk, if_true] at hg ⊢
      exact handler_val ps E t k on v o fs hg
    · simp only [hk, if_false] at hg ⊢
      exact handlersMs_val ps E ms k v o fs hg
end

theorem handleOuts_val (ps : Path) (E : Leaf → J) (params : List (String × String × Ty))
    (outs : List (String × J)) (top : Path) (fs : FS) (hg : Good ps E (leavesRec params outs top) fs) :
    (handleOuts true ps params outs top fs).1 = pureOuts E params outs top := by
  induction params generalizing fs with
  | nil => rfl
  | cons m rest ih =>
    obtain ⟨id, on, ty⟩ := m
    simp only [handleOuts, pureOuts]
    simp only [leavesRec] at hg
    cases hl : lookupLast outs id with
    | none =>
      rw [hl] at hg
      exact ih fs hg
    | some v =>
      rw [hl] at hg
      simp only [good_append] at hg
      simp only [moveOut]
      rw [handler_val ps E ty id on v top fs hg.1, handler_run, ih _ hg.2]

/-! ## the oracle of a `Clean` situation -/

theorem clean_good (ps top : Path) (fs0 : FS) (ls : List Leaf) (fs : FS) (hc : Clean ps top fs ls)
    (hag : ∀ l ∈ ls, ∀ p, l.src = some p → fs.get p = fs0.get p) :
    Good ps (expectVal fs0) ls fs := by
  induction ls generalizing fs with
  | nil => trivial
  | cons l ls ih =>
    have hn := List.pairwise_cons.mp hc.nonnest
    have hlb : top <+: l.outs := hc.below l (by simp)
    refine ⟨?_, ih _ (clean_tail ps top fs l ls hc) ?_⟩
    · -- the head's value
      cases hsrc : l.src with
      | none =>
        obtain ⟨v, o, n⟩ := l
        cases v with
        | str s =>
          by_cases hs : s = ""
          · simp [moveOutFile, expectVal, hs]
          · simp only [Leaf.src, hs, if_false] at hsrc
            simp [moveOutFile, expectVal, hs, hsrc]
        | null => rfl
        | lit s => rfl
        | arr xs => rfl
        | obj kvs => rfl
      | some p =>
        have hfree := hc.free l (by simp)
        obtain ⟨s, hv, hs, hp, hst⟩ := runLeaf_movable fs l p hsrc hfree
        have hag' := hag l (by simp) p hsrc
        rcases hc.status l (by simp) p hsrc with hnone | ⟨e, he, hlk, hin⟩
        · rw [hv, moveOutFile_missing ps l.outs l.name s p fs hs hp hnone hfree]
          simp [expectVal, hv, hs, hp, ← hag', hnone]
        · have hap := hc.apart l (by simp) p hsrc
          have hm := (moveOutFile_moved ps l.outs l.name s p e fs hs hp he hlk hin hst
            (isPrefix_false_iff.mpr (unrelated_below hap.1 hap.2 hlb).1)
            (isPrefix_false_iff.mpr (fun hh => hap.2 ((dest_below hlb).trans hh)))).1
          rw [hv, hm]
          simp [expectVal, hv, hs, hp, ← hag', he, Leaf.dest]
    · -- the sources of the later leaves are untouched by this step
      intro l' hl' p' hp'
      have hap := hc.apart l' (by simp [hl']) p' hp'
      rw [← hag l' (by simp [hl']) p' hp']
      apply step_frame ps top fs l ls hc
      · intro p hp; exact (hn.1 l' hl' p p' hp hp').1
      · exact fun h => hap.2 ((dest_below hlb).trans h)
      · exact fun h => (unrelated_below hap.1 hap.2 hlb).1 h

/-- the RECORD half of `content_preserved` for a whole record -/
theorem record_values (ps top : Path) (fs : FS) (params : List (String × String × Ty))
    (outs : List (String × J)) (hc : Clean ps top fs (leavesRec params outs top)) :
    (processStructOuts true ps params (.obj outs) top fs).1 =
      .obj (pureOuts (expectVal fs) params outs top) := by
  simp only [processStructOuts]
  congr 1
  apply handleOuts_val
  split
  · apply clean_good ps top fs _ _ (clean_mkdirAll ps top fs _ hc)
    intro l hl p hp
    exact mkdirAll_get_other _ _ _ (isPrefix_false_iff.mpr (hc.apart l hl p hp).1)
  · exact clean_good ps top fs _ _ hc (fun _ _ _ _ => rfl)

end Martian.PostProcess
