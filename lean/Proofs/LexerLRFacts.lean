import Martian.LexerLRCheck
import Martian.LexerLRGen
import Martian.LexerLRSem
import Martian.LexerLRSites

/-! Kernel-evaluated obligations on the regenerated parser facts (statements repeated, with their
explanations, in Props/C08.lean; a module of its own so that they build in parallel). -/
namespace Martian.LexerLR

theorem gen_lr_tables_well_chunked :
    (wellChunked genTables.exca && wellChunked genTables.act && wellChunked genTables.pact &&
     wellChunked genTables.pgo && wellChunked genTables.r1 && wellChunked genTables.r2 &&
     wellChunked genTables.chk && wellChunked genTables.dfl && wellChunked genTables.tok1 &&
     wellChunked genTables.tok2 && wellChunked genTables.tok3 && wellChunked genCert.pred &&
     wellChunked genCert.rank) = true := by decide +kernel

theorem gen_lr_invalid_never_shifted :
    ((["SKIP", "COMMENT", "INVALID"].all fun name =>
        match lex1 genTables (Martian.Tokenizer.lookupId Gen.tokIds name : Nat) with
        | some tok => neverShifted genTables tok
        | none => false) &&
      neverShifted genTables genTables.eofCode && neverShifted genTables genTables.errCode) = true := by decide +kernel

theorem gen_lr_productions_match_tables :
    Gen.mmProdRhs.length = NP genTables ∧
    ((List.range Gen.mmProdRhs.length).all fun n =>
      n == 0 || ((prodRhs n).length : Int) == (genTables.r2.get? n).getD (-1)) = true ∧
    (lhsPairs.all fun p => lhsPairs.all fun q => (p.1 == q.1) == (p.2 == q.2)) = true := by decide +kernel

theorem gen_lr_dollar_slices_match :
    (Gen.mmDollarLen.all fun p => (genTables.r2.get? p.1) == some (p.2 : Int)) = true ∧
    Gen.mmDollarLen.length > 0 := by decide +kernel

theorem gen_conversion_sites_pinned :
    (Gen.mmConvSites.map fun s => (prodLhs s.1, s.2.1, siteSymbol s)) = expectedSites ∧
    (Gen.mmConvSites.all fun s => siteSymbol s == wants s.2.1 &&
      ["parseInt", "parseFloat", "tryParseFloat32", "unquote"].contains s.2.1) = true := by decide +kernel

theorem gen_lr_value_actions_recognised :
    (semTable.all fun p => Gen.mmProdBody.any fun q => q.2 == p.1) = true ∧
    (semTable.all fun p => semTable.all fun q => p.1 != q.1 || p.2 == q.2) = true := by decide +kernel

end Martian.LexerLR
