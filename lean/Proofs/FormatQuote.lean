import Martian.Format
import Proofs.ShellQuote

/-! `unquoteBytes (quoteString s) = some s` for every valid UTF-8 string. -/
namespace Martian.Format
open Martian.Lexer (unqLoop unquoteBytes goEscape surrPair encodeRune hexByte hexVal isOct isDigit)
open Martian.ShellQuote (runeWidth validFrom validUtf8 runeWidth_cont ge80_not_special)

/-! ### single steps of the unquote loop -/

theorem unq_plain (g : Nat) (c : UInt8) (X : (List UInt8)) (h : (c == 0x5C) = false) :
    unqLoop (g + 1) (c :: X) = (unqLoop g X).map (c :: ·) := by
  have : (c != 0x5C) = true := by simp [bne, h]
  simp [unqLoop, this]

theorem unq_esc (g : Nat) (c2 : UInt8) (Y X out : (List UInt8)) (h : goEscape c2 Y = some (out, X)) :
    unqLoop (g + 1) (0x5C :: c2 :: Y) = (unqLoop g X).map (out ++ ·) := by
  simp [unqLoop, h]

theorem hex_roundtrip : ∀ n, n < 32 →
    hexByte (hexDigit (n / 16)) (hexDigit (n % 16)) = some n := by decide

theorem encodeRune_ascii (n : Nat) (h : n < 0x80) : encodeRune n = [UInt8.ofNat n] := by
  simp [encodeRune, h]

theorem surrPair_low (r : Nat) (X : (List UInt8)) (h : r < 0xD800) : surrPair r X = some (encodeRune r, X) := by
  have : ¬ (0xD800 ≤ r) := by omega
  simp [surrPair, this]

theorem lt80_toNat {b : UInt8} (h : b < 0x80) : b.toNat < 128 := by
  have := UInt8.lt_iff_toNat_lt.mp h; simpa using this

/-- what `quoteString` writes for an ASCII byte is read back as that byte, using one unit of fuel -/
theorem unq_escAscii (g : Nat) (b : UInt8) (X : (List UInt8)) (hb : b < 0x80) :
    unqLoop (g + 1) (escAscii b ++ X) = (unqLoop g X).map (b :: ·) := by
  unfold escAscii
  by_cases h1 : (b == 0x5C || b == 0x22) = true
  · simp only [h1, ↓reduceIte, List.cons_append, List.nil_append]
    simp only [Bool.or_eq_true, beq_iff_eq] at h1
    rcases h1 with rfl | rfl
    · rw [unq_esc g 0x5C X X [0x5C] (by simp [goEscape, isOct])]; rfl
    · rw [unq_esc g 0x22 X X [0x22] (by simp [goEscape, isOct])]; rfl
  · simp only [h1, Bool.false_eq_true, ↓reduceIte]
    have h5c : (b == 0x5C) = false := by
      simp only [Bool.or_eq_true, not_or, Bool.not_eq_true] at h1; exact h1.1
    by_cases h2 : (0x20 : UInt8) ≤ b
    · simp only [h2, ↓reduceIte, List.cons_append, List.nil_append]
      exact unq_plain g b X h5c
    · simp only [h2, ↓reduceIte]
      by_cases h8 : (b == 0x08) = true
      · have := eq_of_beq h8; subst this
        simp only [beq_self_eq_true, ↓reduceIte, List.cons_append, List.nil_append]
        rw [unq_esc g 0x62 X X [0x08] (by simp [goEscape])]; rfl
      · simp only [h8, Bool.false_eq_true, ↓reduceIte]
        by_cases hc : (b == 0x0C) = true
        · have := eq_of_beq hc; subst this
          simp only [beq_self_eq_true, ↓reduceIte, List.cons_append, List.nil_append]
          rw [unq_esc g 0x66 X X [0x0C] (by simp [goEscape])]; rfl
        · simp only [hc, Bool.false_eq_true, ↓reduceIte]
          by_cases ha : (b == 0x0A) = true
          · have := eq_of_beq ha; subst this
            simp only [beq_self_eq_true, ↓reduceIte, List.cons_append, List.nil_append]
            rw [unq_esc g 0x6E X X [0x0A] (by simp [goEscape])]; rfl
          · simp only [ha, Bool.false_eq_true, ↓reduceIte]
            by_cases hd : (b == 0x0D) = true
            · have := eq_of_beq hd; subst this
              simp only [beq_self_eq_true, ↓reduceIte, List.cons_append, List.nil_append]
              rw [unq_esc g 0x72 X X [0x0D] (by simp [goEscape])]; rfl
            · simp only [hd, Bool.false_eq_true, ↓reduceIte]
              by_cases h9 : (b == 0x09) = true
              · have := eq_of_beq h9; subst this
                simp only [beq_self_eq_true, ↓reduceIte, List.cons_append, List.nil_append]
                rw [unq_esc g 0x74 X X [0x09] (by simp [goEscape])]; rfl
              · simp only [h9, Bool.false_eq_true, ↓reduceIte, List.cons_append, List.nil_append]
                -- \u00XY
                have hlt : b.toNat < 32 := by
                  have : ¬ (32 ≤ b.toNat) := by
                    intro hh; apply h2; exact UInt8.le_iff_toNat_le.mpr (by simpa using hh)
                  omega
                have hx := hex_roundtrip b.toNat hlt
                have h00 : hexByte 0x30 0x30 = some 0 := by decide
                have hgo : goEscape 0x75 (0x30 :: 0x30 :: hexDigit (b.toNat / 16) :: hexDigit (b.toNat % 16) :: X)
                    = some ([b], X) := by
                  have hs := surrPair_low b.toNat X (by omega)
                  have he : encodeRune b.toNat = [b] := by
                    rw [encodeRune_ascii _ (by omega)]; simp
                  simp [goEscape, hx, h00, hs, he]
                rw [unq_esc g 0x75 _ X [b] hgo]; rfl

theorem unq_esc2028 (g : Nat) (X : (List UInt8)) :
    unqLoop (g + 1) (esc2028 ++ X) = (unqLoop g X).map ([0xE2, 0x80, 0xA8] ++ ·) := by
  have hgo : goEscape 0x75 (0x32 :: 0x30 :: 0x32 :: 0x38 :: X) = some ([0xE2, 0x80, 0xA8], X) := by
    have h1 : hexByte 0x32 0x30 = some 0x20 := by decide
    have h2 : hexByte 0x32 0x38 = some 0x28 := by decide
    have hs := surrPair_low (0x28 + 0x20 * 256) X (by decide)
    have he : encodeRune (0x28 + 0x20 * 256) = [0xE2, 0x80, 0xA8] := by decide
    simp [goEscape, h1, h2, hs, he]
  simp only [esc2028, List.cons_append, List.nil_append]
  exact unq_esc g 0x75 _ X _ hgo

theorem unq_esc2029 (g : Nat) (X : (List UInt8)) :
    unqLoop (g + 1) (esc2029 ++ X) = (unqLoop g X).map ([0xE2, 0x80, 0xA9] ++ ·) := by
  have hgo : goEscape 0x75 (0x32 :: 0x30 :: 0x32 :: 0x39 :: X) = some ([0xE2, 0x80, 0xA9], X) := by
    have h1 : hexByte 0x32 0x30 = some 0x20 := by decide
    have h2 : hexByte 0x32 0x39 = some 0x29 := by decide
    have hs := surrPair_low (0x29 + 0x20 * 256) X (by decide)
    have he : encodeRune (0x29 + 0x20 * 256) = [0xE2, 0x80, 0xA9] := by decide
    simp [goEscape, h1, h2, hs, he]
  simp only [esc2029, List.cons_append, List.nil_append]
  exact unq_esc g 0x75 _ X _ hgo

theorem escAscii_len (b : UInt8) : 1 ≤ (escAscii b).length := by
  unfold escAscii
  repeat' split
  all_goals simp

end Martian.Format

namespace Martian.Format
open Martian.Lexer (unqLoop unquoteBytes)
open Martian.ShellQuote (runeWidth validFrom validUtf8 runeWidth_cont ge80_not_special)

/-- the invariant tying the pending-continuation state to UTF-8 validity -/
def PendOK (s : List UInt8) : Pend → Prop
  | .none => validFrom s 0 = true
  | .copy k => validFrom s k = true ∧ ∀ x ∈ s.take k, ¬ x < 0x80
  | .drop k => validFrom s k = true

/-- what the rest of the input unquotes to: dropped continuation bytes were
already produced by the ` `/` ` escape -/
def pendOut (s : List UInt8) : Pend → List UInt8
  | .drop k => s.drop k
  | _ => s

theorem validFrom_succ (b : UInt8) (r : List UInt8) (k : Nat) :
    validFrom (b :: r) (k + 1) = validFrom r k := by simp [validFrom]

theorem runeWidth_E2 (t : List UInt8) (x : UInt8) (hx : x = 0xA8 ∨ x = 0xA9) :
    runeWidth (0xE2 :: 0x80 :: x :: t) = some 3 := by
  rcases hx with rfl | rfl <;> cases t <;> simp [runeWidth, Martian.ShellQuote.ok2, Martian.ShellQuote.ok3, Martian.ShellQuote.isCont] <;> decide

theorem take2_eq {r : List UInt8} {a b : UInt8} (h : (r.take 2 == [a, b]) = true) :
    ∃ t, r = a :: b :: t := by
  have h := eq_of_beq h
  match r, h with
  | x :: y :: t, h =>
    simp only [List.take_succ_cons, List.take_zero, List.cons.injEq, and_true] at h
    exact ⟨t, by rw [h.1, h.2]⟩

theorem unq_quoteFrom : ∀ (s : List UInt8) (p : Pend) (g : Nat),
    (quoteFrom s p).length < g → PendOK s p →
    unqLoop g (quoteFrom s p) = some (pendOut s p) := by
  intro s
  induction s with
  | nil =>
    intro p g hg _
    obtain ⟨g', rfl⟩ : ∃ g', g = g' + 1 := ⟨g - 1, by omega⟩
    cases p <;> simp [quoteFrom, unqLoop, pendOut]
  | cons b r ih =>
    intro p g hg hp
    -- the generic case (no pending continuation bytes)
    have generic : validFrom (b :: r) 0 = true →
        (quoteFrom (b :: r) p =
          if b < 0x80 then escAscii b ++ quoteFrom r .none
          else match runeWidth (b :: r) with
            | some w =>
              if b == 0xE2 && r.take 2 == [0x80, 0xA8] then esc2028 ++ quoteFrom r (.drop 2)
              else if b == 0xE2 && r.take 2 == [0x80, 0xA9] then esc2029 ++ quoteFrom r (.drop 2)
              else b :: quoteFrom r (if w ≤ 1 then .none else .copy (w - 1))
            | none => escFFFD ++ quoteFrom r .none) →
        pendOut (b :: r) p = b :: r →
        unqLoop g (quoteFrom (b :: r) p) = some (b :: r) := by
      intro hv hq _
      rw [hq] at hg ⊢
      obtain ⟨g', rfl⟩ : ∃ g', g = g' + 1 := ⟨g - 1, by omega⟩
      by_cases hb : b < 0x80
      · simp only [hb, ↓reduceIte] at hg ⊢
        have hw : runeWidth (b :: r) = some 1 := by simp [runeWidth, hb]
        simp only [validFrom, hw] at hv
        rw [unq_escAscii g' b _ hb]
        have hl := escAscii_len b
        rw [ih .none g' (by simp only [List.length_append] at hg; omega) hv]
        rfl
      · simp only [hb, ↓reduceIte] at hg ⊢
        simp only [validFrom] at hv
        cases hw : runeWidth (b :: r) with
        | none => simp [hw] at hv
        | some w =>
          simp only [hw] at hv hg ⊢
          by_cases h28 : (b == 0xE2 && r.take 2 == [0x80, 0xA8]) = true
          · simp only [h28, ↓reduceIte] at hg ⊢
            simp only [Bool.and_eq_true] at h28
            have hbe := eq_of_beq h28.1
            obtain ⟨t, rfl⟩ := take2_eq h28.2
            subst hbe
            rw [runeWidth_E2 t 0xA8 (Or.inl rfl)] at hw
            injection hw with hw; subst hw
            rw [unq_esc2028 g' _]
            rw [ih (.drop 2) g' (by simp only [esc2028, List.length_append, List.length_cons, List.length_nil] at hg; omega) hv]
            simp [pendOut]
          · simp only [h28, Bool.false_eq_true, ↓reduceIte] at hg ⊢
            by_cases h29 : (b == 0xE2 && r.take 2 == [0x80, 0xA9]) = true
            · simp only [h29, ↓reduceIte] at hg ⊢
              simp only [Bool.and_eq_true] at h29
              have hbe := eq_of_beq h29.1
              obtain ⟨t, rfl⟩ := take2_eq h29.2
              subst hbe
              rw [runeWidth_E2 t 0xA9 (Or.inr rfl)] at hw
              injection hw with hw; subst hw
              rw [unq_esc2029 g' _]
              rw [ih (.drop 2) g' (by simp only [esc2029, List.length_append, List.length_cons, List.length_nil] at hg; omega) hv]
              simp [pendOut]
            · simp only [h29, Bool.false_eq_true, ↓reduceIte] at hg ⊢
              obtain ⟨_, _, _, h5c⟩ := ge80_not_special b hb
              rw [unq_plain g' b _ h5c]
              have hcont := runeWidth_cont b r w hb hw
              by_cases hw1 : w ≤ 1
              · simp only [hw1, ↓reduceIte] at hg ⊢
                have : w - 1 = 0 := by omega
                rw [this] at hv
                rw [ih .none g' (by simp only [List.length_cons] at hg; omega) hv]
                rfl
              · simp only [hw1, ↓reduceIte] at hg ⊢
                rw [ih (.copy (w - 1)) g' (by simp only [List.length_cons] at hg; omega) ⟨hv, hcont⟩]
                rfl
    cases p with
    | none => exact generic hp rfl rfl
    | copy k =>
      cases k with
      | zero => exact generic hp.1 rfl rfl
      | succ k =>
        obtain ⟨hv, hk⟩ := hp
        rw [validFrom_succ] at hv
        have hb : ¬ b < 0x80 := hk b (by simp)
        obtain ⟨_, _, _, h5c⟩ := ge80_not_special b hb
        obtain ⟨g', rfl⟩ : ∃ g', g = g' + 1 := ⟨g - 1, by omega⟩
        simp only [quoteFrom] at hg ⊢
        rw [unq_plain g' b _ h5c]
        have hk' : ∀ x ∈ r.take k, ¬ x < 0x80 := fun x hx => hk x (by simp [List.take_succ_cons, hx])
        by_cases hk0 : k = 0
        · subst hk0
          simp only [↓reduceIte] at hg ⊢
          rw [ih .none g' (by simp only [List.length_cons] at hg; omega) hv]
          rfl
        · simp only [hk0, ↓reduceIte] at hg ⊢
          rw [ih (.copy k) g' (by simp only [List.length_cons] at hg; omega) ⟨hv, hk'⟩]
          rfl
    | drop k =>
      cases k with
      | zero => exact generic hp rfl (by simp [pendOut])
      | succ k =>
        have hv : validFrom r k = true := by rw [← validFrom_succ b r k]; exact hp
        simp only [quoteFrom] at hg ⊢
        by_cases hk0 : k = 0
        · subst hk0
          simp only [↓reduceIte] at hg ⊢
          rw [ih .none g hg hv]
          simp [pendOut]
        · simp only [hk0, ↓reduceIte] at hg ⊢
          rw [ih (.drop k) g hg hv]
          simp [pendOut]

/-- For every valid UTF-8 byte string, the lexer's `unquoteBytes` reads back
exactly what `quoteString` was given. -/
theorem unquote_quoteString (s : List UInt8) (h : validUtf8 s = true) :
    unquoteBytes (quoteString s) = some s := by
  have := unq_quoteFrom s .none ((quoteBody s).length + 1) (by simp [quoteBody]) h
  simp [unquoteBytes, quoteString, quoteBody, pendOut] at this ⊢
  exact this

end Martian.Format
