import Martian.Vdr
import Proofs.VdrInv
import Proofs.VdrNonVol

/-! Structural facts for every configuration: the disk only shrinks and what
is logged as removed was on disk; exact accounting for non-volatile forks;
what one full pass leaves behind. -/
namespace Martian.Vdr

/-- `s'` has lost disk entries of `s` and logged nothing else as removed -/
structure Shr (s s' : St) : Prop where
  disk : ∀ d ∈ s'.disk, d ∈ s.disk
  removed : ∀ d ∈ s'.removed, d ∈ s.removed ∨ d ∈ s.disk

theorem Shr.refl (s : St) : Shr s s := ⟨fun _ h => h, fun _ h => Or.inl h⟩
theorem Shr.trans {a b c : St} (x : Shr a b) (y : Shr b c) : Shr a c := by
  refine ⟨fun d h => x.disk d (y.disk d h), ?_⟩
  intro d h
  rcases y.removed d h with h1 | h1
  · exact x.removed d h1
  · exact Or.inr (x.disk d h1)
theorem Shr.ofFrame {s s' : St} (f : Frame s s') : Shr s s' :=
  ⟨fun d h => f.disk ▸ h, fun d h => Or.inl (f.removed ▸ h)⟩
theorem Shr.ofEq {s s' : St} (hd : s'.disk = s.disk) (hr : s'.removed = s.removed) : Shr s s' :=
  ⟨fun d h => hd ▸ h, fun d h => Or.inl (hr ▸ h)⟩

theorem cacheMap_disk (c : Cfg) (s : St) : (cacheMap c s).disk = s.disk := by
  unfold cacheMap
  have f1 : Frame s (dropNoFiles c s) := foldRemove_frame (fun a => (c.filesOf a).isEmpty) s.dom s
  have f2 : Frame (dropNoFiles c s) (dropUnused (cacheEntries c s) (dropNoFiles c s)) :=
    foldRemove_frame (fun a => !((cacheEntries c s).any (fun e => e.args.contains a))) _ _
  show (dropUnused (cacheEntries c s) (dropNoFiles c s)).disk = s.disk
  rw [f2.disk, f1.disk]

theorem shr_cleanPhase (c : Cfg) (s : St) (ph : Nat) : Shr s (cleanPhase c s ph) := by
  unfold cleanPhase
  split
  · exact Shr.refl s
  · refine ⟨fun d h => (List.mem_filter.mp h).1, ?_⟩
    intro d h
    simp only [List.mem_append, List.mem_filter] at h
    rcases h with h | ⟨h, _⟩
    · exact Or.inl h
    · exact Or.inr h

theorem shr_cleanTmp (c : Cfg) (s : St) (upto : Nat) : Shr s (cleanTmp c s upto) := by
  rw [cleanTmp_eq]
  generalize List.range upto = l
  induction l generalizing s with
  | nil => exact Shr.refl s
  | cons x r ih => exact (shr_cleanPhase c s x).trans (ih _)

theorem shr_normCache (c : Cfg) (s : St) : Shr s (normCache c s) := by
  unfold normCache
  split
  · exact Shr.ofEq (cacheMap_disk c s) (cacheMap_removed c s)
  · exact Shr.ofEq rfl rfl

theorem shr_killCore (s : St) (es : List Entry) : Shr s (killCore s es) := by
  unfold killCore
  refine ⟨fun d h => (List.mem_filter.mp h).1, ?_⟩
  intro d h
  simp only [List.mem_append, List.mem_filter] at h
  rcases h with h | ⟨h, _⟩
  · exact Or.inl h
  · exact Or.inr h

theorem shr_vdrKillSome (c : Cfg) (s : St) (done : Bool) : Shr s (vdrKillSome c s done) := by
  unfold vdrKillSome
  dsimp only
  have h1 := shr_normCache c s
  generalize normCache c s = s1 at *
  split
  · split
    · exact h1.trans (Shr.ofEq rfl rfl)
    · exact h1
  · have h2 := h1.trans (shr_killCore s1 (s1.cache.getD []))
    split
    · exact h2.trans (Shr.ofEq rfl rfl)
    · exact h2

theorem shr_vdrKill (c : Cfg) (s : St) : Shr s (vdrKill c s) := by
  unfold vdrKill
  split
  · exact Shr.refl s
  · split
    · exact shr_vdrKillSome c s true
    · refine ⟨fun d h => (List.mem_filter.mp h).1, ?_⟩
      intro d h
      simp only [List.mem_append] at h
      rcases h with h | h
      · exact Or.inl h
      · split at h
        · exact Or.inr (List.mem_filter.mp h).1
        · cases h

theorem shr_kill (c : Cfg) (s : St) : Shr s (kill c s) := by
  unfold kill
  split
  · exact Shr.refl s
  · dsimp only
    have h1 := shr_cleanTmp c s 3
    generalize cleanTmp c s 3 = s1 at *
    have h2 := h1.trans (Shr.ofFrame (removePostNodes_frame
      ((s1.postNodes.map (·.1)).filter (fun n => s1.doneNodes.contains n)) s1))
    generalize removePostNodes s1 _ = s2 at *
    split
    · split
      · exact h2.trans (shr_vdrKillSome c s2 true)
      · exact h2.trans (shr_vdrKill c s2)
    · split
      · exact h2.trans (shr_vdrKillSome c s2 false)
      · exact h2

theorem shr_step (c : Cfg) (s : St) (e : Ev) : Shr s (step c s e) := by
  cases e with
  | nodeDone n => exact Shr.ofEq rfl rfl
  | nodeFailed n => exact Shr.refl s
  | nodeReset n => exact Shr.refl s
  | restart => exact Shr.ofEq rfl rfl
  | removeEmpty => exact Shr.ofFrame (foldRemove_frame (fun a => (c.namesOf a).isEmpty) s.dom s)
  | cacheMap => exact Shr.ofEq (cacheMap_disk c s) (cacheMap_removed c s)
  | early upto =>
    show Shr s (if s.final then s else cleanTmp c s (min upto 3))
    split
    · exact Shr.refl s
    · exact shr_cleanTmp c s _
  | kill => exact shr_kill c s

theorem shr_run (c : Cfg) (s : St) (evs : List Ev) : Shr s (run c s evs) := by
  unfold run
  induction evs generalizing s with
  | nil => exact Shr.refl s
  | cons e r ih => exact (shr_step c s e).trans (ih _)

/-! ### exact accounting for non-volatile forks -/

theorem sumSize_append (a b : List DiskEnt) : sumSize (a ++ b) = sumSize a + sumSize b := by
  simp [sumSize, List.sum_append]

def Exact (s : St) : Prop := s.report.count = s.removed.length ∧ s.report.size = sumSize s.removed

theorem Exact.ofEq {s s' : St} (x : Exact s) (hr : s'.removed = s.removed) (hp : s'.report = s.report) : Exact s' := by
  unfold Exact at *
  rw [hr, hp]; exact x

theorem exact_cleanPhase (c : Cfg) (s : St) (ph : Nat) (x : Exact s) : Exact (cleanPhase c s ph) := by
  unfold cleanPhase
  split
  · exact x
  · unfold Exact at *
    simp only [List.length_append, sumSize_append]
    omega

theorem exact_cleanTmp (c : Cfg) (s : St) (upto : Nat) (x : Exact s) : Exact (cleanTmp c s upto) := by
  rw [cleanTmp_eq]
  generalize List.range upto = l
  induction l generalizing s with
  | nil => exact x
  | cons y r ih => exact ih _ (exact_cleanPhase c s y x)

theorem exact_kill_nonvol (c : Cfg) (s : St) (hv : c.volatile = false) (hs : c.strict = false) (x : Exact s) :
    Exact (kill c s) := by
  unfold kill
  split
  · exact x
  · dsimp only
    have h1 := exact_cleanTmp c s 3 x
    generalize cleanTmp c s 3 = s1 at *
    have f2 := removePostNodes_frame ((s1.postNodes.map (·.1)).filter (fun n => s1.doneNodes.contains n)) s1
    have h2 : Exact (removePostNodes s1 ((s1.postNodes.map (·.1)).filter (fun n => s1.doneNodes.contains n))) :=
      h1.ofEq f2.removed f2.report
    generalize removePostNodes s1 _ = s2 at *
    simp only [hs, Bool.false_eq_true, if_false]
    split
    · unfold vdrKill
      split
      · exact h2
      · simp only [hv, Bool.false_eq_true, if_false]
        unfold Exact at *
        simp only [List.length_append, sumSize_append]
        omega
    · exact h2

theorem exact_step_nonvol (c : Cfg) (s : St) (hv : c.volatile = false) (hs : c.strict = false) (e : Ev)
    (x : Exact s) : Exact (step c s e) := by
  cases e with
  | nodeDone n => exact x.ofEq rfl rfl
  | nodeFailed n => exact x
  | nodeReset n => exact x
  | restart => exact x.ofEq rfl rfl
  | removeEmpty =>
    have f := foldRemove_frame (fun a => (c.namesOf a).isEmpty) s.dom s
    exact x.ofEq f.removed f.report
  | cacheMap =>
    have f1 : Frame s (dropNoFiles c s) := foldRemove_frame (fun a => (c.filesOf a).isEmpty) s.dom s
    have f2 : Frame (dropNoFiles c s) (dropUnused (cacheEntries c s) (dropNoFiles c s)) :=
      foldRemove_frame (fun a => !((cacheEntries c s).any (fun e => e.args.contains a))) _ _
    exact x.ofEq (cacheMap_removed c s) (show (dropUnused (cacheEntries c s) (dropNoFiles c s)).report = s.report by
      rw [f2.report, f1.report])
  | early upto =>
    show Exact (if s.final then s else cleanTmp c s (min upto 3))
    split
    · exact x
    · exact exact_cleanTmp c s _ x
  | kill => exact exact_kill_nonvol c s hv hs x

theorem exact_run_nonvol (c : Cfg) (s : St) (hv : c.volatile = false) (hs : c.strict = false) (evs : List Ev)
    (x : Exact s) : Exact (run c s evs) := by
  unfold run
  induction evs generalizing s with
  | nil => exact x
  | cons e r ih => exact ih _ (exact_step_nonvol c s hv hs e x)


end Martian.Vdr
