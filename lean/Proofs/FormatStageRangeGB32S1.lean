import Proofs.FormatStageRangeGB32Def

/-! C09: slices 16 … 31 of the finite obligation `gb32OK` (kernel evaluation, 4096 values each). -/

namespace Martian.FormatRes

set_option maxRecDepth 100000 in
theorem gb32Slice_16 : gb32Slice 16 = true := by decide +kernel
set_option maxRecDepth 100000 in
theorem gb32Slice_17 : gb32Slice 17 = true := by decide +kernel
set_option maxRecDepth 100000 in
theorem gb32Slice_18 : gb32Slice 18 = true := by decide +kernel
set_option maxRecDepth 100000 in
theorem gb32Slice_19 : gb32Slice 19 = true := by decide +kernel
set_option maxRecDepth 100000 in
theorem gb32Slice_20 : gb32Slice 20 = true := by decide +kernel
set_option maxRecDepth 100000 in
theorem gb32Slice_21 : gb32Slice 21 = true := by decide +kernel
set_option maxRecDepth 100000 in
theorem gb32Slice_22 : gb32Slice 22 = true := by decide +kernel
set_option maxRecDepth 100000 in
theorem gb32Slice_23 : gb32Slice 23 = true := by decide +kernel
set_option maxRecDepth 100000 in
theorem gb32Slice_24 : gb32Slice 24 = true := by decide +kernel
set_option maxRecDepth 100000 in
theorem gb32Slice_25 : gb32Slice 25 = true := by decide +kernel
set_option maxRecDepth 100000 in
theorem gb32Slice_26 : gb32Slice 26 = true := by decide +kernel
set_option maxRecDepth 100000 in
theorem gb32Slice_27 : gb32Slice 27 = true := by decide +kernel
set_option maxRecDepth 100000 in
theorem gb32Slice_28 : gb32Slice 28 = true := by decide +kernel
set_option maxRecDepth 100000 in
theorem gb32Slice_29 : gb32Slice 29 = true := by decide +kernel
set_option maxRecDepth 100000 in
theorem gb32Slice_30 : gb32Slice 30 = true := by decide +kernel
set_option maxRecDepth 100000 in
theorem gb32Slice_31 : gb32Slice 31 = true := by decide +kernel

end Martian.FormatRes
