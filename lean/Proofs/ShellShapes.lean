import Martian.JobTemplate
import Proofs.ShellLine
import Proofs.ShellScript

/-! The shapes of template lines found in the shipped templates (C18). -/
namespace Martian.JobTemplate
open Martian.ShellQuote

/-- what the substituted values are, in terms of the strings mrp was given -/
structure ValsOK (tbl : EscTable) (vals : String → Bytes) (g : Given) : Prop where
  cmd : vals "CMD" = formatArgsOrdered tbl g.envs g.cmd g.argv
  stdout : vals "STDOUT" = quote tbl g.stdout
  stderr : vals "STDERR" = quote tbl g.stderr
  workdir : vals "JOB_WORKDIR" = quote tbl g.workdir
  envsOK : ∀ kv ∈ g.envs, isName kv.1 = true ∧ validUtf8 kv.2 = true ∧ (0 : UInt8) ∉ kv.2
  cmdOK : validUtf8 g.cmd = true ∧ (0 : UInt8) ∉ g.cmd
  argvOK : ∀ a ∈ g.argv, validUtf8 a = true ∧ (0 : UInt8) ∉ a
  stdoutOK : validUtf8 g.stdout = true ∧ (0 : UInt8) ∉ g.stdout
  stderrOK : validUtf8 g.stderr = true ∧ (0 : UInt8) ∉ g.stderr
  workdirOK : validUtf8 g.workdir = true ∧ (0 : UInt8) ∉ g.workdir
  /-- the resources option is absent or a one-line comment (a scheduler directive) -/
  resOK : vals "RESOURCES" = [] ∨ ∃ r, vals "RESOURCES" = 0x23 :: r ∧ (0x0A : UInt8) ∉ r

theorem quote_ne_nil (tbl : EscTable) (s : Bytes) : (quote tbl s).isEmpty = false := by simp [quote]

theorem formatArgsOrdered_ne_nil (tbl : EscTable) (envs : List (Bytes × Bytes)) (cmd : Bytes)
    (argv : List Bytes) : (formatArgsOrdered tbl envs cmd argv).isEmpty = false := by
  simp [formatArgsOrdered, quote]

theorem cmdWords_eq (g : Given) :
    g.envs.map (fun kv => Tok.word (assignWord kv) true) ++ (initOf g.cmd g.argv).map w
      ++ [w (lastOf g.cmd g.argv)] = cmdWords g := by
  have := congrArg (List.map w) (initOf_lastOf g.cmd g.argv)
  simp only [List.map_append, List.map_cons, List.map_nil] at this
  simp only [cmdWords, List.append_assoc, this]

theorem lineRes_cmdAlone {tbl : EscTable} (ht : TableOK tbl = true) {vals : String → Bytes}
    {g : Given} (hv : ValsOK tbl vals g) :
    LineRes (renderLine vals [("CMD", [])]) (lineToks g .cmdAlone) := by
  have hne := formatArgsOrdered_ne_nil tbl g.envs g.cmd g.argv
  have ht' : renderLine vals [("CMD", [])] = formatArgsOrdered tbl g.envs g.cmd g.argv := by
    simp [renderLine, segIsVar, hv.cmd, hne]
  rw [ht']
  refine ⟨_, _, run_formatArgsOrdered ht g.envs g.cmd g.argv hv.envsOK hv.cmdOK hv.argvOK, Or.inl rfl, ?_⟩
  simp only [flush, lineToks]
  exact cmdWords_eq g

theorem lineRes_resources {tbl : EscTable} {vals : String → Bytes} {g : Given}
    (hv : ValsOK tbl vals g) :
    LineRes (renderLine vals [("RESOURCES", [])]) (lineToks g .resources) := by
  rcases hv.resOK with h | ⟨r, h, hr⟩
  · have : renderLine vals [("RESOURCES", [])] = [] := by simp [renderLine, segIsVar, h]
    rw [this]; exact lineRes_nil
  · have : renderLine vals [("RESOURCES", [])] = 0x23 :: r := by simp [renderLine, segIsVar, h]
    rw [this]
    exact ⟨_, _, run_hash_line r hr, Or.inr ⟨rfl, rfl⟩, rfl⟩

theorem lineRes_cd {tbl : EscTable} (ht : TableOK tbl = true) {vals : String → Bytes} {g : Given}
    (hv : ValsOK tbl vals g) :
    LineRes (renderLine vals shapeCd) (lineToks g .cdWorkdir) := by
  have hne := quote_ne_nil tbl g.workdir
  have ht' : renderLine vals shapeCd = [0x63, 0x64, 0x20] ++ quote tbl g.workdir := by
    simp [renderLine, shapeCd, segIsVar, hv.workdir, hne]
  have h1 : run clean [0x63, 0x64, 0x20] = some ([w bCd], clean) := by decide
  rw [ht']
  refine ⟨[w bCd], ⟨.normal, [] ++ g.workdir, .quoted, false, false⟩, ?_, Or.inl rfl, ?_⟩
  · rw [run_emit_append h1, clean, run_quote ht g.workdir _ _ _ _ hv.workdirOK.1 hv.workdirOK.2]
    simp
  · simp [flush, lineToks, w]

theorem lineRes_env {tbl : EscTable} (ht : TableOK tbl = true) {vals : String → Bytes} {g : Given}
    (hv : ValsOK tbl vals g) :
    LineRes (renderLine vals shapeEnv) (lineToks g .envCmdBg) := by
  have hn1 := formatArgsOrdered_ne_nil tbl g.envs g.cmd g.argv
  have hn2 := quote_ne_nil tbl g.stdout
  have hn3 := quote_ne_nil tbl g.stderr
  have ht' : renderLine vals shapeEnv =
      (bEnv ++ [0x20]) ++ (formatArgsOrdered tbl g.envs g.cmd g.argv ++ ([0x20, 0x3E, 0x20] ++
        (quote tbl g.stdout ++ ([0x20, 0x32, 0x3E, 0x20] ++ (quote tbl g.stderr ++
          ([0x20, 0x26, 0x20] ++ bEcho ++ [0x20, 0x24, 0x21])))))) := by
    simp [renderLine, shapeEnv, segIsVar, hv.cmd, hv.stdout, hv.stderr, hn1, hn2, hn3]
  have h1 : run clean (bEnv ++ [0x20]) = some ([w bEnv], clean) := by decide
  have h2 := run_formatArgsOrdered ht g.envs g.cmd g.argv hv.envsOK hv.cmdOK hv.argvOK
  have h3 : ∀ x : Bytes, run ⟨.normal, x, .quoted, false, false⟩ [0x20, 0x3E, 0x20]
      = some ([w x, Tok.op [0x3E]], clean) := by
    intro x; simp [run, step, stepNormal, flush, clean, w]
  have h4 := run_quote ht g.stdout [] .none false false hv.stdoutOK.1 hv.stdoutOK.2
  have h5 : ∀ x : Bytes, run ⟨.normal, x, .quoted, false, false⟩ [0x20, 0x32, 0x3E, 0x20]
      = some ([w x, Tok.op [0x32, 0x3E]], clean) := by
    intro x; simp [run, step, stepNormal, flush, clean, w, bareWS, isNameCh, isDigit, isAlpha]
  have h6 := run_quote ht g.stderr [] .none false false hv.stderrOK.1 hv.stderrOK.2
  have h7 : ∀ x : Bytes, run ⟨.normal, x, .quoted, false, false⟩
        ([0x20, 0x26, 0x20] ++ bEcho ++ [0x20, 0x24, 0x21])
      = some ([w x, Tok.op [0x26], w bEcho], ⟨.normal, [0x24, 0x21], .bare, false, true⟩) := by
    intro x
    simp [bEcho, run, step, stepNormal, flush, clean, w, bareWS, isNameCh, isDigit, isAlpha]
  rw [ht']
  refine ⟨[w bEnv] ++ ((g.envs.map (fun kv => Tok.word (assignWord kv) true) ++ (initOf g.cmd g.argv).map w)
      ++ ([w (lastOf g.cmd g.argv), Tok.op [0x3E]] ++ ([w g.stdout, Tok.op [0x32, 0x3E]]
        ++ [w g.stderr, Tok.op [0x26], w bEcho]))),
    ⟨.normal, [0x24, 0x21], .bare, false, true⟩, ?_, Or.inl rfl, ?_⟩
  · rw [run_emit_append h1, run_emit_append h2, run_emit_append (h3 _)]
    rw [show clean = (⟨.normal, [], .none, false, false⟩ : St) from rfl]
    rw [run_silent_append h4, run_emit_append (h5 _)]
    rw [show clean = (⟨.normal, [], .none, false, false⟩ : St) from rfl]
    rw [run_silent_append h6, h7]
    simp
  · simp only [flush, lineToks, List.nil_append]
    rw [← cmdWords_eq g]
    simp [w]

/-! ### comment lines -/

theorem flatten_no_nl (vals : String → Bytes) (l : SegLine)
    (h : ∀ s ∈ l, (0x0A : UInt8) ∉ (if segIsVar s then vals s.1 else s.2)) :
    (0x0A : UInt8) ∉ (l.map fun s => if segIsVar s then vals s.1 else s.2).flatten := by
  intro hm
  simp only [List.mem_flatten, List.mem_map] at hm
  obtain ⟨x, ⟨s, hs, rfl⟩, hx⟩ := hm
  exact h s hs hx

/-- a line whose first segment is literal text starting with `#`: whatever newline-free values
are substituted, the line is a comment (or is removed) -/
theorem lineRes_hash (vals : String → Bytes) (g : Given) (rest : Bytes) (more : SegLine)
    (h : ∀ s ∈ (("", 0x23 :: rest) : Seg) :: more, (0x0A : UInt8) ∉ (if segIsVar s then vals s.1 else s.2)) :
    LineRes (renderLine vals (("", 0x23 :: rest) :: more)) [] := by
  unfold renderLine
  split
  · exact lineRes_nil
  · have hnv : segIsVar (("", 0x23 :: rest) : Seg) = false := by simp [segIsVar]
    have := flatten_no_nl vals _ h
    simp only [List.map_cons, hnv, Bool.false_eq_true, if_false, List.flatten_cons,
      List.cons_append] at this ⊢
    have hX : (0x0A : UInt8) ∉ rest ++ (more.map fun s => if segIsVar s then vals s.1 else s.2).flatten := by
      intro hm; exact this (List.mem_cons_of_mem _ hm)
    exact ⟨_, _, run_hash_line _ hX, Or.inr ⟨rfl, rfl⟩, rfl⟩

/-- every covered line shape -/
theorem lineRes_of_shape {tbl : EscTable} (ht : TableOK tbl = true) {vals : String → Bytes}
    {g : Given} (hv : ValsOK tbl vals g) (l : SegLine) (hs : shapeOf l ≠ .other)
    (hnl : shapeOf l = .inert →
      ∀ s ∈ l, (0x0A : UInt8) ∉ (if segIsVar s then vals s.1 else s.2)) :
    LineRes (renderLine vals l) (lineToks g (shapeOf l)) := by
  cases hsh : shapeOf l with
  | other => exact absurd hsh hs
  | inert =>
    have hn := hnl hsh
    unfold shapeOf at hsh
    split at hsh
    · exact lineRes_nil
    · exact lineRes_hash vals g _ _ hn
    · split at hsh
      · cases hsh
      · split at hsh
        · cases hsh
        · split at hsh
          · cases hsh
          · split at hsh <;> cases hsh
  | cmdAlone =>
    have : l = [("CMD", [])] := by
      unfold shapeOf at hsh
      split at hsh
      · cases hsh
      · split at hsh <;> cases hsh
      · split at hsh
        · assumption
        · split at hsh
          · cases hsh
          · split at hsh
            · cases hsh
            · split at hsh <;> cases hsh
    subst this; exact lineRes_cmdAlone ht hv
  | resources =>
    have : l = [("RESOURCES", [])] := by
      unfold shapeOf at hsh
      split at hsh
      · cases hsh
      · split at hsh <;> cases hsh
      · split at hsh
        · cases hsh
        · split at hsh
          · assumption
          · split at hsh
            · cases hsh
            · split at hsh <;> cases hsh
    subst this; exact lineRes_resources hv
  | cdWorkdir =>
    have : l = shapeCd := by
      unfold shapeOf at hsh
      split at hsh
      · cases hsh
      · split at hsh <;> cases hsh
      · split at hsh
        · cases hsh
        · split at hsh
          · cases hsh
          · split at hsh
            · assumption
            · split at hsh <;> cases hsh
    subst this; exact lineRes_cd ht hv
  | envCmdBg =>
    have : l = shapeEnv := by
      unfold shapeOf at hsh
      split at hsh
      · cases hsh
      · split at hsh <;> cases hsh
      · split at hsh
        · cases hsh
        · split at hsh
          · cases hsh
          · split at hsh
            · cases hsh
            · split at hsh
              · assumption
              · cases hsh
    subst this; exact lineRes_env ht hv

end Martian.JobTemplate
