import Martian.InvocationSort
import Proofs.Invocation
import Proofs.InvocationText
import Proofs.FormatExpParse
import Proofs.FormatExpRangeMap

namespace Martian.InvocationSort
open Martian.Invocation Martian.InvocationText
open Martian.FormatExp (bytesLt bytesLt_irrefl bytesLt_asymm bytesLt_total bytesLt_trans sortedKeys)

theorem allGt_of_lt (a b : Str) (h : bytesLt a b = true) : ∀ r : EKvs, allGt b r = true → allGt a r = true
  | .nil, _ => rfl
  | .cons k _ r, hr => by
    simp only [allGt, Bool.and_eq_true] at hr ⊢
    exact ⟨bytesLt_trans a b k h hr.1, allGt_of_lt a b h r hr.2⟩

theorem allGt_insE (a k : Str) (e : Exp) (h : bytesLt a k = true) : ∀ r : EKvs, allGt a r = true →
    allGt a (insE k e r) = true
  | .nil, _ => by simp [insE, allGt, h]
  | .cons k' e' r, hr => by
    simp only [allGt, Bool.and_eq_true] at hr
    simp only [insE]
    split
    · simp [allGt, h, hr.1, hr.2]
    · split
      · simp [allGt, hr.1, hr.2]
      · simp [allGt, hr.1, allGt_insE a k e h r hr.2]

theorem ascK_insE (k : Str) (e : Exp) : ∀ r : EKvs, ascK r = true → ascK (insE k e r) = true
  | .nil, _ => by simp [insE, ascK, allGt]
  | .cons k' e' r, hr => by
    simp only [ascK, Bool.and_eq_true] at hr
    simp only [insE]
    split
    · rename_i hlt
      simp [ascK, allGt, hlt, allGt_of_lt k k' hlt r hr.1, hr.1, hr.2]
    · split
      · simp [ascK, hr.1, hr.2]
      · rename_i hlt hne
        have hgt : bytesLt k' k = true := by
          rcases bytesLt_total k k' with h | h | h
          · exact absurd h hlt
          · exact absurd h hne
          · exact h
        simp [ascK, allGt_insE k' k e hgt r hr.1, ascK_insE k e r hr.2]

theorem sortedEK_insE (k : Str) (e : Exp) (he : sortedE e = true) : ∀ r : EKvs, sortedEK r = true →
    sortedEK (insE k e r) = true
  | .nil, _ => by simp [insE, sortedEK, he]
  | .cons k' e' r, hr => by
    simp only [sortedEK, Bool.and_eq_true] at hr
    simp only [insE]
    split
    · simp [sortedEK, he, hr.1, hr.2]
    · split
      · simp [sortedEK, hr.1, hr.2]
      · simp [sortedEK, hr.1, sortedEK_insE k e he r hr.2]

mutual
theorem sortedE_sortE : ∀ e : Exp, sortedE (sortE e) = true
  | .lit _ => rfl
  | .arr xs => by simp [sortE, sortedE, sortedEL_sortEL xs]
  | .map s kvs => by simp [sortE, sortedE, (sorted_sortEK kvs).1, (sorted_sortEK kvs).2]
theorem sortedEL_sortEL : ∀ xs : EList, sortedEL (sortEL xs) = true
  | .nil => rfl
  | .cons e r => by simp [sortEL, sortedEL, sortedE_sortE e, sortedEL_sortEL r]
theorem sorted_sortEK : ∀ kvs : EKvs, ascK (sortEK kvs) = true ∧ sortedEK (sortEK kvs) = true
  | .nil => ⟨rfl, rfl⟩
  | .cons k e r =>
    ⟨ascK_insE k _ _ (sorted_sortEK r).1, sortedEK_insE k _ (sortedE_sortE e) _ (sorted_sortEK r).2⟩
end

theorem insE_of_allGt (k : Str) (e : Exp) : ∀ r : EKvs, allGt k r = true → insE k e r = .cons k e r
  | .nil, _ => rfl
  | .cons k' e' r, h => by
    simp only [allGt, Bool.and_eq_true] at h
    simp [insE, h.1]

mutual
theorem sortE_of_sorted : ∀ e : Exp, sortedE e = true → sortE e = e
  | .lit _, _ => rfl
  | .arr xs, h => by simp [sortE, sortEL_of_sorted xs (by simpa [sortedE] using h)]
  | .map s kvs, h => by
    simp only [sortedE, Bool.and_eq_true] at h
    simp [sortE, sortEK_of_sorted kvs h.1 h.2]
theorem sortEL_of_sorted : ∀ xs : EList, sortedEL xs = true → sortEL xs = xs
  | .nil, _ => rfl
  | .cons e r, h => by
    simp only [sortedEL, Bool.and_eq_true] at h
    simp [sortEL, sortE_of_sorted e h.1, sortEL_of_sorted r h.2]
theorem sortEK_of_sorted : ∀ kvs : EKvs, ascK kvs = true → sortedEK kvs = true → sortEK kvs = kvs
  | .nil, _, _ => rfl
  | .cons k e r, ha, hs => by
    simp only [ascK, Bool.and_eq_true] at ha
    simp only [sortedEK, Bool.and_eq_true] at hs
    simp [sortEK, sortE_of_sorted e hs.1, sortEK_of_sorted r ha.2 hs.2, insE_of_allGt k e r ha.1]
end

/-! ### the order component of C09's `wf` -/

theorem all_toFKvs (g : G) (a : Str) : ∀ kvs : EKvs,
    (toFKvs g kvs).all (fun kv => bytesLt a kv.1) = allGt a kvs
  | .nil => rfl
  | .cons k e r => by simp [toFKvs, allGt, all_toFKvs g a r]

theorem sortedKeys_toFKvs (g : G) : ∀ kvs : EKvs, sortedKeys (toFKvs g kvs) = ascK kvs
  | .nil => rfl
  | .cons k e r => by simp [toFKvs, sortedKeys, ascK, all_toFKvs g k r, sortedKeys_toFKvs g r]

/-! ### sorting commutes with marshalling -/

theorem encodeKvs_insE (k : Str) (e : Exp) : ∀ r : EKvs,
    encodeKvs (insE k e r) = insJ k (encode e) (encodeKvs r)
  | .nil => rfl
  | .cons k' e' r => by
    simp only [insE, encodeKvs, insJ]
    split
    · rfl
    · split
      · rfl
      · simp [encodeKvs, encodeKvs_insE k e r]

mutual
theorem encode_sortE : ∀ e : Exp, encode (sortE e) = sortJ (encode e)
  | .lit _ => rfl
  | .arr xs => by simp [sortE, encode, sortJ, encodeList_sortEL xs]
  | .map s kvs => by simp [sortE, encode, sortJ, encodeKvs_sortEK kvs]
theorem encodeList_sortEL : ∀ xs : EList, encodeList (sortEL xs) = sortJL (encodeList xs)
  | .nil => rfl
  | .cons e r => by simp [sortEL, encodeList, sortJL, encode_sortE e, encodeList_sortEL r]
theorem encodeKvs_sortEK : ∀ kvs : EKvs, encodeKvs (sortEK kvs) = sortJK (encodeKvs kvs)
  | .nil => rfl
  | .cons k e r => by simp [sortEK, encodeKvs, sortJK, encodeKvs_insE, encode_sortE e, encodeKvs_sortEK r]
end

theorem dataOf_sortBinds : ∀ bs : List (Str × Arg), dataOf (sortBinds bs) = sortData (dataOf bs)
  | [] => rfl
  | (p, a) :: r => by
    have ih := dataOf_sortBinds r
    have ha : encodeArg (sortArg a) = sortJ (encodeArg a) ∧ (sortArg a).isSplit = a.isSplit := by
      cases a with
      | plain e => simp [sortArg, encodeArg, encode_sortE, Arg.isSplit]
      | split e => simp [sortArg, encodeArg, encode_sortE, Arg.isSplit, sortJ, sortJK, insJ]
    simp only [sortBinds, List.map_cons] at ih ⊢
    rw [dataOf_cons, dataOf_cons, ih, ha.1, ha.2]
    by_cases hs : a.isSplit = true <;> simp [sortData, hs]

end Martian.InvocationSort
