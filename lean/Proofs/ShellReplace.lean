import Martian.JobTemplate

/-! `strings.NewReplacer` on a well-formed segmented template is `renderScript` (C18). -/
namespace Martian.JobTemplate
open Martian.ShellQuote

/-! ### the replacer -/

theorem replaceGo_skip (P : List (Bytes × Bytes)) :
    ∀ (x r : Bytes), replaceGo P x.length (x ++ r) = replaceGo P 0 r
  | [], _ => rfl
  | _ :: x, r => by
    simp only [List.length_cons, List.cons_append, replaceGo]
    exact replaceGo_skip P x r

theorem replaceGo_none (P : List (Bytes × Bytes)) (b : UInt8) (r : Bytes)
    (h : lookupOld P (b :: r) = none) : replaceGo P 0 (b :: r) = b :: replaceGo P 0 r := by
  simp only [replaceGo, h]

theorem replaceGo_some (P : List (Bytes × Bytes)) (o n r : Bytes) (ho : o ≠ [])
    (h : lookupOld P (o ++ r) = some (o, n)) : replaceGo P 0 (o ++ r) = n ++ replaceGo P 0 r := by
  cases o with
  | nil => exact absurd rfl ho
  | cons b o' =>
    simp only [List.cons_append] at h ⊢
    simp only [replaceGo, h, List.length_cons, Nat.add_sub_cancel]
    rw [replaceGo_skip]

theorem lookupOld_none (P : List (Bytes × Bytes)) (s : Bytes)
    (h : ∀ y ∈ P, y.1.isPrefixOf s = false) : lookupOld P s = none := by
  unfold lookupOld
  rw [List.find?_eq_none]
  intro y hy
  simp [h y hy]

theorem lookupOld_unique (P : List (Bytes × Bytes)) (s : Bytes) (x : Bytes × Bytes)
    (hx : x ∈ P) (hp : x.1.isPrefixOf s = true)
    (hu : ∀ y ∈ P, y.1.isPrefixOf s = true → y = x) : lookupOld P s = some x := by
  unfold lookupOld
  induction P with
  | nil => cases hx
  | cons y ys ih =>
    by_cases hy : y.1.isPrefixOf s = true
    · have := hu y (by simp) hy
      subst this
      simp [List.find?_cons, hp]
    · have hne : y ≠ x := fun e => hy (e ▸ hp)
      have hx' : x ∈ ys := by
        rcases List.mem_cons.mp hx with h | h
        · exact absurd h.symm hne
        · exact h
      simp only [List.find?_cons, hy]
      exact ih hx' (fun z hz => hu z (List.mem_cons_of_mem _ hz))

theorem isPrefixOf_append_self (o r : Bytes) : o.isPrefixOf (o ++ r) = true :=
  List.isPrefixOf_iff_prefix.mpr (List.prefix_append o r)

/-! ### `strings.Split(…, "\n")` of lines joined by newlines -/

theorem splitNl_ne_nil : ∀ x : Bytes, splitNl x ≠ []
  | [] => by simp [splitNl]
  | b :: r => by
    unfold splitNl
    split
    · simp
    · split <;> simp

theorem splitNl_noNl : ∀ (x : Bytes), (0x0A : UInt8) ∉ x → splitNl x = [x]
  | [], _ => rfl
  | b :: r, h => by
    have hb : (b == 0x0A) = false := by
      apply Bool.eq_false_iff.mpr; intro e; exact h (by simp [eq_of_beq e])
    have ih := splitNl_noNl r (fun hr => h (List.mem_cons_of_mem _ hr))
    simp [splitNl, hb, ih]

theorem splitNl_append : ∀ (x r : Bytes), (0x0A : UInt8) ∉ x →
    splitNl (x ++ 0x0A :: r) = x :: splitNl r
  | [], r, _ => by simp [splitNl]
  | b :: x, r, h => by
    have hb : (b == 0x0A) = false := by
      apply Bool.eq_false_iff.mpr; intro e; exact h (by simp [eq_of_beq e])
    have ih := splitNl_append x r (fun hr => h (List.mem_cons_of_mem _ hr))
    simp [splitNl, hb, ih]

theorem splitNl_joinNl : ∀ (xs : List Bytes), xs ≠ [] → (∀ x ∈ xs, (0x0A : UInt8) ∉ x) →
    splitNl (joinNl xs) = xs
  | [], h, _ => absurd rfl h
  | [x], _, h => by simpa [joinNl] using splitNl_noNl x (h x (by simp))
  | x :: y :: ys, _, h => by
    simp only [joinNl]
    rw [splitNl_append x _ (h x (by simp)),
      splitNl_joinNl (y :: ys) (by simp) (fun z hz => h z (List.mem_cons_of_mem _ hz))]

theorem mem_replArgs (T : Bytes) (ps : List (Bytes × Bytes)) (o n : Bytes) :
    (o, n) ∈ replArgs T ps ↔
      ∃ kv ∈ ps, (kv.2 ≠ [] ∧ o = kv.1 ∧ n = kv.2) ∨
        (kv.2 = [] ∧ n = [] ∧ o ∈ splitNl T ∧ containsB o kv.1 = true) := by
  unfold replArgs
  simp only [List.mem_flatMap]
  constructor
  · rintro ⟨kv, hkv, h⟩
    refine ⟨kv, hkv, ?_⟩
    split at h
    · rename_i hne
      simp only [List.mem_singleton, Prod.mk.injEq] at h
      left
      refine ⟨?_, h.1, h.2⟩
      intro e; simp [e] at hne
    · rename_i he
      simp only [List.mem_map, List.mem_filter, Prod.mk.injEq] at h
      obtain ⟨l, ⟨hl, hc⟩, rfl, rfl⟩ := h
      right
      refine ⟨?_, rfl, hl, hc⟩
      cases hk : kv.2 with
      | nil => rfl
      | cons a b => simp [hk] at he
  · rintro ⟨kv, hkv, h⟩
    refine ⟨kv, hkv, ?_⟩
    rcases h with ⟨hne, rfl, rfl⟩ | ⟨he, rfl, hl, hc⟩
    · have : (!kv.2.isEmpty) = true := by
        cases hk : kv.2 with
        | nil => exact absurd hk hne
        | cons a b => rfl
      simp [this]
    · simp only [he, List.isEmpty_nil, Bool.not_true, Bool.false_eq_true, if_false,
        List.mem_map, List.mem_filter, Prod.mk.injEq]
      exact ⟨o, ⟨hl, hc⟩, by simp⟩

/-! ### the first-byte filter of `posOK` is sound -/

theorem mem_heads {xs : List Bytes} {h : UInt8} {t : Bytes} (hx : h :: t ∈ xs) : h ∈ heads xs := by
  unfold heads
  rw [List.mem_eraseDups, List.mem_filterMap]
  exact ⟨h :: t, hx, rfl⟩

theorem isPrefixOf_cons_head {h b : UInt8} {t r : Bytes}
    (hp : (h :: t).isPrefixOf (b :: r) = true) : h = b := by
  simp only [List.isPrefixOf, Bool.and_eq_true, beq_iff_eq] at hp
  exact hp.1

theorem posOK_keys {keys : Keys} {R : List Bytes} {first : Bool} {s : Bytes}
    (h : posOK keys R first s = true) (nk : String × Bytes) (hnk : nk ∈ keys) (hne : nk.2 ≠ []) :
    nk.2.isPrefixOf s = false := by
  cases hk : nk.2 with
  | nil => exact absurd hk hne
  | cons kh kt =>
    cases s with
    | nil => simp [List.isPrefixOf]
    | cons b r =>
      apply Bool.eq_false_iff.mpr
      intro hp
      have hb : kh = b := isPrefixOf_cons_head hp
      simp only [posOK, Bool.and_eq_true, Bool.or_eq_true, Bool.not_eq_true'] at h
      rcases h.1 with hh | hh
      · have : kh ∈ heads (keys.map (·.2)) :=
          mem_heads (t := kt) (by rw [List.mem_map]; exact ⟨nk, hnk, hk⟩)
        rw [hb] at this
        have hc : (heads (keys.map (·.2))).contains b = true := by simpa using this
        rw [hh] at hc; cases hc
      · simp only [keysAt, List.isEmpty_iff, List.map_eq_nil_iff, List.filter_eq_nil_iff] at hh
        have := hh nk hnk
        rw [hk] at this
        exact this hp

theorem posOK_lines {keys : Keys} {R : List Bytes} {s : Bytes}
    (h : posOK keys R false s = true) (L : Bytes) (hL : L ∈ R) (hne : L ≠ []) :
    L.isPrefixOf s = false := by
  cases hk : L with
  | nil => exact absurd hk hne
  | cons lh lt =>
    cases s with
    | nil => simp [List.isPrefixOf]
    | cons b r =>
      apply Bool.eq_false_iff.mpr
      intro hp
      have hb : lh = b := isPrefixOf_cons_head hp
      simp only [posOK, Bool.and_eq_true, Bool.or_eq_true, Bool.not_eq_true', Bool.false_eq_true,
        false_or] at h
      rcases h.2 with hh | hh
      · have : lh ∈ heads R := mem_heads (t := lt) (hk ▸ hL)
        rw [hb] at this
        have hc : (heads R).contains b = true := by simpa using this
        rw [hh] at hc; cases hc
      · simp only [noLineAt, List.all_eq_true, Bool.not_eq_true'] at hh
        have := hh L hL
        rw [hk] at this
        rw [this] at hp; cases hp

theorem noLineAt_lines {R : List Bytes} {s : Bytes} (h : noLineAt R s = true) (L : Bytes)
    (hL : L ∈ R) : L.isPrefixOf s = false := by
  simp only [noLineAt, List.all_eq_true, Bool.not_eq_true'] at h
  exact h L hL

/-! ### the setting -/

/-- the pairs handed to the replacer for the template text and the values -/
def pairsOf (keys : Keys) (vals : String → Bytes) (ls : List SegLine) : List (Bytes × Bytes) :=
  replArgs (templateTextK keys ls) (keys.map fun nk => (nk.2, vals nk.1))

def removedLine (vals : String → Bytes) (l : SegLine) : Bool :=
  l.any fun s => segIsVar s && (vals s.1).isEmpty

def segVal (vals : String → Bytes) (s : Seg) : Bytes := if segIsVar s then vals s.1 else s.2

theorem renderLine_eq (vals : String → Bytes) (l : SegLine) :
    renderLine vals l = if removedLine vals l then [] else (l.map (segVal vals)).flatten := rfl

structure LineFacts (keys : Keys) (maybeEmpty : List String) (R : List Bytes) (l : SegLine)
    (k : Bytes) : Prop where
  lineAt : ∀ L ∈ R, L.isPrefixOf (segTextK keys l ++ k) = true → L = segTextK keys l
  segs : wfSegs keys R true l k = true
  textual : ∀ X ∈ maybeEmpty,
    containsB (segTextK keys l) (keyOf keys X) = l.any fun s => s.1 == X
  start : hasMaybeEmpty maybeEmpty l = true → startOK maybeEmpty l = true
  noNl : (0x0A : UInt8) ∉ segTextK keys l
  names : ∀ s ∈ l, segIsVar s = true → ∃ nk ∈ keys, nk.1 = s.1

theorem wfLine_facts {keys : Keys} {maybeEmpty : List String} {R : List Bytes} {l : SegLine}
    {k : Bytes} (h : wfLine keys maybeEmpty R l k = true) : LineFacts keys maybeEmpty R l k := by
  simp only [wfLine, Bool.and_eq_true, List.all_eq_true, Bool.or_eq_true, Bool.not_eq_true',
    beq_iff_eq] at h
  obtain ⟨⟨⟨⟨⟨h1, h2⟩, h3⟩, h4⟩, h5⟩, h6⟩ := h
  refine ⟨?_, h2, ?_, ?_, ?_, ?_⟩
  · intro L hL hp
    rcases h1 L hL with h | h
    · rw [hp] at h; cases h
    · exact h
  · intro X hX; exact h3 X hX
  · intro hm
    rcases h4 with h | h
    · rw [hm] at h; cases h
    · exact h
  · intro hm
    have : (segTextK keys l).contains 0x0A = true := by simpa using hm
    rw [h5] at this; cases this
  · intro s hs hv
    rcases h6 s hs with h | h
    · rw [hv] at h; cases h
    · simp only [List.any_eq_true, beq_iff_eq] at h
      exact h

theorem wfLines_mem {keys : Keys} {maybeEmpty : List String} {R : List Bytes} :
    ∀ {ls : List SegLine}, wfLines keys maybeEmpty R ls = true →
      ∀ l ∈ ls, ∃ k, wfLine keys maybeEmpty R l k = true
  | [], _, l, hl => by cases hl
  | x :: rest, h, l, hl => by
    simp only [wfLines, Bool.and_eq_true] at h
    rcases List.mem_cons.mp hl with rfl | hl
    · exact ⟨_, h.1.1⟩
    · exact wfLines_mem h.2 l hl

structure Setting (keys : Keys) (maybeEmpty : List String) (ls : List SegLine)
    (vals : String → Bytes) : Prop where
  wf : wfTemplate keys maybeEmpty ls = true
  ne : ∀ nk ∈ keys, nk.1 ∉ maybeEmpty → vals nk.1 ≠ []

namespace Setting
variable {keys : Keys} {maybeEmpty : List String} {ls : List SegLine} {vals : String → Bytes}

theorem parts (S : Setting keys maybeEmpty ls vals) :
    ls ≠ [] ∧ (∀ nk ∈ keys, nk.1 ≠ "" ∧ nk.2 ≠ [] ∧ keyOf keys nk.1 = nk.2) ∧
    (∀ L ∈ removable keys maybeEmpty ls, L ≠ []) ∧
    wfLines keys maybeEmpty (removable keys maybeEmpty ls) ls = true := by
  have h := S.wf
  simp only [wfTemplate, Bool.and_eq_true, List.all_eq_true, Bool.not_eq_true', bne_iff_ne, ne_eq,
    beq_iff_eq] at h
  obtain ⟨⟨⟨h1, h2⟩, h3⟩, h4⟩ := h
  refine ⟨?_, ?_, ?_, h4⟩
  · intro e; simp [e] at h1
  · intro nk hnk
    obtain ⟨⟨a, b⟩, c⟩ := h2 nk hnk
    exact ⟨a, fun e => by simp [e] at b, c⟩
  · intro L hL e
    have := h3 L hL
    simp [e] at this

theorem lineFacts (S : Setting keys maybeEmpty ls vals) (l : SegLine) (hl : l ∈ ls) :
    ∃ k, LineFacts keys maybeEmpty (removable keys maybeEmpty ls) l k := by
  obtain ⟨k, hk⟩ := wfLines_mem S.parts.2.2.2 l hl
  exact ⟨k, wfLine_facts hk⟩

theorem split (S : Setting keys maybeEmpty ls vals) :
    splitNl (templateTextK keys ls) = ls.map (segTextK keys) := by
  unfold templateTextK
  apply splitNl_joinNl
  · intro e; exact S.parts.1 (List.map_eq_nil_iff.mp e)
  · intro x hx
    obtain ⟨l, hl, rfl⟩ := List.mem_map.mp hx
    obtain ⟨k, hk⟩ := S.lineFacts l hl
    exact hk.noNl

theorem key_mem (S : Setting keys maybeEmpty ls vals) (nk : String × Bytes) (hnk : nk ∈ keys)
    (hv : vals nk.1 ≠ []) : (nk.2, vals nk.1) ∈ pairsOf keys vals ls := by
  unfold pairsOf
  rw [mem_replArgs]
  exact ⟨(nk.2, vals nk.1), List.mem_map.mpr ⟨nk, hnk, rfl⟩, Or.inl ⟨hv, rfl, rfl⟩⟩

theorem key_of_mem (_S : Setting keys maybeEmpty ls vals) (o n : Bytes)
    (h : (o, n) ∈ pairsOf keys vals ls) (hn : n ≠ []) :
    ∃ nk ∈ keys, o = nk.2 ∧ n = vals nk.1 := by
  unfold pairsOf at h
  rw [mem_replArgs] at h
  obtain ⟨kv, hkv, h⟩ := h
  obtain ⟨nk, hnk, rfl⟩ := List.mem_map.mp hkv
  rcases h with ⟨_, ho, hn'⟩ | ⟨_, hn', _⟩
  · exact ⟨nk, hnk, ho, hn'⟩
  · exact absurd hn' hn

theorem empty_is_maybe (S : Setting keys maybeEmpty ls vals) (nk : String × Bytes) (hnk : nk ∈ keys)
    (hv : vals nk.1 = []) : nk.1 ∈ maybeEmpty := by
  apply Classical.byContradiction
  intro h
  exact S.ne nk hnk h hv

theorem rem_of_mem (S : Setting keys maybeEmpty ls vals) (o : Bytes)
    (h : (o, []) ∈ pairsOf keys vals ls) :
    o ∈ removable keys maybeEmpty ls ∧ ∃ l ∈ ls, segTextK keys l = o ∧ removedLine vals l = true := by
  unfold pairsOf at h
  rw [mem_replArgs] at h
  obtain ⟨kv, hkv, h⟩ := h
  obtain ⟨nk, hnk, rfl⟩ := List.mem_map.mp hkv
  rcases h with ⟨hne, _, he⟩ | ⟨hv, _, hsp, hc⟩
  · exact absurd he.symm hne
  · simp only at hv hc
    rw [S.split] at hsp
    obtain ⟨l, hl, rfl⟩ := List.mem_map.mp hsp
    obtain ⟨k, hk⟩ := S.lineFacts l hl
    have hme := S.empty_is_maybe nk hnk hv
    have hkeys := (S.parts.2.1 nk hnk)
    have ht := hk.textual nk.1 hme
    rw [hkeys.2.2, hc] at ht
    obtain ⟨s, hs, hs1⟩ := List.any_eq_true.mp ht.symm
    have hs1 : s.1 = nk.1 := by simpa using hs1
    have hvar : segIsVar s = true := by
      simp only [segIsVar, bne_iff_ne, ne_eq, hs1]; exact hkeys.1
    have hrem : removedLine vals l = true := by
      unfold removedLine
      rw [List.any_eq_true]
      exact ⟨s, hs, by simp [hvar, hs1, hv]⟩
    have hhas : hasMaybeEmpty maybeEmpty l = true := by
      unfold hasMaybeEmpty
      rw [List.any_eq_true]
      exact ⟨s, hs, by simp [hvar, hs1, hme]⟩
    refine ⟨?_, l, hl, rfl, hrem⟩
    unfold removable
    exact List.mem_map.mpr ⟨l, List.mem_filter.mpr ⟨hl, hhas⟩, rfl⟩

theorem rem_mem (S : Setting keys maybeEmpty ls vals) (l : SegLine) (hl : l ∈ ls)
    (hr : removedLine vals l = true) : (segTextK keys l, []) ∈ pairsOf keys vals ls := by
  unfold removedLine at hr
  obtain ⟨s, hs, hsv⟩ := List.any_eq_true.mp hr
  simp only [Bool.and_eq_true, List.isEmpty_iff] at hsv
  obtain ⟨k, hk⟩ := S.lineFacts l hl
  obtain ⟨nk, hnk, hn⟩ := hk.names s hs hsv.1
  have hv : vals nk.1 = [] := by rw [hn]; exact hsv.2
  have hme := S.empty_is_maybe nk hnk hv
  have ht := hk.textual nk.1 hme
  have hany : (l.any fun s => s.1 == nk.1) = true :=
    List.any_eq_true.mpr ⟨s, hs, by simp [hn]⟩
  rw [hany, (S.parts.2.1 nk hnk).2.2] at ht
  unfold pairsOf
  rw [mem_replArgs]
  refine ⟨(nk.2, vals nk.1), List.mem_map.mpr ⟨nk, hnk, rfl⟩, Or.inr ⟨hv, rfl, ?_, ht⟩⟩
  rw [S.split]
  exact List.mem_map.mpr ⟨l, hl, rfl⟩

/-- no removal pair applies at a position -/
def NoRem (P : List (Bytes × Bytes)) (s : Bytes) : Prop :=
  ∀ o, (o, ([] : Bytes)) ∈ P → o.isPrefixOf s = false

theorem noRem_of_noLine (S : Setting keys maybeEmpty ls vals) {s : Bytes}
    (h : ∀ L ∈ removable keys maybeEmpty ls, L.isPrefixOf s = false) :
    NoRem (pairsOf keys vals ls) s :=
  fun o ho => h o (S.rem_of_mem o ho).1

/-- nothing applies: the byte is copied -/
theorem step_copy (S : Setting keys maybeEmpty ls vals) (b : UInt8) (r : Bytes)
    (hk : ∀ nk ∈ keys, nk.2.isPrefixOf (b :: r) = false)
    (hr : NoRem (pairsOf keys vals ls) (b :: r)) :
    replaceGo (pairsOf keys vals ls) 0 (b :: r) = b :: replaceGo (pairsOf keys vals ls) 0 r := by
  apply replaceGo_none
  apply lookupOld_none
  rintro ⟨o, n⟩ hy
  by_cases hn : n = []
  · subst hn; exact hr o hy
  · obtain ⟨nk, hnk, rfl, _⟩ := S.key_of_mem o n hy hn
    exact hk nk hnk

theorem lit_copied (S : Setting keys maybeEmpty ls vals) :
    ∀ (first : Bool) (lit k : Bytes),
      wfLit keys (removable keys maybeEmpty ls) first lit k = true →
      (first = true → NoRem (pairsOf keys vals ls) (lit ++ k)) →
      replaceGo (pairsOf keys vals ls) 0 (lit ++ k)
        = lit ++ replaceGo (pairsOf keys vals ls) 0 k
  | _, [], _, _, _ => rfl
  | first, b :: l, k, h, hf => by
    simp only [wfLit, Bool.and_eq_true] at h
    have hkeys : ∀ nk ∈ keys, nk.2.isPrefixOf (b :: (l ++ k)) = false :=
      fun nk hnk => posOK_keys h.1 nk hnk (S.parts.2.1 nk hnk).2.1
    have hrem : NoRem (pairsOf keys vals ls) (b :: (l ++ k)) := by
      cases first with
      | true => exact hf rfl
      | false =>
        exact S.noRem_of_noLine (fun L hL => posOK_lines h.1 L hL (S.parts.2.2.1 L hL))
    rw [List.cons_append, S.step_copy b (l ++ k) hkeys hrem,
      lit_copied S false l k h.2 (fun e => by cases e)]
    rfl

theorem keyOf_mem (S : Setting keys maybeEmpty ls vals) (X : String)
    (h : ∃ nk ∈ keys, nk.1 = X) : (X, keyOf keys X) ∈ keys ∧ keyOf keys X ≠ [] := by
  obtain ⟨nk, hnk, rfl⟩ := h
  have := S.parts.2.1 nk hnk
  rw [this.2.2]
  exact ⟨hnk, this.2.1⟩

/-- at a variable whose value is not empty: the key is replaced by the value -/
theorem step_var (S : Setting keys maybeEmpty ls vals) (X : String) (rest : Bytes)
    (hX : ∃ nk ∈ keys, nk.1 = X) (hv : vals X ≠ [])
    (hat : keysAt keys (keyOf keys X ++ rest) = [X])
    (hr : NoRem (pairsOf keys vals ls) (keyOf keys X ++ rest)) :
    replaceGo (pairsOf keys vals ls) 0 (keyOf keys X ++ rest)
      = vals X ++ replaceGo (pairsOf keys vals ls) 0 rest := by
  obtain ⟨hmem, hne⟩ := S.keyOf_mem X hX
  apply replaceGo_some _ _ _ _ hne
  apply lookupOld_unique
  · exact S.key_mem (X, keyOf keys X) hmem hv
  · exact isPrefixOf_append_self _ _
  · rintro ⟨o, n⟩ hy hp
    by_cases hn : n = []
    · subst hn; rw [hr o hy] at hp; cases hp
    · obtain ⟨nk, hnk, rfl, rfl⟩ := S.key_of_mem o n hy hn
      have : nk.1 ∈ keysAt keys (keyOf keys X ++ rest) := by
        unfold keysAt
        exact List.mem_map.mpr ⟨nk, List.mem_filter.mpr ⟨hnk, hp⟩, rfl⟩
      rw [hat] at this
      have hx : nk.1 = X := by simpa using this
      have hk := (S.parts.2.1 nk hnk).2.2
      rw [hx] at hk
      simp only [Prod.mk.injEq]
      exact ⟨hk.symm, by rw [hx]⟩

theorem segTextK_cons (keys : Keys) (s : Seg) (ss : SegLine) :
    segTextK keys (s :: ss) = (if segIsVar s then keyOf keys s.1 else s.2) ++ segTextK keys ss := by
  simp [segTextK]

theorem segs_rendered (S : Setting keys maybeEmpty ls vals) :
    ∀ (first : Bool) (ss : SegLine) (k : Bytes),
      wfSegs keys (removable keys maybeEmpty ls) first ss k = true →
      (first = true → NoRem (pairsOf keys vals ls) (segTextK keys ss ++ k)) →
      (∀ s ∈ ss, segIsVar s = true → vals s.1 ≠ [] ∧ ∃ nk ∈ keys, nk.1 = s.1) →
      replaceGo (pairsOf keys vals ls) 0 (segTextK keys ss ++ k)
        = (ss.map (segVal vals)).flatten ++ replaceGo (pairsOf keys vals ls) 0 k
  | _, [], _, _, _, _ => by simp [segTextK]
  | first, s :: ss, k, h, hf, hv => by
    have hvs : ∀ t ∈ ss, segIsVar t = true → vals t.1 ≠ [] ∧ ∃ nk ∈ keys, nk.1 = t.1 :=
      fun t ht => hv t (List.mem_cons_of_mem _ ht)
    unfold wfSegs at h
    cases hs : segIsVar s with
    | true =>
      simp only [hs, if_true, Bool.and_eq_true, beq_iff_eq, Bool.or_eq_true] at h
      obtain ⟨⟨hat, hline⟩, hrest⟩ := h
      have hsv := hv s (by simp) hs
      have htext : segTextK keys (s :: ss) ++ k = keyOf keys s.1 ++ (segTextK keys ss ++ k) := by
        rw [segTextK_cons, hs]; simp
      have hrem : NoRem (pairsOf keys vals ls) (keyOf keys s.1 ++ (segTextK keys ss ++ k)) := by
        cases first with
        | true => rw [← htext]; exact hf rfl
        | false =>
          rcases hline with hl | hl
          · cases hl
          · exact S.noRem_of_noLine (fun L hL => noLineAt_lines hl L hL)
      rw [htext, S.step_var s.1 _ hsv.2 hsv.1 hat hrem,
        segs_rendered S false ss k hrest (fun e => by cases e) hvs]
      simp [segVal, hs]
    | false =>
      simp only [hs, Bool.false_eq_true, if_false, Bool.and_eq_true] at h
      obtain ⟨hlit, hrest⟩ := h
      have htext : segTextK keys (s :: ss) ++ k = s.2 ++ (segTextK keys ss ++ k) := by
        rw [segTextK_cons, hs]; simp
      have hf' : first = true → NoRem (pairsOf keys vals ls) (s.2 ++ (segTextK keys ss ++ k)) := by
        intro e; rw [← htext]; exact hf e
      rw [htext, S.lit_copied first s.2 _ hlit hf']
      have hf'' : (first && s.2.isEmpty) = true →
          NoRem (pairsOf keys vals ls) (segTextK keys ss ++ k) := by
        intro e
        simp only [Bool.and_eq_true, List.isEmpty_iff] at e
        have := hf' e.1
        rw [e.2] at this
        simpa using this
      rw [segs_rendered S (first && s.2.isEmpty) ss k hrest hf'' hvs]
      simp [segVal, hs]

theorem startOK_cases {me : List String} {l : SegLine} (h : startOK me l = true) :
    (∃ b lit rest, l = ("", b :: lit) :: rest) ∨ (∃ n x, l = [(n, x)]) := by
  unfold startOK at h
  split at h
  · exact Or.inl ⟨_, _, _, rfl⟩
  · exact Or.inr ⟨_, _, rfl⟩
  · cases h

theorem removed_of_text_eq (S : Setting keys maybeEmpty ls vals) (l l' : SegLine) (hl : l ∈ ls)
    (hl' : l' ∈ ls) (he : segTextK keys l' = segTextK keys l)
    (hr : removedLine vals l' = true) : removedLine vals l = true := by
  unfold removedLine at hr
  obtain ⟨s', hs', hsv⟩ := List.any_eq_true.mp hr
  simp only [Bool.and_eq_true, List.isEmpty_iff] at hsv
  obtain ⟨k', hk'⟩ := S.lineFacts l' hl'
  obtain ⟨k, hk⟩ := S.lineFacts l hl
  obtain ⟨nk, hnk, hn⟩ := hk'.names s' hs' hsv.1
  have hv : vals nk.1 = [] := by rw [hn]; exact hsv.2
  have hme := S.empty_is_maybe nk hnk hv
  have ht' := hk'.textual nk.1 hme
  have hany : (l'.any fun s => s.1 == nk.1) = true :=
    List.any_eq_true.mpr ⟨s', hs', by simp [hn]⟩
  rw [hany, he, hk.textual nk.1 hme] at ht'
  obtain ⟨s, hs, hs1⟩ := List.any_eq_true.mp ht'
  have hs1 : s.1 = nk.1 := by simpa using hs1
  have hvar : segIsVar s = true := by
    simp only [segIsVar, bne_iff_ne, ne_eq, hs1]; exact (S.parts.2.1 nk hnk).1
  unfold removedLine
  exact List.any_eq_true.mpr ⟨s, hs, by simp [hvar, hs1, hv]⟩

theorem line_rendered (S : Setting keys maybeEmpty ls vals) (l : SegLine) (hl : l ∈ ls) (k : Bytes)
    (hw : wfLine keys maybeEmpty (removable keys maybeEmpty ls) l k = true) :
    replaceGo (pairsOf keys vals ls) 0 (segTextK keys l ++ k)
      = renderLine vals l ++ replaceGo (pairsOf keys vals ls) 0 k := by
  have F := wfLine_facts hw
  rw [renderLine_eq]
  cases hr : removedLine vals l with
  | true =>
    simp only [if_true, List.nil_append]
    have hx := S.rem_mem l hl hr
    have hne : segTextK keys l ≠ [] := S.parts.2.2.1 _ (S.rem_of_mem _ hx).1
    have : replaceGo (pairsOf keys vals ls) 0 (segTextK keys l ++ k)
        = [] ++ replaceGo (pairsOf keys vals ls) 0 k := by
      apply replaceGo_some _ _ _ _ hne
      apply lookupOld_unique _ _ _ hx (isPrefixOf_append_self _ _)
      rintro ⟨o, n⟩ hy hp
      by_cases hn : n = []
      · subst hn
        have := F.lineAt o (S.rem_of_mem o hy).1 hp
        simp [this]
      · exfalso
        obtain ⟨nk, hnk, rfl, rfl⟩ := S.key_of_mem o n hy hn
        -- the removed line starts with literal text or is one variable alone
        obtain ⟨s, hs, hsv⟩ := List.any_eq_true.mp hr
        simp only [Bool.and_eq_true, List.isEmpty_iff] at hsv
        obtain ⟨nk0, hnk0, hn0⟩ := F.names s hs hsv.1
        have hme : s.1 ∈ maybeEmpty := by
          rw [← hn0]; exact S.empty_is_maybe nk0 hnk0 (by rw [hn0]; exact hsv.2)
        have hhas : hasMaybeEmpty maybeEmpty l = true :=
          List.any_eq_true.mpr ⟨s, hs, by simp [hsv.1, hme]⟩
        have hst := F.start hhas
        have hsegs := F.segs
        rcases startOK_cases hst with ⟨b, lit, rest, rfl⟩ | ⟨n0, x, rfl⟩
        · unfold wfSegs at hsegs
          have hnv : segIsVar (("", b :: lit) : Seg) = false := by simp [segIsVar]
          simp only [hnv, Bool.false_eq_true, if_false, Bool.and_eq_true, wfLit] at hsegs
          have := posOK_keys hsegs.1.1 nk hnk (S.parts.2.1 nk hnk).2.1
          rw [segTextK_cons, hnv] at hp
          simp only [Bool.false_eq_true, if_false, List.cons_append, List.append_assoc] at hp this
          rw [this] at hp; cases hp
        · have hs' : s = (n0, x) := by simpa using hs
          subst hs'
          unfold wfSegs at hsegs
          simp only [hsv.1, if_true, Bool.and_eq_true, beq_iff_eq] at hsegs
          have hin : nk.1 ∈ keysAt keys (keyOf keys n0 ++ (segTextK keys [] ++ k)) := by
            unfold keysAt
            refine List.mem_map.mpr ⟨nk, List.mem_filter.mpr ⟨hnk, ?_⟩, rfl⟩
            rw [segTextK_cons, hsv.1] at hp
            simpa using hp
          rw [hsegs.1.1] at hin
          have : nk.1 = n0 := by simpa using hin
          rw [this] at hn
          exact hn hsv.2
    simpa using this
  | false =>
    simp only [Bool.false_eq_true, if_false]
    have hnr : NoRem (pairsOf keys vals ls) (segTextK keys l ++ k) := by
      intro o ho
      apply Bool.eq_false_iff.mpr
      intro hp
      obtain ⟨hR, l', hl', he, hr'⟩ := S.rem_of_mem o ho
      have := F.lineAt o hR hp
      have := S.removed_of_text_eq l l' hl hl' (he.trans this) hr'
      rw [hr] at this; cases this
    apply S.segs_rendered true l k F.segs (fun _ => hnr)
    intro s hs hv
    refine ⟨?_, F.names s hs hv⟩
    intro he
    have : removedLine vals l = true :=
      List.any_eq_true.mpr ⟨s, hs, by simp [hv, he]⟩
    rw [hr] at this; cases this

theorem templateTextK_cons₂ (keys : Keys) (l l' : SegLine) (rest : List SegLine) :
    templateTextK keys (l :: l' :: rest) = segTextK keys l ++ afterLine keys (l' :: rest) := by
  simp [templateTextK, afterLine, joinNl]

theorem lines_rendered (S : Setting keys maybeEmpty ls vals) :
    ∀ (cur : List SegLine), (∀ l ∈ cur, l ∈ ls) →
      wfLines keys maybeEmpty (removable keys maybeEmpty ls) cur = true →
      replaceGo (pairsOf keys vals ls) 0 (templateTextK keys cur) = renderScript vals cur
  | [], _, _ => rfl
  | [l], sub, h => by
    simp only [wfLines, Bool.and_eq_true] at h
    have := S.line_rendered l (sub l (by simp)) (afterLine keys []) h.1.1
    simp only [afterLine, List.append_nil] at this
    simp only [templateTextK, renderScript, List.map_cons, List.map_nil, joinNl]
    rw [this]
    simp [replaceGo]
  | l :: l' :: rest, sub, h => by
    simp only [wfLines, Bool.and_eq_true, List.isEmpty_cons, Bool.false_or] at h
    obtain ⟨⟨hline, hpos⟩, hrest⟩ := h
    have ih := lines_rendered S (l' :: rest) (fun x hx => sub x (List.mem_cons_of_mem _ hx))
      (by simp only [wfLines, Bool.and_eq_true, List.isEmpty_cons, Bool.false_or]; exact hrest)
    rw [templateTextK_cons₂, S.line_rendered l (sub l (by simp)) _ hline]
    have hk : ∀ nk ∈ keys, nk.2.isPrefixOf (afterLine keys (l' :: rest)) = false :=
      fun nk hnk => posOK_keys hpos nk hnk (S.parts.2.1 nk hnk).2.1
    have hr : NoRem (pairsOf keys vals ls) (afterLine keys (l' :: rest)) :=
      S.noRem_of_noLine (fun L hL => posOK_lines hpos L hL (S.parts.2.2.1 L hL))
    have hstep := S.step_copy 0x0A (templateTextK keys (l' :: rest)) hk hr
    simp only [afterLine] at hstep ⊢
    rw [hstep, ih]
    simp [renderScript, joinNl]

/-- On a well-formed segmented template Go's replacer computes exactly `renderScript`. -/
theorem replace_eq_render (S : Setting keys maybeEmpty ls vals) :
    replaceGo (pairsOf keys vals ls) 0 (templateTextK keys ls) = renderScript vals ls :=
  S.lines_rendered ls (fun _ h => h) S.parts.2.2.2

end Setting

end Martian.JobTemplate
