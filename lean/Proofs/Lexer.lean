import Martian.Lexer

namespace Martian.Lexer

/-! ## byte facts -/

theorem isDigit_bounds {c : UInt8} (h : isDigit c = true) : 48 ≤ c.toNat ∧ c.toNat ≤ 57 := by
  unfold isDigit at h
  simp only [Bool.and_eq_true, decide_eq_true_eq] at h
  have h1 := UInt8.le_iff_toNat_le.mp h.1
  have h2 := UInt8.le_iff_toNat_le.mp h.2
  simp at h1 h2
  omega

theorem isDigit_not_out {c : UInt8} (h : isDigit c = true) : (c < 0x30 || c > 0x39) = false := by
  have ⟨h1, h2⟩ := isDigit_bounds h
  simp only [Bool.or_eq_false_iff, decide_eq_false_iff_not]
  constructor
  · intro hlt
    have := UInt8.lt_iff_toNat_lt.mp hlt
    simp at this; omega
  · intro hgt
    have := UInt8.lt_iff_toNat_lt.mp hgt
    simp at this; omega

/-! ## parseInt -/

def okVal (neg : Bool) (v : Nat) : Bool := decide (v < cutoff) || (neg && v == cutoff)

theorem decValFrom_cons (n : Nat) (c : UInt8) (r : Bytes) :
    decValFrom n (c :: r) = decValFrom (10 * n + (c.toNat - 48)) r := by
  simp [decValFrom]

theorem decValFrom_ge (ds : Bytes) : ∀ n, n ≤ decValFrom n ds := by
  induction ds with
  | nil => intro n; simp [decValFrom]
  | cons c r ih =>
    intro n
    rw [decValFrom_cons]
    have := ih (10 * n + (c.toNat - 48))
    omega

theorem cutoff_val : cutoff = 9223372036854775808 := by decide

theorem pow19 : (10 : Nat) ^ 19 = 10000000000000000000 := by decide
theorem pow64 : (2 : Nat) ^ 64 = 18446744073709551616 := by decide

/-- With at most 19 digits to go and an accumulator small enough, the `uint64`
arithmetic never wraps, and the loop returns the exact value iff it is in
range. -/
theorem parseIntLoop_spec (neg : Bool) : ∀ (ds : Bytes) (n : Nat),
    (∀ c ∈ ds, isDigit c = true) → ds.length ≤ 19 → n < 10 ^ (19 - ds.length) →
    okVal neg n = true →
    parseIntLoop neg n ds =
      if okVal neg (decValFrom n ds) then some (decValFrom n ds) else none := by
  intro ds
  induction ds with
  | nil =>
    intro n _ _ _ hok
    simp [parseIntLoop, decValFrom, hok]
  | cons c r ih =>
    intro n hd hlen hn hok
    have hc : isDigit c = true := hd c (by simp)
    have ⟨hc1, hc2⟩ := isDigit_bounds hc
    have hlen' : r.length + 1 ≤ 19 := by simpa using hlen
    have hpow : (10 : Nat) ^ (19 - r.length) = 10 * 10 ^ (19 - (r.length + 1)) := by
      have : 19 - r.length = (19 - (r.length + 1)) + 1 := by omega
      rw [this, Nat.pow_succ]; omega
    have hle : (10 : Nat) ^ (19 - r.length) ≤ 10 ^ 19 :=
      Nat.pow_le_pow_right (by decide) (by omega)
    have hn' : n < 10 ^ (19 - (r.length + 1)) := by simpa using hn
    have hm : 10 * n + (c.toNat - 48) < 10 ^ (19 - r.length) := by omega
    have hmod : (10 * n + (c.toNat - 48)) % 2 ^ 64 = 10 * n + (c.toNat - 48) := by
      apply Nat.mod_eq_of_lt
      rw [pow64]; rw [pow19] at hle; omega
    rw [decValFrom_cons]
    have hge := decValFrom_ge r (10 * n + (c.toNat - 48))
    unfold parseIntLoop
    rw [isDigit_not_out hc]
    simp only [Bool.false_eq_true, ↓reduceIte, hmod]
    by_cases hbad : (decide (10 * n + (c.toNat - 48) < n) || decide (10 * n + (c.toNat - 48) > cutoff)
        || (!neg && (10 * n + (c.toNat - 48) == cutoff))) = true
    · rw [if_pos hbad]
      have : okVal neg (decValFrom (10 * n + (c.toNat - 48)) r) = false := by
        unfold okVal
        simp only [Bool.or_eq_true, Bool.and_eq_true, decide_eq_true_eq, Bool.not_eq_true',
          beq_iff_eq] at hbad
        rcases hbad with (h | h) | h
        · omega
        · have : ¬ decValFrom (10 * n + (c.toNat - 48)) r < cutoff := by omega
          have h2 : ¬ decValFrom (10 * n + (c.toNat - 48)) r = cutoff := by omega
          simp [this, h2]
        · have : ¬ decValFrom (10 * n + (c.toNat - 48)) r < cutoff := by omega
          simp [this, h.1]
      simp [this]
    · rw [if_neg hbad]
      apply ih
      · intro x hx; exact hd x (by simp [hx])
      · omega
      · exact hm
      · unfold okVal
        simp only [Bool.or_eq_true, Bool.and_eq_true, decide_eq_true_eq, Bool.not_eq_true',
          beq_iff_eq, not_or, not_and] at hbad
        obtain ⟨⟨_, h2⟩, h3⟩ := hbad
        cases neg with
        | true => simp; omega
        | false =>
          have := h3 rfl
          simp; omega

/-- leading zeros keep the accumulator at 0 -/
theorem parseIntLoop_zeros (neg : Bool) : ∀ (zs ds : Bytes), (∀ c ∈ zs, c = 0x30) →
    parseIntLoop neg 0 (zs ++ ds) = parseIntLoop neg 0 ds := by
  intro zs
  induction zs with
  | nil => intro ds _; rfl
  | cons z r ih =>
    intro ds hz
    have hz0 : z = 0x30 := hz z (by simp)
    subst hz0
    have : ∀ c ∈ r, c = 0x30 := fun c hc => hz c (by simp [hc])
    simp only [List.cons_append]
    rw [parseIntLoop]
    simp [cutoff_val]
    exact ih ds this

theorem decValFrom_zeros : ∀ (zs ds : Bytes), (∀ c ∈ zs, c = 0x30) →
    decValFrom 0 (zs ++ ds) = decValFrom 0 ds := by
  intro zs
  induction zs with
  | nil => intro ds _; rfl
  | cons z r ih =>
    intro ds hz
    have hz0 : z = 0x30 := hz z (by simp)
    subst hz0
    simp only [List.cons_append, decValFrom_cons]
    exact ih ds (fun c hc => hz c (by simp [hc]))

end Martian.Lexer

namespace Martian.Lexer

theorem spanDigits_fst_all : ∀ (b : Bytes), ∀ c ∈ (spanDigits b).1, isDigit c = true := by
  intro b
  induction b with
  | nil => intro c hc; simp [spanDigits] at hc
  | cons x r ih =>
    intro c hc
    unfold spanDigits at hc
    by_cases hx : isDigit x = true
    · simp only [hx, ↓reduceIte] at hc
      simp only [List.mem_cons] at hc
      rcases hc with rfl | hc
      · exact hx
      · exact ih c hc
    · simp [hx] at hc

/-- value of an integer token: optional `-`, then digits -/
def intTokVal (t : Bytes) : Int :=
  match t with
  | [] => 0
  | c :: ds => if c == 0x2D then -((decValFrom 0 ds : Nat) : Int) else ((decValFrom 0 (c :: ds) : Nat) : Int)

def inInt64 (v : Int) : Bool := decide (-(9223372036854775808 : Int) ≤ v) && decide (v < 9223372036854775808)

theorem mem_takeWhile_zero : ∀ (ds : Bytes) (c : UInt8),
    c ∈ ds.takeWhile (· == 0x30) → c = 0x30 := by
  intro ds
  induction ds with
  | nil => intro c hc; simp at hc
  | cons x r ih =>
    intro c hc
    rw [List.takeWhile_cons] at hc
    by_cases hx : (x == 0x30) = true
    · simp only [hx, ↓reduceIte, List.mem_cons] at hc
      rcases hc with rfl | hc
      · exact eq_of_beq hx
      · exact ih c hc
    · simp [hx] at hc

theorem parseIntLoop_token (neg : Bool) (ds : Bytes) (hd : ∀ c ∈ ds, isDigit c = true)
    (h19 : (ds.dropWhile (· == 0x30)).length ≤ 19) :
    parseIntLoop neg 0 ds =
      if okVal neg (decValFrom 0 ds) then some (decValFrom 0 ds) else none := by
  have hsplit := List.takeWhile_append_dropWhile (p := (· == (0x30 : UInt8))) (l := ds)
  have hz : ∀ c ∈ ds.takeWhile (· == 0x30), c = 0x30 := by
    intro c hc
    exact mem_takeWhile_zero ds c hc
  have hsig : ∀ c ∈ ds.dropWhile (· == 0x30), isDigit c = true := by
    intro c hc
    exact hd c ((List.dropWhile_sublist _).subset hc)
  rw [← hsplit, parseIntLoop_zeros neg _ _ hz, decValFrom_zeros _ _ hz]
  apply parseIntLoop_spec neg _ 0 hsig h19
  · exact Nat.pow_pos (by decide)
  · simp [okVal, cutoff_val]

end Martian.Lexer

namespace Martian.Lexer

theorem isDigit_not_sign {c : UInt8} (h : isDigit c = true) :
    (c == 0x2D) = false ∧ (c == 0x2B) = false := by
  constructor <;>
  · apply Bool.eq_false_iff.mpr
    intro e
    have := eq_of_beq e
    subst this
    revert h; decide

theorem matchInt_shape {b t : Bytes} (h : matchInt b = some t) :
    ∃ sg ds, t = sg ++ ds ∧ (sg = [] ∨ sg = [0x2D]) ∧ ds ≠ [] ∧
      (∀ c ∈ ds, isDigit c = true) ∧ (ds.dropWhile (· == 0x30)).length ≤ 19 := by
  unfold matchInt at h
  simp only at h
  split at h
  · rename_i hc
    simp only [Bool.and_eq_true, decide_eq_true_eq] at hc
    injection h with h
    refine ⟨(optMinus b).1, (spanDigits (optMinus b).2).1, h.symm, ?_, ?_, ?_, hc.1.2⟩
    · cases b with
      | nil => simp [optMinus]
      | cons c r =>
        unfold optMinus
        by_cases hm : (c == 0x2D) = true
        · simp [hm]; exact eq_of_beq hm
        · simp [hm]
    · simpa using hc.1.1
    · exact spanDigits_fst_all _
  · cases h

theorem okVal_neg (v : Nat) : okVal true v = inInt64 (-(v : Int)) := by
  unfold okVal inInt64
  rw [cutoff_val]
  by_cases h1 : v < 9223372036854775808
  · have : -(9223372036854775808 : Int) ≤ -(v : Int) := by omega
    have h2 : -(v : Int) < 9223372036854775808 := by omega
    simp [h1, this, h2]
  · by_cases h2 : v = 9223372036854775808
    · subst h2; decide
    · have : ¬ -(9223372036854775808 : Int) ≤ -(v : Int) := by omega
      simp [h1, h2, this]

theorem okVal_pos (v : Nat) : okVal false v = inInt64 (v : Int) := by
  unfold okVal inInt64
  rw [cutoff_val]
  by_cases h1 : v < 9223372036854775808
  · have : -(9223372036854775808 : Int) ≤ (v : Int) := by omega
    have h2 : (v : Int) < 9223372036854775808 := by omega
    simp [h1, this, h2]
  · have h2 : ¬ (v : Int) < 9223372036854775808 := by omega
    simp [h1, h2]

/-- On every token the integer rule admits, `parseInt` returns the exact
mathematical value when it fits in an `int64` and panics (`none`) otherwise:
no silent wrap-around is possible within the rule's 19-digit bound. -/
theorem parseInt_exact {b t : Bytes} (h : matchInt b = some t) :
    parseInt t = if inInt64 (intTokVal t) then some (intTokVal t) else none := by
  obtain ⟨sg, ds, rfl, hsg, hne, hd, h19⟩ := matchInt_shape h
  rcases hsg with rfl | rfl
  · -- no sign
    cases ds with
    | nil => exact absurd rfl hne
    | cons c r =>
      have hc := hd c (by simp)
      have ⟨hm, hp⟩ := isDigit_not_sign hc
      simp only [List.nil_append]
      unfold parseInt
      simp only [hm, hp, Bool.false_eq_true, ↓reduceIte, List.cons_ne_nil]
      rw [parseIntLoop_token false (c :: r) hd h19]
      rw [okVal_pos]
      have : intTokVal (c :: r) = ((decValFrom 0 (c :: r) : Nat) : Int) := by
        simp [intTokVal, hm]
      rw [this]
      by_cases hv : inInt64 ((decValFrom 0 (c :: r) : Nat) : Int) = true
      · simp [hv]
      · simp [hv]
  · -- minus sign
    simp only [List.cons_append, List.nil_append]
    unfold parseInt
    have e1 : ((0x2D : UInt8) == 0x2B) = false := by decide
    have e2 : ((0x2D : UInt8) == 0x2D) = true := by decide
    simp only [e1, e2, Bool.false_eq_true, ↓reduceIte, hne]
    rw [parseIntLoop_token true ds hd h19]
    rw [okVal_neg]
    have : intTokVal (0x2D :: ds) = -((decValFrom 0 ds : Nat) : Int) := by
      simp [intTokVal]
    rw [this]
    by_cases hv : inInt64 (-((decValFrom 0 ds : Nat) : Int)) = true
    · simp [hv]
    · simp [hv]

end Martian.Lexer

namespace Martian.Lexer

/-! ## string tokens -/

theorem isHex_hexVal {c : UInt8} (h : isHex c = true) : ∃ v, hexVal c = some v := by
  unfold hexVal
  by_cases h1 : isDigit c = true
  · simp [h1]
  · by_cases h2 : ((0x61 : UInt8) ≤ c && c ≤ 0x66) = true
    · simp [h1, h2]
    · by_cases h3 : ((0x41 : UInt8) ≤ c && c ≤ 0x46) = true
      · simp [h1, h2, h3]
      · unfold isHex at h
        simp [h1, h2, h3] at h

theorem hexByte_some {a b : UInt8} (ha : isHex a = true) (hb : isHex b = true) :
    ∃ v, hexByte a b = some v := by
  obtain ⟨x, hx⟩ := isHex_hexVal ha
  obtain ⟨y, hy⟩ := isHex_hexVal hb
  exact ⟨x * 16 + y, by simp [hexByte, hx, hy]⟩

theorem isOct_bounds {c : UInt8} (h : isOct c = true) : 48 ≤ c.toNat ∧ c.toNat ≤ 55 := by
  unfold isOct at h
  simp only [Bool.and_eq_true, decide_eq_true_eq] at h
  have h1 := UInt8.le_iff_toNat_le.mp h.1
  have h2 := UInt8.le_iff_toNat_le.mp h.2
  simp at h1 h2
  omega

theorem beq_false_of_toNat_ne {c k : UInt8} (h : c.toNat ≠ k.toNat) : (c == k) = false := by
  apply Bool.eq_false_iff.mpr
  intro e
  exact h (by rw [eq_of_beq e])

/-- well-formed string body: what the string rule admits between the quotes
(plain bytes, and complete escapes) -/
inductive WF : Bytes → Prop
  | nil : WF []
  | plain (c : UInt8) (r : Bytes) : (c == 0x5C) = false → WF r → WF (c :: r)
  | esc (c2 : UInt8) (k : Nat) (hex : Bool) (args tail : Bytes) :
      ruleEsc c2 = some (k, hex) → args.length = k → digitsOK hex args = true → WF tail →
      WF (0x5C :: c2 :: (args ++ tail))

/-- the surrogate-pair look-ahead consumes either nothing or exactly one
complete following `\uXXXX` escape, and cannot panic on a well-formed rest -/
theorem surrPair_ok (r : Nat) (tail : Bytes) (hw : WF tail) :
    ∃ out rest, surrPair r tail = some (out, rest) ∧ WF rest ∧ rest.length ≤ tail.length := by
  unfold surrPair
  split
  · cases hw with
    | nil => exact ⟨_, _, rfl, WF.nil, Nat.le_refl _⟩
    | plain c r' hc hr =>
      -- first byte is not a backslash: no pairing
      have hres : ∀ (o : Option (Bytes × Bytes)),
          (match c :: r' with
            | c :: d :: g0 :: g1 :: g2 :: g3 :: rest2 =>
              if (c == 0x5C && d == 0x75) = true then o else some (encodeRune r, c :: r')
            | _ => some (encodeRune r, c :: r')) = some (encodeRune r, c :: r') := by
        intro o
        split
        · rename_i heq
          injection heq with h1 h2
          subst h1
          simp [hc]
        · rfl
      match r', hr with
      | d :: g0 :: g1 :: g2 :: g3 :: rest2, hr =>
        simp only [hc, Bool.false_and, Bool.false_eq_true, ↓reduceIte]
        exact ⟨_, _, rfl, WF.plain _ _ hc hr, Nat.le_refl _⟩
      | [], hr => exact ⟨_, _, rfl, WF.plain _ _ hc hr, Nat.le_refl _⟩
      | [_], hr => exact ⟨_, _, rfl, WF.plain _ _ hc hr, Nat.le_refl _⟩
      | [_, _], hr => exact ⟨_, _, rfl, WF.plain _ _ hc hr, Nat.le_refl _⟩
      | [_, _, _], hr => exact ⟨_, _, rfl, WF.plain _ _ hc hr, Nat.le_refl _⟩
      | [_, _, _, _], hr => exact ⟨_, _, rfl, WF.plain _ _ hc hr, Nat.le_refl _⟩
    | esc c2 k hex args tl hr hl hd ht =>
      have hwf : WF (0x5C :: c2 :: (args ++ tl)) := WF.esc c2 k hex args tl hr hl hd ht
      by_cases hu : (c2 == 0x75) = true
      · -- the next escape is a \u escape: four hex digits follow
        have hc2 : c2 = 0x75 := eq_of_beq hu
        subst hc2
        have hk : k = 4 ∧ hex = true := by
          have : ruleEsc 0x75 = some (4, true) := by decide
          rw [this] at hr; injection hr with hr; injection hr with h1 h2
          exact ⟨h1.symm, h2.symm⟩
        obtain ⟨rfl, rfl⟩ := hk
        match args, hl with
        | [g0, g1, g2, g3], _ =>
          simp only [digitsOK, ↓reduceIte, List.all_cons, List.all_nil, Bool.and_true,
            Bool.and_eq_true] at hd
          obtain ⟨v, hv⟩ := hexByte_some hd.1 hd.2.1
          obtain ⟨w, hw'⟩ := hexByte_some hd.2.2.1 hd.2.2.2
          simp only [List.cons_append, List.nil_append, beq_self_eq_true, Bool.and_self, ↓reduceIte,
            hv, hw']
          split
          · exact ⟨_, _, rfl, ht, by simp only [List.length_cons]; omega⟩
          · exact ⟨_, _, rfl, hwf, Nat.le_refl _⟩
      · -- some other escape: no pairing
        have hu' : (c2 == 0x75) = false := by simpa using hu
        match hsh : args ++ tl with
        | g0 :: g1 :: g2 :: g3 :: rest2 =>
          simp only [hu', Bool.and_false, Bool.false_eq_true, ↓reduceIte]
          exact ⟨_, _, rfl, hsh ▸ hwf, Nat.le_refl _⟩
        | [] => exact ⟨_, _, rfl, hsh ▸ hwf, Nat.le_refl _⟩
        | [_] => exact ⟨_, _, rfl, hsh ▸ hwf, Nat.le_refl _⟩
        | [_, _] => exact ⟨_, _, rfl, hsh ▸ hwf, Nat.le_refl _⟩
        | [_, _, _] => exact ⟨_, _, rfl, hsh ▸ hwf, Nat.le_refl _⟩
  · exact ⟨_, _, rfl, hw, Nat.le_refl _⟩

/-- the escape forms the string rule admits are exactly handled by the
`switch` of `unquoteBytes`, which consumes the digits the rule demanded -/
theorem goEscape_ok {c2 : UInt8} {k : Nat} {hex : Bool} (args tail : Bytes)
    (hr : ruleEsc c2 = some (k, hex)) (hl : args.length = k) (hd : digitsOK hex args = true)
    (hnu : (c2 == 0x75) = false) :
    ∃ out, goEscape c2 (args ++ tail) = some (out, tail) := by
  unfold ruleEsc at hr
  split at hr
  · -- simple escapes: k = 0
    rename_i hs
    injection hr with hr; injection hr with hk _
    subst hk
    have : args = [] := List.length_eq_zero_iff.mp hl
    subst this
    simp only [Bool.or_eq_true, beq_iff_eq] at hs
    rcases hs with ((((((((h | h) | h) | h) | h) | h) | h) | h) | h) | h <;> subst h <;>
      simp [goEscape, isOct]
  · split at hr
    · -- octal
      rename_i _ ho
      injection hr with hr; injection hr with hk hh
      subst hk; subst hh
      have ⟨b1, b2⟩ := isOct_bounds ho
      match args, hl with
      | [o0, o1], _ =>
        simp only [digitsOK, Bool.false_eq_true, ↓reduceIte, List.all_cons, List.all_nil,
          Bool.and_true, Bool.and_eq_true] at hd
        unfold goEscape
        have e : ∀ k : UInt8, k.toNat > 55 → (c2 == k) = false :=
          fun k hk => beq_false_of_toNat_ne (by omega)
        rw [e 0x61 (by decide), e 0x62 (by decide), e 0x66 (by decide), e 0x6E (by decide),
          e 0x72 (by decide), e 0x74 (by decide), e 0x76 (by decide), e 0x78 (by decide),
          e 0x75 (by decide), e 0x55 (by decide)]
        simp [ho, hd.1, hd.2]
    · split at hr
      · -- \x
        rename_i _ _ hx
        injection hr with hr; injection hr with hk hh
        subst hk; subst hh
        have hx := eq_of_beq hx
        subst hx
        match args, hl with
        | [h0, h1], _ =>
          simp only [digitsOK, ↓reduceIte, List.all_cons, List.all_nil, Bool.and_true,
            Bool.and_eq_true] at hd
          obtain ⟨v, hv⟩ := hexByte_some hd.1 hd.2
          simp [goEscape, hv]
      · split at hr
        · -- \u
          rename_i _ _ _ hu
          rw [hnu] at hu; cases hu
        · split at hr
          · -- \U
            rename_i _ _ _ _ hU
            injection hr with hr; injection hr with hk hh
            subst hk; subst hh
            have hU := eq_of_beq hU
            subst hU
            match args, hl with
            | [h0, h1, h2, h3, h4, h5, h6, h7], _ =>
              simp only [digitsOK, ↓reduceIte, List.all_cons, List.all_nil, Bool.and_true,
                Bool.and_eq_true] at hd
              obtain ⟨v1, hv1⟩ := hexByte_some hd.1 hd.2.1
              obtain ⟨v2, hv2⟩ := hexByte_some hd.2.2.1 hd.2.2.2.1
              obtain ⟨v3, hv3⟩ := hexByte_some hd.2.2.2.2.1 hd.2.2.2.2.2.1
              obtain ⟨v4, hv4⟩ := hexByte_some hd.2.2.2.2.2.2.1 hd.2.2.2.2.2.2.2
              simp [goEscape, hv1, hv2, hv3, hv4]
          · cases hr

end Martian.Lexer

namespace Martian.Lexer

/-- `\uXXXX`: four hex digits, then the surrogate-pair look-ahead -/
theorem goEscape_u (args tail : Bytes) (hl : args.length = 4) (hd : digitsOK true args = true)
    (hw : WF tail) :
    ∃ out rest, goEscape 0x75 (args ++ tail) = some (out, rest) ∧ WF rest ∧ rest.length ≤ tail.length := by
  match args, hl with
  | [h0, h1, h2, h3], _ =>
    simp only [digitsOK, ↓reduceIte, List.all_cons, List.all_nil, Bool.and_true,
      Bool.and_eq_true] at hd
    obtain ⟨v, hv⟩ := hexByte_some hd.1 hd.2.1
    obtain ⟨w, hw'⟩ := hexByte_some hd.2.2.1 hd.2.2.2
    obtain ⟨out, rest, h1, h2, h3⟩ := surrPair_ok (w + v * 256) tail hw
    exact ⟨out, rest, by simp [goEscape, hv, hw', h1], h2, h3⟩

theorem goEscape_wf {c2 : UInt8} {k : Nat} {hex : Bool} (args tail : Bytes)
    (hr : ruleEsc c2 = some (k, hex)) (hl : args.length = k) (hd : digitsOK hex args = true)
    (hw : WF tail) :
    ∃ out rest, goEscape c2 (args ++ tail) = some (out, rest) ∧ WF rest ∧ rest.length ≤ tail.length := by
  by_cases hu : (c2 == 0x75) = true
  · have hc2 : c2 = 0x75 := eq_of_beq hu
    subst hc2
    have : ruleEsc 0x75 = some (4, true) := by decide
    rw [this] at hr; injection hr with hr; injection hr with h1 h2
    subst h1; subst h2
    exact goEscape_u args tail hl hd hw
  · have hnu : (c2 == 0x75) = false := by simpa using hu
    obtain ⟨out, h⟩ := goEscape_ok args tail hr hl hd hnu
    exact ⟨out, tail, h, hw, Nat.le_refl _⟩

theorem scanBody_wf : ∀ (f : Nat) (s body : Bytes), scanBody f s = some body → WF body := by
  intro f
  induction f with
  | zero => intro s body h; simp [scanBody] at h
  | succ f ih =>
    intro s body h
    cases s with
    | nil => simp [scanBody] at h
    | cons c r =>
      unfold scanBody at h
      by_cases hq : (c == 0x22) = true
      · simp only [hq, ↓reduceIte] at h
        injection h with h; subst h
        exact WF.nil
      · simp only [hq, Bool.false_eq_true, ↓reduceIte] at h
        by_cases hb : (c == 0x5C) = true
        · simp only [hb, ↓reduceIte] at h
          cases r with
          | nil => simp at h
          | cons c2 r2 =>
            simp only at h
            cases hr : ruleEsc c2 with
            | none => simp [hr] at h
            | some kh =>
              obtain ⟨k, hex⟩ := kh
              simp only [hr] at h
              split at h
              · rename_i hcond
                simp only [Bool.and_eq_true, beq_iff_eq] at hcond
                cases hs : scanBody f (r2.drop k) with
                | none => simp [hs] at h
                | some body' =>
                  simp only [hs, Option.map_some, Option.some.injEq] at h
                  subst h
                  have hc : c = 0x5C := eq_of_beq hb
                  subst hc
                  exact WF.esc c2 k hex _ body' hr hcond.1 hcond.2 (ih _ _ hs)
              · cases h
        · simp only [hb, Bool.false_eq_true, ↓reduceIte] at h
          cases hs : scanBody f r with
          | none => simp [hs] at h
          | some body' =>
            simp only [hs, Option.map_some, Option.some.injEq] at h
            subst h
            exact WF.plain c body' (by simpa using hb) (ih _ _ hs)

theorem wf_unq : ∀ (g : Nat) (body : Bytes), WF body → body.length < g →
    ∃ out, unqLoop g body = some out := by
  intro g
  induction g with
  | zero => intro body _ h; omega
  | succ g ih =>
    intro body hw hg
    cases hw with
    | nil => exact ⟨[], by simp [unqLoop]⟩
    | plain c r hc hr =>
      obtain ⟨o2, ho2⟩ := ih r hr (by simp only [List.length_cons] at hg; omega)
      have hne : (c != 0x5C) = true := by simp [bne, hc]
      exact ⟨c :: o2, by simp [unqLoop, hne, ho2]⟩
    | esc c2 k hex args tail hr hl hd ht =>
      obtain ⟨out, rest, h1, h2, h3⟩ := goEscape_wf args tail hr hl hd ht
      have hlen : rest.length < g := by
        simp only [List.length_cons, List.length_append] at hg; omega
      obtain ⟨o2, ho2⟩ := ih rest h2 hlen
      exact ⟨out ++ o2, by simp [unqLoop, h1, ho2]⟩

theorem scanBody_unq (f : Nat) (s body : Bytes) (h : scanBody f s = some body) :
    ∀ g, body.length < g → ∃ out, unqLoop g body = some out :=
  fun g hg => wf_unq g body (scanBody_wf f s body h) hg

/-- Every token the string rule admits is unquoted without a panic. -/
theorem matchString_unquote {b t : Bytes} (h : matchString b = some t) :
    ∃ out, unquoteBytes t = some out := by
  unfold matchString at h
  split at h
  · rename_i r
    cases hs : scanBody (r.length + 1) r with
    | none => simp [hs] at h
    | some body =>
      simp only [hs, Option.map_some, Option.some.injEq] at h
      subst h
      obtain ⟨out, hout⟩ := scanBody_unq _ _ _ hs (body.length + 1) (by omega)
      exact ⟨out, by simp [unquoteBytes, hout]⟩
  · cases h

end Martian.Lexer

namespace Martian.Lexer

/-! ## nextToken / Lex progress -/

theorem nextToken_progress (R : Rules) (h : Bytes) :
    (nextToken R h).1 ≠ INVALID → 0 < (nextToken R h).2.length := by
  unfold nextToken
  simp only
  split
  · intro _; assumption
  · split
    · intro _; assumption
    · intro hne; exact absurd rfl hne

theorem lex_total (R : Rules) (isSkip : Nat → Bool) (hskip : isSkip INVALID = false) :
    ∀ (f : Nat) (s : Bytes), s.length < f → ∃ r, lex R isSkip f s = some r := by
  intro f
  induction f with
  | zero => intro s h; omega
  | succ f ih =>
    intro s h
    cases s with
    | nil => exact ⟨(0, [], []), by simp [lex]⟩
    | cons c r =>
      unfold lex
      simp only
      by_cases hs : isSkip (nextToken R (c :: r)).1 = true
      · simp only [hs, ↓reduceIte]
        apply ih
        have hne : (nextToken R (c :: r)).1 ≠ INVALID := by
          intro e; rw [e, hskip] at hs; cases hs
        have := nextToken_progress R (c :: r) hne
        simp only [List.length_drop, List.length_cons] at *
        omega
      · simp only [hs]
        exact ⟨_, rfl⟩

/-! ## src_stm action -/

theorem srcAction_no_panic (cmd : Bytes) : srcAction cmd ≠ .panic := by
  unfold srcAction
  split <;> simp

theorem srcAction_error_iff (cmd : Bytes) : srcAction cmd = .error ↔ fields cmd = [] := by
  unfold srcAction
  split <;> simp_all

end Martian.Lexer
