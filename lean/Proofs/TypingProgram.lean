import Martian.TypingProgram
import Proofs.TypingRun

namespace Martian.Typing
open Martian.Json Martian.Types

/-! ### the equality test is sound -/

mutual
  theorem tyEq_sound : ∀ (a b : Ty), tyEq a b = true → a = b
    | .base a, .base b, h => by simpa [tyEq] using h
    | .user a, .user b, h => by simpa [tyEq] using h
    | .arr a, .arr b, h => by simp only [tyEq] at h; rw [tyEq_sound a b h]
    | .tmap a, .tmap b, h => by simp only [tyEq] at h; rw [tyEq_sound a b h]
    | .struct n fs, .struct m gs, h => by
      simp only [tyEq, Bool.and_eq_true, beq_iff_eq] at h
      rw [h.1, fieldsEq_sound fs gs h.2]
    | .base _, .user _, h | .base _, .arr _, h | .base _, .tmap _, h | .base _, .struct _ _, h
    | .user _, .base _, h | .user _, .arr _, h | .user _, .tmap _, h | .user _, .struct _ _, h
    | .arr _, .base _, h | .arr _, .user _, h | .arr _, .tmap _, h | .arr _, .struct _ _, h
    | .tmap _, .base _, h | .tmap _, .user _, h | .tmap _, .arr _, h | .tmap _, .struct _ _, h
    | .struct _ _, .base _, h | .struct _ _, .user _, h | .struct _ _, .arr _, h | .struct _ _, .tmap _, h => by
      simp [tyEq] at h
  theorem fieldsEq_sound : ∀ (a b : Fields), fieldsEq a b = true → a = b
    | .nil, .nil, _ => rfl
    | .cons k t r, .cons k' t' r', h => by
      simp only [fieldsEq, Bool.and_eq_true, beq_iff_eq] at h
      rw [h.1.1, tyEq_sound t t' h.1.2, fieldsEq_sound r r' h.2]
    | .nil, .cons _ _ _, h | .cons _ _ _, .nil, h => by simp [fieldsEq] at h
end

theorem paramsEq_sound : ∀ (a b : List (Bytes × Ty)), paramsEq a b = true → a = b
  | [], [], _ => rfl
  | (k, t) :: r, (k', t') :: r', h => by
    simp only [paramsEq, Bool.and_eq_true, beq_iff_eq] at h
    rw [h.1.1, tyEq_sound t t' h.1.2, paramsEq_sound r r' h.2]
  | [], _ :: _, h | _ :: _, [], h => by simp [paramsEq] at h

theorem calleeEq_sound (a b : Callee) (h : calleeEq a b = true) : a = b := by
  simp only [calleeEq, Bool.and_eq_true, beq_iff_eq] at h
  cases a; cases b
  simp only at h
  obtain ⟨⟨⟨h1, h2⟩, h3⟩, h4⟩ := h
  subst h1 h2
  rw [paramsEq_sound _ _ h3, fieldsEq_sound _ _ h4]

/-! ### arguments -/

/-- what a runner must do for one callable: conforming inputs ⇒ it does not fail:
it returns outputs that conform to the declared output struct, or it stops at a
`disabled` modifier that resolved to null -/
def RcOk (rc : Runner) (c : Callee) : Prop :=
  ∀ ins : List (Bytes × J),
    (∀ x t, c.params.lookup x = some t → ∃ v, ins.lookup x = some v ∧ valid t v = true) →
    rc c ins = .nullDisabled ∨ ∃ out, rc c ins = .ok out ∧ valid (.struct c.name c.outs) out = true

theorem collect_map {α β : Type} (f : α → Res β) (R : α → β → Prop) :
    ∀ (xs : List α), (∀ x ∈ xs, f x = .nullDisabled ∨ ∃ w, f x = .ok w ∧ R x w) →
      Res.collect (xs.map f) = .nullDisabled ∨
        ∃ ws, Res.collect (xs.map f) = .ok ws ∧ ∀ w ∈ ws, ∃ x ∈ xs, R x w
  | [], _ => Or.inr ⟨[], rfl, by simp⟩
  | x :: xs, h => by
    have ih := collect_map f R xs (fun y hy => h y (List.mem_cons_of_mem _ hy))
    rcases h x List.mem_cons_self with hx | ⟨w, hw, hr⟩
    · rcases ih with hn | ⟨ws, hws, _⟩
      · exact Or.inl (by simp [Res.collect, hx, hn])
      · exact Or.inl (by simp [Res.collect, hx, hws])
    · rcases ih with hn | ⟨ws, hws, hall⟩
      · exact Or.inl (by simp [Res.collect, hw, hn])
      · refine Or.inr ⟨w :: ws, by simp [Res.collect, hw, hws], ?_⟩
        intro w' hw'
        rcases List.mem_cons.mp hw' with rfl | hw'
        · exact ⟨x, List.mem_cons_self, hr⟩
        · obtain ⟨y, hy, hr'⟩ := hall w' hw'
          exact ⟨y, List.mem_cons_of_mem _ hy, hr'⟩

/-- the checked argument lists exist, aligned with the parameters, all values valid -/
theorem argLists_sound (Γ : Env) (ρ : Store) (hρ : StoreOk Γ ρ) (bs : List (Bytes × Bind)) :
    ∀ (params : List (Bytes × Ty)),
      (∀ x t, (x, t) ∈ params → t.wf = true ∧ ∃ b, bs.lookup x = some b ∧ b.wf = true ∧
          validBind Γ t b = true ∧ bindHoleFreeT Γ t b = true) →
      ∃ args, argLists Γ ρ bs params = some args ∧ args.map Prod.fst = params.map Prod.fst ∧
        ∀ x t, (x, t) ∈ params → ∃ sp vs, (x, sp, vs) ∈ args ∧ ∀ v ∈ vs, valid t v = true
  | [], _ => ⟨[], rfl, rfl, by simp⟩
  | (x, t) :: r, h => by
    obtain ⟨htw, b, hl, hbw, hvb, hhf⟩ := h x t List.mem_cons_self
    obtain ⟨vs, hd, hval⟩ := bind_sound_rt Γ ρ hρ t htw b hbw hvb hhf
    obtain ⟨as, has, hkeys, hall⟩ := argLists_sound Γ ρ hρ bs r (fun x' t' hm => h x' t' (List.mem_cons_of_mem _ hm))
    have hchk : vs.all (fun v => valid t v) = true := List.all_eq_true.mpr hval
    refine ⟨(x, b.isSplit, vs) :: as, by simp [argLists, hl, hd, hchk, has], by simp [hkeys], ?_⟩
    intro x' t' hm
    rcases List.mem_cons.mp hm with heq | hm
    · cases heq
      exact ⟨b.isSplit, vs, List.mem_cons_self, hval⟩
    · obtain ⟨sp, vs', hmem, hv'⟩ := hall x' t' hm
      exact ⟨sp, vs', List.mem_cons_of_mem _ hmem, hv'⟩

theorem getD_valid (t : Ty) (vs : List J) (i : Nat) (h : ∀ v ∈ vs, valid t v = true) :
    valid t (vs.getD i .null) = true := by
  by_cases hi : i < vs.length
  · have : vs.getD i .null = vs[i] := by simp [List.getD, hi]
    rw [this]; exact h _ (List.getElem_mem hi)
  · have : vs.getD i .null = .null := by simp [List.getD, Nat.le_of_not_lt hi]
    rw [this]; exact valid_null t

theorem headD_valid (t : Ty) (vs : List J) (h : ∀ v ∈ vs, valid t v = true) :
    valid t (vs.headD .null) = true := by
  cases vs with
  | nil => exact valid_null t
  | cons a r => exact h a List.mem_cons_self

/-- every fork receives, for every declared parameter, a valid value -/
theorem forkInputs_ok (params : List (Bytes × Ty)) (args : List (Bytes × Bool × List J)) (i : Nat)
    (hn : (params.map Prod.fst).Nodup) (hkeys : args.map Prod.fst = params.map Prod.fst)
    (hall : ∀ x t, (x, t) ∈ params → ∃ sp vs, (x, sp, vs) ∈ args ∧ ∀ v ∈ vs, valid t v = true) :
    ∀ x t, params.lookup x = some t → ∃ v, (forkInputs args i).lookup x = some v ∧ valid t v = true := by
  intro x t hl
  obtain ⟨sp, vs, hmem, hv⟩ := hall x t (lookup_mem hl)
  have hk : ((forkInputs args i).map Prod.fst).Nodup := by
    simp only [forkInputs, List.map_map]
    have : (Prod.fst ∘ fun a : Bytes × Bool × List J => (a.1, if a.2.1 then a.2.2.getD i J.null else a.2.2.headD J.null))
        = Prod.fst := by funext a; rfl
    rw [this, hkeys]; exact hn
  have hm : (x, if sp then vs.getD i J.null else vs.headD J.null) ∈ forkInputs args i := by
    simp only [forkInputs, List.mem_map]
    exact ⟨(x, sp, vs), hmem, rfl⟩
  refine ⟨_, lookup_of_mem_nodup hk hm, ?_⟩
  cases sp with
  | true => simpa using getD_valid t vs i hv
  | false => simpa using headD_valid t vs hv

/-! ### one call -/

theorem callOut_sound (rc : Runner) (c : Callee) (keys : List Bytes) (args : List (Bytes × Bool × List J))
    (sh : Option SplitShape) (hrc : RcOk rc c)
    (hin : ∀ i x t, c.params.lookup x = some t → ∃ v, (forkInputs args i).lookup x = some v ∧ valid t v = true)
    (hdir : ∀ ks, sh = some (.map ks) → isDirMap (Ty.struct c.name c.outs) = true →
      ∀ i, i < nforks args → legalName (keys.getD i []) = true) :
    callOut rc c keys args sh = .nullDisabled ∨
    ∃ out, callOut rc c keys args sh = .ok out ∧
      valid (CallSig.whole { name := c.name, mode := modeOf sh, src := sh, outs := c.outs }) out = true := by
  cases sh with
  | none =>
    rcases hrc (forkInputs args 0) (hin 0) with hn | ⟨out, ho, hv⟩
    · exact Or.inl (by simp [callOut, hn])
    · exact Or.inr ⟨out, by simp [callOut, ho], by simpa [CallSig.whole, modeOf, CallSig.struct] using hv⟩
  | some s =>
    cases s with
    | arr n =>
      rcases collect_map (fun i => rc c (forkInputs args i))
        (fun _ w => valid (.struct c.name c.outs) w = true) (List.range (nforks args))
        (fun i _ => hrc (forkInputs args i) (hin i)) with hn | ⟨ws, hws, hall⟩
      · exact Or.inl (by simp only [callOut]; rw [hn]; rfl)
      refine Or.inr ⟨.arr ws, by simp only [callOut]; rw [hws]; rfl, ?_⟩
      simp only [CallSig.whole, modeOf, CallSig.struct]
      apply valid_of_shape
      refine Shape.arr _ _ ?_
      intro w hw
      obtain ⟨_, _, h'⟩ := hall w hw
      exact shape_of_valid _ _ h'
    | map ks =>
      rcases collect_map
        (fun i => (rc c (forkInputs args i)).map fun o => (keys.getD i [], o))
        (fun i (w : Bytes × J) => w.1 = keys.getD i [] ∧ valid (.struct c.name c.outs) w.2 = true)
        (List.range (nforks args))
        (fun i _ => by
          rcases hrc (forkInputs args i) (hin i) with hn | ⟨out, ho, hv⟩
          · exact Or.inl (by simp [hn, Res.map])
          · exact Or.inr ⟨(keys.getD i [], out), by simp [ho, Res.map], rfl, hv⟩) with hn | ⟨ws, hws, hall⟩
      · exact Or.inl (by simp only [callOut]; rw [hn]; rfl)
      refine Or.inr ⟨.obj ws, by simp only [callOut]; rw [hws]; rfl, ?_⟩
      simp only [CallSig.whole, modeOf, CallSig.struct]
      apply valid_of_shape
      refine Shape.tmap _ _ ?_ ?_
      · intro w hw
        obtain ⟨_, _, _, h'⟩ := hall w hw
        exact shape_of_valid _ _ h'
      · intro hd w hw
        obtain ⟨i, hi, hk, _⟩ := hall w hw
        rw [hk]
        exact hdir ks rfl hd i (List.mem_range.mp hi)

/-! ### statically known legal keys -/

theorem allSome_length {α : Type} : ∀ (l : List (Option α)) (r : List α), allSome l = some r → r.length = l.length
  | [], r, h => by simp [allSome] at h; subst h; rfl
  | none :: _, r, h => by simp [allSome] at h
  | some x :: l, r, h => by
    simp only [allSome] at h
    cases hl : allSome l with
    | none => simp [hl] at h
    | some xs =>
      simp only [hl, Option.some.injEq] at h
      subst h
      simp [allSome_length l xs hl]

/-- with statically known keys every split argument list has `n` elements -/
theorem argLists_split_len (Γ : Env) (ρ : Store) (bs : List (Bytes × Bind)) (n : Nat) :
    ∀ (params : List (Bytes × Ty)) (args : List (Bytes × Bool × List J)),
      staticLegalKeys n params bs = true → argLists Γ ρ bs params = some args →
      ∀ a ∈ args, a.2.1 = true → a.2.2.length = n
  | [], args, _, h => by simp [argLists] at h; subst h; simp
  | (x, t) :: r, args, hk, h => by
    simp only [staticLegalKeys, List.all_cons, Bool.and_eq_true] at hk
    simp only [argLists] at h
    cases hb : bs.lookup x with
    | none => simp [hb] at h
    | some b =>
      simp only [hb] at h hk
      cases hd : deliveredT Γ ρ t b with
      | none => simp [hd] at h
      | some vs =>
        simp only [hd] at h
        by_cases hc : (vs.all fun v => valid t v) = true
        · simp only [hc, if_true] at h
          cases hr : argLists Γ ρ bs r with
          | none => simp [hr] at h
          | some as =>
            simp only [hr, Option.some.injEq] at h
            subst h
            intro a ha hsp
            rcases List.mem_cons.mp ha with rfl | ha
            · -- the head: a split binding is a map literal with n entries
              cases b with
              | plain e => simp [Bind.isSplit] at hsp
              | split e =>
                cases e with
                | map isS kvs =>
                  simp only [Bool.and_eq_true, decide_eq_true_eq] at hk
                  simp only [deliveredT] at hd
                  have := allSome_length _ _ hd
                  simp only [List.length_map] at this
                  simpa [this] using hk.1.1
                | _ => simp at hk
            · exact argLists_split_len Γ ρ bs n r as (by simpa [staticLegalKeys] using hk.2) hr a ha hsp
        · simp [hc] at h

theorem nforks_le (n : Nat) : ∀ (args : List (Bytes × Bool × List J)) (m : Nat), m ≤ n →
    (∀ a ∈ args, a.2.1 = true → a.2.2.length = n) →
    args.foldl (fun m a => if a.2.1 then max m a.2.2.length else m) m ≤ n
  | [], m, hm, _ => by simpa using hm
  | a :: r, m, hm, h => by
    simp only [List.foldl_cons]
    apply nforks_le n r
    · cases hs : a.2.1 with
      | true =>
        have := h a List.mem_cons_self hs
        simp only [if_true]
        exact Nat.max_le.mpr ⟨hm, by omega⟩
      | false => simpa using hm
    · exact fun a' ha' => h a' (List.mem_cons_of_mem _ ha')

theorem nforks_pos_split : ∀ (args : List (Bytes × Bool × List J)) (m : Nat),
    m < args.foldl (fun m a => if a.2.1 then max m a.2.2.length else m) m → ∃ a ∈ args, a.2.1 = true
  | [], m, h => by simp at h
  | a :: r, m, h => by
    simp only [List.foldl_cons] at h
    cases hs : a.2.1 with
    | true => exact ⟨a, List.mem_cons_self, hs⟩
    | false =>
      simp only [hs, Bool.false_eq_true, if_false] at h
      obtain ⟨a', ha', hs'⟩ := nforks_pos_split r m h
      exact ⟨a', List.mem_cons_of_mem _ ha', hs'⟩

/-- the fork keys are the keys of the first split literal: `n` legal names –
provided some parameter is split at all -/
theorem splitKeys_static (Γ : Env) (ρ : Store) (bs : List (Bytes × Bind)) (n : Nat) :
    ∀ (params : List (Bytes × Ty)), staticLegalKeys n params bs = true →
      (∃ p ∈ params, ∃ b, bs.lookup p.1 = some b ∧ b.isSplit = true) →
      (splitKeys Γ ρ params bs).length = n ∧ ∀ k ∈ splitKeys Γ ρ params bs, legalName k = true
  | [], _, h => by obtain ⟨p, hp, _⟩ := h; cases hp
  | (x, t) :: r, hk, h => by
    simp only [staticLegalKeys, List.all_cons, Bool.and_eq_true] at hk
    cases hb : bs.lookup x with
    | none =>
      simp only [splitKeys, hb]
      obtain ⟨p, hp, b, hbl, hsp⟩ := h
      rcases List.mem_cons.mp hp with rfl | hp
      · simp [hb] at hbl
      · exact splitKeys_static Γ ρ bs n r (by simpa [staticLegalKeys] using hk.2) ⟨p, hp, b, hbl, hsp⟩
    | some b =>
      simp only [hb] at hk
      cases b with
      | plain e =>
        simp only [splitKeys, hb]
        obtain ⟨p, hp, b', hbl, hsp⟩ := h
        rcases List.mem_cons.mp hp with rfl | hp
        · simp only [hb, Option.some.injEq] at hbl
          subst hbl
          simp [Bind.isSplit] at hsp
        · exact splitKeys_static Γ ρ bs n r (by simpa [staticLegalKeys] using hk.2) ⟨p, hp, b', hbl, hsp⟩
      | split e =>
        cases e with
        | map isS kvs =>
          simp only [Bool.and_eq_true, decide_eq_true_eq, List.all_eq_true] at hk
          simp only [splitKeys, hb, List.length_map]
          exact ⟨hk.1.1, fun k hkm => hk.1.2 k hkm⟩
        | _ => simp at hk

/-- stores agree with environments on which calls have been made -/
def SameCalls (Γ : Env) (ρ : Store) : Prop := ∀ id, Γ.calls.lookup id = none → ρ.calls.lookup id = none

theorem storeOk_extend' (Γ : Env) (ρ : Store) (id : Bytes) (sig : CallSig) (v : J)
    (hρ : StoreOk Γ ρ) (hnew : Γ.calls.lookup id = none) (hnew' : ρ.calls.lookup id = none)
    (hv : valid sig.whole v = true) :
    StoreOk { Γ with calls := Γ.calls ++ [(id, sig)] } { ρ with calls := ρ.calls ++ [(id, v)] } := by
  refine ⟨hρ.1, ?_⟩
  intro id' sig' hl
  simp only [List.lookup_append] at hl ⊢
  cases hg : Γ.calls.lookup id' with
  | some s =>
    simp only [hg, Option.some_or, Option.some.injEq] at hl
    subst hl
    obtain ⟨v', hv', hval⟩ := hρ.2 id' s hg
    exact ⟨v', by simp [hv'], hval⟩
  | none =>
    simp only [hg, Option.none_or] at hl
    have hid : id' = id := by
      by_cases hq : id' = id
      · exact hq
      · have : (id' == id) = false := by simpa using hq
        simp [List.lookup, this] at hl
    subst hid
    have : sig' = sig := by simpa [List.lookup] using hl.symm
    subst this
    exact ⟨v, by simp [hnew', List.lookup], hv⟩

theorem sameCalls_extend (Γ : Env) (ρ : Store) (id : Bytes) (sig : CallSig) (v : J) (h : SameCalls Γ ρ) :
    SameCalls { Γ with calls := Γ.calls ++ [(id, sig)] } { ρ with calls := ρ.calls ++ [(id, v)] } := by
  intro id' hl
  simp only [List.lookup_append] at hl ⊢
  cases hg : Γ.calls.lookup id' with
  | some s => simp [hg] at hl
  | none =>
    simp only [hg, Option.none_or] at hl
    rw [h id' hg, Option.none_or]
    by_cases hq : id' = id
    · subst hq; simp [List.lookup] at hl
    · have : (id' == id) = false := by simpa using hq
      simp [List.lookup, this]

theorem holeFree_base (Γ : Env) (b : Base) (e : Exp) : holeFree Γ (.base b) e = true := by
  simp only [holeFree, refHoleFree]
  cases refType Γ e <;> simp [noHole]

/-- an accepted `disabled` modifier does not FAIL to evaluate: it resolves to a
boolean, or to null (where the run time stops by design) -/
theorem disabledRT_sound (Γ : Env) (ρ : Store) (hρ : StoreOk Γ ρ) (callee : Callee)
    (binds : List (Bytes × Bind)) (w : Option Wild) (m : Mods)
    (hm : modsOk Γ callee binds w m = true)
    (hw : ∀ e, usingDisabled m.usings = some e → e.wf = true) :
    disabledRT Γ ρ m = .nullDisabled ∨ ∃ b, disabledRT Γ ρ m = .ok b := by
  have hnil : modErrs Γ callee binds w m = [] := by simpa [modsOk] using hm
  have hd := ((modErrs_nil_iff Γ callee binds w m).mp hnil).2.1
  cases hu : usingDisabled m.usings with
  | none => exact Or.inr ⟨false, by simp [disabledRT, hu]⟩
  | some e =>
    obtain ⟨v, hev, hval⟩ := plain_sound_rt Γ ρ hρ (.base .bool) rfl e (hw e hu) (hd e hu)
      (holeFree_base Γ .bool _)
    have hs := shape_of_valid _ _ hval
    cases hs with
    | null => exact Or.inl (by simp [disabledRT, hu, hev])
    | bool b => exact Or.inr ⟨b, by simp [disabledRT, hu, hev]⟩

/-- without a `disabled` modifier the call is enabled -/
theorem disabledRT_none (Γ : Env) (ρ : Store) (m : Mods) (h : usingDisabled m.usings = none) :
    disabledRT Γ ρ m = .ok false := by simp [disabledRT, h]

theorem argLists_mem (Γ : Env) (ρ : Store) (bs : List (Bytes × Bind)) :
    ∀ (params : List (Bytes × Ty)) (args : List (Bytes × Bool × List J)),
      argLists Γ ρ bs params = some args →
      ∀ a ∈ args, ∃ t b, (a.1, t) ∈ params ∧ bs.lookup a.1 = some b ∧ a.2.1 = b.isSplit
  | [], args, h => by simp [argLists] at h; subst h; simp
  | (x, t) :: r, args, h => by
    simp only [argLists] at h
    cases hb : bs.lookup x with
    | none => simp [hb] at h
    | some b =>
      simp only [hb] at h
      cases hd : deliveredT Γ ρ t b with
      | none => simp [hd] at h
      | some vs =>
        simp only [hd] at h
        by_cases hc : (vs.all fun v => valid t v) = true
        · simp only [hc, if_true] at h
          cases hr : argLists Γ ρ bs r with
          | none => simp [hr] at h
          | some as =>
            simp only [hr, Option.some.injEq] at h
            subst h
            intro a ha
            rcases List.mem_cons.mp ha with rfl | ha
            · exact ⟨t, b, List.mem_cons_self, hb, rfl⟩
            · obtain ⟨t', b', hm, hl, hs⟩ := argLists_mem Γ ρ bs r as hr a ha
              exact ⟨t', b', List.mem_cons_of_mem _ hm, hl, hs⟩
        · simp [hc] at h

/-- the keys of the forks of a map call with statically known keys are legal names -/
theorem fork_keys_legal (Γ : Env) (ρ : Store) (bs : List (Bytes × Bind)) (n : Nat)
    (params : List (Bytes × Ty)) (args : List (Bytes × Bool × List J))
    (hk : staticLegalKeys n params bs = true) (ha : argLists Γ ρ bs params = some args) :
    ∀ i, i < nforks args → legalName ((splitKeys Γ ρ params bs).getD i []) = true := by
  intro i hi
  have hlen := argLists_split_len Γ ρ bs n params args hk ha
  have hle : nforks args ≤ n := nforks_le n args 0 (Nat.zero_le _) hlen
  obtain ⟨a, ham, hsp⟩ := nforks_pos_split args 0 (by unfold nforks at hi; omega)
  obtain ⟨t, b, hm, hl, hs⟩ := argLists_mem Γ ρ bs params args ha a ham
  obtain ⟨hn, hleg⟩ := splitKeys_static Γ ρ bs n params hk ⟨(a.1, t), hm, b, hl, by rw [← hs]; exact hsp⟩
  have hin : i < (splitKeys Γ ρ params bs).length := by omega
  have hg : (splitKeys Γ ρ params bs).getD i [] = (splitKeys Γ ρ params bs)[i] := by
    simp [List.getD_eq_getElem?_getD, hin]
  rw [hg]
  exact hleg _ (List.getElem_mem hin)

theorem stepCall_sound (P : Prog) (rc : Runner) (Γ : Env) (ρ : Store) (c : CallStm) (sh : Option SplitShape)
    (hρ : StoreOk Γ ρ) (hsame : SameCalls Γ ρ) (hnew : Γ.calls.lookup c.id = none)
    (hchk : checkStm Γ c = some sh) (hok : okStm P Γ c sh = true) (hrc : RcOk rc c.callee) :
    stepCall rc Γ ρ c = .nullDisabled ∨
    ∃ out, stepCall rc Γ ρ c =
        .ok ({ Γ with calls := Γ.calls ++ [(c.id, c.sig sh)] }, { ρ with calls := ρ.calls ++ [(c.id, out)] }) ∧
      StoreOk { Γ with calls := Γ.calls ++ [(c.id, c.sig sh)] } { ρ with calls := ρ.calls ++ [(c.id, out)] } ∧
      SameCalls { Γ with calls := Γ.calls ++ [(c.id, c.sig sh)] } { ρ with calls := ρ.calls ++ [(c.id, out)] } := by
  simp only [okStm, Bool.and_eq_true, List.all_eq_true, decide_eq_true_eq] at hok
  obtain ⟨⟨⟨⟨⟨⟨hpw, how⟩, hnd⟩, hbs⟩, hdw⟩, hdir⟩, _⟩ := hok
  -- the accepted call
  have hmods : modsOk Γ c.callee c.binds c.wild c.mods = true := by
    by_cases hm : modsOk Γ c.callee c.binds c.wild c.mods = true
    · exact hm
    · simp [checkStm, hm] at hchk
  have hcw : checkCallW Γ c.callee.params c.binds c.wild = some sh := by
    simpa [checkStm, hmods] using hchk
  cases hab : allBinds Γ c.callee.params c.binds c.wild with
  | none => simp [checkCallW, hab] at hcw
  | some bs =>
    rcases disabledRT_sound Γ ρ hρ c.callee c.binds c.wild c.mods hmods (by
      intro e he
      simpa [he] using hdw) with hdn | ⟨dis, hdis⟩
    · exact Or.inl (by simp [stepCall, hchk, hab, hdn])
    cases dis with
    | true =>
      -- a disabled call: null outputs
      refine Or.inr ⟨.null, by simp [stepCall, hchk, hab, hdis], ?_, sameCalls_extend Γ ρ c.id _ .null hsame⟩
      exact storeOk_extend' Γ ρ c.id (c.sig sh) .null hρ hnew (hsame c.id hnew) (valid_null _)
    | false =>
      simp only [hab, List.all_eq_true] at hbs
      have hcc : checkCall Γ c.callee.params bs = some sh := by simpa [checkCallW, hab] using hcw
      have hvc : validCall Γ c.callee.params bs = true := by simp [validCall, hcc]
      obtain ⟨args, hargs, hkeys, hall⟩ := argLists_sound Γ ρ hρ bs c.callee.params (by
        intro x t hm
        have hl := lookup_of_mem_nodup hnd hm
        obtain ⟨b, hbl, hvb⟩ := checkCall_bound Γ c.callee.params bs hvc x t hl
        have := hbs (x, b) (lookup_mem hbl)
        simp only [hl, Bool.and_eq_true] at this
        exact ⟨hpw (x, t) hm, b, hbl, this.1, hvb, this.2⟩)
      rcases callOut_sound rc c.callee (splitKeys Γ ρ c.callee.params bs) args sh hrc
        (fun i => forkInputs_ok c.callee.params args i hnd hkeys hall)
        (by
          intro ks hs hd
          subst hs
          simp only [hab, hd, Bool.not_true, Bool.false_or] at hdir
          cases ks with
          | none => simp at hdir
          | some k => exact fork_keys_legal Γ ρ bs k.length c.callee.params args hdir hargs) with hcn | ⟨out, hout, hval⟩
      · exact Or.inl (by simp [stepCall, hchk, hab, hdis, hargs, hcn])
      refine Or.inr ⟨out, by simp [stepCall, hchk, hab, hdis, hargs, hout], ?_, sameCalls_extend Γ ρ c.id _ out hsame⟩
      exact storeOk_extend' Γ ρ c.id (c.sig sh) out hρ hnew (hsame c.id hnew) (by simpa [CallStm.sig] using hval)

/-! ### the calls of a pipeline body, in dependency order -/

theorem runCalls_sound (P : Prog) (rc : Runner) : ∀ (calls : List CallStm) (Γ : Env) (ρ : Store) (Γf : Env),
    StoreOk Γ ρ → SameCalls Γ ρ → okCalls P Γ calls = some Γf → (∀ c ∈ calls, RcOk rc c.callee) →
    runCalls rc Γ ρ calls = .nullDisabled ∨ ∃ ρf, runCalls rc Γ ρ calls = .ok (Γf, ρf) ∧ StoreOk Γf ρf
  | [], Γ, ρ, Γf, hρ, _, hok, _ => by
    simp only [okCalls, Option.some.injEq] at hok
    subst hok
    exact Or.inr ⟨ρ, rfl, hρ⟩
  | c :: r, Γ, ρ, Γf, hρ, hsame, hok, hrc => by
    simp only [okCalls] at hok
    cases hl : Γ.calls.lookup c.id with
    | some s => simp [hl] at hok
    | none =>
      simp only [hl, Option.isSome_none, Bool.false_eq_true, if_false] at hok
      cases hchk : checkStm Γ c with
      | none => simp [hchk] at hok
      | some sh =>
        simp only [hchk] at hok
        by_cases hokc : okStm P Γ c sh = true
        · simp only [hokc, if_true] at hok
          rcases stepCall_sound P rc Γ ρ c sh hρ hsame hl hchk hokc
            (hrc c List.mem_cons_self) with hsn | ⟨out, hstep, hρ', hsame'⟩
          · exact Or.inl (by simp [runCalls, hsn])
          rcases runCalls_sound P rc r _ _ Γf hρ' hsame' hok
            (fun c' hc' => hrc c' (List.mem_cons_of_mem _ hc')) with hrn | ⟨ρf, hrun, hρf⟩
          · exact Or.inl (by simp [runCalls, hstep, hrn])
          · exact Or.inr ⟨ρf, by simp [runCalls, hstep, hrun], hρf⟩
        · simp [hokc] at hok

theorem okCalls_checkCalls (P : Prog) : ∀ (calls : List CallStm) (Γ Γf : Env),
    okCalls P Γ calls = some Γf → checkCalls Γ calls = some Γf
  | [], Γ, Γf, h => by simpa [okCalls, checkCalls] using h
  | c :: r, Γ, Γf, h => by
    simp only [okCalls] at h
    simp only [checkCalls]
    cases hl : (Γ.calls.lookup c.id).isSome with
    | true => simp [hl] at h
    | false =>
      simp only [hl, Bool.false_eq_true, if_false] at h ⊢
      cases hchk : checkStm Γ c with
      | none => simp [hchk] at h
      | some sh =>
        simp only [hchk] at h ⊢
        by_cases hokc : okStm P Γ c sh = true
        · simp only [hokc, if_true] at h
          exact okCalls_checkCalls P r _ Γf h
        · simp [hokc] at h

/-- every call of an `okCalls` body satisfies `okStm` somewhere -/
theorem okCalls_mem (P : Prog) : ∀ (calls : List CallStm) (Γ Γf : Env),
    okCalls P Γ calls = some Γf → ∀ c ∈ calls, ∃ Γ' sh, okStm P Γ' c sh = true
  | [], _, _, _, c, hc => by cases hc
  | c :: r, Γ, Γf, h, c', hc' => by
    simp only [okCalls] at h
    cases hl : (Γ.calls.lookup c.id).isSome with
    | true => simp [hl] at h
    | false =>
      simp only [hl, Bool.false_eq_true, if_false] at h
      cases hchk : checkStm Γ c with
      | none => simp [hchk] at h
      | some sh =>
        simp only [hchk] at h
        by_cases hokc : okStm P Γ c sh = true
        · simp only [hokc, if_true] at h
          rcases List.mem_cons.mp hc' with rfl | hm
          · exact ⟨Γ, sh, hokc⟩
          · exact okCalls_mem P r _ Γf h c' hm
        · simp [hokc] at h

end Martian.Typing

namespace Martian.Typing
open Martian.Json Martian.Types

/-! ### one invocation of a pipeline -/

theorem runPipe_sound (P : Prog) (rc : Runner) (p : Pipeline) (ins : List (Bytes × J))
    (hok : okPipe P p = true)
    (hin : ∀ x t, p.ins.lookup x = some t → ∃ v, ins.lookup x = some v ∧ valid t v = true)
    (hrc : ∀ c ∈ p.calls, RcOk rc c.callee) :
    runPipe rc p ins = .nullDisabled ∨
    ∃ out, runPipe rc p ins = .ok out ∧ valid (.struct p.name p.outs) out = true := by
  simp only [okPipe, Bool.and_eq_true] at hok
  obtain ⟨⟨⟨hvu, _⟩, hwf⟩, hrest⟩ := hok
  cases hoc : okCalls P { self := p.ins, calls := [] } p.calls with
  | none => simp [hoc] at hrest
  | some Γf =>
    simp only [hoc] at hrest
    cases hab : allBinds Γf p.outs.toList p.ret p.retWild with
    | none => simp [hab] at hrest
    | some bs =>
      simp only [hab, List.all_eq_true] at hrest
      have hρ0 : StoreOk { self := p.ins, calls := [] } { self := ins, calls := [] } :=
        ⟨hin, by intro id sig h; simp at h⟩
      have hs0 : SameCalls { self := p.ins, calls := [] } { self := ins, calls := [] } := by
        intro id _; rfl
      rcases runCalls_sound P rc p.calls _ _ Γf hρ0 hs0 hoc hrc with hrn | ⟨ρf, hrun, hρf⟩
      · exact Or.inl (by simp [runPipe, hrn])
      have hcc := okCalls_checkCalls P p.calls _ Γf hoc
      -- the return statement was accepted in Γf
      have hret : checkReturn Γf p.outs p.ret p.retWild = true := by
        cases hr : checkReturn Γf p.outs p.ret p.retWild with
        | true => rfl
        | false =>
          simp only [validPipelineU, checkPipelineU, hcc] at hvu
          cases hu : (unusedInputs p).isEmpty <;> simp [hu, hr] at hvu
      have hvc : validCall Γf p.outs.toList bs = true := by
        simp only [checkReturn, validCallW, checkCallW, hab] at hret
        simpa [validCall] using hret
      have hwf' := Fields.wf_iff.mp (by simpa [Ty.wf] using hwf)
      obtain ⟨vs, hvs, hkeys, hvals⟩ := retValueT_sound Γf ρf hρf bs p.outs (by
        intro k t hkt
        have hl := lookup_of_mem_nodup hwf'.1 hkt
        obtain ⟨b, hbl, hvb⟩ := checkCall_bound Γf p.outs.toList bs hvc k t hl
        have hb := hrest (k, b) (lookup_mem hbl)
        cases b with
        | split e => simp at hb
        | plain e =>
          simp only [hl, Bool.and_eq_true] at hb
          exact ⟨hwf'.2 k t hkt, e, hbl, hb.1, hvb, hb.2⟩)
      refine Or.inr ⟨.obj vs, by simp [runPipe, hrun, hab, hvs], ?_⟩
      simp only [valid, check, beq_iff_eq, checkFields_ok_iff]
      intro k t hkt
      obtain ⟨v, hmem, hv⟩ := hvals k t hkt
      exact ⟨v, getKey_of_mem_nodup (by rw [hkeys]; exact hwf'.1) hmem, by simpa [valid] using hv⟩

/-! ### every nesting depth -/

/-- a callable the program may call: a stage it names, or the pipeline it defines under that name -/
def CalleeOk (P : Prog) (top : CallStm) (c : Callee) : Prop :=
  (c.isStage = true → c ∈ P.callees top) ∧
  (c.isStage = false → ∃ q, P.find c.name = some q ∧ q.callee = c)

theorem calleeOk_of_okStm (P : Prog) (top : CallStm) (Γ : Env) (c : CallStm) (sh : Option SplitShape)
    (hmem : c.callee ∈ P.callees top) (h : okStm P Γ c sh = true) : CalleeOk P top c.callee := by
  refine ⟨fun _ => hmem, fun hns => ?_⟩
  simp only [okStm, Bool.and_eq_true, Bool.or_eq_true] at h
  rcases h.2 with hs | hq
  · rw [hns] at hs; cases hs
  · cases hf : P.find c.callee.name with
    | none => simp [hf] at hq
    | some q =>
      simp only [hf] at hq
      exact ⟨q, rfl, calleeEq_sound _ _ hq⟩

theorem run_sound (P : Prog) (O : Oracle) (top : CallStm) (hO : OracleOk P top O)
    (hP : ∀ p ∈ P.pipes, okPipe P p = true) :
    ∀ (n : Nat) (c : Callee), fits P n c = true → CalleeOk P top c → RcOk (run P O n) c := by
  intro n
  induction n with
  | zero => intro c h; simp [fits] at h
  | succ n ih =>
    intro c hfit hc ins hin
    by_cases hs : c.isStage = true
    · exact Or.inr ⟨O c.name ins, by simp [run, hs], hO c (hc.1 hs) hs ins⟩
    · have hns : c.isStage = false := by simpa using hs
      obtain ⟨q, hf, hq⟩ := hc.2 hns
      have hqm : q ∈ P.pipes := List.mem_of_find?_eq_some (by simpa [Prog.find] using hf)
      have hokq := hP q hqm
      have hfits : ∀ s ∈ q.calls, fits P n s.callee = true := by
        simp only [fits, hns, Bool.false_or, hf, List.all_eq_true] at hfit
        exact hfit
      -- the body's calls satisfy okStm
      have hoc : ∃ Γf, okCalls P { self := q.ins, calls := [] } q.calls = some Γf := by
        simp only [okPipe, Bool.and_eq_true] at hokq
        cases h : okCalls P { self := q.ins, calls := [] } q.calls with
        | none => simp [h] at hokq
        | some Γf => exact ⟨Γf, rfl⟩
      obtain ⟨Γf, hoc⟩ := hoc
      have hrc : ∀ s ∈ q.calls, RcOk (run P O n) s.callee := by
        intro s hsm
        obtain ⟨Γ', sh, hok⟩ := okCalls_mem P q.calls _ Γf hoc s hsm
        have hmem : s.callee ∈ P.callees top := by
          simp only [Prog.callees, List.mem_cons, List.mem_flatMap, List.mem_map]
          exact Or.inr ⟨q, hqm, s, hsm, rfl⟩
        exact ih s.callee (hfits s hsm) (calleeOk_of_okStm P top Γ' s sh hmem hok)
      subst hq
      have hf' : P.find q.name = some q := by simpa [Pipeline.callee] using hf
      rcases runPipe_sound P (run P O n) q ins hokq (by simpa [Pipeline.callee] using hin) hrc with hpn | ⟨out, hout, hval⟩
      · exact Or.inl (by simp [run, Pipeline.callee, hf', hpn])
      · exact Or.inr ⟨out, by simp [run, Pipeline.callee, hf', hout], by simpa [Pipeline.callee] using hval⟩

/-- THE WHOLE PROGRAM -/
theorem runProgram_sound (P : Prog) (O : Oracle) (top : CallStm) (n : Nat)
    (hO : OracleOk P top O) (hP : progOk P top = true) (hn : fits P n top.callee = true) :
    ∃ sh, checkStm emptyEnv top = some sh ∧
      (runProgram P O n top = .nullDisabled ∨
       ∃ out, runProgram P O n top =
          .ok ({ self := [], calls := [(top.id, top.sig sh)] }, { self := [], calls := [(top.id, out)] }) ∧
        valid (top.sig sh).whole out = true) := by
  simp only [progOk, Bool.and_eq_true, List.all_eq_true] at hP
  obtain ⟨⟨⟨⟨hpipes, _⟩, htop⟩, _⟩, _⟩ := hP
  cases hchk : checkStm emptyEnv top with
  | none => simp [hchk] at htop
  | some sh =>
    simp only [hchk] at htop
    have hcal : CalleeOk P top top.callee :=
      calleeOk_of_okStm P top emptyEnv top sh (by simp [Prog.callees]) htop
    have hrc := run_sound P O top hO hpipes n top.callee hn hcal
    have hρ : StoreOk emptyEnv { self := [], calls := [] } :=
      ⟨by intro id t h; simp [emptyEnv] at h, by intro id s h; simp [emptyEnv] at h⟩
    refine ⟨sh, rfl, ?_⟩
    rcases stepCall_sound P (run P O n) emptyEnv { self := [], calls := [] } top sh hρ
      (by intro id _; rfl) (by simp [emptyEnv]) hchk htop hrc with hsn | ⟨out, hstep, hρ', _⟩
    · exact Or.inl (by simpa [runProgram] using hsn)
    refine Or.inr ⟨out, by simpa [runProgram, emptyEnv] using hstep, ?_⟩
    obtain ⟨v, hv, hval⟩ := hρ'.2 top.id (top.sig sh) (by simp [emptyEnv, List.lookup])
    simp [emptyEnv, List.lookup] at hv
    subst hv
    exact hval

/-! ### programs without `disabled` modifiers never stop -/

/-- the runner never stops at a null `disabled` value -/
def RcND (rc : Runner) (c : Callee) : Prop := ∀ ins, rc c ins ≠ .nullDisabled

theorem collect_ne_nullDisabled {α : Type} : ∀ (l : List (Res α)), (∀ r ∈ l, r ≠ .nullDisabled) →
    Res.collect l ≠ .nullDisabled
  | [], _ => by simp [Res.collect]
  | r :: rs, h => by
    have ih := collect_ne_nullDisabled rs (fun r' hr' => h r' (List.mem_cons_of_mem _ hr'))
    have hr := h r List.mem_cons_self
    cases r with
    | nullDisabled => exact absurd rfl hr
    | fail => simp [Res.collect]
    | ok a =>
      cases hc : Res.collect rs with
      | nullDisabled => exact absurd hc ih
      | fail => simp [Res.collect, hc]
      | ok as => simp [Res.collect, hc]

theorem map_ne_nullDisabled {α β : Type} (f : α → β) (r : Res α) (h : r ≠ .nullDisabled) :
    r.map f ≠ .nullDisabled := by
  cases r with
  | nullDisabled => exact absurd rfl h
  | fail => simp [Res.map]
  | ok a => simp [Res.map]

theorem callOut_nd (rc : Runner) (c : Callee) (keys : List Bytes) (args : List (Bytes × Bool × List J))
    (sh : Option SplitShape) (h : RcND rc c) : callOut rc c keys args sh ≠ .nullDisabled := by
  cases sh with
  | none => exact h _
  | some s =>
    cases s with
    | arr n =>
      simp only [callOut]
      apply map_ne_nullDisabled
      apply collect_ne_nullDisabled
      intro r hr
      obtain ⟨i, _, rfl⟩ := List.mem_map.mp hr
      exact h _
    | map ks =>
      simp only [callOut]
      apply map_ne_nullDisabled
      apply collect_ne_nullDisabled
      intro r hr
      obtain ⟨i, _, rfl⟩ := List.mem_map.mp hr
      exact map_ne_nullDisabled _ _ (h _)

theorem stepCall_nd (rc : Runner) (Γ : Env) (ρ : Store) (c : CallStm)
    (hd : usingDisabled c.mods.usings = none) (h : RcND rc c.callee) :
    stepCall rc Γ ρ c ≠ .nullDisabled := by
  simp only [stepCall]
  cases checkStm Γ c with
  | none => simp
  | some sh =>
    cases allBinds Γ c.callee.params c.binds c.wild with
    | none => simp
    | some bs =>
      simp only [disabledRT_none Γ ρ c.mods hd]
      cases argLists Γ ρ bs c.callee.params with
      | none => simp
      | some args =>
        have := callOut_nd rc c.callee (splitKeys Γ ρ c.callee.params bs) args sh h
        cases hc : callOut rc c.callee (splitKeys Γ ρ c.callee.params bs) args sh with
        | nullDisabled => exact absurd hc this
        | fail => simp [hc]
        | ok out => simp [hc]

theorem runCalls_nd (rc : Runner) : ∀ (calls : List CallStm) (Γ : Env) (ρ : Store),
    (∀ c ∈ calls, usingDisabled c.mods.usings = none ∧ RcND rc c.callee) →
    runCalls rc Γ ρ calls ≠ .nullDisabled
  | [], _, _, _ => by simp [runCalls]
  | c :: r, Γ, ρ, h => by
    have h1 := stepCall_nd rc Γ ρ c (h c List.mem_cons_self).1 (h c List.mem_cons_self).2
    simp only [runCalls]
    cases hs : stepCall rc Γ ρ c with
    | nullDisabled => exact absurd hs h1
    | fail => simp
    | ok s => exact runCalls_nd rc r s.1 s.2 (fun c' hc' => h c' (List.mem_cons_of_mem _ hc'))

theorem runPipe_nd (rc : Runner) (p : Pipeline) (ins : List (Bytes × J))
    (h : ∀ c ∈ p.calls, usingDisabled c.mods.usings = none ∧ RcND rc c.callee) :
    runPipe rc p ins ≠ .nullDisabled := by
  have h1 := runCalls_nd rc p.calls { self := p.ins, calls := [] } { self := ins, calls := [] } h
  simp only [runPipe]
  cases hr : runCalls rc { self := p.ins, calls := [] } { self := ins, calls := [] } p.calls with
  | nullDisabled => exact absurd hr h1
  | fail => simp
  | ok s =>
    simp only
    cases allBinds s.1 p.outs.toList p.ret p.retWild with
    | none => simp
    | some bs => cases hrv : retValueT s.1 s.2 bs p.outs <;> simp [hrv]

theorem run_nd (P : Prog) (O : Oracle)
    (hP : ∀ p ∈ P.pipes, ∀ c ∈ p.calls, usingDisabled c.mods.usings = none) :
    ∀ (n : Nat) (c : Callee), RcND (run P O n) c := by
  intro n
  induction n with
  | zero => intro c ins; simp [run]
  | succ n ih =>
    intro c ins
    simp only [run]
    by_cases hs : c.isStage = true
    · simp [hs]
    · simp only [hs, Bool.false_eq_true, if_false]
      cases hf : P.find c.name with
      | none => simp
      | some q =>
        have hqm : q ∈ P.pipes := List.mem_of_find?_eq_some (by simpa [Prog.find] using hf)
        exact runPipe_nd (run P O n) q ins (fun s hsm => ⟨hP q hqm s hsm, ih s.callee⟩)

theorem runProgram_nd (P : Prog) (O : Oracle) (top : CallStm) (n : Nat) (h : noDisabled P top = true) :
    runProgram P O n top ≠ .nullDisabled := by
  simp only [noDisabled, Bool.and_eq_true, List.all_eq_true, Option.isNone_iff_eq_none] at h
  exact stepCall_nd _ _ _ top h.1 (run_nd P O h.2 n top.callee)

/-
The whole-program soundness theorem (Martian/TypingProgram.lean): induction over
the calls of a pipeline body in dependency order and over the nesting depth of
pipelines.  Core Lean only.
-/
end Martian.Typing
