/-
C13 `dest_injective` (sibling level): names given to the children of one
directory under outs/ are pairwise distinct, and different names give
disjoint sub-trees.
-/
import Martian.PostProcess
import Martian.PostProcessDefs

namespace Martian.PostProcess

/-! ## array element names -/

theorem lt_pow_widthAux (fuel n : Nat) (h : n ≤ fuel) : n < 10 ^ widthAux fuel n := by
  induction fuel generalizing n with
  | zero =>
    have : n = 0 := by omega
    subst this
    simp [widthAux]
  | succ fuel ih =>
    simp only [widthAux]
    split
    · simpa using ‹n < 10›
    · have h1 : n / 10 ≤ fuel := by omega
      have h2 := ih (n / 10) h1
      rw [Nat.add_comm, Nat.pow_succ]
      omega

/-- every index of an array of length `n` has at most `width n` digits -/
theorem lt_pow_width (n : Nat) : n < 10 ^ width n := lt_pow_widthAux n n (Nat.le_refl n)

theorem valRev_digitsRev (w i : Nat) (h : i < 10 ^ w) : valRev (digitsRev w i) = i := by
  induction w generalizing i with
  | zero =>
    have : i = 0 := by simpa using h
    simp [digitsRev, valRev, this]
  | succ w ih =>
    have h1 : i / 10 < 10 ^ w := by
      rw [Nat.pow_succ] at h
      omega
    simp only [digitsRev, valRev, ih (i / 10) h1]
    omega

theorem digitsRev_lt (w i : Nat) : ∀ d ∈ digitsRev w i, d < 10 := by
  induction w generalizing i with
  | zero => simp [digitsRev]
  | succ w ih =>
    intro d hd
    simp only [digitsRev, List.mem_cons] at hd
    rcases hd with hd | hd
    · omega
    · exact ih _ d hd

theorem digitChar_toNat : ∀ d, d < 10 → (digitChar d).toNat = 48 + d := by decide

theorem map_digitChar_inj {xs ys : List Nat} (hx : ∀ d ∈ xs, d < 10) (hy : ∀ d ∈ ys, d < 10)
    (h : xs.map digitChar = ys.map digitChar) : xs = ys := by
  induction xs generalizing ys with
  | nil => cases ys with
    | nil => rfl
    | cons y ys => simp at h
  | cons x xs ih =>
    cases ys with
    | nil => simp at h
    | cons y ys =>
      simp only [List.map_cons, List.cons.injEq] at h
      have hx0 := hx x (by simp)
      have hy0 := hy y (by simp)
      have e : x = y := by
        have := congrArg Char.toNat h.1
        rw [digitChar_toNat x hx0, digitChar_toNat y hy0] at this
        omega
      rw [e, ih (fun d hd => hx d (by simp [hd])) (fun d hd => hy d (by simp [hd])) h.2]

/-- zero-padded names of the same width are distinct for distinct indices -/
theorem pad_injective (w i j : Nat) (hi : i < 10 ^ w) (hj : j < 10 ^ w) (h : pad w i = pad w j) :
    i = j := by
  unfold pad at h
  have h1 : (digitsRev w i).reverse.map digitChar = (digitsRev w j).reverse.map digitChar := by
    have := congrArg String.toList h
    simpa using this
  have h2 : (digitsRev w i).reverse = (digitsRev w j).reverse :=
    map_digitChar_inj (fun d hd => digitsRev_lt w i d (by simpa using hd))
      (fun d hd => digitsRev_lt w j d (by simpa using hd)) h1
  have h3 : digitsRev w i = digitsRev w j := by
    have := congrArg List.reverse h2
    simpa using this
  rw [← valRev_digitsRev w i hi, ← valRev_digitsRev w j hj, h3]

/-- the names `moveOutArrayDir` gives to the elements of one array are pairwise distinct -/
theorem array_names_distinct (n i j : Nat) (hi : i < n) (hj : j < n)
    (h : pad (width n) i = pad (width n) j) : i = j :=
  pad_injective (width n) i j (Nat.lt_trans hi (lt_pow_width n)) (Nat.lt_trans hj (lt_pow_width n)) h

/-! ## different names, disjoint sub-trees -/

/-- paths below `outs/n1` and below `outs/n2` coincide only when `n1 = n2` -/
theorem sibling_subtrees_disjoint (outs : Path) (n1 n2 : String) (s1 s2 : Path)
    (h : (outs ++ [n1]) ++ s1 = (outs ++ [n2]) ++ s2) : n1 = n2 := by
  induction outs with
  | nil => simpa using (List.cons.inj h).1
  | cons a outs ih => exact ih (List.cons.inj h).2

/-! ## struct members: the compile-time check -/

theorem noDupNames_sound (ms : List (String × String × Ty)) (seen : List String)
    (h : noDupNames ms seen = true) :
    (memberNames ms).Nodup ∧ ∀ n ∈ memberNames ms, n ∉ seen := by
  induction ms generalizing seen with
  | nil => simp [memberNames]
  | cons m ms ih =>
    obtain ⟨id, on, t⟩ := m
    simp only [noDupNames] at h
    cases hf : hasFile t with
    | false =>
      simp only [hf] at h
      simpa [memberNames, hf] using ih seen h
    | true =>
      simp only [hf, if_true] at h
      split at h
      · cases h
      · next hc =>
        obtain ⟨h1, h2⟩ := ih _ h
        have hc' : outFilename t id on ∉ seen := by simpa using hc
        simp only [memberNames, hf, if_true, List.nodup_cons, List.mem_cons]
        refine ⟨⟨fun hm => ?_, h1⟩, ?_⟩
        · exact absurd (List.mem_cons_self) (h2 _ hm)
        · intro n hn
          rcases hn with hn | hn
          · rw [hn]; exact hc'
          · exact fun hs => h2 n hn (List.mem_cons_of_mem _ hs)

end Martian.PostProcess
