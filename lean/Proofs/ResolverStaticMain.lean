/-
C01 — the refinement "two-phase resolver = den" for PLAIN programs: induction over
the call graph.
-/
import Proofs.ResolverStaticRefine

namespace Proofs.ResolverStatic
open Martian.Dataflow Martian.Resolver Martian.ResolverForks Martian.ResolverStatic Proofs.Dataflow
  Proofs.ResolverForks

/-! ## well-typed plain programs -/

/-- a plain call (not mapped, no `disabled`) whose bindings are assignable to the callee's parameters -/
def CallOk (st : StructTable) (insOf : String → List Param) (sT cT : String → Ty) (c : Call) : Prop :=
  c.mapped = false ∧ c.disabled = none ∧
  ∀ p ∈ insOf c.callee, ∀ b, c.binds.find? (fun b => b.param == p.name) = some b →
    HasTy st sT cT p.ty b.exp

/-- the calls of a pipeline body, each typed against the calls before it -/
def CallsOk (st : StructTable) (insOf : String → List Param) (sT : String → Ty) :
    List (String × Ty) → List Call → Prop
  | _, [] => True
  | L, c :: cs =>
    CallOk st insOf sT (callTyOf L) c ∧ CallsOk st insOf sT (L ++ [(c.id, ⟨c.callee, 0, 0⟩)]) cs

def callTypes (cs : List Call) : List (String × Ty) := cs.map fun c => (c.id, ⟨c.callee, 0, 0⟩)

def PipelineOk (st : StructTable) (insOf : String → List Param) (pins outs : List Param)
    (calls : List Call) (ret : List (String × Exp)) : Prop :=
  CallsOk st insOf (selfTyOf pins) [] calls ∧
  ∀ p ∈ outs, ∀ e, ret.lookup p.name = some e →
    HasTy st (selfTyOf pins) (callTyOf (callTypes calls)) p.ty e

/-- what the compiler guarantees of a plain program, as far as the refinement needs it -/
structure WellTyped (P : Program) : Prop where
  structs : StructsOk P.table
  outsOf : ∀ name c, P.callables.lookup name = some c → P.table.lookup name = some c.outs
  pipelines : ∀ name pins outs calls ret,
    P.callables.lookup name = some (.pipeline pins outs calls ret) →
      PipelineOk P.table P.insOf pins outs calls ret
  top : CallOk P.table P.insOf (selfTyOf []) (callTyOf []) P.top

/-! ## relations carried through the induction -/

/-- plain programs: every resolved expression is evaluated in the empty fork assignment -/
abbrev Fs0 : ForkAssign → Prop := fun f => f = []

/-- den's argument record against the resolved inputs of a node -/
def ArgsRel (st : StructTable) (F : Nat) (ρ : Store) (pins : List Param) (args : J) (cins : RBMap) : Prop :=
  ∃ g : Param → RExp,
    cins = pins.map (fun q => (q.name, (⟨g q, q.ty⟩ : RB))) ∧
    args = .obj (pins.map fun q => (q.name, evalRT st F ρ [] q.ty (g q))) ∧
    ∀ q ∈ pins, HasTyR st q.ty (g q)

/-- den's result for a callable against the static node -/
def Good (st : StructTable) (F : Nat) (ρ : Store) (callee : String) (d : J × List Inst)
    (s : RB × List SNode) : Prop :=
  d.1 = evalRT st F ρ [] ⟨callee, 0, 0⟩ s.1.exp ∧ HasTyR st ⟨callee, 0, 0⟩ s.1.exp ∧
  d.2 = s.2.map (toInst st F ρ)

def typesOf (env : Env) : List (String × Ty) := env.calls.map fun x => (x.1, x.2.1)

theorem lookup_map_find {β : Type} (ps : List Param) (g : Param → β) (k : String) :
    (ps.map fun q => (q.name, g q)).lookup k = (ps.find? (fun q => q.name == k)).map g := by
  induction ps with
  | nil => rfl
  | cons q qs ih =>
    simp only [List.map_cons, List.lookup_cons, List.find?_cons]
    cases hq : (q.name == k) with
    | true =>
      have : (k == q.name) = true := by
        have : q.name = k := by simpa using hq
        simp [this]
      simp [this]
    | false =>
      have : (k == q.name) = false := by
        have : q.name ≠ k := by simpa using hq
        simpa using fun e => this e.symm
      simp [this, ih]

theorem callTy_typesOf (env : Env) : env.callTy = callTyOf (typesOf env) := by
  funext c
  simp only [Env.callTy, callTyOf, typesOf]
  congr 1
  induction env.calls with
  | nil => rfl
  | cons x xs ih =>
    obtain ⟨k, t, v⟩ := x
    simp only [List.lookup_cons, List.map_cons]
    cases (c == k) <;> simp [ih]

theorem selfTy_eq (env : Env) : env.selfTy = selfTyOf env.selfTys := by
  funext p
  rfl

theorem HasTyR_null (st : StructTable) (t : Ty) : HasTyR st t (.lit .null) := by
  simp [HasTyR, LitOk]

section main
variable (st : StructTable) (hst : StructsOk st) (F : Nat) (hF : NarrowFix st F) (ρ : Store)
include hst hF

/-- the bindings of a plain call: den's argument record = run-time evaluation of the resolved inputs -/
theorem args_step (insOf : String → List Param) (env : Env) (self sib : RBMap)
    (hrel : EnvRel st F ρ Fs0 env self sib) (c : Call)
    (hc : CallOk st insOf env.selfTy env.callTy c) :
    ArgsRel st F ρ (insOf c.callee) (mkArgs st F (argVals st env (insOf c.callee) c) none)
      (resolveBinds st self sib (insOf c.callee) c) := by
  obtain ⟨_, _, hb⟩ := hc
  refine ⟨fun q => match c.binds.find? (fun b => b.param == q.name) with
    | some b => filterR st q.ty (resolveRefs self sib b.exp)
    | none => .lit .null, ?_, ?_, ?_⟩
  · simp only [resolveBinds]
    apply List.map_congr_left
    intro p _
    cases c.binds.find? (fun b => b.param == p.name) <;> rfl
  · simp only [mkArgs, argVals, List.map_map, J.obj.injEq]
    apply List.map_congr_left
    intro p hp
    simp only [Function.comp_apply]
    cases hfb : c.binds.find? (fun b => b.param == p.name) with
    | none => simp [narrow_null hF, evalRT]
    | some b =>
      simp only [Prod.mk.injEq, true_and]
      have key := (eval_resolveExp st hst F hF ρ Fs0 env self sib hrel [] rfl b.exp p.ty (hb p hp b hfb)).1
      cases b.split <;> exact key
  · intro p hp
    show HasTyR st p.ty (match c.binds.find? (fun b => b.param == p.name) with
      | some b => filterR st p.ty (resolveRefs self sib b.exp)
      | none => .lit .null)
    cases hfb : c.binds.find? (fun b => b.param == p.name) with
    | none => exact HasTyR_null st _
    | some b => exact (eval_resolveExp st hst F hF ρ Fs0 env self sib hrel [] rfl b.exp p.ty (hb p hp b hfb)).2

omit hst hF in
/-- entering a pipeline: its environment is related to the resolved inputs of its node -/
theorem envRel_init (pins : List Param) (args : J) (cins : RBMap) (h : ArgsRel st F ρ pins args cins) :
    EnvRel st F ρ Fs0 ⟨pins, args, []⟩ cins [] := by
  obtain ⟨g, hc, ha, hty⟩ := h
  refine ⟨?_, ?_, ?_⟩
  · intro p
    simp only [Env.selfTy, σexp]
    rw [hc, ha, lookup_map_find]
    simp only [J.field, lookup_map_find]
    cases hf : pins.find? (fun q => q.name == p) with
    | none => simp [HasTyR_null, evalRT]
    | some q =>
      simp only [Option.map_some, Option.getD_some]
      exact ⟨hty q (List.mem_of_find?_eq_some hf), fun f hf0 => by subst hf0; rfl⟩
  · intro c
    simp [Env.callTy, Env.callVal, σexp, HasTyR_null, evalRT]
  · intro c
    rfl

omit hst hF in
/-- one more call in the environment -/
theorem envRel_step (env : Env) (self sib : RBMap) (hrel : EnvRel st F ρ Fs0 env self sib)
    (id callee : String) (v : J) (rb : RB)
    (hv : v = evalRT st F ρ [] ⟨callee, 0, 0⟩ rb.exp) (hty : HasTyR st ⟨callee, 0, 0⟩ rb.exp) :
    EnvRel st F ρ Fs0 { env with calls := env.calls ++ [(id, ⟨callee, 0, 0⟩, v)] } self (sib ++ [(id, rb)]) := by
  refine ⟨hrel.hself, ?_, ?_⟩
  · intro c
    have hd := hrel.hdom c
    have hc := hrel.hcall c
    simp only [Env.callTy, Env.callVal, σexp, List.lookup_append] at hc ⊢
    cases h1 : env.calls.lookup c with
    | some x =>
      rw [h1] at hd hc
      cases h2 : sib.lookup c with
      | none => simp [h2] at hd
      | some y =>
        rw [h2] at hc
        simpa using hc
    | none =>
      rw [h1] at hd
      cases h2 : sib.lookup c with
      | some y => simp [h2] at hd
      | none =>
        simp only [Option.none_or, List.lookup_cons, List.lookup_nil]
        cases (c == id) with
        | true => simpa using ⟨hty, hv⟩
        | false => simp [HasTyR_null, evalRT]
  · intro c
    have hd := hrel.hdom c
    simp only [List.lookup_append]
    cases h1 : env.calls.lookup c with
    | some x =>
      rw [h1] at hd
      cases h2 : sib.lookup c with
      | none => simp [h2] at hd
      | some y => simp
    | none =>
      rw [h1] at hd
      cases h2 : sib.lookup c with
      | some y => simp [h2] at hd
      | none =>
        simp only [Option.none_or, List.lookup_cons, List.lookup_nil]
        cases (c == id) <;> rfl

omit hst hF in
theorem evalCall_plain (insOf : String → List Param) (run : Runner) (path : List String)
    (forks : List (String × Idx)) (env : Env) (c : Call) (hm : c.mapped = false) (hd : c.disabled = none) :
    evalCall st F insOf run path forks env c =
      (⟨c.callee, 0, 0⟩,
       (run c.callee (path ++ [c.id]) forks (mkArgs st F (argVals st env (insOf c.callee) c) none)).1,
       (run c.callee (path ++ [c.id]) forks (mkArgs st F (argVals st env (insOf c.callee) c) none)).2) := by
  simp [evalCall, hd, hm, callMode, liftTy]

/-- the calls of a pipeline body -/
theorem refine_calls (insOf : String → List Param) (run : Runner)
    (node : String → List String → RBMap → RB × List SNode) (path : List String) (self : RBMap)
    (sT : String → Ty)
    (hrun : ∀ callee path args cins, ArgsRel st F ρ (insOf callee) args cins →
      Good st F ρ callee (run callee path [] args) (node callee path cins)) :
    ∀ (cs : List Call) (env : Env) (sib : RBMap) (acc : List Inst) (sacc : List SNode),
      EnvRel st F ρ Fs0 env self sib → env.selfTy = sT → CallsOk st insOf sT (typesOf env) cs →
      acc = sacc.map (toInst st F ρ) →
      EnvRel st F ρ Fs0 (evalCalls st F insOf run path [] cs env acc).1 self
          (staticCalls st insOf node path self cs sib sacc).1 ∧
      (evalCalls st F insOf run path [] cs env acc).1.selfTys = env.selfTys ∧
      typesOf (evalCalls st F insOf run path [] cs env acc).1 = typesOf env ++ callTypes cs ∧
      (evalCalls st F insOf run path [] cs env acc).2
        = (staticCalls st insOf node path self cs sib sacc).2.map (toInst st F ρ) := by
  intro cs
  induction cs with
  | nil =>
    intro env sib acc sacc hrel _ _ hacc
    simp only [evalCalls, staticCalls, callTypes, List.map_nil, List.append_nil]
    exact ⟨hrel, trivial, trivial, hacc⟩
  | cons c cs ih =>
    intro env sib acc sacc hrel hsT hok hacc
    simp only [CallsOk] at hok
    obtain ⟨hc, hcs⟩ := hok
    have hc' : CallOk st insOf env.selfTy env.callTy c := by
      rw [hsT, callTy_typesOf]; exact hc
    have hargs := args_step st hst F hF ρ insOf env self sib hrel c hc'
    have hgood := hrun c.callee (path ++ [c.id]) _ _ hargs
    obtain ⟨g1, g2, g3⟩ := hgood
    simp only [evalCalls, staticCalls, hc.1, Bool.false_eq_true, if_false]
    rw [evalCall_plain st F insOf run path [] env c hc.1 hc.2.1]
    simp only
    have hrel' := envRel_step st F ρ env self sib hrel c.id c.callee _ _ g1 g2
    have := ih _ _ (acc ++ (run c.callee (path ++ [c.id]) []
        (mkArgs st F (argVals st env (insOf c.callee) c) none)).2)
      (sacc ++ (node c.callee (path ++ [c.id]) (resolveBinds st self sib (insOf c.callee) c)).2)
      hrel' hsT (by simpa [typesOf] using hcs) (by rw [hacc, g3, List.map_append])
    obtain ⟨r1, r2, r3, r4⟩ := this
    refine ⟨r1, r2, ?_, r4⟩
    rw [r3]
    simp [typesOf, callTypes]

end main

/-! ## the call graph -/

section graph
variable (P : Program) (hw : WellTyped P) (F : Nat) (hF : NarrowFix P.table F)
  (nm : List String → String) (O : Oracle) (ρ : Store) (hρ : StoreOf nm O ρ)
include hw hF hρ

theorem refine_callable :
    ∀ (fuel : Nat) (callee : String) (path : List String) (args : J) (cins : RBMap),
      ArgsRel P.table F ρ (P.insOf callee) args cins →
      Good P.table F ρ callee (runCallable P O F fuel callee path [] args)
        (staticCallable P nm fuel callee path cins) := by
  intro fuel
  induction fuel with
  | zero =>
    intro callee path args cins _
    simp only [runCallable, staticCallable, Good, evalRT, List.map_nil]
    exact ⟨trivial, HasTyR_null _ _, trivial⟩
  | succ fuel ih =>
    intro callee path args cins hargs
    simp only [runCallable, staticCallable]
    cases hl : P.callables.lookup callee with
    | none =>
      simp only [Good, evalRT, List.map_nil]
      exact ⟨trivial, HasTyR_null _ _, trivial⟩
    | some cb =>
      cases cb with
      | stage sins souts =>
        simp only [Good, evalRT, projPath, hρ path [], HasTyR, pathTy, List.map_cons, List.map_nil]
        refine ⟨trivial, Sub.refl _, ?_⟩
        obtain ⟨g, hc, ha, _⟩ := hargs
        simp only [toInst, runtimeArgs, hc, ha, List.map_map, List.cons.injEq, and_true]
        rfl
      | pipeline pins outs calls ret =>
        have hins : P.insOf callee = pins := by simp [Program.insOf, hl, Callable.ins]
        rw [hins] at hargs
        obtain ⟨hcalls, hret⟩ := hw.pipelines callee pins outs calls ret hl
        have htab := hw.outsOf callee _ hl
        simp only [Callable.outs] at htab
        have hn := hw.structs _ _ htab
        have hinit := envRel_init P.table F ρ pins args cins hargs
        have hcs := refine_calls P.table hw.structs F hF ρ P.insOf (runCallable P O F fuel)
          (staticCallable P nm fuel) path cins (selfTyOf pins) ih calls ⟨pins, args, []⟩ [] [] []
          hinit rfl (by simpa [typesOf] using hcalls) rfl
        obtain ⟨hrel, hself, htypes, hinst⟩ := hcs
        simp only
        generalize evalCalls P.table F P.insOf (runCallable P O F fuel) path [] calls ⟨pins, args, []⟩ [] = R
          at hrel hself htypes hinst
        generalize staticCalls P.table P.insOf (staticCallable P nm fuel) path cins calls [] [] = S
          at hrel hinst
        have hsT : R.1.selfTy = selfTyOf pins := by rw [selfTy_eq, hself]
        have hcT : R.1.callTy = callTyOf (callTypes calls) := by
          rw [callTy_typesOf, htypes]; simp [typesOf]
        -- every return binding
        have key : ∀ p ∈ outs,
            narrow P.table F p.ty (match ret.lookup p.name with
              | some e => eval P.table R.1 e
              | none => .null)
              = evalRT P.table F ρ [] p.ty (match ret.lookup p.name with
                | some e => filterR P.table p.ty (resolveRefs cins S.1 e)
                | none => .lit .null) ∧
            HasTyR P.table p.ty (match ret.lookup p.name with
                | some e => filterR P.table p.ty (resolveRefs cins S.1 e)
                | none => .lit .null) := by
          intro p hp
          cases he : ret.lookup p.name with
          | none => exact ⟨by simp [narrow_null hF, evalRT], HasTyR_null _ _⟩
          | some e =>
            have hty := hret p hp e he
            rw [← hsT, ← hcT] at hty
            exact eval_resolveExp P.table hw.structs F hF ρ Fs0 R.1 cins S.1 hrel [] rfl e p.ty hty
        have c2 : ((0 : Nat) == 0 && (0 : Nat) != 0) = false := by decide
        refine ⟨?_, ?_, hinst⟩
        · simp only [evalRT, c2, Bool.false_eq_true, if_false, htab, J.obj.injEq]
          apply List.map_congr_left
          intro p hp
          simp only [Prod.mk.injEq, true_and]
          rw [lookup_evalRTMembers, lookup_map_find, find_name_of_nodup outs hn p hp,
            memberTy_find outs p.name p (find_name_of_nodup outs hn p hp)]
          exact (key p hp).1
        · simp only [HasTyR]
          refine ⟨trivial, trivial, outs, htab, ?_, ?_⟩
          · apply HasTyRMembers_of_mem
            intro k e hke _
            simp only [List.mem_map, Prod.mk.injEq] at hke
            obtain ⟨p, hp, hk, he⟩ := hke
            subst hk; subst he
            rw [memberTy_find outs p.name p (find_name_of_nodup outs hn p hp)]
            exact (key p hp).2
          · intro p hp
            rw [lookup_map_find, find_name_of_nodup outs hn p hp]
            rfl

/-- THE REFINEMENT for plain programs: both phases of the resolver = den -/
theorem twoPhase_eq_den_F :
    runCallable P O F P.fuel P.top.callee [P.top.id] []
        (mkArgs P.table F (argVals P.table ⟨[], .null, []⟩ (P.insOf P.top.callee) P.top) none)
      = ((evalRT P.table F ρ [] ⟨P.top.callee, 0, 0⟩ (staticProgram P nm).1.exp),
         (staticProgram P nm).2.map (toInst P.table F ρ)) := by
  have henv : EnvRel P.table F ρ Fs0 ⟨[], .null, []⟩ [] [] := by
    refine ⟨?_, ?_, ?_⟩
    · intro p; simp [Env.selfTy, σexp, HasTyR_null, evalRT, J.field]
    · intro c; simp [Env.callTy, Env.callVal, σexp, HasTyR_null, evalRT]
    · intro c; rfl
  have htop : CallOk P.table P.insOf (Env.selfTy ⟨[], .null, []⟩) (Env.callTy ⟨[], .null, []⟩) P.top := by
    rw [selfTy_eq, callTy_typesOf]
    exact hw.top
  have hargs := args_step P.table hw.structs F hF ρ P.insOf ⟨[], .null, []⟩ [] [] henv P.top htop
  have := refine_callable P hw F hF nm O ρ hρ P.fuel P.top.callee [P.top.id] _ _ hargs
  obtain ⟨g1, g2, g3⟩ := this
  exact Prod.ext g1 g3

end graph

end Proofs.ResolverStatic
