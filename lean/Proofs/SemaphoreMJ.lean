import Martian.Semaphore

/-! MaxJobsSemaphore and GetSystemReqs lemmas for C12. -/
namespace Martian.Semaphore

/-- invariant of the MaxJobs semaphore created with limit `L` -/
structure MJInv (L : Int) (s : MJ) : Prop where
  nodup : s.running.Nodup
  le : (s.running.length : Int) ≤ L
  lim : s.limit = L ∨ s.limit = 0

theorem MJ.attempt_inv (L : Int) (s : MJ) (id : Nat) (st : MdState) (nb : Bool) (h : MJInv L s) :
    MJInv L (s.attempt id st nb).1 := by
  unfold MJ.attempt
  split
  · exact h
  · split
    · split
      · exact h
      · split
        · exact h
        · split <;> exact h
    · rename_i hlt
      split
      · exact h
      · rename_i hc
        have hnot : id ∉ s.running := by simpa using hc
        refine ⟨?_, ?_, h.lim⟩
        · simp only [List.nodup_append, List.nodup_cons, List.not_mem_nil, not_false_eq_true,
            List.nodup_nil, and_self, List.mem_cons, or_false, true_and]
          refine ⟨h.nodup, ?_⟩
          intro a ha b hb
          subst hb
          intro heq; subst heq; exact hnot ha
        · simp only [List.length_append, List.length_cons, List.length_nil]
          rcases h.lim with hl | hl
          · rw [hl] at hlt; omega
          · have := h.le; rw [hl] at hlt; omega

theorem MJ.step_inv (L : Int) (s : MJ) (op : MJOp) (h : MJInv L s) (_hL : 0 ≤ L) : MJInv L (s.step op).1 := by
  cases op with
  | attempt id st nb => exact MJ.attempt_inv L s id st nb h
  | release id =>
    simp only [MJ.step]
    have hs : (s.running.erase id).Sublist s.running := List.erase_sublist
    exact ⟨h.nodup.sublist hs, by have := hs.length_le; have := h.le; simp only; omega, h.lim⟩
  | findDone fin =>
    simp only [MJ.step]
    have hs : (s.running.filter fun r => !fin.contains r).Sublist s.running := List.filter_sublist
    exact ⟨h.nodup.sublist hs, by have := hs.length_le; have := h.le; simp only; omega, h.lim⟩
  | clear =>
    simp only [MJ.step]
    exact ⟨h.nodup, h.le, Or.inr rfl⟩

theorem MJ.run_inv (L : Int) (ops : List MJOp) (s : MJ) (h : MJInv L s) (hL : 0 ≤ L) : MJInv L (s.run ops) := by
  induction ops generalizing s with
  | nil => exact h
  | cons op ops ih => exact ih _ (MJ.step_inv L s op h hL)

theorem MJ.init_inv (L : Int) (hL : 0 ≤ L) : MJInv L (MJ.init L) :=
  ⟨by simp [MJ.init], by simp [MJ.init]; omega, Or.inl rfl⟩

/-! ### re-attaching after a restart -/

/-- what `Node.reattachJobs` does on the fresh semaphore: one non-blocking
`Acquire` per in-flight job, with the state the restarted mrp reads from disk
(`Metadata.reattachJob` calls `reattach` for Queued and Running jobs) -/
def reattachOps (ids : List (Nat × MdState)) : List MJOp :=
  ids.map fun p => MJOp.attempt p.1 p.2 true

/-- the states for which `reattachJob` calls `reattach` -/
def MdState.inFlight : MdState → Prop
  | .queued => True
  | .running => True
  | _ => False

theorem MdState.inFlight_not_cancelled (st : MdState) (h : st.inFlight) : st.cancelled true = false := by
  cases st <;> simp_all [MdState.inFlight, MdState.cancelled]

theorem MJ.run_reattach (L : Int) (ids : List (Nat × MdState)) : ∀ (s : MJ), s.limit = L →
    (∀ p ∈ ids, p.2.inFlight) →
    (s.running ++ ids.map (·.1)).Nodup → ((s.running.length + ids.length : Nat) : Int) ≤ L →
    (s.run (reattachOps ids)).running = s.running ++ ids.map (·.1) ∧ (s.run (reattachOps ids)).limit = L := by
  induction ids with
  | nil => intro s hl _ _ _; simp [reattachOps, MJ.run, hl]
  | cons p ids ih =>
    intro s hl hst hnd hlen
    simp only [reattachOps, List.map_cons, MJ.run, MJ.step]
    have hnot : p.1 ∉ s.running := by
      intro h
      rw [List.nodup_append] at hnd
      exact hnd.2.2 p.1 h p.1 (by simp) rfl
    have hroom : ¬ (s.limit ≤ (s.running.length : Int)) := by
      rw [hl]; simp only [List.length_cons] at hlen; omega
    have hcan : p.2.cancelled true = false := MdState.inFlight_not_cancelled p.2 (hst p (by simp))
    have hstep : (s.attempt p.1 p.2 true).1 = { s with running := s.running ++ [p.1] } := by
      unfold MJ.attempt
      simp only [hcan, Bool.false_eq_true, if_false, hroom]
      rw [if_neg (by simpa using hnot)]
    rw [hstep]
    have := ih { s with running := s.running ++ [p.1] } hl
      (fun q hq => hst q (by simp [hq]))
      (by simpa [List.append_assoc] using hnd)
      (by simp only [List.length_append, List.length_cons, List.length_nil] at hlen ⊢; omega)
    simpa [reattachOps, List.append_assoc] using this

/-! ### GetSystemReqs pieces -/

theorem adaptive_pos (a r : Int) (h : r < 0) : 0 < adaptive a r := by
  unfold adaptive; split <;> omega

theorem normCenti_bounds (c : LocalCfg) (hc : Sane c) (x : Int) :
    0 < normCenti c x ∧ normCenti c x ≤ c.maxCores * 100 := by
  obtain ⟨h1, _, h3, _, _⟩ := hc
  simp only [normCenti]
  constructor
  · split <;> split <;> (try split) <;> omega
  · split <;> omega

theorem normCenti_fix (c : LocalCfg) (x : Int) (h0 : 0 < x) (h1 : x ≤ c.maxCores * 100) :
    normCenti c x = x := by
  simp only [normCenti]
  split <;> split <;> (try split) <;> omega

theorem reqMem0_pos (c : LocalCfg) (hc : Sane c) (cur m : Int) : 0 < reqMem0 c cur m := by
  obtain ⟨_, _, _, h4, _⟩ := hc
  unfold reqMem0
  split
  · omega
  · split
    · exact adaptive_pos _ _ (by omega)
    · omega

theorem reqMem0_fix (c : LocalCfg) (cur m : Int) (h : 0 < m) : reqMem0 c cur m = m := by
  unfold reqMem0; split <;> (try split) <;> omega

theorem capTo_bounds (cap x : Int) (hc : 0 < cap) (hx : 0 < x) :
    0 < capTo cap x ∧ capTo cap x ≤ cap ∧ capTo cap x ≤ x := by
  unfold capTo; split <;> omega

theorem capTo_fix (cap x : Int) (h : x ≤ cap) : capTo cap x = x := by
  unfold capTo; split <;> omega

/-- with a vmem semaphore the normalised vmem is positive and within the limit
or equal to the (capped) memory request -/
theorem reqV_bounds (c : LocalCfg) (hc : Sane c) (hv : 0 < c.maxVmemMB) (vcur mem0 mem v : Int)
    (hm0 : 0 < mem0) (hm : 0 < mem) :
    let v3 := reqV3 mem (reqV2 c (reqV1 c vcur (reqV0 c mem0 v)))
    0 < v3 ∧ (v3 ≤ c.maxVmemMB ∨ v3 = mem) ∧ mem ≤ v3 := by
  obtain ⟨_, _, _, _, h5⟩ := hc
  have h0 : reqV0 c mem0 v ≠ 0 := by unfold reqV0; split <;> omega
  generalize reqV0 c mem0 v = v0 at h0
  have h1 : 0 < reqV1 c vcur v0 := by
    unfold reqV1
    by_cases hneg : v0 < 0
    · rw [if_pos hneg, if_pos hv]; exact adaptive_pos _ _ hneg
    · rw [if_neg hneg]; omega
  generalize reqV1 c vcur v0 = v1 at h1
  have h2 : 0 < reqV2 c v1 ∧ reqV2 c v1 ≤ c.maxVmemMB := by
    unfold reqV2; split <;> omega
  generalize reqV2 c v1 = v2 at h2
  simp only [reqV3]
  split <;> omega

/-- fixed point of the vmem pipeline for an already normalised value -/
theorem reqV_fix (c : LocalCfg) (vcur mem0 mem v : Int) (hv0 : v ≠ 0)
    (hv : 0 < c.maxVmemMB → 0 < v ∧ (v ≤ c.maxVmemMB ∨ v = mem) ∧ mem ≤ v)
    (hnv : ¬ 0 < c.maxVmemMB → (0 < v → mem ≤ v)) :
    reqV3 mem (reqV2 c (reqV1 c vcur (reqV0 c mem0 v))) = v := by
  have e0 : reqV0 c mem0 v = v := by unfold reqV0; split <;> omega
  rw [e0]
  by_cases h : 0 < c.maxVmemMB
  · obtain ⟨a, b, d⟩ := hv h
    have e1 : reqV1 c vcur v = v := by unfold reqV1; split <;> omega
    rw [e1]
    unfold reqV2 reqV3
    split <;> split <;> omega
  · have e1 : reqV1 c vcur v = v := by
      unfold reqV1; split
      · have : ¬ c.maxVmemMB > 0 := by omega
        simp [this]
      · rfl
    have e2 : reqV2 c v = v := by unfold reqV2; split <;> omega
    rw [e1, e2]
    have := hnv h
    unfold reqV3; split <;> omega

/-- without a vmem semaphore: a positive result is at least the memory request -/
theorem reqV_nolimit (c : LocalCfg) (_h : ¬ 0 < c.maxVmemMB) (vcur mem0 mem v : Int) :
    let v3 := reqV3 mem (reqV2 c (reqV1 c vcur (reqV0 c mem0 v)))
    0 < v3 → mem ≤ v3 := by
  simp only [reqV3]
  split <;> omega

end Martian.Semaphore
