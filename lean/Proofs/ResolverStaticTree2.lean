/-
C01 — mapped pipelines and nested map calls of static size, part 2: contexts.  Everything below a
mapped call is evaluated in the forks of that call: den's fork list `forks` and the fork
assignments that agree with it (`Agree`).
-/
import Proofs.ResolverStaticTree

namespace Proofs.ResolverStatic
open Martian.Dataflow Martian.Resolver Martian.ResolverForks Martian.ResolverStatic Proofs.Dataflow
  Proofs.ResolverForks

/-- the fork assignment selects the forks of den's fork list -/
def Agree (forks : List (String × Idx)) (f : ForkAssign) : Prop := ∀ e ∈ forks, f.lookup e.1 = some e.2

theorem Agree.nil (f : ForkAssign) : Agree [] f := fun _ h => by cases h

theorem Agree.sub {forks : List (String × Idx)} {f : ForkAssign} {e : String × Idx}
    (h : Agree (forks ++ [e]) f) : Agree forks f ∧ f.lookup e.1 = some e.2 :=
  ⟨fun x hx => h x (by simp [hx]), h e (by simp)⟩

theorem Agree.fset {forks : List (String × Idx)} {f : ForkAssign} (h : Agree forks f) (c : String) (ix : Idx)
    (hc : (forks.map (·.1)).contains c = false) : Agree (forks ++ [(c, ix)]) (fset f c ix) := by
  intro e he
  simp only [List.mem_append, List.mem_singleton] at he
  cases he with
  | inl he =>
    have hne : (e.1 == c) = false := by
      cases hk : (e.1 == c) with
      | false => rfl
      | true =>
        have : e.1 = c := by simpa using hk
        have hm : c ∈ forks.map (·.1) := by rw [← this]; exact List.mem_map_of_mem he
        simp [List.contains_iff_mem, hm] at hc
    rw [fset_lookup_ne f c e.1 ix hne]
    exact h e he
  | inr he => subst he; exact fset_lookup f c ix

/-- the key the store reads for a node whose fork dimensions are those of den's fork list -/
theorem key_of_agree (f : ForkAssign) :
    ∀ (dims : List (String × List Idx)) (forks : List (String × Idx)),
      dims.map (·.1) = forks.map (·.1) → Agree forks f →
      (dims.map fun d => (d.1, (f.lookup d.1).getD .none)) = forks
  | [], [], _, _ => rfl
  | [], _ :: _, h, _ => by simp at h
  | _ :: _, [], h, _ => by simp at h
  | d :: ds, e :: es, h, ha => by
    simp only [List.map_cons, List.cons.injEq] at h
    have h1 := ha e (by simp)
    simp only [List.map_cons, List.cons.injEq]
    refine ⟨?_, key_of_agree f ds es h.2 fun x hx => ha x (by simp [hx])⟩
    rw [h.1, h1]
    rfl

theorem staticIndices_filterT (st : StructTable) (t : Ty) (r : RExp) :
    staticIndices (filterT st t r) = staticIndices (filterR st t r) := by
  have hl : ∀ (t : Ty) (xs : List RExp), (filterTList st t xs).length = (filterRList st t xs).length := by
    intro t xs; induction xs with
    | nil => simp [filterTList, filterRList]
    | cons x xs ih => simp [filterTList, filterRList, ih]
  have hk : ∀ (t : Ty) (kvs : List (String × RExp)),
      (filterTFields st t kvs).map (fun kv => Idx.k kv.1) = (filterRFields st t kvs).map (fun kv => Idx.k kv.1) := by
    intro t kvs; induction kvs with
    | nil => simp [filterTFields, filterRFields]
    | cons x xs ih => obtain ⟨k, e⟩ := x; simp [filterTFields, filterRFields, ih]
  cases r with
  | arr xs => simp only [filterT, filterR]; split <;> simp [staticIndices, hl]
  | map kvs =>
    simp only [filterT, filterR]
    split
    · cases st.lookup t.base <;> simp [staticIndices]
    · split <;> simp [staticIndices, hk]
  | struct kvs =>
    simp only [filterT, filterR]
    split
    · cases st.lookup t.base <;> simp [staticIndices]
    · split <;> simp [staticIndices, hk]
  | split c m e => simp only [filterT, filterR]; split <;> simp [staticIndices]
  | lit j => simp [filterT, filterR]
  | ref a b d => simp [filterT, filterR]
  | merge a b d => simp [filterT, filterR]
  | disabled a b => simp [filterT, filterR, staticIndices]
  | fork a b d => simp [filterT, filterR]

/-! ## typing -/

/-- an ARRAY-mode map call (of a stage or of a pipeline) without `disabled` -/
def MappedOkT (st : StructTable) (P : Program) (sT cT : String → Ty) (c : Call) : Prop :=
  c.mapped = true ∧ c.disabled = none ∧
  (∃ b ∈ c.binds, b.split = true) ∧
  (∀ b ∈ c.binds, b.split = true →
    ∃ p ∈ P.insOf c.callee, c.binds.find? (fun b' => b'.param == p.name) = some b) ∧
  ∀ p ∈ P.insOf c.callee, ∀ b, c.binds.find? (fun b => b.param == p.name) = some b →
    HasTy st sT cT (if b.split then liftSplitTy false p.ty else p.ty) b.exp

def CallOkT (st : StructTable) (P : Program) (sT cT : String → Ty) (c : Call) : Prop :=
  (CallOk st P.insOf sT cT c ∧ ∀ b ∈ c.binds, b.split = false) ∨ MappedOkT st P sT cT c

def CallsOkT (st : StructTable) (P : Program) (sT : String → Ty) :
    List (String × Ty) → List Call → Prop
  | _, [] => True
  | L, c :: cs => CallOkT st P sT (callTyOf L) c ∧ CallsOkT st P sT (L ++ [(c.id, callTyM c)]) cs

def PipelineOkT (st : StructTable) (P : Program) (pins outs : List Param)
    (calls : List Call) (ret : List (String × Exp)) : Prop :=
  CallsOkT st P (selfTyOf pins) [] calls ∧
  ∀ p ∈ outs, ∀ e, ret.lookup p.name = some e →
    HasTy st (selfTyOf pins) (callTyOf (callTypesM calls)) p.ty e

structure WellTypedT (P : Program) : Prop where
  structs : StructsOk P.table
  outsOf : ∀ name c, P.callables.lookup name = some c → P.table.lookup name = some c.outs
  pipelines : ∀ name pins outs calls ret,
    P.callables.lookup name = some (.pipeline pins outs calls ret) →
      PipelineOkT P.table P pins outs calls ret
  top : CallOk P.table P.insOf (selfTyOf []) (callTyOf []) P.top ∧ ∀ b ∈ P.top.binds, b.split = false

/-! ## relations carried through the induction -/

def ArgsRelC (st : StructTable) (F : Nat) (ρ : Store) (forks : List (String × Idx)) (pins : List Param)
    (args : J) (cins : RBMap) : Prop :=
  ∃ g : Param → RExp,
    cins = pins.map (fun q => (q.name, (⟨g q, q.ty⟩ : RB))) ∧
    (∀ f, Agree forks f → args = .obj (pins.map fun q => (q.name, evalRT st F ρ f q.ty (g q)))) ∧
    ∀ q ∈ pins, HasTyR st q.ty (g q)

def GoodC (st : StructTable) (F : Nat) (ρ : Store) (forks : List (String × Idx)) (callee : String)
    (d : J × List Inst) (s : RB × List STree) : Prop :=
  (∀ f, Agree forks f → d.1 = evalRT st F ρ f ⟨callee, 0, 0⟩ s.1.exp) ∧
  HasTyR st ⟨callee, 0, 0⟩ s.1.exp ∧
  (∀ f, Agree forks f → d.2 = instsTList st F ρ forks f s.2)

theorem instsTList_append (st : StructTable) (F : Nat) (ρ : Store) (forks : List (String × Idx))
    (f : ForkAssign) : ∀ (a b : List STree),
    instsTList st F ρ forks f (a ++ b) = instsTList st F ρ forks f a ++ instsTList st F ρ forks f b
  | [], b => by simp [instsTList]
  | t :: a, b => by simp [instsTList, instsTList_append st F ρ forks f a b]

theorem flattenTList_append (dims : List (String × List Idx)) : ∀ (a b : List STree),
    flattenTList dims (a ++ b) = flattenTList dims a ++ flattenTList dims b
  | [], b => by simp [flattenTList]
  | t :: a, b => by simp [flattenTList, flattenTList_append dims a b]

theorem treeOkList_append (above : List String) : ∀ (a b : List STree),
    treeOkList above (a ++ b) = (treeOkList above a && treeOkList above b)
  | [], b => by simp [treeOkList]
  | t :: a, b => by simp [treeOkList, treeOkList_append above a b, Bool.and_assoc]

theorem staticCallsT_acc (st : StructTable) (insOf : String → List Param)
    (node : String → List String → RBMap → RB × List STree) (path : List String) (self : RBMap) :
    ∀ (cs : List Call) (sib : RBMap) (acc : List STree),
      (staticCallsT st insOf node path self cs sib acc).2
        = acc ++ (staticCallsT st insOf node path self cs sib []).2 := by
  intro cs
  induction cs with
  | nil => intro sib acc; simp [staticCallsT]
  | cons c cs ih =>
    intro sib acc
    simp only [staticCallsT]
    repeat' split
    all_goals (rw [ih, ih _ ([] ++ _)]; simp)

/-- a tree that passes `treeOkList` has no map call of run-time size -/
theorem runtime_not_treeOk (st : StructTable) (insOf : String → List Param)
    (node : String → List String → RBMap → RB × List STree) (path : List String) (self : RBMap)
    (c : Call) (cs : List Call) (sib : RBMap) (above : List String) (hm : c.mapped = true)
    (h : treeOkList above (staticCallsT st insOf node path self (c :: cs) sib []).2 = true) :
    ((callIndicesT st self sib (insOf c.callee) c).isNone &&
      (runtimeMode st self sib (insOf c.callee) c).isSome) = false := by
  cases hcond : ((callIndicesT st self sib (insOf c.callee) c).isNone &&
      (runtimeMode st self sib (insOf c.callee) c).isSome) with
  | false => rfl
  | true =>
    exfalso
    simp only [staticCallsT, hm, if_true, hcond] at h
    rw [staticCallsT_acc] at h
    simp [treeOkList, treeOk] at h

end Proofs.ResolverStatic

namespace Proofs.ResolverStatic
open Martian.Dataflow Martian.Resolver Martian.ResolverForks Martian.ResolverStatic Proofs.Dataflow
  Proofs.ResolverForks

/-! ## den on a map call below a fork list -/

theorem evalCall_mappedC (st : StructTable) (F : Nat) (insOf : String → List Param) (run : Runner)
    (path : List String) (forks : List (String × Idx)) (env : Env) (c : Call) (md : Mode) (ixs : List Idx)
    (hm : c.mapped = true) (hd : c.disabled = none) (hex : ∃ b ∈ c.binds, b.split = true)
    (hidx : ∀ v ∈ splitVals st env c, indicesOf v = ixs) (hne : ixs ≠ [])
    (hmode : callMode st env c = md) :
    evalCall st F insOf run path forks env c =
      (liftTy c.callee md,
       collect md ixs (ixs.map fun ix =>
          (run c.callee (path ++ [c.id]) (forks ++ [(c.id, ix)])
            (mkArgs st F (argVals st env (insOf c.callee) c) (some ix))).1),
       ixs.flatMap fun ix =>
          (run c.callee (path ++ [c.id]) (forks ++ [(c.id, ix)])
            (mkArgs st F (argVals st env (insOf c.callee) c) (some ix))).2) := by
  obtain ⟨b0, hb0, hs0⟩ := hex
  have hnev : splitVals st env c ≠ [] := by
    intro e
    have : eval st env b0.exp ∈ splitVals st env c := by
      simp only [splitVals, hd, List.append_nil, List.mem_map, List.mem_filter]
      exact ⟨b0, ⟨hb0, hs0⟩, rfl⟩
    rw [e] at this; cases this
  have hci : callIndices st env c = ixs := by
    unfold callIndices
    cases hsv : splitVals st env c with
    | nil => exact absurd hsv hnev
    | cons v r => exact hidx v (by rw [hsv]; simp)
  have hag : splitsAgree st env c = true := by
    unfold splitsAgree
    cases hsv : splitVals st env c with
    | nil => rfl
    | cons v r =>
      simp only [List.all_eq_true, beq_iff_eq]
      intro w hw
      rw [hidx w (by rw [hsv]; simp [hw]), hidx v (by rw [hsv]; simp)]
  have hnonempty : ixs.isEmpty = false := by
    cases ixs with
    | nil => exact absurd rfl hne
    | cons a l => rfl
  have hnull : ∀ ix, Martian.Dataflow.isTrue (elemAt .null ix) = false := by
    intro ix; cases ix <;> rfl
  simp only [evalCall, hd, hm, hag, hci, hmode, hnonempty, Bool.not_true, Bool.false_eq_true, if_false,
    hnull, List.map_map, Function.comp_def, List.flatMap_map]

/-- on a source of statically known size the mode is the kind of the literal -/
theorem splitIsMap_static (st : StructTable) (self sib : RBMap) (e : Exp) (T : Ty) (ixs : Bool × List Idx)
    (h : staticIndices (filterR st T (resolveRefs self sib e)) = some ixs) :
    splitIsMap st self sib e = isMapLit (resolveRefs self sib e) := by
  unfold splitIsMap
  cases hr : resolveRefs self sib e <;> simp only [isMapLit]
  all_goals (rw [hr] at h; simp [filterR, staticIndices] at h)

section ctx
variable (st : StructTable) (hst : StructsOk st) (F : Nat) (hF : NarrowFix st F) (ρ : Store)
include hst hF

/-- E followed by L0 for `filterT` -/
theorem eval_resolveExpT (Fs : ForkAssign → Prop) (env : Env) (self sib : RBMap)
    (hrel : EnvRel st F ρ Fs env self sib) (f : ForkAssign) (hf : Fs f) (e : Exp) (t : Ty)
    (h : HasTy st env.selfTy env.callTy t e) :
    narrow st F t (eval st env e) = evalRT st F ρ f t (filterT st t (resolveRefs self sib e)) ∧
    HasTyR st t (filterT st t (resolveRefs self sib e)) := by
  have h1 := eval_resolveRefs st hst F hF ρ Fs env self sib hrel f hf e t h
  have h2 := evalRT_filterT st hst F ρ f (resolveRefs self sib e) t h1.2
  exact ⟨h1.1.trans h2.1.symm, h2.2⟩

/-- the bindings of a plain call below a fork list -/
theorem args_stepC (insOf : String → List Param) (forks : List (String × Idx)) (env : Env) (self sib : RBMap)
    (hrel : EnvRel st F ρ (Agree forks) env self sib) (c : Call)
    (hc : CallOk st insOf env.selfTy env.callTy c) (hns : ∀ b ∈ c.binds, b.split = false)
    (f0 : ForkAssign) (hf0 : Agree forks f0) :
    ArgsRelC st F ρ forks (insOf c.callee) (mkArgs st F (argVals st env (insOf c.callee) c) none)
      (resolveBindsT st self sib (insOf c.callee) c) := by
  obtain ⟨_, _, hb⟩ := hc
  refine ⟨fun q => match c.binds.find? (fun b => b.param == q.name) with
    | some b => filterT st q.ty (resolveRefs self sib b.exp)
    | none => .lit .null, ?_, ?_, ?_⟩
  · simp only [resolveBindsT]
    apply List.map_congr_left
    intro p _
    cases hfb : c.binds.find? (fun b => b.param == p.name) with
    | none => rfl
    | some b =>
      have := hns b (List.mem_of_find?_eq_some hfb)
      simp [this]
  · intro f hf
    simp only [mkArgs, argVals, List.map_map, J.obj.injEq]
    apply List.map_congr_left
    intro p hp
    simp only [Function.comp_apply]
    cases hfb : c.binds.find? (fun b => b.param == p.name) with
    | none => simp [narrow_null hF, evalRT]
    | some b =>
      simp only [Prod.mk.injEq, true_and]
      have key := (eval_resolveExpT st hst F hF ρ _ env self sib hrel f hf b.exp p.ty (hb p hp b hfb)).1
      cases b.split <;> exact key
  · intro p hp
    show HasTyR st p.ty (match c.binds.find? (fun b => b.param == p.name) with
      | some b => filterT st p.ty (resolveRefs self sib b.exp)
      | none => .lit .null)
    cases hfb : c.binds.find? (fun b => b.param == p.name) with
    | none => exact HasTyR_null st _
    | some b => exact (eval_resolveExpT st hst F hF ρ _ env self sib hrel f0 hf0 b.exp p.ty (hb p hp b hfb)).2

omit hst hF in
theorem envRel_initC (forks : List (String × Idx)) (pins : List Param) (args : J) (cins : RBMap)
    (h : ArgsRelC st F ρ forks pins args cins) :
    EnvRel st F ρ (Agree forks) ⟨pins, args, []⟩ cins [] := by
  obtain ⟨g, hc, ha, hty⟩ := h
  refine ⟨?_, ?_, ?_⟩
  · intro p
    simp only [Env.selfTy, σexp]
    rw [hc, lookup_map_find]
    cases hf : pins.find? (fun q => q.name == p) with
    | none =>
      refine ⟨by simp [HasTyR_null], fun f hfa => ?_⟩
      rw [ha f hfa]
      simp [J.field, lookup_map_find, hf, evalRT]
    | some q =>
      simp only [Option.map_some, Option.getD_some]
      refine ⟨hty q (List.mem_of_find?_eq_some hf), fun f hfa => ?_⟩
      rw [ha f hfa]
      simp [J.field, lookup_map_find, hf]
  · intro c
    simp [Env.callTy, Env.callVal, σexp, HasTyR_null, evalRT]
  · intro c
    rfl

omit hst hF in
theorem envRel_stepC (Fs : ForkAssign → Prop) (env : Env) (self sib : RBMap)
    (hrel : EnvRel st F ρ Fs env self sib)
    (id : String) (ty : Ty) (v : J) (rb : RB)
    (hv : ∀ f, Fs f → v = evalRT st F ρ f ty rb.exp) (hty : HasTyR st ty rb.exp) :
    EnvRel st F ρ Fs { env with calls := env.calls ++ [(id, ty, v)] } self (sib ++ [(id, rb)]) := by
  refine ⟨hrel.hself, ?_, ?_⟩
  · intro c
    have hd := hrel.hdom c
    have hc := hrel.hcall c
    simp only [Env.callTy, Env.callVal, σexp, List.lookup_append] at hc ⊢
    cases h1 : env.calls.lookup c with
    | some x =>
      rw [h1] at hd hc
      cases h2 : sib.lookup c with
      | none => simp [h2] at hd
      | some y =>
        rw [h2] at hc
        simpa using hc
    | none =>
      rw [h1] at hd
      cases h2 : sib.lookup c with
      | some y => simp [h2] at hd
      | none =>
        simp only [Option.none_or, List.lookup_cons, List.lookup_nil]
        cases (c == id) with
        | true => simpa using ⟨hty, fun f hf => hv f hf⟩
        | false => simp [HasTyR_null, evalRT]
  · intro c
    have hd := hrel.hdom c
    simp only [List.lookup_append]
    cases h1 : env.calls.lookup c with
    | some x =>
      rw [h1] at hd
      cases h2 : sib.lookup c with
      | none => simp [h2] at hd
      | some y => simp
    | none =>
      rw [h1] at hd
      cases h2 : sib.lookup c with
      | some y => simp [h2] at hd
      | none =>
        simp only [Option.none_or, List.lookup_cons, List.lookup_nil]
        cases (c == id) <;> rfl

/-- what the static shape flag and the typing say about an array-mode map call instance -/
theorem mapped_factsT (P : Program) (Fs : ForkAssign → Prop) (env : Env) (self sib : RBMap)
    (hrel : EnvRel st F ρ Fs env self sib) (f0 : ForkAssign) (hf0 : Fs f0) (c : Call)
    (hc : MappedOkT st P env.selfTy env.callTy c) (ixsP : Bool × List Idx)
    (hss : splitsStaticT st self sib (P.insOf c.callee) c ixsP = true) :
    ixsP.1 = false ∧
      (∀ p ∈ P.insOf c.callee, ∀ b, c.binds.find? (fun b => b.param == p.name) = some b → b.split = true →
        ∃ es, resolveRefs self sib b.exp = .arr es ∧ ixsP.2 = (List.range es.length).map .i) := by
  obtain ⟨_, _, ⟨b0, hb0, hs0⟩, hpar, hty⟩ := hc
  simp only [splitsStaticT, List.all_eq_true] at hss
  have per : ∀ p ∈ P.insOf c.callee, ∀ b, c.binds.find? (fun b => b.param == p.name) = some b →
      b.split = true →
      ∃ es, resolveRefs self sib b.exp = .arr es ∧ ixsP = (false, (List.range es.length).map .i) := by
    intro p hp b hb hs
    have h1 := hss p hp
    simp only [hb, hs, Bool.not_true, Bool.false_or, Bool.and_eq_true, beq_iff_eq] at h1
    have h2 := hty p hp b hb
    simp only [hs, if_true] at h2
    have h3 := (eval_resolveRefs st hst F hF ρ Fs env self sib hrel f0 hf0 b.exp _ h2).2
    have h4 := h1.1
    rw [staticIndices_filterT] at h4
    rw [splitIsMap_static st self sib b.exp _ _ h4] at h4
    cases split_shape st false p.ty _ ixsP h3 h4 with
    | inl h => exact h.2
    | inr h => exact absurd h.1 (by simp)
  obtain ⟨p0, hp0, hf0'⟩ := hpar b0 hb0 hs0
  obtain ⟨es0, _, hi0⟩ := per p0 hp0 b0 hf0' hs0
  refine ⟨by rw [hi0], ?_⟩
  intro p hp b hb hs
  obtain ⟨es, hr, hi⟩ := per p hp b hb hs
  exact ⟨es, hr, by rw [hi]⟩

theorem splitVals_indicesT (P : Program) (Fs : ForkAssign → Prop) (env : Env) (self sib : RBMap)
    (hrel : EnvRel st F ρ Fs env self sib) (f0 : ForkAssign) (hf0 : Fs f0) (c : Call)
    (hc : MappedOkT st P env.selfTy env.callTy c) (ixs : List Idx)
    (hfacts : ∀ p ∈ P.insOf c.callee, ∀ b, c.binds.find? (fun b => b.param == p.name) = some b → b.split = true →
        ∃ es, resolveRefs self sib b.exp = .arr es ∧ ixs = (List.range es.length).map .i) :
    ∀ v ∈ splitVals st env c, indicesOf v = ixs := by
  obtain ⟨_, hd, _, hpar, hty⟩ := hc
  intro v hv
  simp only [splitVals, hd, List.append_nil, List.mem_map, List.mem_filter] at hv
  obtain ⟨b, ⟨hb, hs⟩, rfl⟩ := hv
  obtain ⟨p, hp, hfb⟩ := hpar b hb hs
  have h2 := hty p hp b hfb
  simp only [hs, if_true] at h2
  have hE := (eval_resolveRefs st hst F hF ρ Fs env self sib hrel f0 hf0 b.exp _ h2).1
  obtain ⟨es, hr, hi⟩ := hfacts p hp b hfb hs
  rw [hr] at hE
  simp only [liftSplitTy, Bool.false_eq_true, if_false, evalRT, Nat.add_sub_cancel] at hE
  obtain ⟨xs, hx, hl⟩ := narrow_arr_inv hF p.ty.base p.ty.mapDim p.ty.arrDim _ _ hE
  rw [hx, hi]
  simp [indicesOf, hl, evalRTList_length]

omit hst hF in
theorem callMode_T (P : Program) (env : Env) (self sib : RBMap) (c : Call)
    (hc : MappedOkT st P env.selfTy env.callTy c) (ixs : List Idx)
    (hfacts : ∀ p ∈ P.insOf c.callee, ∀ b, c.binds.find? (fun b => b.param == p.name) = some b → b.split = true →
        ∃ es, resolveRefs self sib b.exp = .arr es ∧ ixs = (List.range es.length).map .i) :
    callMode st env c = .arr := by
  obtain ⟨hm, _, ⟨b0, hb0, hs0⟩, hpar, hty⟩ := hc
  unfold callMode firstSplit
  simp only [hm, if_true]
  cases hf : c.binds.find? (·.split) with
  | none =>
    have := List.find?_eq_none.mp hf b0 hb0
    simp [hs0] at this
  | some b =>
    have hbm := List.mem_of_find?_eq_some hf
    have hbs : b.split = true := by simpa using List.find?_some hf
    obtain ⟨p, hp, hfb⟩ := hpar b hbm hbs
    have h2 := hty p hp b hfb
    simp only [hbs, if_true] at h2
    obtain ⟨es, hr, _⟩ := hfacts p hp b hfb hbs
    simp only
    cases he : b.exp with
    | lit j => rw [he] at hr; simp [resolveRefs] at hr
    | arr xs => simp [splitMode]
    | map kvs => rw [he] at h2; simp [liftSplitTy, HasTy] at h2
    | struct kvs => rw [he] at h2; simp [liftSplitTy, HasTy] at h2
    | self q path =>
      rw [he] at h2
      simp only [HasTy] at h2
      obtain ⟨_, d2⟩ := h2.2.dims
      simp only [liftSplitTy, Bool.false_eq_true, if_false] at d2
      simp [splitMode, d2]
    | ref q path =>
      rw [he] at h2
      simp only [HasTy] at h2
      obtain ⟨_, d2⟩ := h2.2.dims
      simp only [liftSplitTy, Bool.false_eq_true, if_false] at d2
      simp [splitMode, d2]

/-- the bindings of fork `k` of an array-mode map call below a fork list -/
theorem args_mappedC (P : Program) (forks : List (String × Idx)) (env : Env) (self sib : RBMap)
    (hrel : EnvRel st F ρ (Agree forks) env self sib) (c : Call)
    (hc : MappedOkT st P env.selfTy env.callTy c) (ixs : List Idx)
    (hfacts : ∀ p ∈ P.insOf c.callee, ∀ b, c.binds.find? (fun b => b.param == p.name) = some b → b.split = true →
        ∃ es, resolveRefs self sib b.exp = .arr es ∧ ixs = (List.range es.length).map .i)
    (k : Nat) (f0 : ForkAssign) (hf0 : Agree forks f0) :
    ArgsRelC st F ρ (forks ++ [(c.id, .i k)]) (P.insOf c.callee)
      (mkArgs st F (argVals st env (P.insOf c.callee) c) (some (.i k)))
      (resolveBindsT st self sib (P.insOf c.callee) c) := by
  obtain ⟨_, _, _, _, hb⟩ := hc
  refine ⟨fun q => match c.binds.find? (fun b => b.param == q.name) with
    | some b =>
      if b.split then .split c.id false (filterT st (liftSplitTy false q.ty) (resolveRefs self sib b.exp))
      else filterT st q.ty (resolveRefs self sib b.exp)
    | none => .lit .null, ?_, ?_, ?_⟩
  · simp only [resolveBindsT]
    apply List.map_congr_left
    intro p hp
    cases hfb : c.binds.find? (fun b => b.param == p.name) with
    | none => rfl
    | some b =>
      cases hs : b.split with
      | false => simp [hs]
      | true =>
        obtain ⟨es, hr, _⟩ := hfacts p hp b hfb hs
        simp [hs, hr, splitIsMap]
  · intro f hf
    obtain ⟨hfa, hfl⟩ := hf.sub
    simp only at hfl
    simp only [mkArgs, argVals, List.map_map, J.obj.injEq]
    apply List.map_congr_left
    intro p hp
    simp only [Function.comp_apply]
    cases hfb : c.binds.find? (fun b => b.param == p.name) with
    | none => simp [narrow_null hF, evalRT]
    | some b =>
      simp only [Prod.mk.injEq, true_and]
      have hty := hb p hp b hfb
      cases hs : b.split with
      | false =>
        simp only [hs, Bool.false_eq_true, if_false] at hty ⊢
        exact (eval_resolveExpT st hst F hF ρ _ env self sib hrel f hfa b.exp p.ty hty).1
      | true =>
        simp only [hs, if_true] at hty ⊢
        have key := (eval_resolveExpT st hst F hF ρ _ env self sib hrel f hfa b.exp _ hty).1
        simp only [liftSplitTy, Bool.false_eq_true, if_false, evalRT, hfl, Option.getD_some] at key ⊢
        rw [← key]
        generalize p.ty = T
        obtain ⟨pb, pm, pa⟩ := T
        exact elemArr_narrow hF pb pm pa _ (.i k)
  · intro p hp
    show HasTyR st p.ty (match c.binds.find? (fun b => b.param == p.name) with
      | some b =>
        if b.split then .split c.id false (filterT st (liftSplitTy false p.ty) (resolveRefs self sib b.exp))
        else filterT st p.ty (resolveRefs self sib b.exp)
      | none => .lit .null)
    cases hfb : c.binds.find? (fun b => b.param == p.name) with
    | none => exact HasTyR_null st _
    | some b =>
      have hty := hb p hp b hfb
      cases hs : b.split with
      | false =>
        simp only [hs, Bool.false_eq_true, if_false] at hty ⊢
        exact (eval_resolveExpT st hst F hF ρ _ env self sib hrel f0 hf0 b.exp p.ty hty).2
      | true =>
        simp only [hs, if_true] at hty ⊢
        simp only [HasTyR]
        exact (eval_resolveExpT st hst F hF ρ _ env self sib hrel f0 hf0 b.exp _ hty).2

end ctx

end Proofs.ResolverStatic
