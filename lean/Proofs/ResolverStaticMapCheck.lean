/-
C01 — soundness of the decidable checks for programs with map calls of stages over
array literals (`wellTypedMB`).
-/
import Proofs.ResolverStaticCheck
import Proofs.ResolverStaticMap

namespace Proofs.ResolverStatic
open Martian.Dataflow Martian.Resolver Martian.ResolverForks Martian.ResolverStatic Proofs.Dataflow

theorem arrLen_some (e : Exp) (k : Nat) (h : arrLen e = some k) : ∃ es, e = .arr es ∧ es.length = k := by
  cases e <;> simp [arrLen] at h
  exact ⟨_, rfl, h⟩

theorem mappedOkB_sound (st : StructTable) (n : Nat) (P : Program) (sT cT : String → Ty) (c : Call)
    (h : mappedOkB st n P sT cT c = true) : MappedOk st P sT cT c := by
  simp only [mappedOkB, Bool.and_eq_true, Option.isNone_iff_eq_none, List.any_eq_true, List.all_eq_true] at h
  obtain ⟨⟨⟨⟨⟨hm, hd⟩, hst⟩, hlen⟩, hex⟩, hty⟩ := h
  refine ⟨hm, hd, ?_, ?_, ?_⟩
  · unfold isStageB at hst
    cases hl : P.callables.lookup c.callee with
    | none => simp [hl] at hst
    | some cb =>
      cases cb with
      | stage a b => exact ⟨a, b, rfl⟩
      | pipeline a b d e => simp [hl] at hst
  · cases hf : c.binds.find? (·.split) with
    | none => simp [hf] at hlen
    | some b0 =>
      simp only [hf] at hlen
      cases hk : arrLen b0.exp with
      | none => simp [hk] at hlen
      | some k =>
        simp only [hk, Bool.and_eq_true, decide_eq_true_eq, List.all_eq_true, Bool.or_eq_true,
          Bool.not_eq_true', beq_iff_eq] at hlen
        refine ⟨k, hlen.1, ⟨b0, List.mem_of_find?_eq_some hf, by simpa using List.find?_some hf⟩, ?_, ?_⟩
        · obtain ⟨p, hp, hps⟩ := hex
          cases hb : c.binds.find? (fun b => b.param == p.name) with
          | none => simp [hb] at hps
          | some b => exact ⟨p, hp, b, hb, by simpa [hb] using hps⟩
        · intro b hb hs
          cases hlen.2 b hb with
          | inl h0 => rw [h0] at hs; cases hs
          | inr h0 => exact arrLen_some _ _ h0
  · intro p hp b hb
    have := hty p hp
    simp only [hb] at this
    exact hasTyB_sound st n sT cT b.exp _ this

theorem callOkMB_sound (st : StructTable) (n : Nat) (P : Program) (sT cT : String → Ty) (c : Call)
    (h : callOkMB st n P sT cT c = true) : CallOkM st P sT cT c := by
  simp only [callOkMB, Bool.or_eq_true, Bool.and_eq_true, List.all_eq_true, Bool.not_eq_true'] at h
  cases h with
  | inl h => exact Or.inl ⟨callOkB_sound st n P.insOf sT cT c h.1, h.2⟩
  | inr h => exact Or.inr (mappedOkB_sound st n P sT cT c h)

theorem callTyMB_eq : callTyMB = callTyM := rfl

theorem callsOkMB_sound (st : StructTable) (n : Nat) (P : Program) (sT : String → Ty) :
    ∀ (cs : List Call) (L : List (String × Ty)), callsOkMB st n P sT L cs = true → CallsOkM st P sT L cs
  | [], _, _ => trivial
  | c :: cs, L, h => by
    simp only [callsOkMB, Bool.and_eq_true] at h
    exact ⟨callOkMB_sound st n P sT _ c (by rw [← callTyOfB_eq]; exact h.1),
      callsOkMB_sound st n P sT cs _ h.2⟩

theorem wellTypedMB_sound (P : Program) (h : wellTypedMB P = true) : WellTypedM P := by
  simp only [wellTypedMB, Bool.and_eq_true, List.all_eq_true, beq_iff_eq, Bool.not_eq_true'] at h
  obtain ⟨⟨⟨⟨h1, h2⟩, h3⟩, h4⟩, h5⟩ := h
  refine ⟨structsOkB_sound _ h1, ?_, ?_, ?_⟩
  · intro name c hl
    exact h2 (name, c) (mem_of_lookup _ _ _ hl)
  · intro name pins outs calls ret hl
    have := h3 (name, _) (mem_of_lookup _ _ _ hl)
    simp only [pipelineOkMB, Bool.and_eq_true, List.all_eq_true] at this
    refine ⟨callsOkMB_sound _ _ _ _ calls [] (by rw [← selfTyOfB_eq]; exact this.1), ?_⟩
    intro p hp e he
    have h6 := this.2 p hp
    simp only [he] at h6
    exact hasTyB_sound _ _ _ _ e p.ty h6
  · exact ⟨callOkB_sound _ _ _ _ _ _ h4, h5⟩

end Proofs.ResolverStatic
