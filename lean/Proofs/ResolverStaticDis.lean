/-
C01 — the refinement with run-time `disabled` controls (on plain calls, anywhere in a call graph with
mapped pipelines / nested static map calls), MODULO `J.erase`: den writes `dnull` for the outputs
of a disabled call, the run-time phase JSON null.  The invariant of the induction is the
environment relation of the `disabled`-free proof on the ERASED environment (`eraseEnv`): every
den-side operation commutes with the erasure (Proofs/DataflowErase.lean), so the expression
lemmas E / L0 / L1 / P are reused unchanged.
-/
import Proofs.ResolverStaticTree3
import Proofs.ResolverStaticEvalR
import Proofs.DataflowErase
import Proofs.DataflowApprox

namespace Proofs.ResolverStatic
open Martian.Dataflow Martian.Resolver Martian.ResolverForks Martian.ResolverStatic Proofs.Dataflow
  Proofs.ResolverForks

/-- the recorded stage outputs are JSON: no `dnull` inside -/
def OracleClean (O : Oracle) : Prop := ∀ k v, O k = some v → J.clean v = true

def CallClean (c : Call) : Prop :=
  (∀ b ∈ c.binds, Exp.clean b.exp = true) ∧ ∀ d, c.disabled = some d → Exp.clean d.2 = true

/-! ## den's call-level operations on the erased environment -/

theorem argVals_eraseEnv (st : StructTable) (env : Env) (ins : List Param) (c : Call)
    (hc : ∀ b ∈ c.binds, Exp.clean b.exp = true) :
    argVals st (eraseEnv env) ins c = (argVals st env ins c).map fun a => { a with val := J.erase a.val } := by
  simp only [argVals, List.map_map]
  apply List.map_congr_left
  intro p _
  simp only [Function.comp_apply]
  cases hfb : c.binds.find? (fun b => b.param == p.name) with
  | none => simp [J.erase]
  | some b => simp [eval_eraseEnv st env b.exp (hc b (List.mem_of_find?_eq_some hfb))]

theorem mkArgs_erase_none (st : StructTable) (F : Nat) (env : Env) (ins : List Param) (c : Call)
    (hc : ∀ b ∈ c.binds, Exp.clean b.exp = true) :
    J.erase (mkArgs st F (argVals st env ins c) none) = mkArgs st F (argVals st (eraseEnv env) ins c) none := by
  rw [argVals_eraseEnv st env ins c hc]
  simp only [mkArgs, erase_obj, List.map_map, J.obj.injEq]
  apply List.map_congr_left
  intro a _
  simp only [Function.comp_apply, Prod.mk.injEq, true_and]
  rw [narrow_erase]
  cases a.split <;> rfl

theorem mkArgs_erase_i (st : StructTable) (F : Nat) (env : Env) (ins : List Param) (c : Call) (k : Nat)
    (hc : ∀ b ∈ c.binds, Exp.clean b.exp = true) :
    J.erase (mkArgs st F (argVals st env ins c) (some (.i k)))
      = mkArgs st F (argVals st (eraseEnv env) ins c) (some (.i k)) := by
  rw [argVals_eraseEnv st env ins c hc]
  simp only [mkArgs, erase_obj, List.map_map, J.obj.injEq]
  apply List.map_congr_left
  intro a _
  simp only [Function.comp_apply, Prod.mk.injEq, true_and]
  rw [narrow_erase]
  cases a.split with
  | false => rfl
  | true => simp [elemAt_erase_i]

theorem splitVals_eraseEnv (st : StructTable) (env : Env) (c : Call) (hc : CallClean c) :
    splitVals st (eraseEnv env) c = (splitVals st env c).map J.erase := by
  simp only [splitVals, List.map_append, List.map_map]
  congr 1
  · apply List.map_congr_left
    intro b hb
    simp only [List.mem_filter] at hb
    exact eval_eraseEnv st env b.exp (hc.1 b hb.1)
  · cases hd : c.disabled with
    | none => rfl
    | some d =>
      obtain ⟨s, e⟩ := d
      cases s with
      | false => rfl
      | true => simp [eval_eraseEnv st env e (hc.2 _ hd)]

theorem splitMode_eraseEnv (st : StructTable) (env : Env) (e : Exp) :
    splitMode st (eraseEnv env) e = splitMode st env e := by
  cases e <;> simp [splitMode, selfTy_eraseEnv, callTy_eraseEnv]

theorem callMode_eraseEnv (st : StructTable) (env : Env) (c : Call) :
    callMode st (eraseEnv env) c = callMode st env c := by
  unfold callMode
  cases c.mapped <;> simp
  cases firstSplit c <;> simp [splitMode_eraseEnv]

theorem eraseEnv_append (env : Env) (id : String) (ty : Ty) (v : J) :
    eraseEnv { env with calls := env.calls ++ [(id, ty, v)] }
      = { eraseEnv env with calls := (eraseEnv env).calls ++ [(id, ty, J.erase v)] } := by
  simp [eraseEnv]

theorem typesOf_eraseEnv' (env : Env) : typesOf (eraseEnv env) = typesOf env := typesOf_eraseEnv env

theorem evalCall_disabled (st : StructTable) (F : Nat) (insOf : String → List Param) (run : Runner)
    (path : List String) (forks : List (String × Idx)) (env : Env) (c : Call) (e : Exp)
    (hm : c.mapped = false) (hd : c.disabled = some (false, e)) :
    evalCall st F insOf run path forks env c =
      if Martian.Dataflow.isTrue (eval st env e) then (⟨c.callee, 0, 0⟩, .dnull, [])
      else
        (⟨c.callee, 0, 0⟩,
         (run c.callee (path ++ [c.id]) forks (mkArgs st F (argVals st env (insOf c.callee) c) none)).1,
         (run c.callee (path ++ [c.id]) forks (mkArgs st F (argVals st env (insOf c.callee) c) none)).2) := by
  simp only [evalCall, hd, hm, callMode, liftTy]
  split <;> simp

/-! ## typing -/

/-- a plain call with a run-time `disabled` control: the control is a boolean expression -/
def DisabledOkE (st : StructTable) (P : Program) (sT cT : String → Ty) (c : Call) : Prop :=
  c.mapped = false ∧ (∃ e, c.disabled = some (false, e) ∧ HasTy st sT cT ⟨"bool", 0, 0⟩ e) ∧
  (∀ b ∈ c.binds, b.split = false) ∧
  ∀ p ∈ P.insOf c.callee, ∀ b, c.binds.find? (fun b => b.param == p.name) = some b → HasTy st sT cT p.ty b.exp

def CallOkE (st : StructTable) (P : Program) (sT cT : String → Ty) (c : Call) : Prop :=
  CallClean c ∧
  ((CallOk st P.insOf sT cT c ∧ ∀ b ∈ c.binds, b.split = false) ∨ MappedOkT st P sT cT c ∨
    DisabledOkE st P sT cT c)

def CallsOkE (st : StructTable) (P : Program) (sT : String → Ty) :
    List (String × Ty) → List Call → Prop
  | _, [] => True
  | L, c :: cs => CallOkE st P sT (callTyOf L) c ∧ CallsOkE st P sT (L ++ [(c.id, callTyM c)]) cs

def PipelineOkE (st : StructTable) (P : Program) (pins outs : List Param)
    (calls : List Call) (ret : List (String × Exp)) : Prop :=
  CallsOkE st P (selfTyOf pins) [] calls ∧
  ∀ p ∈ outs, ∀ e, ret.lookup p.name = some e →
    Exp.clean e = true ∧ HasTy st (selfTyOf pins) (callTyOf (callTypesM calls)) p.ty e

structure WellTypedE (P : Program) : Prop where
  structs : StructsOk P.table
  outsOf : ∀ name c, P.callables.lookup name = some c → P.table.lookup name = some c.outs
  pipelines : ∀ name pins outs calls ret,
    P.callables.lookup name = some (.pipeline pins outs calls ret) →
      PipelineOkE P.table P pins outs calls ret
  top : CallOk P.table P.insOf (selfTyOf []) (callTyOf []) P.top ∧ (∀ b ∈ P.top.binds, b.split = false) ∧
    ∀ b ∈ P.top.binds, Exp.clean b.exp = true

/-- den's result for a callable against the static tree, modulo the erasure -/
def GoodE (st : StructTable) (F : Nat) (ρ : Store) (forks : List (String × Idx)) (callee : String)
    (d : J × List Inst) (s : RB × List STree) : Prop :=
  (∀ f, Agree forks f → J.erase d.1 = evalRT st F ρ f ⟨callee, 0, 0⟩ s.1.exp) ∧
  HasTyR st ⟨callee, 0, 0⟩ s.1.exp ∧
  (∀ f, Agree forks f → d.2.map eraseInst = instsTList st F ρ forks f s.2)

section callsE
variable (st : StructTable) (hst : StructsOk st) (F : Nat) (hF : NarrowFix st F) (ρ : Store) (hρ : StoreExt ρ)
include hst hF hρ

theorem refine_callsE (P : Program) (nm : List String → String) (O : Oracle) (run : Runner)
    (node : String → List String → RBMap → RB × List STree) (path : List String)
    (forks : List (String × Idx)) (dims : List (String × List Idx)) (self : RBMap) (sT : String → Ty)
    (hal : dims.map (·.1) = forks.map (·.1))
    (hrun : ∀ callee path forks' dims' args cins, dims'.map (·.1) = forks'.map (·.1) →
      ArgsRelC st F ρ forks' (P.insOf callee) (J.erase args) cins → (∃ f, Agree forks' f) →
      (∀ n ∈ flattenTList dims' (node callee path cins).2, StoreAtNode nm O ρ n) →
      treeOkList (forks'.map (·.1)) (node callee path cins).2 = true →
      GoodE st F ρ forks' callee (run callee path forks' args) (node callee path cins)) :
    ∀ (cs : List Call) (env : Env) (sib : RBMap) (acc : List Inst) (sacc : List STree),
      EnvRel st F ρ (Agree forks) (eraseEnv env) self sib → env.selfTy = sT → CallsOkE st P sT (typesOf env) cs →
      (∀ f, Agree forks f → acc.map eraseInst = instsTList st F ρ forks f sacc) → (∃ f0, Agree forks f0) →
      (∀ n ∈ flattenTList dims (staticCallsT st P.insOf node path self cs sib []).2, StoreAtNode nm O ρ n) →
      treeOkList (forks.map (·.1)) (staticCallsT st P.insOf node path self cs sib []).2 = true →
      EnvRel st F ρ (Agree forks) (eraseEnv (evalCalls st F P.insOf run path forks cs env acc).1) self
          (staticCallsT st P.insOf node path self cs sib sacc).1 ∧
      (evalCalls st F P.insOf run path forks cs env acc).1.selfTys = env.selfTys ∧
      typesOf (evalCalls st F P.insOf run path forks cs env acc).1 = typesOf env ++ callTypesM cs ∧
      (∀ f, Agree forks f → (evalCalls st F P.insOf run path forks cs env acc).2.map eraseInst
        = instsTList st F ρ forks f (staticCallsT st P.insOf node path self cs sib sacc).2) := by
  intro cs
  induction cs with
  | nil =>
    intro env sib acc sacc hrel _ _ hacc _ _ _
    simp only [evalCalls, staticCallsT, callTypesM, List.map_nil, List.append_nil]
    exact ⟨hrel, trivial, trivial, hacc⟩
  | cons c cs ih =>
    intro env sib acc sacc hrel hsT hok hacc hex0 hstore htree
    obtain ⟨f0, hf0⟩ := hex0
    simp only [CallsOkE] at hok
    obtain ⟨⟨hclean, hc⟩, hcs⟩ := hok
    have hsT' : (eraseEnv env).selfTy = env.selfTy := selfTy_eraseEnv env
    have hcT' : (eraseEnv env).callTy = env.callTy := callTy_eraseEnv env
    rcases hc with hplain | hmapped | hdis
    · -- a plain call
      obtain ⟨hc, hns⟩ := hplain
      have hc' : CallOk st P.insOf (eraseEnv env).selfTy (eraseEnv env).callTy c := by
        rw [hsT', hcT', hsT, callTy_typesOf]; exact hc
      have hargs := args_stepC st hst F hF ρ P.insOf forks (eraseEnv env) self sib hrel c hc' hns f0 hf0
      rw [← mkArgs_erase_none st F env _ c hclean.1] at hargs
      have hm : c.mapped = false := hc.1
      generalize hr : node c.callee (path ++ [c.id]) (resolveBindsT st self sib (P.insOf c.callee) c) = r
        at hargs
      have hsplitL : (staticCallsT st P.insOf node path self (c :: cs) sib []).2
          = r.2 ++ (staticCallsT st P.insOf node path self cs (sib ++ [(c.id, r.1)]) []).2 := by
        simp only [staticCallsT, hm, Bool.false_eq_true, if_false, hr, hc.2.1]
        rw [staticCallsT_acc]
        simp
      rw [hsplitL, flattenTList_append] at hstore
      rw [hsplitL, treeOkList_append, Bool.and_eq_true] at htree
      have hgood := hrun c.callee (path ++ [c.id]) forks dims _ _ hal hargs ⟨f0, hf0⟩
        (by rw [hr]; exact fun n hn => hstore n (by simp [hn])) (by rw [hr]; exact htree.1)
      rw [hr] at hgood
      obtain ⟨g1, g2, g3⟩ := hgood
      simp only [evalCalls, staticCallsT, hm, Bool.false_eq_true, if_false, hr, hc.2.1]
      rw [evalCall_plain st F P.insOf run path forks env c hc.1 hc.2.1]
      simp only
      have hrel' := envRel_stepC st F ρ (Agree forks) (eraseEnv env) self sib hrel c.id ⟨c.callee, 0, 0⟩ _ _ g1 g2
      rw [← eraseEnv_append] at hrel'
      have hty : callTyM c = ⟨c.callee, 0, 0⟩ := by simp [callTyM, hm]
      have := ih _ _ (acc ++ (run c.callee (path ++ [c.id]) forks
          (mkArgs st F (argVals st env (P.insOf c.callee) c) none)).2) (sacc ++ r.2)
        hrel' hsT (by rw [← hty]; simpa [typesOf] using hcs)
        (fun f hf => by rw [List.map_append, hacc f hf, g3 f hf, instsTList_append]) ⟨f0, hf0⟩
        (fun n hn => hstore n (by simp [hn])) htree.2
      obtain ⟨r1, r2, r3, r4⟩ := this
      refine ⟨r1, r2, ?_, r4⟩
      rw [r3]
      simp [typesOf, callTypesM, hty]
    · -- an array-mode map call
      have hmapped' : MappedOkT st P (eraseEnv env).selfTy (eraseEnv env).callTy c := by
        rw [hsT', hcT', hsT, callTy_typesOf]; exact hmapped
      have hm : c.mapped = true := hmapped'.1
      have hd : c.disabled = none := hmapped'.2.1
      have hex := hmapped'.2.2.1
      have hrt := runtime_not_treeOk st P.insOf node path self c cs sib _ hm htree
      generalize hr : node c.callee (path ++ [c.id]) (resolveBindsT st self sib (P.insOf c.callee) c) = r
      generalize hci : callIndicesT st self sib (P.insOf c.callee) c = ci at *
      have hsplitL : (staticCallsT st P.insOf node path self (c :: cs) sib []).2
          = [STree.sub c.id (ci.getD (false, [])).1 (ci.getD (false, [])).2
              (ci.isSome && !(ci.getD (false, [])).2.isEmpty &&
                splitsStaticT st self sib (P.insOf c.callee) c (ci.getD (false, [])) && c.disabled.isNone &&
                noMergeOf c.id r.1.exp) r.2] ++
            (staticCallsT st P.insOf node path self cs
              (sib ++ [(c.id, unrolledOutputsT c (ci.getD (false, [])) r.1.exp)]) []).2 := by
        simp only [staticCallsT, hm, if_true, hr, hci, hrt, Bool.false_eq_true, if_false]
        rw [staticCallsT_acc]
        simp
      rw [hsplitL, flattenTList_append] at hstore
      rw [hsplitL, treeOkList_append, Bool.and_eq_true] at htree
      obtain ⟨htree1, htree2⟩ := htree
      simp only [treeOkList, treeOk, Bool.and_true, Bool.and_eq_true, Bool.not_eq_true'] at htree1
      obtain ⟨⟨⟨⟨⟨⟨hsome, hnonempty⟩, hss⟩, _⟩, hnmg⟩, habove⟩, htreeR⟩ := htree1
      obtain ⟨hix1, hfacts⟩ := mapped_factsT st hst F hF ρ P (Agree forks) (eraseEnv env) self sib hrel f0 hf0 c
        hmapped' (ci.getD (false, [])) hss
      generalize hixs : (ci.getD (false, [])).2 = ixs at *
      have hne : ixs ≠ [] := by
        intro e; rw [e] at hnonempty; simp at hnonempty
      have hixsP : ci.getD (false, []) = (false, ixs) := Prod.ext hix1 hixs
      have hallI : ∀ ix ∈ ixs, ∃ k, ix = Idx.i k := by
        obtain ⟨b0, hb0, hs0⟩ := hex
        obtain ⟨p0, hp0, hfb0⟩ := hmapped'.2.2.2.1 b0 hb0 hs0
        obtain ⟨es, _, hi⟩ := hfacts p0 hp0 b0 hfb0 hs0
        intro ix hix
        rw [hi] at hix
        simp only [List.mem_map] at hix
        obtain ⟨k, _, rfl⟩ := hix
        exact ⟨k, rfl⟩
      have hidx' := splitVals_indicesT st hst F hF ρ P (Agree forks) (eraseEnv env) self sib hrel f0 hf0 c
        hmapped' ixs hfacts
      have hidx : ∀ v ∈ splitVals st env c, indicesOf v = ixs := by
        intro v hv
        rw [← indicesOf_erase]
        apply hidx'
        rw [splitVals_eraseEnv st env c hclean]
        exact List.mem_map_of_mem hv
      have hmode : callMode st env c = .arr := by
        rw [← callMode_eraseEnv]
        exact callMode_T st P (eraseEnv env) self sib c hmapped' ixs hfacts
      have hchild : ∀ ix ∈ ixs, GoodE st F ρ (forks ++ [(c.id, ix)]) c.callee
          (run c.callee (path ++ [c.id]) (forks ++ [(c.id, ix)])
            (mkArgs st F (argVals st env (P.insOf c.callee) c) (some ix))) r := by
        intro ix hix
        obtain ⟨k, rfl⟩ := hallI ix hix
        have ha := args_mappedC st hst F hF ρ P forks (eraseEnv env) self sib hrel c hmapped' ixs hfacts k f0 hf0
        rw [← mkArgs_erase_i st F env _ c k hclean.1] at ha
        have := hrun c.callee (path ++ [c.id]) (forks ++ [(c.id, .i k)]) (dims ++ [(c.id, ixs)]) _ _
          (by simp [hal]) ha ⟨fset f0 c.id (.i k), hf0.fset c.id (.i k) habove⟩
          (by
            rw [hr]
            intro n hn
            apply hstore n
            simp only [flattenTList, flattenT, List.append_nil, List.mem_append]
            exact Or.inl hn)
          (by rw [hr]; simpa using htreeR)
        rw [hr] at this
        exact this
      obtain ⟨ix0, hix0⟩ : ∃ ix0, ix0 ∈ ixs := by
        cases ixs with
        | nil => exact absurd rfl hne
        | cons a l => exact ⟨a, by simp⟩
      simp only [evalCalls, staticCallsT, hm, if_true, hr, hci, hixsP, hrt, Bool.false_eq_true, if_false]
      rw [evalCall_mappedC st F P.insOf run path forks env c .arr ixs hm hd hex hidx hne hmode]
      simp only
      have hout : unrolledOutputsT c (false, ixs) r.1.exp
          = ⟨.arr (ixs.map fun ix => pushFork c.id ix r.1.exp), ⟨c.callee, 0, 1⟩⟩ := by
        simp [unrolledOutputsT]
      rw [hout]
      have hv : ∀ f, Agree forks f → J.erase (collect Mode.arr ixs (ixs.map fun ix =>
            (run c.callee (path ++ [c.id]) (forks ++ [(c.id, ix)])
              (mkArgs st F (argVals st env (P.insOf c.callee) c) (some ix))).1))
          = evalRT st F ρ f ⟨c.callee, 0, 1⟩ (.arr (ixs.map fun ix => pushFork c.id ix r.1.exp)) := by
        intro f hf
        simp only [collect, erase_arr, evalRT, evalRTList_map, List.map_map, J.arr.injEq]
        apply List.map_congr_left
        intro ix hix
        obtain ⟨k, rfl⟩ := hallI ix hix
        simp only [Function.comp_apply]
        rw [(pushFork_evalRT st hst F ρ hρ c.id k r.1.exp _ f (hchild _ hix).2.1 hnmg).1]
        exact (hchild _ hix).1 _ (hf.fset c.id (.i k) habove)
      have htyR : HasTyR st ⟨c.callee, 0, 1⟩ (.arr (ixs.map fun ix => pushFork c.id ix r.1.exp)) := by
        simp only [HasTyR]
        refine ⟨by simp, HasTyRList_map st _ _ _ ?_⟩
        intro ix hix
        obtain ⟨k, rfl⟩ := hallI ix hix
        exact (pushFork_evalRT st hst F ρ hρ c.id k r.1.exp _ [] (hchild _ hix).2.1 hnmg).2
      have hrel' := envRel_stepC st F ρ (Agree forks) (eraseEnv env) self sib hrel c.id ⟨c.callee, 0, 1⟩ _
        ⟨.arr (ixs.map fun ix => pushFork c.id ix r.1.exp), ⟨c.callee, 0, 1⟩⟩ hv htyR
      rw [← eraseEnv_append] at hrel'
      have hty : callTyM c = ⟨c.callee, 0, 1⟩ := by simp [callTyM, hm]
      have hinst : ∀ f, Agree forks f → (ixs.flatMap fun ix =>
            (run c.callee (path ++ [c.id]) (forks ++ [(c.id, ix)])
              (mkArgs st F (argVals st env (P.insOf c.callee) c) (some ix))).2).map eraseInst
          = instsTList st F ρ forks f [STree.sub c.id false ixs
              (ci.isSome && !ixs.isEmpty && splitsStaticT st self sib (P.insOf c.callee) c (false, ixs) &&
                c.disabled.isNone && noMergeOf c.id r.1.exp) r.2] := by
        intro f hf
        simp only [instsTList, instsT, List.append_nil, List.map_flatMap]
        apply flatMap_congr_mem
        intro ix hix
        exact (hchild ix hix).2.2 _ (hf.fset c.id ix habove)
      simp only [liftTy]
      have := ih _ _ (acc ++ (ixs.flatMap fun ix =>
            (run c.callee (path ++ [c.id]) (forks ++ [(c.id, ix)])
              (mkArgs st F (argVals st env (P.insOf c.callee) c) (some ix))).2))
        (sacc ++ [STree.sub c.id false ixs
              (ci.isSome && !ixs.isEmpty && splitsStaticT st self sib (P.insOf c.callee) c (false, ixs) &&
                c.disabled.isNone && noMergeOf c.id r.1.exp) r.2])
        hrel' hsT (by rw [← hty]; simpa [typesOf] using hcs)
        (fun f hf => by rw [List.map_append, hacc f hf, hinst f hf, instsTList_append]) ⟨f0, hf0⟩
        (fun n hn => hstore n (by rw [hixsP, hout]; simp [hn]))
        (by rw [hixsP, hout] at htree2; exact htree2)
      obtain ⟨r1, r2, r3, r4⟩ := this
      refine ⟨r1, r2, ?_, r4⟩
      rw [r3]
      simp [typesOf, callTypesM, hty]
    · -- a plain call with a run-time `disabled` control
      obtain ⟨hm, ⟨e, hd, htyd⟩, hns, hb⟩ := hdis
      have hcE : Exp.clean e = true := hclean.2 _ hd
      have hc' : CallOk st P.insOf (eraseEnv env).selfTy (eraseEnv env).callTy { c with disabled := none } := by
        rw [hsT', hcT', hsT, callTy_typesOf]; exact ⟨hm, rfl, hb⟩
      have hargs := args_stepC st hst F hF ρ P.insOf forks (eraseEnv env) self sib hrel
        { c with disabled := none } hc' hns f0 hf0
      have hav : ∀ (en : Env), argVals st en (P.insOf c.callee) { c with disabled := none }
          = argVals st en (P.insOf c.callee) c := fun _ => rfl
      have hrb : resolveBindsT st self sib (P.insOf c.callee) { c with disabled := none }
          = resolveBindsT st self sib (P.insOf c.callee) c := rfl
      simp only [hav, hrb] at hargs
      rw [← mkArgs_erase_none st F env _ c hclean.1] at hargs
      -- the control
      have htyd' : HasTy st (eraseEnv env).selfTy (eraseEnv env).callTy ⟨"bool", 0, 0⟩ e := by
        rw [hsT', hcT', hsT, callTy_typesOf]; exact htyd
      have hctl : ∀ f, Agree forks f →
          Martian.Dataflow.isTrue (evalRT st F ρ f ⟨"bool", 0, 0⟩ (resolveRefs self sib e))
            = Martian.Dataflow.isTrue (eval st env e) := by
        intro f hf
        have h1 := (eval_resolveRefs st hst F hF ρ (Agree forks) (eraseEnv env) self sib hrel f hf e _ htyd').1
        rw [← h1, isTrue_narrow0 hF, eval_eraseEnv st env e hcE, isTrue_erase]
      have htyctl := (eval_resolveRefs st hst F hF ρ (Agree forks) (eraseEnv env) self sib hrel f0 hf0 e _ htyd').2
      generalize hr : node c.callee (path ++ [c.id]) (resolveBindsT st self sib (P.insOf c.callee) c) = r
        at hargs
      generalize hdr : resolveRefs self sib e = dR at hctl htyctl
      have hdlt : evalCall st F P.insOf run path forks env c =
          if Martian.Dataflow.isTrue (eval st env e) then (⟨c.callee, 0, 0⟩, .dnull, [])
          else (⟨c.callee, 0, 0⟩,
            (run c.callee (path ++ [c.id]) forks (mkArgs st F (argVals st env (P.insOf c.callee) c) none)).1,
            (run c.callee (path ++ [c.id]) forks (mkArgs st F (argVals st env (P.insOf c.callee) c) none)).2) :=
        evalCall_disabled st F P.insOf run path forks env c e hm hd
      have hty : callTyM c = ⟨c.callee, 0, 0⟩ := by simp [callTyM, hm]
      by_cases hfalse : dR = .lit (.atom "false")
      · -- statically false: an ordinary call
        have hnot : Martian.Dataflow.isTrue (eval st env e) = false := by
          rw [← hctl f0 hf0, hfalse]; simp [evalRT, Martian.Dataflow.isTrue]
        have hsplitL : (staticCallsT st P.insOf node path self (c :: cs) sib []).2
            = r.2 ++ (staticCallsT st P.insOf node path self cs (sib ++ [(c.id, r.1)]) []).2 := by
          simp only [staticCallsT, hm, Bool.false_eq_true, if_false, hr, hd, hdr, hfalse]
          rw [staticCallsT_acc]
          simp
        rw [hsplitL, flattenTList_append] at hstore
        rw [hsplitL, treeOkList_append, Bool.and_eq_true] at htree
        have hgood := hrun c.callee (path ++ [c.id]) forks dims _ _ hal hargs ⟨f0, hf0⟩
          (by rw [hr]; exact fun n hn => hstore n (by simp [hn])) (by rw [hr]; exact htree.1)
        rw [hr] at hgood
        obtain ⟨g1, g2, g3⟩ := hgood
        simp only [evalCalls, staticCallsT, hm, Bool.false_eq_true, if_false, hr, hd, hdr, hfalse]
        rw [hdlt, hnot]
        simp only [Bool.false_eq_true, if_false]
        have hrel' := envRel_stepC st F ρ (Agree forks) (eraseEnv env) self sib hrel c.id ⟨c.callee, 0, 0⟩ _ _ g1 g2
        rw [← eraseEnv_append] at hrel'
        have := ih _ _ (acc ++ (run c.callee (path ++ [c.id]) forks
            (mkArgs st F (argVals st env (P.insOf c.callee) c) none)).2) (sacc ++ r.2)
          hrel' hsT (by rw [← hty]; simpa [typesOf] using hcs)
          (fun f hf => by rw [List.map_append, hacc f hf, g3 f hf, instsTList_append]) ⟨f0, hf0⟩
          (fun n hn => hstore n (by simp [hn])) htree.2
        obtain ⟨r1, r2, r3, r4⟩ := this
        refine ⟨r1, r2, ?_, r4⟩
        rw [r3]
        simp [typesOf, callTypesM, hty]
      · -- a guard
        have hsplitL : (staticCallsT st P.insOf node path self (c :: cs) sib []).2
            = [STree.guard dR r.2] ++
              (staticCallsT st P.insOf node path self cs (sib ++ [(c.id, ⟨mkDisabled dR r.1.exp, r.1.ty⟩)]) []).2 := by
          simp only [staticCallsT, hm, Bool.false_eq_true, if_false, hr, hd, hdr]
          rw [staticCallsT_acc]
          simp
        have hstep : ∀ (sacc' : List STree),
            staticCallsT st P.insOf node path self (c :: cs) sib sacc'
              = staticCallsT st P.insOf node path self cs (sib ++ [(c.id, ⟨mkDisabled dR r.1.exp, r.1.ty⟩)])
                  (sacc' ++ [STree.guard dR r.2]) := by
          intro sacc'
          simp only [staticCallsT, hm, Bool.false_eq_true, if_false, hr, hd, hdr]
        rw [hsplitL, flattenTList_append] at hstore
        rw [hsplitL, treeOkList_append, Bool.and_eq_true] at htree
        obtain ⟨htree1, htree2⟩ := htree
        simp only [treeOkList, treeOk, Bool.and_true] at htree1
        have hgood := hrun c.callee (path ++ [c.id]) forks dims _ _ hal hargs ⟨f0, hf0⟩
          (by
            rw [hr]
            intro n hn
            apply hstore n
            simp only [flattenTList, flattenT, List.append_nil, List.mem_append]
            exact Or.inl hn)
          (by rw [hr]; exact htree1)
        rw [hr] at hgood
        obtain ⟨g1, g2, g3⟩ := hgood
        have hrty : r.1.ty = ⟨c.callee, 0, 0⟩ ∨ True := Or.inr trivial
        simp only [evalCalls]
        rw [hstep, hdlt]
        -- value and instances of the call, in both cases of the control
        have hv : ∀ f, Agree forks f →
            J.erase (if Martian.Dataflow.isTrue (eval st env e) then ((⟨c.callee, 0, 0⟩ : Ty), J.dnull, ([] : List Inst))
              else (⟨c.callee, 0, 0⟩,
                (run c.callee (path ++ [c.id]) forks (mkArgs st F (argVals st env (P.insOf c.callee) c) none)).1,
                (run c.callee (path ++ [c.id]) forks (mkArgs st F (argVals st env (P.insOf c.callee) c) none)).2)).2.1
              = evalRT st F ρ f ⟨c.callee, 0, 0⟩ (mkDisabled dR r.1.exp) := by
          intro f hf
          rw [evalRT_mkDisabled, hctl f hf]
          split
          · simp [J.erase]
          · exact g1 f hf
        have hinst : ∀ f, Agree forks f →
            ((if Martian.Dataflow.isTrue (eval st env e) then ((⟨c.callee, 0, 0⟩ : Ty), J.dnull, ([] : List Inst))
              else (⟨c.callee, 0, 0⟩,
                (run c.callee (path ++ [c.id]) forks (mkArgs st F (argVals st env (P.insOf c.callee) c) none)).1,
                (run c.callee (path ++ [c.id]) forks (mkArgs st F (argVals st env (P.insOf c.callee) c) none)).2)).2.2).map
                eraseInst
              = instsTList st F ρ forks f [STree.guard dR r.2] := by
          intro f hf
          simp only [instsTList, instsT, List.append_nil, hctl f hf]
          split
          · simp
          · exact g3 f hf
        have hfst : (if Martian.Dataflow.isTrue (eval st env e) then ((⟨c.callee, 0, 0⟩ : Ty), J.dnull, ([] : List Inst))
              else (⟨c.callee, 0, 0⟩,
                (run c.callee (path ++ [c.id]) forks (mkArgs st F (argVals st env (P.insOf c.callee) c) none)).1,
                (run c.callee (path ++ [c.id]) forks (mkArgs st F (argVals st env (P.insOf c.callee) c) none)).2)).1
              = ⟨c.callee, 0, 0⟩ := by split <;> rfl
        generalize hX : (if Martian.Dataflow.isTrue (eval st env e) then ((⟨c.callee, 0, 0⟩ : Ty), J.dnull, ([] : List Inst))
              else (⟨c.callee, 0, 0⟩,
                (run c.callee (path ++ [c.id]) forks (mkArgs st F (argVals st env (P.insOf c.callee) c) none)).1,
                (run c.callee (path ++ [c.id]) forks (mkArgs st F (argVals st env (P.insOf c.callee) c) none)).2)) = X
          at hv hinst hfst
        rw [hfst]
        have hrel' := envRel_stepC st F ρ (Agree forks) (eraseEnv env) self sib hrel c.id ⟨c.callee, 0, 0⟩ _
          ⟨mkDisabled dR r.1.exp, r.1.ty⟩ hv (HasTyR_mkDisabled st dR _ _ htyctl g2)
        rw [← eraseEnv_append] at hrel'
        have := ih _ _ (acc ++ X.2.2) (sacc ++ [STree.guard dR r.2])
          hrel' hsT (by rw [← hty]; simpa [typesOf] using hcs)
          (fun f hf => by rw [List.map_append, hacc f hf, hinst f hf, instsTList_append]) ⟨f0, hf0⟩
          (fun n hn => hstore n (by simp [hn])) htree2
        obtain ⟨r1, r2, r3, r4⟩ := this
        refine ⟨r1, r2, ?_, r4⟩
        rw [r3]
        simp [typesOf, callTypesM, hty]

end callsE

/-! ## the call graph -/

section graphE
variable (P : Program) (hw : WellTypedE P) (F : Nat) (hF : NarrowFix P.table F)
  (nm : List String → String) (O : Oracle) (hO : OracleClean O) (ρ : Store) (hρ : StoreExt ρ)
include hw hF hO hρ

theorem refine_callableE :
    ∀ (fuel : Nat) (callee : String) (path : List String) (forks : List (String × Idx))
      (dims : List (String × List Idx)) (args : J) (cins : RBMap),
      dims.map (·.1) = forks.map (·.1) →
      ArgsRelC P.table F ρ forks (P.insOf callee) (J.erase args) cins → (∃ f, Agree forks f) →
      (∀ n ∈ flattenTList dims (staticCallableT P nm fuel callee path cins).2, StoreAtNode nm O ρ n) →
      treeOkList (forks.map (·.1)) (staticCallableT P nm fuel callee path cins).2 = true →
      GoodE P.table F ρ forks callee (runCallable P O F fuel callee path forks args)
        (staticCallableT P nm fuel callee path cins) := by
  intro fuel
  induction fuel with
  | zero =>
    intro callee path forks dims args cins _ _ _ _ _
    simp only [runCallable, staticCallableT, GoodE, evalRT, instsTList, J.erase, List.map_nil]
    exact ⟨fun _ _ => trivial, HasTyR_null _ _, fun _ _ => trivial⟩
  | succ fuel ih =>
    intro callee path forks dims args cins hal hargs hex hstore htree
    simp only [runCallable, staticCallableT] at hstore htree ⊢
    cases hl : P.callables.lookup callee with
    | none =>
      simp only [GoodE, evalRT, instsTList, J.erase, List.map_nil]
      exact ⟨fun _ _ => trivial, HasTyR_null _ _, fun _ _ => trivial⟩
    | some cb =>
      cases cb with
      | stage sins souts =>
        simp only [hl] at hstore
        have hs := hstore { path := path, callee := callee, inputs := cins, forks := dims }
          (by simp [flattenTList, flattenT])
        refine ⟨?_, ?_, ?_⟩
        · intro f hf
          simp only [evalRT, projPath]
          have := hs f
          simp only [key_of_agree f dims forks hal hf] at this
          rw [this, narrow_erase]
          congr 1
          cases ho : O ⟨path, forks⟩ with
          | none => rfl
          | some v => exact Proofs.Approx.erase_clean _ (hO _ _ ho)
        · simp only [HasTyR, pathTy]
          exact Sub.refl _
        · intro f hf
          obtain ⟨g, hc, ha, _⟩ := hargs
          simp only [instsTList, instsT, List.append_nil, runtimeArgs, hc, List.map_map,
            List.map_cons, List.map_nil, eraseInst, ha f hf, List.cons.injEq, and_true]
          rfl
      | pipeline pins outs calls ret =>
        simp only [hl] at hstore htree
        have hins : P.insOf callee = pins := by simp [Program.insOf, hl, Callable.ins]
        rw [hins] at hargs
        obtain ⟨hcalls, hret⟩ := hw.pipelines callee pins outs calls ret hl
        have htab := hw.outsOf callee _ hl
        simp only [Callable.outs] at htab
        have hn := hw.structs _ _ htab
        have hinit := envRel_initC P.table F ρ forks pins (J.erase args) cins hargs
        have hinit' : EnvRel P.table F ρ (Agree forks) (eraseEnv ⟨pins, args, []⟩) cins [] := hinit
        obtain ⟨f0, hf0⟩ := hex
        have hcs := refine_callsE P.table hw.structs F hF ρ hρ P nm O (runCallable P O F fuel)
          (staticCallableT P nm fuel) path forks dims cins (selfTyOf pins) hal ih
          calls ⟨pins, args, []⟩ [] [] [] hinit' rfl (by simpa [typesOf] using hcalls)
          (fun _ _ => by simp [instsTList]) ⟨f0, hf0⟩ hstore htree
        obtain ⟨hrel, hself, htypes, hinst⟩ := hcs
        simp only
        generalize evalCalls P.table F P.insOf (runCallable P O F fuel) path forks calls ⟨pins, args, []⟩ [] = R
          at hrel hself htypes hinst
        generalize staticCallsT P.table P.insOf (staticCallableT P nm fuel) path cins calls [] [] = S
          at hrel hinst
        have hsT : (eraseEnv R.1).selfTy = selfTyOf pins := by rw [selfTy_eraseEnv, selfTy_eq, hself]
        have hcT : (eraseEnv R.1).callTy = callTyOf (callTypesM calls) := by
          rw [callTy_eraseEnv, callTy_typesOf, htypes]; simp [typesOf]
        have key : ∀ p ∈ outs,
            (∀ f, Agree forks f → narrow P.table F p.ty (J.erase (match ret.lookup p.name with
              | some e => eval P.table R.1 e
              | none => .null))
              = evalRT P.table F ρ f p.ty (match ret.lookup p.name with
                | some e => filterT P.table p.ty (resolveRefs cins S.1 e)
                | none => .lit .null)) ∧
            HasTyR P.table p.ty (match ret.lookup p.name with
                | some e => filterT P.table p.ty (resolveRefs cins S.1 e)
                | none => .lit .null) := by
          intro p hp
          cases he : ret.lookup p.name with
          | none => exact ⟨fun f _ => by simp [narrow_null hF, evalRT, J.erase], HasTyR_null _ _⟩
          | some e =>
            obtain ⟨hcl, hty⟩ := hret p hp e he
            rw [← hsT, ← hcT] at hty
            simp only
            rw [← eval_eraseEnv P.table R.1 e hcl]
            exact ⟨fun f hf => (eval_resolveExpT P.table hw.structs F hF ρ _ _ cins S.1 hrel f hf e p.ty hty).1,
              (eval_resolveExpT P.table hw.structs F hF ρ _ _ cins S.1 hrel f0 hf0 e p.ty hty).2⟩
        have c2 : ((0 : Nat) == 0 && (0 : Nat) != 0) = false := by decide
        refine ⟨?_, ?_, hinst⟩
        · intro f hf
          simp only [evalRT, c2, Bool.false_eq_true, if_false, htab, J.obj.injEq, erase_obj, List.map_map]
          apply List.map_congr_left
          intro p hp
          simp only [Function.comp_apply, Prod.mk.injEq, true_and]
          rw [lookup_evalRTMembers, lookup_map_find, find_name_of_nodup outs hn p hp,
            memberTy_find outs p.name p (find_name_of_nodup outs hn p hp), narrow_erase]
          exact (key p hp).1 f hf
        · simp only [HasTyR]
          refine ⟨trivial, trivial, outs, htab, ?_, ?_⟩
          · apply HasTyRMembers_of_mem
            intro k e hke _
            simp only [List.mem_map, Prod.mk.injEq] at hke
            obtain ⟨p, hp, hk, he⟩ := hke
            subst hk; subst he
            rw [memberTy_find outs p.name p (find_name_of_nodup outs hn p hp)]
            exact (key p hp).2
          · intro p hp
            rw [lookup_map_find, find_name_of_nodup outs hn p hp]
            rfl

/-- THE REFINEMENT with run-time `disabled` controls, modulo the erasure `dnull ↦ null`: outputs and
every stage instance's arguments -/
theorem twoPhaseE_eq_den_F
    (hstore : ∀ n ∈ flattenTList [] (staticProgramT P nm).2, StoreAtNode nm O ρ n)
    (hok : treeOkList [] (staticProgramT P nm).2 = true) :
    (J.erase (runCallable P O F P.fuel P.top.callee [P.top.id] []
        (mkArgs P.table F (argVals P.table ⟨[], .null, []⟩ (P.insOf P.top.callee) P.top) none)).1,
     (runCallable P O F P.fuel P.top.callee [P.top.id] []
        (mkArgs P.table F (argVals P.table ⟨[], .null, []⟩ (P.insOf P.top.callee) P.top) none)).2.map eraseInst)
      = ((evalRT P.table F ρ [] ⟨P.top.callee, 0, 0⟩ (staticProgramT P nm).1.exp),
         instsTList P.table F ρ [] [] (staticProgramT P nm).2) := by
  have henv : EnvRel P.table F ρ (Agree []) (eraseEnv ⟨[], .null, []⟩) [] [] := by
    refine ⟨?_, ?_, ?_⟩
    · intro p; simp [eraseEnv, Env.selfTy, σexp, HasTyR_null, evalRT, J.field, J.erase]
    · intro c; simp [eraseEnv, Env.callTy, Env.callVal, σexp, HasTyR_null, evalRT]
    · intro c; rfl
  have htop : CallOk P.table P.insOf (Env.selfTy (eraseEnv ⟨[], .null, []⟩)) (Env.callTy (eraseEnv ⟨[], .null, []⟩))
      P.top := by
    rw [selfTy_eraseEnv, callTy_eraseEnv, selfTy_eq, callTy_typesOf]
    exact hw.top.1
  have hargs := args_stepC P.table hw.structs F hF ρ P.insOf [] _ [] [] henv P.top htop hw.top.2.1
    [] (Agree.nil [])
  rw [← mkArgs_erase_none P.table F _ _ P.top hw.top.2.2] at hargs
  have := refine_callableE P hw F hF nm O hO ρ hρ P.fuel P.top.callee [P.top.id] [] [] _ _ rfl hargs
    ⟨[], Agree.nil []⟩ hstore hok
  obtain ⟨g1, _, g3⟩ := this
  exact Prod.ext (g1 [] (Agree.nil [])) (g3 [] (Agree.nil []))

end graphE

end Proofs.ResolverStatic
