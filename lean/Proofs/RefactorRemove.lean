import Martian.Refactor
namespace Proofs.Refactor
open Martian.Refactor

/-! ## helpers for `remove_unused_preserves` -/

theorem bindsRefIds_mono (k : RefKind) {bs bs' : List Bind} (h : ∀ b ∈ bs, b ∈ bs') {x : String}
    (hx : x ∈ bindsRefIds k bs) : x ∈ bindsRefIds k bs' := by
  unfold bindsRefIds at *
  rw [List.mem_flatMap] at *
  obtain ⟨b, hb, hxb⟩ := hx
  exact ⟨b, h b hb, hxb⟩

theorem mem_withMaster (m : Option Ref) {bs : List Bind} {b : Bind} (hb : b ∈ bs) : b ∈ withMaster m bs := by
  unfold withMaster
  split
  · exact hb
  · rw [List.mem_flatMap]
    refine ⟨b, hb, ?_⟩
    split <;> simp

theorem mem_compiledBinds (p : Program) (pipe : Callable) (c : Call) {b : Bind} (hb : b ∈ c.binds) :
    b ∈ compiledBinds p pipe c := by
  unfold compiledBinds
  apply mem_withMaster
  split
  · split
    · simp [hb]
    · exact hb
  · exact hb

theorem removeCallById_sublist (id : String) (cs : List Call) : List.Sublist (removeCallById id cs) cs := by
  induction cs with
  | nil => exact List.Sublist.refl _
  | cons c cs ih =>
    simp only [removeCallById]
    split
    · exact List.sublist_cons_self c cs
    · exact List.Sublist.cons_cons c ih

theorem foldl_removeCallById_sublist (ids : List String) (cs : List Call) :
    List.Sublist (ids.foldl (fun cs id => removeCallById id cs) cs) cs := by
  induction ids generalizing cs with
  | nil => exact List.Sublist.refl _
  | cons i ids ih =>
    simp only [List.foldl_cons]
    exact List.Sublist.trans (ih _) (removeCallById_sublist i cs)

theorem remove_unused_preserves (p : Program) (pipe : Callable) (id : String)
    (hid : id ∈ unusedCalls p pipe) :
    id ∉ callRefIdsOf pipe
    ∧ ∀ rem c, c ∈ (applyCallRemovals rem p).callables →
        ∃ c0 ∈ p.callables, c.name = c0.name ∧ c.ret = c0.ret ∧ c.retain = c0.retain ∧
          c.outs = c0.outs ∧ c.ins = c0.ins ∧ List.Sublist c.calls c0.calls := by
  constructor
  · intro hmem
    unfold unusedCalls at hid
    simp only [List.mem_map, List.mem_filter] at hid
    obtain ⟨c, ⟨_, hnot⟩, rfl⟩ := hid
    have hused : c.id ∈ bindsRefIds RefKind.call pipe.ret
        ++ ((pipe.retain.filter (·.kind == RefKind.call)).map (·.id))
        ++ pipe.calls.flatMap (fun c =>
             bindsRefIds RefKind.call (compiledBinds p pipe c) ++ bindsRefIds RefKind.call c.mods) := by
      unfold callRefIdsOf at hmem
      rw [List.mem_append] at hmem ⊢
      rcases hmem with h | h
      · exact Or.inl h
      · right
        rw [List.mem_flatMap] at h ⊢
        obtain ⟨k, hk, hx⟩ := h
        refine ⟨k, hk, ?_⟩
        rw [List.mem_append] at hx ⊢
        rcases hx with hx | hx
        · exact Or.inl (bindsRefIds_mono _ (fun b hb => mem_compiledBinds p pipe k hb) hx)
        · exact Or.inr hx
    have : (bindsRefIds RefKind.call pipe.ret
        ++ ((pipe.retain.filter (·.kind == RefKind.call)).map (·.id))
        ++ pipe.calls.flatMap (fun c =>
             bindsRefIds RefKind.call (compiledBinds p pipe c) ++ bindsRefIds RefKind.call c.mods)).contains c.id = true :=
      List.contains_iff_mem.mpr hused
    rw [this] at hnot
    simp at hnot
  · intro rem c hc
    unfold applyCallRemovals at hc
    simp only [List.mem_map] at hc
    obtain ⟨c0, hc0, rfl⟩ := hc
    refine ⟨c0, hc0, ?_⟩
    split
    · split
      · refine ⟨rfl, rfl, rfl, rfl, rfl, ?_⟩
        exact foldl_removeCallById_sublist _ _
      · exact ⟨rfl, rfl, rfl, rfl, rfl, List.Sublist.refl _⟩
    · exact ⟨rfl, rfl, rfl, rfl, rfl, List.Sublist.refl _⟩

/-! ## helpers for `remove_input_only` -/

theorem removeFirstBind_filter (q : String) (bs : List Bind) :
    (removeFirstBind q bs).filter (·.name != q) = bs.filter (·.name != q) := by
  induction bs with
  | nil => rfl
  | cons b bs ih =>
    simp only [removeFirstBind]
    split
    · rename_i h
      simp [h]
    · simp only [List.filter_cons, ih]

theorem remove_input_only (x q : String) (p : Program) (c : Callable)
    (hc : c ∈ (removeInputOne x q p).callables) :
    ∃ c0 ∈ p.callables, c.name = c0.name ∧ c.ret = c0.ret ∧ c.retain = c0.retain ∧ c.outs = c0.outs
      ∧ c.calls.map (fun k => (k.id, k.decId, k.mods, k.binds.filter (·.name != q)))
        = c0.calls.map (fun k => (k.id, k.decId, k.mods, k.binds.filter (·.name != q))) := by
  unfold removeInputOne at hc
  simp only [List.mem_map] at hc
  obtain ⟨c0, hc0, rfl⟩ := hc
  refine ⟨c0, hc0, ?_⟩
  have hcalls : ∀ cs : List Call,
      (cs.map (fun c : Call => if c.decId = x then { c with binds := removeFirstBind q c.binds } else c)).map
        (fun k => (k.id, k.decId, k.mods, k.binds.filter (·.name != q)))
      = cs.map (fun k => (k.id, k.decId, k.mods, k.binds.filter (·.name != q))) := by
    intro cs
    rw [List.map_map]
    apply List.map_congr_left
    intro k _
    simp only [Function.comp]
    split
    · simp only [removeFirstBind_filter]
    · rfl
  by_cases hx : c0.name = x
  · simp only [hx, if_true]
    split
    · exact ⟨rfl, rfl, rfl, rfl, hcalls _⟩
    · exact ⟨rfl, rfl, rfl, rfl, rfl⟩
  · simp only [hx, if_false]
    split
    · exact ⟨rfl, rfl, rfl, rfl, hcalls _⟩
    · exact ⟨rfl, rfl, rfl, rfl, rfl⟩

/-! ## helpers for `fixpoint_terminates` -/

/-- contribution of one callable to `measure` -/
def cm (c : Callable) : Nat := c.calls.length + c.outs.length + c.ins.length

theorem measure_eq (p : Program) : measure p = (p.callables.map cm).sum := rfl

theorem sum_map_le {α : Type} (f g : α → Nat) (l : List α) (h : ∀ a ∈ l, f a ≤ g a) :
    (l.map f).sum ≤ (l.map g).sum := by
  induction l with
  | nil => exact Nat.le_refl _
  | cons a l ih =>
    simp only [List.map_cons, List.sum_cons]
    have h1 := h a (List.mem_cons_self)
    have h2 := ih (fun b hb => h b (List.mem_cons_of_mem _ hb))
    omega

theorem sum_map_lt {α : Type} (f g : α → Nat) (l : List α) (h : ∀ a ∈ l, f a ≤ g a)
    (a : α) (ha : a ∈ l) (hlt : f a < g a) : (l.map f).sum < (l.map g).sum := by
  induction l with
  | nil => cases ha
  | cons b l ih =>
    simp only [List.map_cons, List.sum_cons]
    have h1 := h b (List.mem_cons_self)
    have h2 := sum_map_le f g l (fun c hc => h c (List.mem_cons_of_mem _ hc))
    rcases List.mem_cons.mp ha with rfl | ha'
    · omega
    · have := ih (fun c hc => h c (List.mem_cons_of_mem _ hc)) ha'
      omega

theorem measure_map_le (F : Callable → Callable) (p : Program) (t : Option Call)
    (h : ∀ c ∈ p.callables, cm (F c) ≤ cm c) :
    measure ⟨p.callables.map F, t⟩ ≤ measure p := by
  rw [measure_eq, measure_eq]
  simp only [List.map_map]
  exact sum_map_le _ _ _ h

theorem measure_map_lt (F : Callable → Callable) (p : Program) (t : Option Call)
    (h : ∀ c ∈ p.callables, cm (F c) ≤ cm c) (a : Callable) (ha : a ∈ p.callables)
    (hlt : cm (F a) < cm a) :
    measure ⟨p.callables.map F, t⟩ < measure p := by
  rw [measure_eq, measure_eq]
  simp only [List.map_map]
  exact sum_map_lt _ _ _ h a ha hlt

theorem foldl_inv {α β : Type} (I : β → Prop) (f : β → α → β) (l : List α) (init : β)
    (hstep : ∀ acc a, a ∈ l → I acc → I (f acc a)) (h0 : I init) : I (l.foldl f init) := by
  induction l generalizing init with
  | nil => exact h0
  | cons a l ih =>
    simp only [List.foldl_cons]
    exact ih _ (fun acc b hb hI => hstep acc b (List.mem_cons_of_mem _ hb) hI)
      (hstep init a List.mem_cons_self h0)

/-! ### shape (names and kinds) of a program -/

def shape (p : Program) : List (String × Bool) := p.callables.map (fun c => (c.name, c.isPipe))

theorem shape_map (F : Callable → Callable) (p : Program) (t : Option Call)
    (h : ∀ c, (F c).name = c.name ∧ (F c).isPipe = c.isPipe) :
    shape ⟨p.callables.map F, t⟩ = shape p := by
  unfold shape
  simp only [List.map_map]
  apply List.map_congr_left
  intro c _
  simp only [Function.comp, (h c).1, (h c).2]

theorem find?_shape (p : Program) (n : String) :
    (p.find? n).map (fun c => (c.name, c.isPipe)) = (shape p).find? (fun e => e.1 == n) := by
  unfold Program.find? shape
  rw [List.find?_map]
  rfl

/-- `p0` and `p` agree on which names denote pipelines (as far as needed) -/
def Agree (p0 p : Program) : Prop :=
  ∀ n d d', p0.find? n = some d → p.find? n = some d' → d.isPipe = true → d'.isPipe = true

theorem Agree_refl (p : Program) : Agree p p := by
  intro n d d' h1 h2 h3
  rw [h1] at h2
  cases h2
  exact h3

theorem Agree_of_shape {p0 p p' : Program} (h : Agree p0 p) (hs : shape p' = shape p) : Agree p0 p' := by
  intro n d d' h1 h2 h3
  have e1 := find?_shape p' n
  have e2 := find?_shape p n
  rw [hs, ← e2, h2] at e1
  cases hp : p.find? n with
  | none => rw [hp] at e1; cases e1
  | some d'' =>
    rw [hp] at e1
    simp only [Option.map_some, Option.some.injEq, Prod.mk.injEq] at e1
    rw [e1.2]
    exact h n d d'' h1 hp h3

/-! ### removing inputs -/

theorem removeFirstStr_length_le (q : String) (l : List String) :
    (removeFirstStr q l).length ≤ l.length := by
  induction l with
  | nil => exact Nat.le_refl _
  | cons a l ih =>
    simp only [removeFirstStr]
    split
    · simp only [List.length_cons]; omega
    · simp only [List.length_cons]; omega

theorem removeFirstStr_length_lt (q : String) (l : List String) (h : q ∈ l) :
    (removeFirstStr q l).length < l.length := by
  induction l with
  | nil => cases h
  | cons a l ih =>
    simp only [removeFirstStr]
    split
    · simp only [List.length_cons]; omega
    · rename_i hne
      rcases List.mem_cons.mp h with rfl | h'
      · exact absurd rfl hne
      · have := ih h'
        simp only [List.length_cons]; omega

/-- the per-callable function of `removeInputOne` -/
def inOne (x q : String) (c : Callable) : Callable :=
  let c := if c.name = x then { c with ins := removeFirstStr q c.ins } else c
  if c.isPipe then
    { c with calls := c.calls.map fun k =>
        if k.decId = x then { k with binds := removeFirstBind q k.binds } else k }
  else c

theorem removeInputOne_eq (x q : String) (p : Program) :
    removeInputOne x q p = ⟨p.callables.map (inOne x q), (removeInputOne x q p).top⟩ := rfl

theorem inOne_shape (x q : String) (c : Callable) :
    (inOne x q c).name = c.name ∧ (inOne x q c).isPipe = c.isPipe := by
  unfold inOne
  by_cases hx : c.name = x <;> by_cases hp : c.isPipe = true <;> simp [hx, hp]

theorem inOne_cm_le (x q : String) (c : Callable) : cm (inOne x q c) ≤ cm c := by
  have := removeFirstStr_length_le q c.ins
  unfold inOne cm
  by_cases hx : c.name = x <;> by_cases hp : c.isPipe = true <;> simp [hx, hp] <;> omega

theorem inOne_cm_lt (x q : String) (c : Callable) (hx : c.name = x) (hq : q ∈ c.ins) :
    cm (inOne x q c) < cm c := by
  have := removeFirstStr_length_lt q c.ins hq
  unfold inOne cm
  by_cases hp : c.isPipe = true <;> simp [hx, hp] <;> omega

theorem removeInputOne_le (x q : String) (p : Program) : measure (removeInputOne x q p) ≤ measure p := by
  rw [removeInputOne_eq]
  exact measure_map_le _ _ _ (fun c _ => inOne_cm_le x q c)

theorem removeInputOne_lt (x q : String) (p : Program) (c : Callable) (hc : c ∈ p.callables)
    (hx : c.name = x) (hq : q ∈ c.ins) : measure (removeInputOne x q p) < measure p := by
  rw [removeInputOne_eq]
  exact measure_map_lt _ _ _ (fun c _ => inOne_cm_le x q c) c hc (inOne_cm_lt x q c hx hq)

theorem removeInputOne_shape (x q : String) (p : Program) : shape (removeInputOne x q p) = shape p := by
  rw [removeInputOne_eq]
  exact shape_map _ _ _ (inOne_shape x q)

theorem removeInputs_le (pairs : List (String × String)) (p : Program) :
    measure (removeInputs pairs p) ≤ measure p := by
  unfold removeInputs
  induction pairs generalizing p with
  | nil => exact Nat.le_refl _
  | cons a l ih =>
    simp only [List.foldl_cons]
    exact Nat.le_trans (ih _) (removeInputOne_le _ _ _)

theorem removeInputs_shape (pairs : List (String × String)) (p : Program) :
    shape (removeInputs pairs p) = shape p := by
  unfold removeInputs
  induction pairs generalizing p with
  | nil => rfl
  | cons a l ih =>
    simp only [List.foldl_cons]
    rw [ih, removeInputOne_shape]

theorem removeInputs_nil (p : Program) : removeInputs [] p = p := rfl

theorem removeInputs_lt (x q : String) (rest : List (String × String)) (p : Program) (c : Callable)
    (hc : c ∈ p.callables) (hx : c.name = x) (hq : q ∈ c.ins) :
    measure (removeInputs ((x, q) :: rest) p) < measure p := by
  have h1 : removeInputs ((x, q) :: rest) p = removeInputs rest (removeInputOne x q p) := rfl
  rw [h1]
  exact Nat.lt_of_le_of_lt (removeInputs_le _ _) (removeInputOne_lt x q p c hc hx hq)

/-! ### the closure keeps what is already done, and starts with the first seed -/

theorem closure_prefix (p : Program) (fuel : Nat) (work done : List (String × String)) :
    ∃ rest, removeInputClosure p fuel work done = done ++ rest := by
  induction fuel generalizing work done with
  | zero => exact ⟨[], by simp [removeInputClosure]⟩
  | succ fuel ih =>
    cases work with
    | nil => exact ⟨[], by simp [removeInputClosure]⟩
    | cons w ws =>
      obtain ⟨x, q⟩ := w
      simp only [removeInputClosure]
      split
      · exact ih _ _
      · obtain ⟨rest, hr⟩ := ih
          ((List.flatMap (fun pipe => List.map (fun i => (pipe.name, i)) (leftoverInputs p x q pipe))
            (List.filter (fun x => x.isPipe) p.callables)) ++ ws) (done ++ [(x, q)])
        exact ⟨(x, q) :: rest, by rw [hr]; simp⟩

theorem closure_nil (p : Program) (fuel : Nat) (done : List (String × String)) :
    removeInputClosure p fuel [] done = done := by
  cases fuel <;> simp [removeInputClosure]

theorem closure_head (p : Program) (fuel : Nat) (w : String × String) (ws : List (String × String)) :
    ∃ rest, removeInputClosure p (fuel + 1) (w :: ws) [] = w :: rest := by
  obtain ⟨x, q⟩ := w
  simp only [removeInputClosure]
  have : ([] : List (String × String)).contains (x, q) = false := rfl
  simp only [this]
  obtain ⟨rest, hr⟩ := closure_prefix p fuel
    ((List.flatMap (fun pipe => List.map (fun i => (pipe.name, i)) (leftoverInputs p x q pipe))
      (List.filter (fun x => x.isPipe) p.callables)) ++ ws) ([] ++ [(x, q)])
  exact ⟨rest, by simpa using hr⟩

theorem closureFuel_pos (p : Program) (n : Nat) : ∃ k, closureFuel p * (n + 1) = k + 1 := by
  have h : 0 < closureFuel p * (n + 1) := by
    apply Nat.mul_pos
    · unfold closureFuel; omega
    · omega
  exact ⟨closureFuel p * (n + 1) - 1, by omega⟩

/-! ### the call-removal pass -/

theorem removeCallById_length (id : String) (cs : List Call) (h : ∃ c ∈ cs, c.id = id) :
    (removeCallById id cs).length < cs.length := by
  induction cs with
  | nil => obtain ⟨c, hc, _⟩ := h; cases hc
  | cons c cs ih =>
    simp only [removeCallById]
    split
    · simp only [List.length_cons]; omega
    · rename_i hne
      obtain ⟨c', hc', hid⟩ := h
      rcases List.mem_cons.mp hc' with rfl | hc''
      · exact absurd hid hne
      · have := ih ⟨c', hc'', hid⟩
        simp only [List.length_cons]; omega

/-- the per-callable function of `applyCallRemovals` -/
def dropCalls (rem : List CallRemoval) (c : Callable) : Callable :=
  match rem.find? (fun r => r.pipe == c.name) with
  | some r => if c.isPipe then { c with calls := r.ids.foldl (fun cs id => removeCallById id cs) c.calls } else c
  | none => c

theorem applyCallRemovals_eq (rem : List CallRemoval) (p : Program) :
    applyCallRemovals rem p = ⟨p.callables.map (dropCalls rem), p.top⟩ := rfl

theorem dropCalls_shape (rem : List CallRemoval) (c : Callable) :
    (dropCalls rem c).name = c.name ∧ (dropCalls rem c).isPipe = c.isPipe := by
  unfold dropCalls
  split
  · split <;> exact ⟨rfl, rfl⟩
  · exact ⟨rfl, rfl⟩

theorem dropCalls_cm_le (rem : List CallRemoval) (c : Callable) : cm (dropCalls rem c) ≤ cm c := by
  unfold dropCalls
  split
  · split
    · rename_i r _ _
      have := (foldl_removeCallById_sublist r.ids c.calls).length_le
      unfold cm
      simp only
      omega
    · exact Nat.le_refl _
  · exact Nat.le_refl _

theorem mem_unusedCalls (p : Program) (pipe : Callable) (id : String) (h : id ∈ unusedCalls p pipe) :
    ∃ c ∈ pipe.calls, c.id = id := by
  unfold unusedCalls at h
  simp only [List.mem_map, List.mem_filter] at h
  obtain ⟨c, ⟨⟨hc, _⟩, _⟩, rfl⟩ := h
  exact ⟨c, hc, rfl⟩

theorem applyCallRemovals_le (rem : List CallRemoval) (p : Program) :
    measure (applyCallRemovals rem p) ≤ measure p := by
  rw [applyCallRemovals_eq]
  exact measure_map_le _ _ _ (fun c _ => dropCalls_cm_le rem c)

theorem applyCallRemovals_shape (rem : List CallRemoval) (p : Program) :
    shape (applyCallRemovals rem p) = shape p := by
  rw [applyCallRemovals_eq]
  exact shape_map _ _ _ (dropCalls_shape rem)

theorem applyCallRemovals_lt (p : Program) (h : (unusedCallPlan p).1 ≠ []) :
    measure (applyCallRemovals (unusedCallPlan p).1 p) < measure p := by
  have hrem : (unusedCallPlan p).1 =
      ((p.callables.filter (·.isPipe)).map fun pipe => (⟨pipe.name, unusedCalls p pipe⟩ : CallRemoval)).filter
        (fun r => !r.ids.isEmpty) := rfl
  generalize (unusedCallPlan p).1 = rem at *
  cases rem with
  | nil => exact absurd rfl h
  | cons r0 rs =>
    have hr0 : r0 ∈ ((p.callables.filter (·.isPipe)).map fun pipe => (⟨pipe.name, unusedCalls p pipe⟩ : CallRemoval)).filter
        (fun r => !r.ids.isEmpty) := by rw [← hrem]; exact List.mem_cons_self
    simp only [List.mem_filter, List.mem_map] at hr0
    obtain ⟨⟨pipe0, ⟨hmem, hpipe⟩, rfl⟩, hne⟩ := hr0
    rw [applyCallRemovals_eq]
    apply measure_map_lt _ _ _ (fun c _ => dropCalls_cm_le _ c) pipe0 hmem
    unfold dropCalls
    have hfind : List.find? (fun r => r.pipe == pipe0.name)
        (({ pipe := pipe0.name, ids := unusedCalls p pipe0 } : CallRemoval) :: rs)
        = some { pipe := pipe0.name, ids := unusedCalls p pipe0 } := by
      apply List.find?_cons_of_pos
      simp
    rw [hfind]
    simp only [hpipe, if_true]
    cases hids : unusedCalls p pipe0 with
    | nil => rw [hids] at hne; simp at hne
    | cons i is =>
      have hi : i ∈ unusedCalls p pipe0 := by rw [hids]; exact List.mem_cons_self
      have h1 := removeCallById_length i pipe0.calls (mem_unusedCalls p pipe0 i hi)
      have h2 := (foldl_removeCallById_sublist is (removeCallById i pipe0.calls)).length_le
      unfold cm
      simp only [List.foldl_cons]
      omega

theorem callsPass_true (p : Program) (h : (removeUnusedCallsPass p).2 = true) :
    measure (removeUnusedCallsPass p).1 < measure p := by
  unfold removeUnusedCallsPass at *
  cases hr : (unusedCallPlan p).1 with
  | nil =>
    have : (unusedCallPlan p) = ([], (unusedCallPlan p).2) := by rw [← hr]
    rw [this] at h
    simp at h
  | cons r rs =>
    have hne : (unusedCallPlan p).1 ≠ [] := by rw [hr]; simp
    have hlt := applyCallRemovals_lt p hne
    have : (unusedCallPlan p) = (r :: rs, (unusedCallPlan p).2) := by rw [← hr]
    rw [this]
    simp only [List.isEmpty_cons, Bool.false_eq_true, if_false]
    rw [← hr]
    exact Nat.lt_of_le_of_lt (removeInputs_le _ _) hlt

theorem callsPass_false (p : Program) (h : (removeUnusedCallsPass p).2 = false) :
    (removeUnusedCallsPass p).1 = p := by
  unfold removeUnusedCallsPass at *
  cases hr : (unusedCallPlan p).1 with
  | nil =>
    have : (unusedCallPlan p) = ([], (unusedCallPlan p).2) := by rw [← hr]
    rw [this]
    simp
  | cons r rs =>
    have : (unusedCallPlan p) = (r :: rs, (unusedCallPlan p).2) := by rw [← hr]
    rw [this] at h
    simp at h

theorem callsPass_shape (p : Program) : shape (removeUnusedCallsPass p).1 = shape p := by
  unfold removeUnusedCallsPass
  cases hr : (unusedCallPlan p).1 with
  | nil =>
    have : (unusedCallPlan p) = ([], (unusedCallPlan p).2) := by rw [← hr]
    rw [this]
    simp
  | cons r rs =>
    have : (unusedCallPlan p) = (r :: rs, (unusedCallPlan p).2) := by rw [← hr]
    rw [this]
    simp only [List.isEmpty_cons, Bool.false_eq_true, if_false]
    rw [removeInputs_shape, applyCallRemovals_shape]

/-! ### the table of unused outputs -/

def EntryOK (p : Program) (tops : List String) (e : String × List String) : Prop :=
  ∃ pipe, p.find? e.1 = some pipe ∧ (tops.contains e.1 = true ∨ pipe.isPipe = true) ∧
    ∀ o ∈ e.2, o ∈ pipe.outs.map (·.1)

def TableOK (p : Program) (tops : List String) (t : List (String × List String)) : Prop :=
  (t.map (·.1)).Nodup ∧ ∀ e ∈ t, EntryOK p tops e

theorem TableOK_nil (p : Program) (tops : List String) : TableOK p tops [] :=
  ⟨List.nodup_nil, fun _ h => by cases h⟩

theorem TableOK_filter {p : Program} {tops : List String} {t : List (String × List String)}
    (q : String × List String → Bool) (h : TableOK p tops t) : TableOK p tops (t.filter q) :=
  ⟨List.Nodup.sublist (List.Sublist.map _ List.filter_sublist) h.1,
   fun e he => h.2 e (List.mem_filter.mp he).1⟩

theorem TableOK_map {p : Program} {tops : List String} {t : List (String × List String)}
    (g : String × List String → String × List String)
    (hg : ∀ e, (g e).1 = e.1 ∧ ∀ o ∈ (g e).2, o ∈ e.2) (h : TableOK p tops t) :
    TableOK p tops (t.map g) := by
  constructor
  · have : (t.map g).map (·.1) = t.map (·.1) := by
      rw [List.map_map]
      apply List.map_congr_left
      intro e _
      exact (hg e).1
    rw [this]
    exact h.1
  · intro e he
    obtain ⟨e', he', rfl⟩ := List.mem_map.mp he
    obtain ⟨pipe, h1, h2, h3⟩ := h.2 e' he'
    refine ⟨pipe, ?_, ?_, ?_⟩
    · rw [(hg e').1]; exact h1
    · rw [(hg e').1]; exact h2
    · intro o ho
      exact h3 o ((hg e').2 o ho)

theorem TableOK_snoc {p : Program} {tops : List String} {t : List (String × List String)}
    (name : String) (os : List String) (h : TableOK p tops t)
    (hn : t.any (fun e => e.1 == name) = false) (he : EntryOK p tops (name, os)) :
    TableOK p tops (t ++ [(name, os)]) := by
  constructor
  · rw [List.map_append, List.nodup_append]
    refine ⟨h.1, by simp, ?_⟩
    intro a ha b hb
    simp only [List.map_cons, List.map_nil, List.mem_singleton] at hb
    subst hb
    intro hab
    subst hab
    obtain ⟨e, hemem, rfl⟩ := List.mem_map.mp ha
    have : t.any (fun e' => e'.1 == e.1) = true := List.any_eq_true.mpr ⟨e, hemem, by simp⟩
    rw [this] at hn
    cases hn
  · intro e hmem
    rcases List.mem_append.mp hmem with h1 | h1
    · exact h.2 e h1
    · simp only [List.mem_singleton] at h1
      subst h1
      exact he

def NameOK (p0 : Program) (tops : List String) (name : String) : Prop :=
  tops.contains name = true ∨ ∃ d, p0.find? name = some d ∧ d.isPipe = true

theorem mem_outSet (c : Callable) (o : String) (h : o ∈ outSet c) : o ∈ c.outs.map (·.1) := by
  unfold outSet at h
  obtain ⟨x, hx, rfl⟩ := List.mem_map.mp h
  exact List.mem_map.mpr ⟨x, (List.mem_filter.mp hx).1, rfl⟩

theorem find?_name (p : Program) (n : String) (c : Callable) (h : p.find? n = some c) :
    c ∈ p.callables ∧ c.name = n := by
  unfold Program.find? at h
  refine ⟨List.mem_of_find?_eq_some h, ?_⟩
  have := List.find?_some h
  simpa using this

theorem populate_ok {p0 p : Program} {tops : List String} (hag : Agree p0 p) :
    ∀ (fuel : Nat) (name : String) (acc : List (String × List String)),
      NameOK p0 tops name → TableOK p tops acc → TableOK p tops (populate p0 p fuel name acc) := by
  intro fuel
  induction fuel with
  | zero => intro name acc _ hacc; simpa [populate] using hacc
  | succ fuel ih =>
    intro name acc hname hacc
    simp only [populate]
    split
    · rename_i pipe0 pipe h0 h1
      apply foldl_inv (TableOK p tops)
      · intro acc' d hd hI
        apply ih
        · right
          obtain ⟨k, _, hk⟩ := List.mem_filterMap.mp hd
          split at hk
          · rename_i d' hd'
            split at hk
            · rename_i hpipe
              simp only [Option.some.injEq] at hk
              subst hk
              have hn := (find?_name p0 _ _ hd').2
              exact ⟨d', by rw [hn]; exact hd', hpipe⟩
            · cases hk
          · cases hk
        · split
          · rename_i hc
            simp only [Bool.and_eq_true, Bool.not_eq_true'] at hc
            apply TableOK_snoc _ _ hI hc.2
            refine ⟨pipe, h1, ?_, fun o ho => mem_outSet pipe o ho⟩
            rcases hname with ht | ⟨d, hd0, hdp⟩
            · exact Or.inl ht
            · exact Or.inr (hag name d pipe hd0 h1 hdp)
          · exact hI
      · exact hacc
    · exact hacc

theorem useRef_ok {p : Program} {tops : List String} (pipe : Callable)
    (acc : List String × List (String × List String)) (r : Ref) (h : TableOK p tops acc.2) :
    TableOK p tops (useRef p pipe acc r).2 := by
  unfold useRef
  split
  · exact h
  · split
    · exact h
    · simp only
      split
      · exact TableOK_filter _ h
      · apply TableOK_filter
        apply TableOK_map _ _ h
        intro e
        split
        · exact ⟨rfl, fun o ho => (List.mem_filter.mp ho).1⟩
        · exact ⟨rfl, fun o ho => ho⟩

theorem usedOutsLoop_ok {p : Program} {tops : List String} :
    ∀ (fuel : Nat) (used : List String) (outs : List (String × List String)),
      TableOK p tops outs → TableOK p tops (usedOutsLoop p fuel used outs) := by
  intro fuel
  induction fuel with
  | zero => intro used outs h; simpa [usedOutsLoop] using h
  | succ fuel ih =>
    intro used outs h
    simp only [usedOutsLoop]
    split
    · exact h
    · apply ih
      apply foldl_inv (fun acc : List String × List (String × List String) => TableOK p tops acc.2)
      · intro acc name _ hI
        split
        · apply foldl_inv (fun acc : List String × List (String × List String) => TableOK p tops acc.2)
          · intro acc' r _ hI'
            exact useRef_ok _ acc' r hI'
          · exact hI
        · exact hI
      · exact h

theorem unusedOutputs_ok {p0 p : Program} (tops : List String) (hag : Agree p0 p) :
    TableOK p [] (unusedOutputs p0 p tops) := by
  unfold unusedOutputs
  apply usedOutsLoop_ok
  have h1 : TableOK p tops
      ((p.callables.filter (fun c => c.isPipe && tops.contains c.name)).foldl
        (fun acc t => populate p0 p (p.callables.length + 1) t.name acc) []) := by
    apply foldl_inv (TableOK p tops)
    · intro acc t ht hI
      apply populate_ok hag _ _ _ _ hI
      left
      have := (List.mem_filter.mp ht).2
      simp only [Bool.and_eq_true] at this
      exact this.2
    · exact TableOK_nil p tops
  have h2 := TableOK_filter (fun e => !tops.contains e.1) h1
  refine ⟨h2.1, ?_⟩
  intro e he
  obtain ⟨pipe, a, b, c⟩ := h2.2 e he
  have hnt := (List.mem_filter.mp he).2
  refine ⟨pipe, a, ?_, c⟩
  right
  rcases b with b | b
  · rw [b] at hnt; cases hnt
  · exact b

/-! ### the output-removal pass -/

theorem removeFirstOut_length_le (o : String) (l : List (String × Bool)) :
    (removeFirstOut o l).length ≤ l.length := by
  induction l with
  | nil => exact Nat.le_refl _
  | cons a l ih =>
    simp only [removeFirstOut]
    split
    · simp only [List.length_cons]; omega
    · simp only [List.length_cons]; omega

theorem removeFirstOut_length_lt (o : String) (l : List (String × Bool)) (h : o ∈ l.map (·.1)) :
    (removeFirstOut o l).length < l.length := by
  induction l with
  | nil => cases h
  | cons a l ih =>
    simp only [removeFirstOut]
    split
    · simp only [List.length_cons]; omega
    · rename_i hne
      simp only [List.map_cons, List.mem_cons] at h
      rcases h with rfl | h'
      · exact absurd rfl hne
      · have := ih h'
        simp only [List.length_cons]; omega

theorem removeOutsOf_cons (o : String) (os : List String) (c : Callable) :
    removeOutsOf (o :: os) c
      = removeOutsOf os { c with outs := removeFirstOut o c.outs, ret := removeFirstBind o c.ret } := rfl

theorem removeOutsOf_props (os : List String) (c : Callable) :
    (removeOutsOf os c).name = c.name ∧ (removeOutsOf os c).isPipe = c.isPipe ∧
    (removeOutsOf os c).calls = c.calls ∧ (removeOutsOf os c).ins = c.ins ∧
    (removeOutsOf os c).outs.length ≤ c.outs.length := by
  induction os generalizing c with
  | nil => exact ⟨rfl, rfl, rfl, rfl, Nat.le_refl _⟩
  | cons o os ih =>
    rw [removeOutsOf_cons]
    obtain ⟨h1, h2, h3, h4, h5⟩ := ih { c with outs := removeFirstOut o c.outs, ret := removeFirstBind o c.ret }
    refine ⟨h1, h2, h3, h4, ?_⟩
    have := removeFirstOut_length_le o c.outs
    simp only at h5
    omega

/-- the per-callable function of `removeUnusedOutputsPass` -/
def dropOuts (unused : List (String × List String)) (c : Callable) : Callable :=
  match unused.find? (fun e => e.1 == c.name) with
  | some e => if c.isPipe then removeOutsOf e.2 c else c
  | none => c

def outSeeds (p0 : Program) (tops : List String) (p : Program) : List (String × String) :=
  (unusedOutputs p0 p tops).flatMap fun e =>
    match p.find? e.1 with
    | some pipe => (unboundInputs p pipe e.2 []).map (fun i => (pipe.name, i))
    | none => []

def outIns (p0 : Program) (tops : List String) (p : Program) : List (String × String) :=
  removeInputClosure p (closureFuel p * ((outSeeds p0 tops p).length + 1)) (outSeeds p0 tops p) []

theorem outsPass_eq (p0 : Program) (tops : List String) (p : Program) :
    removeUnusedOutputsPass p0 tops p =
      if (unusedOutputs p0 p tops).isEmpty then (p, false)
      else (removeInputs (outIns p0 tops p) ⟨p.callables.map (dropOuts (unusedOutputs p0 p tops)), p.top⟩,
            (unusedOutputs p0 p tops).any (fun e => !e.2.isEmpty) || !(outIns p0 tops p).isEmpty) := rfl

theorem dropOuts_shape (unused : List (String × List String)) (c : Callable) :
    (dropOuts unused c).name = c.name ∧ (dropOuts unused c).isPipe = c.isPipe := by
  unfold dropOuts
  split
  · split
    · rename_i e _ _
      exact ⟨(removeOutsOf_props e.2 c).1, (removeOutsOf_props e.2 c).2.1⟩
    · exact ⟨rfl, rfl⟩
  · exact ⟨rfl, rfl⟩

theorem dropOuts_ins (unused : List (String × List String)) (c : Callable) :
    (dropOuts unused c).ins = c.ins := by
  unfold dropOuts
  split
  · split
    · rename_i e _ _
      exact (removeOutsOf_props e.2 c).2.2.2.1
    · rfl
  · rfl

theorem dropOuts_cm_le (unused : List (String × List String)) (c : Callable) :
    cm (dropOuts unused c) ≤ cm c := by
  unfold dropOuts
  split
  · split
    · rename_i e _ _
      obtain ⟨_, _, h3, h4, h5⟩ := removeOutsOf_props e.2 c
      unfold cm
      rw [h3, h4]
      omega
    · exact Nat.le_refl _
  · exact Nat.le_refl _

theorem find?_of_nodup (t : List (String × List String)) (hn : (t.map (·.1)).Nodup)
    (e : String × List String) (he : e ∈ t) : t.find? (fun e' => e'.1 == e.1) = some e := by
  induction t with
  | nil => cases he
  | cons a t ih =>
    simp only [List.map_cons, List.nodup_cons] at hn
    rcases List.mem_cons.mp he with rfl | he'
    · exact List.find?_cons_of_pos (by simp)
    · have hne : ¬ ((a.1 == e.1) = true) := by
        intro h
        have : a.1 = e.1 := by simpa using h
        exact hn.1 (this ▸ List.mem_map.mpr ⟨e, he', rfl⟩)
      rw [List.find?_cons_of_neg (p := fun e' : String × List String => e'.1 == e.1) hne]
      exact ih hn.2 he'

theorem mem_unboundInputs (p : Program) (pipe : Callable) (a b : List String) (i : String)
    (h : i ∈ unboundInputs p pipe a b) : i ∈ pipe.ins := by
  unfold unboundInputs at h
  exact (List.mem_filter.mp h).1

theorem outsPass_shape (p0 : Program) (tops : List String) (p : Program) :
    shape (removeUnusedOutputsPass p0 tops p).1 = shape p := by
  rw [outsPass_eq]
  split
  · rfl
  · simp only
    rw [removeInputs_shape]
    exact shape_map _ _ _ (dropOuts_shape _)

theorem outsPass_le (p0 : Program) (tops : List String) (p : Program) :
    measure (removeUnusedOutputsPass p0 tops p).1 ≤ measure p := by
  rw [outsPass_eq]
  split
  · exact Nat.le_refl _
  · simp only
    exact Nat.le_trans (removeInputs_le _ _) (measure_map_le _ _ _ (fun c _ => dropOuts_cm_le _ c))

theorem outsPass_false (p0 : Program) (tops : List String) (p : Program)
    (h : (removeUnusedOutputsPass p0 tops p).2 = false) : (removeUnusedOutputsPass p0 tops p).1 = p := by
  rw [outsPass_eq] at h ⊢
  split
  · rfl
  · rename_i hne
    simp only [hne, Bool.false_eq_true, if_false, Bool.or_eq_false_iff, Bool.not_eq_false'] at h
    obtain ⟨hany, hins⟩ := h
    have hins' : outIns p0 tops p = [] := List.isEmpty_iff.mp hins
    simp only [hins', removeInputs_nil]
    have hid : ∀ c ∈ p.callables, dropOuts (unusedOutputs p0 p tops) c = c := by
      intro c _
      unfold dropOuts
      split
      · rename_i e hfind
        split
        · have hmem := List.mem_of_find?_eq_some hfind
          have : (!e.2.isEmpty) = false := by
            cases hb : (!e.2.isEmpty) with
            | false => rfl
            | true =>
              have : (unusedOutputs p0 p tops).any (fun e => !e.2.isEmpty) = true :=
                List.any_eq_true.mpr ⟨e, hmem, hb⟩
              rw [this] at hany
              cases hany
          have he : e.2 = [] := by
            simp only [Bool.not_eq_false'] at this
            exact List.isEmpty_iff.mp this
          rw [he]
          rfl
        · rfl
      · rfl
    have : p.callables.map (dropOuts (unusedOutputs p0 p tops)) = p.callables := by
      have := List.map_congr_left hid
      rw [this]
      exact List.map_id' _
    rw [this]

theorem outsPass_true (p0 : Program) (tops : List String) (p : Program) (hag : Agree p0 p)
    (h : (removeUnusedOutputsPass p0 tops p).2 = true) :
    measure (removeUnusedOutputsPass p0 tops p).1 < measure p := by
  rw [outsPass_eq] at h ⊢
  split
  · rename_i he
    simp [he] at h
  · rename_i hne
    simp only [hne, Bool.false_eq_true, if_false] at h
    simp only
    have hle : measure ⟨p.callables.map (dropOuts (unusedOutputs p0 p tops)), p.top⟩ ≤ measure p :=
      measure_map_le _ _ _ (fun c _ => dropOuts_cm_le _ c)
    cases hins : outIns p0 tops p with
    | cons w rest =>
      -- the cascade is non-empty: its first pair is the first seed
      cases hseeds : outSeeds p0 tops p with
      | nil =>
        unfold outIns at hins
        rw [hseeds, closure_nil] at hins
        cases hins
      | cons s ss =>
        obtain ⟨k, hk⟩ := closureFuel_pos p (outSeeds p0 tops p).length
        obtain ⟨rest', hr⟩ := closure_head p k s ss
        have hins2 : outIns p0 tops p = s :: rest' := by
          unfold outIns
          rw [hk, hseeds]
          exact hr
        have hs : s ∈ outSeeds p0 tops p := by rw [hseeds]; exact List.mem_cons_self
        unfold outSeeds at hs
        obtain ⟨e, _, hse⟩ := List.mem_flatMap.mp hs
        split at hse
        · rename_i pipe hfind
          obtain ⟨i, hi, rfl⟩ := List.mem_map.mp hse
          have hi' := mem_unboundInputs _ _ _ _ _ hi
          have hpm := (find?_name p _ _ hfind).1
          rw [← hins, hins2]
          have hlt := removeInputs_lt pipe.name i rest'
            ⟨p.callables.map (dropOuts (unusedOutputs p0 p tops)), p.top⟩
            (dropOuts (unusedOutputs p0 p tops) pipe)
            (List.mem_map.mpr ⟨pipe, hpm, rfl⟩)
            (dropOuts_shape _ pipe).1
            (by rw [dropOuts_ins]; exact hi')
          exact Nat.lt_of_lt_of_le hlt hle
        · cases hse
    | nil =>
      rw [hins] at h
      simp only [List.isEmpty_nil, Bool.not_true, Bool.or_false] at h
      obtain ⟨e, hemem, hene⟩ := List.any_eq_true.mp h
      have htab := unusedOutputs_ok tops hag
      obtain ⟨pipe, hfind, hpipe, hsub⟩ := htab.2 e hemem
      have hpipe' : pipe.isPipe = true := by
        rcases hpipe with hp | hp
        · cases hp
        · exact hp
      obtain ⟨hpm, hpn⟩ := find?_name p _ _ hfind
      have hf := find?_of_nodup _ htab.1 e hemem
      rw [removeInputs_nil]
      apply measure_map_lt _ _ _ (fun c _ => dropOuts_cm_le _ c) pipe hpm
      unfold dropOuts
      rw [hpn, hf]
      simp only [hpipe', if_true]
      cases he2 : e.2 with
      | nil => rw [he2] at hene; cases hene
      | cons o os =>
        rw [removeOutsOf_cons]
        obtain ⟨_, _, h3, h4, h5⟩ := removeOutsOf_props os
          { pipe with outs := removeFirstOut o pipe.outs, ret := removeFirstBind o pipe.ret }
        have ho : o ∈ pipe.outs.map (·.1) := hsub o (by rw [he2]; exact List.mem_cons_self)
        have := removeFirstOut_length_lt o pipe.outs ho
        unfold cm
        rw [h3, h4]
        simp only at h5 ⊢
        omega

/-! ### one step of the loop -/

/-- what a pass `q ↦ r` guarantees -/
def Spec (q : Program) (r : Program × Bool) : Prop :=
  shape r.1 = shape q ∧ measure r.1 ≤ measure q ∧ (r.2 = true → measure r.1 < measure q) ∧
    (r.2 = false → r.1 = q)

theorem callsStage_spec (calls : Bool) (p : Program) :
    Spec p (if calls then removeUnusedCallsPass p else (p, false)) := by
  cases calls with
  | false => exact ⟨rfl, Nat.le_refl _, (fun h => by cases h), fun _ => rfl⟩
  | true =>
    simp only [if_true]
    refine ⟨callsPass_shape p, ?_, callsPass_true p, callsPass_false p⟩
    cases h : (removeUnusedCallsPass p).2 with
    | true => exact Nat.le_of_lt (callsPass_true p h)
    | false => rw [callsPass_false p h]; exact Nat.le_refl _

theorem outsStage_spec (p0 : Program) (tops : List String) (q : Program)
    (hag : tops.isEmpty = true ∨ Agree p0 q) :
    Spec q (if tops.isEmpty then (q, false) else removeUnusedOutputsPass p0 tops q) := by
  split
  · exact ⟨rfl, Nat.le_refl _, (fun h => by cases h), fun _ => rfl⟩
  · rename_i hne
    have hag' : Agree p0 q := hag.resolve_left hne
    exact ⟨outsPass_shape p0 tops q, outsPass_le p0 tops q, outsPass_true p0 tops q hag',
      outsPass_false p0 tops q⟩

theorem removeStep_eq (p0 : Program) (calls : Bool) (tops : List String) (p : Program) :
    removeStep p0 calls tops p =
      ((if tops.isEmpty then ((if calls then removeUnusedCallsPass p else (p, false)).1, false)
         else removeUnusedOutputsPass p0 tops (if calls then removeUnusedCallsPass p else (p, false)).1).1,
       (if calls then removeUnusedCallsPass p else (p, false)).2
        || (if tops.isEmpty then ((if calls then removeUnusedCallsPass p else (p, false)).1, false)
         else removeUnusedOutputsPass p0 tops (if calls then removeUnusedCallsPass p else (p, false)).1).2) := rfl

theorem removeStep_spec (p0 : Program) (calls : Bool) (tops : List String) (p : Program)
    (hag : tops.isEmpty = true ∨ Agree p0 p) : Spec p (removeStep p0 calls tops p) := by
  rw [removeStep_eq]
  have s1 := callsStage_spec calls p
  generalize (if calls then removeUnusedCallsPass p else (p, false)) = r1 at *
  have s2 := outsStage_spec p0 tops r1.1 (hag.imp id (fun h => Agree_of_shape h s1.1))
  generalize (if tops.isEmpty then (r1.1, false) else removeUnusedOutputsPass p0 tops r1.1) = r2 at *
  obtain ⟨a1, b1, c1, d1⟩ := s1
  obtain ⟨a2, b2, c2, d2⟩ := s2
  refine ⟨by rw [a2, a1], Nat.le_trans b2 b1, ?_, ?_⟩
  · intro h
    simp only [Bool.or_eq_true] at h
    rcases h with h | h
    · exact Nat.lt_of_le_of_lt b2 (c1 h)
    · exact Nat.lt_of_lt_of_le (c2 h) b1
  · intro h
    simp only [Bool.or_eq_false_iff] at h
    simp only
    rw [d2 h.2, d1 h.1]

theorem removeLoop_succ (p0 : Program) (calls : Bool) (tops : List String) (fuel : Nat) (p : Program) :
    removeLoop p0 calls tops (fuel + 1) p =
      if (removeStep p0 calls tops p).2 then removeLoop p0 calls tops fuel (removeStep p0 calls tops p).1
      else (removeStep p0 calls tops p).1 := rfl

theorem removeLoop_fix (p0 : Program) (calls : Bool) (tops : List String) :
    ∀ (fuel : Nat) (p : Program), (tops.isEmpty = true ∨ Agree p0 p) → measure p < fuel →
      (removeStep p0 calls tops (removeLoop p0 calls tops fuel p)).2 = false := by
  intro fuel
  induction fuel with
  | zero => intro p _ h; omega
  | succ fuel ih =>
    intro p hag hlt
    obtain ⟨hs, _, htrue, hfalse⟩ := removeStep_spec p0 calls tops p hag
    rw [removeLoop_succ]
    cases hch : (removeStep p0 calls tops p).2 with
    | true =>
      simp only [if_true]
      apply ih _ (hag.imp id (fun h => Agree_of_shape h hs))
      have := htrue hch
      omega
    | false =>
      simp only [Bool.false_eq_true, if_false]
      rw [hfalse hch]
      exact hch

/-- `fixpoint_terminates` as stated originally (for arbitrary, unrelated `p0` and `p`) is FALSE:
`p0` may say that a name is a pipeline while in `p` it is a stage; then the output pass reports a
change without editing anything (counterexample in `scratch/Cex.lean`).  The extra hypothesis
`hag` (no top pipelines given, or `p0` and `p` agree on which names are pipelines) is the weakest
one we found; `Agree p p` holds (`Agree_refl`), which is how `removeUnused` calls the loop. -/
theorem fixpoint_terminates (p0 p : Program) (calls : Bool) (tops : List String)
    (hag : tops.isEmpty = true ∨ Agree p0 p) :
    ((removeStep p0 calls tops p).2 = true → measure (removeStep p0 calls tops p).1 < measure p)
    ∧ (removeStep p0 calls tops (removeLoop p0 calls tops (measure p + 1) p)).2 = false :=
  ⟨(removeStep_spec p0 calls tops p hag).2.2.1,
   removeLoop_fix p0 calls tops (measure p + 1) p hag (Nat.lt_succ_self _)⟩

/-- the instance used by `removeUnused` (`p0 = p`): no extra hypothesis. -/
theorem fixpoint_terminates_self (p : Program) (calls : Bool) (tops : List String) :
    ((removeStep p calls tops p).2 = true → measure (removeStep p calls tops p).1 < measure p)
    ∧ (removeStep p calls tops (removeUnused calls tops p)).2 = false :=
  fixpoint_terminates p p calls tops (Or.inr (Agree_refl p))


end Proofs.Refactor
