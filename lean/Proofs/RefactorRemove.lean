import Martian.Refactor
namespace Proofs.Refactor
open Martian.Refactor

theorem remove_unused_preserves (p : Program) (pipe : Callable) (id : String)
    (hid : id ∈ unusedCalls p pipe) :
    id ∉ callRefIdsOf pipe
    ∧ ∀ rem c, c ∈ (applyCallRemovals rem p).callables →
        ∃ c0 ∈ p.callables, c.name = c0.name ∧ c.ret = c0.ret ∧ c.retain = c0.retain ∧
          c.outs = c0.outs ∧ c.ins = c0.ins ∧ List.Sublist c.calls c0.calls := by
  sorry

theorem remove_input_only (x q : String) (p : Program) (c : Callable)
    (hc : c ∈ (removeInputOne x q p).callables) :
    ∃ c0 ∈ p.callables, c.name = c0.name ∧ c.ret = c0.ret ∧ c.retain = c0.retain ∧ c.outs = c0.outs
      ∧ c.calls.map (fun k => (k.id, k.decId, k.mods, k.binds.filter (·.name != q)))
        = c0.calls.map (fun k => (k.id, k.decId, k.mods, k.binds.filter (·.name != q))) := by
  sorry

theorem fixpoint_terminates (p0 p : Program) (calls : Bool) (tops : List String) :
    ((removeStep p0 calls tops p).2 = true → measure (removeStep p0 calls tops p).1 < measure p)
    ∧ (removeStep p0 calls tops (removeLoop p0 calls tops (measure p + 1) p)).2 = false := by
  sorry

end Proofs.Refactor
