/-
LOCALITY of the byte-level JSON parser (Martian/JsonBytes.lean): the bytes a value was parsed from
denote that value on their own – followed by anything that may follow a value they are read as
the same tree.  This is what makes `json.RawMessage` slices meaningful: the slice
`encoding/json` hands out for a member re-parses to the member's tree.  Core Lean only.
-/
import Martian.JsonBytes
import Proofs.JsonBytes
namespace Martian.JsonBytes
open Martian.Json (J Num)
open Martian.Lexer (Bytes)

/-! ### white space -/

def allWs (w : Bytes) : Prop := ∀ c, c ∈ w → isWs c = true

theorem skipWs_split : ∀ b : Bytes, ∃ w, b = w ++ skipWs b ∧ allWs w
  | [] => ⟨[], rfl, by intro c hc; cases hc⟩
  | c :: r => by
    by_cases h : isWs c = true
    · obtain ⟨w, hw, ha⟩ := skipWs_split r
      refine ⟨c :: w, by simp only [skipWs, h, ↓reduceIte, List.cons_append]; rw [← hw], ?_⟩
      intro d hd
      rcases List.mem_cons.mp hd with rfl | hd
      · exact h
      · exact ha d hd
    · have h' : isWs c = false := by simpa using h
      exact ⟨[], by simp [skipWs, h'], by intro d hd; cases hd⟩

theorem skipWs_ws_append : ∀ (w t : Bytes), allWs w → skipWs (w ++ t) = skipWs t
  | [], _, _ => rfl
  | c :: w, t, h => by
    have hc : isWs c = true := h c (by simp)
    simp only [List.cons_append, skipWs, hc, ↓reduceIte]
    exact skipWs_ws_append w t (fun d hd => h d (by simp [hd]))

theorem skipWs_head_nonws : ∀ b c t, skipWs b = c :: t → isWs c = false
  | [], _, _, h => by simp [skipWs] at h
  | d :: r, c, t, h => by
    by_cases hd : isWs d = true
    · simp only [skipWs, hd, ↓reduceIte] at h
      exact skipWs_head_nonws r c t h
    · have hd' : isWs d = false := by simpa using hd
      simp only [skipWs, hd', Bool.false_eq_true, ↓reduceIte] at h
      injection h with h1 _; subst h1; exact hd'

theorem parseV_ws_append (f : Nat) (w t : Bytes) (h : allWs w) : parseV f (w ++ t) = parseV f t := by
  rw [← parseV_skipWs, skipWs_ws_append w t h, parseV_skipWs]

theorem delim_ws_append (w t : Bytes) (hw : allWs w) (ht : delim t = true ∨ ∃ c r, t = c :: r ∧ delim [c] = true) :
    delim (w ++ t) = true := by
  cases w with
  | nil =>
    rcases ht with ht | ⟨c, r, rfl, hc⟩
    · simpa using ht
    · simpa [delim] using hc
  | cons c w' =>
    have hc : isWs c = true := hw c (by simp)
    simp [delim, hc]

theorem consumed_append (x r : Bytes) : consumed (x ++ r) r = x := by
  simp [consumed]

/-! ### literals and strings -/

theorem stripPrefix_split : ∀ (p t r : Bytes), stripPrefix p t = some r → t = p ++ r
  | [], t, r, h => by simp [stripPrefix] at h; simp [h]
  | _ :: _, [], r, h => by simp [stripPrefix] at h
  | c :: ps, d :: t, r, h => by
    simp only [stripPrefix] at h
    split at h
    · rename_i hcd
      have := eq_of_beq hcd; subst this
      rw [stripPrefix_split ps t r h]; rfl
    · cases h

theorem strEndAux_local : ∀ (t : Bytes) (st : Bool) (body r : Bytes), strEndAux st t = some (body, r) →
    t = body ++ 0x22 :: r ∧ ∀ r', strEndAux st (body ++ 0x22 :: r') = some (body, r')
  | [], st, body, r, h => by cases st <;> simp [strEndAux] at h
  | c :: t, true, body, r, h => by
    simp only [strEndAux, Option.map_eq_some_iff] at h
    obtain ⟨⟨b', r''⟩, hb, heq⟩ := h
    simp only [Prod.mk.injEq] at heq
    obtain ⟨rfl, rfl⟩ := heq
    obtain ⟨h1, h2⟩ := strEndAux_local t false b' r'' hb
    refine ⟨by rw [h1]; rfl, ?_⟩
    intro r'
    simp [strEndAux, h2 r']
  | c :: t, false, body, r, h => by
    simp only [strEndAux] at h
    split at h
    · rename_i hq
      have := eq_of_beq hq; subst this
      simp only [Option.some.injEq, Prod.mk.injEq] at h
      obtain ⟨rfl, rfl⟩ := h
      exact ⟨rfl, by intro r'; simp [strEndAux]⟩
    · rename_i hq
      split at h
      · rename_i hb
        simp only [Option.map_eq_some_iff] at h
        obtain ⟨⟨b', r''⟩, hb', heq⟩ := h
        simp only [Prod.mk.injEq] at heq
        obtain ⟨rfl, rfl⟩ := heq
        obtain ⟨h1, h2⟩ := strEndAux_local t true b' r'' hb'
        refine ⟨by rw [h1]; rfl, ?_⟩
        intro r'
        simp [strEndAux, hq, hb, h2 r']
      · rename_i hb
        simp only [Option.map_eq_some_iff] at h
        obtain ⟨⟨b', r''⟩, hb', heq⟩ := h
        simp only [Prod.mk.injEq] at heq
        obtain ⟨rfl, rfl⟩ := heq
        obtain ⟨h1, h2⟩ := strEndAux_local t false b' r'' hb'
        refine ⟨by rw [h1]; rfl, ?_⟩
        intro r'
        simp [strEndAux, hq, hb, h2 r']

/-- a parsed string literal: its bytes are a string token for the same string -/
theorem parseStr_local (t s r : Bytes) (h : parseStr t = some (s, r)) :
    ∃ tok, t = tok ++ r ∧ StrTok tok s := by
  unfold parseStr at h
  split at h
  · rename_i t'
    cases he : strEnd t' with
    | none => simp [he] at h
    | some p =>
      obtain ⟨body, rest⟩ := p
      simp only [he, Option.map_eq_some_iff, Prod.mk.injEq] at h
      obtain ⟨s', hs, rfl, rfl⟩ := h
      obtain ⟨h1, h2⟩ := strEndAux_local t' false body rest he
      refine ⟨0x22 :: (body ++ [0x22]), by rw [h1]; simp, ?_⟩
      intro r'
      have := h2 r'
      simp only [parseStr, List.cons_append, List.append_assoc, List.singleton_append, List.nil_append, strEnd,
        this, hs, Option.map_some]
  · cases h


/-! ### numbers -/

/-- the head (if any) satisfies `P` -/
def headP (P : UInt8 → Bool) : Bytes → Bool
  | [] => true
  | c :: _ => P c

def notDigit (c : UInt8) : Bool := !isDigit c
def notDot (c : UInt8) : Bool := !(c == 0x2E)
def notExp (c : UInt8) : Bool := !(c == 0x65 || c == 0x45)

theorem headP_append (P : UInt8 → Bool) (x t : Bytes) (hx : x = [] → headP P t = true)
    (hx' : ∀ c r, x = c :: r → P c = true) : headP P (x ++ t) = true := by
  cases x with
  | nil => simpa using hx rfl
  | cons c r => simpa [headP] using hx' c r rfl

theorem spanDigits_spec : ∀ b : Bytes, b = (spanDigits b).1 ++ (spanDigits b).2 ∧
    (∀ c, c ∈ (spanDigits b).1 → isDigit c = true) ∧ headP notDigit (spanDigits b).2 = true
  | [] => ⟨rfl, (by intro c hc; cases hc), rfl⟩
  | c :: r => by
    obtain ⟨h1, h2, h3⟩ := spanDigits_spec r
    by_cases hc : isDigit c = true
    · simp only [spanDigits, hc, ↓reduceIte]
      refine ⟨by simp only [List.cons_append]; rw [← h1], ?_, h3⟩
      intro d hd
      rcases List.mem_cons.mp hd with rfl | hd
      · exact hc
      · exact h2 d hd
    · have hc' : isDigit c = false := by simpa using hc
      simp only [spanDigits, hc', Bool.false_eq_true, ↓reduceIte]
      exact ⟨rfl, (by intro d hd; cases hd), (by simp [headP, notDigit, hc'])⟩

theorem spanDigits_of (ds t : Bytes) (hd : ∀ c, c ∈ ds → isDigit c = true) (ht : headP notDigit t = true) :
    spanDigits (ds ++ t) = (ds, t) :=
  spanDigits_append ds t hd (fun c r h => by subst h; simpa [headP, notDigit] using ht)

/-- the fraction part is local -/
theorem parseFrac_local (b fs r2 : Bytes) (h : parseFrac b = some (fs, r2)) :
    ∃ xf, b = xf ++ r2 ∧ (∀ c, c ∈ fs → isDigit c = true) ∧ (xf = [] → fs = []) ∧
      (∀ c r, xf = c :: r → c = 0x2E) ∧
      ∀ t, headP notDigit t = true → headP notDot t = true → parseFrac (xf ++ t) = some (fs, t) := by
  unfold parseFrac at h
  split at h
  · rename_i c r
    split at h
    · rename_i hc
      have := eq_of_beq hc; subst this
      obtain ⟨h1, h2, _⟩ := spanDigits_spec r
      dsimp only at h
      split at h
      · cases h
      · rename_i hne
        simp only [Option.some.injEq] at h
        have hfs : (spanDigits r).1 = fs := by rw [h]
        have hr2 : (spanDigits r).2 = r2 := by rw [h]
        refine ⟨0x2E :: fs, (by rw [← hfs, ← hr2]; simp only [List.cons_append]; rw [← h1]), ?_, (by intro hh; cases hh),
          (by intro c r' hh; injection hh with hh _; exact hh.symm), ?_⟩
        · intro d hd; rw [← hfs] at hd; exact h2 d hd
        · intro t ht _
          have hsp := spanDigits_of fs t (by intro d hd; rw [← hfs] at hd; exact h2 d hd) ht
          have hne' : fs ≠ [] := by rw [← hfs]; exact hne
          simp [parseFrac, hsp, hne']
    · rename_i hc
      simp only [Option.some.injEq, Prod.mk.injEq] at h
      obtain ⟨rfl, rfl⟩ := h
      refine ⟨[], rfl, (by intro d hd; cases hd), fun _ => rfl, (by intro c r' hh; cases hh), ?_⟩
      intro t _ ht
      cases t with
      | nil => rfl
      | cons d t' =>
        have : (d == 0x2E) = false := by simpa [headP, notDot] using ht
        simp [parseFrac, this]
  · simp only [Option.some.injEq, Prod.mk.injEq] at h
    obtain ⟨rfl, rfl⟩ := h
    refine ⟨[], rfl, (by intro d hd; cases hd), fun _ => rfl, (by intro c r' hh; cases hh), ?_⟩
    intro t _ ht
    cases t with
    | nil => rfl
    | cons d t' =>
      have : (d == 0x2E) = false := by simpa [headP, notDot] using ht
      simp [parseFrac, this]

theorem splitSign_local (b : Bytes) : ∃ s, b = s ++ (splitSign b).2 ∧
    ∀ t, (∀ c r, t = c :: r → isDigit c = true) → t ≠ [] → splitSign (s ++ t) = ((splitSign b).1, t) := by
  cases b with
  | nil =>
    refine ⟨[], rfl, ?_⟩
    intro t ht hne
    cases t with
    | nil => exact absurd rfl hne
    | cons d t' => simp [splitSign, (digit_ne (ht d t' rfl)).1, (digit_ne (ht d t' rfl)).2]
  | cons c r =>
    by_cases h1 : (c == 0x2D) = true
    · have := eq_of_beq h1; subst this
      exact ⟨[0x2D], (by simp [splitSign]), (by intro t _ _; simp [splitSign])⟩
    · by_cases h2 : (c == 0x2B) = true
      · have := eq_of_beq h2; subst this
        exact ⟨[0x2B], (by simp [splitSign]), (by intro t _ _; simp [splitSign])⟩
      · have h1' : (c == 0x2D) = false := by simpa using h1
        have h2' : (c == 0x2B) = false := by simpa using h2
        refine ⟨[], (by simp [splitSign, h1', h2']), ?_⟩
        intro t ht hne
        cases t with
        | nil => exact absurd rfl hne
        | cons d t' =>
          simp [splitSign, h1', h2', (digit_ne (ht d t' rfl)).1, (digit_ne (ht d t' rfl)).2]

/-- the exponent part is local -/
theorem parseExp_local (b : Bytes) (ex : Option Int) (r3 : Bytes) (h : parseExp b = some (ex, r3)) :
    ∃ xe, b = xe ++ r3 ∧ (xe = [] → ex = none) ∧ (∀ c r, xe = c :: r → (c == 0x65 || c == 0x45) = true) ∧
      ∀ t, headP notDigit t = true → headP notExp t = true → parseExp (xe ++ t) = some (ex, t) := by
  unfold parseExp at h
  split at h
  · rename_i c r
    split at h
    · rename_i hc
      obtain ⟨s, hs1, hs2⟩ := splitSign_local r
      obtain ⟨h1, h2, _⟩ := spanDigits_spec (splitSign r).2
      dsimp only at h
      split at h
      · cases h
      · rename_i hne
        simp only [Option.some.injEq, Prod.mk.injEq] at h
        obtain ⟨hex, hr3⟩ := h
        refine ⟨c :: (s ++ (spanDigits (splitSign r).2).1), ?_, (by intro hh; cases hh),
          (by intro c' r' hh; injection hh with hh _; subst hh; exact hc), ?_⟩
        · rw [← hr3]; simp only [List.cons_append, List.append_assoc]; rw [← h1, ← hs1]
        · intro t ht _
          have hsp := spanDigits_of (spanDigits (splitSign r).2).1 t h2 ht
          have hss := hs2 ((spanDigits (splitSign r).2).1 ++ t)
            (by
              intro d r' hh
              cases hds : (spanDigits (splitSign r).2).1 with
              | nil => exact absurd hds hne
              | cons d0 ds0 =>
                rw [hds] at hh; injection hh with hh _; subst hh
                exact h2 d0 (by rw [hds]; simp))
            (by intro hh; exact hne (List.append_eq_nil_iff.mp hh).1)
          simp only [parseExp, List.cons_append, List.append_assoc, hc, ↓reduceIte, hss, hsp, hne, hex]
    · rename_i hc
      simp only [Option.some.injEq, Prod.mk.injEq] at h
      obtain ⟨rfl, rfl⟩ := h
      refine ⟨[], rfl, fun _ => rfl, (by intro c' r' hh; cases hh), ?_⟩
      intro t _ ht
      cases t with
      | nil => rfl
      | cons d t' =>
        have : (d == 0x65 || d == 0x45) = false := by simpa [headP, notExp] using ht
        simp [parseExp, this]
  · simp only [Option.some.injEq, Prod.mk.injEq] at h
    obtain ⟨rfl, rfl⟩ := h
    refine ⟨[], rfl, fun _ => rfl, (by intro c' r' hh; cases hh), ?_⟩
    intro t _ ht
    cases t with
    | nil => rfl
    | cons d t' =>
      have : (d == 0x65 || d == 0x45) = false := by simpa [headP, notExp] using ht
      simp [parseExp, this]


theorem splitMinus_local (b : Bytes) : ∃ s, b = s ++ (splitMinus b).2 ∧
    ∀ t, (∀ c r, t = c :: r → isDigit c = true) → t ≠ [] → splitMinus (s ++ t) = ((splitMinus b).1, t) := by
  cases b with
  | nil =>
    refine ⟨[], rfl, ?_⟩
    intro t ht hne
    cases t with
    | nil => exact absurd rfl hne
    | cons d t' => simp [splitMinus, (digit_ne (ht d t' rfl)).1]
  | cons c r =>
    by_cases h1 : (c == 0x2D) = true
    · have := eq_of_beq h1; subst this
      exact ⟨[0x2D], (by simp [splitMinus]), (by intro t _ _; simp [splitMinus])⟩
    · have h1' : (c == 0x2D) = false := by simpa using h1
      refine ⟨[], (by simp [splitMinus, h1']), ?_⟩
      intro t ht hne
      cases t with
      | nil => exact absurd rfl hne
      | cons d t' => simp [splitMinus, h1', (digit_ne (ht d t' rfl)).1]

theorem exp_head {c : UInt8} (h : (c == 0x65 || c == 0x45) = true) : notDigit c = true ∧ notDot c = true := by
  simp only [Bool.or_eq_true, beq_iff_eq] at h
  rcases h with rfl | rfl <;> decide

theorem delim_heads {rest : Bytes} (h : delim rest = true) :
    headP notDigit rest = true ∧ headP notDot rest = true ∧ headP notExp rest = true := by
  cases rest with
  | nil => exact ⟨rfl, rfl, rfl⟩
  | cons c t =>
    obtain ⟨a, b, c', _, _⟩ := delim_head h
    simp [headP, notDigit, notDot, notExp, a, b, c']

/-- a parsed number: its bytes are read as the same number before any delimiter -/
theorem parseNum_local (b : Bytes) (n : Num) (r : Bytes) (h : parseNum b = some (n, r)) :
    ∃ x, b = x ++ r ∧ ∀ rest, delim rest = true → parseNum (x ++ rest) = some (n, rest) := by
  unfold parseNum at h
  obtain ⟨s, hs1, hs2⟩ := splitMinus_local b
  obtain ⟨hd1, hd2, _⟩ := spanDigits_spec (splitMinus b).2
  dsimp only at h
  split at h
  · cases h
  · rename_i hne
    split at h
    · cases h
    · rename_i hlead
      cases hfr : parseFrac (spanDigits (splitMinus b).2).2 with
      | none => simp [hfr] at h
      | some p =>
        obtain ⟨fs, r2⟩ := p
        simp only [hfr] at h
        cases hex : parseExp r2 with
        | none => simp [hex] at h
        | some q =>
          obtain ⟨ex, r3⟩ := q
          simp only [hex] at h
          obtain ⟨xf, hf1, hfd, hf0, hfh, hf2⟩ := parseFrac_local _ fs r2 hfr
          obtain ⟨xe, he1, he0, heh, he2⟩ := parseExp_local r2 ex r3 hex
          have hr : r3 = r := by
            split at h <;> (simp only [Option.some.injEq, Prod.mk.injEq] at h; exact h.2)
          subst hr
          refine ⟨s ++ ((spanDigits (splitMinus b).2).1 ++ (xf ++ xe)), ?_, ?_⟩
          · conv => lhs; rw [hs1, hd1, hf1, he1]
            simp only [List.append_assoc]
          · intro rest hrest
            obtain ⟨g1, g2, g3⟩ := delim_heads hrest
            have e3 := he2 rest g1 g3
            have tE1 : headP notDigit (xe ++ rest) = true :=
              headP_append _ xe rest (fun _ => g1) (fun c r' hh => (exp_head (heh c r' hh)).1)
            have tE2 : headP notDot (xe ++ rest) = true :=
              headP_append _ xe rest (fun _ => g2) (fun c r' hh => (exp_head (heh c r' hh)).2)
            have e2 := hf2 (xe ++ rest) tE1 tE2
            have tF : headP notDigit (xf ++ (xe ++ rest)) = true :=
              headP_append _ xf _ (fun _ => tE1) (fun c r' hh => by rw [hfh c r' hh]; decide)
            have e1 := spanDigits_of (spanDigits (splitMinus b).2).1 (xf ++ (xe ++ rest)) hd2 tF
            have e0 := hs2 ((spanDigits (splitMinus b).2).1 ++ (xf ++ (xe ++ rest)))
              (by
                intro d r' hh
                cases hds : (spanDigits (splitMinus b).2).1 with
                | nil => exact absurd hds hne
                | cons d0 ds0 =>
                  rw [hds] at hh; injection hh with hh _; subst hh
                  exact hd2 d0 (by rw [hds]; simp))
              (by intro hh; exact hne (List.append_eq_nil_iff.mp hh).1)
            have hx : s ++ ((spanDigits (splitMinus b).2).1 ++ (xf ++ xe)) ++ rest
                = s ++ ((spanDigits (splitMinus b).2).1 ++ (xf ++ (xe ++ rest))) := by
              simp only [List.append_assoc]
            rw [hx]
            unfold parseNum
            dsimp only
            rw [e0]
            simp only [e1, hne, ↓reduceIte, hlead, e2, e3, Bool.false_eq_true]
            split at h
            · rename_i hc
              simp only [Option.some.injEq, Prod.mk.injEq] at h
              simp [hc, h.1]
            · rename_i hc
              simp only [Option.some.injEq, Prod.mk.injEq] at h
              simp [hc, h.1]


/-! ### values: the locality theorem -/

theorem skipWs_ws_cons (w : Bytes) (c : UInt8) (t : Bytes) (hw : allWs w) (hc : isWs c = false) :
    skipWs (w ++ c :: t) = c :: t := by
  rw [skipWs_ws_append w _ hw, skipWs_cons c t hc]

/-- `r = w ++ c :: r'` with `w` white space, when `skipWs r = c :: r'` -/
theorem skipWs_eq_cons {r : Bytes} {c : UInt8} {r' : Bytes} (h : skipWs r = c :: r') :
    ∃ w, r = w ++ c :: r' ∧ allWs w ∧ isWs c = false := by
  obtain ⟨w, hw, ha⟩ := skipWs_split r
  exact ⟨w, by rw [← h]; exact hw, ha, skipWs_head_nonws r c r' h⟩

def LocV (f : Nat) : Prop := ∀ b j r, parseV f b = some (j, r) → ∃ x, skipWs b = x ++ r ∧ x ≠ [] ∧ Den x j
def LocE (f : Nat) : Prop := ∀ b js r, parseElems f b = some (js, r) →
  ∃ x, b = x ++ r ∧ x ≠ [] ∧ ∀ rest f', x.length < f' → parseElems f' (x ++ rest) = some (js, rest)
def LocM (f : Nat) : Prop := ∀ b kvs r, parseMembers f b = some (kvs, r) →
  ∃ x, b = x ++ r ∧ x ≠ [] ∧ ∀ rest f', x.length < f' → parseMembers f' (x ++ rest) = some (kvs, rest)

theorem locE_step (f : Nat) (hV : LocV f) (hE : LocE f) : LocE (f + 1) := by
  intro b js r h
  simp only [parseElems] at h
  cases hv : parseV f b with
  | none => simp [hv] at h
  | some p =>
    obtain ⟨x1, r1⟩ := p
    simp only [hv] at h
    obtain ⟨px, hpx, hpxne, hden⟩ := hV b x1 r1 hv
    obtain ⟨w0, hw0, haw0⟩ := skipWs_split b
    cases hs : skipWs r1 with
    | nil => simp [hs] at h
    | cons c r' =>
      simp only [hs] at h
      obtain ⟨w1, hw1, haw1, hcws⟩ := skipWs_eq_cons hs
      by_cases hc : (c == 0x2C) = true
      · have := eq_of_beq hc; subst this
        simp only [beq_self_eq_true, ↓reduceIte, Option.map_eq_some_iff] at h
        obtain ⟨⟨js', r''⟩, he, heq⟩ := h
        simp only [Prod.mk.injEq] at heq
        obtain ⟨rfl, rfl⟩ := heq
        obtain ⟨xe', hxe, _, hclaim⟩ := hE r' js' r'' he
        refine ⟨w0 ++ (px ++ (w1 ++ 0x2C :: xe')), ?_, by simp, ?_⟩
        · rw [hw0, hpx, hw1, hxe]; simp only [List.append_assoc, List.cons_append]
        · intro rest f' hf
          obtain ⟨g, rfl⟩ : ∃ g, f' = g + 1 := ⟨f' - 1, by omega⟩
          simp only [List.length_append, List.length_cons] at hf
          have e0 : (w0 ++ (px ++ (w1 ++ 0x2C :: xe'))) ++ rest
              = w0 ++ (px ++ (w1 ++ 0x2C :: (xe' ++ rest))) := by simp only [List.append_assoc, List.cons_append]
          have e1 : parseV g (w0 ++ (px ++ (w1 ++ 0x2C :: (xe' ++ rest)))) = some (x1, w1 ++ 0x2C :: (xe' ++ rest)) := by
            rw [parseV_ws_append g w0 _ haw0]
            exact hden _ g (delim_ws_append w1 _ haw1 (Or.inr ⟨0x2C, _, rfl, by decide⟩)) (by omega)
          have e2 := skipWs_ws_cons w1 0x2C (xe' ++ rest) haw1 (by decide)
          have e3 := hclaim rest g (by omega)
          rw [e0]
          simp only [parseElems, e1, e2, beq_self_eq_true, ↓reduceIte, e3, Option.map_some]
      · have hc' : (c == 0x2C) = false := by simpa using hc
        simp only [hc', Bool.false_eq_true, ↓reduceIte] at h
        by_cases hb : (c == 0x5D) = true
        · have := eq_of_beq hb; subst this
          simp only [beq_self_eq_true, ↓reduceIte, Option.some.injEq, Prod.mk.injEq] at h
          obtain ⟨rfl, rfl⟩ := h
          refine ⟨w0 ++ (px ++ (w1 ++ [0x5D])), ?_, by simp, ?_⟩
          · rw [hw0, hpx, hw1]; simp only [List.append_assoc, List.cons_append, List.nil_append]
          · intro rest f' hf
            obtain ⟨g, rfl⟩ : ∃ g, f' = g + 1 := ⟨f' - 1, by omega⟩
            simp only [List.length_append, List.length_cons, List.length_nil] at hf
            have e0 : (w0 ++ (px ++ (w1 ++ [0x5D]))) ++ rest = w0 ++ (px ++ (w1 ++ 0x5D :: rest)) := by
              simp only [List.append_assoc, List.cons_append, List.nil_append]
            have e1 : parseV g (w0 ++ (px ++ (w1 ++ 0x5D :: rest))) = some (x1, w1 ++ 0x5D :: rest) := by
              rw [parseV_ws_append g w0 _ haw0]
              exact hden _ g (delim_ws_append w1 _ haw1 (Or.inr ⟨0x5D, _, rfl, by decide⟩)) (by omega)
            have e2 := skipWs_ws_cons w1 0x5D rest haw1 (by decide)
            rw [e0]
            simp only [parseElems, e1, e2, show ((0x5D : UInt8) == 0x2C) = false from by decide,
              Bool.false_eq_true, ↓reduceIte, beq_self_eq_true]
        · have hb' : (c == 0x5D) = false := by simpa using hb
          simp [hb'] at h


theorem locM_step (f : Nat) (hV : LocV f) (hM : LocM f) : LocM (f + 1) := by
  intro b kvs r h
  simp only [parseMembers] at h
  obtain ⟨w0, hw0, haw0⟩ := skipWs_split b
  cases hk : parseStr (skipWs b) with
  | none => simp [hk] at h
  | some p =>
    obtain ⟨k, r0⟩ := p
    simp only [hk] at h
    obtain ⟨tok, htok, hst⟩ := parseStr_local _ k r0 hk
    obtain ⟨tt, rfl⟩ := hst.head
    cases hs : skipWs r0 with
    | nil => simp [hs] at h
    | cons c r1 =>
      simp only [hs] at h
      obtain ⟨w1, hw1, haw1, _⟩ := skipWs_eq_cons hs
      by_cases hc : (c == 0x3A) = true
      · have := eq_of_beq hc; subst this
        simp only [beq_self_eq_true, ↓reduceIte] at h
        cases hv : parseV f r1 with
        | none => simp [hv] at h
        | some q =>
          obtain ⟨xv, r2⟩ := q
          simp only [hv] at h
          obtain ⟨pv, hpv, _, hden⟩ := hV r1 xv r2 hv
          obtain ⟨w2, hw2, haw2⟩ := skipWs_split r1
          cases hs2 : skipWs r2 with
          | nil => simp [hs2] at h
          | cons c2 r3 =>
            simp only [hs2] at h
            obtain ⟨w3, hw3, haw3, _⟩ := skipWs_eq_cons hs2
            by_cases hc2 : (c2 == 0x2C) = true
            · have := eq_of_beq hc2; subst this
              simp only [beq_self_eq_true, ↓reduceIte, Option.map_eq_some_iff] at h
              obtain ⟨⟨kvs', r''⟩, hm, heq⟩ := h
              simp only [Prod.mk.injEq] at heq
              obtain ⟨rfl, rfl⟩ := heq
              obtain ⟨xm', hxm, _, hclaim⟩ := hM r3 kvs' r'' hm
              refine ⟨w0 ++ ((0x22 :: tt) ++ (w1 ++ 0x3A :: (w2 ++ (pv ++ (w3 ++ 0x2C :: xm'))))), ?_, by simp, ?_⟩
              · rw [hw0, htok, hw1, hw2, hpv, hw3, hxm]; simp only [List.append_assoc, List.cons_append]
              · intro rest f' hf
                obtain ⟨g, rfl⟩ : ∃ g, f' = g + 1 := ⟨f' - 1, by omega⟩
                simp only [List.length_append, List.length_cons] at hf
                have e0 : (w0 ++ ((0x22 :: tt) ++ (w1 ++ 0x3A :: (w2 ++ (pv ++ (w3 ++ 0x2C :: xm')))))) ++ rest
                    = w0 ++ ((0x22 :: tt) ++ (w1 ++ 0x3A :: (w2 ++ (pv ++ (w3 ++ 0x2C :: (xm' ++ rest)))))) := by
                  simp only [List.append_assoc, List.cons_append]
                have e1 : skipWs (w0 ++ ((0x22 :: tt) ++ (w1 ++ 0x3A :: (w2 ++ (pv ++ (w3 ++ 0x2C :: (xm' ++ rest)))))))
                    = (0x22 :: tt) ++ (w1 ++ 0x3A :: (w2 ++ (pv ++ (w3 ++ 0x2C :: (xm' ++ rest))))) := by
                  rw [skipWs_ws_append w0 _ haw0]; exact skipWs_cons 0x22 _ (by decide)
                have e2 := hst (w1 ++ 0x3A :: (w2 ++ (pv ++ (w3 ++ 0x2C :: (xm' ++ rest)))))
                have e3 := skipWs_ws_cons w1 0x3A (w2 ++ (pv ++ (w3 ++ 0x2C :: (xm' ++ rest)))) haw1 (by decide)
                have e4 : parseV g (w2 ++ (pv ++ (w3 ++ 0x2C :: (xm' ++ rest)))) = some (xv, w3 ++ 0x2C :: (xm' ++ rest)) := by
                  rw [parseV_ws_append g w2 _ haw2]
                  exact hden _ g (delim_ws_append w3 _ haw3 (Or.inr ⟨0x2C, _, rfl, by decide⟩)) (by omega)
                have e5 := skipWs_ws_cons w3 0x2C (xm' ++ rest) haw3 (by decide)
                have e6 := hclaim rest g (by omega)
                rw [e0]
                simp only [parseMembers, e1, e2, e3, beq_self_eq_true, ↓reduceIte, e4, e5, e6, Option.map_some]
            · have hc2' : (c2 == 0x2C) = false := by simpa using hc2
              simp only [hc2', Bool.false_eq_true, ↓reduceIte] at h
              by_cases hb : (c2 == 0x7D) = true
              · have := eq_of_beq hb; subst this
                simp only [beq_self_eq_true, ↓reduceIte, Option.some.injEq, Prod.mk.injEq] at h
                obtain ⟨rfl, rfl⟩ := h
                refine ⟨w0 ++ ((0x22 :: tt) ++ (w1 ++ 0x3A :: (w2 ++ (pv ++ (w3 ++ [0x7D]))))), ?_, by simp, ?_⟩
                · rw [hw0, htok, hw1, hw2, hpv, hw3]; simp only [List.append_assoc, List.cons_append, List.nil_append]
                · intro rest f' hf
                  obtain ⟨g, rfl⟩ : ∃ g, f' = g + 1 := ⟨f' - 1, by omega⟩
                  simp only [List.length_append, List.length_cons, List.length_nil] at hf
                  have e0 : (w0 ++ ((0x22 :: tt) ++ (w1 ++ 0x3A :: (w2 ++ (pv ++ (w3 ++ [0x7D])))))) ++ rest
                      = w0 ++ ((0x22 :: tt) ++ (w1 ++ 0x3A :: (w2 ++ (pv ++ (w3 ++ 0x7D :: rest))))) := by
                    simp only [List.append_assoc, List.cons_append, List.nil_append]
                  have e1 : skipWs (w0 ++ ((0x22 :: tt) ++ (w1 ++ 0x3A :: (w2 ++ (pv ++ (w3 ++ 0x7D :: rest))))))
                      = (0x22 :: tt) ++ (w1 ++ 0x3A :: (w2 ++ (pv ++ (w3 ++ 0x7D :: rest)))) := by
                    rw [skipWs_ws_append w0 _ haw0]; exact skipWs_cons 0x22 _ (by decide)
                  have e2 := hst (w1 ++ 0x3A :: (w2 ++ (pv ++ (w3 ++ 0x7D :: rest))))
                  have e3 := skipWs_ws_cons w1 0x3A (w2 ++ (pv ++ (w3 ++ 0x7D :: rest))) haw1 (by decide)
                  have e4 : parseV g (w2 ++ (pv ++ (w3 ++ 0x7D :: rest))) = some (xv, w3 ++ 0x7D :: rest) := by
                    rw [parseV_ws_append g w2 _ haw2]
                    exact hden _ g (delim_ws_append w3 _ haw3 (Or.inr ⟨0x7D, _, rfl, by decide⟩)) (by omega)
                  have e5 := skipWs_ws_cons w3 0x7D rest haw3 (by decide)
                  rw [e0]
                  simp only [parseMembers, e1, e2, e3, beq_self_eq_true, ↓reduceIte, e4, e5,
                    show ((0x7D : UInt8) == 0x2C) = false from by decide, Bool.false_eq_true]
              · have hb' : (c2 == 0x7D) = false := by simpa using hb
                simp [hb'] at h
      · have hc' : (c == 0x3A) = false := by simpa using hc
        simp [hc'] at h


theorem head_of_append_ne {x r : Bytes} {c : UInt8} {t : Bytes} (hx : x ≠ []) (h : c :: t = x ++ r) :
    ∃ x', x = c :: x' := by
  cases x with
  | nil => exact absurd rfl hx
  | cons d x' => simp only [List.cons_append, List.cons.injEq] at h; exact ⟨x', by rw [h.1]⟩

theorem locV_step (f : Nat) (hE : LocE f) (hM : LocM f) : LocV (f + 1) := by
  intro b j r h
  simp only [parseV] at h
  cases hs : skipWs b with
  | nil => simp [hs] at h
  | cons c t =>
    simp only [hs] at h
    have hcws : isWs c = false := skipWs_head_nonws b c t hs
    by_cases h7b : (c == 0x7B) = true
    · -- object
      have := eq_of_beq h7b; subst this
      simp only [beq_self_eq_true, ↓reduceIte] at h
      obtain ⟨w, hw, haw⟩ := skipWs_split t
      split at h
      · rename_i r' hsk
        simp only [Option.some.injEq, Prod.mk.injEq] at h
        obtain ⟨rfl, rfl⟩ := h
        refine ⟨0x7B :: (w ++ [0x7D]), by rw [hw, hsk]; simp, by simp, ?_⟩
        intro rest f' _ hf
        obtain ⟨g, rfl⟩ : ∃ g, f' = g + 1 := ⟨f' - 1, by omega⟩
        have e1 := skipWs_ws_cons w 0x7D rest haw (by decide)
        simp only [List.cons_append, List.append_assoc, List.nil_append, parseV,
          skipWs_cons 0x7B _ (by decide), beq_self_eq_true, ↓reduceIte, e1]
      · rename_i hnot
        simp only [Option.map_eq_some_iff] at h
        obtain ⟨⟨kvs, r''⟩, hm, heq⟩ := h
        simp only [Prod.mk.injEq] at heq
        obtain ⟨rfl, rfl⟩ := heq
        obtain ⟨xm, hxm, hxne, hclaim⟩ := hM (skipWs t) kvs r'' hm
        refine ⟨0x7B :: (w ++ xm), by rw [hw, hxm]; simp, by simp, ?_⟩
        intro rest f' _ hf
        obtain ⟨g, rfl⟩ : ∃ g, f' = g + 1 := ⟨f' - 1, by omega⟩
        simp only [List.length_cons, List.length_append] at hf
        -- the head of `xm` is the head of `skipWs t`: not white space, not `}`
        cases hst : skipWs t with
        | nil => rw [hst] at hxm; exact absurd (List.append_eq_nil_iff.mp hxm.symm).1 hxne
        | cons d t' =>
          have hdws := skipWs_head_nonws t d t' hst
          obtain ⟨xm', rfl⟩ := head_of_append_ne hxne (by rw [← hst]; exact hxm)
          have hd7 : d ≠ 0x7D := by
            intro hh; subst hh; exact hnot t' hst
          have e1 : skipWs (w ++ ((d :: xm') ++ rest)) = (d :: xm') ++ rest := by
            rw [skipWs_ws_append w _ haw]; exact skipWs_cons d _ hdws
          have e2 := hclaim rest g (by omega)
          simp only [List.cons_append, List.append_assoc, parseV, skipWs_cons 0x7B _ (by decide),
            beq_self_eq_true, ↓reduceIte]
          simp only [List.cons_append] at e1 e2
          rw [e1]
          split
          · rename_i heq; injection heq with h1 _; exact absurd h1 hd7
          · simp [e2]
    · have h7b' : (c == 0x7B) = false := by simpa using h7b
      simp only [h7b', Bool.false_eq_true, ↓reduceIte] at h
      by_cases h5b : (c == 0x5B) = true
      · -- array
        have := eq_of_beq h5b; subst this
        simp only [beq_self_eq_true, ↓reduceIte] at h
        obtain ⟨w, hw, haw⟩ := skipWs_split t
        split at h
        · rename_i r' hsk
          simp only [Option.some.injEq, Prod.mk.injEq] at h
          obtain ⟨rfl, rfl⟩ := h
          refine ⟨0x5B :: (w ++ [0x5D]), by rw [hw, hsk]; simp, by simp, ?_⟩
          intro rest f' _ hf
          obtain ⟨g, rfl⟩ : ∃ g, f' = g + 1 := ⟨f' - 1, by omega⟩
          have e1 := skipWs_ws_cons w 0x5D rest haw (by decide)
          simp only [List.cons_append, List.append_assoc, List.nil_append, parseV,
            skipWs_cons 0x5B _ (by decide), show ((0x5B : UInt8) == 0x7B) = false from by decide,
            Bool.false_eq_true, beq_self_eq_true, ↓reduceIte, e1]
        · rename_i hnot
          simp only [Option.map_eq_some_iff] at h
          obtain ⟨⟨js, r''⟩, he, heq⟩ := h
          simp only [Prod.mk.injEq] at heq
          obtain ⟨rfl, rfl⟩ := heq
          obtain ⟨xe, hxe, hxne, hclaim⟩ := hE (skipWs t) js r'' he
          refine ⟨0x5B :: (w ++ xe), by rw [hw, hxe]; simp, by simp, ?_⟩
          intro rest f' _ hf
          obtain ⟨g, rfl⟩ : ∃ g, f' = g + 1 := ⟨f' - 1, by omega⟩
          simp only [List.length_cons, List.length_append] at hf
          cases hst : skipWs t with
          | nil => rw [hst] at hxe; exact absurd (List.append_eq_nil_iff.mp hxe.symm).1 hxne
          | cons d t' =>
            have hdws := skipWs_head_nonws t d t' hst
            obtain ⟨xe', rfl⟩ := head_of_append_ne hxne (by rw [← hst]; exact hxe)
            have hd5 : d ≠ 0x5D := by
              intro hh; subst hh; exact hnot t' hst
            have e1 : skipWs (w ++ ((d :: xe') ++ rest)) = (d :: xe') ++ rest := by
              rw [skipWs_ws_append w _ haw]; exact skipWs_cons d _ hdws
            have e2 := hclaim rest g (by omega)
            simp only [List.cons_append, List.append_assoc, parseV, skipWs_cons 0x5B _ (by decide),
              show ((0x5B : UInt8) == 0x7B) = false from by decide, Bool.false_eq_true, beq_self_eq_true, ↓reduceIte]
            simp only [List.cons_append] at e1 e2
            rw [e1]
            split
            · rename_i heq; injection heq with h1 _; exact absurd h1 hd5
            · simp [e2]
      · have h5b' : (c == 0x5B) = false := by simpa using h5b
        simp only [h5b', Bool.false_eq_true, ↓reduceIte] at h
        by_cases h22 : (c == 0x22) = true
        · -- string
          have := eq_of_beq h22; subst this
          simp only [beq_self_eq_true, ↓reduceIte, Option.map_eq_some_iff] at h
          obtain ⟨⟨s', r''⟩, hp, heq⟩ := h
          simp only [Prod.mk.injEq] at heq
          obtain ⟨rfl, rfl⟩ := heq
          obtain ⟨tok, htok, hst⟩ := parseStr_local _ s' r'' hp
          obtain ⟨tt, rfl⟩ := hst.head
          exact ⟨0x22 :: tt, htok, by simp, den_strTok _ _ hst⟩
        · have h22' : (c == 0x22) = false := by simpa using h22
          simp only [h22', Bool.false_eq_true, ↓reduceIte] at h
          by_cases h74 : (c == 0x74) = true
          · have := eq_of_beq h74; subst this
            simp only [beq_self_eq_true, ↓reduceIte, Option.map_eq_some_iff] at h
            obtain ⟨t', hp, heq⟩ := h
            simp only [Prod.mk.injEq] at heq
            obtain ⟨rfl, rfl⟩ := heq
            have := stripPrefix_split _ _ _ hp
            exact ⟨[0x74, 0x72, 0x75, 0x65], by rw [this]; rfl, by simp, den_true⟩
          · have h74' : (c == 0x74) = false := by simpa using h74
            simp only [h74', Bool.false_eq_true, ↓reduceIte] at h
            by_cases h66 : (c == 0x66) = true
            · have := eq_of_beq h66; subst this
              simp only [beq_self_eq_true, ↓reduceIte, Option.map_eq_some_iff] at h
              obtain ⟨t', hp, heq⟩ := h
              simp only [Prod.mk.injEq] at heq
              obtain ⟨rfl, rfl⟩ := heq
              have := stripPrefix_split _ _ _ hp
              exact ⟨[0x66, 0x61, 0x6C, 0x73, 0x65], by rw [this]; rfl, by simp, den_false⟩
            · have h66' : (c == 0x66) = false := by simpa using h66
              simp only [h66', Bool.false_eq_true, ↓reduceIte] at h
              by_cases h6e : (c == 0x6E) = true
              · have := eq_of_beq h6e; subst this
                simp only [beq_self_eq_true, ↓reduceIte, Option.map_eq_some_iff] at h
                obtain ⟨t', hp, heq⟩ := h
                simp only [Prod.mk.injEq] at heq
                obtain ⟨rfl, rfl⟩ := heq
                have := stripPrefix_split _ _ _ hp
                exact ⟨[0x6E, 0x75, 0x6C, 0x6C], by rw [this]; rfl, by simp, den_null⟩
              · have h6e' : (c == 0x6E) = false := by simpa using h6e
                simp only [h6e', Bool.false_eq_true, ↓reduceIte] at h
                by_cases hnum : (c == 0x2D || isDigit c) = true
                · -- number
                  simp only [hnum, ↓reduceIte, Option.map_eq_some_iff] at h
                  obtain ⟨⟨n, r''⟩, hp, heq⟩ := h
                  simp only [Prod.mk.injEq] at heq
                  obtain ⟨rfl, rfl⟩ := heq
                  obtain ⟨x, hx, hre⟩ := parseNum_local _ n r'' hp
                  have hxne : x ≠ [] := by
                    intro hh; subst hh
                    have := hre [] rfl
                    simp [parseNum, splitMinus, spanDigits] at this
                  obtain ⟨x', rfl⟩ := head_of_append_ne hxne hx
                  refine ⟨c :: x', hx, hxne, ?_⟩
                  intro rest f' hrest hf
                  obtain ⟨g, rfl⟩ : ∃ g, f' = g + 1 := ⟨f' - 1, by omega⟩
                  have hp' := hre rest hrest
                  simp only [List.cons_append] at hp' ⊢
                  simp only [parseV, skipWs_cons c _ hcws, h7b', h5b', h22', h74', h66', h6e', Bool.false_eq_true,
                    ↓reduceIte, hnum, hp', Option.map_some]
                · have hnum' : (c == 0x2D || isDigit c) = false := by simpa using hnum
                  simp [hnum'] at h

/-- LOCALITY: the bytes consumed for a value denote that value on their own -/
theorem loc_all : ∀ f, LocV f ∧ LocE f ∧ LocM f
  | 0 => ⟨by intro b j r h; simp [parseV] at h, by intro b js r h; simp [parseElems] at h,
      by intro b kvs r h; simp [parseMembers] at h⟩
  | f + 1 =>
    have ih := loc_all f
    ⟨locV_step f ih.2.1 ih.2.2, locE_step f ih.1 ih.2.1, locM_step f ih.1 ih.2.2⟩

theorem parseV_local (f : Nat) (b : Bytes) (j : J) (r : Bytes) (h : parseV f b = some (j, r)) :
    Den (consumed (skipWs b) r) j := by
  obtain ⟨x, hx, _, hd⟩ := (loc_all f).1 b j r h
  rw [hx, consumed_append]; exact hd

end Martian.JsonBytes
