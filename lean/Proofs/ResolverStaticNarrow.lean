/-
C01 — struct narrowing across boundaries: the lemmas the refinement
"two-phase resolver = den" rests on.

* `NarrowFix st F`: at fuel `F` `narrow` satisfies its fixed-point equation (the
  fuel is large enough for the struct table: `narrowFix_of_stable`,
  `narrowStable_of_rank` discharge it for every acyclic table);
* `Sub st t t'`: a value of type `t` may be bound where `t'` is expected (same
  shape, `t'`'s struct has a subset of the members, member-wise);
* `narrow_narrow`: narrowing to `t` and then to a wider-or-equal … narrower `t'`
  is narrowing to `t'` (narrowing at a sub-pipeline boundary followed by
  narrowing at the stage parameter = narrowing at the stage parameter);
* `proj1_narrow`: projection commutes with narrowing.
-/
import Martian.Dataflow
import Proofs.Dataflow

namespace Proofs.ResolverStatic
open Martian.Dataflow Proofs.Dataflow

/-! ## fuel -/

/-- one more unit of fuel changes nothing -/
def NarrowStable (st : StructTable) (k : Nat) : Prop :=
  ∀ t v, narrow st k t v = narrow st (k+1) t v

/-- `narrow st F` satisfies the recursion equation of `FilterJson` (no fuel) -/
def NarrowFix (st : StructTable) (F : Nat) : Prop :=
  ∀ t v, narrow st F t v = atBase t (narrowBase st F t) v

theorem narrowBase_congr (st : StructTable) (a b : Nat)
    (h : ∀ t v, narrow st a t v = narrow st b t v) (t : Ty) (s : J) :
    narrowBase st a t s = narrowBase st b t s := by
  unfold narrowBase
  cases st.lookup t.base with
  | none => rfl
  | some ps =>
    cases s <;> simp only
    simp only [h]

theorem atBase_congr (t : Ty) (f g : J → J) (h : ∀ v, f v = g v) (v : J) : atBase t f v = atBase t g v := by
  have : f = g := funext h
  rw [this]

theorem narrowFix_of_stable (st : StructTable) (k : Nat) (h : NarrowStable st k) :
    NarrowFix st (k+1) := by
  intro t v
  rw [narrow_succ]
  apply atBase_congr
  intro s
  exact narrowBase_congr st k (k+1) h t s

/-- a rank function for the struct table: members that are structs rank lower -/
def RankOk (st : StructTable) (rank : String → Nat) : Prop :=
  ∀ name ps, st.lookup name = some ps → ∀ p ∈ ps, (st.lookup p.ty.base).isSome → rank p.ty.base < rank name

theorem narrow_stable_aux (st : StructTable) (rank : String → Nat) (hr : RankOk st rank) :
    ∀ (k : Nat) (t : Ty) (v : J),
      ((st.lookup t.base).isSome → rank t.base + 1 < k) → 0 < k →
      narrow st k t v = narrow st (k+1) t v := by
  intro k
  induction k with
  | zero => intro t v _ h0; omega
  | succ k ih =>
    intro t v hk _
    rw [narrow_succ, narrow_succ]
    apply atBase_congr
    intro s
    unfold narrowBase
    cases hl : st.lookup t.base with
    | none => rfl
    | some ps =>
      cases s <;> simp only
      rename_i kvs
      simp only [J.obj.injEq]
      apply List.map_congr_left
      intro p hp
      simp only [Prod.mk.injEq, true_and]
      have hk' := hk (by simp [hl])
      apply ih
      · intro hs
        have := hr _ _ hl p hp hs
        omega
      · omega

/-- every acyclic struct table has a stable fuel: rank of every struct + 2 -/
theorem narrowStable_of_rank (st : StructTable) (rank : String → Nat) (hr : RankOk st rank)
    (k : Nat) (hk : ∀ name ps, st.lookup name = some ps → rank name + 1 < k) (h0 : 0 < k) :
    NarrowStable st k := by
  intro t v
  apply narrow_stable_aux st rank hr k t v _ h0
  intro hs
  cases hl : st.lookup t.base with
  | none => simp [hl] at hs
  | some ps => exact hk _ _ hl

/-! ## shapes -/

theorem mapArr_add (a b : Nat) (f : J → J) (v : J) : mapArr (a + b) f v = mapArr a (mapArr b f) v := by
  induction a generalizing v with
  | zero => simp [mapArr]
  | succ a ih =>
    have e : a + 1 + b = (a + b) + 1 := by omega
    rw [e]
    cases v with
    | arr xs =>
      simp only [mapArr, J.arr.injEq]
      apply List.map_congr_left
      intro x _
      exact ih x
    | null => simp [mapArr]
    | dnull => simp [mapArr]
    | atom s => simp [mapArr]
    | obj kvs => simp [mapArr]

theorem mapArr_null (n : Nat) (f : J → J) (h : f .null = .null) : mapArr n f .null = .null := by
  cases n <;> simp [mapArr, h]

theorem mapArr_dnull (n : Nat) (f : J → J) (h : f .dnull = .dnull) : mapArr n f .dnull = .dnull := by
  cases n <;> simp [mapArr, h]

theorem atBase_null (t : Ty) (f : J → J) (h : f .null = .null) : atBase t f .null = .null := by
  unfold atBase
  apply mapArr_null
  cases t.mapDim with
  | zero => exact h
  | succ k => simp [mapObj]

theorem atBase_dnull (t : Ty) (f : J → J) (h : f .dnull = .dnull) : atBase t f .dnull = .dnull := by
  unfold atBase
  apply mapArr_dnull
  cases t.mapDim with
  | zero => exact h
  | succ k => simp [mapObj]

theorem narrowBase_null (st : StructTable) (F : Nat) (t : Ty) : narrowBase st F t .null = .null := by
  unfold narrowBase
  cases st.lookup t.base <;> rfl

theorem narrowBase_dnull (st : StructTable) (F : Nat) (t : Ty) : narrowBase st F t .dnull = .dnull := by
  unfold narrowBase
  cases st.lookup t.base <;> rfl

section fix
variable {st : StructTable} {F : Nat} (hF : NarrowFix st F)
include hF

theorem narrow_null (t : Ty) : narrow st F t .null = .null := by
  rw [hF]; exact atBase_null t _ (narrowBase_null st F t)

theorem narrow_dnull (t : Ty) : narrow st F t .dnull = .dnull := by
  rw [hF]; exact atBase_dnull t _ (narrowBase_dnull st F t)

theorem narrow_arr (b : String) (m n : Nat) (xs : List J) :
    narrow st F ⟨b, m, n+1⟩ (.arr xs) = .arr (xs.map (narrow st F ⟨b, m, n⟩)) := by
  rw [hF]
  simp only [atBase, mapArr, J.arr.injEq]
  apply List.map_congr_left
  intro x _
  rw [hF]
  rfl

theorem narrow_obj (b : String) (k : Nat) (kvs : List (String × J)) :
    narrow st F ⟨b, k+1, 0⟩ (.obj kvs) = .obj (kvs.map fun kv => (kv.1, narrow st F ⟨b, 0, k⟩ kv.2)) := by
  rw [hF]
  simp only [atBase, mapArr, mapObj, J.obj.injEq]
  apply List.map_congr_left
  intro x _
  rw [hF]
  rfl

theorem narrow_struct (s : String) (ps : List Param) (h : st.lookup s = some ps) (kvs : List (String × J)) :
    narrow st F ⟨s, 0, 0⟩ (.obj kvs)
      = .obj (ps.map fun p => (p.name, narrow st F p.ty ((J.obj kvs).field p.name))) := by
  rw [hF]
  simp [atBase, mapArr, narrowBase, h]

theorem narrow_scalar (b : String) (h : st.lookup b = none) (v : J) : narrow st F ⟨b, 0, 0⟩ v = v := by
  rw [hF]
  simp [atBase, mapArr, narrowBase, h]

/-- narrowing at `b…[a+n]` is narrowing at `b…[a]` under `n` array levels -/
theorem narrow_lift_arr (b : String) (m a n : Nat) (v : J) :
    narrow st F ⟨b, m, n + a⟩ v = mapArr n (narrow st F ⟨b, m, a⟩) v := by
  rw [hF]
  simp only [atBase]
  rw [mapArr_add]
  apply mapArr_congr
  intro x
  rw [hF]
  rfl

end fix

/-! ## assignability -/

/-- `t` may be bound where `t'` is expected: the same type, or struct types of the
same shape where every member of `t'` is a member of `t` of an assignable type -/
inductive Sub (st : StructTable) : Ty → Ty → Prop
  | refl (t : Ty) : Sub st t t
  | struct (t t' : Ty) (ps ps' : List Param) :
      t.mapDim = t'.mapDim → t.arrDim = t'.arrDim →
      st.lookup t.base = some ps → st.lookup t'.base = some ps' →
      (∀ p' ∈ ps', (fieldTy st t.base p'.name).isSome) →
      (∀ p' ∈ ps', Sub st ((fieldTy st t.base p'.name).getD badTy) p'.ty) →
      Sub st t t'
  /-- two non-struct types of the same shape (int → float, string → file, …): narrowing is
  the identity at both -/
  | scalar (t t' : Ty) : t.mapDim = t'.mapDim → t.arrDim = t'.arrDim →
      st.lookup t.base = none → st.lookup t'.base = none → Sub st t t'

theorem Sub.dims {st : StructTable} {t t' : Ty} (h : Sub st t t') :
    t.mapDim = t'.mapDim ∧ t.arrDim = t'.arrDim := by
  cases h with
  | refl => exact ⟨rfl, rfl⟩
  | struct _ _ _ _ h1 h2 => exact ⟨h1, h2⟩
  | scalar _ _ h1 h2 => exact ⟨h1, h2⟩

/-- assignability does not depend on the array / map nesting around the base type -/
theorem Sub.redim {st : StructTable} {t t' : Ty} (h : Sub st t t') (m a : Nat) :
    Sub st ⟨t.base, m, a⟩ ⟨t'.base, m, a⟩ := by
  cases h with
  | refl => exact Sub.refl _
  | struct _ _ ps ps' _ _ h3 h4 h5 h6 => exact Sub.struct _ _ ps ps' rfl rfl h3 h4 h5 h6
  | scalar _ _ _ _ h3 h4 => exact Sub.scalar _ _ rfl rfl h3 h4

theorem find_name_of_nodup (ps : List Param) (hn : (ps.map (·.name)).Nodup) (p : Param) (hp : p ∈ ps) :
    ps.find? (fun q => q.name == p.name) = some p := by
  induction ps with
  | nil => cases hp
  | cons q qs ih =>
    simp only [List.map_cons, List.nodup_cons] at hn
    simp only [List.find?_cons]
    cases hp with
    | head => simp
    | tail _ hp' =>
      have hne : q.name ≠ p.name := by
        intro e
        apply hn.1
        rw [e]
        exact List.mem_map_of_mem hp'
      have : (q.name == p.name) = false := by simpa using hne
      rw [this]
      exact ih hn.2 hp'

theorem fieldTy_of_mem (st : StructTable) (hst : StructsOk st) (s : String) (ps : List Param)
    (h : st.lookup s = some ps) (p : Param) (hp : p ∈ ps) : fieldTy st s p.name = some p.ty := by
  unfold fieldTy
  rw [h]
  simp only
  rw [find_name_of_nodup ps (hst _ _ h) p hp]
  rfl

theorem fieldTy_mem (st : StructTable) (s f : String) (ft : Ty) (h : fieldTy st s f = some ft) :
    ∃ ps p, st.lookup s = some ps ∧ p ∈ ps ∧ p.name = f ∧ p.ty = ft ∧
      ps.find? (fun q => q.name == f) = some p := by
  unfold fieldTy at h
  cases hl : st.lookup s with
  | none => simp [hl] at h
  | some ps =>
    simp only [hl] at h
    cases hf : ps.find? (fun p => p.name == f) with
    | none => simp [hf] at h
    | some p =>
      simp only [hf, Option.map_some, Option.some.injEq] at h
      refine ⟨ps, p, rfl, List.mem_of_find?_eq_some hf, ?_, h, hf⟩
      have := List.find?_some hf
      simpa using this

/-- the members view of `Sub`, uniform over both constructors -/
theorem Sub.members {st : StructTable} (hst : StructsOk st) {t t' : Ty} (h : Sub st t t')
    (ps' : List Param) (hl' : st.lookup t'.base = some ps') :
    ∃ ps, st.lookup t.base = some ps ∧
      ∀ p' ∈ ps', ∃ p ∈ ps, p.name = p'.name ∧ ps.find? (fun q => q.name == p'.name) = some p ∧
        Sub st p.ty p'.ty := by
  cases h with
  | refl =>
    refine ⟨ps', hl', ?_⟩
    intro p' hp'
    exact ⟨p', hp', rfl, find_name_of_nodup ps' (hst _ _ hl') p' hp', Sub.refl _⟩
  | struct _ _ ps ps2 _ _ h3 h4 h5 h6 =>
    rw [hl'] at h4
    cases h4
    refine ⟨ps, h3, ?_⟩
    intro p' hp'
    have hs := h5 p' hp'
    have hsub := h6 p' hp'
    cases hf : fieldTy st t.base p'.name with
    | none => simp [hf] at hs
    | some ft =>
      obtain ⟨qs, p, hq, hpm, hpn, hpt, hfind⟩ := fieldTy_mem st _ _ _ hf
      rw [h3] at hq
      cases hq
      refine ⟨p, hpm, hpn, hfind, ?_⟩
      rw [hf] at hsub
      simpa [hpt] using hsub
  | scalar _ _ _ _ _ h4 => rw [hl'] at h4; cases h4

theorem field_map_find (ps : List Param) (g : Param → J) (k : String) (p : Param)
    (h : ps.find? (fun q => q.name == k) = some p) :
    (J.obj (ps.map fun q => (q.name, g q))).field k = g p := by
  simp only [J.field]
  induction ps with
  | nil => simp at h
  | cons q qs ih =>
    simp only [List.find?_cons] at h
    simp only [List.map_cons, List.lookup_cons]
    cases hq : (q.name == k) with
    | true =>
      simp only [hq, Option.some.injEq] at h
      subst h
      have : (k == q.name) = true := by
        have : q.name = k := by simpa using hq
        simp [this]
      simp [this]
    | false =>
      simp only [hq] at h
      have : (k == q.name) = false := by
        have : q.name ≠ k := by simpa using hq
        simpa using fun e => this e.symm
      simp only [this]
      exact ih h

theorem narrow_narrow {st : StructTable} (hst : StructsOk st) {F : Nat} (hF : NarrowFix st F)
    {t t' : Ty} (h : Sub st t t') : ∀ v, narrow st F t' (narrow st F t v) = narrow st F t' v := by
  induction h with
  | refl t =>
    intro v
    exact narrow_idem st hst F t v
  | struct t t' ps ps' h1 h2 h3 h4 h5 _ ih =>
    intro v
    rw [hF t' (narrow st F t v), hF t v, hF t' v]
    have e : ∀ (g : J → J) (w : J), atBase t' g w = atBase t g w := by
      intro g w
      simp [atBase, h1, h2]
    rw [e, e, atBase_comp]
    apply atBase_congr
    intro s
    simp only [Function.comp_apply]
    unfold narrowBase
    rw [h3, h4]
    cases s with
    | obj kvs =>
      simp only [J.obj.injEq]
      apply List.map_congr_left
      intro p' hp'
      simp only [Prod.mk.injEq, true_and]
      have hs := h5 p' hp'
      cases hf : fieldTy st t.base p'.name with
      | none => simp [hf] at hs
      | some ft =>
        obtain ⟨qs, p, hq, _, hpn, hpt, hfind⟩ := fieldTy_mem st _ _ _ hf
        rw [h3] at hq
        cases hq
        rw [field_map_find ps _ p'.name p hfind]
        have := ih p' hp' ((J.obj kvs).field p'.name)
        rw [hf] at this
        simpa [hpt, hpn] using this
    | null => rfl
    | dnull => rfl
    | atom a => rfl
    | arr xs => rfl
  | scalar t t' h1 h2 h3 h4 =>
    intro v
    rw [hF t' (narrow st F t v), hF t v, hF t' v]
    have e : ∀ (g : J → J) (w : J), atBase t' g w = atBase t g w := by
      intro g w
      simp [atBase, h1, h2]
    rw [e, e, atBase_comp]
    apply atBase_congr
    intro s
    simp only [Function.comp_apply]
    unfold narrowBase
    rw [h3, h4]

theorem Sub.trans {st : StructTable} (hst : StructsOk st) {a b c : Ty} (h1 : Sub st a b) (h2 : Sub st b c) :
    Sub st a c := by
  induction h2 generalizing a with
  | refl => exact h1
  | struct t t' ps ps' d1 d2 l1 l2 s1 s2 ih =>
    obtain ⟨qs, hq, hm⟩ := Sub.members hst h1 ps l1
    have hd := h1.dims
    refine Sub.struct a t' qs ps' (hd.1.trans d1) (hd.2.trans d2) hq l2 ?_ ?_
    · intro p' hp'
      have hs := s1 p' hp'
      cases hf : fieldTy st t.base p'.name with
      | none => simp [hf] at hs
      | some ft =>
        obtain ⟨rs, p, hr, hpm, hpn, _, _⟩ := fieldTy_mem st _ _ _ hf
        rw [l1] at hr
        cases hr
        obtain ⟨q, hqm, hqn, _, _⟩ := hm p hpm
        have := fieldTy_of_mem st hst a.base qs hq q hqm
        rw [hqn, hpn] at this
        simp [this]
    · intro p' hp'
      have hs := s1 p' hp'
      cases hf : fieldTy st t.base p'.name with
      | none => simp [hf] at hs
      | some ft =>
        obtain ⟨rs, p, hr, hpm, hpn, hpt, _⟩ := fieldTy_mem st _ _ _ hf
        rw [l1] at hr
        cases hr
        obtain ⟨q, hqm, hqn, _, hsub⟩ := hm p hpm
        have hfa := fieldTy_of_mem st hst a.base qs hq q hqm
        rw [hqn, hpn] at hfa
        have := ih p' hp' (a := q.ty) (by rw [hf]; simpa [hpt] using hsub)
        simpa [hfa] using this
  | scalar t t' d1 d2 l1 l2 =>
    cases h1 with
    | refl => exact Sub.scalar _ _ d1 d2 l1 l2
    | struct _ _ ps ps' _ _ _ h4 => rw [l1] at h4; cases h4
    | scalar _ _ e1 e2 l0 _ => exact Sub.scalar _ _ (e1.trans d1) (e2.trans d2) l0 l2

/-! ## projection and narrowing commute -/

theorem proj1_dims (t t' : Ty) (h1 : t.mapDim = t'.mapDim) (h2 : t.arrDim = t'.arrDim) (f : String) (v : J) :
    proj1 t f v = proj1 t' f v := by
  simp [proj1, atBase, h1, h2]

theorem field_narrowBase {st : StructTable} {F : Nat} (hF : NarrowFix st F) (t : Ty) (f : String) (ft : Ty)
    (h : fieldTy st t.base f = some ft) (s : J) :
    (narrowBase st F t s).field f = narrow st F ft (s.field f) := by
  obtain ⟨ps, p, hl, _, hpn, hpt, hfind⟩ := fieldTy_mem st _ _ _ h
  unfold narrowBase
  rw [hl]
  cases s with
  | obj kvs =>
    simp only
    rw [field_map_find ps _ f p hfind, hpt, hpn]
  | null => simp [J.field, narrow_null hF]
  | dnull => simp [J.field, narrow_dnull hF]
  | atom a => simp [J.field, narrow_null hF]
  | arr xs => simp [J.field, narrow_null hF]

/-- narrowing at the type of `e.f` = narrowing at the member type below the array / map
levels of `e`'s type (typed maps: the member is not itself a typed map, as the
compiler demands) -/
theorem narrow_projTy1 {st : StructTable} {F : Nat} (hF : NarrowFix st F) (t : Ty) (f : String) (ft : Ty)
    (h : fieldTy st t.base f = some ft) (hm : t.mapDim ≠ 0 → ft.mapDim = 0) (w : J) :
    narrow st F (projTy1 st t f) w = atBase t (narrow st F ft) w := by
  unfold projTy1
  rw [h]
  simp only
  by_cases hz : t.mapDim = 0
  · simp only [hz, if_true, atBase]
    have e : ft.arrDim + t.arrDim = t.arrDim + ft.arrDim := by omega
    rw [e, narrow_lift_arr hF]
  · simp only [hz, if_false]
    have hft := hm hz
    obtain ⟨k, hk⟩ : ∃ k, t.mapDim = k + 1 := ⟨t.mapDim - 1, by omega⟩
    rw [hF]
    simp only [atBase, hk]
    apply mapArr_congr
    intro x
    have e : k + 1 + ft.arrDim = (k + ft.arrDim) + 1 := by omega
    simp only [e]
    congr 1
    funext y
    rw [mapArr_add]
    apply mapArr_congr
    intro z
    rw [hF ft z]
    simp only [atBase, hft]
    rfl

theorem proj1_narrow {st : StructTable} {F : Nat} (hF : NarrowFix st F) (t : Ty) (f : String) (ft : Ty)
    (h : fieldTy st t.base f = some ft) (hm : t.mapDim ≠ 0 → ft.mapDim = 0) (v : J) :
    proj1 t f (narrow st F t v) = narrow st F (projTy1 st t f) (proj1 t f v) := by
  rw [narrow_projTy1 hF t f ft h hm, hF t v]
  unfold proj1
  rw [atBase_comp, atBase_comp]
  apply atBase_congr
  intro s
  simp only [Function.comp_apply]
  exact field_narrowBase hF t f ft h s

end Proofs.ResolverStatic
