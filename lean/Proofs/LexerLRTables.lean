import Martian.LexerLRCheck
import Martian.LexerLRGen

/-! The table check on the regenerated goyacc tables, evaluated by the kernel (a module of its own:
about 20 s; rebuilt only when the tables or the checker change). -/
namespace Martian.LexerLR

theorem gen_tables_checked : check genTables genCert = true := by decide +kernel

end Martian.LexerLR
