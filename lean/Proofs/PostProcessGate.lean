/-
C13: the verification gate in front of post-processing (`keysVerified` = what
`TypedMapType.IsValidJson` demands of keys) makes `moveOutDir`'s legal-key
filter dead code: for a value that passed the gate, every typed-map node of the
rewritten value has ALL the keys of the input, at every depth.
-/
import Martian.PostProcess
import Martian.PostProcessDefs
import Proofs.PostProcess
import Proofs.PostProcessShape
import Proofs.PostProcessDests

namespace Martian.PostProcess

/-! ## "all keys kept", along the type -/

/-! ## level lemmas -/

theorem All2.imp_mem {R Q : J → J → Prop} {xs ys : List J} (h : All2 R xs ys)
    (hq : ∀ x y, x ∈ xs → R x y → Q x y) : All2 Q xs ys := by
  induction h with
  | nil => exact All2.nil
  | cons hxy _ ih =>
    exact All2.cons (hq _ _ (by simp) hxy) (ih (fun x y hx hr => hq x y (by simp [hx]) hr))

theorem keptArr_of_shape (R Q : J → J → Prop) (f : J → Bool)
    (hq : ∀ x y, f x = true → R x y → Q x y) (k : Nat) (v v' : J)
    (hv : keysArr f k v = true) (hs : ShapeArr R k v v') : KeptArr Q k v v' := by
  induction k generalizing v v' with
  | zero =>
    cases v with
    | arr xs =>
      obtain ⟨ys, e, h2⟩ := hs
      simp only [keysArr, List.all_eq_true] at hv
      exact ⟨ys, e, h2.imp_mem (fun x y hx hr => hq x y (hv x hx) hr)⟩
    | null => trivial
    | lit s => trivial
    | str s => trivial
    | obj kvs => trivial
  | succ k ih =>
    cases v with
    | arr xs =>
      obtain ⟨ys, e, h2⟩ := hs
      simp only [keysArr, List.all_eq_true] at hv
      exact ⟨ys, e, h2.imp_mem (fun x y hx hr => ih x y (hv x hx) hr)⟩
    | null => trivial
    | lit s => trivial
    | str s => trivial
    | obj kvs => trivial

theorem lookupLast_all (f : J → Bool) (kvs : List (String × J)) (k : String)
    (hall : kvs.all (fun kv => f kv.2) = true) (hnull : f .null = true) :
    f ((lookupLast kvs k).getD .null) = true := by
  induction kvs with
  | nil => simpa [lookupLast] using hnull
  | cons kv r ih =>
    obtain ⟨k', v⟩ := kv
    simp only [List.all_cons, Bool.and_eq_true] at hall
    simp only [lookupLast]
    cases hl : lookupLast r k with
    | some v' =>
      have := ih hall.2
      rw [hl] at this
      simpa using this
    | none =>
      by_cases hk : k' = k
      · simpa [hk] using hall.1
      · simpa [hk] using hnull

theorem keptMap_of_shape (R Q : J → J → Prop) (f : J → Bool) (hnull : f .null = true)
    (hq : ∀ x y, f x = true → R x y → Q x y) (v v' : J)
    (hv : keysMap true f v = true) (hs : ShapeMap R v v') : KeptMap Q v v' := by
  cases v with
  | obj kvs =>
    obtain ⟨kvs', e, hk, hr⟩ := hs
    simp only [keysMap, Bool.not_true, Bool.false_or, Bool.and_eq_true] at hv
    have hlegal : (kvs.map Prod.fst).filter legalName = kvs.map Prod.fst := by
      apply List.filter_eq_self.mpr
      intro k hkm
      obtain ⟨kv, hm, rfl⟩ := List.mem_map.mp hkm
      exact (List.all_eq_true.mp hv.1) kv hm
    refine ⟨kvs', e, by rw [hk, hlegal], fun kv hm => hq _ _ (lookupLast_all f kvs kv.1 hv.2 hnull) (hr kv hm)⟩
  | null => trivial
  | lit s => trivial
  | str s => trivial
  | arr xs => trivial

/-! ## the gate accepts null everywhere -/

theorem keysArr_null (f : J → Bool) (k : Nat) : keysArr f k .null = true := by
  cases k <;> rfl

theorem keysVerified_null (ty : Ty) : keysVerified ty .null = true := by
  cases ty with
  | scalar => rfl
  | file e => rfl
  | arr e k => simp [keysVerified, keysArr_null]
  | tmap e => rfl
  | struct ms => rfl

/-! ## the theorem -/

mutual
theorem allKeysKept_of_shape (ty : Ty) (v v' : J) (hv : keysVerified ty v = true) (hs : Shape ty v v') :
    AllKeysKept ty v v' := by
  cases ty with
  | scalar => trivial
  | file e => trivial
  | arr e k =>
    simp only [AllKeysKept]
    simp only [Shape] at hs
    cases he : hasFile e with
    | false => simp
    | true =>
      simp only [he, if_true] at hs ⊢
      exact keptArr_of_shape (Shape e) (AllKeysKept e) (keysVerified e)
        (fun x y hx hr => allKeysKept_of_shape e x y hx hr) k v v' (by simpa [keysVerified] using hv) hs
  | tmap e =>
    simp only [AllKeysKept]
    simp only [Shape] at hs
    cases he : hasFile e with
    | false => simp
    | true =>
      simp only [he, if_true] at hs ⊢
      exact keptMap_of_shape (Shape e) (AllKeysKept e) (keysVerified e) (keysVerified_null e)
        (fun x y hx hr => allKeysKept_of_shape e x y hx hr) v v' (by simpa [keysVerified, he] using hv) hs
  | struct ms =>
    simp only [AllKeysKept]
    simp only [Shape] at hs
    cases he : hasFileMs ms with
    | false => simp
    | true =>
      simp only [he, if_true] at hs ⊢
      cases v with
      | obj kvs =>
        cases kvs with
        | nil => trivial
        | cons kv kvs =>
          obtain ⟨kvs', e, _, hr⟩ := hs
          simp only [keysVerified] at hv
          exact ⟨kvs', e, fun kv' hm => allKeysKeptMs_of_shape ms ms (kv :: kvs) kv'.1 _ _ hv (hr kv' hm) rfl⟩
      | null => trivial
      | lit s => trivial
      | str s => trivial
      | arr xs => trivial
theorem allKeysKeptMs_of_shape (all ms : List (String × String × Ty)) (kvs : List (String × J)) (k : String)
    (v v' : J) (hv : keysVerifiedMs ms kvs = true) (hs : ShapeMs ms k ((lookupLast kvs k).getD .null) v') :
    v = (lookupLast kvs k).getD .null → AllKeysKeptMs ms k v v' := by
  intro hveq
  subst hveq
  cases ms with
  | nil => trivial
  | cons m ms =>
    obtain ⟨id, on, t⟩ := m
    simp only [keysVerifiedMs, Bool.and_eq_true] at hv
    simp only [ShapeMs] at hs
    simp only [AllKeysKeptMs]
    by_cases hk : id = k
    · simp only [hk, if_true] at hs ⊢
      exact allKeysKept_of_shape t _ _ (by rw [← hk]; exact hv.1) hs
    · simp only [hk, if_false] at hs ⊢
      exact allKeysKeptMs_of_shape all ms kvs k _ _ hv.2 hs rfl
end

end Martian.PostProcess
