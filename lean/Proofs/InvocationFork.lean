/-
C16-H2: lemmas about the model of `Fork.writeInvocation` (Martian/InvocationFork.lean).
-/
import Martian.InvocationFork
import Proofs.Invocation
import Proofs.InvocationText

namespace Martian.InvocationFork
open Martian.Invocation Martian.InvocationText

/-! ### embedding of split-free expressions -/
mutual
theorem plainE_ofExp : ∀ e : Exp, plainE (ofExp e) = some e
  | .lit l => rfl
  | .arr xs => by simp [ofExp, plainE, plainL_ofEList xs]
  | .map k kvs => by simp [ofExp, plainE, plainK_ofEKvs kvs]
theorem plainL_ofEList : ∀ xs : EList, plainL (ofEList xs) = some xs
  | .nil => rfl
  | .cons e r => by simp [ofEList, plainL, plainE_ofExp e, plainL_ofEList r]
theorem plainK_ofEKvs : ∀ kvs : EKvs, plainK (ofEKvs kvs) = some kvs
  | .nil => rfl
  | .cons k e r => by simp [ofEKvs, plainK, plainE_ofExp e, plainK_ofEKvs r]
end

mutual
theorem encodeI_of_plain : ∀ (ie : IExp) (e : Exp), plainE ie = some e → encodeI ie = encode e
  | .lit l, e, h => by simp only [plainE, Option.some.injEq] at h; subst h; rfl
  | .arr xs, e, h => by
    simp only [plainE, Option.map_eq_some_iff] at h
    obtain ⟨es, hes, rfl⟩ := h
    simp [encodeI, encode, encodeIL_of_plain xs es hes]
  | .map k kvs, e, h => by
    simp only [plainE, Option.map_eq_some_iff] at h
    obtain ⟨es, hes, rfl⟩ := h
    simp [encodeI, encode, encodeIK_of_plain kvs es hes]
  | .split _, e, h => by simp [plainE] at h
theorem encodeIL_of_plain : ∀ (xs : IList) (es : EList), plainL xs = some es → encodeIL xs = encodeList es
  | .nil, es, h => by simp only [plainL, Option.some.injEq] at h; subst h; rfl
  | .cons e r, es, h => by
    simp only [plainL] at h
    split at h
    · rename_i e' r' he hr
      cases h
      simp [encodeIL, encodeList, encodeI_of_plain e e' he, encodeIL_of_plain r r' hr]
    · cases h
theorem encodeIK_of_plain : ∀ (kvs : IKvs) (es : EKvs), plainK kvs = some es → encodeIK kvs = encodeKvs es
  | .nil, es, h => by simp only [plainK, Option.some.injEq] at h; subst h; rfl
  | .cons k e r, es, h => by
    simp only [plainK] at h
    split at h
    · rename_i e' r' he hr
      cases h
      simp [encodeIK, encodeKvs, encodeI_of_plain e e' he, encodeIK_of_plain r r' hr]
    · cases h
end

mutual
theorem plainE_of_splitFree : ∀ ie : IExp, splitFreeI ie = true → ∃ e, plainE ie = some e
  | .lit l, _ => ⟨_, rfl⟩
  | .arr xs, h => by
    obtain ⟨es, hes⟩ := plainL_of_splitFree xs (by simpa [splitFreeI] using h)
    exact ⟨.arr es, by simp [plainE, hes]⟩
  | .map k kvs, h => by
    obtain ⟨es, hes⟩ := plainK_of_splitFree kvs (by simpa [splitFreeI] using h)
    exact ⟨.map k es, by simp [plainE, hes]⟩
  | .split _, h => by simp [splitFreeI] at h
theorem plainL_of_splitFree : ∀ xs : IList, splitFreeIL xs = true → ∃ es, plainL xs = some es
  | .nil, _ => ⟨_, rfl⟩
  | .cons e r, h => by
    simp only [splitFreeIL, Bool.and_eq_true] at h
    obtain ⟨e', he⟩ := plainE_of_splitFree e h.1
    obtain ⟨r', hr⟩ := plainL_of_splitFree r h.2
    exact ⟨.cons e' r', by simp [plainL, he, hr]⟩
theorem plainK_of_splitFree : ∀ kvs : IKvs, splitFreeIK kvs = true → ∃ es, plainK kvs = some es
  | .nil, _ => ⟨_, rfl⟩
  | .cons k e r, h => by
    simp only [splitFreeIK, Bool.and_eq_true] at h
    obtain ⟨e', he⟩ := plainE_of_splitFree e h.1
    obtain ⟨r', hr⟩ := plainK_of_splitFree r h.2
    exact ⟨.cons k e' r', by simp [plainK, he, hr]⟩
end

mutual
theorem splitFreeI_ofExp : ∀ e : Exp, splitFreeI (ofExp e) = true
  | .lit _ => rfl
  | .arr xs => by simp [ofExp, splitFreeI, splitFreeIL_ofEList xs]
  | .map _ kvs => by simp [ofExp, splitFreeI, splitFreeIK_ofEKvs kvs]
theorem splitFreeIL_ofEList : ∀ xs : EList, splitFreeIL (ofEList xs) = true
  | .nil => rfl
  | .cons e r => by simp [ofEList, splitFreeIL, splitFreeI_ofExp e, splitFreeIL_ofEList r]
theorem splitFreeIK_ofEKvs : ∀ kvs : EKvs, splitFreeIK (ofEKvs kvs) = true
  | .nil => rfl
  | .cons _ e r => by simp [ofEKvs, splitFreeIK, splitFreeI_ofExp e, splitFreeIK_ofEKvs r]
end

/-! ### the data of a converted value is the value's JSON -/

theorem encode_convert' (t : TypeId) (j : J) (e : Exp) (h : convert t j = some e) : encode e = normJ j := by
  simp only [convert, Option.map_eq_some_iff] at h
  obtain ⟨e0, h0, rfl⟩ := h
  rw [encode_fix, encode_ofJ _ e0 h0]

theorem encode_convertLazy (b : Base) (ad md : Nat) : ∀ (kvs : JKvs) (iks : IKvs) (es : EKvs),
    convertLazy b ad md kvs = some iks → plainK iks = some es → encodeKvs es = normJKvs kvs
  | .nil, iks, es, h, hp => by
    simp only [convertLazy, Option.some.injEq] at h; subst h
    simp only [plainK, Option.some.injEq] at hp; subst hp; rfl
  | .cons k j r, iks, es, h, hp => by
    simp only [convertLazy] at h
    split at h
    · rename_i e es' he hes
      cases h
      simp only [plainK, plainE_ofExp] at hp
      split at hp
      · rename_i e' r' he' hr'
        cases hp
        cases he'
        simp [encodeKvs, normJKvs, encode_convert' _ j _ he, encode_convertLazy b ad md r es' r' hes hr']
      · cases hp
    · cases h

mutual
theorem encode_convertMV : ∀ (v : MV) (b : Base) (ad md : Nat) (ie : IExp) (e : Exp),
    convertMV b ad md v = some ie → plainE ie = some e → encode e = normJ (marshal v)
  | .nil, b, ad, md, ie, e, h, hp => by
    simp only [convertMV, Option.some.injEq] at h; subst h
    simp only [plainE, Option.some.injEq] at hp; subst hp; rfl
  | .val x, b, ad, md, ie, e, h, hp => by
    simp only [convertMV, Option.some.injEq] at h; subst h
    rw [marshal, encodeI_of_plain x e hp, normJ_encode]
  | .raw j, b, ad, md, ie, e, h, hp => by
    simp only [convertMV, Option.map_eq_some_iff] at h
    obtain ⟨x, hx, rfl⟩ := h
    rw [plainE_ofExp] at hp; cases hp
    exact encode_convert' _ j _ hx
  | .lazy kvs, b, ad, md, ie, e, h, hp => by
    simp only [convertMV, Option.map_eq_some_iff] at h
    obtain ⟨iks, hi, rfl⟩ := h
    simp only [plainE, Option.map_eq_some_iff] at hp
    obtain ⟨es, hes, rfl⟩ := hp
    simp [encode, marshal, normJ, encode_convertLazy b ad md kvs iks es hi hes]
  | .mmap kvs, b, ad, md, ie, e, h, hp => by
    simp only [convertMV, Option.map_eq_some_iff] at h
    obtain ⟨iks, hi, rfl⟩ := h
    simp only [plainE, Option.map_eq_some_iff] at hp
    obtain ⟨es, hes, rfl⟩ := hp
    simp [encode, marshal, normJ, encode_convertMK kvs b ad md iks es hi hes]
  | .marr xs, b, ad, md, ie, e, h, hp => by
    simp only [convertMV, Option.map_eq_some_iff] at h
    obtain ⟨ixs, hi, rfl⟩ := h
    simp only [plainE, Option.map_eq_some_iff] at hp
    obtain ⟨es, hes, rfl⟩ := hp
    simp [encode, marshal, normJ, encode_convertML xs b (ad - 1) md ixs es hi hes]
theorem encode_convertML : ∀ (xs : MList) (b : Base) (ad md : Nat) (ixs : IList) (es : EList),
    convertML b ad md xs = some ixs → plainL ixs = some es → encodeList es = normJList (marshalL xs)
  | .nil, b, ad, md, ixs, es, h, hp => by
    simp only [convertML, Option.some.injEq] at h; subst h
    simp only [plainL, Option.some.injEq] at hp; subst hp; rfl
  | .cons v r, b, ad, md, ixs, es, h, hp => by
    simp only [convertML] at h
    split at h
    · rename_i ie ies hv hr
      cases h
      simp only [plainL] at hp
      split at hp
      · rename_i e' r' he' hr'
        cases hp
        simp [encodeList, marshalL, normJList, encode_convertMV v b ad md ie e' hv he',
          encode_convertML r b ad md ies r' hr hr']
      · cases hp
    · cases h
theorem encode_convertMK : ∀ (kvs : MKvs) (b : Base) (ad md : Nat) (iks : IKvs) (es : EKvs),
    convertMK b ad md kvs = some iks → plainK iks = some es → encodeKvs es = normJKvs (marshalK kvs)
  | .nil, b, ad, md, iks, es, h, hp => by
    simp only [convertMK, Option.some.injEq] at h; subst h
    simp only [plainK, Option.some.injEq] at hp; subst hp; rfl
  | .cons k v r, b, ad, md, iks, es, h, hp => by
    simp only [convertMK] at h
    split at h
    · rename_i ie ies hv hr
      cases h
      simp only [plainK] at hp
      split at hp
      · rename_i e' r' he' hr'
        cases hp
        simp [encodeKvs, marshalK, normJKvs, encode_convertMV v _ _ _ ie e' hv he',
          encode_convertMK r b ad md ies r' hr hr']
      · cases hp
    · cases h
end

/-! ### one binding -/

theorem dataOfBinding_buildBinding (s : Bool) (t : TypeId) (j : J) (a : Arg)
    (h : buildBinding s t j = some a) : encodeArg a = canonArg s j ∧ a.isSplit = s := by
  unfold buildBinding at h
  cases s with
  | false =>
    simp only [Bool.false_eq_true, if_false, Option.map_eq_some_iff] at h
    obtain ⟨e, he, rfl⟩ := h
    simp [Arg.isSplit, encodeArg, canonArg, encode_convert' t j e he]
  | true =>
    simp only [if_true] at h
    cases j with
    | lit _ => cases h
    | arr _ => cases h
    | obj kvs =>
      simp only at h
      cases hf : kvs.findSplit with
      | none => simp [hf] at h
      | some v =>
        simp only [hf, Option.map_eq_some_iff] at h
        obtain ⟨e, he, rfl⟩ := h
        simp [Arg.isSplit, encodeArg, canonArg, hf, encode_convertSplit _ v e he]

theorem plainArg_ofArg (a : Arg) : plainArg (ofArg a) = some a := by
  cases a <;> simp [ofArg, plainArg, plainE_ofExp]

/-- the binding of a converted value that is no `RawMessage` and not `nil` -/
theorem binding_of_converted (s : Bool) (v : MV) (ie : IExp) (a : Arg)
    (hp : plainArg (wrapBinding s ie) = some a)
    (henc : ∀ e, plainE ie = some e → encode e = normJ (marshal v))
    (hv : ∀ op, ie = .split op → v = .val (.split op)) :
    encodeArg a = (match ie with
      | .split op => J.obj (.cons splitKey (normJ (encodeI op)) .nil)
      | _ => if s then J.obj (.cons splitKey (normJ (marshal v)) .nil) else normJ (marshal v)) ∧
    a.isSplit = (match ie with | .split _ => true | _ => s) := by
  cases ie with
  | split op =>
    simp only [wrapBinding, plainArg, Option.map_eq_some_iff] at hp
    obtain ⟨x, hx, rfl⟩ := hp
    simp [encodeArg, Arg.isSplit, encodeI_of_plain op x hx, normJ_encode]
  | lit l =>
    cases s <;> simp only [wrapBinding, plainArg, Bool.false_eq_true, if_false, if_true, Option.map_eq_some_iff] at hp <;>
      obtain ⟨x, hx, rfl⟩ := hp <;> simp [encodeArg, Arg.isSplit, henc x hx]
  | arr xs =>
    cases s <;> simp only [wrapBinding, plainArg, Bool.false_eq_true, if_false, if_true, Option.map_eq_some_iff] at hp <;>
      obtain ⟨x, hx, rfl⟩ := hp <;> simp [encodeArg, Arg.isSplit, henc x hx]
  | map k kvs =>
    cases s <;> simp only [wrapBinding, plainArg, Bool.false_eq_true, if_false, if_true, Option.map_eq_some_iff] at hp <;>
      obtain ⟨x, hx, rfl⟩ := hp <;> simp [encodeArg, Arg.isSplit, henc x hx]

theorem convertMV_split (b : Base) (ad md : Nat) (v : MV) (op : IExp)
    (h : convertMV b ad md v = some (.split op)) : v = .val (.split op) := by
  cases v with
  | nil => simp [convertMV] at h
  | val e => simp only [convertMV, Option.some.injEq] at h; rw [h]
  | raw j =>
    simp only [convertMV, Option.map_eq_some_iff] at h
    obtain ⟨x, _, hx⟩ := h
    cases x <;> simp [ofExp] at hx
  | lazy kvs => simp only [convertMV, Option.map_eq_some_iff] at h; obtain ⟨_, _, hx⟩ := h; cases hx
  | mmap kvs => simp only [convertMV, Option.map_eq_some_iff] at h; obtain ⟨_, _, hx⟩ := h; cases hx
  | marr xs => simp only [convertMV, Option.map_eq_some_iff] at h; obtain ⟨_, _, hx⟩ := h; cases hx

/-- ONE BINDING: what `BuildDataForAst` reads off the binding `BuildCallAst` made of a value -/
theorem data_bindingOf (s : Bool) (t : TypeId) (v : MV) (ia : IArg) (a : Arg)
    (h : bindingOf s t v = some ia) (hp : plainArg ia = some a) :
    encodeArg a = canonTop s v ∧ a.isSplit = isSplitTop s v := by
  have gen : ∀ v : MV, (∀ j, v ≠ .raw j) → v ≠ .nil →
      (convertMV t.base t.arrayDim t.mapDim v).map (wrapBinding s) = some ia →
      encodeArg a = canonTop s v ∧ a.isSplit = isSplitTop s v := by
    intro v hraw hnil hc
    simp only [Option.map_eq_some_iff] at hc
    obtain ⟨ie, hie, rfl⟩ := hc
    have := binding_of_converted s v ie a hp
      (fun e he => encode_convertMV v _ _ _ ie e hie he)
      (fun op hop => convertMV_split _ _ _ v op (hop ▸ hie))
    cases ie with
    | split op =>
      have hv := convertMV_split _ _ _ v op hie
      subst hv
      simpa [canonTop, isSplitTop] using this
    | lit l =>
      cases v with
      | nil => exact absurd rfl hnil
      | raw j => exact absurd rfl (hraw j)
      | val e =>
        simp only [convertMV, Option.some.injEq] at hie; subst hie
        simpa [canonTop, isSplitTop] using this
      | lazy kvs => simpa [canonTop, isSplitTop] using this
      | mmap kvs => simpa [canonTop, isSplitTop] using this
      | marr xs => simpa [canonTop, isSplitTop] using this
    | arr xs' =>
      cases v with
      | nil => exact absurd rfl hnil
      | raw j => exact absurd rfl (hraw j)
      | val e =>
        simp only [convertMV, Option.some.injEq] at hie; subst hie
        simpa [canonTop, isSplitTop] using this
      | lazy kvs => simpa [canonTop, isSplitTop] using this
      | mmap kvs => simpa [canonTop, isSplitTop] using this
      | marr xs => simpa [canonTop, isSplitTop] using this
    | map k kvs' =>
      cases v with
      | nil => exact absurd rfl hnil
      | raw j => exact absurd rfl (hraw j)
      | val e =>
        simp only [convertMV, Option.some.injEq] at hie; subst hie
        simpa [canonTop, isSplitTop] using this
      | lazy kvs => simpa [canonTop, isSplitTop] using this
      | mmap kvs => simpa [canonTop, isSplitTop] using this
      | marr xs => simpa [canonTop, isSplitTop] using this
  cases v with
  | nil =>
    simp only [bindingOf, Option.some.injEq] at h; subst h
    simp only [plainArg, plainE, Option.map_some, Option.some.injEq] at hp; subst hp
    simp [encodeArg, encode, encLit, canonTop, isSplitTop, Arg.isSplit]
  | raw j =>
    simp only [bindingOf, Option.map_eq_some_iff] at h
    obtain ⟨a0, ha0, rfl⟩ := h
    rw [plainArg_ofArg] at hp; cases hp
    simpa [canonTop, isSplitTop] using dataOfBinding_buildBinding s t j a ha0
  | val e => exact gen _ (by intro j hj; cases hj) (by intro hj; cases hj) (by simpa [bindingOf] using h)
  | lazy kvs => exact gen _ (by intro j hj; cases hj) (by intro hj; cases hj) (by simpa [bindingOf] using h)
  | mmap kvs => exact gen _ (by intro j hj; cases hj) (by intro hj; cases hj) (by simpa [bindingOf] using h)
  | marr xs => exact gen _ (by intro j hj; cases hj) (by intro hj; cases hj) (by simpa [bindingOf] using h)

/-! ### the whole call -/

theorem forkData_cons (p : Str) (t : TypeId) (ps : Sig) (mapped : List Str) (args : List (Str × MV)) :
    forkData ((p, t) :: ps) mapped args =
      { args := (p, argData mapped args p) :: (forkData ps mapped args).args,
        splitargs := if argSplit mapped args p = true
                     then p :: (forkData ps mapped args).splitargs
                     else (forkData ps mapped args).splitargs } := by
  by_cases h : argSplit mapped args p = true
  · simp only [forkData, List.map_cons, List.filter_cons, h, if_true]
  · simp only [forkData, List.map_cons, List.filter_cons, h, if_false, Bool.false_eq_true]

/-- THE CALL: the data `BuildDataForAst` reads off the call `BuildCallAst` built from the fork's
resolved inputs is `forkData` -/
theorem dataOf_invocationOf : ∀ (sig : Sig) (mapped : List Str) (args : List (Str × MV))
    (ibs : List (Str × IArg)) (bs : List (Str × Arg)),
    invocationOf sig mapped args = some ibs → plainBinds ibs = some bs →
    dataOf bs = forkData sig mapped args
  | [], mapped, args, ibs, bs, h, hp => by
    simp only [invocationOf, Option.some.injEq] at h; subst h
    simp only [plainBinds, Option.some.injEq] at hp; subst hp
    simp [dataOf, forkData]
  | (p, t) :: ps, mapped, args, ibs, bs, h, hp => by
    simp only [invocationOf] at h
    split at h
    · rename_i ia ibs' hia hibs
      cases h
      simp only [plainBinds] at hp
      split at hp
      · rename_i a bs' ha hbs
        cases hp
        rw [dataOf_cons, forkData_cons, dataOf_invocationOf ps mapped args ibs' bs' hibs hbs]
        cases hl : lookupMV args p with
        | none =>
          simp only [hl, Option.some.injEq] at hia; subst hia
          simp only [plainArg, plainE, Option.map_some, Option.some.injEq] at ha; subst ha
          simp [encodeArg, encode, encLit, Arg.isSplit, argData, argSplit, hl]
        | some v =>
          simp only [hl] at hia
          have hb := data_bindingOf _ t v ia a hia ha
          simp only [hb.1, hb.2, argData, argSplit, hl]
      · cases hp
    · cases h

/-! ### stage forks: nothing is left split -/

theorem lookupArg_marshalArgs (p : Str) : ∀ args : List (Str × MV),
    ((marshalArgs args).any (fun q => q.1 = p) = (lookupMV args p).isSome) ∧
    (∀ v, lookupMV args p = some v → lookupArg (marshalArgs args) p = marshal v)
  | [] => by simp [marshalArgs, lookupMV]
  | (k, v) :: r => by
    have ih := lookupArg_marshalArgs p r
    by_cases hk : k = p
    · subst hk
      simp [marshalArgs, lookupMV, lookupArg]
    · simp only [marshalArgs, lookupMV, lookupArg] at ih ⊢
      simp only [List.map_cons, List.any_cons, List.find?_cons, hk, decide_false, Bool.false_or]
      exact ih

theorem canonTop_false_of_splitFree (v : MV) (h : splitFree v = true) :
    canonTop false v = normJ (marshal v) ∧ isSplitTop false v = false := by
  cases v with
  | nil => simp [canonTop, isSplitTop, marshal, normJ, encLit]
  | raw j => simp [canonTop, isSplitTop, marshal, canonArg]
  | val e =>
    cases e with
    | split op => simp [splitFree, splitFreeI] at h
    | lit l => simp [canonTop, isSplitTop]
    | arr xs => simp [canonTop, isSplitTop]
    | map k kvs => simp [canonTop, isSplitTop]
  | lazy kvs => simp [canonTop, isSplitTop]
  | mmap kvs => simp [canonTop, isSplitTop]
  | marr xs => simp [canonTop, isSplitTop]

/-- a fork none of whose inputs is left split (mapped = [], no `SplitExp` in a value): the data is the
canonical form of the marshalled arguments – `canonData` of what `_args` has -/
theorem forkData_stage (args : List (Str × MV)) (hs : ∀ p v, lookupMV args p = some v → splitFree v = true) :
    ∀ sig : Sig, forkData sig [] args = canonData sig ⟨marshalArgs args, []⟩
  | [] => by simp [forkData, canonData]
  | (p, t) :: ps => by
    rw [forkData_cons, canonData_cons, forkData_stage args hs ps]
    have hl := lookupArg_marshalArgs p args
    cases hv : lookupMV args p with
    | none => simp [hl.1, hv, argData, argSplit]
    | some v =>
      have hc := canonTop_false_of_splitFree v (hs p v hv)
      simp [hl.1, hv, hl.2 v hv, hc.1, hc.2, canonArg, argData, argSplit]

theorem splitFreeIK_convertLazy (b : Base) (ad md : Nat) : ∀ (kvs : JKvs) (iks : IKvs),
    convertLazy b ad md kvs = some iks → splitFreeIK iks = true
  | .nil, iks, h => by simp only [convertLazy, Option.some.injEq] at h; subst h; rfl
  | .cons k j r, iks, h => by
    simp only [convertLazy] at h
    split at h
    · rename_i e es he hes
      cases h
      simp [splitFreeIK, splitFreeI_ofExp, splitFreeIK_convertLazy b ad md r es hes]
    · cases h

mutual
theorem splitFreeI_convertMV : ∀ (v : MV) (b : Base) (ad md : Nat) (ie : IExp), splitFree v = true →
    convertMV b ad md v = some ie → splitFreeI ie = true
  | .nil, b, ad, md, ie, _, h => by simp only [convertMV, Option.some.injEq] at h; subst h; rfl
  | .val e, b, ad, md, ie, hs, h => by
    simp only [convertMV, Option.some.injEq] at h; subst h
    simpa [splitFree] using hs
  | .raw j, b, ad, md, ie, _, h => by
    simp only [convertMV, Option.map_eq_some_iff] at h
    obtain ⟨x, _, rfl⟩ := h
    exact splitFreeI_ofExp x
  | .lazy kvs, b, ad, md, ie, _, h => by
    simp only [convertMV, Option.map_eq_some_iff] at h
    obtain ⟨iks, hi, rfl⟩ := h
    simpa [splitFreeI] using splitFreeIK_convertLazy b ad md kvs iks hi
  | .mmap kvs, b, ad, md, ie, hs, h => by
    simp only [convertMV, Option.map_eq_some_iff] at h
    obtain ⟨iks, hi, rfl⟩ := h
    simpa [splitFreeI] using splitFreeIK_convertMK kvs b ad md iks (by simpa [splitFree] using hs) hi
  | .marr xs, b, ad, md, ie, hs, h => by
    simp only [convertMV, Option.map_eq_some_iff] at h
    obtain ⟨ixs, hi, rfl⟩ := h
    simpa [splitFreeI] using splitFreeIL_convertML xs b (ad - 1) md ixs (by simpa [splitFree] using hs) hi
theorem splitFreeIL_convertML : ∀ (xs : MList) (b : Base) (ad md : Nat) (ies : IList), splitFreeL xs = true →
    convertML b ad md xs = some ies → splitFreeIL ies = true
  | .nil, b, ad, md, ies, _, h => by simp only [convertML, Option.some.injEq] at h; subst h; rfl
  | .cons v r, b, ad, md, ies, hs, h => by
    simp only [splitFreeL, Bool.and_eq_true] at hs
    simp only [convertML] at h
    split at h
    · rename_i e es he hes
      cases h
      simp [splitFreeIL, splitFreeI_convertMV v b ad md e hs.1 he, splitFreeIL_convertML r b ad md es hs.2 hes]
    · cases h
theorem splitFreeIK_convertMK : ∀ (kvs : MKvs) (b : Base) (ad md : Nat) (ies : IKvs), splitFreeK kvs = true →
    convertMK b ad md kvs = some ies → splitFreeIK ies = true
  | .nil, b, ad, md, ies, _, h => by simp only [convertMK, Option.some.injEq] at h; subst h; rfl
  | .cons k v r, b, ad, md, ies, hs, h => by
    simp only [splitFreeK, Bool.and_eq_true] at hs
    simp only [convertMK] at h
    split at h
    · rename_i e es he hes
      cases h
      simp [splitFreeIK, splitFreeI_convertMV v _ _ _ e hs.1 he, splitFreeIK_convertMK r b ad md es hs.2 hes]
    · cases h
end

theorem topOk_of_splitFree (v : MV) (h : splitFree v = true) : topOk v = true := by
  cases v with
  | val e => cases e <;> simp_all [topOk, splitFree, splitFreeI]
  | nil => simpa [topOk] using h
  | raw j => simpa [topOk] using h
  | lazy kvs => simpa [topOk] using h
  | mmap kvs => simpa [topOk] using h
  | marr xs => simpa [topOk] using h

/-- nothing of the call built from such values has a split inside a value -/
theorem plainBinds_of_topOk (args : List (Str × MV))
    (hs : ∀ p v, lookupMV args p = some v → topOk v = true) :
    ∀ (sig : Sig) (ibs : List (Str × IArg)), invocationOf sig [] args = some ibs →
      ∃ bs, plainBinds ibs = some bs := by
  intro sig
  induction sig with
  | nil =>
    intro ibs h
    simp only [invocationOf, Option.some.injEq] at h; subst h
    exact ⟨[], rfl⟩
  | cons pt ps ih =>
    obtain ⟨p, t⟩ := pt
    intro ibs h
    simp only [invocationOf] at h
    split at h
    · rename_i ia ibs' hia hibs
      cases h
      obtain ⟨bs', hbs'⟩ := ih ibs' hibs
      have hwrap : ∀ (v : MV) (ie : IExp), splitFree v = true →
          convertMV t.base t.arrayDim t.mapDim v = some ie → ∃ a, plainArg (wrapBinding false ie) = some a := by
        intro v ie hsf hie
        have hse := splitFreeI_convertMV _ _ _ _ ie hsf hie
        obtain ⟨x, hx⟩ := plainE_of_splitFree ie hse
        cases ie with
        | split op => simp [splitFreeI] at hse
        | lit l => exact ⟨.plain x, by simp [wrapBinding, plainArg, hx]⟩
        | arr xs => exact ⟨.plain x, by simp [wrapBinding, plainArg, hx]⟩
        | map k kvs => exact ⟨.plain x, by simp [wrapBinding, plainArg, hx]⟩
      have : ∃ a, plainArg ia = some a := by
        cases hl : lookupMV args p with
        | none =>
          simp only [hl, Option.some.injEq] at hia; subst hia
          exact ⟨_, rfl⟩
        | some v =>
          simp only [hl, List.contains_nil] at hia
          have hsf := hs p v hl
          cases v with
          | nil => simp only [bindingOf, Option.some.injEq] at hia; subst hia; exact ⟨_, rfl⟩
          | raw j =>
            simp only [bindingOf, Option.map_eq_some_iff] at hia
            obtain ⟨a0, _, rfl⟩ := hia
            exact ⟨a0, plainArg_ofArg a0⟩
          | val e =>
            cases e with
            | split op =>
              simp only [bindingOf, convertMV, Option.map_some, Option.some.injEq] at hia; subst hia
              obtain ⟨x, hx⟩ := plainE_of_splitFree op (by simpa [topOk] using hsf)
              exact ⟨.split x, by simp [wrapBinding, plainArg, hx]⟩
            | lit l =>
              simp only [bindingOf, Option.map_eq_some_iff] at hia
              obtain ⟨ie, hie, rfl⟩ := hia
              exact hwrap _ ie (by simpa [topOk] using hsf) hie
            | arr xs =>
              simp only [bindingOf, Option.map_eq_some_iff] at hia
              obtain ⟨ie, hie, rfl⟩ := hia
              exact hwrap _ ie (by simpa [topOk] using hsf) hie
            | map k kvs =>
              simp only [bindingOf, Option.map_eq_some_iff] at hia
              obtain ⟨ie, hie, rfl⟩ := hia
              exact hwrap _ ie (by simpa [topOk] using hsf) hie
          | lazy kvs =>
            simp only [bindingOf, Option.map_eq_some_iff] at hia
            obtain ⟨ie, hie, rfl⟩ := hia
            exact hwrap _ ie (by simpa [topOk] using hsf) hie
          | mmap kvs =>
            simp only [bindingOf, Option.map_eq_some_iff] at hia
            obtain ⟨ie, hie, rfl⟩ := hia
            exact hwrap _ ie (by simpa [topOk] using hsf) hie
          | marr xs =>
            simp only [bindingOf, Option.map_eq_some_iff] at hia
            obtain ⟨ie, hie, rfl⟩ := hia
            exact hwrap _ ie (by simpa [topOk] using hsf) hie
      obtain ⟨a, ha⟩ := this
      exact ⟨(p, a) :: bs', by simp [plainBinds, ha, hbs']⟩
    · cases h

theorem plainBinds_of_splitFree (args : List (Str × MV))
    (hs : ∀ p v, lookupMV args p = some v → splitFree v = true)
    (sig : Sig) (ibs : List (Str × IArg)) (h : invocationOf sig [] args = some ibs) :
    ∃ bs, plainBinds ibs = some bs :=
  plainBinds_of_topOk args (fun p v hv => topOk_of_splitFree v (hs p v hv)) sig ibs h

/-! ### integers in range: `BuildCallAst` succeeds -/

theorem convert_isSome (t : TypeId) (j : J) (h : jIntsOk j = true) : ∃ e, convert t j = some e := by
  obtain ⟨e, he⟩ := ofJ_isSome j h
  simp [convert, he]

theorem convertLazy_isSome (b : Base) (ad md : Nat) : ∀ kvs : JKvs, jIntsOkKvs kvs = true →
    ∃ iks, convertLazy b ad md kvs = some iks
  | .nil, _ => ⟨_, rfl⟩
  | .cons k j r, h => by
    simp only [jIntsOkKvs, Bool.and_eq_true] at h
    obtain ⟨e, he⟩ := convert_isSome (memberType b ad md k) j h.1
    obtain ⟨es, hes⟩ := convertLazy_isSome b ad md r h.2
    simp [convertLazy, he, hes]

mutual
theorem convertMV_isSome : ∀ (v : MV) (b : Base) (ad md : Nat), mvIntsOk v = true →
    ∃ ie, convertMV b ad md v = some ie
  | .nil, _, _, _, _ => ⟨_, rfl⟩
  | .val e, _, _, _, _ => ⟨_, rfl⟩
  | .raw j, b, ad, md, h => by
    obtain ⟨e, he⟩ := convert_isSome ⟨b, ad, md⟩ j (by simpa [mvIntsOk] using h)
    simp [convertMV, he]
  | .lazy kvs, b, ad, md, h => by
    obtain ⟨es, hes⟩ := convertLazy_isSome b ad md kvs (by simpa [mvIntsOk] using h)
    simp [convertMV, hes]
  | .mmap kvs, b, ad, md, h => by
    obtain ⟨es, hes⟩ := convertMK_isSome kvs b ad md (by simpa [mvIntsOk] using h)
    simp [convertMV, hes]
  | .marr xs, b, ad, md, h => by
    obtain ⟨es, hes⟩ := convertML_isSome xs b (ad - 1) md (by simpa [mvIntsOk] using h)
    simp [convertMV, hes]
theorem convertML_isSome : ∀ (xs : MList) (b : Base) (ad md : Nat), mvIntsOkL xs = true →
    ∃ ies, convertML b ad md xs = some ies
  | .nil, _, _, _, _ => ⟨_, rfl⟩
  | .cons v r, b, ad, md, h => by
    simp only [mvIntsOkL, Bool.and_eq_true] at h
    obtain ⟨e, he⟩ := convertMV_isSome v b ad md h.1
    obtain ⟨es, hes⟩ := convertML_isSome r b ad md h.2
    simp [convertML, he, hes]
theorem convertMK_isSome : ∀ (kvs : MKvs) (b : Base) (ad md : Nat), mvIntsOkK kvs = true →
    ∃ ies, convertMK b ad md kvs = some ies
  | .nil, _, _, _, _ => ⟨_, rfl⟩
  | .cons k v r, b, ad, md, h => by
    simp only [mvIntsOkK, Bool.and_eq_true] at h
    obtain ⟨e, he⟩ := convertMV_isSome v (memberType b ad md k).base (memberType b ad md k).arrayDim
      (memberType b ad md k).mapDim h.1
    obtain ⟨es, hes⟩ := convertMK_isSome r b ad md h.2
    simp [convertMK, he, hes]
end

/-- with every integer of the resolved values in range and nothing listed as left split,
`BuildCallAst` succeeds -/
theorem invocationOf_isSome (args : List (Str × MV))
    (hi : ∀ p v, lookupMV args p = some v → mvIntsOk v = true) :
    ∀ sig : Sig, ∃ ibs, invocationOf sig [] args = some ibs
  | [] => ⟨[], rfl⟩
  | (p, t) :: ps => by
    obtain ⟨ibs', h'⟩ := invocationOf_isSome args hi ps
    have hb : ∀ v, lookupMV args p = some v → ∃ ia, bindingOf false t v = some ia := by
      intro v hl
      have hv := hi p v hl
      cases v with
      | nil => exact ⟨_, rfl⟩
      | raw j =>
        obtain ⟨e, he⟩ := convert_isSome t j (by simpa [mvIntsOk] using hv)
        simp [bindingOf, buildBinding, he]
      | val e => simp [bindingOf, convertMV]
      | lazy kvs =>
        obtain ⟨ie, hie⟩ := convertMV_isSome (.lazy kvs) t.base t.arrayDim t.mapDim hv
        simp [bindingOf, hie]
      | mmap kvs =>
        obtain ⟨ie, hie⟩ := convertMV_isSome (.mmap kvs) t.base t.arrayDim t.mapDim hv
        simp [bindingOf, hie]
      | marr xs =>
        obtain ⟨ie, hie⟩ := convertMV_isSome (.marr xs) t.base t.arrayDim t.mapDim hv
        simp [bindingOf, hie]
    simp only [invocationOf, h', List.contains_nil]
    cases hl : lookupMV args p with
    | none => simp
    | some v =>
      obtain ⟨ia, hia⟩ := hb v hl
      simp [hia]

/-! ### reading the resolver model -/

theorem argsOfInputs_raw (st : Martian.Dataflow.StructTable) (nf : Nat) (ρ : Martian.ResolverForks.Store)
    (f : Martian.ResolverForks.ForkAssign) : ∀ (ins : Martian.ResolverStatic.RBMap) (args : List (Str × MV)),
    argsOfInputs st nf ρ f ins = some args → ∀ p v, lookupMV args p = some v → ∃ j, v = .raw j
  | [], args, h, p, v, hv => by
    simp only [argsOfInputs, Option.some.injEq] at h; subst h
    simp [lookupMV] at hv
  | kv :: r, args, h, p, v, hv => by
    simp only [argsOfInputs] at h
    split at h
    · rename_i j as hj has
      cases h
      by_cases hk : strBytes kv.1 = p
      · simp only [lookupMV, List.find?_cons, hk, decide_true, Option.map_some, Option.some.injEq] at hv
        exact ⟨j, hv.symm⟩
      · simp only [lookupMV, List.find?_cons, hk, decide_false] at hv
        exact argsOfInputs_raw st nf ρ f r as has p v hv
    · cases h

/-- the marshalled arguments of the node's fork ARE the argument record of the resolver model
(`ResolverStatic.runtimeArgs`, what C01 ties to the real `_args`), read as an invocation tree -/
theorem marshalArgs_argsOfInputs (st : Martian.Dataflow.StructTable) (nf : Nat) (ρ : Martian.ResolverForks.Store)
    (f : Martian.ResolverForks.ForkAssign) : ∀ (ins : Martian.ResolverStatic.RBMap) (args : List (Str × MV)),
    argsOfInputs st nf ρ f ins = some args →
    ofDJKvs (ins.map fun kv => (kv.1, Martian.ResolverStatic.evalRT st nf ρ f kv.2.ty kv.2.exp))
      = some (kvsOfList (marshalArgs args))
  | [], args, h => by
    simp only [argsOfInputs, Option.some.injEq] at h; subst h; rfl
  | kv :: r, args, h => by
    simp only [argsOfInputs] at h
    split at h
    · rename_i j as hj has
      cases h
      simp [ofDJKvs, hj, marshalArgs_argsOfInputs st nf ρ f r as has, marshalArgs, kvsOfList, marshal]
    · cases h

/-! ### the text leg with `Id ≠ DecId` (`call X as Y`) -/

theorem fork_text_leg (g : G) (decId id : Str) (bs : List (Str × Arg)) (hw : wfForkText g decId id bs = true)
    (hf : floatsOkBinds g bs = true) :
    forkTextLeg g decId id bs = some (decId, id, bs.map fun b => (b.1, b.2.reparse)) := by
  have h := Martian.FormatCall.parseCall_fmtCall (forkCall g decId id bs) hw
  unfold forkTextLeg printFork
  rw [h]
  simp only [Option.map_some, Martian.FormatCall.normCall, forkCall, List.map_map, Option.some.injEq,
    Prod.mk.injEq, true_and]
  apply List.map_congr_left
  intro b hb
  simp only [Function.comp]
  exact ofFBind_norm_toFBind g b (by
    simp only [floatsOkBinds, List.all_eq_true] at hf
    exact hf b hb)

end Martian.InvocationFork
