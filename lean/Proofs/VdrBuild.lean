import Martian.VdrBuild
import Proofs.VdrInv
import Proofs.VdrReclaim

/-! Lemmas about the construction of the VDR bookkeeping (Martian/VdrBuild.lean):
the tables built by attachToFileParents / setupRetains satisfy the
bookkeeping invariant `BK`, every registered reference is held, and both
survive the rest of the construction and `cloneFork`. -/
namespace Martian.Vdr

theorem lookup_some_mem {β : Type} {l : List (String × β)} {a : String} {v : β}
    (h : l.lookup a = some v) : (a, v) ∈ l := by
  induction l with
  | nil => simp [List.lookup] at h
  | cons x r ih =>
    obtain ⟨k, w⟩ := x
    simp only [List.lookup] at h
    split at h
    · rename_i hk
      have : a = k := by simpa using hk
      cases h; subst this; exact List.mem_cons_self
    · exact List.mem_cons_of_mem _ (ih h)

/-- holder `h` is registered for output `a` in the table -/
def HoldsT (t : Tab) (a : Arg) (h : Holder) : Prop := ∃ hs, (a, hs) ∈ t.fileArgs ∧ h ∈ hs

theorem HoldsT.st {t : Tab} {a : Arg} {h : Holder} (x : HoldsT t a h) (d : List DiskEnt) :
    Holds (t.st d) a h := x

/-- `BK` on a table -/
structure TabBK (t : Tab) : Prop where
  cons : ∀ a hs, (a, hs) ∈ t.fileArgs → ∀ n, some n ∈ hs → ∃ as, t.postNodes.lookup n = some as ∧ a ∈ as
  ne : ∀ a hs, (a, hs) ∈ t.fileArgs → hs ≠ []

theorem TabBK.st {t : Tab} (k : TabBK t) (d : List DiskEnt) : BK (t.st d) := ⟨k.cons, k.ne⟩

/-- node `n` occurs in the table (as a holder or as a post node) -/
def Mentions (t : Tab) (n : Node) : Prop := (∃ a, HoldsT t a (some n)) ∨ (∃ as, (n, as) ∈ t.postNodes)

/-! ### `hold` -/

theorem hold_postNodes (t : Tab) (a : Arg) (h : Holder) : (t.hold a h).postNodes = t.postNodes := by
  unfold Tab.hold
  split
  · rfl
  · split <;> rfl

theorem hold_cases {t : Tab} {a : Arg} {h : Holder} {a' : Arg} {hs' : List Holder}
    (hm : (a', hs') ∈ (t.hold a h).fileArgs) :
    (a', hs') ∈ t.fileArgs ∨ (a' = a ∧ hs' = [h]) ∨ (a' = a ∧ ∃ hs, (a, hs) ∈ t.fileArgs ∧ hs' = hs ++ [h]) := by
  unfold Tab.hold at hm
  split at hm
  · simp only [List.mem_append, List.mem_singleton] at hm
    rcases hm with hm | hm
    · exact Or.inl hm
    · cases hm; exact Or.inr (Or.inl ⟨rfl, rfl⟩)
  · split at hm
    · exact Or.inl hm
    · simp only [List.mem_map] at hm
      obtain ⟨p, hp, e⟩ := hm
      split at e
      · rename_i hk
        have hk' : p.1 = a := by simpa using hk
        cases e
        refine Or.inr (Or.inr ⟨hk', p.2, ?_, rfl⟩)
        rw [← hk']; exact hp
      · cases e; exact Or.inl hp

theorem hold_holds (t : Tab) (a : Arg) (h : Holder) : HoldsT (t.hold a h) a h := by
  unfold Tab.hold
  split
  · exact ⟨[h], by simp, by simp⟩
  · rename_i hs hl
    split
    · rename_i hc
      exact ⟨hs, lookup_some_mem hl, by simpa using hc⟩
    · refine ⟨hs ++ [h], ?_, by simp⟩
      simp only [List.mem_map]
      exact ⟨(a, hs), lookup_some_mem hl, by simp⟩

theorem hold_mono {t : Tab} {a : Arg} {h : Holder} {a' : Arg} {h' : Holder} (x : HoldsT t a' h') :
    HoldsT (t.hold a h) a' h' := by
  obtain ⟨hs, hm, hh⟩ := x
  unfold Tab.hold
  split
  · exact ⟨hs, by simp [hm], hh⟩
  · split
    · exact ⟨hs, hm, hh⟩
    · by_cases e : a' = a
      · refine ⟨hs ++ [h], ?_, by simp [hh]⟩
        simp only [List.mem_map]
        exact ⟨(a', hs), hm, by simp [e]⟩
      · refine ⟨hs, ?_, hh⟩
        simp only [List.mem_map]
        refine ⟨(a', hs), hm, ?_⟩
        have : (a' == a) = false := by simpa using e
        simp [this]

/-- a holder found after `hold` was there before, or is the one added -/
theorem hold_inv {t : Tab} {a : Arg} {h : Holder} {a' : Arg} {h' : Holder} (x : HoldsT (t.hold a h) a' h') :
    HoldsT t a' h' ∨ (a' = a ∧ h' = h) := by
  obtain ⟨hs, hm, hh⟩ := x
  rcases hold_cases hm with h1 | ⟨e, rfl⟩ | ⟨e, hs0, h0, rfl⟩
  · exact Or.inl ⟨hs, h1, hh⟩
  · simp at hh; exact Or.inr ⟨e, hh⟩
  · simp only [List.mem_append, List.mem_singleton] at hh
    rcases hh with hh | hh
    · subst e; exact Or.inl ⟨hs0, h0, hh⟩
    · exact Or.inr ⟨e, hh⟩

theorem hold_bk {t : Tab} {a : Arg} {h : Holder} (k : TabBK t)
    (hp : ∀ n, h = some n → ∃ as, t.postNodes.lookup n = some as ∧ a ∈ as) : TabBK (t.hold a h) := by
  refine ⟨?_, ?_⟩
  · intro a' hs' hm n hn
    rw [hold_postNodes]
    rcases hold_inv (t := t) (a := a) (h := h) ⟨hs', hm, hn⟩ with ⟨hs, h1, h2⟩ | ⟨e1, e2⟩
    · exact k.cons a' hs h1 n h2
    · subst e1; exact hp n e2.symm
  · intro a' hs' hm
    rcases hold_cases hm with h1 | ⟨_, rfl⟩ | ⟨_, hs0, _, rfl⟩
    · exact k.ne a' hs' h1
    · simp
    · simp

/-! ### `post` and `attach` -/

theorem post_fileArgs (t : Tab) (n : Node) (as : List Arg) : (t.post n as).fileArgs = t.fileArgs := rfl

theorem post_lookup_self (t : Tab) (n : Node) (as : List Arg) : (t.post n as).postNodes.lookup n = some as := by
  simp [Tab.post]

theorem post_lookup_ne (t : Tab) {n m : Node} (as : List Arg) (hne : m ≠ n) :
    (t.post n as).postNodes.lookup m = t.postNodes.lookup m := by
  have : (m == n) = false := by simpa using hne
  simp only [Tab.post, List.lookup, this]
  exact lookup_filter_ne hne

theorem post_bk {t : Tab} {n : Node} {as : List Arg} (k : TabBK t) (hn : ¬ Mentions t n) : TabBK (t.post n as) := by
  refine ⟨?_, k.ne⟩
  intro a hs hm m hh
  have hne : m ≠ n := by
    rintro rfl
    exact hn (Or.inl ⟨a, hs, hm, hh⟩)
  rw [post_lookup_ne t as hne]
  exact k.cons a hs hm m hh

/-- folding `hold` over a list of outputs -/
theorem foldHold_postNodes (as : List Arg) (h : Holder) (t : Tab) :
    (as.foldl (fun t a => t.hold a h) t).postNodes = t.postNodes := by
  induction as generalizing t with
  | nil => rfl
  | cons a r ih => simp only [List.foldl]; rw [ih, hold_postNodes]

theorem foldHold_mono (as : List Arg) (h : Holder) (t : Tab) {a' : Arg} {h' : Holder} (x : HoldsT t a' h') :
    HoldsT (as.foldl (fun t a => t.hold a h) t) a' h' := by
  induction as generalizing t with
  | nil => exact x
  | cons a r ih => exact ih _ (hold_mono x)

theorem foldHold_holds (as : List Arg) (h : Holder) (t : Tab) {a : Arg} (ha : a ∈ as) :
    HoldsT (as.foldl (fun t a => t.hold a h) t) a h := by
  induction as generalizing t with
  | nil => cases ha
  | cons b r ih =>
    simp only [List.foldl]
    rcases List.mem_cons.mp ha with rfl | ha
    · exact foldHold_mono r h _ (hold_holds t a h)
    · exact ih _ ha

theorem foldHold_inv (as : List Arg) (h : Holder) (t : Tab) {a' : Arg} {h' : Holder}
    (x : HoldsT (as.foldl (fun t a => t.hold a h) t) a' h') : HoldsT t a' h' ∨ (a' ∈ as ∧ h' = h) := by
  induction as generalizing t with
  | nil => exact Or.inl x
  | cons b r ih =>
    rcases ih _ x with h1 | ⟨h1, h2⟩
    · rcases hold_inv h1 with h3 | ⟨e1, e2⟩
      · exact Or.inl h3
      · exact Or.inr ⟨e1 ▸ List.mem_cons_self, e2⟩
    · exact Or.inr ⟨List.mem_cons_of_mem _ h1, h2⟩

theorem foldHold_bk (as all : List Arg) (h : Holder) (t : Tab) (k : TabBK t) (hsub : ∀ a ∈ as, a ∈ all)
    (hp : ∀ n, h = some n → t.postNodes.lookup n = some all) :
    TabBK (as.foldl (fun t a => t.hold a h) t) := by
  induction as generalizing t with
  | nil => exact k
  | cons a r ih =>
    simp only [List.foldl]
    apply ih
    · apply hold_bk k
      intro n e
      exact ⟨all, hp n e, hsub a List.mem_cons_self⟩
    · intro b hb; exact hsub b (List.mem_cons_of_mem _ hb)
    · intro n e; rw [hold_postNodes]; exact hp n e

theorem attach_bk {t : Tab} {h : Holder} {as : List Arg} (k : TabBK t) (hn : ∀ n, h = some n → ¬ Mentions t n) :
    TabBK (t.attach h as) := by
  unfold Tab.attach
  split
  · exact k
  · cases h with
    | none =>
      exact foldHold_bk as as none t k (fun _ x => x) (fun n e => by cases e)
    | some n =>
      apply foldHold_bk as as (some n) _ (post_bk k (hn n rfl)) (fun _ x => x)
      intro m e
      cases e
      exact post_lookup_self t n as

theorem attach_mono {t : Tab} {h : Holder} {as : List Arg} {a' : Arg} {h' : Holder} (x : HoldsT t a' h') :
    HoldsT (t.attach h as) a' h' := by
  unfold Tab.attach
  split
  · exact x
  · cases h with
    | none => exact foldHold_mono as none t x
    | some n => exact foldHold_mono as (some n) _ x

theorem attach_holds {t : Tab} {h : Holder} {as : List Arg} {a : Arg} (ha : a ∈ as) : HoldsT (t.attach h as) a h := by
  unfold Tab.attach
  split
  · rename_i he
    have : as = [] := by simpa using he
    subst this; cases ha
  · cases h with
    | none => exact foldHold_holds as none t ha
    | some n => exact foldHold_holds as (some n) _ ha

/-- the consuming stage becomes a post node listing exactly the outputs it is bound to -/
theorem attach_post {t : Tab} {n : Node} {as : List Arg} (hne : as ≠ []) :
    (t.attach (some n) as).postNodes.lookup n = some as := by
  unfold Tab.attach
  have : as.isEmpty = false := by simpa using hne
  simp only [this, Bool.false_eq_true, if_false]
  rw [foldHold_postNodes]
  exact post_lookup_self t n as

/-- whoever occurs in the table after an attach occurred before or is the attaching node -/
theorem attach_mentions {t : Tab} {h : Holder} {as : List Arg} {m : Node} (x : Mentions (t.attach h as) m) :
    Mentions t m ∨ h = some m := by
  unfold Tab.attach at x
  split at x
  · exact Or.inl x
  · cases h with
    | none =>
      rcases x with ⟨a, ha⟩ | ⟨bs, hb⟩
      · rcases foldHold_inv as none t ha with h1 | ⟨_, h2⟩
        · exact Or.inl (Or.inl ⟨a, h1⟩)
        · cases h2
      · rw [foldHold_postNodes] at hb
        exact Or.inl (Or.inr ⟨bs, hb⟩)
    | some n =>
      rcases x with ⟨a, ha⟩ | ⟨bs, hb⟩
      · rcases foldHold_inv as (some n) _ ha with h1 | ⟨_, h2⟩
        · exact Or.inl (Or.inl ⟨a, h1⟩)
        · exact Or.inr h2.symm
      · rw [foldHold_postNodes] at hb
        simp only [Tab.post, List.mem_cons, List.mem_filter] at hb
        rcases hb with hb | ⟨hb, _⟩
        · cases hb; exact Or.inr rfl
        · exact Or.inl (Or.inr ⟨bs, hb⟩)

theorem mem_argsOf {refs : List (Node × Arg)} {p : Node} {a : Arg} : a ∈ argsOf refs p ↔ (p, a) ∈ refs := by
  unfold argsOf
  rw [List.mem_eraseDups]
  simp only [List.mem_map, List.mem_filter]
  constructor
  · rintro ⟨x, ⟨hx, hk⟩, e⟩
    have hk' : x.1 = p := by simpa using hk
    obtain ⟨x1, x2⟩ := x
    simp at hk' e; subst hk' e; exact hx
  · intro h
    exact ⟨(p, a), ⟨h, by simp⟩, rfl⟩

/-! ### the whole construction -/

/-- the invariant of the construction: exactly the built nodes have tables,
the tables are consistent, and only consumers seen so far occur in them -/
structure Good (built seen : List Node) (ts : Tabs) : Prop where
  keys : ∀ p, p ∈ built ↔ ∃ t, (p, t) ∈ ts
  uniq : ∀ p t t', (p, t) ∈ ts → (p, t') ∈ ts → t = t'
  bk : ∀ p t, (p, t) ∈ ts → TabBK t
  seen : ∀ p t, (p, t) ∈ ts → ∀ n, Mentions t n → n ∈ seen

theorem Good.init : Good [] [] [] := by
  refine ⟨?_, ?_, ?_, ?_⟩
  · intro p
    constructor
    · intro h; cases h
    · rintro ⟨_, h⟩; cases h
  · intro _ _ _ h; cases h
  · intro _ _ h; cases h
  · intro _ _ h; cases h

theorem mem_updTab {ts : Tabs} {p : Node} {f : Tab → Tab} {q : Node} {t' : Tab} (h : (q, t') ∈ updTab ts p f) :
    (q ≠ p ∧ (q, t') ∈ ts) ∨ (q = p ∧ ∃ t, (p, t) ∈ ts ∧ t' = f t) := by
  unfold updTab at h
  simp only [List.mem_map] at h
  obtain ⟨x, hx, e⟩ := h
  split at e
  · rename_i hk
    have hk' : x.1 = p := by simpa using hk
    cases e
    exact Or.inr ⟨hk', x.2, by rw [← hk']; exact hx, rfl⟩
  · rename_i hk
    have hk' : x.1 ≠ p := by simpa using hk
    subst e
    exact Or.inl ⟨hk', hx⟩

theorem updTab_mem {ts : Tabs} {p : Node} {f : Tab → Tab} {q : Node} {t : Tab} (h : (q, t) ∈ ts) :
    (q, if q = p then f t else t) ∈ updTab ts p f := by
  unfold updTab
  simp only [List.mem_map]
  refine ⟨(q, t), h, ?_⟩
  by_cases e : q = p
  · simp [e]
  · have : (q == p) = false := by simpa using e
    simp [this, e]

theorem Good.step {built seen : List Node} {ts : Tabs} (g : Good built seen ts) (op : BOp) (r : List BOp)
    (w : wfOps built seen (op :: r) = true) :
    ∃ built' seen', Good built' seen' (stepB ts op) ∧ wfOps built' seen' r = true ∧
      (∀ p ∈ built, p ∈ built') ∧ (∀ n ∈ seen, n ∈ seen') := by
  cases op with
  | forks p =>
    simp only [wfOps, Bool.and_eq_true, Bool.not_eq_true', List.contains_eq_mem, decide_eq_false_iff_not] at w
    refine ⟨p :: built, seen, ?_, w.2, fun q hq => List.mem_cons_of_mem _ hq, fun _ h => h⟩
    have hfresh : ∀ t, (p, t) ∉ ts := fun t ht => w.1 ((g.keys p).mpr ⟨t, ht⟩)
    refine ⟨?_, ?_, ?_, ?_⟩
    · intro q
      simp only [stepB, List.mem_cons]
      constructor
      · rintro (rfl | hq)
        · exact ⟨{}, Or.inl rfl⟩
        · obtain ⟨t, ht⟩ := (g.keys q).mp hq
          exact ⟨t, Or.inr ht⟩
      · rintro ⟨t, ht | ht⟩
        · cases ht; exact Or.inl rfl
        · exact Or.inr ((g.keys q).mpr ⟨t, ht⟩)
    · intro q t t' h1 h2
      simp only [stepB, List.mem_cons] at h1 h2
      rcases h1 with h1 | h1 <;> rcases h2 with h2 | h2
      · cases h1; cases h2; rfl
      · cases h1; exact absurd h2 (hfresh _)
      · cases h2; exact absurd h1 (hfresh _)
      · exact g.uniq q t t' h1 h2
    · intro q t h1
      simp only [stepB, List.mem_cons] at h1
      rcases h1 with h1 | h1
      · cases h1
        exact ⟨fun a hs hm => (by cases hm), fun a hs hm => (by cases hm)⟩
      · exact g.bk q t h1
    · intro q t h1 n hm
      simp only [stepB, List.mem_cons] at h1
      rcases h1 with h1 | h1
      · cases h1
        rcases hm with ⟨a, hs, hm, _⟩ | ⟨as, hm⟩ <;> cases hm
      · exact g.seen q t h1 n hm
  | attach h refs =>
    have hstep : ∀ q t', (q, t') ∈ stepB ts (.attach h refs) ↔ ∃ t, (q, t) ∈ ts ∧ t' = t.attach h (argsOf refs q) := by
      intro q t'
      simp only [stepB, List.mem_map]
      constructor
      · rintro ⟨x, hx, e⟩
        cases e
        exact ⟨x.2, hx, rfl⟩
      · rintro ⟨t, ht, rfl⟩
        exact ⟨(q, t), ht, rfl⟩
    cases h with
    | none =>
      simp only [wfOps, Bool.and_eq_true] at w
      refine ⟨built, seen, ?_, w.2, fun _ h => h, fun _ h => h⟩
      refine ⟨?_, ?_, ?_, ?_⟩
      · intro q
        rw [g.keys q]
        constructor
        · rintro ⟨t, ht⟩; exact ⟨_, (hstep q _).mpr ⟨t, ht, rfl⟩⟩
        · rintro ⟨t', ht'⟩
          obtain ⟨t, ht, _⟩ := (hstep q t').mp ht'
          exact ⟨t, ht⟩
      · intro q t1 t2 h1 h2
        obtain ⟨u1, hu1, rfl⟩ := (hstep q t1).mp h1
        obtain ⟨u2, hu2, rfl⟩ := (hstep q t2).mp h2
        rw [g.uniq q u1 u2 hu1 hu2]
      · intro q t' h1
        obtain ⟨t, ht, rfl⟩ := (hstep q t').mp h1
        exact attach_bk (g.bk q t ht) (fun n e => by cases e)
      · intro q t' h1 n hm
        obtain ⟨t, ht, rfl⟩ := (hstep q t').mp h1
        rcases attach_mentions hm with h2 | h2
        · exact g.seen q t ht n h2
        · cases h2
    | some n =>
      simp only [wfOps, Bool.and_eq_true, Bool.not_eq_true', List.contains_eq_mem, decide_eq_false_iff_not] at w
      refine ⟨built, n :: seen, ?_, w.2, fun _ h => h, fun _ h => List.mem_cons_of_mem _ h⟩
      refine ⟨?_, ?_, ?_, ?_⟩
      · intro q
        rw [g.keys q]
        constructor
        · rintro ⟨t, ht⟩; exact ⟨_, (hstep q _).mpr ⟨t, ht, rfl⟩⟩
        · rintro ⟨t', ht'⟩
          obtain ⟨t, ht, _⟩ := (hstep q t').mp ht'
          exact ⟨t, ht⟩
      · intro q t1 t2 h1 h2
        obtain ⟨u1, hu1, rfl⟩ := (hstep q t1).mp h1
        obtain ⟨u2, hu2, rfl⟩ := (hstep q t2).mp h2
        rw [g.uniq q u1 u2 hu1 hu2]
      · intro q t' h1
        obtain ⟨t, ht, rfl⟩ := (hstep q t').mp h1
        apply attach_bk (g.bk q t ht)
        intro m e hm
        cases e
        exact w.1.1 (g.seen q t ht n hm)
      · intro q t' h1 m hm
        obtain ⟨t, ht, rfl⟩ := (hstep q t').mp h1
        rcases attach_mentions hm with h2 | h2
        · exact List.mem_cons_of_mem _ (g.seen q t ht m h2)
        · cases h2; exact List.mem_cons_self
  | retain p a =>
    simp only [wfOps, Bool.and_eq_true] at w
    refine ⟨built, seen, ?_, w.2, fun _ h => h, fun _ h => h⟩
    refine ⟨?_, ?_, ?_, ?_⟩
    · intro q
      rw [g.keys q]
      simp only [stepB]
      constructor
      · rintro ⟨t, ht⟩; exact ⟨_, updTab_mem ht⟩
      · rintro ⟨t', ht'⟩
        rcases mem_updTab ht' with ⟨_, h1⟩ | ⟨e, t, h1, _⟩
        · exact ⟨t', h1⟩
        · exact ⟨t, e ▸ h1⟩
    · intro q t1 t2 h1 h2
      simp only [stepB] at h1 h2
      rcases mem_updTab h1 with ⟨n1, m1⟩ | ⟨e1, u1, m1, rfl⟩ <;>
        rcases mem_updTab h2 with ⟨n2, m2⟩ | ⟨e2, u2, m2, rfl⟩
      · exact g.uniq q t1 t2 m1 m2
      · exact absurd e2 n1
      · exact absurd e1 n2
      · rw [g.uniq p u1 u2 m1 m2]
    · intro q t' h1
      simp only [stepB] at h1
      rcases mem_updTab h1 with ⟨_, m1⟩ | ⟨_, u1, m1, rfl⟩
      · exact g.bk q t' m1
      · exact hold_bk (g.bk p u1 m1) (fun n e => by cases e)
    · intro q t' h1 n hm
      simp only [stepB] at h1
      rcases mem_updTab h1 with ⟨_, m1⟩ | ⟨_, u1, m1, rfl⟩
      · exact g.seen q t' m1 n hm
      · apply g.seen p u1 m1 n
        rcases hm with ⟨b, hb⟩ | ⟨bs, hb⟩
        · rcases hold_inv hb with h2 | ⟨_, h2⟩
          · exact Or.inl ⟨b, h2⟩
          · cases h2
        · rw [hold_postNodes] at hb
          exact Or.inr ⟨bs, hb⟩

/-- the invariant holds at the end of every well-ordered construction -/
theorem Good.run {built seen : List Node} {ts : Tabs} (g : Good built seen ts) (ops : List BOp)
    (w : wfOps built seen ops = true) : ∃ built' seen', Good built' seen' (buildFrom ts ops) := by
  induction ops generalizing built seen ts with
  | nil => exact ⟨built, seen, g⟩
  | cons op r ih =>
    obtain ⟨b', s', g', w', _, _⟩ := g.step op r w
    exact ih g' w'

/-- a registered holder stays registered through the rest of the construction -/
theorem holds_step {ts : Tabs} {p : Node} {t : Tab} {a : Arg} {h : Holder} (hm : (p, t) ∈ ts) (x : HoldsT t a h)
    (op : BOp) : ∃ t', (p, t') ∈ stepB ts op ∧ HoldsT t' a h ∧
      (∀ n as, t.postNodes.lookup n = some as → op ≠ .attach (some n) [] →
        (∀ refs, op = .attach (some n) refs → False) → t'.postNodes.lookup n = some as) := by
  cases op with
  | forks q =>
    exact ⟨t, List.mem_cons_of_mem _ hm, x, fun _ _ h _ _ => h⟩
  | attach h' refs =>
    refine ⟨t.attach h' (argsOf refs p), ?_, attach_mono x, ?_⟩
    · simp only [stepB, List.mem_map]
      exact ⟨(p, t), hm, rfl⟩
    · intro n as hl _ hne
      unfold Tab.attach
      split
      · exact hl
      · cases h' with
        | none => rw [foldHold_postNodes]; exact hl
        | some m =>
          rw [foldHold_postNodes]
          have : n ≠ m := by
            rintro rfl
            exact hne refs rfl
          rw [post_lookup_ne t _ this]; exact hl
  | retain q b =>
    refine ⟨if p = q then t.hold b none else t, (by simp only [stepB]; exact updTab_mem hm), ?_, ?_⟩
    · split
      · exact hold_mono x
      · exact x
    · intro n as hl _ _
      split
      · rw [hold_postNodes]; exact hl
      · exact hl

theorem holds_run {ts : Tabs} {p : Node} {t : Tab} {a : Arg} {h : Holder} (hm : (p, t) ∈ ts) (x : HoldsT t a h)
    (ops : List BOp) : ∃ t', (p, t') ∈ buildFrom ts ops ∧ HoldsT t' a h := by
  induction ops generalizing ts t with
  | nil => exact ⟨t, hm, x⟩
  | cons op r ih =>
    obtain ⟨t1, h1, x1, _⟩ := holds_step hm x op
    exact ih h1 x1

/-- **every registered reference is held.**  In a well-ordered construction,
after `attachToFileParents` ran for a consumer with holder `h` and the file
references `refs`, every producer output among them carries that holder in
the final tables. -/
theorem build_holds {built seen : List Node} {ts : Tabs} (g : Good built seen ts) (pre post : List BOp)
    (h : Holder) (refs : List (Node × Arg)) (w : wfOps built seen (pre ++ .attach h refs :: post) = true)
    {p : Node} {a : Arg} (hr : (p, a) ∈ refs) :
    ∃ t, (p, t) ∈ buildFrom ts (pre ++ .attach h refs :: post) ∧ HoldsT t a h := by
  induction pre generalizing built seen ts with
  | nil =>
    simp only [List.nil_append] at w
    simp only [List.nil_append, buildFrom, List.foldl]
    have hb : p ∈ built := by
      cases h with
      | none =>
        simp only [wfOps, Bool.and_eq_true, List.all_eq_true] at w
        simpa using w.1 (p, a) hr
      | some n =>
        simp only [wfOps, Bool.and_eq_true, List.all_eq_true] at w
        simpa using w.1.2 (p, a) hr
    obtain ⟨t, ht⟩ := (g.keys p).mp hb
    have h1 : (p, t.attach h (argsOf refs p)) ∈ stepB ts (.attach h refs) := by
      simp only [stepB, List.mem_map]
      exact ⟨(p, t), ht, rfl⟩
    exact holds_run h1 (attach_holds (mem_argsOf.mpr hr)) post
  | cons op r ih =>
    obtain ⟨b', s', g', w', _, _⟩ := g.step op (r ++ .attach h refs :: post) w
    exact ih g' w'

/-- a retained output carries the nil holder in the final tables -/
theorem build_retained {built seen : List Node} {ts : Tabs} (g : Good built seen ts) (pre post : List BOp)
    (p : Node) (a : Arg) (w : wfOps built seen (pre ++ .retain p a :: post) = true) :
    ∃ t, (p, t) ∈ buildFrom ts (pre ++ .retain p a :: post) ∧ HoldsT t a none := by
  induction pre generalizing built seen ts with
  | nil =>
    simp only [List.nil_append] at w
    simp only [List.nil_append, buildFrom, List.foldl]
    simp only [wfOps, Bool.and_eq_true] at w
    have hb : p ∈ built := by simpa using w.1
    obtain ⟨t, ht⟩ := (g.keys p).mp hb
    have h1 : (p, t.hold a none) ∈ stepB ts (.retain p a) := by
      have := updTab_mem (p := p) (f := fun t => t.hold a none) ht
      simpa [stepB] using this
    exact holds_run h1 (hold_holds t a none) post
  | cons op r ih =>
    obtain ⟨b', s', g', w', _, _⟩ := g.step op (r ++ .retain p a :: post) w
    exact ih g' w'

theorem build_good {ops : List BOp} (w : wfOps [] [] ops = true) : ∃ built seen, Good built seen (build ops) :=
  Good.init.run ops w

theorem build_unique {ops : List BOp} (w : wfOps [] [] ops = true) {p : Node} {t t' : Tab}
    (h : (p, t) ∈ build ops) (h' : (p, t') ∈ build ops) : t = t' := by
  obtain ⟨_, _, g⟩ := build_good w
  exact g.uniq p t t' h h'

theorem build_bk {ops : List BOp} (w : wfOps [] [] ops = true) {p : Node} {t : Tab}
    (h : (p, t) ∈ build ops) : TabBK t := by
  obtain ⟨_, _, g⟩ := build_good w
  exact g.bk p t h

theorem build_holds_mem {ops : List BOp} (w : wfOps [] [] ops = true) {h : Holder} {refs : List (Node × Arg)}
    (hm : BOp.attach h refs ∈ ops) {p : Node} {a : Arg} (hr : (p, a) ∈ refs) :
    ∃ t, (p, t) ∈ build ops ∧ HoldsT t a h := by
  obtain ⟨pre, post, rfl⟩ := List.append_of_mem hm
  exact build_holds Good.init pre post h refs w hr

theorem build_retained_mem {ops : List BOp} (w : wfOps [] [] ops = true) {p : Node} {a : Arg}
    (hm : BOp.retain p a ∈ ops) : ∃ t, (p, t) ∈ build ops ∧ HoldsT t a none := by
  obtain ⟨pre, post, rfl⟩ := List.append_of_mem hm
  exact build_retained Good.init pre post p a w

/-! ### where the construction steps come from in the node tree -/

/-- the tree has a stage node `n` with the resolved inputs `ins` -/
inductive HasStage : PTree → Node → List Binding → Prop
  | here {id ins ret rest} : HasStage (.stage id ins ret rest) id ins
  | next {id ins ret rest n i} : HasStage rest n i → HasStage (.stage id ins ret rest) n i
  | child {id top ins ch ret rd rest n i} : HasStage ch n i → HasStage (.pipe id top ins ch ret rd rest) n i
  | after {id top ins ch ret rd rest n i} : HasStage rest n i → HasStage (.pipe id top ins ch ret rd rest) n i

/-- the tree has the top-level pipeline with the resolved return binding `ret` -/
inductive HasTop : PTree → List Binding → Prop
  | here {id ins ch ret rd rest} : HasTop (.pipe id true ins ch ret rd rest) ret
  | next {id ins ret rest r} : HasTop rest r → HasTop (.stage id ins ret rest) r
  | child {id top ins ch ret rd rest r} : HasTop ch r → HasTop (.pipe id top ins ch ret rd rest) r
  | after {id top ins ch ret rd rest r} : HasTop rest r → HasTop (.pipe id top ins ch ret rd rest) r

/-- some stage or pipeline of the tree retains output `a` of node `p` -/
inductive HasRetain : PTree → Node → Arg → Prop
  | stage {id ins ret rest p a} : (p, a) ∈ ret → HasRetain (.stage id ins ret rest) p a
  | pipe {id top ins ch ret rd rest p a} : (p, a) ∈ rd → HasRetain (.pipe id top ins ch ret rd rest) p a
  | next {id ins ret rest p a} : HasRetain rest p a → HasRetain (.stage id ins ret rest) p a
  | child {id top ins ch ret rd rest p a} : HasRetain ch p a → HasRetain (.pipe id top ins ch ret rd rest) p a
  | after {id top ins ch ret rd rest p a} : HasRetain rest p a → HasRetain (.pipe id top ins ch ret rd rest) p a

theorem HasStage.mem {tr : PTree} {n : Node} {ins : List Binding} (h : HasStage tr n ins) :
    BOp.attach (some n) (fileRefs ins) ∈ opsOf tr := by
  induction h with
  | here => simp [opsOf]
  | next _ ih => simp [opsOf, ih]
  | child _ ih => simp [opsOf, ih]
  | after _ ih => simp [opsOf, ih]

theorem HasTop.mem {tr : PTree} {ret : List Binding} (h : HasTop tr ret) :
    BOp.attach none (fileRefs ret) ∈ opsOf tr := by
  induction h with
  | here => simp [opsOf]
  | next _ ih => simp [opsOf, ih]
  | child _ ih => simp [opsOf, ih]
  | after _ ih => simp [opsOf, ih]

theorem HasRetain.mem {tr : PTree} {p : Node} {a : Arg} (h : HasRetain tr p a) :
    BOp.retain p a ∈ opsOf tr := by
  induction h with
  | stage hm =>
    simp only [opsOf]
    apply List.mem_cons_of_mem
    apply List.mem_cons_of_mem
    apply List.mem_append_left
    exact List.mem_map.mpr ⟨_, hm, rfl⟩
  | pipe hm =>
    simp only [opsOf]
    apply List.mem_append_left
    apply List.mem_append_right
    exact List.mem_map.mpr ⟨_, hm, rfl⟩
  | next _ ih => simp [opsOf, ih]
  | child _ ih => simp [opsOf, ih]
  | after _ ih => simp [opsOf, ih]

/-- a typed reference that may name files is among the file references -/
theorem mem_fileRefs {bs : List Binding} {b : Binding} {p : Node} {a : Arg} (hb : b ∈ bs)
    (hr : (p, a, true) ∈ typedRefs b.1 b.2) : (p, a) ∈ fileRefs bs := by
  unfold fileRefs
  simp only [List.mem_filterMap, List.mem_flatMap]
  exact ⟨(p, a, true), ⟨b, hb, hr⟩, by simp⟩

/-! ### well-ordered construction from the shape of the call graph -/

theorem wfOps_retains (b s : List Node) (rs : List (Node × Arg)) (k : List BOp)
    (h : ∀ r ∈ rs, r.1 ∈ b) (hk : wfOps b s k = true) :
    wfOps b s ((rs.map fun r => BOp.retain r.1 r.2) ++ k) = true := by
  induction rs with
  | nil => simpa using hk
  | cons r rest ih =>
    simp only [List.map, List.cons_append, wfOps, Bool.and_eq_true, List.contains_eq_mem, decide_eq_true_eq]
    exact ⟨h r List.mem_cons_self, ih (fun x hx => h x (List.mem_cons_of_mem _ hx))⟩

theorem all_built {b : List Node} {refs : List (Node × Arg)} (h : ∀ r ∈ refs, r.1 ∈ b) :
    (refs.all fun x => b.contains x.1) = true := by
  rw [List.all_eq_true]
  intro x hx
  simpa using h x hx

theorem allIn_iff {b : List Node} {refs : List (Node × Arg)} : allIn b refs = true ↔ ∀ r ∈ refs, r.1 ∈ b := by
  unfold allIn
  rw [List.all_eq_true]
  constructor
  · intro h r hr; simpa using h r hr
  · intro h r hr; simpa using h r hr

theorem wfOps_attach_none (b s : List Node) (refs : List (Node × Arg)) (r : List BOp) :
    wfOps b s (.attach none refs :: r) = ((refs.all fun x => b.contains x.1) && wfOps b s r) := by
  simp [wfOps]

theorem wfOps_attach_some (b s : List Node) (n : Node) (refs : List (Node × Arg)) (r : List BOp) :
    wfOps b s (.attach (some n) refs :: r) =
      (!s.contains n && (refs.all fun x => b.contains x.1) && wfOps b (n :: s) r) := by
  simp [wfOps]

theorem wfOps_forks (b s : List Node) (p : Node) (r : List BOp) :
    wfOps b s (.forks p :: r) = (!b.contains p && wfOps (p :: b) s r) := by
  simp [wfOps]

/-- a scoped tree is constructed in a well-ordered way, whatever well-ordered steps follow -/
theorem scoped_wf {b a : List Node} {tr : PTree} (sc : Scoped b tr a) :
    ∀ (s : List Node) (k : List BOp), (∀ x ∈ s, x ∈ b) →
      (∀ s', (∀ x ∈ s', x ∈ a) → wfOps a s' k = true) → wfOps b s (opsOf tr ++ k) = true := by
  induction sc with
  | nil => intro s k hs hk; simpa [opsOf] using hk s hs
  | @stage b a id ins ret rest hid hrefs hret _ ih =>
    intro s k hs hk
    have hns : id ∉ s := fun h => hid (hs id h)
    have e : opsOf (.stage id ins ret rest) ++ k =
        .attach (some id) (fileRefs ins) :: .forks id ::
          ((ret.map fun r => BOp.retain r.1 r.2) ++ (opsOf rest ++ k)) := by
      simp [opsOf, List.append_assoc]
    rw [e, wfOps_attach_some, wfOps_forks]
    have h3 : wfOps (id :: b) (id :: s) ((ret.map fun r => BOp.retain r.1 r.2) ++ (opsOf rest ++ k)) = true := by
      apply wfOps_retains _ _ _ _ hret
      apply ih (id :: s) k
      · intro x hx
        rcases List.mem_cons.mp hx with rfl | hx
        · exact List.mem_cons_self
        · exact List.mem_cons_of_mem _ (hs x hx)
      · exact hk
    have h1 : s.contains id = false := by simpa using hns
    have h2 : b.contains id = false := by simpa using hid
    simp [h1, h2, all_built hrefs, h3]
    exact ⟨⟨hns, fun x y h => hrefs (x, y) h⟩, hid⟩
  | @pipe b b1 a id top ins ch ret rd rest hins _ hretb hid hrd _ ihc ihr =>
    intro s k hs hk
    have tail : ∀ s1, (∀ x ∈ s1, x ∈ b1) →
        wfOps b1 s1 ((if top then [BOp.attach none (fileRefs ret)] else []) ++
          (.forks id :: ((rd.map fun r => BOp.retain r.1 r.2) ++ (opsOf rest ++ k)))) = true := by
      intro s1 hs1
      have h2 : wfOps b1 s1 (.forks id :: ((rd.map fun r => BOp.retain r.1 r.2) ++ (opsOf rest ++ k))) = true := by
        rw [wfOps_forks]
        have h3 : wfOps (id :: b1) s1 ((rd.map fun r => BOp.retain r.1 r.2) ++ (opsOf rest ++ k)) = true := by
          apply wfOps_retains _ _ _ _ hrd
          apply ihr s1 k
          · intro x hx; exact List.mem_cons_of_mem _ (hs1 x hx)
          · exact hk
        have h4 : b1.contains id = false := by simpa using hid
        simp [h4, h3]
        exact hid
      cases top with
      | false => simpa using h2
      | true =>
        simp only [if_true, List.singleton_append]
        rw [wfOps_attach_none]
        simp [all_built (hretb rfl), h2]
        exact fun x y h => hretb rfl (x, y) h
    have body := ihc s _ hs tail
    have e : opsOf (.pipe id top ins ch ret rd rest) ++ k =
        (if top then [BOp.attach none (fileRefs ins)] else []) ++ (opsOf ch ++
          ((if top then [BOp.attach none (fileRefs ret)] else []) ++
            (.forks id :: ((rd.map fun r => BOp.retain r.1 r.2) ++ (opsOf rest ++ k))))) := by
      simp [opsOf, List.append_assoc]
    rw [e]
    cases top with
    | false => simpa using body
    | true =>
      simp only [if_true, List.singleton_append]
      rw [wfOps_attach_none]
      have body' : wfOps b s (opsOf ch ++ (BOp.attach none (fileRefs ret) ::
          .forks id :: ((rd.map fun r => BOp.retain r.1 r.2) ++ (opsOf rest ++ k)))) = true := by
        simpa using body
      simp [all_built (hins rfl), body']
      exact fun x y h => hins rfl (x, y) h

/-- **the shape of the call graph gives the well-ordered construction** -/
theorem wfOps_of_scoped {tr : PTree} {a : List Node} (sc : Scoped [] tr a) : wfOps [] [] (opsOf tr) = true := by
  have := scoped_wf sc [] [] (fun x hx => by cases hx) (fun _ _ => rfl)
  simpa using this

theorem scopedB_sound : ∀ (tr : PTree) (b a : List Node), scopedB b tr = some a → Scoped b tr a := by
  intro tr
  induction tr with
  | nil => intro b a h; simp [scopedB] at h; subst h; exact .nil
  | stage id ins ret rest ih =>
    intro b a h
    simp only [scopedB] at h
    split at h
    · rename_i hc
      simp only [Bool.and_eq_true, Bool.not_eq_true', List.contains_eq_mem, decide_eq_false_iff_not] at hc
      exact .stage hc.1.1 (allIn_iff.mp hc.1.2) (allIn_iff.mp hc.2) (ih _ _ h)
    · cases h
  | pipe id top ins ch ret rd rest ihc ihr =>
    intro b a h
    simp only [scopedB] at h
    split at h
    · rename_i h1
      split at h
      · cases h
      · rename_i b1 hb1
        split at h
        · rename_i h2
          simp only [Bool.and_eq_true, Bool.not_eq_true', List.contains_eq_mem, decide_eq_false_iff_not] at h2
          refine .pipe ?_ (ihc _ _ hb1) ?_ h2.1.2 (allIn_iff.mp h2.2) (ihr _ _ h)
          · intro ht; subst ht; exact allIn_iff.mp (by simpa using h1)
          · intro ht; subst ht; exact allIn_iff.mp (by simpa using h2.1.1)
        · cases h
    · cases h

/-! ### `cloneFork` -/

theorem map_id' {α : Type} (l : List α) : l.map id = l := by simp

theorem cloneFork_fileArgs (s : St) (d : List DiskEnt) : (cloneFork s d).fileArgs = s.fileArgs := by
  unfold cloneFork
  simp

theorem cloneFork_postNodes (s : St) (d : List DiskEnt) : (cloneFork s d).postNodes = s.postNodes := by
  unfold cloneFork
  simp

theorem cloneFork_bk {s : St} (k : BK s) (d : List DiskEnt) : BK (cloneFork s d) := by
  refine ⟨?_, ?_⟩
  · rw [cloneFork_fileArgs, cloneFork_postNodes]; exact k.cons
  · rw [cloneFork_fileArgs]; exact k.ne

theorem cloneFork_holds (s : St) (d : List DiskEnt) (a : Arg) (h : Holder) :
    Holds (cloneFork s d) a h ↔ Holds s a h := by
  unfold Holds
  rw [cloneFork_fileArgs]

/-- a small pipestance: `TOP` (top level) calls `A`, then `B(x = A.o, n = A.n)`,
returns `B.o`; stage `A` retains its output `r` -/
def exTree : PTree :=
  .pipe "TOP" true []
    (.stage "A" [] [("A", "r")]
      (.stage "B" [(.ref "A" "o", .prim true), (.ref "A" "n", .prim false)] [] .nil))
    [(.map (.cons "o" (.ref "B" "o") .nil), .struct (.mcons "o" (.prim true) .mnil))] [] .nil

end Martian.Vdr
