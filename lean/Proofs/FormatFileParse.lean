import Martian.FormatFile
import Proofs.FormatStageParse
import Proofs.FormatPipeParse

/-!
C09, whole files: the token layer.  `toksIncludes`, `toksDecls raw`, `toksCallOpt`: the tokens
of the pieces of a file; `pFile_toks`: the reader on the tokens of the include lines, of ANY
sequence of well-formed declarations (any order of the four kinds) and of the call returns the
`File` that `NewAst` builds from them (`distribute`), each declaration as its own reader returns it.

Core Lean only.
-/

namespace Martian.FormatFile
open Martian.Lexer (Bytes unquoteBytes)
open Martian.Format (quoteString)
open Martian.FormatExp Martian.FormatDecl Martian.FormatCall2
open Martian.FormatCall (tLP tRP)
open Martian.FormatStage (Stage pStage wfStage toksStage stageEnd pStage_toks)
open Martian.FormatPipe (Pipeline pPipeline normPipeline wfPipeline sPipeline toksPipeline toksPipelineRaw
  pPipeline_toks pPipeline_toks_gen wfPipeline_parts)
open Martian.FormatRes (sStage)

/-! ## tokens -/

def toksIncludes : List Bytes → List Tok
  | [] => []
  | p :: r => .reserved sAtInclude :: .str (quoteString p) :: toksIncludes r

/-- the tokens of a declaration; `raw`: a pipeline with its calls in source order -/
def toksDecl (raw : Bool) : Decl → List Tok
  | .filetype t => toksFiletype t
  | .struct s => toksStruct s
  | .stage s => toksStage s
  | .pipeline p => if raw then toksPipelineRaw p else toksPipeline p

def toksDecls (raw : Bool) : List Decl → List Tok
  | [] => []
  | d :: r => toksDecl raw d ++ toksDecls raw r

def toksCallOpt : Option Call2 → List Tok
  | some c => toksCall2 c
  | none => []

/-- the tokens of `fmtFile f` -/
def toksFile (f : File) : List Tok :=
  toksIncludes f.includes ++ (toksDecls false (declsOf f) ++ toksCallOpt f.call)

/-- what the reader returns for a declaration: with the calls in `topoSort` order in the text the
normal form, with the calls in source order `readDecl` -/
def readDeclB (raw : Bool) : Decl → Decl
  | .pipeline p => if raw then readDecl (.pipeline p) else .pipeline (normPipeline p)
  | d => d

theorem toksDecls_append (raw : Bool) (a b : List Decl) :
    toksDecls raw (a ++ b) = toksDecls raw a ++ toksDecls raw b := by
  induction a with
  | nil => rfl
  | cons d a ih => simp [toksDecls, ih]

/-! ## what follows a piece -/

/-- what may follow the include block or a declaration: a declaration, a call statement, or the
end of the input (as far as the head token tells) -/
def declStart : List Tok → Bool
  | [] => true
  | .reserved k :: _ => k != sAtInclude
  | .id k :: _ => k == sFiletype || k == sStruct
  | _ => false

theorem declStart_stageEnd {rest : List Tok} (h : declStart rest = true) : stageEnd rest = true := by
  cases rest with
  | nil => rfl
  | cons t r =>
    cases t <;> try rfl
    rename_i k
    simp only [declStart, Bool.or_eq_true, beq_iff_eq] at h
    rcases h with h | h <;> subst h <;> simp only [stageEnd] <;> decide

theorem toksFiletype_head (t : Filetype) : ∃ r, toksFiletype t = .id sFiletype :: r := by
  obtain ⟨n⟩ := t
  cases n with
  | nil => exact ⟨_, rfl⟩
  | cons c r => exact ⟨_, rfl⟩

theorem toksDecl_head (raw : Bool) (d : Decl) :
    ∃ t r, toksDecl raw d = t :: r ∧
      (t = .id sFiletype ∨ t = .id sStruct ∨ t = .reserved sStage ∨ t = .reserved sPipeline) := by
  cases d with
  | filetype t =>
    obtain ⟨r, h⟩ := toksFiletype_head t
    exact ⟨_, r, h, Or.inl rfl⟩
  | struct s => exact ⟨_, _, rfl, Or.inr (Or.inl rfl)⟩
  | stage s => exact ⟨_, _, rfl, Or.inr (Or.inr (Or.inl rfl))⟩
  | pipeline p =>
    cases raw
    · exact ⟨_, _, rfl, Or.inr (Or.inr (Or.inr rfl))⟩
    · exact ⟨_, _, rfl, Or.inr (Or.inr (Or.inr rfl))⟩

theorem declStart_toksDecl (raw : Bool) (d : Decl) (rest : List Tok) :
    declStart (toksDecl raw d ++ rest) = true := by
  obtain ⟨t, r, h, ht⟩ := toksDecl_head raw d
  rw [h]
  rcases ht with rfl | rfl | rfl | rfl <;> simp only [List.cons_append, declStart] <;> decide

theorem declStart_toksDecls (raw : Bool) (ds : List Decl) (rest : List Tok)
    (hr : declStart rest = true) : declStart (toksDecls raw ds ++ rest) = true := by
  cases ds with
  | nil => exact hr
  | cons d ds =>
    simp only [toksDecls, List.append_assoc]
    exact declStart_toksDecl raw d _

theorem declStart_toksCallOpt (call : Option Call2) : declStart (toksCallOpt call) = true := by
  cases call with
  | none => rfl
  | some c =>
    obtain ⟨k, r, h, hk⟩ := toksCall2_head c
    simp only [toksCallOpt, h]
    rcases hk with rfl | rfl <;> simp only [declStart] <;> decide

theorem decKind_toksCallOpt (call : Option Call2) : decKind (toksCallOpt call) = 0 := by
  cases call with
  | none => rfl
  | some c =>
    obtain ⟨k, r, h, hk⟩ := toksCall2_head c
    simp only [toksCallOpt, h]
    rcases hk with rfl | rfl <;> simp only [decKind] <;> decide

/-! ## include lines -/

theorem pIncludes_stop (f : Nat) (rest : List Tok) (hr : declStart rest = true) :
    pIncludes (f + 1) rest = some ([], rest) := by
  cases rest with
  | nil => simp [pIncludes]
  | cons t r =>
    cases t with
    | reserved k =>
      simp only [declStart, bne_iff_ne, ne_eq] at hr
      simp [pIncludes, hr]
    | _ => simp [pIncludes]

theorem pIncludes_toks : ∀ (incs : List Bytes) (f : Nat) (rest : List Tok),
    incs.all Martian.ShellQuote.validUtf8 = true → incs.length < f → declStart rest = true →
    pIncludes f (toksIncludes incs ++ rest) = some (incs, rest)
  | [], f, rest, _, hf, hr => by
    obtain ⟨g, rfl⟩ : ∃ g, f = g + 1 := ⟨f - 1, by simp at hf; omega⟩
    exact pIncludes_stop g rest hr
  | p :: incs, f, rest, hw, hf, hr => by
    obtain ⟨g, rfl⟩ : ∃ g, f = g + 1 := ⟨f - 1, by omega⟩
    simp only [List.all_cons, Bool.and_eq_true] at hw
    have ih := pIncludes_toks incs g rest hw.2 (by simp at hf; omega) hr
    have hu := Martian.Format.unquote_quoteString p hw.1
    simp only [toksIncludes, List.cons_append, pIncludes, ↓reduceIte, hu, ih]

/-! ## `filetype` and `struct` with the tokens after them -/

theorem pFiletypeDecl_toks (t : Filetype) (hw : wfFiletype t = true) (rest : List Tok) :
    pFiletypeDecl (toksFiletype t ++ rest) = some (t, rest) := by
  obtain ⟨n⟩ := t
  simp only [wfFiletype, Bool.and_eq_true, Bool.not_eq_true', List.isEmpty_eq_false_iff] at hw
  match n, hw with
  | c :: r, _ =>
    have e : toksFiletype ⟨c :: r⟩ ++ rest = .id sFiletype :: .id c :: (toksDots r ++ tSemi :: rest) := by
      simp [toksFiletype]
    have h := pDots_toks r ((Tok.id sFiletype :: .id c :: (toksDots r ++ tSemi :: rest)).length + 1)
      (tSemi :: rest) (by simp [toksDots_length]; omega) (by intro r e; cases e)
    rw [e]
    unfold pFiletypeDecl
    simp only [h]
    simp

theorem pStructDecl_toks (s : Struct) (hw : wfStruct s = true) (rest : List Tok) :
    pStructDecl (toksStruct s ++ rest) = some (s, rest) := by
  obtain ⟨i, ms⟩ := s
  simp only [wfStruct, Bool.and_eq_true, Bool.not_eq_true', List.isEmpty_eq_false_iff] at hw
  have e : toksStruct ⟨i, ms⟩ ++ rest =
      .id sStruct :: .id i :: tLParen :: (toksMembers ms ++ tRParen :: rest) := by
    simp [toksStruct]
  have h := pMembers_toks ms
    ((Tok.id sStruct :: .id i :: tLParen :: (toksMembers ms ++ tRParen :: rest)).length + 1) rest hw.1.2 hw.2
    (by simp; omega)
  rw [e]
  unfold pStructDecl
  simp only [h]
  simp

/-! ## the declaration list -/

theorem decKind_filetype (t : Filetype) (rest : List Tok) : decKind (toksFiletype t ++ rest) = 1 := by
  obtain ⟨r, h⟩ := toksFiletype_head t
  rw [h]; rfl

theorem pDecls_toks (raw : Bool) : ∀ (ds : List Decl) (f : Nat) (rest : List Tok),
    ds.all wfDecl = true → ds.length < f → decKind rest = 0 → declStart rest = true →
    pDecls f (toksDecls raw ds ++ rest) = some (ds.map (readDeclB raw), rest)
  | [], f, rest, _, hf, hk, _ => by
    obtain ⟨g, rfl⟩ : ∃ g, f = g + 1 := ⟨f - 1, by simp at hf; omega⟩
    simp only [toksDecls, List.nil_append, pDecls, hk, List.map_nil]
  | d :: ds, f, rest, hw, hf, hk, hr => by
    obtain ⟨g, rfl⟩ : ∃ g, f = g + 1 := ⟨f - 1, by omega⟩
    simp only [List.all_cons, Bool.and_eq_true] at hw
    have ih := pDecls_toks raw ds g rest hw.2 (by simp at hf; omega) hk hr
    have hR := declStart_toksDecls raw ds rest hr
    have e : toksDecls raw (d :: ds) ++ rest = toksDecl raw d ++ (toksDecls raw ds ++ rest) := by
      simp [toksDecls]
    rw [e]
    cases d with
    | filetype t =>
      have h1 := decKind_filetype t (toksDecls raw ds ++ rest)
      have h2 := pFiletypeDecl_toks t hw.1 (toksDecls raw ds ++ rest)
      simp only [toksDecl] at h1 h2 ⊢
      rw [pDecls]
      simp only [h1, h2, ih, Option.map_some, List.map_cons, readDeclB]
    | struct s =>
      have h1 : decKind (toksStruct s ++ (toksDecls raw ds ++ rest)) = 2 := rfl
      have h2 := pStructDecl_toks s hw.1 (toksDecls raw ds ++ rest)
      simp only [toksDecl] at h1 h2 ⊢
      rw [pDecls]
      simp only [h1, h2, ih, Option.map_some, List.map_cons, readDeclB]
    | stage s =>
      have h1 : decKind (toksStage s ++ (toksDecls raw ds ++ rest)) = 3 := rfl
      have h2 := pStage_toks s hw.1 (toksDecls raw ds ++ rest) (declStart_stageEnd hR)
      simp only [toksDecl] at h1 h2 ⊢
      rw [pDecls]
      simp only [h1, h2, ih, Option.map_some, List.map_cons, readDeclB]
    | pipeline p =>
      cases raw with
      | false =>
        have h1 : decKind (toksPipeline p ++ (toksDecls false ds ++ rest)) = 4 := rfl
        have h2 := pPipeline_toks p (toksDecls false ds ++ rest) hw.1
        simp only [toksDecl, Bool.false_eq_true, ↓reduceIte] at h1 h2 ⊢
        rw [pDecls]
        simp only [h1, h2, ih, Option.map_some, List.map_cons, readDeclB, Bool.false_eq_true, ↓reduceIte]
      | true =>
        have h1 : decKind (toksPipelineRaw p ++ (toksDecls true ds ++ rest)) = 4 := rfl
        obtain ⟨_, hwi, hi, hwo, ho, hb, _⟩ := wfPipeline_parts (p := p) hw.1
        have h2 := pPipeline_toks_gen p.id p.ins p.outs p.body (toksDecls true ds ++ rest) hwi hi hwo ho hb
        simp only [toksDecl, ↓reduceIte, toksPipelineRaw] at h1 h2 ⊢
        rw [pDecls]
        simp only [h1, h2, ih, Option.map_some, List.map_cons, readDeclB, readDecl, ↓reduceIte]

/-! ## the file -/

theorem toksDecl_length_pos (raw : Bool) (d : Decl) : 1 ≤ (toksDecl raw d).length := by
  obtain ⟨t, r, h, _⟩ := toksDecl_head raw d
  rw [h]; simp

theorem toksDecls_length (raw : Bool) : ∀ ds : List Decl, ds.length ≤ (toksDecls raw ds).length
  | [] => Nat.le_refl _
  | d :: ds => by
    have := toksDecls_length raw ds
    have := toksDecl_length_pos raw d
    simp only [toksDecls, List.length_cons, List.length_append]
    omega

theorem toksIncludes_length : ∀ incs : List Bytes, (toksIncludes incs).length = 2 * incs.length
  | [] => rfl
  | p :: incs => by
    simp only [toksIncludes, List.length_cons, toksIncludes_length incs]
    omega

/-- **Token layer, file.**  The include lines, well-formed declarations of the four kinds in ANY
order, the call: the reader returns what `NewAst` builds. -/
theorem pFile_toks (raw : Bool) (incs : List Bytes) (ds : List Decl) (call : Option Call2)
    (hw : wfSource incs ds call = true) :
    pFile (toksIncludes incs ++ (toksDecls raw ds ++ toksCallOpt call)) =
      some (distribute incs (ds.map (readDeclB raw)) (call.map normCall2)) := by
  simp only [wfSource, Bool.and_eq_true, Bool.or_eq_true, Bool.not_eq_true',
    List.isEmpty_eq_false_iff] at hw
  obtain ⟨⟨⟨hi, hd⟩, hc⟩, hne⟩ := hw
  have hlen1 := toksIncludes_length incs
  have hlen2 := toksDecls_length raw ds
  have h1 := pIncludes_toks incs
    ((toksIncludes incs ++ (toksDecls raw ds ++ toksCallOpt call)).length + 1)
    (toksDecls raw ds ++ toksCallOpt call) hi
    (by simp only [List.length_append]; omega)
    (declStart_toksDecls raw ds _ (declStart_toksCallOpt call))
  have h2 := pDecls_toks raw ds
    ((toksIncludes incs ++ (toksDecls raw ds ++ toksCallOpt call)).length + 1)
    (toksCallOpt call) hd
    (by simp only [List.length_append]; omega)
    (decKind_toksCallOpt call) (declStart_toksCallOpt call)
  unfold pFile
  simp only [h1, h2]
  cases call with
  | none =>
    have hds : ds ≠ [] := by
      rcases hne with h | h
      · exact h
      · simp at h
    have : (ds.map (readDeclB raw)).isEmpty = false := by
      cases ds with
      | nil => exact absurd rfl hds
      | cons d ds => rfl
    simp only [toksCallOpt, this, Bool.false_eq_true, ↓reduceIte, Option.map_none]
  | some c =>
    obtain ⟨k, r, hk, _⟩ := toksCall2_head c
    have h3 := pCall2_toks c [] hc noUsing_nil
    rw [List.append_nil, hk] at h3
    simp only [toksCallOpt, hk, h3, Option.map_some]

/-! ## `distribute` -/

theorem filetypesOf_append (a b : List Decl) : filetypesOf (a ++ b) = filetypesOf a ++ filetypesOf b := by
  induction a with
  | nil => rfl
  | cons d a ih => cases d <;> simp [filetypesOf, ih]

theorem structsOf_append (a b : List Decl) : structsOf (a ++ b) = structsOf a ++ structsOf b := by
  induction a with
  | nil => rfl
  | cons d a ih => cases d <;> simp [structsOf, ih]

theorem callablesOf_append (a b : List Decl) : callablesOf (a ++ b) = callablesOf a ++ callablesOf b := by
  induction a with
  | nil => rfl
  | cons d a ih => cases d <;> simp [callablesOf, ih]

theorem of_filetypes (ts : List Filetype) :
    filetypesOf (ts.map .filetype) = ts ∧ structsOf (ts.map .filetype) = [] ∧
      callablesOf (ts.map .filetype) = [] := by
  induction ts with
  | nil => exact ⟨rfl, rfl, rfl⟩
  | cons t ts ih => simp [filetypesOf, structsOf, callablesOf, ih]

theorem of_structs (ss : List Struct) :
    filetypesOf (ss.map .struct) = [] ∧ structsOf (ss.map .struct) = ss ∧
      callablesOf (ss.map .struct) = [] := by
  induction ss with
  | nil => exact ⟨rfl, rfl, rfl⟩
  | cons s ss ih => simp [filetypesOf, structsOf, callablesOf, ih]

theorem of_callables (cs : List Callable) :
    filetypesOf (cs.map Callable.toDecl) = [] ∧ structsOf (cs.map Callable.toDecl) = [] ∧
      callablesOf (cs.map Callable.toDecl) = cs := by
  induction cs with
  | nil => exact ⟨rfl, rfl, rfl⟩
  | cons c cs ih => cases c <;> simp [Callable.toDecl, filetypesOf, structsOf, callablesOf, ih]

/-- the declarations of a file, in the order they are printed, distribute to the file -/
theorem distribute_declsOf (f : File) : distribute f.includes (declsOf f) f.call = f := by
  obtain ⟨i, t, s, c, k⟩ := f
  simp only [distribute, declsOf, filetypesOf_append, structsOf_append, callablesOf_append,
    of_filetypes, of_structs, of_callables, List.append_nil, List.nil_append]

theorem read_false (incs : List Bytes) (call : Option Call2) : ∀ ds : List Decl,
    filetypesOf (ds.map (readDeclB false)) = filetypesOf ds ∧
    structsOf (ds.map (readDeclB false)) = structsOf ds ∧
    callablesOf (ds.map (readDeclB false)) = (callablesOf ds).map normCallable
  | [] => ⟨rfl, rfl, rfl⟩
  | d :: ds => by
    obtain ⟨h1, h2, h3⟩ := read_false incs call ds
    cases d <;> simp [readDeclB, filetypesOf, structsOf, callablesOf, normCallable, h1, h2, h3]

/-- reading the declarations with sorted calls = the normal form of the distributed file -/
theorem distribute_read_false (incs : List Bytes) (ds : List Decl) (call : Option Call2) :
    distribute incs (ds.map (readDeclB false)) (call.map normCall2) =
      normFile (distribute incs ds call) := by
  obtain ⟨h1, h2, h3⟩ := read_false incs call ds
  simp only [distribute, normFile, h1, h2, h3]

theorem readDeclB_true : readDeclB true = readDecl := by
  funext d
  cases d <;> simp [readDeclB, readDecl]

end Martian.FormatFile
