import Martian.Vdr
import Proofs.VdrInv
import Proofs.VdrExact
import Proofs.VdrReclaim
import Proofs.VdrListed

/-! Reclaim without `DiskWF`: what the reclaim theorem needs of the cache is only
that every entry still below the files/ directories has a cache entry describing
it (`Covered`), which survives every pass for ANY shape of the disk (nested
links, temp entries anywhere); the exact one-to-one alignment — and with it
`LinksTop`/`Sep` — is needed for the accounting only. -/
namespace Martian.Vdr

def Covered (es : List Entry) (disk : List DiskEnt) : Prop :=
  ∀ d ∈ disk, isTmp d.kind = false → ∃ e ∈ es, Rel e d

def VInv (s : St) : Prop := s.final = false → ∀ es, s.cache = some es → Covered es s.disk

theorem VInv.frame {s s' : St} (v : VInv s) (f : Frame s s') : VInv s' := by
  intro hf es he
  rw [f.disk]
  exact v (f.final ▸ hf) es (f.cache ▸ he)

theorem VInv.ofFinal {s : St} (h : s.final = true) : VInv s := fun hf => by rw [h] at hf; cases hf

theorem cacheEntries_covered (c : Cfg) (s : St) : Covered (cacheEntries c s) s.disk := by
  intro d hd ht
  have hdf : d ∈ s.disk.filter (fun d => !isTmp d.kind) := List.mem_filter.mpr ⟨hd, by simp [ht]⟩
  exact forall2_mem_right (cacheEntries_aligned c s) d hdf

theorem VInv.cacheMap {c : Cfg} {s : St} : VInv (cacheMap c s) := by
  intro _ es he
  have : (Martian.Vdr.cacheMap c s).cache = some (cacheEntries c s) := rfl
  rw [this] at he
  cases he
  rw [cacheMap_disk]
  exact cacheEntries_covered c s

theorem VInv.normCache {c : Cfg} {s : St} (v : VInv s) : VInv (normCache c s) := by
  unfold Martian.Vdr.normCache
  split
  · exact VInv.cacheMap
  · rename_i es he
    intro hf es' he' d hd ht
    simp only [Option.some.injEq] at he'
    subst he'
    obtain ⟨e, hm, rel⟩ := v hf es he d hd ht
    refine ⟨{ e with args := e.args.filter (fun a => s.dom.contains a) }, ?_, rel⟩
    unfold updateCache
    exact List.mem_map.mpr ⟨e, hm, rfl⟩

theorem VInv.cleanPhase {c : Cfg} {s : St} (v : VInv s) (ph : Nat) : VInv (cleanPhase c s ph) := by
  unfold Martian.Vdr.cleanPhase
  split
  · exact v
  · intro hf es he d hd ht
    exact v hf es he d (List.mem_filter.mp hd).1 ht

theorem VInv.cleanTmp {c : Cfg} {s : St} (v : VInv s) (upto : Nat) : VInv (cleanTmp c s upto) := by
  rw [cleanTmp_eq]
  generalize List.range upto = r
  induction r generalizing s with
  | nil => exact v
  | cons x r ih => exact ih (v.cleanPhase x)

theorem killCore_covered {s : St} {es : List Entry} (cv : Covered es s.disk) :
    Covered (es.filter (fun e => !e.args.isEmpty)) (killCore s es).disk := by
  intro d hd ht
  have hd' : d ∈ s.disk ∧ (((es.filter (fun e => e.args.isEmpty)).map (·.path)).any
      fun k => pathIsInside d.path k) = false := by
    unfold killCore at hd
    simpa using List.mem_filter.mp hd
  obtain ⟨e, he, rel⟩ := cv d hd'.1 ht
  refine ⟨e, List.mem_filter.mpr ⟨he, ?_⟩, rel⟩
  cases hx : e.args.isEmpty with
  | false => rfl
  | true =>
    exfalso
    have := hd'.2
    rw [List.any_eq_false] at this
    have hk : e.path ∈ (es.filter (fun e => e.args.isEmpty)).map (·.path) :=
      List.mem_map.mpr ⟨e, List.mem_filter.mpr ⟨he, hx⟩, rfl⟩
    have h2 := this e.path hk
    rw [rel.1, pathIsInside_self] at h2
    exact h2 rfl

/-- `fin_core` with coverage instead of alignment -/
theorem fin_core_cov {c : Cfg} {s0 s1 : St} (r : RInv c s0 s1) (es es' : List Entry) (disk' : List DiskEnt)
    (hes : s1.cache = some es) (hsub : ∀ e ∈ es', e ∈ es ∧ e.args.isEmpty = false)
    (nc : ∀ e ∈ es, ∀ a ∈ e.args, InDom s1 a) (hpn : s1.postNodes = []) (cv : Covered es' disk') :
    ∀ d ∈ disk', isTmp d.kind = false → ∃ a, Holds s0 a none ∧ refsN c a (d.path :: d.alts) = true := by
  intro d hd ht
  obtain ⟨e, he', rel⟩ := cv d hd ht
  obtain ⟨he, hne⟩ := hsub e he'
  rw [List.isEmpty_eq_false_iff_exists_mem] at hne
  obtain ⟨a, ha⟩ := hne
  have hr := r.snd es hes e he a ha
  obtain ⟨hs, hm⟩ := nc e he a ha
  refine ⟨a, ?_, rel.2.2.2 ▸ hr⟩
  apply r.sh.holds
  cases hhs : hs with
  | nil => exact absurd hhs (r.bk.ne a hs hm)
  | cons h t =>
    cases h with
    | none => exact ⟨hs, hm, by rw [hhs]; exact List.mem_cons_self⟩
    | some n =>
      exfalso
      obtain ⟨as, hl, _⟩ := r.bk.cons a hs hm n (by rw [hhs]; exact List.mem_cons_self)
      rw [hpn] at hl
      simp [List.lookup] at hl

theorem VR.vdrKillSome {c : Cfg} {s0 s : St} (v : VInv s) (r : RInv c s0 s) (hf : s.final = false) (done : Bool)
    (hd : done = true → s.postNodes.isEmpty = true) :
    VInv (vdrKillSome c s done) ∧ RInv c s0 (vdrKillSome c s done) := by
  unfold Martian.Vdr.vdrKillSome
  dsimp only
  have v1 := v.normCache (c := c)
  have r1 := r.normCache
  have sh1 := normCache_sh c s
  have nc := normCache_inDom c s
  have hf1 : (Martian.Vdr.normCache c s).final = false := by rw [normCache_final]; exact hf
  obtain ⟨es, hes⟩ := normCache_cache c s
  generalize Martian.Vdr.normCache c s = s1 at *
  have hget : s1.cache.getD [] = es := by rw [hes]; rfl
  rw [hget]
  have cv1 := v1 hf1 es hes
  split
  · rename_i hempty
    split
    · rename_i hdone
      refine ⟨VInv.ofFinal rfl, ⟨r1.bk.cons, r1.bk.ne⟩, ⟨r1.sh.holds, r1.sh.keys⟩, r1.snd, ?_⟩
      intro _
      apply fin_core_cov r1 es es s1.disk hes _ (nc es hes) (postNodes_nil_of_sh sh1 (hd hdone)) cv1
      intro e he
      refine ⟨he, ?_⟩
      cases hx : e.args.isEmpty with
      | false => rfl
      | true =>
        exfalso
        have : e ∈ es.filter (fun e => e.args.isEmpty) := List.mem_filter.mpr ⟨he, hx⟩
        rw [List.isEmpty_iff] at hempty
        rw [hempty] at this
        cases this
    · exact ⟨v1, r1⟩
  · have cv2 : Covered (es.filter (fun e => !e.args.isEmpty)) (killCore s1 es).disk := killCore_covered cv1
    have vbase : VInv (killCore s1 es) := by
      intro _ es' he'
      have : (killCore s1 es).cache = some (es.filter (fun e => !e.args.isEmpty)) := rfl
      rw [this] at he'
      cases he'
      exact cv2
    have base : RInv c s0 (killCore s1 es) := by
      refine ⟨⟨r1.bk.cons, r1.bk.ne⟩, ⟨r1.sh.holds, r1.sh.keys⟩, ?_, ?_⟩
      · intro es' he' e hm a ha
        have : (killCore s1 es).cache = some (es.filter (fun e => !e.args.isEmpty)) := rfl
        rw [this] at he'
        cases he'
        exact r1.snd es hes e (List.mem_filter.mp hm).1 a ha
      · intro h
        have : (killCore s1 es).final = s1.final := rfl
        rw [this, hf1] at h
        cases h
    split
    · rename_i hcond
      refine ⟨VInv.ofFinal rfl, ⟨base.bk.cons, base.bk.ne⟩, ⟨base.sh.holds, base.sh.keys⟩, base.snd, ?_⟩
      intro _
      show ∀ d ∈ (killCore s1 es).disk, _
      by_cases hrest : (es.filter (fun e => !e.args.isEmpty)).isEmpty = true
      · intro d hdd ht
        exfalso
        obtain ⟨e, he, _⟩ := cv2 d hdd ht
        rw [List.isEmpty_iff] at hrest
        rw [hrest] at he
        cases he
      · have hpn : s1.postNodes = [] := by
          simp only [Bool.or_eq_true] at hcond
          rcases hcond with (h | h) | h
          · exact absurd h hrest
          · exact postNodes_nil_of_sh sh1 (hd h)
          · exact List.isEmpty_iff.mp h
        apply fin_core_cov r1 es (es.filter (fun e => !e.args.isEmpty)) _ hes _ (nc es hes) hpn cv2
        intro e he
        have := List.mem_filter.mp he
        exact ⟨this.1, by simpa using this.2⟩
    · exact ⟨vbase, base⟩

theorem VR.vdrKill {c : Cfg} {s0 s : St} (hv : c.volatile = true) (v : VInv s) (r : RInv c s0 s)
    (hp : s.postNodes.isEmpty = true) : VInv (vdrKill c s) ∧ RInv c s0 (vdrKill c s) := by
  unfold Martian.Vdr.vdrKill
  split
  · exact ⟨v, r⟩
  · rename_i hf
    first
      | exact VR.vdrKillSome v r (by simpa using hf) true (fun _ => hp)
      | (split
         · exact VR.vdrKillSome v r (by simpa using hf) true (fun _ => hp)
         · rename_i hnv; exact absurd hv hnv)

theorem VR.kill {c : Cfg} {s0 s : St} (hv : c.volatile = true) (v : VInv s) (r : RInv c s0 s) :
    VInv (kill c s) ∧ RInv c s0 (kill c s) := by
  unfold Martian.Vdr.kill
  split
  · exact ⟨v, r⟩
  · rename_i hf
    have hf0 : s.final = false := by simpa using hf
    dsimp only
    have v1 := v.cleanTmp (c := c) 3
    have r1 := r.cleanTmp hf0 3
    have hf1 : (Martian.Vdr.cleanTmp c s 3).final = false := by rw [(cleanTmp_fields c s 3).2.2.2.1]; exact hf0
    generalize Martian.Vdr.cleanTmp c s 3 = s1 at *
    have f2 := removePostNodes_frame ((s1.postNodes.map (·.1)).filter (fun n => s1.doneNodes.contains n)) s1
    have v2 := v1.frame f2
    have r2 := r1.frame f2 (removePostNodes_sh _ s1) (removePostNodes_bk _ s1 r1.bk)
    have hf2 := f2.final.trans hf1
    generalize removePostNodes s1 _ = s2 at *
    split
    · rename_i hemp
      split
      · exact VR.vdrKillSome v2 r2 hf2 true (fun _ => hemp)
      · exact VR.vdrKill hv v2 r2 hemp
    · split
      · exact VR.vdrKillSome v2 r2 hf2 false (fun h => by cases h)
      · exact ⟨v2, r2⟩

theorem VR.step {c : Cfg} {s0 s : St} (ok : CfgOK c s0) (hv : c.volatile = true) (bk0 : BK s0)
    (v : VInv s) (r : RInv c s0 s) (e : Ev) : VInv (step c s e) ∧ RInv c s0 (step c s e) := by
  cases e with
  | nodeDone n => exact ⟨v, r.nodeDone n⟩
  | nodeFailed n => exact ⟨v, r⟩
  | nodeReset n => exact ⟨v, r⟩
  | restart =>
    refine ⟨fun _ es he => (by cases he), ?_⟩
    refine ⟨?_, ?_, ?_, r.fin⟩
    · refine ⟨?_, ?_⟩
      · show ∀ a hs, (a, hs) ∈ c.initArgs → ∀ n, some n ∈ hs → ∃ as, c.initPost.lookup n = some as ∧ a ∈ as
        rw [ok.init.1, ok.init.2]; exact bk0.cons
      · show ∀ a hs, (a, hs) ∈ c.initArgs → hs ≠ []
        rw [ok.init.1]; exact bk0.ne
    · refine ⟨?_, ?_⟩
      · intro a h hh
        obtain ⟨hs, hm, hin⟩ := hh
        exact ⟨hs, by rw [← ok.init.1]; exact hm, hin⟩
      · intro p hp
        exact ⟨p, by rw [← ok.init.2]; exact hp, rfl⟩
    · intro es he; cases he
  | removeEmpty =>
    have f := foldRemove_frame (fun a => (c.namesOf a).isEmpty) s.dom s
    exact ⟨v.frame f, r.frame f (foldRemove_sh (fun a => (c.namesOf a).isEmpty) s.dom s)
      (foldRemove_bk (fun a => (c.namesOf a).isEmpty) s.dom s r.bk)⟩
  | cacheMap => exact ⟨VInv.cacheMap, r.cacheMap⟩
  | early upto =>
    show VInv (if s.final then s else Martian.Vdr.cleanTmp c s (min upto 3)) ∧
      RInv c s0 (if s.final then s else Martian.Vdr.cleanTmp c s (min upto 3))
    split
    · exact ⟨v, r⟩
    · rename_i hf
      exact ⟨v.cleanTmp _, r.cleanTmp (by simpa using hf) _⟩
  | kill => exact VR.kill hv v r

theorem VR.run {c : Cfg} {s0 s : St} (ok : CfgOK c s0) (hv : c.volatile = true) (bk0 : BK s0)
    (v : VInv s) (r : RInv c s0 s) (evs : List Ev) : VInv (run c s evs) ∧ RInv c s0 (run c s evs) := by
  unfold Martian.Vdr.run
  induction evs generalizing s with
  | nil => exact ⟨v, r⟩
  | cons e rest ih =>
    obtain ⟨v1, r1⟩ := VR.step ok hv bk0 v r e
    exact ih v1 r1

theorem VInv.init (s0 : St) (fr : Fresh s0) : VInv s0 := by
  intro _ es he
  rw [fr.cache] at he
  cases he

end Martian.Vdr
