import Martian.Regex

/-!
The executable leftmost-first matcher `m` / `pmatch` against the denotational
semantics `Matches`:

* `pmatch_sound`: what the matcher returns is a prefix of the input that the
  regex matches;
* `pmatch_complete`: when some prefix matches, the matcher returns a match
  (it never gives up early: backtracking is exhaustive, the fuel of the star
  loop suffices, skipping empty iterations loses nothing);
* `pmatch_eq_of_unique`: for a regex whose matching prefix is unique — all four
  rules of tokenizer.go end in `\b` after a maximal run or in the first
  unescaped quote — the leftmost-first choice IS that prefix, so a recogniser
  that decides `Matches` computes exactly what `regexp.Find` returns.
-/
namespace Martian.Regex

variable {α : Type}

theorem orElse_some {a b : Option α} {x : α} (h : orElse a b = some x) :
    a = some x ∨ (a = none ∧ b = some x) := by
  cases a with
  | some y => left; simpa [orElse] using h
  | none => right; exact ⟨rfl, by simpa [orElse] using h⟩

theorem orElse_isSome_left {a b : Option α} (h : a.isSome = true) : (orElse a b).isSome = true := by
  cases a with
  | some y => simp [orElse]
  | none => simp at h

theorem orElse_isSome_right {a b : Option α} (h : b.isSome = true) : (orElse a b).isSome = true := by
  cases a with
  | some y => simp [orElse]
  | none => simpa [orElse] using h

def StepSound (step : Bytes → Bytes → K α → Option α) (P : Bytes → Bytes → Bytes → Prop) : Prop :=
  ∀ pre s (k : K α) x, step pre s k = some x →
    ∃ w post, s = w ++ post ∧ P pre w post ∧ k (w.reverse ++ pre) post = some x

def StepComplete (step : Bytes → Bytes → K α → Option α) (P : Bytes → Bytes → Bytes → Prop) : Prop :=
  ∀ pre w post (k : K α), P pre w post → (k (w.reverse ++ pre) post).isSome = true →
    (step pre (w ++ post) k).isSome = true

/-! ### IterN -/

theorem IterN_append {P : Bytes → Bytes → Bytes → Prop} : ∀ (a b : Nat) (pre w1 w2 post : Bytes),
    IterN P a pre w1 (w2 ++ post) → IterN P b (w1.reverse ++ pre) w2 post →
    IterN P (a + b) pre (w1 ++ w2) post := by
  intro a
  induction a with
  | zero =>
    intro b pre w1 w2 post h1 h2
    simp only [IterN] at h1
    subst h1
    simpa using h2
  | succ a ih =>
    intro b pre w1 w2 post h1 h2
    obtain ⟨u, v, rfl, hp, hit⟩ := h1
    have : a + 1 + b = (a + b) + 1 := by omega
    rw [this]
    refine ⟨u, v ++ w2, by simp, by simpa using hp, ?_⟩
    apply ih b (u.reverse ++ pre) v w2 post hit
    simpa [List.reverse_append, List.append_assoc] using h2

theorem IterN_split {P : Bytes → Bytes → Bytes → Prop} : ∀ (a b : Nat) (pre w post : Bytes),
    IterN P (a + b) pre w post →
    ∃ w1 w2, w = w1 ++ w2 ∧ IterN P a pre w1 (w2 ++ post) ∧ IterN P b (w1.reverse ++ pre) w2 post := by
  intro a
  induction a with
  | zero =>
    intro b pre w post h
    exact ⟨[], w, rfl, rfl, by simpa using h⟩
  | succ a ih =>
    intro b pre w post h
    have e : a + 1 + b = (a + b) + 1 := by omega
    rw [e] at h
    obtain ⟨u, v, rfl, hp, hit⟩ := h
    obtain ⟨w1, w2, rfl, h1, h2⟩ := ih b _ _ _ hit
    refine ⟨u ++ w1, w2, by simp, ⟨u, w1, rfl, by simpa using hp, h1⟩, ?_⟩
    simpa [List.reverse_append, List.append_assoc] using h2

/-! ### the three repetition loops, soundness -/

theorem repMin_sound {step : Bytes → Bytes → K α → Option α} {P} (hs : StepSound step P) :
    ∀ (n : Nat) pre s (k : K α) x, repMin step n pre s k = some x →
      ∃ w post, s = w ++ post ∧ IterN P n pre w post ∧ k (w.reverse ++ pre) post = some x := by
  intro n
  induction n with
  | zero =>
    intro pre s k x h
    exact ⟨[], s, rfl, rfl, by simpa [repMin] using h⟩
  | succ n ih =>
    intro pre s k x h
    simp only [repMin] at h
    obtain ⟨w1, post1, rfl, hp, hk⟩ := hs _ _ _ _ h
    obtain ⟨w2, post, rfl, hit, hk2⟩ := ih _ _ _ _ hk
    refine ⟨w1 ++ w2, post, by simp, ⟨w1, w2, rfl, hp, hit⟩, ?_⟩
    simpa [List.reverse_append, List.append_assoc] using hk2

theorem repMax_sound {step : Bytes → Bytes → K α → Option α} {P} (hs : StepSound step P) :
    ∀ (n : Nat) pre s (k : K α) x, repMax step n pre s k = some x →
      ∃ j w post, j ≤ n ∧ s = w ++ post ∧ IterN P j pre w post ∧ k (w.reverse ++ pre) post = some x := by
  intro n
  induction n with
  | zero =>
    intro pre s k x h
    exact ⟨0, [], s, Nat.le_refl _, rfl, rfl, by simpa [repMax] using h⟩
  | succ n ih =>
    intro pre s k x h
    simp only [repMax] at h
    rcases orElse_some h with h1 | ⟨_, h2⟩
    · obtain ⟨w1, post1, rfl, hp, hk⟩ := hs _ _ _ _ h1
      obtain ⟨j, w2, post, hj, rfl, hit, hk2⟩ := ih _ _ _ _ hk
      refine ⟨j + 1, w1 ++ w2, post, by omega, by simp, ⟨w1, w2, rfl, hp, hit⟩, ?_⟩
      simpa [List.reverse_append, List.append_assoc] using hk2
    · exact ⟨0, [], s, by omega, rfl, rfl, by simpa using h2⟩

theorem repStar_sound {step : Bytes → Bytes → K α → Option α} {P} (hs : StepSound step P) :
    ∀ (f : Nat) pre s (k : K α) x, repStar step f pre s k = some x →
      ∃ j w post, s = w ++ post ∧ IterN P j pre w post ∧ k (w.reverse ++ pre) post = some x := by
  intro f
  induction f with
  | zero =>
    intro pre s k x h
    exact ⟨0, [], s, rfl, rfl, by simpa [repStar] using h⟩
  | succ f ih =>
    intro pre s k x h
    simp only [repStar] at h
    rcases orElse_some h with h1 | ⟨_, h2⟩
    · obtain ⟨w1, post1, rfl, hp, hk⟩ := hs _ _ _ _ h1
      split at hk
      · obtain ⟨j, w2, post, rfl, hit, hk2⟩ := ih _ _ _ _ hk
        refine ⟨j + 1, w1 ++ w2, post, by simp, ⟨w1, w2, rfl, hp, hit⟩, ?_⟩
        simpa [List.reverse_append, List.append_assoc] using hk2
      · cases hk
    · exact ⟨0, [], s, rfl, rfl, by simpa using h2⟩

/-! ### the three repetition loops, completeness -/

theorem repMin_complete {step : Bytes → Bytes → K α → Option α} {P} (hc : StepComplete step P) :
    ∀ (n : Nat) pre w post (k : K α), IterN P n pre w post →
      (k (w.reverse ++ pre) post).isSome = true → (repMin step n pre (w ++ post) k).isSome = true := by
  intro n
  induction n with
  | zero =>
    intro pre w post k h hk
    simp only [IterN] at h
    subst h
    simpa [repMin] using hk
  | succ n ih =>
    intro pre w post k h hk
    obtain ⟨w1, w2, rfl, hp, hit⟩ := h
    simp only [repMin, List.append_assoc]
    apply hc _ _ _ _ hp
    apply ih _ _ _ _ hit
    simpa [List.reverse_append, List.append_assoc] using hk

theorem repMax_complete {step : Bytes → Bytes → K α → Option α} {P} (hc : StepComplete step P) :
    ∀ (n j : Nat) pre w post (k : K α), j ≤ n → IterN P j pre w post →
      (k (w.reverse ++ pre) post).isSome = true → (repMax step n pre (w ++ post) k).isSome = true := by
  intro n
  induction n with
  | zero =>
    intro j pre w post k hj h hk
    have : j = 0 := by omega
    subst this
    simp only [IterN] at h
    subst h
    simpa [repMax] using hk
  | succ n ih =>
    intro j pre w post k hj h hk
    cases j with
    | zero =>
      simp only [IterN] at h
      subst h
      simp only [repMax]
      exact orElse_isSome_right (by simpa using hk)
    | succ j =>
      obtain ⟨w1, w2, rfl, hp, hit⟩ := h
      simp only [repMax, List.append_assoc]
      apply orElse_isSome_left
      apply hc _ _ _ _ hp
      apply ih j _ _ _ _ (by omega) hit
      simpa [List.reverse_append, List.append_assoc] using hk

theorem repStar_complete {step : Bytes → Bytes → K α → Option α} {P} (hc : StepComplete step P) :
    ∀ (j f : Nat) pre w post (k : K α), IterN P j pre w post → (w ++ post).length ≤ f →
      (k (w.reverse ++ pre) post).isSome = true → (repStar step f pre (w ++ post) k).isSome = true := by
  intro j
  induction j with
  | zero =>
    intro f pre w post k h _ hk
    simp only [IterN] at h
    subst h
    cases f with
    | zero => simpa [repStar] using hk
    | succ f => simp only [repStar]; exact orElse_isSome_right (by simpa using hk)
  | succ j ih =>
    intro f pre w post k h hf hk
    obtain ⟨w1, w2, rfl, hp, hit⟩ := h
    cases w1 with
    | nil =>
      -- an empty iteration: drop it
      simp only [List.reverse_nil, List.nil_append] at hit hk ⊢
      exact ih f pre w2 post k hit (by simpa using hf) hk
    | cons c r =>
      cases f with
      | zero => simp at hf
      | succ f =>
        simp only [repStar, List.append_assoc]
        apply orElse_isSome_left
        apply hc _ _ _ _ hp
        have hlt : (w2 ++ post).length < (c :: r ++ (w2 ++ post)).length := by
          simp only [List.length_append, List.length_cons]; omega
        rw [if_pos hlt]
        apply ih f _ _ _ _ hit
        · simp only [List.length_append, List.length_cons] at hf ⊢; omega
        · simpa [List.reverse_append, List.append_assoc] using hk

/-! ### the matcher -/

theorem m_sound : ∀ (r : Re), StepSound (α := α) (m r) (Matches r) := by
  intro r
  induction r with
  | eps =>
    intro pre s k x h
    exact ⟨[], s, rfl, rfl, by simpa [m] using h⟩
  | cls rs =>
    intro pre s k x h
    cases s with
    | nil => simp [m] at h
    | cons c t =>
      simp only [m] at h
      split at h
      · rename_i hc
        simp only [Bool.and_eq_true, decide_eq_true_eq] at hc
        exact ⟨[c], t, rfl, ⟨c, rfl, hc.1, hc.2⟩, by simpa using h⟩
      · cases h
  | ncls rs =>
    intro pre s k x h
    cases s with
    | nil => simp [m] at h
    | cons c t =>
      simp only [m] at h
      split at h
      · rename_i hc
        split at h
        · cases h
        · rename_i hin
          refine ⟨[c], t, rfl, ⟨c, t, rfl, Or.inl ⟨hc, by simpa using hin, rfl⟩⟩, by simpa using h⟩
      · rename_i hc
        refine ⟨(c :: t).take (runeLen (c :: t)), (c :: t).drop (runeLen (c :: t)),
          (List.take_append_drop _ _).symm, ⟨c, t, List.take_append_drop _ _, Or.inr ⟨hc, rfl⟩⟩, h⟩
  | cat a b iha ihb =>
    intro pre s k x h
    simp only [m] at h
    obtain ⟨w1, post1, rfl, hp, hk⟩ := iha _ _ _ _ h
    obtain ⟨w2, post, rfl, hp2, hk2⟩ := ihb _ _ _ _ hk
    refine ⟨w1 ++ w2, post, by simp, ⟨w1, w2, rfl, hp, hp2⟩, ?_⟩
    simpa [List.reverse_append, List.append_assoc] using hk2
  | alt a b iha ihb =>
    intro pre s k x h
    simp only [m] at h
    rcases orElse_some h with h1 | ⟨_, h2⟩
    · obtain ⟨w, post, rfl, hp, hk⟩ := iha _ _ _ _ h1
      exact ⟨w, post, rfl, Or.inl hp, hk⟩
    · obtain ⟨w, post, rfl, hp, hk⟩ := ihb _ _ _ _ h2
      exact ⟨w, post, rfl, Or.inr hp, hk⟩
  | rep a mn mx iha =>
    intro pre s k x h
    simp only [m] at h
    cases mx with
    | none =>
      simp only at h
      obtain ⟨w1, post1, rfl, hit1, hk⟩ := repMin_sound iha _ _ _ _ _ h
      obtain ⟨j, w2, post, rfl, hit2, hk2⟩ := repStar_sound iha _ _ _ _ _ hk
      refine ⟨w1 ++ w2, post, by simp, ⟨mn + j, by omega, (by intro M hM; cases hM),
        IterN_append _ _ _ _ _ _ hit1 hit2⟩, ?_⟩
      simpa [List.reverse_append, List.append_assoc] using hk2
    | some M =>
      simp only at h
      split at h
      · cases h
      · rename_i hM
        obtain ⟨w1, post1, rfl, hit1, hk⟩ := repMin_sound iha _ _ _ _ _ h
        obtain ⟨j, w2, post, hj, rfl, hit2, hk2⟩ := repMax_sound iha _ _ _ _ _ hk
        refine ⟨w1 ++ w2, post, by simp, ⟨mn + j, by omega, ?_,
          IterN_append _ _ _ _ _ _ hit1 hit2⟩, ?_⟩
        · intro M' hM'
          injection hM' with hM'
          omega
        · simpa [List.reverse_append, List.append_assoc] using hk2
  | bot =>
    intro pre s k x h
    simp only [m] at h
    split at h
    · rename_i hp
      exact ⟨[], s, rfl, ⟨rfl, by simpa using hp⟩, by simpa using h⟩
    · cases h
  | wordb =>
    intro pre s k x h
    simp only [m] at h
    split at h
    · rename_i hp
      exact ⟨[], s, rfl, ⟨rfl, by simpa using hp⟩, by simpa using h⟩
    · cases h

theorem m_complete : ∀ (r : Re), StepComplete (α := α) (m r) (Matches r) := by
  intro r
  induction r with
  | eps =>
    intro pre w post k h hk
    simp only [Matches] at h
    subst h
    simpa [m] using hk
  | cls rs =>
    intro pre w post k h hk
    obtain ⟨c, rfl, h1, h2⟩ := h
    simp only [List.cons_append, List.nil_append, m, h1, h2, decide_true, Bool.and_self, if_true]
    simpa using hk
  | ncls rs =>
    intro pre w post k h hk
    obtain ⟨c, t, hwp, hcase⟩ := h
    rw [hwp]
    rcases hcase with ⟨h1, h2, rfl⟩ | ⟨h1, hw⟩
    · simp only [List.cons_append, List.nil_append, List.cons.injEq, true_and] at hwp
      subst hwp
      simp only [m, h1, if_true, h2, Bool.false_eq_true, if_false]
      simpa using hk
    · have hpost : post = (c :: t).drop (runeLen (c :: t)) := by
        have e := List.take_append_drop (runeLen (c :: t)) (c :: t)
        rw [← hw] at e
        exact (List.append_cancel_left (e.trans hwp.symm)).symm
      simp only [m, h1, if_false]
      rw [← hw, ← hpost]
      exact hk
  | cat a b iha ihb =>
    intro pre w post k h hk
    obtain ⟨w1, w2, rfl, h1, h2⟩ := h
    simp only [m, List.append_assoc]
    apply iha _ _ _ _ h1
    apply ihb _ _ _ _ h2
    simpa [List.reverse_append, List.append_assoc] using hk
  | alt a b iha ihb =>
    intro pre w post k h hk
    simp only [m]
    rcases h with h | h
    · exact orElse_isSome_left (iha _ _ _ _ h hk)
    · exact orElse_isSome_right (ihb _ _ _ _ h hk)
  | rep a mn mx iha =>
    intro pre w post k h hk
    obtain ⟨j, hmn, hmx, hit⟩ := h
    have e : j = mn + (j - mn) := by omega
    rw [e] at hit
    obtain ⟨w1, w2, rfl, hit1, hit2⟩ := IterN_split _ _ _ _ _ hit
    simp only [m]
    cases mx with
    | none =>
      simp only [List.append_assoc]
      apply repMin_complete iha _ _ _ _ _ hit1
      apply repStar_complete iha _ _ _ _ _ _ hit2 (Nat.le_refl _)
      simpa [List.reverse_append, List.append_assoc] using hk
    | some M =>
      have hM := hmx M rfl
      have : ¬ M < mn := by omega
      simp only [this, if_false, List.append_assoc]
      apply repMin_complete iha _ _ _ _ _ hit1
      apply repMax_complete iha _ (j - mn) _ _ _ _ (by omega) hit2
      simpa [List.reverse_append, List.append_assoc] using hk
  | bot =>
    intro pre w post k h hk
    obtain ⟨rfl, rfl⟩ := h
    simpa [m] using hk
  | wordb =>
    intro pre w post k h hk
    obtain ⟨rfl, hne⟩ := h
    have : (wordBefore pre != wordAfter post) = true := by simpa using hne
    simp only [List.nil_append, m, this, if_true]
    simpa using hk

/-! ### `pmatch` -/

theorem pmatch_sound {r : Re} {s w : Bytes} (h : pmatch r s = some w) :
    ∃ post, s = w ++ post ∧ Matches r [] w post := by
  obtain ⟨w', post, rfl, hm, hk⟩ := m_sound r _ _ _ _ h
  simp only [List.append_nil, List.reverse_reverse, Option.some.injEq] at hk
  subst hk
  exact ⟨post, rfl, hm⟩

theorem pmatch_complete {r : Re} {w post : Bytes} (h : Matches r [] w post) :
    (pmatch r (w ++ post)).isSome = true :=
  m_complete r _ _ _ _ h (by simp)

theorem pmatch_none_iff (r : Re) (s : Bytes) :
    pmatch r s = none ↔ ¬ ∃ w post, s = w ++ post ∧ Matches r [] w post := by
  constructor
  · intro h ⟨w, post, hs, hm⟩
    have := pmatch_complete hm
    rw [← hs, h] at this
    cases this
  · intro h
    cases hp : pmatch r s with
    | none => rfl
    | some w =>
      obtain ⟨post, hs, hm⟩ := pmatch_sound hp
      exact absurd ⟨w, post, hs, hm⟩ h

/-- A recogniser `f` that returns a prefix of its input and decides `Matches`
for a regex whose match is unique computes exactly `pmatch` (= what
`regexp.Find` returns for the anchored regex). -/
theorem pmatch_eq_of_unique (r : Re) (f : Bytes → Option Bytes)
    (hpre : ∀ s w, f s = some w → ∃ post, s = w ++ post)
    (hiff : ∀ w post, Matches r [] w post ↔ f (w ++ post) = some w) :
    ∀ s, pmatch r s = f s := by
  intro s
  cases hp : pmatch r s with
  | some w =>
    obtain ⟨post, rfl, hm⟩ := pmatch_sound hp
    exact ((hiff w post).mp hm).symm
  | none =>
    cases hf : f s with
    | none => rfl
    | some w =>
      obtain ⟨post, rfl⟩ := hpre s w hf
      have := pmatch_complete ((hiff w post).mpr hf)
      rw [hp] at this
      cases this

end Martian.Regex
