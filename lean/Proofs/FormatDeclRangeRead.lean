import Proofs.FormatExpRangeRead
import Martian.FormatDeclText

/-!
C09, accepted declaration texts: the RANGE of the readers of `Martian.FormatDecl`.

On tokens in the range of the tokenizer (`tokOK`), whatever `pType` returns
satisfies `wfType`; whatever `pMember` / `pInParam` / `pOutParam` return satisfies
`memberRaw` / `paramRaw` (= `wfMember` / `wfParam` without the validity of the two
strings) and carries the mode of its reader; hence `parseFiletype`, `parseStruct`,
`parseParams` return well-formed declarations for ANY source text, up to the
validity of the strings (F6b).

Core Lean only.
-/

namespace Martian.FormatDecl
open Martian.Lexer (Bytes unquoteBytes)
open Martian.FormatExp

abbrev AllOK (ts : List Tok) : Prop := ts.all tokOK = true

theorem allOK_cons {t : Tok} {ts : List Tok} (h : AllOK (t :: ts)) : tokOK t = true ∧ AllOK ts := by
  simp only [AllOK, List.all_cons, Bool.and_eq_true] at h; exact h

theorem allOK_tail {t : Tok} {ts : List Tok} (h : AllOK (t :: ts)) : AllOK ts := (allOK_cons h).2

theorem allOK_drop1 {ts : List Tok} (h : AllOK ts) : AllOK (ts.drop 1) := by
  cases ts with
  | nil => exact h
  | cons t r => exact allOK_tail h

/-! ## types -/

theorem pArr_range : ∀ (n : Nat) (ts : List Tok), ts.length ≤ n → AllOK ts → AllOK (pArr ts).2
  | 0, ts, hl, h => by
    cases ts with
    | nil => simp [pArr]
    | cons _ _ => simp at hl
  | n + 1, ts, hl, h => by
    unfold pArr
    split
    · rename_i a b r
      split
      · simp only [List.length_cons] at hl
        exact pArr_range n r (by omega) (allOK_tail (allOK_tail h))
      · exact h
    · exact h

theorem pArr_rangeOK (ts : List Tok) (h : AllOK ts) : AllOK (pArr ts).2 :=
  pArr_range ts.length ts (Nat.le_refl _) h

/-- the base names `nonmap_type` can produce -/
def baseOK (n : List Bytes) : Bool :=
  match n with
  | [] => false
  | [w] => isNonMapBuiltin w || isIdent w
  | c :: r => (c :: r).all isIdent

theorem baseOK_idents (x : Bytes) (xs : List Bytes) (hx : isIdent x = true) (hxs : xs.all isIdent = true) :
    baseOK (x :: xs) = true := by
  cases xs with
  | nil => simp [baseOK, hx]
  | cons y r => simp only [baseOK, List.all_cons, hx, Bool.true_and]; simpa using hxs

theorem pBase_range (f : Nat) (ts : List Tok) (n : List Bytes) (rest : List Tok) (hts : AllOK ts)
    (h : pBase f ts = some (n, rest)) : baseOK n = true ∧ AllOK rest := by
  unfold pBase at h
  split at h
  · rename_i w r
    split at h
    · rename_i hb
      injection h with h; injection h with h1 h2; subst h1; subst h2
      exact ⟨by simp [baseOK, hb], allOK_tail hts⟩
    · cases h
  · rename_i x r
    cases hd : pDots f r with
    | none => simp [hd] at h
    | some p =>
      obtain ⟨xs, r'⟩ := p
      simp only [hd, Option.map_some, Option.some.injEq, Prod.mk.injEq] at h
      obtain ⟨rfl, rfl⟩ := h
      have ⟨hx, hr⟩ := allOK_cons hts
      have ih := pDots_range f r xs r' hr hd
      exact ⟨baseOK_idents x xs (by simpa [tokOK] using hx) ih.1, ih.2⟩
  · cases h

theorem wfType_of_base {n : List Bytes} (hn : baseOK n = true) (a m : Nat) (ha : a ≤ 32767) (hm : m ≤ 32767) :
    wfType ⟨n, a, m⟩ = true := by
  unfold wfType
  simp only [ha, hm, decide_true, Bool.and_true]
  match n, hn with
  | [w], hn =>
    simp only [baseOK, Bool.or_eq_true] at hn
    rcases hn with hn | hn <;> simp [hn]
  | c :: d :: r, hn => simpa [baseOK] using hn

theorem pPlain_range (n : List Bytes) (ts : List Tok) (t : TypeId) (rest : List Tok) (hts : AllOK ts)
    (hn : baseOK n = true ∨ n = [sMap]) (h : pPlain n ts = some (t, rest)) :
    wfType t = true ∧ AllOK rest := by
  unfold pPlain at h
  split at h
  · rename_i hle
    injection h with h; injection h with h1 h2; subst h1; subst h2
    refine ⟨?_, pArr_rangeOK ts hts⟩
    rcases hn with hn | rfl
    · exact wfType_of_base hn _ _ hle (by omega)
    · simp [wfType, hle]
  · cases h

theorem pMapArg_range (f : Nat) (ts : List Tok) (t : TypeId) (rest : List Tok) (hts : AllOK ts)
    (h : pMapArg f ts = some (t, rest)) : wfType t = true ∧ AllOK rest := by
  unfold pMapArg at h
  split at h
  · rename_i n r1 hb
    have ⟨hn, hr1⟩ := pBase_range f ts n r1 hts hb
    split at h
    · rename_i hc
      simp only [Bool.and_eq_true, decide_eq_true_eq] at hc
      injection h with h; injection h with h1 h2; subst h1; subst h2
      exact ⟨wfType_of_base hn _ _ hc.2 (by omega),
        pArr_rangeOK _ (allOK_drop1 (pArr_rangeOK r1 hr1))⟩
    · cases h
  · cases h

/-- **Range of `type_id`.** -/
theorem pType_range (f : Nat) (ts : List Tok) (t : TypeId) (rest : List Tok) (hts : AllOK ts)
    (h : pType f ts = some (t, rest)) : wfType t = true ∧ AllOK rest := by
  unfold pType at h
  split at h
  · rename_i w r
    have hr := allOK_tail hts
    split at h
    · split at h
      · exact pMapArg_range f _ t rest (allOK_drop1 hr) h
      · exact pPlain_range _ r t rest hr (Or.inr rfl) h
    · split at h
      · rename_i hb
        exact pPlain_range _ r t rest hr (Or.inl (by simp [baseOK, hb])) h
      · cases h
  · rename_i x r
    have ⟨hx, hr⟩ := allOK_cons hts
    split at h
    · rename_i xs r1 hd
      have ih := pDots_range f r xs r1 hr hd
      exact pPlain_range _ r1 t rest ih.2 (Or.inl (baseOK_idents x xs (by simpa [tokOK] using hx) ih.1)) h
    · cases h
  · cases h

/-! ## the tails `',' | help ',' | help outname ','` -/

theorem pInTail_range (ts : List Tok) (hlp : Bytes) (rest : List Tok) (hts : AllOK ts)
    (h : pInTail ts = some (hlp, rest)) : AllOK rest := by
  unfold pInTail at h
  split at h
  · split at h
    · injection h with h; injection h with _ h2; subst h2; exact allOK_tail hts
    · cases h
  · split at h
    · rename_i hh c r _
      cases hu : unquoteBytes hh with
      | none => simp [hu] at h
      | some s =>
        simp only [hu, Option.map_some, Option.some.injEq, Prod.mk.injEq] at h
        obtain ⟨_, rfl⟩ := h
        exact allOK_tail (allOK_tail hts)
    · cases h
  · cases h

theorem pTail_range (ts : List Tok) (hlp o : Bytes) (rest : List Tok) (hts : AllOK ts)
    (h : pTail ts = some (hlp, o, rest)) : AllOK rest := by
  unfold pTail at h
  split at h
  · split at h
    · injection h with h; injection h with _ h2; injection h2 with _ h3; subst h3; exact allOK_tail hts
    · cases h
  · split at h
    · rename_i hh c r _
      cases hu : unquoteBytes hh with
      | none => simp [hu] at h
      | some s =>
        simp only [hu, Option.map_some, Option.some.injEq, Prod.mk.injEq] at h
        obtain ⟨_, _, rfl⟩ := h
        exact allOK_tail (allOK_tail hts)
    · cases h
  · split at h
    · split at h
      · injection h with h; injection h with _ h2; injection h2 with _ h3; subst h3
        exact allOK_tail (allOK_tail (allOK_tail hts))
      · cases h
    · cases h
  · cases h

/-! ## members and parameters -/

theorem pMember_range (f : Nat) (ts : List Tok) (m : Member) (rest : List Tok) (hts : AllOK ts)
    (h : pMember f ts = some (m, rest)) : memberRaw m = true ∧ AllOK rest := by
  unfold pMember at h
  split at h
  · rename_i t x r hp
    have ⟨ht, hr⟩ := pType_range f ts t _ hts hp
    have ⟨hx, hr'⟩ := allOK_cons hr
    cases hq : pTail r with
    | none => simp [hq] at h
    | some q =>
      obtain ⟨hl, o, r'⟩ := q
      simp only [hq, Option.map_some, Option.some.injEq, Prod.mk.injEq] at h
      obtain ⟨rfl, rfl⟩ := h
      refine ⟨?_, pTail_range r hl o r' hr' hq⟩
      simp only [memberRaw, ht, Bool.true_and]
      simpa [tokOK] using hx
  · cases h

theorem pInParam_range (f : Nat) (ts : List Tok) (p : Param) (rest : List Tok) (hts : AllOK ts)
    (h : pInParam f ts = some (p, rest)) : paramRaw p = true ∧ p.out = false ∧ AllOK rest := by
  unfold pInParam at h
  split at h
  · rename_i w ts'
    split at h
    · split at h
      · rename_i t x r hp
        have ⟨ht, hr⟩ := pType_range f ts' t _ (allOK_tail hts) hp
        have ⟨hx, hr'⟩ := allOK_cons hr
        cases hq : pInTail r with
        | none => simp [hq] at h
        | some q =>
          obtain ⟨hl, r'⟩ := q
          simp only [hq, Option.map_some, Option.some.injEq, Prod.mk.injEq] at h
          obtain ⟨rfl, rfl⟩ := h
          refine ⟨?_, rfl, pInTail_range r hl r' hr' hq⟩
          have hx' : isIdent x = true := by simpa [tokOK] using hx
          simp [paramRaw, ht, hx']
      · cases h
    · cases h
  · cases h

theorem pOutParam_range (f : Nat) (ts : List Tok) (p : Param) (rest : List Tok) (hts : AllOK ts)
    (h : pOutParam f ts = some (p, rest)) : paramRaw p = true ∧ p.out = true ∧ AllOK rest := by
  unfold pOutParam at h
  split at h
  · rename_i w ts'
    split at h
    · split at h
      · rename_i t x r hp
        have ⟨ht, hr⟩ := pType_range f ts' t _ (allOK_tail hts) hp
        have ⟨hx, hr'⟩ := allOK_cons hr
        cases hq : pTail r with
        | none => simp [hq] at h
        | some q =>
          obtain ⟨hl, o, r'⟩ := q
          simp only [hq, Option.map_some, Option.some.injEq, Prod.mk.injEq] at h
          obtain ⟨rfl, rfl⟩ := h
          refine ⟨?_, rfl, pTail_range r hl o r' hr' hq⟩
          have hx' : isIdent x = true := by simpa [tokOK] using hx
          simp [paramRaw, ht, hx']
      · rename_i t r _ hp
        have ⟨ht, hr⟩ := pType_range f ts' t _ (allOK_tail hts) hp
        cases hq : pTail r with
        | none => simp [hq] at h
        | some q =>
          obtain ⟨hl, o, r'⟩ := q
          simp only [hq, Option.map_some, Option.some.injEq, Prod.mk.injEq] at h
          obtain ⟨rfl, rfl⟩ := h
          refine ⟨?_, rfl, pTail_range r hl o r' hr hq⟩
          simp [paramRaw, ht]
      · cases h
    · cases h
  · cases h

theorem pInParams_range : ∀ (f : Nat) (ts : List Tok) (ps : List Param) (rest : List Tok), AllOK ts →
    pInParams f ts = some (ps, rest) →
    ps.all paramRaw = true ∧ ps.all (fun p => !p.out) = true ∧ AllOK rest
  | 0, _, _, _, _, h => by simp [pInParams] at h
  | f + 1, ts, ps, rest, hts, h => by
    unfold pInParams at h
    split at h
    · split at h
      · rename_i p r hp
        have ⟨h1, h2, hr⟩ := pInParam_range f ts p r hts hp
        cases hq : pInParams f r with
        | none => simp [hq] at h
        | some q =>
          obtain ⟨ps', r'⟩ := q
          simp only [hq, Option.map_some, Option.some.injEq, Prod.mk.injEq] at h
          obtain ⟨rfl, rfl⟩ := h
          have ih := pInParams_range f r ps' r' hr hq
          exact ⟨by simp [h1, ih.1], by simp [h2, ih.2.1], ih.2.2⟩
      · cases h
    · injection h with h; injection h with h1 h2; subst h1; subst h2
      exact ⟨rfl, rfl, hts⟩

theorem pOutParams_range : ∀ (f : Nat) (ts : List Tok) (ps : List Param) (rest : List Tok), AllOK ts →
    pOutParams f ts = some (ps, rest) →
    ps.all paramRaw = true ∧ ps.all (fun p => p.out) = true ∧ AllOK rest
  | 0, _, _, _, _, h => by simp [pOutParams] at h
  | f + 1, ts, ps, rest, hts, h => by
    unfold pOutParams at h
    split at h
    · split at h
      · rename_i p r hp
        have ⟨h1, h2, hr⟩ := pOutParam_range f ts p r hts hp
        cases hq : pOutParams f r with
        | none => simp [hq] at h
        | some q =>
          obtain ⟨ps', r'⟩ := q
          simp only [hq, Option.map_some, Option.some.injEq, Prod.mk.injEq] at h
          obtain ⟨rfl, rfl⟩ := h
          have ih := pOutParams_range f r ps' r' hr hq
          exact ⟨by simp [h1, ih.1], by simp [h2, ih.2.1], ih.2.2⟩
      · cases h
    · injection h with h; injection h with h1 h2; subst h1; subst h2
      exact ⟨rfl, rfl, hts⟩

theorem pMembers_range : ∀ (f : Nat) (ts : List Tok) (ms : List Member) (rest : List Tok), AllOK ts →
    pMembers f ts = some (ms, rest) → ms.all memberRaw = true ∧ ms ≠ [] ∧ AllOK rest
  | 0, _, _, _, _, h => by simp [pMembers] at h
  | f + 1, ts, ms, rest, hts, h => by
    unfold pMembers at h
    split at h
    · rename_i m r hp
      have ⟨h1, hr⟩ := pMember_range f ts m r hts hp
      split at h
      · injection h with h; injection h with h1' h2; subst h1'; subst h2
        exact ⟨by simp [h1], by simp, hr⟩
      · cases hq : pMembers f r with
        | none => simp [hq] at h
        | some q =>
          obtain ⟨ms', r'⟩ := q
          simp only [hq, Option.map_some, Option.some.injEq, Prod.mk.injEq] at h
          obtain ⟨rfl, rfl⟩ := h
          have ih := pMembers_range f r ms' r' hr hq
          exact ⟨by simp [h1, ih.1], by simp, ih.2.2⟩
    · cases h

/-! ## from the raw range to `wf…` -/

theorem wfMember_of_raw {m : Member} (h : memberRaw m = true) (hs : memberStrsValid m = true) :
    wfMember m = true := by
  simp only [memberRaw, memberStrsValid, Bool.and_eq_true] at h hs
  simp [wfMember, h.1, h.2, hs.1, hs.2]

theorem wfParam_of_raw {p : Param} (h : paramRaw p = true) (hs : memberStrsValid p.toMember = true) :
    wfParam p = true := by
  simp only [paramRaw, memberStrsValid, Bool.and_eq_true] at h hs
  simp only [wfParam, h.1.1, h.1.2, h.2, hs.1, hs.2, Bool.and_self]

theorem all_wfMember_of_raw : ∀ ms : List Member, ms.all memberRaw = true → ms.all memberStrsValid = true →
    ms.all wfMember = true
  | [], _, _ => rfl
  | m :: r, h, hs => by
    simp only [List.all_cons, Bool.and_eq_true] at h hs ⊢
    exact ⟨wfMember_of_raw h.1 hs.1, all_wfMember_of_raw r h.2 hs.2⟩

theorem all_wfParam_of_raw : ∀ ps : List Param, ps.all paramRaw = true → paramsStrsValid ps = true →
    ps.all wfParam = true
  | [], _, _ => rfl
  | p :: r, h, hs => by
    simp only [paramsStrsValid, List.all_cons, Bool.and_eq_true] at h hs ⊢
    exact ⟨wfParam_of_raw h.1 hs.1, all_wfParam_of_raw r h.2 hs.2⟩

theorem paramsStrsValid_append (a b : List Param) :
    paramsStrsValid (a ++ b) = (paramsStrsValid a && paramsStrsValid b) := by
  simp [paramsStrsValid, List.all_append]

/-! ## whole declarations -/

/-- **Range of `filetype`**: no exception. -/
theorem parseFiletype_range (src : Bytes) (t : Filetype) (h : parseFiletype src = some t) :
    wfFiletype t = true := by
  unfold parseFiletype at h
  cases hl : lexAll src with
  | none => simp [hl] at h
  | some ts =>
    simp only [hl, Option.bind_some] at h
    have hts : AllOK ts := List.all_eq_true.mpr (range_lexAll src ts hl)
    unfold parseFiletypeToks at h
    split at h
    · rename_i k x r
      split at h
      · split at h
        · rename_i xs c hd
          split at h
          · injection h with h; subst h
            have ⟨_, h2⟩ := allOK_cons hts
            have ⟨hx, hr⟩ := allOK_cons h2
            have ih := pDots_range _ r xs _ hr hd
            have hx' : isIdent x = true := by simpa [tokOK] using hx
            simp [wfFiletype, hx', ih.1]
          · cases h
        · cases h
      · cases h
    · cases h

/-- **Range of `struct`**: well-formed up to the validity of the strings. -/
theorem parseStruct_range (src : Bytes) (s : Struct) (h : parseStruct src = some s)
    (hs : declStrsValid s = true) : wfStruct s = true := by
  unfold parseStruct at h
  cases hl : lexAll src with
  | none => simp [hl] at h
  | some ts =>
    simp only [hl, Option.bind_some] at h
    have hts : AllOK ts := List.all_eq_true.mpr (range_lexAll src ts hl)
    unfold parseStructToks at h
    split at h
    · rename_i k x c r
      split at h
      · split at h
        · rename_i ms d hp
          split at h
          · injection h with h; subst h
            have ⟨_, h2⟩ := allOK_cons hts
            have ⟨hx, h3⟩ := allOK_cons h2
            have ih := pMembers_range _ r ms _ (allOK_tail h3) hp
            have hx' : isIdent x = true := by simpa [tokOK] using hx
            have hne : ms.isEmpty = false := by
              cases ms with
              | nil => exact absurd rfl ih.2.1
              | cons _ _ => rfl
            simp only [wfStruct, hx', hne, Bool.not_false, Bool.true_and]
            exact all_wfMember_of_raw ms ih.1 hs
          · cases h
        · cases h
      · cases h
    · cases h

/-- **Range of a parameter block**: inputs then outputs, each well-formed up to the validity of
the strings. -/
theorem parseParams_range (src : Bytes) (ps : List Param) (h : parseParams src = some ps)
    (hs : paramsStrsValid ps = true) :
    ∃ ins outs, ps = ins ++ outs ∧ ins.all wfParam = true ∧ outs.all wfParam = true ∧
      ins.all (fun p => !p.out) = true ∧ outs.all (fun p => p.out) = true := by
  unfold parseParams at h
  cases hl : lexAll src with
  | none => simp [hl] at h
  | some ts =>
    simp only [hl, Option.bind_some] at h
    have hts : AllOK ts := List.all_eq_true.mpr (range_lexAll src ts hl)
    unfold parseParamsToks at h
    split at h
    · rename_i ins r hi
      have ⟨hi1, hi2, hr⟩ := pInParams_range _ ts ins r hts hi
      split at h
      · rename_i outs ho
        have ⟨ho1, ho2, _⟩ := pOutParams_range _ r outs [] hr ho
        injection h with h; subst h
        rw [paramsStrsValid_append, Bool.and_eq_true] at hs
        exact ⟨ins, outs, rfl, all_wfParam_of_raw ins hi1 hs.1, all_wfParam_of_raw outs ho1 hs.2, hi2, ho2⟩
      · cases h
    · cases h

end Martian.FormatDecl
