import Martian.Semaphore
import Proofs.Semaphore
import Proofs.SemaphoreRun

/-! Nested acquisition (cores → memory → vmem → processes): a state of the
semaphores in which nobody runs and nobody is in transit has empty queues. -/
namespace Martian.Semaphore

/-- ids of the current holders / of the queued callers of one semaphore -/
def hid (p : Sem × List Waiter) : List Nat := p.2.map Prod.fst
def wid (p : Sem × List Waiter) : List Nat := p.1.waiters.map Prod.fst

/-- The shape `Enqueue` gives to the holders of a list of semaphores taken in
list order, at an instant when no job is between two `Acquire` calls: whoever
holds a semaphore either holds all later ones too (it runs) or is queued on a
later one; and whoever holds a later one holds the earlier ones. -/
def Disciplined : List (Sem × List Waiter) → Prop
  | [] => True
  | p :: ps =>
    (∀ id ∈ hid p, (∀ q ∈ ps, id ∈ hid q) ∨ (∃ q ∈ ps, id ∈ wid q)) ∧
    (∀ q ∈ ps, ∀ id ∈ hid q, id ∈ hid p) ∧ Disciplined ps

theorem good_idle (p : Sem × List Waiter) (g : Good p) (hidle : p.2 = []) (hfull : p.1.cur = p.1.max) :
    p.1.waiters = [] := by
  have hb := g.book
  rw [hidle] at hb; simp only [sumAmt] at hb
  have hn := g.noLost
  unfold NoLost at hn
  cases hw : p.1.waiters with
  | nil => rfl
  | cons w ws =>
    exfalso
    simp only [hw] at hn
    have hl := g.waitLe w (by rw [hw]; simp)
    omega

theorem nested_queues_empty (ps : List (Sem × List Waiter))
    (hg : ∀ p ∈ ps, Good p ∧ p.1.cur = p.1.max) (hd : Disciplined ps)
    (hr : ∀ id, ¬ ∀ p ∈ ps, id ∈ hid p) : ∀ p ∈ ps, p.1.waiters = [] := by
  induction ps with
  | nil => intro p hp; simp at hp
  | cons p rest ih =>
    obtain ⟨d1, d2, d3⟩ := hd
    have hrest : ∀ q ∈ rest, q.1.waiters = [] := by
      cases hrest : rest with
      | nil => intro q hq; simp at hq
      | cons q0 qs =>
        rw [← hrest]
        apply ih (fun q hq => hg q (by simp [hq])) d3
        intro id hall
        apply hr id
        intro q hq
        rcases List.mem_cons.mp hq with h | h
        · subst h
          exact d2 q0 (by simp [hrest]) id (hall q0 (by simp [hrest]))
        · exact hall q h
    have hp : p.2 = [] := by
      cases hh : p.2 with
      | nil => rfl
      | cons w ws =>
        exfalso
        have hid_w : w.1 ∈ hid p := by simp [hid, hh]
        rcases d1 w.1 hid_w with hall | ⟨q, hq, hwq⟩
        · apply hr w.1
          intro q hq
          rcases List.mem_cons.mp hq with h | h
          · subst h; exact hid_w
          · exact hall q h
        · have := hrest q hq
          simp [wid, this] at hwq
    intro q hq
    rcases List.mem_cons.mp hq with h | h
    · subst h
      exact good_idle q (hg q (by simp)).1 hp (hg q (by simp)).2
    · exact hrest q h

theorem good_fresh (m : Int) : Good (Sem.init m, []) :=
  ⟨rfl, by intro w hw; simp at hw, by intro w hw; simp [Sem.init] at hw,
   by intro w hw; simp [Sem.init] at hw, by simp [NoLost, Sem.init]⟩

end Martian.Semaphore
