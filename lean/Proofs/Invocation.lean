/-
Helper lemmas for C16 (model: Martian/Invocation.lean).  Core Lean only.
Mutual structural recursion over the (Exp, EList, EKvs) / (J, JList, JKvs)
families.
-/
import Martian.Invocation

namespace Martian.Invocation

/-! ### scalars -/

theorem inInt64_small (n : Nat) (neg : Bool) (h : n < 1000000) :
    inInt64 (if neg = true then -(Int.ofNat n) else Int.ofNat n) = true := by
  cases neg <;> simp [inInt64] <;> omega

theorem jsonAsInt_inInt64 (f : Flt) (h : f.jsonAsInt = true) : inInt64 f.intVal = true := by
  simp only [Flt.jsonAsInt, Bool.or_eq_true, beq_iff_eq, Bool.and_eq_true] at h
  rcases h with h0 | ⟨_, hi⟩
  · simp [Flt.intVal, h0, inInt64]
  · exact hi

theorem encLit_idem (l : Lit) : encLit (encLit l) = encLit l := by
  cases l with
  | flt f =>
    by_cases h : f.jsonAsInt = true
    · simp [encLit, h]
    · simp [encLit, h]
  | _ => rfl

theorem litOk_encLit (l : Lit) (h : litOk l = true) : litOk (encLit l) = true := by
  cases l with
  | flt f =>
    by_cases hp : f.jsonAsInt = true
    · simp only [encLit, hp, if_true, litOk]
      exact jsonAsInt_inInt64 f hp
    · simp [encLit, hp, litOk]
  | _ => simpa [encLit] using h

/-- whatever the text printer writes as an integer, the JSON printer does too -/
theorem textAsInt_jsonAsInt (f : Flt) (h : f.textAsInt = true) : f.jsonAsInt = true := by
  simp only [Flt.textAsInt, Bool.or_eq_true, beq_iff_eq, Bool.and_eq_true,
    decide_eq_true_eq] at h
  simp only [Flt.jsonAsInt, Bool.or_eq_true, beq_iff_eq, Bool.and_eq_true, decide_eq_true_eq]
  rcases h with h0 | ⟨he, hlt⟩
  · exact Or.inl h0
  · exact Or.inr ⟨he, inInt64_small _ _ hlt⟩

theorem encLit_textLit (l : Lit) : encLit (textLit l) = encLit l := by
  cases l with
  | flt f =>
    by_cases h : f.textAsInt = true
    · simp [textLit, encLit, h, textAsInt_jsonAsInt f h]
    · simp [textLit, h]
  | _ => rfl

theorem litOk_textLit (l : Lit) (h : litOk l = true) : litOk (textLit l) = true := by
  cases l with
  | flt f =>
    by_cases hp : f.textAsInt = true
    · simp only [textLit, hp, if_true, litOk]
      exact jsonAsInt_inInt64 f (textAsInt_jsonAsInt f hp)
    · simp [textLit, hp, litOk]
  | _ => simpa [textLit] using h

/-! ### `encode` ignores the struct-vs-map flags -/
mutual
theorem encode_fix : ∀ (e : Exp) (b : Base) (ad md : Nat), encode (fix b ad md e) = encode e
  | .lit _, _, _, _ => by simp [fix, encode]
  | .arr xs, b, ad, md => by simp [fix, encode, encodeList_fixList xs b (ad - 1) md]
  | .map k kvs, b, ad, md => by
    simp only [fix]
    split
    · simp [encode, encodeKvs_fixVals kvs]
    · simp [encode, encodeKvs_fixFields kvs]
    · simp [encode]
    · simp [encode]
theorem encodeList_fixList : ∀ (xs : EList) (b : Base) (ad md : Nat),
    encodeList (fixList b ad md xs) = encodeList xs
  | .nil, _, _, _ => by simp [fixList, encodeList]
  | .cons e r, b, ad, md => by
    simp [fixList, encodeList, encode_fix e b ad md, encodeList_fixList r b ad md]
theorem encodeKvs_fixVals : ∀ (kvs : EKvs) (b : Base) (ad md : Nat),
    encodeKvs (fixVals b ad md kvs) = encodeKvs kvs
  | .nil, _, _, _ => by simp [fixVals, encodeKvs]
  | .cons k e r, b, ad, md => by
    simp [fixVals, encodeKvs, encode_fix e b ad md, encodeKvs_fixVals r b ad md]
theorem encodeKvs_fixFields : ∀ (kvs : EKvs) (fs : Fields),
    encodeKvs (fixFields fs kvs) = encodeKvs kvs
  | .nil, _ => by simp [fixFields, encodeKvs]
  | .cons k e r, fs => by
    simp [fixFields, encodeKvs, encodeKvs_fixFields r fs, encode_fix e]
end

/-! ### reading back what `encode` wrote -/
mutual
theorem ofJ_encode : ∀ (e : Exp), intsOk e = true → ofJ (encode e) = some (erase (normE e))
  | .lit l, h => by
    have := litOk_encLit l (by simpa [intsOk] using h)
    simp [encode, ofJ, this, normE, erase]
  | .arr xs, h => by
    simp [encode, ofJ, ofJList_encodeList xs (by simpa [intsOk] using h), normE, erase]
  | .map k kvs, h => by
    simp [encode, ofJ, ofJKvs_encodeKvs kvs (by simpa [intsOk] using h), normE, erase]
theorem ofJList_encodeList : ∀ (xs : EList), intsOkList xs = true →
    ofJList (encodeList xs) = some (eraseList (normEList xs))
  | .nil, _ => by simp [encodeList, ofJList, normEList, eraseList]
  | .cons e r, h => by
    simp only [intsOkList, Bool.and_eq_true] at h
    simp [encodeList, ofJList, ofJ_encode e h.1, ofJList_encodeList r h.2, normEList, eraseList]
theorem ofJKvs_encodeKvs : ∀ (kvs : EKvs), intsOkKvs kvs = true →
    ofJKvs (encodeKvs kvs) = some (eraseKvs (normEKvs kvs))
  | .nil, _ => by simp [encodeKvs, ofJKvs, normEKvs, eraseKvs]
  | .cons k e r, h => by
    simp only [intsOkKvs, Bool.and_eq_true] at h
    simp [encodeKvs, ofJKvs, ofJ_encode e h.1, ofJKvs_encodeKvs r h.2, normEKvs, eraseKvs]
end

/-! ### writing out what `ofJ` read -/
mutual
theorem encode_ofJ : ∀ (j : J) (e : Exp), ofJ j = some e → encode e = normJ j
  | .lit l, e, h => by
    simp only [ofJ] at h
    split at h
    · cases h; simp [encode, normJ]
    · cases h
  | .arr xs, e, h => by
    simp only [ofJ, Option.map_eq_some_iff] at h
    obtain ⟨es, hes, rfl⟩ := h
    simp [encode, normJ, encodeList_ofJList xs es hes]
  | .obj kvs, e, h => by
    simp only [ofJ, Option.map_eq_some_iff] at h
    obtain ⟨es, hes, rfl⟩ := h
    simp [encode, normJ, encodeKvs_ofJKvs kvs es hes]
theorem encodeList_ofJList : ∀ (xs : JList) (es : EList), ofJList xs = some es →
    encodeList es = normJList xs
  | .nil, es, h => by
    simp only [ofJList] at h; cases h; simp [encodeList, normJList]
  | .cons j r, es, h => by
    simp only [ofJList] at h
    split at h
    · rename_i e es' he hes
      cases h
      simp [encodeList, normJList, encode_ofJ j e he, encodeList_ofJList r es' hes]
    · cases h
theorem encodeKvs_ofJKvs : ∀ (kvs : JKvs) (es : EKvs), ofJKvs kvs = some es →
    encodeKvs es = normJKvs kvs
  | .nil, es, h => by
    simp only [ofJKvs] at h; cases h; simp [encodeKvs, normJKvs]
  | .cons k j r, es, h => by
    simp only [ofJKvs] at h
    split at h
    · rename_i e es' he hes
      cases h
      simp [encodeKvs, normJKvs, encode_ofJ j e he, encodeKvs_ofJKvs r es' hes]
    · cases h
end

/-! ### `ofJ` succeeds when the integers fit -/
mutual
theorem ofJ_isSome : ∀ (j : J), jIntsOk j = true → ∃ e, ofJ j = some e
  | .lit l, h => by
    simp only [jIntsOk] at h
    exact ⟨.lit l, by simp [ofJ, h]⟩
  | .arr xs, h => by
    obtain ⟨es, hes⟩ := ofJList_isSome xs (by simpa [jIntsOk] using h)
    exact ⟨.arr es, by simp [ofJ, hes]⟩
  | .obj kvs, h => by
    obtain ⟨es, hes⟩ := ofJKvs_isSome kvs (by simpa [jIntsOk] using h)
    exact ⟨.map false es, by simp [ofJ, hes]⟩
theorem ofJList_isSome : ∀ (xs : JList), jIntsOkList xs = true → ∃ es, ofJList xs = some es
  | .nil, _ => ⟨.nil, by simp [ofJList]⟩
  | .cons j r, h => by
    simp only [jIntsOkList, Bool.and_eq_true] at h
    obtain ⟨e, he⟩ := ofJ_isSome j h.1
    obtain ⟨es, hes⟩ := ofJList_isSome r h.2
    exact ⟨.cons e es, by simp [ofJList, he, hes]⟩
theorem ofJKvs_isSome : ∀ (kvs : JKvs), jIntsOkKvs kvs = true → ∃ es, ofJKvs kvs = some es
  | .nil, _ => ⟨.nil, by simp [ofJKvs]⟩
  | .cons k j r, h => by
    simp only [jIntsOkKvs, Bool.and_eq_true] at h
    obtain ⟨e, he⟩ := ofJ_isSome j h.1
    obtain ⟨es, hes⟩ := ofJKvs_isSome r h.2
    exact ⟨.cons k e es, by simp [ofJKvs, he, hes]⟩
end

/-! ### `fix` commutes with float normalisation -/
mutual
theorem fix_normE : ∀ (e : Exp) (b : Base) (ad md : Nat),
    fix b ad md (normE e) = normE (fix b ad md e)
  | .lit _, _, _, _ => by simp [fix, normE]
  | .arr xs, b, ad, md => by simp [fix, normE, fixList_normEList xs b (ad - 1) md]
  | .map k kvs, b, ad, md => by
    simp only [fix, normE]
    split
    · simp [normE, fixVals_normEKvs kvs]
    · simp [normE, fixFields_normEKvs kvs]
    · simp [normE]
    · simp [normE]
theorem fixList_normEList : ∀ (xs : EList) (b : Base) (ad md : Nat),
    fixList b ad md (normEList xs) = normEList (fixList b ad md xs)
  | .nil, _, _, _ => by simp [fixList, normEList]
  | .cons e r, b, ad, md => by
    simp [fixList, normEList, fix_normE e b ad md, fixList_normEList r b ad md]
theorem fixVals_normEKvs : ∀ (kvs : EKvs) (b : Base) (ad md : Nat),
    fixVals b ad md (normEKvs kvs) = normEKvs (fixVals b ad md kvs)
  | .nil, _, _, _ => by simp [fixVals, normEKvs]
  | .cons k e r, b, ad, md => by
    simp [fixVals, normEKvs, fix_normE e b ad md, fixVals_normEKvs r b ad md]
theorem fixFields_normEKvs : ∀ (kvs : EKvs) (fs : Fields),
    fixFields fs (normEKvs kvs) = normEKvs (fixFields fs kvs)
  | .nil, _ => by simp [fixFields, normEKvs]
  | .cons k e r, fs => by
    simp [fixFields, normEKvs, fix_normE e, fixFields_normEKvs r fs]
end

mutual
theorem erase_normE : ∀ (e : Exp), erase (normE e) = normE (erase e)
  | .lit _ => by simp [erase, normE]
  | .arr xs => by simp [erase, normE, eraseList_normEList xs]
  | .map _ kvs => by simp [erase, normE, eraseKvs_normEKvs kvs]
theorem eraseList_normEList : ∀ (xs : EList), eraseList (normEList xs) = normEList (eraseList xs)
  | .nil => by simp [eraseList, normEList]
  | .cons e r => by simp [eraseList, normEList, erase_normE e, eraseList_normEList r]
theorem eraseKvs_normEKvs : ∀ (kvs : EKvs), eraseKvs (normEKvs kvs) = normEKvs (eraseKvs kvs)
  | .nil => by simp [eraseKvs, normEKvs]
  | .cons k e r => by simp [eraseKvs, normEKvs, erase_normE e, eraseKvs_normEKvs r]
end

mutual
theorem erase_of_plain : ∀ (e : Exp), plainMaps e = true → erase e = e
  | .lit _, _ => by simp [erase]
  | .arr xs, h => by simp [erase, eraseList_of_plain xs (by simpa [plainMaps] using h)]
  | .map k kvs, h => by
    simp only [plainMaps, Bool.and_eq_true, Bool.not_eq_true'] at h
    simp [erase, eraseKvs_of_plain kvs h.2, h.1]
theorem eraseList_of_plain : ∀ (xs : EList), plainMapsList xs = true → eraseList xs = xs
  | .nil, _ => by simp [eraseList]
  | .cons e r, h => by
    simp only [plainMapsList, Bool.and_eq_true] at h
    simp [eraseList, erase_of_plain e h.1, eraseList_of_plain r h.2]
theorem eraseKvs_of_plain : ∀ (kvs : EKvs), plainMapsKvs kvs = true → eraseKvs kvs = kvs
  | .nil, _ => by simp [eraseKvs]
  | .cons k e r, h => by
    simp only [plainMapsKvs, Bool.and_eq_true] at h
    simp [eraseKvs, erase_of_plain e h.1, eraseKvs_of_plain r h.2]
end

/-! ### the flags of a well-typed literal are exactly what `fix` assigns -/
mutual
theorem fix_erase_wt : ∀ (e : Exp) (b : Base) (ad md : Nat),
    wt b ad md e = true → fix b ad md (erase e) = e
  | .lit _, _, _, _, _ => by simp [erase, fix]
  | .arr xs, b, ad, md, h => by
    simp only [wt, Bool.and_eq_true, decide_eq_true_eq] at h
    simp [erase, fix, fixList_erase_wt xs b (ad - 1) md h.2]
  | .map k kvs, b, ad, md, h => by
    simp only [wt, Bool.and_eq_true] at h
    obtain ⟨_, h⟩ := h
    simp only [erase, fix]
    generalize mapAction b ad md = m at h ⊢
    cases m with
    | vals b' ad' md' =>
      simp only [Bool.and_eq_true, Bool.not_eq_true'] at h
      simp [fixVals_erase_wt kvs b' ad' md' h.2, h.1]
    | fields fs =>
      simp only [Bool.and_eq_true] at h
      simp [fixFields_erase_wt kvs fs h.2, h.1]
    | markStruct => simp at h
    | keep =>
      simp only [Bool.and_eq_true, Bool.not_eq_true'] at h
      simp [eraseKvs_of_plain kvs h.2, h.1.2]
theorem fixList_erase_wt : ∀ (xs : EList) (b : Base) (ad md : Nat),
    wtList b ad md xs = true → fixList b ad md (eraseList xs) = xs
  | .nil, _, _, _, _ => by simp [eraseList, fixList]
  | .cons e r, b, ad, md, h => by
    simp only [wtList, Bool.and_eq_true] at h
    simp [eraseList, fixList, fix_erase_wt e b ad md h.1, fixList_erase_wt r b ad md h.2]
theorem fixVals_erase_wt : ∀ (kvs : EKvs) (b : Base) (ad md : Nat),
    wtVals b ad md kvs = true → fixVals b ad md (eraseKvs kvs) = kvs
  | .nil, _, _, _, _ => by simp [eraseKvs, fixVals]
  | .cons k e r, b, ad, md, h => by
    simp only [wtVals, Bool.and_eq_true] at h
    simp [eraseKvs, fixVals, fix_erase_wt e b ad md h.1, fixVals_erase_wt r b ad md h.2]
theorem fixFields_erase_wt : ∀ (kvs : EKvs) (fs : Fields),
    wtFields fs kvs = true → fixFields fs (eraseKvs kvs) = kvs
  | .nil, _, _ => by simp [eraseKvs, fixFields]
  | .cons k e r, fs, h => by
    simp only [wtFields, Bool.and_eq_true] at h
    simp [eraseKvs, fixFields, fix_erase_wt e _ _ _ h.1.2, fixFields_erase_wt r fs h.2]
end

/-! ### saturation of `ArrayDim`
An array literal typed one dimension above the type `fix` is run at is still
fixed correctly (`ArrayDim` saturates at 0): this is why the operand of an
array split can be converted at the parameter's own type. -/
mutual
theorem fix_erase_wt_succ : ∀ (e : Exp) (b : Base) (ad md : Nat),
    wt b (ad + 1) md e = true → fix b ad md (erase e) = e
  | .lit _, _, _, _, _ => by simp [erase, fix]
  | .arr xs, b, ad, md, h => by
    simp only [wt, Bool.and_eq_true, decide_eq_true_eq, Nat.add_sub_cancel] at h
    simp only [erase, fix]
    cases ad with
    | zero => simp [fixList_erase_wt xs b 0 md h.2]
    | succ k => simp [fixList_erase_wt_succ xs b k md h.2]
  | .map k kvs, b, ad, md, h => by simp [wt] at h
theorem fixList_erase_wt_succ : ∀ (xs : EList) (b : Base) (ad md : Nat),
    wtList b (ad + 1) md xs = true → fixList b ad md (eraseList xs) = xs
  | .nil, _, _, _, _ => by simp [eraseList, fixList]
  | .cons e r, b, ad, md, h => by
    simp only [wtList, Bool.and_eq_true] at h
    simp [eraseList, fixList, fix_erase_wt_succ e b ad md h.1, fixList_erase_wt_succ r b ad md h.2]
end

/-! ### `fix` at a scalar type is the identity (justifies `Fields.findD`) -/
mutual
theorem fix_scalar : ∀ (e : Exp), fix .scalar 0 0 e = e
  | .lit _ => by simp [fix]
  | .arr xs => by simp [fix, fixList_scalar xs]
  | .map k kvs => by simp [fix, mapAction, Base.action0]
theorem fixList_scalar : ∀ (xs : EList), fixList .scalar 0 0 xs = xs
  | .nil => by simp [fixList]
  | .cons e r => by simp [fixList, fix_scalar e, fixList_scalar r]
end

/-! ### `fix` only touches flags -/
mutual
theorem erase_fix : ∀ (e : Exp) (b : Base) (ad md : Nat), erase (fix b ad md e) = erase e
  | .lit _, _, _, _ => by simp [fix, erase]
  | .arr xs, b, ad, md => by simp [fix, erase, eraseList_fixList xs b (ad - 1) md]
  | .map k kvs, b, ad, md => by
    simp only [fix]
    split
    · simp [erase, eraseKvs_fixVals kvs]
    · simp [erase, eraseKvs_fixFields kvs]
    · simp [erase]
    · simp [erase]
theorem eraseList_fixList : ∀ (xs : EList) (b : Base) (ad md : Nat),
    eraseList (fixList b ad md xs) = eraseList xs
  | .nil, _, _, _ => by simp [fixList, eraseList]
  | .cons e r, b, ad, md => by
    simp [fixList, eraseList, erase_fix e b ad md, eraseList_fixList r b ad md]
theorem eraseKvs_fixVals : ∀ (kvs : EKvs) (b : Base) (ad md : Nat),
    eraseKvs (fixVals b ad md kvs) = eraseKvs kvs
  | .nil, _, _, _ => by simp [fixVals, eraseKvs]
  | .cons k e r, b, ad, md => by
    simp [fixVals, eraseKvs, erase_fix e b ad md, eraseKvs_fixVals r b ad md]
theorem eraseKvs_fixFields : ∀ (kvs : EKvs) (fs : Fields),
    eraseKvs (fixFields fs kvs) = eraseKvs kvs
  | .nil, _ => by simp [fixFields, eraseKvs]
  | .cons k e r, fs => by
    simp [fixFields, eraseKvs, erase_fix e, eraseKvs_fixFields r fs]
end

/-! ### `encode` output is already normalised -/
mutual
theorem normJ_encode : ∀ (e : Exp), normJ (encode e) = encode e
  | .lit l => by simp [encode, normJ, encLit_idem]
  | .arr xs => by simp [encode, normJ, normJList_encodeList xs]
  | .map _ kvs => by simp [encode, normJ, normJKvs_encodeKvs kvs]
theorem normJList_encodeList : ∀ (xs : EList), normJList (encodeList xs) = encodeList xs
  | .nil => by simp [encodeList, normJList]
  | .cons e r => by simp [encodeList, normJList, normJ_encode e, normJList_encodeList r]
theorem normJKvs_encodeKvs : ∀ (kvs : EKvs), normJKvs (encodeKvs kvs) = encodeKvs kvs
  | .nil => by simp [encodeKvs, normJKvs]
  | .cons k e r => by simp [encodeKvs, normJKvs, normJ_encode e, normJKvs_encodeKvs r]
end

mutual
theorem plainMaps_erase : ∀ (e : Exp), plainMaps (erase e) = true
  | .lit _ => by simp [erase, plainMaps]
  | .arr xs => by simp [erase, plainMaps, plainMapsList_erase xs]
  | .map _ kvs => by simp [erase, plainMaps, plainMapsKvs_erase kvs]
theorem plainMapsList_erase : ∀ (xs : EList), plainMapsList (eraseList xs) = true
  | .nil => by simp [eraseList, plainMapsList]
  | .cons e r => by simp [eraseList, plainMapsList, plainMaps_erase e, plainMapsList_erase r]
theorem plainMapsKvs_erase : ∀ (kvs : EKvs), plainMapsKvs (eraseKvs kvs) = true
  | .nil => by simp [eraseKvs, plainMapsKvs]
  | .cons k e r => by simp [eraseKvs, plainMapsKvs, plainMaps_erase e, plainMapsKvs_erase r]
end

theorem erase_erase (e : Exp) : erase (erase e) = erase e :=
  erase_of_plain _ (plainMaps_erase e)

/-! ### call level: unfolding one parameter -/
theorem dataOf_cons (p : Str) (a : Arg) (bs : List (Str × Arg)) :
    dataOf ((p, a) :: bs) =
      { args := (p, encodeArg a) :: (dataOf bs).args,
        splitargs := if a.isSplit = true then p :: (dataOf bs).splitargs
                     else (dataOf bs).splitargs } := by
  by_cases h : a.isSplit = true
  · simp only [dataOf, List.map_cons, List.filter_cons, h, if_true]
  · simp only [dataOf, List.map_cons, List.filter_cons, h, if_false, Bool.false_eq_true]

theorem canonData_cons (p : Str) (t : TypeId) (ps : Sig) (d : Data) :
    canonData ((p, t) :: ps) d =
      { args := (p, if d.args.any (fun q => q.1 = p) = true then
                      canonArg (d.splitargs.contains p) (lookupArg d.args p)
                    else .lit .null) :: (canonData ps d).args,
        splitargs := if (d.args.any (fun q => q.1 = p) && d.splitargs.contains p) = true
                     then p :: (canonData ps d).splitargs
                     else (canonData ps d).splitargs } := by
  by_cases h : (d.args.any (fun q => q.1 = p) && d.splitargs.contains p) = true
  · simp only [canonData, List.map_cons, List.filter_cons, h, if_true]
  · simp only [canonData, List.map_cons, List.filter_cons, h, if_false, Bool.false_eq_true]

/-! ### the text leg (format → parse) does not change the JSON -/
mutual
theorem encode_reparse : ∀ (e : Exp), encode (reparse e) = encode e
  | .lit l => by simp [reparse, encode, encLit_textLit]
  | .arr xs => by simp [reparse, encode, encodeList_reparseList xs]
  | .map _ kvs => by simp [reparse, encode, encodeKvs_reparseKvs kvs]
theorem encodeList_reparseList : ∀ (xs : EList), encodeList (reparseList xs) = encodeList xs
  | .nil => by simp [reparseList, encodeList]
  | .cons e r => by simp [reparseList, encodeList, encode_reparse e, encodeList_reparseList r]
theorem encodeKvs_reparseKvs : ∀ (kvs : EKvs), encodeKvs (reparseKvs kvs) = encodeKvs kvs
  | .nil => by simp [reparseKvs, encodeKvs]
  | .cons k e r => by simp [reparseKvs, encodeKvs, encode_reparse e, encodeKvs_reparseKvs r]
end

mutual
theorem intsOk_reparse : ∀ (e : Exp), intsOk e = true → intsOk (reparse e) = true
  | .lit l, h => by simp only [intsOk] at h; simp [reparse, intsOk, litOk_textLit l h]
  | .arr xs, h => by simp only [intsOk] at h; simp [reparse, intsOk, intsOkList_reparse xs h]
  | .map _ kvs, h => by simp only [intsOk] at h; simp [reparse, intsOk, intsOkKvs_reparse kvs h]
theorem intsOkList_reparse : ∀ (xs : EList), intsOkList xs = true → intsOkList (reparseList xs) = true
  | .nil, _ => by simp [reparseList, intsOkList]
  | .cons e r, h => by
    simp only [intsOkList, Bool.and_eq_true] at h
    simp [reparseList, intsOkList, intsOk_reparse e h.1, intsOkList_reparse r h.2]
theorem intsOkKvs_reparse : ∀ (kvs : EKvs), intsOkKvs kvs = true → intsOkKvs (reparseKvs kvs) = true
  | .nil, _ => by simp [reparseKvs, intsOkKvs]
  | .cons k e r, h => by
    simp only [intsOkKvs, Bool.and_eq_true] at h
    simp [reparseKvs, intsOkKvs, intsOk_reparse e h.1, intsOkKvs_reparse r h.2]
end


/-! ### the operand of a split argument -/

/-- For a map operand the two branches of `convertSplit` are one rule: the
outer literal stays a map and every value is converted at the parameter's
type (for `mapDim = 0` this is what converting at `map<T>` does). -/
theorem convertSplit_obj (t : TypeId) (kvs : JKvs) :
    convertSplit t (.obj kvs) =
      (ofJKvs kvs).map fun es => .map false (fixVals t.base t.arrayDim t.mapDim es) := by
  unfold convertSplit
  by_cases h : t.mapDim = 0
  · simp only [h, if_true, convert, splitSourceType, ofJ]
    cases ofJKvs kvs with
    | none => rfl
    | some es => simp [fix, mapAction]
  · simp [h]

theorem convertSplit_not_obj (t : TypeId) (v : J) (h : ∀ kvs, v ≠ .obj kvs) :
    convertSplit t v = convert t v := by
  cases v with
  | obj kvs => exact absurd rfl (h kvs)
  | lit l => simp [convertSplit, splitSourceType]
  | arr xs => simp [convertSplit, splitSourceType]

theorem encode_convertSplit (t : TypeId) (v : J) (e : Exp) (h : convertSplit t v = some e) :
    encode e = normJ v := by
  cases v with
  | obj kvs =>
    rw [convertSplit_obj] at h
    simp only [Option.map_eq_some_iff] at h
    obtain ⟨es, hes, rfl⟩ := h
    simp [encode, normJ, encodeKvs_fixVals, encodeKvs_ofJKvs kvs es hes]
  | lit l =>
    rw [convertSplit_not_obj t _ (by intro kvs hh; cases hh)] at h
    simp only [convert, Option.map_eq_some_iff] at h
    obtain ⟨e0, h0, rfl⟩ := h
    rw [encode_fix, encode_ofJ _ e0 h0]
  | arr xs =>
    rw [convertSplit_not_obj t _ (by intro kvs hh; cases hh)] at h
    simp only [convert, Option.map_eq_some_iff] at h
    obtain ⟨e0, h0, rfl⟩ := h
    rw [encode_fix, encode_ofJ _ e0 h0]


theorem isSplitKey_splitKey : isSplitKey splitKey = true := by decide


/-! ### value semantics: the printers change the syntax class of a number, never its value -/

theorem Flt.val_of_integral (f : Flt) (h : f.m = 0 ∨ 0 ≤ f.e) : f.val = (f.intVal, 0) := by
  unfold Flt.val
  by_cases hm : f.m = 0
  · simp only [hm, ↓reduceIte, Flt.intVal, Nat.zero_mul]
    cases f.neg <;> simp
  · rcases h with h | h
    · exact absurd h hm
    · simp [hm, h]

theorem val_encLit (l : Lit) : (encLit l).val = l.val := by
  cases l with
  | flt f =>
    by_cases h : f.jsonAsInt = true
    · simp only [encLit, h, ↓reduceIte, Lit.val]
      simp only [Flt.jsonAsInt, Bool.or_eq_true, beq_iff_eq, Bool.and_eq_true, decide_eq_true_eq] at h
      rw [Flt.val_of_integral f (h.imp id (fun hh => hh.1))]
    · simp [encLit, h]
  | _ => rfl

theorem val_textLit (l : Lit) : (textLit l).val = l.val := by
  cases l with
  | flt f =>
    by_cases h : f.textAsInt = true
    · simp only [textLit, h, ↓reduceIte, Lit.val]
      simp only [Flt.textAsInt, Bool.or_eq_true, beq_iff_eq, Bool.and_eq_true, decide_eq_true_eq] at h
      rw [Flt.val_of_integral f (h.imp id (fun hh => hh.1))]
    · simp [textLit, h]
  | _ => rfl


/-! ### a JSON value of the declared type converts to a well-typed literal -/

mutual
theorem plainMaps_ofJ : ∀ (j : J) (e : Exp), ofJ j = some e → plainMaps e = true
  | .lit l, e, h => by
    simp only [ofJ] at h
    split at h
    · injection h with h; subst h; rfl
    · cases h
  | .arr xs, e, h => by
    simp only [ofJ, Option.map_eq_some_iff] at h
    obtain ⟨es, hes, rfl⟩ := h
    simp [plainMaps, plainMapsList_ofJList xs es hes]
  | .obj kvs, e, h => by
    simp only [ofJ, Option.map_eq_some_iff] at h
    obtain ⟨es, hes, rfl⟩ := h
    simp [plainMaps, plainMapsKvs_ofJKvs kvs es hes]
theorem plainMapsList_ofJList : ∀ (xs : JList) (es : EList), ofJList xs = some es → plainMapsList es = true
  | .nil, es, h => by simp only [ofJList, Option.some.injEq] at h; subst h; rfl
  | .cons j r, es, h => by
    simp only [ofJList] at h
    split at h
    · rename_i e es' h1 h2
      injection h with h; subst h
      simp [plainMapsList, plainMaps_ofJ j e h1, plainMapsList_ofJList r es' h2]
    · cases h
theorem plainMapsKvs_ofJKvs : ∀ (kvs : JKvs) (es : EKvs), ofJKvs kvs = some es → plainMapsKvs es = true
  | .nil, es, h => by simp only [ofJKvs, Option.some.injEq] at h; subst h; rfl
  | .cons k j r, es, h => by
    simp only [ofJKvs] at h
    split at h
    · rename_i e es' h1 h2
      injection h with h; subst h
      simp [plainMapsKvs, plainMaps_ofJ j e h1, plainMapsKvs_ofJKvs r es' h2]
    · cases h
end

mutual
theorem wt_fix_ofJ : ∀ (j : J) (e : Exp) (b : Base) (ad md : Nat), ofJ j = some e → jWt b ad md j = true →
    wt b ad md (fix b ad md e) = true
  | .lit l, e, b, ad, md, h, hw => by
    simp only [ofJ] at h
    split at h
    · injection h with h; subst h
      simpa [fix, wt, jWt] using hw
    · cases h
  | .arr xs, e, b, ad, md, h, hw => by
    simp only [ofJ, Option.map_eq_some_iff] at h
    obtain ⟨es, hes, rfl⟩ := h
    simp only [jWt, Bool.and_eq_true, decide_eq_true_eq] at hw
    simp [fix, wt, hw.1, wtList_fix_ofJList xs es b (ad - 1) md hes hw.2]
  | .obj kvs, e, b, ad, md, h, hw => by
    simp only [ofJ, Option.map_eq_some_iff] at h
    obtain ⟨es, hes, rfl⟩ := h
    simp only [jWt, Bool.and_eq_true] at hw
    obtain ⟨had, hw⟩ := hw
    cases hm : mapAction b ad md with
    | vals b' ad' md' =>
      simp only [hm] at hw
      simp [fix, wt, hm, had, wtVals_fix_ofJKvs kvs es b' ad' md' hes hw]
    | fields fs =>
      simp only [hm] at hw
      simp [fix, wt, hm, had, wtFields_fix_ofJKvs kvs es fs hes hw]
    | markStruct => simp [hm] at hw
    | keep =>
      simp only [hm] at hw
      simp [fix, wt, hm, had, hw, plainMapsKvs_ofJKvs kvs es hes]
theorem wtList_fix_ofJList : ∀ (xs : JList) (es : EList) (b : Base) (ad md : Nat), ofJList xs = some es →
    jWtList b ad md xs = true → wtList b ad md (fixList b ad md es) = true
  | .nil, es, _, _, _, h, _ => by simp only [ofJList, Option.some.injEq] at h; subst h; rfl
  | .cons j r, es, b, ad, md, h, hw => by
    simp only [ofJList] at h
    split at h
    · rename_i e es' h1 h2
      injection h with h; subst h
      simp only [jWtList, Bool.and_eq_true] at hw
      simp [fixList, wtList, wt_fix_ofJ j e b ad md h1 hw.1, wtList_fix_ofJList r es' b ad md h2 hw.2]
    · cases h
theorem wtVals_fix_ofJKvs : ∀ (kvs : JKvs) (es : EKvs) (b : Base) (ad md : Nat), ofJKvs kvs = some es →
    jWtVals b ad md kvs = true → wtVals b ad md (fixVals b ad md es) = true
  | .nil, es, _, _, _, h, _ => by simp only [ofJKvs, Option.some.injEq] at h; subst h; rfl
  | .cons k j r, es, b, ad, md, h, hw => by
    simp only [ofJKvs] at h
    split at h
    · rename_i e es' h1 h2
      injection h with h; subst h
      simp only [jWtVals, Bool.and_eq_true] at hw
      simp [fixVals, wtVals, wt_fix_ofJ j e b ad md h1 hw.1, wtVals_fix_ofJKvs r es' b ad md h2 hw.2]
    · cases h
theorem wtFields_fix_ofJKvs : ∀ (kvs : JKvs) (es : EKvs) (fs : Fields), ofJKvs kvs = some es →
    jWtFields fs kvs = true → wtFields fs (fixFields fs es) = true
  | .nil, es, _, h, _ => by simp only [ofJKvs, Option.some.injEq] at h; subst h; rfl
  | .cons k j r, es, fs, h, hw => by
    simp only [ofJKvs] at h
    split at h
    · rename_i e es' h1 h2
      injection h with h; subst h
      simp only [jWtFields, Bool.and_eq_true] at hw
      simp [fixFields, wtFields, hw.1.1, wt_fix_ofJ j e _ _ _ h1 hw.1.2, wtFields_fix_ofJKvs r es' fs h2 hw.2]
    · cases h
end

end Martian.Invocation
