/-
C01 — `den_alias` UP TO THE RENAMING OF INSTANCE KEYS (audit finding C01-H5).

Renaming (swapping) two call ids inside one pipeline body moves the stage instances below the
renamed calls: den's own callee denotation `runCallable` puts the call path (and, for a mapped
call, the call id of its fork entry) into every instance key.  So the callee denotations of the
renamed body are related to the original ones up to `renKey` — the renaming of the path
component at the body's depth and of the fork entry of the renamed call — and the recorded
stage outputs are looked up under the renamed keys (`O ∘ renKey`).

* `RunnerRelK`   — the relation between callee denotations (values equal, instances re-keyed);
* `evalCalls_swapK` — the renamed body under related denotations: same environment up to the
  renaming of its keys, same instances up to `renKey`;
* `runCallable_ren` — den's own callee denotation satisfies the relation with the re-keyed oracle;
* `den_alias_top`  — whole-program: swapping two call ids in the body of the top-level pipeline
  and re-keying the oracle changes nothing but the instance keys.
-/
import Proofs.DataflowAlias

namespace Proofs.DataflowAlias
open Martian.Dataflow

/-! ## keys -/

def modAt {α : Type} (f : α → α) : Nat → List α → List α
  | _, [] => []
  | 0, x :: xs => f x :: xs
  | n+1, x :: xs => x :: modAt f n xs

theorem modAt_append_left {α : Type} (f : α → α) : ∀ (n : Nat) (l r : List α), n < l.length →
    modAt f n (l ++ r) = modAt f n l ++ r
  | _, [], _, h => by simp at h
  | 0, x :: xs, r, _ => by simp [modAt]
  | n+1, x :: xs, r, h => by
    simp only [List.cons_append, modAt, List.cons.injEq, true_and]
    exact modAt_append_left f n xs r (by simpa using h)

theorem modAt_length_append {α : Type} (f : α → α) : ∀ (l : List α) (x : α) (r : List α),
    modAt f l.length (l ++ x :: r) = l ++ f x :: r
  | [], x, r => by simp [modAt]
  | y :: l, x, r => by simp [modAt, modAt_length_append f l x r]

theorem modAt_ge {α : Type} (f : α → α) : ∀ (n : Nat) (l : List α), l.length ≤ n → modAt f n l = l
  | _, [], _ => by simp [modAt]
  | 0, x :: xs, h => by simp at h
  | n+1, x :: xs, h => by simp [modAt, modAt_ge f n xs (by simpa using h)]

theorem modAt_invol {α : Type} (f : α → α) (hf : ∀ x, f (f x) = x) : ∀ (n : Nat) (l : List α),
    modAt f n (modAt f n l) = l
  | _, [] => by simp [modAt]
  | 0, x :: xs => by simp [modAt, hf]
  | n+1, x :: xs => by simp [modAt, modAt_invol f hf n xs]

theorem getD_append_left (l r : List String) (n : Nat) (h : n < l.length) : (l ++ r).getD n "" = l.getD n "" := by
  simp [List.getD_eq_getElem?_getD, List.getElem?_append_left h]

theorem getD_length_append (l : List String) (x : String) (r : List String) :
    (l ++ x :: r).getD l.length "" = x := by
  simp [List.getD_eq_getElem?_getD]

theorem getD_modAt (f : String → String) : ∀ (n : Nat) (l : List String), n < l.length →
    (modAt f n l).getD n "" = f (l.getD n "")
  | _, [], h => by simp at h
  | 0, x :: xs, _ => by simp [modAt]
  | n+1, x :: xs, h => by
    simp only [modAt, List.getD_cons_succ]
    exact getD_modAt f n xs (by simpa using h)

/-- rename the component of an instance key that belongs to the call at depth `n` of the call path,
and, when that call is mapped (`mf`), the call id of its fork entry (position `m`) -/
def renKey (a b : String) (n m : Nat) (mf : String → Bool) (k : InstKey) : InstKey :=
  ⟨modAt (swapId a b) n k.path,
   if mf (k.path.getD n "") then modAt (fun e => (swapId a b e.1, e.2)) m k.forks else k.forks⟩

def renInst (a b : String) (n m : Nat) (mf : String → Bool) (i : Inst) : Inst :=
  { i with key := renKey a b n m mf i.key }

def renRes (a b : String) (n m : Nat) (mf : String → Bool) (r : J × List Inst) : J × List Inst :=
  (r.1, r.2.map (renInst a b n m mf))

/-- the renaming of keys is an involution (with the mapped-flag read through the renaming) -/
theorem renKey_invol (a b : String) (n m : Nat) (mf : String → Bool) (k : InstKey) (hn : n < k.path.length) :
    renKey a b n m (fun y => mf (swapId a b y)) (renKey a b n m mf k) = k := by
  obtain ⟨p, f⟩ := k
  simp only [renKey] at hn ⊢
  rw [getD_modAt _ n p hn, swapId_invol, modAt_invol _ (swapId_invol a b)]
  cases mf (p.getD n "") with
  | false => simp
  | true =>
    simp only [if_true]
    rw [modAt_invol]
    intro e
    simp [swapId_invol]

theorem flatMap_congr' {α β : Type} (l : List α) (g h : α → List β) (e : ∀ a ∈ l, g a = h a) :
    l.flatMap g = l.flatMap h := by
  induction l with
  | nil => rfl
  | cons a l ih =>
    simp only [List.flatMap_cons]
    rw [e a (by simp), ih fun x hx => e x (by simp [hx])]

/-! ## one pipeline body -/

/-- the callee denotations of the renamed body: on the renamed path / fork entry they answer what
the original ones answer on the original path / fork entry, with every instance re-keyed -/
def RunnerRelK (a b : String) (path : List String) (forks : List (String × Idx)) (mf : String → Bool)
    (run run' : Runner) : Prop :=
  ∀ (callee x : String) (args : J),
    (mf x = false →
      run' callee (path ++ [swapId a b x]) forks args
        = renRes a b path.length forks.length mf (run callee (path ++ [x]) forks args)) ∧
    (mf x = true → ∀ ix,
      run' callee (path ++ [swapId a b x]) (forks ++ [(swapId a b x, ix)]) args
        = renRes a b path.length forks.length mf (run callee (path ++ [x]) (forks ++ [(x, ix)]) args))

theorem evalCall_swapK (st : StructTable) (nf : Nat) (insOf : String → List Param)
    (a b : String) (run run' : Runner) (path : List String) (forks : List (String × Idx))
    (mf : String → Bool) (hrel : RunnerRelK a b path forks mf run run') (env : Env) (c : Call)
    (hmc : mf c.id = c.mapped) :
    evalCall st nf insOf run' path forks (swapEnv a b env) (swapCall a b c)
      = ((evalCall st nf insOf run path forks env c).1, (evalCall st nf insOf run path forks env c).2.1,
         (evalCall st nf insOf run path forks env c).2.2.map (renInst a b path.length forks.length mf)) := by
  unfold evalCall
  simp only [callMode_swap, argVals_swap, callIndices_swap, splitsAgree_swap]
  have hcallee : (swapCall a b c).callee = c.callee := rfl
  have hmapped : (swapCall a b c).mapped = c.mapped := rfl
  have hid : (swapCall a b c).id = swapId a b c.id := rfl
  rw [hcallee, hmapped, hid]
  have hdis : (swapCall a b c).disabled = c.disabled.map fun d => (d.1, swapExp a b d.2) := rfl
  rw [hdis]
  have hsent : renInst a b path.length forks.length mf ⟨⟨path ++ [c.id], forks⟩, .null, true, true⟩
      = ⟨⟨path ++ [swapId a b c.id], forks⟩, .null, true, true⟩ := by
    simp only [renInst, renKey, modAt_length_append, getD_length_append]
    cases mf c.id <;> simp [modAt_ge]
  cases hm : c.mapped with
  | false =>
    rw [hm] at hmc
    have h1 := fun args => (hrel c.callee c.id args).1 hmc
    cases hd : c.disabled with
    | none => simp [h1, renRes]
    | some d =>
      obtain ⟨s, e⟩ := d
      cases s <;> simp only [Option.map_some, eval_swap, h1, renRes] <;> split <;> simp
  | true =>
    rw [hm] at hmc
    have h2 := fun args ix => (hrel c.callee c.id args).2 hmc ix
    have hopt : ∀ (l : List Inst),
        (l.map (renInst a b path.length forks.length mf)).map (fun i => { i with optional := true })
          = (l.map fun i => { i with optional := true }).map (renInst a b path.length forks.length mf) := by
      intro l; simp [renInst]
    cases hd : c.disabled with
    | none =>
      simp only [Option.map_none, Bool.not_true, Bool.false_eq_true, if_false, h2, renRes, hopt]
      split
      · simp [hsent]
      · split
        · simp
        · simp only [List.map_map, Function.comp_def, List.flatMap_map, List.map_flatMap]
          refine Prod.ext rfl (Prod.ext ?_ ?_)
          · simp only []
            congr 1
            apply List.map_congr_left
            intro ix _
            split <;> rfl
          · simp only []
            apply flatMap_congr'
            intro ix _
            split <;> simp
    | some d =>
      obtain ⟨s, e⟩ := d
      cases s with
      | false =>
        simp only [Option.map_some, eval_swap, Bool.not_true, Bool.false_eq_true, if_false, h2, renRes, hopt]
        split
        · simp
        · split
          · simp [hsent]
          · split
            · simp
            · simp only [List.map_map, Function.comp_def, List.flatMap_map, List.map_flatMap]
              refine Prod.ext rfl (Prod.ext ?_ ?_)
              · simp only []
                congr 1
                apply List.map_congr_left
                intro ix _
                split <;> rfl
              · simp only []
                apply flatMap_congr'
                intro ix _
                split <;> simp
      | true =>
        simp only [Option.map_some, eval_swap, Bool.not_true, Bool.false_eq_true, if_false, h2, renRes, hopt]
        split
        · simp [hsent]
        · split
          · simp
          · simp only [List.map_map, Function.comp_def, List.flatMap_map, List.map_flatMap]
            refine Prod.ext rfl (Prod.ext ?_ ?_)
            · simp only []
              congr 1
              apply List.map_congr_left
              intro ix _
              split <;> rfl
            · simp only []
              apply flatMap_congr'
              intro ix _
              split <;> simp

/-- the renamed body under related callee denotations -/
theorem evalCalls_swapK (st : StructTable) (nf : Nat) (insOf : String → List Param)
    (a b : String) (run run' : Runner) (path : List String) (forks : List (String × Idx))
    (mf : String → Bool) (hrel : RunnerRelK a b path forks mf run run') :
    ∀ (cs : List Call) (env : Env) (acc : List Inst), (∀ c ∈ cs, mf c.id = c.mapped) →
      evalCalls st nf insOf run' path forks (cs.map (swapCall a b)) (swapEnv a b env)
          (acc.map (renInst a b path.length forks.length mf))
        = (swapEnv a b (evalCalls st nf insOf run path forks cs env acc).1,
           (evalCalls st nf insOf run path forks cs env acc).2.map (renInst a b path.length forks.length mf))
  | [], env, acc, _ => by simp [evalCalls]
  | c :: cs, env, acc, hmc => by
    simp only [List.map_cons, evalCalls,
      evalCall_swapK st nf insOf a b run run' path forks mf hrel env c (hmc c (by simp))]
    have henv : ({ swapEnv a b env with
          calls := (swapEnv a b env).calls ++
            [((swapCall a b c).id, (evalCall st nf insOf run path forks env c).1,
              (evalCall st nf insOf run path forks env c).2.1)] } : Env)
        = swapEnv a b { env with
          calls := env.calls ++
            [(c.id, (evalCall st nf insOf run path forks env c).1,
              (evalCall st nf insOf run path forks env c).2.1)] } := by
      simp [swapEnv, swapCall]
    rw [henv, ← List.map_append]
    exact evalCalls_swapK st nf insOf a b run run' path forks mf hrel cs _ _ fun c' hc' => hmc c' (by simp [hc'])

/-! ## the same body below a re-keyed prefix -/

/-- one call under two callee denotations that agree up to a re-keying `ren` of the instances -/
theorem evalCall_rel (st : StructTable) (nf : Nat) (insOf : String → List Param) (run run' : Runner)
    (p p' : List String) (f f' : List (String × Idx)) (env : Env) (c : Call) (ren : Inst → Inst)
    (hopt : ∀ i : Inst, ren { i with optional := true } = { ren i with optional := true })
    (hsent : ren ⟨⟨p ++ [c.id], f⟩, .null, true, true⟩ = ⟨⟨p' ++ [c.id], f'⟩, .null, true, true⟩)
    (hU : ∀ args, run' c.callee (p' ++ [c.id]) f' args
        = ((run c.callee (p ++ [c.id]) f args).1, (run c.callee (p ++ [c.id]) f args).2.map ren))
    (hM : ∀ ix args, run' c.callee (p' ++ [c.id]) (f' ++ [(c.id, ix)]) args
        = ((run c.callee (p ++ [c.id]) (f ++ [(c.id, ix)]) args).1,
           (run c.callee (p ++ [c.id]) (f ++ [(c.id, ix)]) args).2.map ren)) :
    evalCall st nf insOf run' p' f' env c
      = ((evalCall st nf insOf run p f env c).1, (evalCall st nf insOf run p f env c).2.1,
         (evalCall st nf insOf run p f env c).2.2.map ren) := by
  unfold evalCall
  have hopt' : ∀ (l : List Inst),
      (l.map ren).map (fun i => { i with optional := true })
        = (l.map fun i => { i with optional := true }).map ren := by
    intro l; simp [hopt]
  cases hm : c.mapped with
  | false =>
    cases hd : c.disabled with
    | none => simp [hU]
    | some d =>
      obtain ⟨s, e⟩ := d
      cases s <;> simp only [hU] <;> split <;> simp
  | true =>
    have tail : ∀ (dis : J),
        (if (callIndices st env c).isEmpty = true then
          (liftTy c.callee (callMode st env c), J.dnull,
            List.map (fun i => ({ i with optional := true } : Inst))
              (run' c.callee (p' ++ [c.id]) (f' ++ [(c.id, Idx.none)])
                (mkArgs st nf (argVals st env (insOf c.callee) c) (some Idx.none))).2)
        else
          (liftTy c.callee (callMode st env c),
            collect (callMode st env c) (callIndices st env c)
              (List.map (fun x => x.1)
                (List.map (fun ix =>
                    if Martian.Dataflow.isTrue (elemAt dis ix) = true then ((J.dnull : J), ([] : List Inst))
                    else run' c.callee (p' ++ [c.id]) (f' ++ [(c.id, ix)])
                      (mkArgs st nf (argVals st env (insOf c.callee) c) (some ix)))
                  (callIndices st env c))),
            List.flatMap (fun x => x.2)
              (List.map (fun ix =>
                  if Martian.Dataflow.isTrue (elemAt dis ix) = true then ((J.dnull : J), ([] : List Inst))
                  else run' c.callee (p' ++ [c.id]) (f' ++ [(c.id, ix)])
                    (mkArgs st nf (argVals st env (insOf c.callee) c) (some ix)))
                (callIndices st env c))))
        = ((if (callIndices st env c).isEmpty = true then
            (liftTy c.callee (callMode st env c), J.dnull,
              List.map (fun i => ({ i with optional := true } : Inst))
                (run c.callee (p ++ [c.id]) (f ++ [(c.id, Idx.none)])
                  (mkArgs st nf (argVals st env (insOf c.callee) c) (some Idx.none))).2)
          else
            (liftTy c.callee (callMode st env c),
              collect (callMode st env c) (callIndices st env c)
                (List.map (fun x => x.1)
                  (List.map (fun ix =>
                      if Martian.Dataflow.isTrue (elemAt dis ix) = true then ((J.dnull : J), ([] : List Inst))
                      else run c.callee (p ++ [c.id]) (f ++ [(c.id, ix)])
                        (mkArgs st nf (argVals st env (insOf c.callee) c) (some ix)))
                    (callIndices st env c))),
              List.flatMap (fun x => x.2)
                (List.map (fun ix =>
                    if Martian.Dataflow.isTrue (elemAt dis ix) = true then ((J.dnull : J), ([] : List Inst))
                    else run c.callee (p ++ [c.id]) (f ++ [(c.id, ix)])
                      (mkArgs st nf (argVals st env (insOf c.callee) c) (some ix)))
                  (callIndices st env c)))).1,
           (if (callIndices st env c).isEmpty = true then
            (liftTy c.callee (callMode st env c), J.dnull,
              List.map (fun i => ({ i with optional := true } : Inst))
                (run c.callee (p ++ [c.id]) (f ++ [(c.id, Idx.none)])
                  (mkArgs st nf (argVals st env (insOf c.callee) c) (some Idx.none))).2)
          else
            (liftTy c.callee (callMode st env c),
              collect (callMode st env c) (callIndices st env c)
                (List.map (fun x => x.1)
                  (List.map (fun ix =>
                      if Martian.Dataflow.isTrue (elemAt dis ix) = true then ((J.dnull : J), ([] : List Inst))
                      else run c.callee (p ++ [c.id]) (f ++ [(c.id, ix)])
                        (mkArgs st nf (argVals st env (insOf c.callee) c) (some ix)))
                    (callIndices st env c))),
              List.flatMap (fun x => x.2)
                (List.map (fun ix =>
                    if Martian.Dataflow.isTrue (elemAt dis ix) = true then ((J.dnull : J), ([] : List Inst))
                    else run c.callee (p ++ [c.id]) (f ++ [(c.id, ix)])
                      (mkArgs st nf (argVals st env (insOf c.callee) c) (some ix)))
                  (callIndices st env c)))).2.1,
           ((if (callIndices st env c).isEmpty = true then
            (liftTy c.callee (callMode st env c), J.dnull,
              List.map (fun i => ({ i with optional := true } : Inst))
                (run c.callee (p ++ [c.id]) (f ++ [(c.id, Idx.none)])
                  (mkArgs st nf (argVals st env (insOf c.callee) c) (some Idx.none))).2)
          else
            (liftTy c.callee (callMode st env c),
              collect (callMode st env c) (callIndices st env c)
                (List.map (fun x => x.1)
                  (List.map (fun ix =>
                      if Martian.Dataflow.isTrue (elemAt dis ix) = true then ((J.dnull : J), ([] : List Inst))
                      else run c.callee (p ++ [c.id]) (f ++ [(c.id, ix)])
                        (mkArgs st nf (argVals st env (insOf c.callee) c) (some ix)))
                    (callIndices st env c))),
              List.flatMap (fun x => x.2)
                (List.map (fun ix =>
                    if Martian.Dataflow.isTrue (elemAt dis ix) = true then ((J.dnull : J), ([] : List Inst))
                    else run c.callee (p ++ [c.id]) (f ++ [(c.id, ix)])
                      (mkArgs st nf (argVals st env (insOf c.callee) c) (some ix)))
                  (callIndices st env c)))).2.2).map ren) := by
      intro dis
      simp only [hM, hopt']
      split
      · simp
      · simp only [List.map_map, Function.comp_def, List.flatMap_map, List.map_flatMap]
        refine Prod.ext rfl (Prod.ext ?_ ?_)
        · simp only []
          congr 1
          apply List.map_congr_left
          intro ix _
          split <;> rfl
        · simp only []
          apply flatMap_congr'
          intro ix _
          split <;> simp
    cases hd : c.disabled with
    | none =>
      simp only [Bool.not_true, Bool.false_eq_true, if_false]
      split
      · simp [hsent]
      · exact tail .null
    | some d =>
      obtain ⟨s, e⟩ := d
      cases s with
      | false =>
        simp only [Bool.not_true, Bool.false_eq_true, if_false]
        split
        · simp
        · split
          · simp [hsent]
          · exact tail .null
      | true =>
        simp only [Bool.not_true, Bool.false_eq_true, if_false]
        split
        · simp [hsent]
        · exact tail (eval st env e)

theorem evalCalls_rel (st : StructTable) (nf : Nat) (insOf : String → List Param) (run run' : Runner)
    (p p' : List String) (f f' : List (String × Idx)) (ren : Inst → Inst)
    (hopt : ∀ i : Inst, ren { i with optional := true } = { ren i with optional := true }) :
    ∀ (cs : List Call) (env : Env) (acc : List Inst),
      (∀ c ∈ cs, ren ⟨⟨p ++ [c.id], f⟩, .null, true, true⟩ = ⟨⟨p' ++ [c.id], f'⟩, .null, true, true⟩ ∧
        (∀ args, run' c.callee (p' ++ [c.id]) f' args
          = ((run c.callee (p ++ [c.id]) f args).1, (run c.callee (p ++ [c.id]) f args).2.map ren)) ∧
        (∀ ix args, run' c.callee (p' ++ [c.id]) (f' ++ [(c.id, ix)]) args
          = ((run c.callee (p ++ [c.id]) (f ++ [(c.id, ix)]) args).1,
             (run c.callee (p ++ [c.id]) (f ++ [(c.id, ix)]) args).2.map ren))) →
      evalCalls st nf insOf run' p' f' cs env (acc.map ren)
        = ((evalCalls st nf insOf run p f cs env acc).1, (evalCalls st nf insOf run p f cs env acc).2.map ren)
  | [], env, acc, _ => by simp [evalCalls]
  | c :: cs, env, acc, h => by
    obtain ⟨h1, h2, h3⟩ := h c (by simp)
    simp only [evalCalls, evalCall_rel st nf insOf run run' p p' f f' env c ren hopt h1 h2 h3]
    rw [← List.map_append]
    exact evalCalls_rel st nf insOf run run' p p' f f' ren hopt cs _ _ fun c' hc' => h c' (by simp [hc'])

/-! ## den's own callee denotation satisfies the relation with the re-keyed oracle -/

theorem renInst_opt (a b : String) (n m : Nat) (mf : String → Bool) (i : Inst) :
    renInst a b n m mf { i with optional := true } = { renInst a b n m mf i with optional := true } := rfl

theorem runCallable_ren (P : Program) (O : Oracle) (nf : Nat) (a b : String) (n m : Nat) (mf : String → Bool) :
    ∀ (fuel : Nat) (callee : String) (p : List String) (f : List (String × Idx)) (args : J),
      n < p.length → (mf (p.getD n "") = true → m < f.length) →
      runCallable P (fun k => O (renKey a b n m (fun y => mf (swapId a b y)) k)) nf fuel callee
          (modAt (swapId a b) n p)
          (if mf (p.getD n "") then modAt (fun e => (swapId a b e.1, e.2)) m f else f) args
        = renRes a b n m mf (runCallable P O nf fuel callee p f args) := by
  intro fuel
  induction fuel with
  | zero => intro callee p f args _ _; simp [runCallable, renRes]
  | succ fuel ih =>
    intro callee p f args hn hm
    simp only [runCallable]
    cases hl : P.callables.lookup callee with
    | none => simp [renRes]
    | some cb =>
      cases cb with
      | stage sins souts =>
        have hk : renKey a b n m mf ⟨p, f⟩
            = ⟨modAt (swapId a b) n p, if mf (p.getD n "") then modAt (fun e => (swapId a b e.1, e.2)) m f else f⟩ := rfl
        have hinv := renKey_invol a b n m mf ⟨p, f⟩ hn
        rw [hk] at hinv
        simp only [renRes, List.map_cons, List.map_nil, renInst, hk, hinv]
      | pipeline pins outs calls ret =>
        have hrel := evalCalls_rel P.table nf P.insOf (runCallable P O nf fuel)
          (runCallable P (fun k => O (renKey a b n m (fun y => mf (swapId a b y)) k)) nf fuel)
          p (modAt (swapId a b) n p) f
          (if mf (p.getD n "") then modAt (fun e => (swapId a b e.1, e.2)) m f else f)
          (renInst a b n m mf) (renInst_opt a b n m mf) calls ⟨pins, args, []⟩ [] (by
            intro c _
            have hp : modAt (swapId a b) n (p ++ [c.id]) = modAt (swapId a b) n p ++ [c.id] :=
              modAt_append_left _ n p [c.id] hn
            have hg : (p ++ [c.id]).getD n "" = p.getD n "" := getD_append_left p [c.id] n hn
            refine ⟨?_, ?_, ?_⟩
            · simp only [renInst, renKey, hp, hg]
            · intro args'
              have := ih c.callee (p ++ [c.id]) f args' (by simp; omega) (by rw [hg]; exact hm)
              rw [hp, hg] at this
              exact this
            · intro ix args'
              have := ih c.callee (p ++ [c.id]) (f ++ [(c.id, ix)]) args' (by simp; omega)
                (by rw [hg]; intro h; have := hm h; simp; omega)
              rw [hp, hg] at this
              cases hflag : mf (p.getD n "") with
              | false =>
                rw [hflag] at this
                simp only [Bool.false_eq_true, if_false] at this ⊢
                exact this
              | true =>
                rw [hflag] at this
                simp only [if_true] at this ⊢
                rw [modAt_append_left _ m f [(c.id, ix)] (hm hflag)] at this
                exact this)
        simp only [List.map_nil] at hrel
        simp only [hrel, renRes]

/-- den's callee denotation under the re-keyed oracle is related to den's callee denotation -/
theorem runnerRelK_runCallable (P : Program) (O : Oracle) (nf fuel : Nat) (a b : String)
    (path : List String) (forks : List (String × Idx)) (mf : String → Bool) :
    RunnerRelK a b path forks mf (runCallable P O nf fuel)
      (runCallable P (fun k => O (renKey a b path.length forks.length (fun y => mf (swapId a b y)) k)) nf fuel) := by
  intro callee x args
  constructor
  · intro hx
    have := runCallable_ren P O nf a b path.length forks.length mf fuel callee (path ++ [x]) forks args
      (by simp) (by rw [getD_length_append]; intro h; rw [hx] at h; cases h)
    rw [modAt_length_append, getD_length_append, hx] at this
    simpa using this
  · intro hx ix
    have := runCallable_ren P O nf a b path.length forks.length mf fuel callee (path ++ [x])
      (forks ++ [(x, ix)]) args (by simp) (by intro _; simp)
    rw [modAt_length_append, getD_length_append, hx] at this
    simp only [if_true, modAt_length_append] at this
    exact this

/-! ## whole program: the body of the top-level pipeline -/

def swapBody (a b : String) : Callable → Callable
  | .stage i o => .stage i o
  | .pipeline i o calls ret => .pipeline i o (calls.map (swapCall a b)) (ret.map fun r => (r.1, swapExp a b r.2))

/-- the program with call ids `a` and `b` swapped inside the body of the top-level pipeline -/
def swapTop (a b : String) (P : Program) : Program :=
  { P with callables := P.callables.map fun e => if e.1 == P.top.callee then (e.1, swapBody a b e.2) else e }

theorem swapBody_ins (a b : String) (c : Callable) : (swapBody a b c).ins = c.ins := by cases c <;> rfl
theorem swapBody_outs (a b : String) (c : Callable) : (swapBody a b c).outs = c.outs := by cases c <;> rfl

theorem lookup_swapTop (a b : String) (P : Program) (name : String) :
    (swapTop a b P).callables.lookup name
      = (P.callables.lookup name).map fun c => if name == P.top.callee then swapBody a b c else c := by
  simp only [swapTop]
  induction P.callables with
  | nil => rfl
  | cons x xs ih =>
    obtain ⟨k, v⟩ := x
    simp only [List.map_cons]
    by_cases hk : (k == P.top.callee) = true
    · simp only [hk, if_true, List.lookup_cons]
      cases hn : (name == k) with
      | true =>
        have e : name = k := by simpa using hn
        have : (name == P.top.callee) = true := by rw [e]; exact hk
        simp only [Option.map_some, this, if_true]
      | false => exact ih
    · have hk' : (k == P.top.callee) = false := by simpa using hk
      simp only [hk', Bool.false_eq_true, if_false, List.lookup_cons]
      cases hn : (name == k) with
      | true =>
        have e : name = k := by simpa using hn
        have : (name == P.top.callee) = false := by rw [e]; exact hk'
        simp only [Option.map_some, this, Bool.false_eq_true, if_false]
      | false => exact ih

theorem runCallable_pipeline (P : Program) (O : Oracle) (nf fuel : Nat) (callee : String) (p : List String)
    (f : List (String × Idx)) (args : J) (ins outs : List Param) (calls : List Call) (ret : List (String × Exp))
    (h : P.callables.lookup callee = some (.pipeline ins outs calls ret)) :
    runCallable P O nf (fuel+1) callee p f args
      = (.obj (outs.map fun q =>
          (q.name, narrow P.table nf q.ty
            (match ret.lookup q.name with
             | some e => eval P.table
                 (evalCalls P.table nf P.insOf (runCallable P O nf fuel) p f calls ⟨ins, args, []⟩ []).1 e
             | none => .null))),
         (evalCalls P.table nf P.insOf (runCallable P O nf fuel) p f calls ⟨ins, args, []⟩ []).2) := by
  simp only [runCallable, h]
  rfl

theorem table_swapTop (a b : String) (P : Program) : (swapTop a b P).table = P.table := by
  simp only [Program.table, swapTop, List.map_map]
  congr 1
  apply List.map_congr_left
  intro e _
  simp only [Function.comp_apply]
  split <;> simp [swapBody_outs]

theorem insOf_swapTop (a b : String) (P : Program) : (swapTop a b P).insOf = P.insOf := by
  funext callee
  simp only [Program.insOf, lookup_swapTop]
  cases P.callables.lookup callee with
  | none => rfl
  | some c => simp only [Option.map_some]; split <;> simp [swapBody_ins]

theorem evalCalls_congr_run (st : StructTable) (nf : Nat) (insOf : String → List Param) (run run' : Runner)
    (p : List String) (f : List (String × Idx)) :
    ∀ (cs : List Call) (env : Env) (acc : List Inst),
      (∀ c ∈ cs, ∀ q g x, run' c.callee q g x = run c.callee q g x) →
      evalCalls st nf insOf run' p f cs env acc = evalCalls st nf insOf run p f cs env acc
  | [], _, _, _ => by simp [evalCalls]
  | c :: cs, env, acc, h => by
    have hc : evalCall st nf insOf run' p f env c = evalCall st nf insOf run p f env c := by
      unfold evalCall
      simp only [h c (by simp)]
    simp only [evalCalls, hc]
    exact evalCalls_congr_run st nf insOf run run' p f cs _ _ fun c' hc' => h c' (by simp [hc'])

def Callable.calls : Callable → List Call
  | .stage _ _ => []
  | .pipeline _ _ cs _ => cs

/-- below callees that are not the top-level pipeline (and never call it) the two programs agree -/
theorem runCallable_swapTop (a b : String) (P : Program) (O : Oracle) (nf : Nat)
    (hnocall : ∀ name c, P.callables.lookup name = some c → ∀ call ∈ Callable.calls c, call.callee ≠ P.top.callee) :
    ∀ (fuel : Nat) (callee : String) (p : List String) (f : List (String × Idx)) (args : J),
      callee ≠ P.top.callee →
      runCallable (swapTop a b P) O nf fuel callee p f args = runCallable P O nf fuel callee p f args := by
  intro fuel
  induction fuel with
  | zero => intro callee p f args _; simp [runCallable]
  | succ fuel ih =>
    intro callee p f args hne
    have hb : (callee == P.top.callee) = false := by simpa using hne
    simp only [runCallable, lookup_swapTop, table_swapTop, insOf_swapTop, hb]
    cases hl : P.callables.lookup callee with
    | none => simp
    | some cb =>
      simp only [Option.map_some, Bool.false_eq_true, if_false]
      cases cb with
      | stage i o => rfl
      | pipeline i o calls ret =>
        simp only
        rw [evalCalls_congr_run P.table nf P.insOf (runCallable P O nf fuel) (runCallable (swapTop a b P) O nf fuel)
          p f calls _ _ (fun c hc q g x => ih c.callee q g x (hnocall callee _ hl c hc))]

/-- which call ids of a body are map calls -/
def mappedOf (cs : List Call) (x : String) : Bool := ((cs.find? fun c => c.id == x).map (·.mapped)).getD false

theorem mappedOf_mem (cs : List Call) (hn : (cs.map (·.id)).Nodup) (c : Call) (hc : c ∈ cs) :
    mappedOf cs c.id = c.mapped := by
  unfold mappedOf
  induction cs with
  | nil => cases hc
  | cons q qs ih =>
    simp only [List.map_cons, List.nodup_cons] at hn
    simp only [List.find?_cons]
    cases hc with
    | head => simp
    | tail _ hc' =>
      have hne : q.id ≠ c.id := by
        intro e
        apply hn.1
        rw [e]
        exact List.mem_map_of_mem hc'
      have : (q.id == c.id) = false := by simpa using hne
      rw [this]
      exact ih hn.2 hc'

theorem lookup_ret_swap (a b : String) (ret : List (String × Exp)) (k : String) :
    (ret.map fun r => (r.1, swapExp a b r.2)).lookup k = (ret.lookup k).map (swapExp a b) := by
  induction ret with
  | nil => rfl
  | cons x xs ih =>
    obtain ⟨k', e⟩ := x
    simp only [List.map_cons, List.lookup_cons]
    cases (k == k') <;> simp [ih]

/-- WHOLE-PROGRAM `den_alias` for the body of the top-level pipeline: swapping the call ids `a`
and `b` there (call statements, every reference in bindings / `disabled` / return values) and
looking the recorded stage outputs up under the renamed keys yields the same top-level outputs and
the same stage instances with the same argument records, each under its renamed key. -/
theorem den_alias_top (a b : String) (P : Program) (O : Oracle)
    (pins outs : List Param) (calls : List Call) (ret : List (String × Exp))
    (htop : P.callables.lookup P.top.callee = some (.pipeline pins outs calls ret))
    (hids : (calls.map (·.id)).Nodup)
    (hnocall : ∀ name c, P.callables.lookup name = some c → ∀ call ∈ Callable.calls c, call.callee ≠ P.top.callee) :
    den (swapTop a b P) (fun k => O (renKey a b 1 0 (fun y => mappedOf calls (swapId a b y)) k))
      = renRes a b 1 0 (mappedOf calls) (den P O) := by
  have hfuel : (swapTop a b P).fuel = P.fuel := by simp [Program.fuel, swapTop]
  have hnfuel : (swapTop a b P).nfuel = P.nfuel := by simp [Program.nfuel, table_swapTop]
  have htopc : (swapTop a b P).top = P.top := rfl
  have hargs : (swapTop a b P).topArgs = P.topArgs := by
    simp [Program.topArgs, table_swapTop, insOf_swapTop, hnfuel, htopc]
  simp only [den, hfuel, hnfuel, htopc, hargs]
  generalize hO' : (fun k => O (renKey a b 1 0 (fun y => mappedOf calls (swapId a b y)) k)) = O'
  have hf : P.fuel = (P.callables.length + 1) + 1 := rfl
  rw [hf]
  have htop' : (swapTop a b P).callables.lookup P.top.callee
      = some (.pipeline pins outs (calls.map (swapCall a b)) (ret.map fun r => (r.1, swapExp a b r.2))) := by
    rw [lookup_swapTop, htop]
    simp [swapBody]
  rw [runCallable_pipeline (swapTop a b P) O' P.nfuel _ _ _ _ _ _ _ _ _ htop',
    runCallable_pipeline P O P.nfuel _ _ _ _ _ _ _ _ _ htop]
  simp only [table_swapTop, insOf_swapTop]
  have hrun : ∀ c ∈ calls.map (swapCall a b), ∀ q g x,
      runCallable (swapTop a b P) O' P.nfuel (P.callables.length + 1) c.callee q g x
        = runCallable P O' P.nfuel (P.callables.length + 1) c.callee q g x := by
    intro c hc q g x
    simp only [List.mem_map] at hc
    obtain ⟨c0, hc0, rfl⟩ := hc
    exact runCallable_swapTop a b P O' P.nfuel hnocall _ c0.callee q g x (hnocall _ _ htop c0 hc0)
  rw [evalCalls_congr_run P.table P.nfuel P.insOf _ _ [P.top.id] [] _ _ _ hrun]
  have hrel := runnerRelK_runCallable P O P.nfuel (P.callables.length + 1) a b [P.top.id] [] (mappedOf calls)
  simp only [List.length_singleton, List.length_nil] at hrel
  rw [hO'] at hrel
  have hsw := evalCalls_swapK P.table P.nfuel P.insOf a b _ _ [P.top.id] [] (mappedOf calls) hrel calls
    ⟨pins, P.topArgs, []⟩ [] (fun c hc => mappedOf_mem calls hids c hc)
  simp only [List.map_nil, List.length_singleton, List.length_nil] at hsw
  have henv : swapEnv a b ⟨pins, P.topArgs, []⟩ = ⟨pins, P.topArgs, []⟩ := rfl
  rw [henv] at hsw
  rw [hsw]
  simp only [renRes, lookup_ret_swap]
  congr 2
  apply List.map_congr_left
  intro p _
  cases ret.lookup p.name with
  | none => rfl
  | some e => simp [eval_swap]

/-- decidable form of "no callable calls the top-level pipeline" -/
def noCallToTopB (P : Program) : Bool :=
  P.callables.all fun e => (Callable.calls e.2).all fun c => c.callee != P.top.callee

theorem mem_of_lookup' {β : Type} : ∀ (kvs : List (String × β)) (k : String) (e : β),
    kvs.lookup k = some e → (k, e) ∈ kvs
  | [], _, _, h => by simp at h
  | (k', e') :: es, k, e, h => by
    simp only [List.lookup_cons] at h
    cases hk : (k == k') with
    | true =>
      simp only [hk, Option.some.injEq] at h
      have : k = k' := by simpa using hk
      subst this; subst h
      simp
    | false =>
      simp only [hk] at h
      simp [mem_of_lookup' es k e h]

theorem noCallToTopB_sound (P : Program) (h : noCallToTopB P = true) :
    ∀ name c, P.callables.lookup name = some c → ∀ call ∈ Callable.calls c, call.callee ≠ P.top.callee := by
  intro name c hl call hc
  simp only [noCallToTopB, List.all_eq_true, bne_iff_ne, ne_eq] at h
  exact h (name, c) (mem_of_lookup' _ _ _ hl) call hc

end Proofs.DataflowAlias
