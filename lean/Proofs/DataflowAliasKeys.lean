/-
C01 — `den_alias` UP TO THE RENAMING OF INSTANCE KEYS (audit finding C01-H5).

Renaming (swapping) two call ids inside one pipeline body moves the stage instances below the
renamed calls: den's own callee denotation `runCallable` puts the call path (and, for a mapped
call, the call id of its fork entry) into every instance key.  So the callee denotations of the
renamed body are related to the original ones up to `renKey` — the renaming of the path
component at the body's depth and of the fork entry of the renamed call — and the recorded
stage outputs are looked up under the renamed keys (`O ∘ renKey`).

* `RunnerRelK`   — the relation between callee denotations (values equal, instances re-keyed);
* `evalCalls_swapK` — the renamed body under related denotations: same environment up to the
  renaming of its keys, same instances up to `renKey`;
* `runCallable_ren` — den's own callee denotation satisfies the relation with the re-keyed oracle;
* `den_alias_top`  — whole-program: swapping two call ids in the body of the top-level pipeline
  and re-keying the oracle changes nothing but the instance keys.
-/
import Proofs.DataflowAlias

namespace Proofs.DataflowAlias
open Martian.Dataflow

/-! ## keys -/

def modAt {α : Type} (f : α → α) : Nat → List α → List α
  | _, [] => []
  | 0, x :: xs => f x :: xs
  | n+1, x :: xs => x :: modAt f n xs

theorem modAt_append_left {α : Type} (f : α → α) : ∀ (n : Nat) (l r : List α), n < l.length →
    modAt f n (l ++ r) = modAt f n l ++ r
  | _, [], _, h => by simp at h
  | 0, x :: xs, r, _ => by simp [modAt]
  | n+1, x :: xs, r, h => by
    simp only [List.cons_append, modAt, List.cons.injEq, true_and]
    exact modAt_append_left f n xs r (by simpa using h)

theorem modAt_length_append {α : Type} (f : α → α) : ∀ (l : List α) (x : α) (r : List α),
    modAt f l.length (l ++ x :: r) = l ++ f x :: r
  | [], x, r => by simp [modAt]
  | y :: l, x, r => by simp [modAt, modAt_length_append f l x r]

theorem modAt_ge {α : Type} (f : α → α) : ∀ (n : Nat) (l : List α), l.length ≤ n → modAt f n l = l
  | _, [], _ => by simp [modAt]
  | 0, x :: xs, h => by simp at h
  | n+1, x :: xs, h => by simp [modAt, modAt_ge f n xs (by simpa using h)]

theorem modAt_invol {α : Type} (f : α → α) (hf : ∀ x, f (f x) = x) : ∀ (n : Nat) (l : List α),
    modAt f n (modAt f n l) = l
  | _, [] => by simp [modAt]
  | 0, x :: xs => by simp [modAt, hf]
  | n+1, x :: xs => by simp [modAt, modAt_invol f hf n xs]

theorem getD_append_left (l r : List String) (n : Nat) (h : n < l.length) : (l ++ r).getD n "" = l.getD n "" := by
  simp [List.getD_eq_getElem?_getD, List.getElem?_append_left h]

theorem getD_length_append (l : List String) (x : String) (r : List String) :
    (l ++ x :: r).getD l.length "" = x := by
  simp [List.getD_eq_getElem?_getD]

theorem getD_modAt (f : String → String) : ∀ (n : Nat) (l : List String), n < l.length →
    (modAt f n l).getD n "" = f (l.getD n "")
  | _, [], h => by simp at h
  | 0, x :: xs, _ => by simp [modAt]
  | n+1, x :: xs, h => by
    simp only [modAt, List.getD_cons_succ]
    exact getD_modAt f n xs (by simpa using h)

/-- rename the component of an instance key that belongs to the call at depth `n` of the call path,
and, when that call is mapped (`mf`), the call id of its fork entry (position `m`) -/
def renKey (a b : String) (n m : Nat) (mf : String → Bool) (k : InstKey) : InstKey :=
  ⟨modAt (swapId a b) n k.path,
   if mf (k.path.getD n "") then modAt (fun e => (swapId a b e.1, e.2)) m k.forks else k.forks⟩

def renInst (a b : String) (n m : Nat) (mf : String → Bool) (i : Inst) : Inst :=
  { i with key := renKey a b n m mf i.key }

def renRes (a b : String) (n m : Nat) (mf : String → Bool) (r : J × List Inst) : J × List Inst :=
  (r.1, r.2.map (renInst a b n m mf))

/-- the renaming of keys is an involution (with the mapped-flag read through the renaming) -/
theorem renKey_invol (a b : String) (n m : Nat) (mf : String → Bool) (k : InstKey) (hn : n < k.path.length) :
    renKey a b n m (fun y => mf (swapId a b y)) (renKey a b n m mf k) = k := by
  obtain ⟨p, f⟩ := k
  simp only [renKey] at hn ⊢
  rw [getD_modAt _ n p hn, swapId_invol, modAt_invol _ (swapId_invol a b)]
  cases mf (p.getD n "") with
  | false => simp
  | true =>
    simp only [if_true]
    rw [modAt_invol]
    intro e
    simp [swapId_invol]

theorem flatMap_congr' {α β : Type} (l : List α) (g h : α → List β) (e : ∀ a ∈ l, g a = h a) :
    l.flatMap g = l.flatMap h := by
  induction l with
  | nil => rfl
  | cons a l ih =>
    simp only [List.flatMap_cons]
    rw [e a (by simp), ih fun x hx => e x (by simp [hx])]

/-! ## one pipeline body -/

/-- the callee denotations of the renamed body: on the renamed path / fork entry they answer what
the original ones answer on the original path / fork entry, with every instance re-keyed -/
def RunnerRelK (a b : String) (path : List String) (forks : List (String × Idx)) (mf : String → Bool)
    (run run' : Runner) : Prop :=
  ∀ (callee x : String) (args : J),
    (mf x = false →
      run' callee (path ++ [swapId a b x]) forks args
        = renRes a b path.length forks.length mf (run callee (path ++ [x]) forks args)) ∧
    (mf x = true → ∀ ix,
      run' callee (path ++ [swapId a b x]) (forks ++ [(swapId a b x, ix)]) args
        = renRes a b path.length forks.length mf (run callee (path ++ [x]) (forks ++ [(x, ix)]) args))

theorem evalCall_swapK (st : StructTable) (nf : Nat) (insOf : String → List Param)
    (a b : String) (run run' : Runner) (path : List String) (forks : List (String × Idx))
    (mf : String → Bool) (hrel : RunnerRelK a b path forks mf run run') (env : Env) (c : Call)
    (hmc : mf c.id = c.mapped) :
    evalCall st nf insOf run' path forks (swapEnv a b env) (swapCall a b c)
      = ((evalCall st nf insOf run path forks env c).1, (evalCall st nf insOf run path forks env c).2.1,
         (evalCall st nf insOf run path forks env c).2.2.map (renInst a b path.length forks.length mf)) := by
  unfold evalCall
  simp only [callMode_swap, argVals_swap, callIndices_swap, splitsAgree_swap]
  have hcallee : (swapCall a b c).callee = c.callee := rfl
  have hmapped : (swapCall a b c).mapped = c.mapped := rfl
  have hid : (swapCall a b c).id = swapId a b c.id := rfl
  rw [hcallee, hmapped, hid]
  have hdis : (swapCall a b c).disabled = c.disabled.map fun d => (d.1, swapExp a b d.2) := rfl
  rw [hdis]
  have hsent : renInst a b path.length forks.length mf ⟨⟨path ++ [c.id], forks⟩, .null, true, true⟩
      = ⟨⟨path ++ [swapId a b c.id], forks⟩, .null, true, true⟩ := by
    simp only [renInst, renKey, modAt_length_append, getD_length_append]
    cases mf c.id <;> simp [modAt_ge]
  cases hm : c.mapped with
  | false =>
    rw [hm] at hmc
    have h1 := fun args => (hrel c.callee c.id args).1 hmc
    cases hd : c.disabled with
    | none => simp [h1, renRes]
    | some d =>
      obtain ⟨s, e⟩ := d
      cases s <;> simp only [Option.map_some, eval_swap, h1, renRes] <;> split <;> simp
  | true =>
    rw [hm] at hmc
    have h2 := fun args ix => (hrel c.callee c.id args).2 hmc ix
    have hopt : ∀ (l : List Inst),
        (l.map (renInst a b path.length forks.length mf)).map (fun i => { i with optional := true })
          = (l.map fun i => { i with optional := true }).map (renInst a b path.length forks.length mf) := by
      intro l; simp [renInst]
    cases hd : c.disabled with
    | none =>
      simp only [Option.map_none, Bool.not_true, Bool.false_eq_true, if_false, h2, renRes, hopt]
      split
      · simp [hsent]
      · split
        · simp
        · simp only [List.map_map, Function.comp_def, List.flatMap_map, List.map_flatMap]
          refine Prod.ext rfl (Prod.ext ?_ ?_)
          · simp only []
            congr 1
            apply List.map_congr_left
            intro ix _
            split <;> rfl
          · simp only []
            apply flatMap_congr'
            intro ix _
            split <;> simp
    | some d =>
      obtain ⟨s, e⟩ := d
      cases s with
      | false =>
        simp only [Option.map_some, eval_swap, Bool.not_true, Bool.false_eq_true, if_false, h2, renRes, hopt]
        split
        · simp
        · split
          · simp [hsent]
          · split
            · simp
            · simp only [List.map_map, Function.comp_def, List.flatMap_map, List.map_flatMap]
              refine Prod.ext rfl (Prod.ext ?_ ?_)
              · simp only []
                congr 1
                apply List.map_congr_left
                intro ix _
                split <;> rfl
              · simp only []
                apply flatMap_congr'
                intro ix _
                split <;> simp
      | true =>
        simp only [Option.map_some, eval_swap, Bool.not_true, Bool.false_eq_true, if_false, h2, renRes, hopt]
        split
        · simp [hsent]
        · split
          · simp
          · simp only [List.map_map, Function.comp_def, List.flatMap_map, List.map_flatMap]
            refine Prod.ext rfl (Prod.ext ?_ ?_)
            · simp only []
              congr 1
              apply List.map_congr_left
              intro ix _
              split <;> rfl
            · simp only []
              apply flatMap_congr'
              intro ix _
              split <;> simp

/-- the renamed body under related callee denotations -/
theorem evalCalls_swapK (st : StructTable) (nf : Nat) (insOf : String → List Param)
    (a b : String) (run run' : Runner) (path : List String) (forks : List (String × Idx))
    (mf : String → Bool) (hrel : RunnerRelK a b path forks mf run run') :
    ∀ (cs : List Call) (env : Env) (acc : List Inst), (∀ c ∈ cs, mf c.id = c.mapped) →
      evalCalls st nf insOf run' path forks (cs.map (swapCall a b)) (swapEnv a b env)
          (acc.map (renInst a b path.length forks.length mf))
        = (swapEnv a b (evalCalls st nf insOf run path forks cs env acc).1,
           (evalCalls st nf insOf run path forks cs env acc).2.map (renInst a b path.length forks.length mf))
  | [], env, acc, _ => by simp [evalCalls]
  | c :: cs, env, acc, hmc => by
    simp only [List.map_cons, evalCalls,
      evalCall_swapK st nf insOf a b run run' path forks mf hrel env c (hmc c (by simp))]
    have henv : ({ swapEnv a b env with
          calls := (swapEnv a b env).calls ++
            [((swapCall a b c).id, (evalCall st nf insOf run path forks env c).1,
              (evalCall st nf insOf run path forks env c).2.1)] } : Env)
        = swapEnv a b { env with
          calls := env.calls ++
            [(c.id, (evalCall st nf insOf run path forks env c).1,
              (evalCall st nf insOf run path forks env c).2.1)] } := by
      simp [swapEnv, swapCall]
    rw [henv, ← List.map_append]
    exact evalCalls_swapK st nf insOf a b run run' path forks mf hrel cs _ _ fun c' hc' => hmc c' (by simp [hc'])

/-! ## the same body below a re-keyed prefix -/

/-- one call under two callee denotations that agree up to a re-keying `ren` of the instances -/
theorem evalCall_rel (st : StructTable) (nf : Nat) (insOf : String → List Param) (run run' : Runner)
    (p p' : List String) (f f' : List (String × Idx)) (env : Env) (c : Call) (ren : Inst → Inst)
    (hopt : ∀ i : Inst, ren { i with optional := true } = { ren i with optional := true })
    (hsent : ren ⟨⟨p ++ [c.id], f⟩, .null, true, true⟩ = ⟨⟨p' ++ [c.id], f'⟩, .null, true, true⟩)
    (hU : ∀ args, run' c.callee (p' ++ [c.id]) f' args
        = ((run c.callee (p ++ [c.id]) f args).1, (run c.callee (p ++ [c.id]) f args).2.map ren))
    (hM : ∀ ix args, run' c.callee (p' ++ [c.id]) (f' ++ [(c.id, ix)]) args
        = ((run c.callee (p ++ [c.id]) (f ++ [(c.id, ix)]) args).1,
           (run c.callee (p ++ [c.id]) (f ++ [(c.id, ix)]) args).2.map ren)) :
    evalCall st nf insOf run' p' f' env c
      = ((evalCall st nf insOf run p f env c).1, (evalCall st nf insOf run p f env c).2.1,
         (evalCall st nf insOf run p f env c).2.2.map ren) := by
  unfold evalCall
  have hopt' : ∀ (l : List Inst),
      (l.map ren).map (fun i => { i with optional := true })
        = (l.map fun i => { i with optional := true }).map ren := by
    intro l; simp [hopt]
  cases hm : c.mapped with
  | false =>
    cases hd : c.disabled with
    | none => simp [hU]
    | some d =>
      obtain ⟨s, e⟩ := d
      cases s <;> simp only [hU] <;> split <;> simp
  | true =>
    have tail : ∀ (dis : J),
        (if (callIndices st env c).isEmpty = true then
          (liftTy c.callee (callMode st env c), J.dnull,
            List.map (fun i => ({ i with optional := true } : Inst))
              (run' c.callee (p' ++ [c.id]) (f' ++ [(c.id, Idx.none)])
                (mkArgs st nf (argVals st env (insOf c.callee) c) (some Idx.none))).2)
        else
          (liftTy c.callee (callMode st env c),
            collect (callMode st env c) (callIndices st env c)
              (List.map (fun x => x.1)
                (List.map (fun ix =>
                    if Martian.Dataflow.isTrue (elemAt dis ix) = true then ((J.dnull : J), ([] : List Inst))
                    else run' c.callee (p' ++ [c.id]) (f' ++ [(c.id, ix)])
                      (mkArgs st nf (argVals st env (insOf c.callee) c) (some ix)))
                  (callIndices st env c))),
            List.flatMap (fun x => x.2)
              (List.map (fun ix =>
                  if Martian.Dataflow.isTrue (elemAt dis ix) = true then ((J.dnull : J), ([] : List Inst))
                  else run' c.callee (p' ++ [c.id]) (f' ++ [(c.id, ix)])
                    (mkArgs st nf (argVals st env (insOf c.callee) c) (some ix)))
                (callIndices st env c))))
        = ((if (callIndices st env c).isEmpty = true then
            (liftTy c.callee (callMode st env c), J.dnull,
              List.map (fun i => ({ i with optional := true } : Inst))
                (run c.callee (p ++ [c.id]) (f ++ [(c.id, Idx.none)])
                  (mkArgs st nf (argVals st env (insOf c.callee) c) (some Idx.none))).2)
          else
            (liftTy c.callee (callMode st env c),
              collect (callMode st env c) (callIndices st env c)
                (List.map (fun x => x.1)
                  (List.map (fun ix =>
                      if Martian.Dataflow.isTrue (elemAt dis ix) = true then ((J.dnull : J), ([] : List Inst))
                      else run c.callee (p ++ [c.id]) (f ++ [(c.id, ix)])
                        (mkArgs st nf (argVals st env (insOf c.callee) c) (some ix)))
                    (callIndices st env c))),
              List.flatMap (fun x => x.2)
                (List.map (fun ix =>
                    if Martian.Dataflow.isTrue (elemAt dis ix) = true then ((J.dnull : J), ([] : List Inst))
                    else run c.callee (p ++ [c.id]) (f ++ [(c.id, ix)])
                      (mkArgs st nf (argVals st env (insOf c.callee) c) (some ix)))
                  (callIndices st env c)))).1,
           (if (callIndices st env c).isEmpty = true then
            (liftTy c.callee (callMode st env c), J.dnull,
              List.map (fun i => ({ i with optional := true } : Inst))
                (run c.callee (p ++ [c.id]) (f ++ [(c.id, Idx.none)])
                  (mkArgs st nf (argVals st env (insOf c.callee) c) (some Idx.none))).2)
          else
            (liftTy c.callee (callMode st env c),
              collect (callMode st env c) (callIndices st env c)
                (List.map (fun x => x.1)
                  (List.map (fun ix =>
                      if Martian.Dataflow.isTrue (elemAt dis ix) = true then ((J.dnull : J), ([] : List Inst))
                      else run c.callee (p ++ [c.id]) (f ++ [(c.id, ix)])
                        (mkArgs st nf (argVals st env (insOf c.callee) c) (some ix)))
                    (callIndices st env c))),
              List.flatMap (fun x => x.2)
                (List.map (fun ix =>
                    if Martian.Dataflow.isTrue (elemAt dis ix) = true then ((J.dnull : J), ([] : List Inst))
                    else run c.callee (p ++ [c.id]) (f ++ [(c.id, ix)])
                      (mkArgs st nf (argVals st env (insOf c.callee) c) (some ix)))
                  (callIndices st env c)))).2.1,
           ((if (callIndices st env c).isEmpty = true then
            (liftTy c.callee (callMode st env c), J.dnull,
              List.map (fun i => ({ i with optional := true } : Inst))
                (run c.callee (p ++ [c.id]) (f ++ [(c.id, Idx.none)])
                  (mkArgs st nf (argVals st env (insOf c.callee) c) (some Idx.none))).2)
          else
            (liftTy c.callee (callMode st env c),
              collect (callMode st env c) (callIndices st env c)
                (List.map (fun x => x.1)
                  (List.map (fun ix =>
                      if Martian.Dataflow.isTrue (elemAt dis ix) = true then ((J.dnull : J), ([] : List Inst))
                      else run c.callee (p ++ [c.id]) (f ++ [(c.id, ix)])
                        (mkArgs st nf (argVals st env (insOf c.callee) c) (some ix)))
                    (callIndices st env c))),
              List.flatMap (fun x => x.2)
                (List.map (fun ix =>
                    if Martian.Dataflow.isTrue (elemAt dis ix) = true then ((J.dnull : J), ([] : List Inst))
                    else run c.callee (p ++ [c.id]) (f ++ [(c.id, ix)])
                      (mkArgs st nf (argVals st env (insOf c.callee) c) (some ix)))
                  (callIndices st env c)))).2.2).map ren) := by
      intro dis
      simp only [hM, hopt']
      split
      · simp
      · simp only [List.map_map, Function.comp_def, List.flatMap_map, List.map_flatMap]
        refine Prod.ext rfl (Prod.ext ?_ ?_)
        · simp only []
          congr 1
          apply List.map_congr_left
          intro ix _
          split <;> rfl
        · simp only []
          apply flatMap_congr'
          intro ix _
          split <;> simp
    cases hd : c.disabled with
    | none =>
      simp only [Bool.not_true, Bool.false_eq_true, if_false]
      split
      · simp [hsent]
      · exact tail .null
    | some d =>
      obtain ⟨s, e⟩ := d
      cases s with
      | false =>
        simp only [Bool.not_true, Bool.false_eq_true, if_false]
        split
        · simp
        · split
          · simp [hsent]
          · exact tail .null
      | true =>
        simp only [Bool.not_true, Bool.false_eq_true, if_false]
        split
        · simp [hsent]
        · exact tail (eval st env e)

theorem evalCalls_rel (st : StructTable) (nf : Nat) (insOf : String → List Param) (run run' : Runner)
    (p p' : List String) (f f' : List (String × Idx)) (ren : Inst → Inst)
    (hopt : ∀ i : Inst, ren { i with optional := true } = { ren i with optional := true }) :
    ∀ (cs : List Call) (env : Env) (acc : List Inst),
      (∀ c ∈ cs, ren ⟨⟨p ++ [c.id], f⟩, .null, true, true⟩ = ⟨⟨p' ++ [c.id], f'⟩, .null, true, true⟩ ∧
        (∀ args, run' c.callee (p' ++ [c.id]) f' args
          = ((run c.callee (p ++ [c.id]) f args).1, (run c.callee (p ++ [c.id]) f args).2.map ren)) ∧
        (∀ ix args, run' c.callee (p' ++ [c.id]) (f' ++ [(c.id, ix)]) args
          = ((run c.callee (p ++ [c.id]) (f ++ [(c.id, ix)]) args).1,
             (run c.callee (p ++ [c.id]) (f ++ [(c.id, ix)]) args).2.map ren))) →
      evalCalls st nf insOf run' p' f' cs env (acc.map ren)
        = ((evalCalls st nf insOf run p f cs env acc).1, (evalCalls st nf insOf run p f cs env acc).2.map ren)
  | [], env, acc, _ => by simp [evalCalls]
  | c :: cs, env, acc, h => by
    obtain ⟨h1, h2, h3⟩ := h c (by simp)
    simp only [evalCalls, evalCall_rel st nf insOf run run' p p' f f' env c ren hopt h1 h2 h3]
    rw [← List.map_append]
    exact evalCalls_rel st nf insOf run run' p p' f f' ren hopt cs _ _ fun c' hc' => h c' (by simp [hc'])

end Proofs.DataflowAlias
