import Martian.ShellQuote
import Proofs.ShellQuote

/-! Word-splitting lemmas for `formatArgs` (C18). -/
namespace Martian.ShellQuote

theorem sw_nil (cur : Bytes) (w : Bool) (acc : List Bytes) :
    shWordsAux [] cur w acc = some (if w then acc ++ [cur] else acc) := by
  rw [shWordsAux.eq_def]

theorem sw_blank (b : UInt8) (r cur : Bytes) (w : Bool) (acc : List Bytes) (hb : isBlank b = true) :
    shWordsAux (b :: r) cur w acc = shWordsAux r [] false (if w then acc ++ [cur] else acc) := by
  rw [shWordsAux.eq_def]; simp [hb]

theorem sw_cont (r cur : Bytes) (w : Bool) (acc : List Bytes) :
    shWordsAux (0x5C :: 0x0A :: r) cur w acc = shWordsAux r cur w acc := by
  rw [shWordsAux.eq_def]; simp [isBlank]

theorem sw_plain (b : UInt8) (r cur : Bytes) (w : Bool) (acc : List Bytes) (hp : isPlain b = true) :
    shWordsAux (b :: r) cur w acc = shWordsAux r (cur ++ [b]) true acc := by
  have hnb : isBlank b = false := by
    cases h : isBlank b with
    | false => rfl
    | true =>
      exfalso
      simp only [isBlank, Bool.or_eq_true, beq_iff_eq] at h
      rcases h with h | h <;> subst h <;> revert hp <;> decide
  have h5c : (b == 0x5C) = false := by
    cases h : b == 0x5C with
    | false => rfl
    | true => have := eq_of_beq h; subst this; exact absurd hp (by decide)
  have h22 : (b == 0x22) = false := by
    cases h : b == 0x22 with
    | false => rfl
    | true => have := eq_of_beq h; subst this; exact absurd hp (by decide)
  rw [shWordsAux.eq_def]; simp [hnb, h5c, h22, hp]

/-- A double-quoted segment produced by `quote` is consumed as one step and
appends exactly the original bytes to the current word. -/
theorem sw_quote {tbl : EscTable} (ht : TableOK tbl = true) (s rest cur : Bytes) (w : Bool)
    (acc : List Bytes) (hv : validUtf8 s = true) (h0 : (0 : UInt8) ∉ s) :
    shWordsAux (quote tbl s ++ rest) cur w acc = shWordsAux rest (cur ++ s) true acc := by
  have hq : quote tbl s ++ rest = 0x22 :: (quoteFrom tbl s 0 ++ 0x22 :: rest) := by
    simp [quote, quoteBody]
  have hd := dqEvalBody_quoteFrom ht s 0 rest hv (by simp) h0
  rw [hq, shWordsAux.eq_def]
  simp only [isBlank]
  have hlen : rest.length < (quoteFrom tbl s 0 ++ 0x22 :: rest).length + 1 := by
    simp; omega
  have e1 : ((34 : UInt8) == 32 || (34 : UInt8) == 9) = false := by decide
  have e2 : ((34 : UInt8) == 92) = false := by decide
  have e3 : ((34 : UInt8) == 34) = true := by decide
  simp only [e1, e2, e3, Bool.false_eq_true, if_false, if_true]
  split
  · rename_i v rest' heq
    rw [hd] at heq
    injection heq with heq
    injection heq with hv' hr'
    subst hv'; subst hr'
    rw [dif_pos hlen]
  · rename_i heq; rw [hd] at heq; cases heq

theorem sw_sep (rest cur : Bytes) (acc : List Bytes) :
    shWordsAux (sep ++ rest) cur true acc = shWordsAux rest [] false (acc ++ [cur]) := by
  show shWordsAux (0x20 :: 0x5C :: 0x0A :: 0x20 :: 0x20 :: rest) cur true acc = _
  rw [sw_blank _ _ _ _ _ (by decide), sw_cont, sw_blank _ _ _ _ _ (by decide),
    sw_blank _ _ _ _ _ (by decide)]
  simp

theorem sw_plains (k rest cur : Bytes) (w : Bool) (acc : List Bytes)
    (hk : ∀ b ∈ k, isPlain b = true) (hne : k ≠ []) :
    shWordsAux (k ++ rest) cur w acc = shWordsAux rest (cur ++ k) true acc := by
  induction k generalizing cur w with
  | nil => exact absurd rfl hne
  | cons b k ih =>
    rw [List.cons_append, sw_plain b _ _ _ _ (hk b (by simp))]
    by_cases hk' : k = []
    · subst hk'; simp
    · rw [ih (cur ++ [b]) true (fun x hx => hk x (by simp [hx])) hk']
      simp

/-- One `KEY="value" \⏎  ` group. -/
theorem sw_env {tbl : EscTable} (ht : TableOK tbl = true) (k v rest : Bytes) (acc : List Bytes)
    (hk : ∀ b ∈ k, isPlain b = true) (hv : validUtf8 v = true) (h0 : (0 : UInt8) ∉ v) :
    shWordsAux (envStr tbl (k, v) ++ sep ++ rest) [] false acc
      = shWordsAux rest [] false (acc ++ [assignWord (k, v)]) := by
  have hk' : ∀ b ∈ k ++ [0x3D], isPlain b = true := by
    intro b hb
    rcases List.mem_append.mp hb with h | h
    · exact hk b h
    · simp at h; subst h; decide
  have : envStr tbl (k, v) ++ sep ++ rest = (k ++ [0x3D]) ++ (quote tbl v ++ (sep ++ rest)) := by
    simp [envStr]
  rw [this, sw_plains (k ++ [0x3D]) _ [] false acc hk' (by simp),
    sw_quote ht v (sep ++ rest) _ true acc hv h0, sw_sep]
  simp [assignWord]

theorem sw_args {tbl : EscTable} (ht : TableOK tbl = true) (argv : List Bytes) (cur : Bytes)
    (acc : List Bytes) (hv : ∀ a ∈ argv, validUtf8 a = true ∧ (0 : UInt8) ∉ a) :
    shWordsAux ((argv.map fun a => sep ++ quote tbl a).flatten) cur true acc
      = some (acc ++ [cur] ++ argv) := by
  induction argv generalizing cur acc with
  | nil => simp [sw_nil]
  | cons a as ih =>
    have ha := hv a (by simp)
    simp only [List.map_cons, List.flatten_cons, List.append_assoc]
    rw [sw_sep, sw_quote ht a _ [] false _ ha.1 ha.2]
    rw [ih ([] ++ a) (acc ++ [cur]) (fun x hx => hv x (by simp [hx]))]
    simp

theorem sw_envs {tbl : EscTable} (ht : TableOK tbl = true) (envs : List (Bytes × Bytes))
    (tail : Bytes) (acc : List Bytes)
    (hk : ∀ kv ∈ envs, (∀ b ∈ kv.1, isPlain b = true) ∧ validUtf8 kv.2 = true ∧ (0 : UInt8) ∉ kv.2) :
    shWordsAux ((envs.map fun kv => envStr tbl kv ++ sep).flatten ++ tail) [] false acc
      = shWordsAux tail [] false (acc ++ envs.map assignWord) := by
  induction envs generalizing acc with
  | nil => simp
  | cons kv es ih =>
    obtain ⟨k, v⟩ := kv
    have h := hk (k, v) (by simp)
    simp only [List.map_cons, List.flatten_cons, List.append_assoc]
    have := sw_env ht k v ((es.map fun kv => envStr tbl kv ++ sep).flatten ++ tail) acc h.1 h.2.1 h.2.2
    simp only [List.append_assoc] at this
    rw [this, ih (acc ++ [assignWord (k, v)]) (fun x hx => hk x (by simp [hx]))]
    simp

end Martian.ShellQuote
