/-
Lemmas for Martian/TypingStrict.lean: completeness of `validExp` outside the
enumerated over-strict classes.  Core Lean only.
-/
import Martian.TypingStrict
import Proofs.Typing

namespace Martian.Typing
open Martian.Json Martian.Types

theorem evalL_mem (Γ : Env) (ρ : Store) : ∀ (xs : Exps) (vs : List J),
    evalL Γ ρ xs = some vs → ∀ x ∈ xs.toList, ∃ v ∈ vs, eval Γ ρ x = some v
  | .nil, vs, _, x, hx => by cases hx
  | .cons e r, vs, h, x, hx => by
    simp only [evalL] at h
    cases hv : eval Γ ρ e with
    | none => simp [hv] at h
    | some v =>
      cases hr : evalL Γ ρ r with
      | none => simp [hv, hr] at h
      | some ws =>
        simp [hv, hr] at h
        subst h
        simp only [Exps.toList, List.mem_cons] at hx
        rcases hx with rfl | hx
        · exact ⟨v, List.mem_cons_self, hv⟩
        · obtain ⟨w, hw, hew⟩ := evalL_mem Γ ρ r ws hr x hx
          exact ⟨w, List.mem_cons_of_mem _ hw, hew⟩

theorem evalKV_mem' (Γ : Env) (ρ : Store) : ∀ (kvs : KVs) (vs : List (Bytes × J)),
    evalKV Γ ρ kvs = some vs → ∀ kv ∈ kvs.toList, ∃ v, (kv.1, v) ∈ vs ∧ eval Γ ρ kv.2 = some v
  | .nil, vs, _, kv, hx => by cases hx
  | .cons k e r, vs, h, kv, hx => by
    simp only [evalKV] at h
    cases hv : eval Γ ρ e with
    | none => simp [hv] at h
    | some v =>
      cases hr : evalKV Γ ρ r with
      | none => simp [hv, hr] at h
      | some ws =>
        simp [hv, hr] at h
        subst h
        simp only [KVs.toList, List.mem_cons] at hx
        rcases hx with rfl | hx
        · exact ⟨v, List.mem_cons_self, hv⟩
        · obtain ⟨w, hw, hew⟩ := evalKV_mem' Γ ρ r ws hr kv hx
          exact ⟨w, List.mem_cons_of_mem _ hw, hew⟩

theorem overStrictFields_false (Γ : Env) : ∀ (fs : Fields) (kvs : KVs),
    overStrictFields Γ fs kvs = false →
      ∀ k t, (k, t) ∈ fs.toList → ∀ e, kvs.get k = some e → overStrict Γ t e = false
  | .nil, kvs, _, k, t, h, _, _ => by cases h
  | .cons k' t' r, kvs, h, k, t, hm, e, he => by
    simp only [overStrictFields, Bool.or_eq_false_iff] at h
    simp only [Fields.toList, List.mem_cons, Prod.mk.injEq] at hm
    rcases hm with ⟨rfl, rfl⟩ | hm
    · simpa [he] using h.1
    · exact overStrictFields_false Γ r kvs h.2 k t hm e he

theorem valid_arr_mem {t : Ty} {vs : List J} (h : valid (.arr t) (.arr vs) = true) :
    ∀ v ∈ vs, valid t v = true := by
  intro v hv
  simp only [valid, check, beq_iff_eq, worst_eq_ok, List.mem_map, forall_exists_index, and_imp,
    forall_apply_eq_imp_iff₂] at h
  simpa [valid] using h v hv

theorem valid_tmap_mem {t : Ty} {kvs : List (Bytes × J)} (h : valid (.tmap t) (.obj kvs) = true) :
    ∀ kv ∈ kvs, valid t kv.2 = true ∧ (isDirMap t = true → legalName kv.1 = true) := by
  intro kv hkv
  simp only [valid, check, beq_iff_eq, worst_eq_ok, List.mem_map, forall_exists_index, and_imp,
    forall_apply_eq_imp_iff₂, Verdict.max_eq_ok] at h
  have := h kv hkv
  refine ⟨by simpa [valid] using this.1, ?_⟩
  intro hd
  have h2 := this.2
  simp only [hd, Bool.true_and] at h2
  cases hl : legalName kv.1 with
  | true => rfl
  | false => simp [hl] at h2

/-- Outside the over-strict classes `validExp` is complete: an expression whose
value validates cleanly against `t` is accepted for `t`. -/
theorem validExp_complete (Γ : Env) (ρ : Store) (t : Ty) :
    ∀ (e : Exp) (v : J), overStrict Γ t e = false → eval Γ ρ e = some v → valid t v = true →
      validExp Γ t e = true := by
  induction t using Ty.induct' with
  | base b =>
    intro e v hos hev hv
    cases e with
    | null => simp [validExp, validBase]
    | int i =>
      simp only [eval, Option.some.injEq] at hev; subst hev
      cases b <;> simp [valid, check, checkBase] at hv <;> simp [validExp, validBase]
    | float m x =>
      simp only [eval, Option.some.injEq] at hev; subst hev
      simp only [validExp, validBase, floatIsInt64]
      simp only [litFloat] at hv
      cases hi : (Num.flt m x).intValue? with
      | none =>
        simp only [hi] at hv
        cases b <;> simp [valid, check, checkBase] at hv <;> simp
      | some i =>
        simp only [hi] at hv
        by_cases h64 : Num.inInt64 i = true
        · simp only [h64, if_true] at hv
          cases b <;> simp [valid, check, checkBase] at hv <;> simp [h64]
        · simp only [h64] at hv
          cases b <;> simp [valid, check, checkBase] at hv <;> simp
    | str s =>
      simp only [eval, Option.some.injEq] at hev; subst hev
      cases b <;> simp [valid, check, checkBase] at hv <;> simp [validExp, validBase]
    | bool x =>
      simp only [eval, Option.some.injEq] at hev; subst hev
      cases b <;> simp [valid, check, checkBase] at hv <;> simp [validExp, validBase]
    | arr xs =>
      simp only [eval, Option.map_eq_some_iff] at hev
      obtain ⟨vs, _, rfl⟩ := hev
      cases b <;> simp [valid, check, checkBase] at hv
    | map isStruct kvs =>
      simp only [eval, Option.map_eq_some_iff] at hev
      obtain ⟨vs, _, rfl⟩ := hev
      simp only [overStrict] at hos
      cases b <;> simp [valid, check, checkBase] at hv
      simp only [validExp, validBase]
      simpa using hos
    | self id p => simpa [overStrict, validExp, validBase] using hos
    | call id p => simpa [overStrict, validExp, validBase] using hos
  | user n =>
    intro e v hos hev hv
    cases e with
    | null => simp [validExp]
    | str s => simp [validExp]
    | int i =>
      simp only [eval, Option.some.injEq] at hev; subst hev
      simp [valid, check] at hv
    | float m x =>
      simp only [eval, Option.some.injEq] at hev; subst hev
      simp [valid, check] at hv
    | bool x =>
      simp only [eval, Option.some.injEq] at hev; subst hev
      simp [valid, check] at hv
    | arr xs =>
      simp only [eval, Option.map_eq_some_iff] at hev
      obtain ⟨vs, _, rfl⟩ := hev
      simp [valid, check] at hv
    | map isStruct kvs =>
      simp only [eval, Option.map_eq_some_iff] at hev
      obtain ⟨vs, _, rfl⟩ := hev
      simp [valid, check] at hv
    | self id p => simpa [overStrict, validExp] using hos
    | call id p => simpa [overStrict, validExp] using hos
  | arr t ih =>
    intro e v hos hev hv
    cases e with
    | null => simp [validExp]
    | arr xs =>
      simp only [eval, Option.map_eq_some_iff] at hev
      obtain ⟨vs, hvs, rfl⟩ := hev
      simp only [overStrict, List.any_eq_false] at hos
      simp only [validExp, List.all_eq_true]
      intro x hx
      obtain ⟨w, hw, hew⟩ := evalL_mem Γ ρ xs vs hvs x hx
      exact ih x w (by simpa using hos x hx) hew (valid_arr_mem hv w hw)
    | int i =>
      simp only [eval, Option.some.injEq] at hev; subst hev
      simp [valid, check] at hv
    | float m x =>
      simp only [eval, Option.some.injEq] at hev; subst hev
      simp [valid, check] at hv
    | str s =>
      simp only [eval, Option.some.injEq] at hev; subst hev
      simp [valid, check] at hv
    | bool x =>
      simp only [eval, Option.some.injEq] at hev; subst hev
      simp [valid, check] at hv
    | map isStruct kvs =>
      simp only [eval, Option.map_eq_some_iff] at hev
      obtain ⟨vs, _, rfl⟩ := hev
      simp [valid, check] at hv
    | self id p => simpa [overStrict, validExp] using hos
    | call id p => simpa [overStrict, validExp] using hos
  | tmap t ih =>
    intro e v hos hev hv
    cases e with
    | null => simp [validExp]
    | map isStruct kvs =>
      simp only [eval, Option.map_eq_some_iff] at hev
      obtain ⟨vs, hvs, rfl⟩ := hev
      cases isStruct with
      | true => simp [overStrict] at hos
      | false =>
        simp only [overStrict, List.any_eq_false] at hos
        simp only [validExp, List.all_eq_true, Bool.and_eq_true, Bool.or_eq_true, Bool.not_eq_true']
        intro kv hkv
        obtain ⟨w, hw, hew⟩ := evalKV_mem' Γ ρ kvs vs hvs kv hkv
        have hm := valid_tmap_mem hv (kv.1, w) hw
        refine ⟨ih kv.2 w (by simpa using hos kv hkv) hew hm.1, ?_⟩
        cases hd : isDirMap t with
        | false => exact Or.inl rfl
        | true => exact Or.inr (hm.2 hd)
    | int i =>
      simp only [eval, Option.some.injEq] at hev; subst hev
      simp [valid, check] at hv
    | float m x =>
      simp only [eval, Option.some.injEq] at hev; subst hev
      simp [valid, check] at hv
    | str s =>
      simp only [eval, Option.some.injEq] at hev; subst hev
      simp [valid, check] at hv
    | bool x =>
      simp only [eval, Option.some.injEq] at hev; subst hev
      simp [valid, check] at hv
    | arr xs =>
      simp only [eval, Option.map_eq_some_iff] at hev
      obtain ⟨vs, _, rfl⟩ := hev
      simp [valid, check] at hv
    | self id p => simpa [overStrict, validExp] using hos
    | call id p => simpa [overStrict, validExp] using hos
  | struct n fs ih =>
    intro e v hos hev hv
    cases e with
    | null => simp [validExp]
    | map isStruct kvs =>
      simp only [eval, Option.map_eq_some_iff] at hev
      obtain ⟨vs, hvs, rfl⟩ := hev
      simp only [overStrict, Bool.or_eq_false_iff] at hos
      simp only [validExp, Bool.and_eq_true, Bool.not_eq_true']
      refine ⟨?_, hos.1⟩
      rw [validFields_iff]
      intro k t hkt
      simp only [valid, check, beq_iff_eq, checkFields_ok_iff] at hv
      obtain ⟨w, hgw, hcw⟩ := hv k t hkt
      have hg := getKey_evalKV Γ ρ k kvs vs hvs
      cases hk : kvs.get k with
      | none => simp [hk, hgw] at hg
      | some e =>
        simp only [hk] at hg
        obtain ⟨w', hew', hgw'⟩ := hg
        rw [hgw] at hgw'
        cases hgw'
        exact ⟨e, rfl, ih k t hkt e w (overStrictFields_false Γ fs kvs hos.2 k t hkt e hk) hew'
          (by simpa [valid] using hcw)⟩
    | int i =>
      simp only [eval, Option.some.injEq] at hev; subst hev
      simp [valid, check] at hv
    | float m x =>
      simp only [eval, Option.some.injEq] at hev; subst hev
      simp [valid, check] at hv
    | str s =>
      simp only [eval, Option.some.injEq] at hev; subst hev
      simp [valid, check] at hv
    | bool x =>
      simp only [eval, Option.some.injEq] at hev; subst hev
      simp [valid, check] at hv
    | arr xs =>
      simp only [eval, Option.map_eq_some_iff] at hev
      obtain ⟨vs, _, rfl⟩ := hev
      simp [valid, check] at hv
    | self id p => simpa [overStrict, validExp] using hos
    | call id p => simpa [overStrict, validExp] using hos

end Martian.Typing
