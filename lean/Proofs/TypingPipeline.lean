/-
Lemmas for Martian/TypingPipeline.lean (wildcard bindings, modifiers, retain
lists, pipelines).  Core Lean only.
-/
import Martian.TypingPipeline
import Proofs.Typing

namespace Martian.Typing
open Martian.Json Martian.Types

/-! ### `eraseDups` and `Nodup` -/

theorem eraseDups_length_le : ∀ (l : List Bytes), l.eraseDups.length ≤ l.length
  | [] => by simp
  | a :: as => by
    rw [List.eraseDups_cons]
    have h1 := eraseDups_length_le (as.filter fun b => !b == a)
    have h2 := List.length_filter_le (fun b => !b == a) as
    simp only [List.length_cons]
    omega
termination_by l => l.length
decreasing_by
  simp only [List.length_cons]
  have := List.length_filter_le (fun b => !b == a) as
  omega

theorem nodup_of_eraseDups_length : ∀ (l : List Bytes), l.eraseDups.length = l.length → l.Nodup
  | [], _ => List.nodup_nil
  | a :: as, h => by
    rw [List.eraseDups_cons] at h
    have h1 := eraseDups_length_le (as.filter fun b => !b == a)
    have h2 := List.length_filter_le (fun b => !b == a) as
    simp only [List.length_cons] at h
    have h3 : (as.filter fun b => !b == a).length = as.length := by omega
    have h4 : (as.filter fun b => !b == a).eraseDups.length = (as.filter fun b => !b == a).length := by omega
    have hall := List.length_filter_eq_length_iff.mp h3
    have hself : (as.filter fun b => !b == a) = as := List.filter_eq_self.mpr hall
    have ih := nodup_of_eraseDups_length (as.filter fun b => !b == a) h4
    rw [hself] at ih
    refine List.nodup_cons.mpr ⟨?_, ih⟩
    intro hm
    have := hall a hm
    simp at this
termination_by l => l.length
decreasing_by
  simp only [List.length_cons]
  have := List.length_filter_le (fun b => !b == a) as
  omega

/-- the bindings of an accepted call have pairwise distinct names -/
theorem checkCall_nodup (Γ : Env) (params : List (Bytes × Ty)) (binds : List (Bytes × Bind))
    (h : validCall Γ params binds = true) : (binds.map Prod.fst).Nodup := by
  simp only [validCall, checkCall] at h
  split at h
  · rename_i hc
    simp only [Bool.and_eq_true, beq_iff_eq] at hc
    exact nodup_of_eraseDups_length _ (by simpa using hc.1.2)
  · simp at h

/-! ### wildcards -/

theorem mem_expandWild (Γ : Env) (params : List (Bytes × Ty)) (w : Wild) (ex : List (Bytes × Bind))
    (h : expandWild Γ params w = some ex) (x : Bytes) (b : Bind) :
    (x, b) ∈ ex ↔ ∃ ms e, wildMembers Γ w = some ms ∧ (x, e) ∈ ms ∧
      (params.lookup x).isSome = true ∧ b = .plain e := by
  simp only [expandWild] at h
  cases hm : wildMembers Γ w with
  | none => simp [hm] at h
  | some ms =>
    simp only [hm, Option.some.injEq] at h
    subst h
    simp only [List.mem_map, List.mem_filter, Prod.mk.injEq, Prod.exists]
    constructor
    · rintro ⟨k, e, ⟨hke, hp⟩, rfl, rfl⟩
      exact ⟨ms, e, rfl, hke, hp, rfl⟩
    · rintro ⟨ms', e, hms, hke, hp, rfl⟩
      cases hms
      exact ⟨x, e, ⟨hke, hp⟩, rfl, rfl⟩

/-! ### references as bindings -/

theorem holeFree_self (Γ : Env) (t : Ty) (id : Bytes) (p : List Bytes) :
    holeFree Γ t (.self id p) = refHoleFree Γ t (.self id p) := by
  cases t <;> simp [holeFree]

theorem holeFree_call (Γ : Env) (t : Ty) (id : Bytes) (p : List Bytes) :
    holeFree Γ t (.call id p) = refHoleFree Γ t (.call id p) := by
  cases t <;> simp [holeFree]

theorem Exp.wf_call (id : Bytes) (p : List Bytes) : (Exp.call id p).wf = true := by simp [Exp.wf]

/-- a plain binding, valid directly or through the `x = CALL.default` rewrite,
delivers a conforming value -/
theorem plain_sound (Γ : Env) (ρ : Store) (hρ : StoreOk Γ ρ) (t : Ty) (ht : t.wf = true) (e : Exp)
    (he : e.wf = true) (hv : validBind Γ t (.plain e) = true)
    (hh : holeFree Γ t (bindExp Γ t e) = true) :
    ∃ v, eval Γ ρ (bindExp Γ t e) = some v ∧ valid t (filter t v).1 = true := by
  simp only [validBind, Bool.or_eq_true] at hv
  by_cases hve : validExp Γ t e = true
  · have hb : bindExp Γ t e = e := by
      cases e with
      | call id p => cases p <;> simp [bindExp, hve]
      | _ => simp [bindExp]
    rw [hb] at hh ⊢
    exact validExp_sound Γ ρ hρ t ht e he hve hh
  · have hd : defaultRewrite Γ t e = true := by
      rcases hv with h | h
      · exact absurd h hve
      · exact h
    cases e with
    | call id p =>
      cases p with
      | nil =>
        have hb : bindExp Γ t (.call id []) = .call id [defaultName] := by simp [bindExp, hve]
        rw [hb] at hh ⊢
        rw [holeFree_call] at hh
        simp only [defaultRewrite, Bool.and_eq_true] at hd
        simp only [refHoleFree] at hh
        cases hr : refType Γ (.call id [defaultName]) with
        | none => simp [hr] at hd
        | some s =>
          simp only [hr, Bool.and_eq_true] at hd hh
          obtain ⟨v, hev, hs⟩ := ref_shape Γ ρ hρ _ s hr
          exact ⟨v, hev, valid_of_shape _ _ (shape_filter_of_assignable t ht s v hs hd.2.2 hh)⟩
      | cons o p => simp [defaultRewrite] at hd
    | _ => simp [defaultRewrite] at hd

/-- every element a binding hands to the callee conforms to the parameter type -/
theorem bind_sound (Γ : Env) (ρ : Store) (hρ : StoreOk Γ ρ) (t : Ty) (ht : t.wf = true) (b : Bind)
    (hb : b.wf = true) (hv : validBind Γ t b = true) (hh : bindHoleFree Γ t b = true) :
    ∃ vs, delivered Γ ρ t b = some vs ∧ ∀ v ∈ vs, valid t (filter t v).1 = true := by
  cases b with
  | plain e =>
    obtain ⟨v, hev, hval⟩ := plain_sound Γ ρ hρ t ht e hb hv hh
    exact ⟨[v], by simp [delivered, hev], by simpa using hval⟩
  | split e =>
    cases e with
    | arr xs =>
      simp only [validBind, Bool.and_eq_true, List.all_eq_true] at hv
      simp only [bindHoleFree, List.all_eq_true] at hh
      simp only [Bind.wf, Exp.wf] at hb
      obtain ⟨vs, hvs, hall⟩ := evalL_spec Γ ρ (fun v => valid t (filter t v).1 = true) xs
        (fun x hx => validExp_sound Γ ρ hρ t ht x (Exps.wf_mem hb x hx) (hv.2 x hx) (hh x hx))
      exact ⟨vs, by simp [delivered, eval, hvs, elems], hall⟩
    | map isStruct kvs =>
      cases isStruct with
      | true => simp [validBind] at hv
      | false =>
        simp only [validBind, Bool.and_eq_true, List.all_eq_true] at hv
        simp only [bindHoleFree, List.all_eq_true] at hh
        simp only [Bind.wf, Exp.wf, Bool.and_eq_true] at hb
        have hev : ∀ kv ∈ kvs.toList, ∃ v, eval Γ ρ kv.2 = some v ∧ valid t (filter t v).1 = true :=
          fun kv hkv => validExp_sound Γ ρ hρ t ht kv.2 (KVs.wf_mem hb.1 kv hkv) (hv.2 kv hkv) (hh kv hkv)
        obtain ⟨vs, hvs⟩ := evalKV_some Γ ρ kvs (fun kv hkv => by
          obtain ⟨v, h1, _⟩ := hev kv hkv; exact ⟨v, h1⟩)
        refine ⟨vs.map Prod.snd, by simp [delivered, eval, hvs, elems], ?_⟩
        intro v hvm
        obtain ⟨kv, hkv, rfl⟩ := List.mem_map.mp hvm
        obtain ⟨e, hme, hee⟩ := evalKV_mem Γ ρ kvs vs hvs kv hkv
        obtain ⟨w, h1, h2⟩ := hev (kv.1, e) hme
        simp only at h1
        rw [hee] at h1
        cases h1
        exact h2
    | self id p =>
      simp only [validBind] at hv
      simp only [bindHoleFree] at hh
      cases hr : refType Γ (.self id p) with
      | none => simp [hr] at hv
      | some s =>
        simp only [hr] at hv hh
        cases hp : peel s with
        | none => simp [hp] at hv
        | some s' =>
          simp only [hp] at hv hh
          obtain ⟨v, hev, hs⟩ := ref_shape Γ ρ hρ _ s hr
          cases s with
          | arr s0 =>
            simp only [peel, Option.some.injEq] at hp
            subst hp
            cases hs with
            | null => exact ⟨[], by simp [delivered, hev, elems], by simp⟩
            | arr _ xs hx =>
              exact ⟨xs, by simp [delivered, hev, elems], fun x hxm =>
                valid_of_shape _ _ (shape_filter_of_assignable t ht s0 x (hx x hxm) hv hh)⟩
          | tmap s0 =>
            simp only [peel, Option.some.injEq] at hp
            subst hp
            cases hs with
            | null => exact ⟨[], by simp [delivered, hev, elems], by simp⟩
            | tmap _ kvs h1 _ =>
              refine ⟨kvs.map Prod.snd, by simp [delivered, hev, elems], ?_⟩
              intro x hxm
              obtain ⟨kv, hkv, rfl⟩ := List.mem_map.mp hxm
              exact valid_of_shape _ _ (shape_filter_of_assignable t ht s0 kv.2 (h1 kv hkv) hv hh)
          | _ => simp [peel] at hp
    | call id p =>
      simp only [validBind] at hv
      simp only [bindHoleFree] at hh
      cases hr : refType Γ (.call id p) with
      | none => simp [hr] at hv
      | some s =>
        simp only [hr] at hv hh
        cases hp : peel s with
        | none => simp [hp] at hv
        | some s' =>
          simp only [hp] at hv hh
          obtain ⟨v, hev, hs⟩ := ref_shape Γ ρ hρ _ s hr
          cases s with
          | arr s0 =>
            simp only [peel, Option.some.injEq] at hp
            subst hp
            cases hs with
            | null => exact ⟨[], by simp [delivered, hev, elems], by simp⟩
            | arr _ xs hx =>
              exact ⟨xs, by simp [delivered, hev, elems], fun x hxm =>
                valid_of_shape _ _ (shape_filter_of_assignable t ht s0 x (hx x hxm) hv hh)⟩
          | tmap s0 =>
            simp only [peel, Option.some.injEq] at hp
            subst hp
            cases hs with
            | null => exact ⟨[], by simp [delivered, hev, elems], by simp⟩
            | tmap _ kvs h1 _ =>
              refine ⟨kvs.map Prod.snd, by simp [delivered, hev, elems], ?_⟩
              intro x hxm
              obtain ⟨kv, hkv, rfl⟩ := List.mem_map.mp hxm
              exact valid_of_shape _ _ (shape_filter_of_assignable t ht s0 kv.2 (h1 kv hkv) hv hh)
          | _ => simp [peel] at hp
    | _ => simp [validBind] at hv

end Martian.Typing

namespace Martian.Typing
open Martian.Json Martian.Types

/-! ### modifiers -/

theorem ite_nil_iff {α : Type} (c : Bool) (x : α) : (if c = true then [x] else []) = [] ↔ c = false := by
  cases c <;> simp

theorem modErrs_nil_iff (Γ : Env) (callee : Callee) (binds : List (Bytes × Bind)) (w : Option Wild)
    (m : Mods) :
    modErrs Γ callee binds w m = [] ↔
      ((m.usings.map ModItem.tag).eraseDups.length = (m.usings.map ModItem.tag).length ∧
       (∀ e, usingDisabled m.usings = some e → validBind Γ (.base .bool) (.plain e) = true) ∧
       (m.kwVolatile && (usingVal 2 m.usings).isSome) = false ∧
       (m.kwLocal && (usingVal 0 m.usings).isSome) = false ∧
       (m.kwPreflight && (usingVal 1 m.usings).isSome) = false ∧
       (!callee.isStage && (effective m.kwLocal (usingVal 0 m.usings) ||
          effective m.kwPreflight (usingVal 1 m.usings) ||
          effective m.kwVolatile (usingVal 2 m.usings))) = false ∧
       (effective m.kwPreflight (usingVal 1 m.usings) &&
          (binds.any (fun ib => bindIsCallRef ib.2) || wildIsCallRef w ||
            (match usingDisabled m.usings with | some e => isCallRef e | none => false))) = false ∧
       (effective m.kwPreflight (usingVal 1 m.usings) && !callee.outs.toList.isEmpty) = false) := by
  simp only [modErrs]
  by_cases h1 : ((m.usings.map ModItem.tag).eraseDups.length != (m.usings.map ModItem.tag).length) = true
  · simp only [h1, if_true]
    simp only [bne_iff_ne, ne_eq] at h1
    constructor
    · intro h; cases h
    · rintro ⟨h, _⟩; exact absurd h h1
  · simp only [h1]
    have h1' : (m.usings.map ModItem.tag).eraseDups.length = (m.usings.map ModItem.tag).length := by
      simpa using h1
    cases hd : usingDisabled m.usings with
    | none =>
      simp only [Bool.false_eq_true, if_false, List.append_eq_nil_iff, ite_nil_iff, h1', true_and,
        reduceCtorEq, false_implies, implies_true]
      simp [and_assoc]
    | some e =>
      by_cases h2 : validBind Γ (.base .bool) (.plain e) = true
      · simp only [h2, Bool.not_true, Bool.false_eq_true, if_false, List.append_eq_nil_iff, ite_nil_iff,
          h1', true_and, Option.some.injEq, forall_eq']
        simp [and_assoc]
      · have h2' : validBind Γ (.base .bool) (.plain e) = false := by simpa using h2
        simp [h2']

end Martian.Typing

namespace Martian.Typing
open Martian.Json Martian.Types

/-! ### return bindings -/

theorem lookup_of_mem_nodup {α : Type} : ∀ {l : List (Bytes × α)} {k : Bytes} {v : α},
    (l.map Prod.fst).Nodup → (k, v) ∈ l → l.lookup k = some v
  | [], _, _, _, h => by cases h
  | (k', v') :: r, k, v, hn, h => by
    simp only [List.map_cons, List.nodup_cons] at hn
    simp only [List.mem_cons, Prod.mk.injEq] at h
    simp only [List.lookup]
    rcases h with ⟨rfl, rfl⟩ | h
    · simp
    · have hne : k ≠ k' := by
        rintro rfl
        exact hn.1 (List.mem_map.mpr ⟨(k, v), h, rfl⟩)
      have : (k == k') = false := by simpa using hne
      simp only [this]
      exact lookup_of_mem_nodup hn.2 h

theorem retValue_sound (Γ : Env) (ρ : Store) (hρ : StoreOk Γ ρ) (bs : List (Bytes × Bind)) :
    ∀ (fs : Fields),
      (∀ k t, (k, t) ∈ fs.toList → t.wf = true ∧ ∃ e, bs.lookup k = some (.plain e) ∧ e.wf = true ∧
          validBind Γ t (.plain e) = true ∧ holeFree Γ t (bindExp Γ t e) = true) →
      ∃ vs, retValue Γ ρ bs fs = some vs ∧ vs.map Prod.fst = fs.toList.map Prod.fst ∧
        ∀ k t, (k, t) ∈ fs.toList → ∃ v, (k, v) ∈ vs ∧ valid t v = true
  | .nil, _ => ⟨[], by simp [retValue], by simp [Fields.toList], by simp [Fields.toList]⟩
  | .cons k t r, h => by
    obtain ⟨htw, e, hl, hew, hvb, hhf⟩ := h k t (by simp [Fields.toList])
    obtain ⟨v, hev, hval⟩ := plain_sound Γ ρ hρ t htw e hew hvb hhf
    obtain ⟨vs, hvs, hkeys, hall⟩ := retValue_sound Γ ρ hρ bs r
      (fun k' t' hm => h k' t' (by simp [Fields.toList, hm]))
    refine ⟨(k, (filter t v).1) :: vs, by simp [retValue, hl, hev, hvs], by simp [Fields.toList, hkeys], ?_⟩
    intro k' t' hm
    simp only [Fields.toList, List.mem_cons, Prod.mk.injEq] at hm
    rcases hm with ⟨rfl, rfl⟩ | hm
    · exact ⟨_, List.mem_cons_self, hval⟩
    · obtain ⟨w, hw, hvw⟩ := hall k' t' hm
      exact ⟨w, List.mem_cons_of_mem _ hw, hvw⟩

end Martian.Typing

namespace Martian.Typing
open Martian.Json Martian.Types

/-! ### the empty environment (top-level call) -/

theorem refType_emptyEnv (e : Exp) : refType emptyEnv e = none := by
  cases e <;> simp [refType, emptyEnv]

theorem refHoleFree_emptyEnv (t : Ty) (e : Exp) : refHoleFree emptyEnv t e = true := by
  simp [refHoleFree, refType_emptyEnv]

theorem holeFree_emptyEnv (t : Ty) : ∀ (e : Exp), holeFree emptyEnv t e = true := by
  induction t using Ty.induct' with
  | base b => intro e; simp [holeFree, refHoleFree_emptyEnv]
  | user n => intro e; simp [holeFree, refHoleFree_emptyEnv]
  | arr t ih =>
    intro e
    cases e <;> simp [holeFree, refHoleFree_emptyEnv, List.all_eq_true]
    intro x _; exact ih x
  | tmap t ih =>
    intro e
    cases e <;> simp [holeFree, refHoleFree_emptyEnv, List.all_eq_true]
    intro a b _; exact ih b
  | struct n fs ih =>
    intro e
    cases e <;> simp [holeFree, refHoleFree_emptyEnv]
    rw [holeFreeFields_iff]
    intro k t hkt e' _
    exact ih k t hkt e'

theorem bindHoleFree_emptyEnv (t : Ty) (b : Bind) : bindHoleFree emptyEnv t b = true := by
  cases b with
  | plain e => simp [bindHoleFree, holeFree_emptyEnv]
  | split e =>
    cases e <;> simp [bindHoleFree, refType_emptyEnv, List.all_eq_true, holeFree_emptyEnv]

end Martian.Typing
