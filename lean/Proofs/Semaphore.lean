import Martian.Semaphore

/-! Helper lemmas for C12 (ResourceSemaphore / MaxJobsSemaphore / GetSystemReqs). -/
namespace Martian.Semaphore

/-! ### lists of events -/

@[simp] theorem grantsOf_nil : grantsOf [] = [] := rfl

theorem grantsOf_append (a b : List Ev) : grantsOf (a ++ b) = grantsOf a ++ grantsOf b := by
  induction a with
  | nil => rfl
  | cons e es ih => cases e <;> simp [grantsOf, ih]

@[simp] theorem grantsOf_map_grantEv (l : List Waiter) : grantsOf (l.map grantEv) = l := by
  induction l with
  | nil => rfl
  | cons w ws ih => simp [grantEv, grantsOf, ih]

@[simp] theorem grantsOf_ret (v : Int) : grantsOf [Ev.ret v] = [] := rfl
@[simp] theorem grantsOf_panic : grantsOf [Ev.panic] = [] := rfl
@[simp] theorem grantsOf_reject (i : Nat) (n : Int) : grantsOf [Ev.reject i n] = [] := rfl
@[simp] theorem grantsOf_grant (i : Nat) (n : Int) : grantsOf [Ev.grant i n] = [(i, n)] := rfl

theorem hasPanic_append (a b : List Ev) : hasPanic (a ++ b) = (hasPanic a || hasPanic b) := by
  induction a with
  | nil => rfl
  | cons e es ih => cases e <;> simp [hasPanic, ih]

@[simp] theorem hasPanic_map_grantEv (l : List Waiter) : hasPanic (l.map grantEv) = false := by
  induction l with
  | nil => rfl
  | cons w ws ih => simp [grantEv, hasPanic, ih]

theorem sumAmt_append (a b : List Waiter) : sumAmt (a ++ b) = sumAmt a + sumAmt b := by
  induction a with
  | nil => simp [sumAmt]
  | cons w ws ih => simp [sumAmt, ih]; omega

theorem sumAmt_nonneg (l : List Waiter) (h : ∀ w ∈ l, 0 ≤ w.2) : 0 ≤ sumAmt l := by
  induction l with
  | nil => simp [sumAmt]
  | cons w ws ih =>
    have h1 := h w (by simp)
    have h2 := ih (fun x hx => h x (by simp [hx]))
    simp [sumAmt]; omega

/-! ### runJobs -/

theorem runJobs_cons_lt {cur res : Int} {w : Waiter} (ws : List Waiter) (h : cur - res < w.2) :
    runJobs cur res (w :: ws) = (res, w :: ws, []) := by
  simp [runJobs, h]

theorem runJobs_cons_ge {cur res : Int} {w : Waiter} (ws : List Waiter) (h : ¬ cur - res < w.2) :
    runJobs cur res (w :: ws) =
      ((runJobs cur (res + w.2) ws).1, (runJobs cur (res + w.2) ws).2.1,
        w :: (runJobs cur (res + w.2) ws).2.2) := by
  simp [runJobs, h]

theorem runJobs_split (cur : Int) (ws : List Waiter) (res : Int) :
    (runJobs cur res ws).2.2 ++ (runJobs cur res ws).2.1 = ws := by
  induction ws generalizing res with
  | nil => simp [runJobs]
  | cons w ws ih =>
    by_cases h : cur - res < w.2
    · rw [runJobs_cons_lt ws h]; simp
    · rw [runJobs_cons_ge ws h]; simp [ih]

theorem runJobs_reserved (cur : Int) (ws : List Waiter) (res : Int) :
    (runJobs cur res ws).1 = res + sumAmt (runJobs cur res ws).2.2 := by
  induction ws generalizing res with
  | nil => simp [runJobs, sumAmt]
  | cons w ws ih =>
    by_cases h : cur - res < w.2
    · rw [runJobs_cons_lt ws h]; simp [sumAmt]
    · rw [runJobs_cons_ge ws h]; simp [sumAmt, ih (res + w.2)]; omega

/-- after `runJobs` the queue is empty or its head does not fit -/
theorem runJobs_head (cur : Int) (ws : List Waiter) (res : Int) :
    match (runJobs cur res ws).2.1 with
    | [] => True
    | w :: _ => cur - (runJobs cur res ws).1 < w.2 := by
  induction ws generalizing res with
  | nil => simp [runJobs]
  | cons w ws ih =>
    by_cases h : cur - res < w.2
    · rw [runJobs_cons_lt ws h]; simpa using h
    · rw [runJobs_cons_ge ws h]; exact ih (res + w.2)

/-- if anything was granted, the reservation fits the availability afterwards -/
theorem runJobs_fits (cur : Int) (ws : List Waiter) (res : Int)
    (h : (runJobs cur res ws).2.2 ≠ []) : (runJobs cur res ws).1 ≤ cur := by
  induction ws generalizing res with
  | nil => simp [runJobs] at h
  | cons w ws ih =>
    by_cases hlt : cur - res < w.2
    · rw [runJobs_cons_lt ws hlt] at h; simp at h
    · rw [runJobs_cons_ge ws hlt]
      simp only
      by_cases hg : (runJobs cur (res + w.2) ws).2.2 = []
      · have := runJobs_reserved cur ws (res + w.2)
        rw [hg] at this; simp [sumAmt] at this
        omega
      · exact ih (res + w.2) hg

/-- the first waiter is granted iff it fits -/
theorem runJobs_first (cur : Int) (w : Waiter) (ws : List Waiter) (res : Int) :
    (w.2 ≤ cur - res → ∃ g, (runJobs cur res (w :: ws)).2.2 = w :: g) ∧
    (cur - res < w.2 → (runJobs cur res (w :: ws)) = (res, w :: ws, [])) := by
  constructor
  · intro h
    have : ¬ (cur - res < w.2) := by omega
    rw [runJobs_cons_ge ws this]; exact ⟨_, rfl⟩
  · intro h
    exact runJobs_cons_lt ws h

theorem runJobs_sub (cur : Int) (ws : List Waiter) (res : Int) :
    (∀ w ∈ (runJobs cur res ws).2.2, w ∈ ws) ∧ (∀ w ∈ (runJobs cur res ws).2.1, w ∈ ws) := by
  have h := runJobs_split cur ws res
  constructor
  · intro w hw; rw [← h]; simp [hw]
  · intro w hw; rw [← h]; simp [hw]

/-! ### invariants of one step -/

/-- no lost wake-up: the queue is empty or its head does not fit -/
def NoLost (s : Sem) : Prop :=
  match s.waiters with
  | [] => True
  | w :: _ => s.cur - s.reserved < w.2

theorem wake_noLost (s : Sem) : NoLost s.wake.1 := by
  have := runJobs_head s.cur s.waiters s.reserved
  simpa [NoLost, Sem.wake] using this

theorem wake_cur (s : Sem) : s.wake.1.cur = s.cur ∧ s.wake.1.max = s.max := by
  simp [Sem.wake]

theorem wake_hasPanic (s : Sem) : hasPanic s.wake.2 = false := by
  simp [Sem.wake]

theorem setCur_noLost (s : Sem) (c : Int) (h : NoLost s) : NoLost (s.setCur c).1 := by
  unfold Sem.setCur
  split
  · exact wake_noLost _
  · rename_i hc
    unfold NoLost at h ⊢
    simp only
    cases hw : s.waiters with
    | nil => simp
    | cons w ws => rw [hw] at h; simp at h ⊢; omega

theorem setCur_hasPanic (s : Sem) (c : Int) : hasPanic (s.setCur c).2 = false := by
  unfold Sem.setCur; split
  · exact wake_hasPanic _
  · rfl

theorem setCur_cur (s : Sem) (c : Int) : (s.setCur c).1.cur = c ∧ (s.setCur c).1.max = s.max := by
  unfold Sem.setCur; split <;> simp [Sem.wake]

/-- **no lost wake-up** is re-established by every call that does not panic
(and needs nothing about the state before, except for the update calls that
do not run the queue). -/
theorem step_noLost (s : Sem) (op : SemOp) (h : NoLost s)
    (hp : hasPanic (step s op).2 = false) : NoLost (step s op).1 := by
  cases op with
  | acquire id n =>
    simp only [step]
    split
    · rename_i hf
      have he : s.waiters = [] := by simpa using hf.2
      simp [NoLost, he]
    · split
      · exact h
      · rename_i hnf _
        unfold NoLost at h ⊢
        cases hw : s.waiters with
        | nil =>
          simp [hw] at hnf ⊢
          omega
        | cons w ws => rw [hw] at h; simpa using h
  | release n =>
    simp only [step] at hp ⊢
    split
    · rename_i hneg; simp [hneg, hasPanic] at hp
    · exact wake_noLost _
  | updActual n => simp only [step]; exact setCur_noLost _ _ h
  | updSize n => simp only [step]; exact setCur_noLost _ _ h
  | updFreeUsed f u => simp only [step]; exact setCur_noLost _ _ h

/-- FIFO bookkeeping of one call: what was granted, followed by what still
waits, is what waited before followed by the request accepted by this call. -/
theorem setCur_fifo (s : Sem) (c : Int) :
    grantsOf (s.setCur c).2 ++ (s.setCur c).1.waiters = s.waiters := by
  unfold Sem.setCur; split
  · simp [Sem.wake, runJobs_split]
  · simp

theorem step_fifo (s : Sem) (op : SemOp) :
    grantsOf (step s op).2 ++ (step s op).1.waiters = s.waiters ++ acceptedOf s op := by
  cases op with
  | acquire id n =>
    simp only [step, acceptedOf]
    split
    · rename_i hf
      have he : s.waiters = [] := by simpa using hf.2
      simp [he]
    · split <;> simp
  | release n =>
    simp only [step, acceptedOf]
    split
    · simp
    · simp [Sem.wake, runJobs_split]
  | updActual n =>
    simp only [step, acceptedOf]
    simp [grantsOf_append, setCur_fifo]
  | updSize n => simp only [step, acceptedOf]; simp [setCur_fifo]
  | updFreeUsed f u =>
    simp only [step, acceptedOf]
    simp [grantsOf_append, setCur_fifo]

/-- reservation bookkeeping of `runJobs` on the struct -/
theorem wake_reserved (s : Sem) :
    s.wake.1.reserved = s.reserved + sumAmt (grantsOf s.wake.2) := by
  simp [Sem.wake, runJobs_reserved s.cur s.waiters s.reserved]

theorem setCur_reserved (s : Sem) (c : Int) :
    (s.setCur c).1.reserved = s.reserved + sumAmt (grantsOf (s.setCur c).2) := by
  unfold Sem.setCur; split
  · exact wake_reserved _
  · simp [sumAmt]

/-- amount a call hands back -/
def releasedBy : SemOp → Int
  | .release n => n
  | _ => 0

theorem step_reserved (s : Sem) (op : SemOp) :
    (step s op).1.reserved = s.reserved - releasedBy op + sumAmt (grantsOf (step s op).2) := by
  cases op with
  | acquire id n =>
    simp only [step, releasedBy]
    split
    · simp [sumAmt]
    · split <;> simp [sumAmt]
  | release n =>
    simp only [step, releasedBy]
    split
    · simp [sumAmt]
    · rw [wake_reserved]
  | updActual n =>
    simp only [step, releasedBy]
    simp [grantsOf_append, setCur_reserved s]
  | updSize n => simp only [step, releasedBy]; simp [setCur_reserved s]
  | updFreeUsed f u =>
    simp only [step, releasedBy]
    simp [grantsOf_append, setCur_reserved s]

theorem step_max (s : Sem) (op : SemOp) : (step s op).1.max = s.max := by
  cases op with
  | acquire id n => simp only [step]; split; rfl; split <;> rfl
  | release n => simp only [step]; split; rfl; simp [Sem.wake]
  | updActual n => simp only [step]; simp [(setCur_cur s _).2]
  | updSize n => simp only [step]; simp [(setCur_cur s _).2]
  | updFreeUsed f u => simp only [step]; simp [(setCur_cur s _).2]

theorem wake_fits (s : Sem) (h : grantsOf s.wake.2 ≠ []) : s.wake.1.reserved ≤ s.wake.1.cur := by
  have := runJobs_fits s.cur s.waiters s.reserved
  simp [Sem.wake] at h ⊢
  exact this h

theorem setCur_fits (s : Sem) (c : Int) (h : grantsOf (s.setCur c).2 ≠ []) :
    (s.setCur c).1.reserved ≤ (s.setCur c).1.cur := by
  unfold Sem.setCur at h ⊢; split
  · rename_i hc; simp [hc] at h; exact wake_fits _ h
  · rename_i hc; simp [hc] at h

/-- a call that grants anything leaves `reserved ≤ curSize` -/
theorem step_fits (s : Sem) (op : SemOp) (h : grantsOf (step s op).2 ≠ []) :
    (step s op).1.reserved ≤ (step s op).1.cur := by
  cases op with
  | acquire id n =>
    simp only [step] at h ⊢
    split
    · rename_i hf; simp; omega
    · rename_i hf; rw [if_neg hf] at h; split at h <;> simp at h
  | release n =>
    simp only [step] at h ⊢
    split
    · rename_i hneg; simp [hneg] at h
    · rename_i hneg; simp [hneg] at h; exact wake_fits _ h
  | updActual n =>
    simp only [step] at h ⊢
    simp [grantsOf_append] at h
    exact setCur_fits _ _ h
  | updSize n => simp only [step] at h ⊢; exact setCur_fits _ _ h
  | updFreeUsed f u =>
    simp only [step] at h ⊢
    simp [grantsOf_append] at h
    exact setCur_fits _ _ h

/-- every waiter's amount is within [0?, max]: enqueued only when `n ≤ max` -/
def WaitersLeMax (s : Sem) : Prop := ∀ w ∈ s.waiters, w.2 ≤ s.max

theorem setCur_waiters_sub (s : Sem) (c : Int) : ∀ w ∈ (s.setCur c).1.waiters, w ∈ s.waiters := by
  intro w hw
  have := setCur_fifo s c
  rw [← this]; simp [hw]

theorem step_waiters_sub (s : Sem) (op : SemOp) :
    ∀ w ∈ (step s op).1.waiters, w ∈ s.waiters ++ acceptedOf s op := by
  intro w hw
  rw [← step_fifo]; simp [hw]

theorem step_grants_sub (s : Sem) (op : SemOp) :
    ∀ w ∈ grantsOf (step s op).2, w ∈ s.waiters ++ acceptedOf s op := by
  intro w hw
  rw [← step_fifo]; simp [hw]

theorem accepted_le_max (s : Sem) (op : SemOp) (hc : s.cur ≤ s.max) (hr : 0 ≤ s.reserved) :
    ∀ w ∈ acceptedOf s op, w.2 ≤ s.max := by
  intro w hw
  cases op with
  | acquire id n =>
    simp only [acceptedOf] at hw
    split at hw
    · rename_i hf
      have : w = (id, n) := by simpa using hw
      subst this; simp; omega
    · split at hw
      · simp at hw
      · have : w = (id, n) := by simpa using hw
        subst this; simp; omega
  | release n => simp [acceptedOf] at hw
  | updActual n => simp [acceptedOf] at hw
  | updSize n => simp [acceptedOf] at hw
  | updFreeUsed f u => simp [acceptedOf] at hw

/-! ### bound `cur ≤ max`, `reserved ≤ max` -/

theorem freeUsedCur_le_max (s : Sem) (f u : Int) : freeUsedCur s f u ≤ s.max := by
  simp only [freeUsedCur]
  split
  · split <;> omega
  · split <;> omega

/-- admissible calls for the upper bound: releases hand back a non-negative
amount and `UpdateSize` is not called with more than the maximum. -/
def OpOK (max : Int) : SemOp → Prop
  | .release n => 0 ≤ n
  | .updSize n => n ≤ max
  | _ => True

def Bounded (s : Sem) : Prop := s.cur ≤ s.max ∧ s.reserved ≤ s.max

theorem wake_bounded (s : Sem) (h : Bounded s) : Bounded s.wake.1 := by
  unfold Bounded at h ⊢
  refine ⟨by simpa [Sem.wake] using h.1, ?_⟩
  by_cases hg : grantsOf s.wake.2 = []
  · have := wake_reserved s
    rw [hg] at this; simp [sumAmt] at this
    rw [this, (wake_cur s).2]; exact h.2
  · have := wake_fits s hg
    rw [(wake_cur s).1] at this
    rw [(wake_cur s).2]; omega

theorem setCur_bounded (s : Sem) (c : Int) (h : Bounded s) (hc : c ≤ s.max) :
    Bounded (s.setCur c).1 := by
  unfold Sem.setCur; split
  · apply wake_bounded; exact ⟨hc, h.2⟩
  · exact ⟨hc, h.2⟩

theorem step_bounded (s : Sem) (op : SemOp) (h : Bounded s) (hop : OpOK s.max op) :
    Bounded (step s op).1 := by
  cases op with
  | acquire id n =>
    simp only [step]
    split
    · rename_i hf; unfold Bounded at h ⊢; simp; omega
    · split <;> exact h
  | release n =>
    simp only [step]
    have hn : 0 ≤ n := hop
    split
    · unfold Bounded at h ⊢; simp; omega
    · apply wake_bounded; unfold Bounded at h ⊢; simp; omega
  | updActual n =>
    simp only [step]
    apply setCur_bounded _ _ h
    split <;> omega
  | updSize n => simp only [step]; exact setCur_bounded _ _ h hop
  | updFreeUsed f u =>
    simp only [step]
    exact setCur_bounded _ _ h (freeUsedCur_le_max s f u)

end Martian.Semaphore
