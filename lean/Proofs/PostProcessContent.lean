/-
C13 `content_preserved`, global: after the WHOLE traversal every moved leaf's
destination holds exactly what its source held, provided the sources are
pairwise non-nested and unrelated to the outs directory.
-/
import Martian.PostProcess
import Martian.PostProcessDefs
import Proofs.PostProcess
import Proofs.PostProcessLeaves
import Proofs.PostProcessDests

namespace Martian.PostProcess

/-! ## Bool prefix test ↔ `<+:` -/

theorem isPrefix_true_iff {p q : Path} : isPrefix p q = true ↔ p <+: q := by
  rw [isPrefix_iff]
  constructor
  · rintro ⟨s, rfl⟩; exact List.prefix_append _ _
  · rintro ⟨s, rfl⟩; exact ⟨s, rfl⟩

theorem isPrefix_false_iff {p q : Path} : isPrefix p q = false ↔ ¬ p <+: q := by
  rw [← isPrefix_true_iff]
  cases isPrefix p q <;> simp

theorem under_iff_prefix {b d : Path} : Under b d ↔ b <+: d := by
  constructor
  · rintro ⟨s, rfl⟩; exact List.prefix_append _ _
  · rintro ⟨s, rfl⟩; exact ⟨s, rfl⟩

theorem incomp_iff {a b : Path} : Incomp a b ↔ ¬ a <+: b ∧ ¬ b <+: a := by
  simp [Incomp, isPrefix_false_iff]

/-- a path unrelated to `top` is unrelated to everything at or below `top` -/
theorem unrelated_below {p top x : Path} (h1 : ¬ p <+: top) (h2 : ¬ top <+: p) (hx : top <+: x) :
    ¬ p <+: x ∧ ¬ x <+: p := by
  constructor
  · intro h
    rcases List.prefix_or_prefix_of_prefix h hx with h' | h'
    · exact h1 h'
    · exact h2 h'
  · intro h
    exact h2 (hx.trans h)

/-! ## what a leaf names -/

theorem statExists_none (fs : FS) (n : Nat) (q : Path) (h : fs.get q = none) :
    statExists fs n q = false := by
  cases n with
  | zero => rfl
  | succ n => simp [statExists, h]

/-- a leaf that names no path, or a missing one whose destination is free,
leaves the file system alone -/
theorem runLeaf_inert (ps : Path) (fs : FS) (l : Leaf)
    (h : l.src = none ∨ ∃ p, l.src = some p ∧ fs.get p = none ∧ fs.get l.dest = none) :
    runLeaf ps fs l = fs := by
  obtain ⟨v, o, n⟩ := l
  simp only [runLeaf]
  cases v with
  | str s =>
    by_cases hs : s = ""
    · simp [moveOutFile, hs]
    · simp only [Leaf.src, hs, if_false] at h
      rcases h with h | ⟨p, hp, hg, hf⟩
      · simp [moveOutFile, hs, h]
      · rw [moveOutFile_missing ps o n s p fs hs hp hg hf]
  | null => rfl
  | lit s => rfl
  | arr xs => rfl
  | obj kvs => rfl

/-- a movable leaf, by its source -/
theorem runLeaf_movable (fs : FS) (l : Leaf) (p : Path)
    (hsrc : l.src = some p) (hfree : fs.get l.dest = none) :
    ∃ s, l.v = .str s ∧ s ≠ "" ∧ parsePath s = some p ∧
      statExists fs statFuel (l.outs ++ [l.name]) = false := by
  obtain ⟨v, o, n⟩ := l
  cases v with
  | str s =>
    by_cases hs : s = ""
    · simp [Leaf.src, hs] at hsrc
    · simp only [Leaf.src, hs, if_false] at hsrc
      exact ⟨s, rfl, hs, hsrc, statExists_none fs _ _ hfree⟩
  | null => simp [Leaf.src] at hsrc
  | lit s => simp [Leaf.src] at hsrc
  | arr xs => simp [Leaf.src] at hsrc
  | obj kvs => simp [Leaf.src] at hsrc

/-! ## the hypotheses -/

theorem dest_below {top : Path} {l : Leaf} (h : top <+: l.outs) : top <+: l.dest :=
  h.trans (List.prefix_append _ _)

/-- one step leaves every path alone that is not under the leaf's source, not
under its destination and not an ancestor of its directory -/
theorem step_frame (ps top : Path) (fs : FS) (l : Leaf) (ls : List Leaf) (hc : Clean ps top fs (l :: ls))
    (q : Path) (h1 : ∀ p, l.src = some p → ¬ p <+: q) (h2 : ¬ l.dest <+: q) (h3 : ¬ q <+: l.outs) :
    (runLeaf ps fs l).get q = fs.get q := by
  cases hsrc : l.src with
  | none => rw [runLeaf_inert ps fs l (Or.inl hsrc)]
  | some p =>
    rcases hc.status l (by simp) p hsrc with hn | ⟨e, he, hl, hin⟩
    · rw [runLeaf_inert ps fs l (Or.inr ⟨p, hsrc, hn, hc.free l (by simp)⟩)]
    · obtain ⟨s, hv, hs, hp, hfree⟩ := runLeaf_movable fs l p hsrc (hc.free l (by simp))
      simp only [runLeaf, hv]
      exact moveOutFile_moved_frame ps l.outs l.name s p e fs hs hp he hl hin hfree q
        (isPrefix_false_iff.mpr (h1 p hsrc)) (isPrefix_false_iff.mpr h2) (isPrefix_false_iff.mpr h3)

/-- after one step the remaining leaves are in the same situation -/
theorem clean_tail (ps top : Path) (fs : FS) (l : Leaf) (ls : List Leaf) (hc : Clean ps top fs (l :: ls)) :
    Clean ps top (runLeaf ps fs l) ls := by
  have hd := List.pairwise_cons.mp hc.dests
  have hn := List.pairwise_cons.mp hc.nonnest
  have hlb : top <+: l.outs := hc.below l (by simp)
  -- the source of a later leaf is untouched by this step
  have hsrcframe : ∀ l' ∈ ls, ∀ p', l'.src = some p' → (runLeaf ps fs l).get p' = fs.get p' := by
    intro l' hl' p' hp'
    have hap := hc.apart l' (by simp [hl']) p' hp'
    apply step_frame ps top fs l ls hc
    · intro p hp; exact (hn.1 l' hl' p p' hp hp').1
    · exact fun h => hap.2 ((dest_below hlb).trans h)
    · exact fun h => (unrelated_below hap.1 hap.2 hlb).1 h
  refine ⟨hd.2, fun l' hl' => hc.below l' (by simp [hl']), fun l' hl' => hc.apart l' (by simp [hl']),
    hn.2, ?_, ?_⟩
  · intro l' hl' p' hp'
    rw [hsrcframe l' hl' p' hp']
    exact hc.status l' (by simp [hl']) p' hp'
  · intro l' hl'
    have hinc := incomp_iff.mp (hd.1 l' hl')
    have hb' : top <+: l'.dest := dest_below (hc.below l' (by simp [hl']))
    rw [step_frame ps top fs l ls hc l'.dest]
    · exact hc.free l' (by simp [hl'])
    · intro p hp
      have hap := hc.apart l (by simp) p hp
      exact (unrelated_below hap.1 hap.2 hb').1
    · exact hinc.1
    · exact fun h => hinc.2 (h.trans (List.prefix_append _ _))

/-- a path unrelated to every leaf of the list survives the whole run -/
theorem run_frame (ps top : Path) (ls : List Leaf) (fs : FS) (hc : Clean ps top fs ls) (q : Path)
    (h : ∀ l ∈ ls, (∀ p, l.src = some p → ¬ p <+: q) ∧ ¬ l.dest <+: q ∧ ¬ q <+: l.outs) :
    (runLeaves ps ls fs).get q = fs.get q := by
  induction ls generalizing fs with
  | nil => rfl
  | cons l ls ih =>
    rw [runLeaves_cons, ih _ (clean_tail ps top fs l ls hc) (fun l' hl' => h l' (by simp [hl']))]
    obtain ⟨h1, h2, h3⟩ := h l (by simp)
    exact step_frame ps top fs l ls hc q h1 h2 h3

/-- GLOBAL `content_preserved`: in a `Clean` situation, after all leaves have
been processed, the destination of every leaf whose source existed holds
exactly the tree that was at the source (`∀ suf`). -/
theorem content_preserved_run (ps top : Path) (ls : List Leaf) (fs : FS) (hc : Clean ps top fs ls)
    (l : Leaf) (hl : l ∈ ls) (p : Path) (e : Entry) (hsrc : l.src = some p) (he : fs.get p = some e) :
    ∀ suf, (runLeaves ps ls fs).get (l.dest ++ suf) = fs.get (p ++ suf) := by
  induction ls generalizing fs with
  | nil => cases hl
  | cons h t ih =>
    intro suf
    have hd := List.pairwise_cons.mp hc.dests
    have hn := List.pairwise_cons.mp hc.nonnest
    have hhb : top <+: h.outs := hc.below h (by simp)
    rw [runLeaves_cons]
    simp only [List.mem_cons] at hl
    rcases hl with e1 | hl
    · -- the head itself: moved now, untouched afterwards
      subst e1
      have hap := hc.apart l (by simp) p hsrc
      rcases hc.status l (by simp) p hsrc with hnone | ⟨e', he', hlk, hin⟩
      · rw [hnone] at he; cases he
      · obtain ⟨s, hv, hs, hp, hfree⟩ :=
          runLeaf_movable fs l p hsrc (hc.free l (by simp))
        have hmoved := (moveOutFile_moved ps l.outs l.name s p e' fs hs hp he' hlk hin hfree
          (isPrefix_false_iff.mpr (unrelated_below hap.1 hap.2 hhb).1)
          (isPrefix_false_iff.mpr (fun hh => hap.2 ((dest_below hhb).trans hh)))).2.1 suf
        rw [run_frame ps top t _ (clean_tail ps top fs l t hc)]
        · simpa [runLeaf, hv, Leaf.dest] using hmoved
        · intro l' hl'
          have hinc := incomp_iff.mp (hd.1 l' hl')
          have hb' : top <+: l'.outs := hc.below l' (by simp [hl'])
          refine ⟨fun p' hp' => ?_, ?_, ?_⟩
          · have hap' := hc.apart l' (by simp [hl']) p' hp'
            exact (unrelated_below hap'.1 hap'.2
              ((dest_below hhb).trans (List.prefix_append _ _))).1
          · intro hh
            rcases List.prefix_or_prefix_of_prefix hh (List.prefix_append l.dest suf) with h' | h'
            · exact hinc.2 h'
            · exact hinc.1 h'
          · intro hh
            exact hinc.1 (((List.prefix_append l.dest suf).trans hh).trans (List.prefix_append _ _))
    · -- a later leaf: its source tree is untouched by the head's step
      have hap := hc.apart l (by simp [hl]) p hsrc
      have hframe : ∀ suf, (runLeaf ps fs h).get (p ++ suf) = fs.get (p ++ suf) := by
        intro suf
        apply step_frame ps top fs h t hc
        · intro ph hph hh
          have hnn := hn.1 l hl ph p hph hsrc
          rcases List.prefix_or_prefix_of_prefix hh (List.prefix_append p suf) with h' | h'
          · exact hnn.1 h'
          · exact hnn.2 h'
        · intro hh
          rcases List.prefix_or_prefix_of_prefix ((dest_below hhb).trans hh)
            (List.prefix_append p suf) with h' | h'
          · exact hap.2 h'
          · exact hap.1 h'
        · intro hh
          exact (unrelated_below hap.1 hap.2 hhb).1 ((List.prefix_append p suf).trans hh)
      have he1 : (runLeaf ps fs h).get p = some e := by
        have := hframe []
        simp only [List.append_nil] at this
        rw [this, he]
      rw [ih _ (clean_tail ps top fs h t hc) hl he1 suf, hframe suf]

/-! ## the whole record (`processStructOuts`) -/

/-- creating the outs directory first does not disturb a `Clean` situation -/
theorem clean_mkdirAll (ps top : Path) (fs : FS) (ls : List Leaf) (hc : Clean ps top fs ls) :
    Clean ps top (mkdirAll fs top) ls := by
  refine ⟨hc.dests, hc.below, hc.apart, hc.nonnest, ?_, ?_⟩
  · intro l hl p hp
    rw [mkdirAll_get_other _ _ _ (isPrefix_false_iff.mpr (hc.apart l hl p hp).1)]
    exact hc.status l hl p hp
  · intro l hl
    have hb : top <+: l.outs := hc.below l hl
    rw [mkdirAll_get_other _ _ _ (isPrefix_false_iff.mpr ?_)]
    · exact hc.free l hl
    · intro hh
      have h1 := hb.length_le
      have h2 := hh.length_le
      simp [Leaf.dest] at h2
      omega

/-- the situation of a whole record: the leaves are those of the signature
(so `dests` and `below` are theorems, not hypotheses) -/
theorem clean_record (ps top : Path) (fs : FS) (params : List (String × String × Ty))
    (outs : List (String × J)) (hwf : wfParams params = true)
    (apart : ∀ l ∈ leavesRec params outs top, ∀ p, l.src = some p → ¬ p <+: top ∧ ¬ top <+: p)
    (nonnest : (leavesRec params outs top).Pairwise (fun l1 l2 => ∀ p1 p2, l1.src = some p1 →
      l2.src = some p2 → ¬ p1 <+: p2 ∧ ¬ p2 <+: p1))
    (status : ∀ l ∈ leavesRec params outs top, ∀ p, l.src = some p →
      fs.get p = none ∨ ∃ e, fs.get p = some e ∧ e.isLink = false ∧ inside ps p = true)
    (free : ∀ l ∈ leavesRec params outs top, fs.get l.dest = none) :
    Clean ps top fs (leavesRec params outs top) :=
  ⟨leavesRec_pairwise params outs top hwf,
    fun l hl => under_iff_prefix.mp (leavesRec_under params outs top hwf l hl),
    apart, nonnest, status, free⟩

theorem content_preserved_record (ps top : Path) (fs : FS) (params : List (String × String × Ty))
    (outs : List (String × J)) (hc : Clean ps top fs (leavesRec params outs top))
    (l : Leaf) (hl : l ∈ leavesRec params outs top) (p : Path) (e : Entry)
    (hsrc : l.src = some p) (he : fs.get p = some e) (suf : Path) :
    (processStructOuts true ps params (.obj outs) top fs).2.get (l.dest ++ suf) = fs.get (p ++ suf) := by
  have hap := hc.apart l hl p hsrc
  have hnp : ∀ suf, ¬ (p ++ suf) <+: top := fun suf hh => hap.1 ((List.prefix_append p suf).trans hh)
  simp only [processStructOuts]
  rw [handleOuts_run]
  split
  · have hc' := clean_mkdirAll ps top fs _ hc
    have he' : (mkdirAll fs top).get p = some e := mkdirAll_get_some _ _ _ _ he
    rw [content_preserved_run ps top _ _ hc' l hl p e hsrc he' suf,
      mkdirAll_get_other _ _ _ (isPrefix_false_iff.mpr (hnp suf))]
  · exact content_preserved_run ps top _ _ hc l hl p e hsrc he suf

end Martian.PostProcess
