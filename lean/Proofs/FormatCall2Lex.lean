import Proofs.FormatCall2Parse
import Proofs.FormatCallLex

/-!
C09, part Call2: the lexing layer of the round trip of the statements of a
pipeline body (for any white-space prefix and any following text), the round
trips themselves, and printing the normal form.

Core Lean only.
-/

namespace Martian.FormatCall2
open Martian.Lexer (Bytes isWord)
open Martian.FormatExp Martian.FormatCall

theorem wordLexeme_using : wordLexeme sUsing = .tok (.id sUsing) := by decide
theorem wordLexeme_return : wordLexeme sReturn = .tok (.reserved sReturn) := by decide
theorem wordLexeme_retain : wordLexeme sRetain = .tok (.id sRetain) := by decide
theorem all_isWord_using : sUsing.all isWord = true := by decide
theorem all_isWord_return : sReturn.all isWord = true := by decide
theorem all_isWord_retain : sRetain.all isWord = true := by decide
theorem isIdent_star : isIdent sStar = false := by decide

theorem ne_star_of_isIdent {k : Bytes} (h : isIdent k = true) : k ≠ sStar := by
  intro e; subst e; rw [isIdent_star] at h; cases h

/-! ## one binding -/

/-- `BindStm.format` of an ordinary binding -/
theorem lexOK_fmtBind (p : Bytes) (w : Nat) (b : Bind) (hp : p.all isSp = true) (hw : wfBind b = true)
    {nxt : Bytes} {tn : List Tok} {R : Bytes → Prop} (hn : LexOK nxt tn R) :
    LexOK (fmtBind p w b ++ nxt) (toksBindPre b ++ toks b.exp ++ tComma :: tn) R := by
  simp only [wfBind, Bool.and_eq_true] at hw
  have h1 : LexOK p [] AnyRest := LexOK.spaces hp _
  have h2 := lexOK_bindPre w b hw.1.1
  have hpre : LexOK (p ++ bindPre w b) (toksBindPre b) AnyRest :=
    (h1.append h2 (fun _ _ => trivial)).congr rfl (by simp)
  have hv := lexOK_fmt b.exp (p ++ indent) hw.1.2 (all_isSp_append hp all_isSp_indent)
  exact (LexOK.item hpre hv hn).congr (by simp [fmtBind]) rfl

/-- the value of a wildcard binding -/
theorem lexOK_fmtWild (e : Exp) (q : Bytes) (hw : wfWild e = true) (hq : q.all isSp = true) :
    LexOK (fmt q e) (toksWild e) TermStart := by
  cases hb : isBareSelf e with
  | true =>
    have he := isBareSelf_eq hb
    subst he
    exact (LexOK.kw all_isWord_self wordLexeme_self).congr (by simp [fmt, fmtRef])
      (by simp [toksWild, isBareSelf])
  | false =>
    simp only [wfWild, hb, Bool.false_or, Bool.and_eq_true] at hw
    exact (lexOK_fmt e q hw.2 hq).congr rfl (by simp [toksWild, hb])

theorem lexOK_starPre (w : Nat) (e : Exp) : LexOK (bindPre w (wildBind e)) [tStar, tEq] AnyRest := by
  have h1 : LexOK indent [] AnyRest := LexOK.spaces all_isSp_indent _
  have h2 : LexOK [0x2A] [tStar] AnyRest := LexOK.punct (by decide) _
  have h3 : LexOK (spaces (w - 1) ++ [0x20]) [] AnyRest :=
    LexOK.spaces (all_isSp_append (all_isSp_spaces _) (by decide)) _
  have h4 : LexOK [0x3D] [tEq] AnyRest := LexOK.punct (by decide) _
  have h5 : LexOK [0x20] [] AnyRest := LexOK.spaces (by decide) _
  have h := (((h1.append h2 (fun _ _ => trivial)).append h3 (fun _ _ => trivial)).append h4
    (fun _ _ => trivial)).append h5 (fun _ _ => trivial)
  exact h.congr (by simp [bindPre, wildBind, sStar]) (by simp)

/-- `BindStms.format` at the wildcard binding: it is printed, nothing after it is -/
theorem lexOK_fmtBindsGo_wild (p : Bytes) (w : Nat) (e : Exp) (junk : List Bind) (hp : p.all isSp = true)
    (hw : wfWild e = true) :
    LexOK (fmtBindsGo p w (wildBind e :: junk)) (toksWildOpt (some e)) AnyRest := by
  have h1 : LexOK p [] AnyRest := LexOK.spaces hp _
  have hpre : LexOK (p ++ bindPre w (wildBind e)) [tStar, tEq] AnyRest :=
    (h1.append (lexOK_starPre w e) (fun _ _ => trivial)).congr rfl (by simp)
  have hv := lexOK_fmtWild e (p ++ indent) hw (all_isSp_append hp all_isSp_indent)
  have h := LexOK.item hpre hv (LexOK.nil AnyRest)
  exact h.congr (by simp [fmtBindsGo, fmtBind, wildBind]) (by simp [toksWildOpt])

/-! ## `BindStms.format` -/

theorem fmtBindsGo_cons_ne (p : Bytes) (w : Nat) (b : Bind) (r : List Bind) (h : b.id ≠ sStar) :
    fmtBindsGo p w (b :: r) = fmtBind p w b ++ fmtBindsGo p w r := by
  simp [fmtBindsGo, h]

/-- ordinary bindings followed by a tail that is lexed as `tt` -/
theorem lexOK_fmtBindsGo (p : Bytes) (w : Nat) (hp : p.all isSp = true) {tail : List Bind}
    {tt : List Tok} (ht : LexOK (fmtBindsGo p w tail) tt AnyRest) :
    ∀ bs : List Bind, bs.all wfBind = true →
      LexOK (fmtBindsGo p w (bs ++ tail)) (toksBinds bs ++ tt) AnyRest
  | [], _ => ht.congr (by simp) (by simp [toksBinds])
  | b :: bs, hw => by
    simp only [List.all_cons, Bool.and_eq_true] at hw
    have hid : b.id ≠ sStar := by
      have := hw.1
      simp only [wfBind, Bool.and_eq_true] at this
      exact ne_star_of_isIdent this.1.1
    have ih := lexOK_fmtBindsGo p w hp ht bs hw.2
    exact (lexOK_fmtBind p w b hp hw.1 ih).congr
      (by rw [List.cons_append, fmtBindsGo_cons_ne p w b _ hid]) (by simp [toksBinds])

theorem lexOK_fmtBindsGo_nil (p : Bytes) (w : Nat) : LexOK (fmtBindsGo p w []) [] AnyRest :=
  (LexOK.nil _).congr (by simp [fmtBindsGo]) rfl

/-- `Bindings.format` of a call or `return` -/
theorem lexOK_rawBinds (p : Bytes) (n : Nat) (bs : List Bind) (w : Option Exp) (hp : p.all isSp = true)
    (hbs : bs.all wfBind = true) (hw : wfWildOpt w = true) :
    LexOK (fmtBindsGo p n (rawBinds bs w)) (toksBinds2 bs w) AnyRest := by
  cases w with
  | none =>
    exact (lexOK_fmtBindsGo p n hp (lexOK_fmtBindsGo_nil p n) bs hbs).congr (by simp [rawBinds])
      (by simp [toksBinds2, toksWildOpt])
  | some e =>
    exact (lexOK_fmtBindsGo p n hp (lexOK_fmtBindsGo_wild p n e [] hp hw) bs hbs).congr
      (by simp [rawBinds]) (by simp [toksBinds2])

/-! ## the `using` block -/

theorem isIdent_modKw {k : Bytes} (h : isModKw k = true) : isIdent k = true := by
  simp only [isModKw, Bool.or_eq_true, beq_iff_eq] at h
  rcases h with (rfl | rfl) | rfl <;> decide

theorem wfBind_modBind {kv : Bytes × Exp} (h : wfMod kv = true) : wfBind (modBind kv) = true := by
  obtain ⟨k, e⟩ := kv
  simp only [wfMod, Bool.or_eq_true, Bool.and_eq_true, beq_iff_eq] at h
  rcases h with ⟨hk, hb⟩ | ⟨⟨hk, _⟩, hwf⟩
  · cases e with
    | bool b => simp [wfBind, modBind, isIdent_modKw hk, wf]
    | _ => simp [isBoolE] at hb
  · subst hk
    have : isIdent sDisabled = true := by decide
    simp [wfBind, modBind, this, hwf]

theorem all_wfBind_modBind (l : List (Bytes × Exp)) (h : l.all wfMod = true) :
    (l.map modBind).all wfBind = true := by
  rw [List.all_map]
  rw [List.all_eq_true] at h ⊢
  intro kv hkv
  exact wfBind_modBind (h kv hkv)

theorem toksBinds_modBind : ∀ l : List (Bytes × Exp), toksBinds (l.map modBind) = toksMods l
  | [] => rfl
  | kv :: l => by
    simp [toksBinds, toksMods, toksBindPre, modBind, toksBinds_modBind l]

theorem lexOK_mods (p : Bytes) (n : Nat) (l : List (Bytes × Exp)) (hp : p.all isSp = true)
    (h : l.all wfMod = true) : LexOK (fmtBindsGo p n (l.map modBind)) (toksMods l) AnyRest :=
  (lexOK_fmtBindsGo p n hp (lexOK_fmtBindsGo_nil p n) (l.map modBind) (all_wfBind_modBind l h)).congr
    (by simp) (by simp [toksBinds_modBind])

theorem lexOK_usingOpen : LexOK sUsingOpen [tRP, .id sUsing, tLP] AnyRest := by
  have h1 : LexOK [0x29] [tRP] AnyRest := LexOK.punct (by decide) _
  have h2 : LexOK [0x20] [] AnyRest := LexOK.spaces (by decide) _
  have h3 : LexOK (sUsing ++ [0x20]) [.id sUsing] AnyRest := LexOK.wordSp all_isWord_using wordLexeme_using
  have h4 : LexOK [0x28] [tLP] AnyRest := LexOK.punct (by decide) _
  have h5 : LexOK [0x0A] [] AnyRest := LexOK.spaces (by decide) _
  have h := (((h1.append h2 (fun _ _ => trivial)).append h3 (fun _ _ => trivial)).append h4
    (fun _ _ => trivial)).append h5 (fun _ _ => trivial)
  exact h.congr (by simp [sUsingOpen]) (by simp)

theorem lexOK_close : LexOK [0x29, 0x0A] [tRP] AnyRest := by
  have h1 : LexOK [0x29] [tRP] AnyRest := LexOK.punct (by decide) _
  have h2 : LexOK [0x0A] [] AnyRest := LexOK.spaces (by decide) _
  exact (h1.append h2 (fun _ _ => trivial)).congr (by simp) (by simp)

/-- from `) using (` (when printed) to the final `)` and newline -/
theorem lexOK_usingBlock (p : Bytes) (m : Mods) (hp : p.all isSp = true) (hw : wfMods m = true) :
    LexOK ((if usingPrinted m then sUsingOpen ++ fmtBindStms p ((modList m).map modBind) ++ p else []) ++
      [0x29, 0x0A]) (tRP :: toksUsing m) AnyRest := by
  cases hu : usingPrinted m with
  | false =>
    exact lexOK_close.congr (by simp) (by simp [toksUsing, hu])
  | true =>
    have hm := lexOK_mods p (idWidthGo ((modList m).map modBind)) (modList m) hp (modList_wf m hw).1
    have h2 : LexOK p [] AnyRest := LexOK.spaces hp _
    have h := ((lexOK_usingOpen.append hm (fun _ _ => trivial)).append h2 (fun _ _ => trivial)).append
      lexOK_close (fun _ _ => trivial)
    exact h.congr (by simp [fmtBindStms]) (by simp [toksUsing, hu])

/-! ## the call statement -/

theorem rawBinds_isEmpty (bs : List Bind) (w : Option Exp) :
    (rawBinds bs w).isEmpty = (bs.isEmpty && w.isNone) := by
  cases bs <;> cases w <;> simp [rawBinds]

/-- **Lexing layer, call statement**: any white-space prefix, any following text -/
theorem lexOK_fmtCall2 (p : Bytes) (c : Call2) (hp : p.all isSp = true) (hw : wfCall2 c = true) :
    LexOK (fmtCall2 p c) (toksCall2 c) AnyRest := by
  obtain ⟨d, i, bs, w, m⟩ := c
  simp only [wfCall2, Bool.and_eq_true] at hw
  obtain ⟨⟨⟨⟨hd, hi⟩, hbs⟩, hww⟩, hwm⟩ := hw
  have h0 : LexOK p [] AnyRest := LexOK.spaces hp _
  have hA : LexOK (if isMap2 ⟨d, i, bs, w, m⟩ then sMap ++ [0x20] else [])
      (if isMap2 ⟨d, i, bs, w, m⟩ then [.reserved sMap] else []) AnyRest := by
    cases isMap2 ⟨d, i, bs, w, m⟩ with
    | true => exact LexOK.wordSp all_isWord_map wordLexeme_map
    | false => exact LexOK.nil _
  have hB : LexOK (sCall ++ [0x20]) [.reserved sCall] AnyRest :=
    LexOK.wordSp all_isWord_call wordLexeme_call
  have hC := LexOK.ident hd
  have hD : LexOK (if i = d then [] else [0x20] ++ sAs ++ [0x20] ++ i)
      (if i = d then [] else [.reserved sAs, .id i]) WordEnd := by
    by_cases hid : i = d
    · simp only [hid, ↓reduceIte]; exact LexOK.nil _
    · simp only [hid, ↓reduceIte]
      have h0 : LexOK [0x20] [] AnyRest := LexOK.spaces (by decide) _
      have h1 : LexOK (sAs ++ [0x20]) [.reserved sAs] AnyRest :=
        LexOK.wordSp all_isWord_as wordLexeme_as
      exact ((h0.append h1 (fun _ _ => trivial)).append (LexOK.ident hi)
        (fun _ _ => trivial)).congr (by simp) (by simp)
  have hDW : ∀ rest, WordEnd rest →
      WordEnd ((if i = d then [] else [0x20] ++ sAs ++ [0x20] ++ i) ++ rest) := by
    intro rest hr
    by_cases hid : i = d
    · simpa [hid] using hr
    · simp only [hid, ↓reduceIte, List.append_assoc, List.cons_append, List.nil_append]
      exact WordEnd.cons _ _ (by decide)
  have hE : LexOK [0x28] [tLP] AnyRest := LexOK.punct (by decide) _
  have hF : LexOK (if (rawBinds bs w).isEmpty then []
      else 0x0A :: (fmtBindStms p (rawBinds bs w) ++ p)) (toksBinds2 bs w) AnyRest := by
    cases he : (rawBinds bs w).isEmpty with
    | true =>
      rw [rawBinds_isEmpty, Bool.and_eq_true] at he
      have h1 : bs = [] := by cases bs with
        | nil => rfl
        | cons a b => simp at he
      have h2 : w = none := by cases w with
        | none => rfl
        | some e => simp at he
      subst h1; subst h2
      exact (LexOK.nil _).congr (by simp) (by simp [toksBinds2, toksBinds, toksWildOpt])
    | false =>
      have hnl : LexOK [0x0A] [] AnyRest := LexOK.spaces (by decide) _
      have hb := lexOK_rawBinds p (idWidthGo (rawBinds bs w)) bs w hp hbs hww
      exact ((hnl.append hb (fun _ _ => trivial)).append h0 (fun _ _ => trivial)).congr
        (by simp [fmtBindStms]) (by simp)
  have hG := lexOK_usingBlock p m hp hwm
  have h := (((((((h0.append hA (fun _ _ => trivial)).append hB (fun _ _ => trivial)).append hC
    (fun _ _ => trivial)).append hD hDW).append hE (fun _ _ => WordEnd.cons _ _ (by decide))).append hF
    (fun _ _ => trivial)).append hG (fun _ _ => trivial))
  exact h.congr (by simp [fmtCall2, fmtCallRaw]) (by simp [toksCall2])

theorem lexAll_of_lexOK {s : Bytes} {ts : List Tok} (h : LexOK s ts AnyRest) (rest : Bytes) :
    lexAll (s ++ rest) = (lexAll rest).map (ts ++ ·) := h rest trivial

theorem lexAll_of_lexOK_nil {s : Bytes} {ts : List Tok} (h : LexOK s ts AnyRest) :
    lexAll s = some ts := by
  have := h [] trivial
  rw [List.append_nil, lexAll_nil] at this
  rw [this]; simp

/-- the printed call followed by any text: its tokens, then the tokens of the text -/
theorem lexAll_fmtCall2 (p : Bytes) (c : Call2) (rest : Bytes) (hp : p.all isSp = true)
    (hw : wfCall2 c = true) :
    lexAll (fmtCall2 p c ++ rest) = (lexAll rest).map (toksCall2 c ++ ·) :=
  lexAll_of_lexOK (lexOK_fmtCall2 p c hp hw) rest

/-- **Round trip with prefix and rest** (for the assembly of a pipeline): the printed call,
whatever the indentation, followed by a text whose tokens `ts` do not start with `using`. -/
theorem pCall2_fmtCall2 (p : Bytes) (c : Call2) (rest : Bytes) (ts : List Tok) (hp : p.all isSp = true)
    (hw : wfCall2 c = true) (hrest : lexAll rest = some ts) (hr : NoUsing ts) :
    (lexAll (fmtCall2 p c ++ rest)).bind pCall2 = some (normCall2 c, ts) := by
  rw [lexAll_fmtCall2 p c rest hp hw, hrest]
  simp only [Option.map_some, Option.bind_some]
  exact pCall2_toks c ts hw hr

/-- **Round trip**, a file holding the call -/
theorem parseCall2_fmtCall2 (c : Call2) (hw : wfCall2 c = true) :
    parseCall2 (fmtCall2 [] c) = some (normCall2 c) := by
  have h := pCall2_toks c [] hw noUsing_nil
  rw [List.append_nil] at h
  simp only [parseCall2, lexAll_of_lexOK_nil (lexOK_fmtCall2 [] c rfl hw), Option.bind_some, h]

/-! ## `return`, `retain` -/

theorem lexOK_kwOpen {k : Bytes} {t : Tok} (hk : k.all isWord = true) (ht : wordLexeme k = .tok t) :
    LexOK (indent ++ k ++ [0x20, 0x28, 0x0A]) [t, tLP] AnyRest := by
  have h1 : LexOK indent [] AnyRest := LexOK.spaces all_isSp_indent _
  have h2 : LexOK (k ++ [0x20]) [t] AnyRest := LexOK.wordSp hk ht
  have h3 : LexOK [0x28] [tLP] AnyRest := LexOK.punct (by decide) _
  have h4 : LexOK [0x0A] [] AnyRest := LexOK.spaces (by decide) _
  exact (((h1.append h2 (fun _ _ => trivial)).append h3 (fun _ _ => trivial)).append h4
    (fun _ _ => trivial)).congr (by simp) (by simp)

theorem lexOK_indentClose : LexOK (indent ++ [0x29, 0x0A]) [tRP] AnyRest := by
  have h1 : LexOK indent [] AnyRest := LexOK.spaces all_isSp_indent _
  exact (h1.append lexOK_close (fun _ _ => trivial)).congr rfl (by simp)

/-- **Lexing layer, `return`** -/
theorem lexOK_fmtReturn (r : Ret) (hw : wfRet r = true) : LexOK (fmtReturn r) (toksReturn r) AnyRest := by
  obtain ⟨bs, w⟩ := r
  simp only [wfRet, Bool.and_eq_true] at hw
  have hb := lexOK_rawBinds indent (idWidthGo (rawBinds bs w)) bs w all_isSp_indent hw.1.1 hw.2
  have h := ((lexOK_kwOpen all_isWord_return wordLexeme_return).append hb (fun _ _ => trivial)).append
    lexOK_indentClose (fun _ _ => trivial)
  exact h.congr (by simp [fmtReturn, fmtBindStms]) (by simp [toksReturn])

theorem lexOK_fmtRefs : ∀ rs : List Exp, wfPRetain rs = true → LexOK (fmtRefs rs) (toksRefs rs) AnyRest
  | [], _ => (LexOK.nil _).congr (by simp [fmtRefs]) (by simp [toksRefs])
  | e :: rs, hw => by
    simp only [wfPRetain, List.all_cons, Bool.and_eq_true] at hw
    have hii := all_isSp_append all_isSp_indent all_isSp_indent
    have hpre : LexOK (indent ++ indent) [] AnyRest := LexOK.spaces hii _
    have hv := lexOK_fmt e (indent ++ indent) hw.1.2 hii
    have ih := lexOK_fmtRefs rs (by simpa [wfPRetain] using hw.2)
    exact (LexOK.item hpre hv ih).congr (by simp [fmtRefs]) (by simp [toksRefs])

/-- **Lexing layer, `retain`** -/
theorem lexOK_fmtPRetain (rs : List Exp) (hw : wfPRetain rs = true) :
    LexOK (fmtPRetain rs) (toksPRetain rs) AnyRest := by
  have h := ((lexOK_kwOpen all_isWord_retain wordLexeme_retain).append (lexOK_fmtRefs rs hw)
    (fun _ _ => trivial)).append lexOK_indentClose (fun _ _ => trivial)
  exact h.congr (by simp [fmtPRetain]) (by simp [toksPRetain])

/-- **Round trip with rest, `return`** -/
theorem pReturn_fmtReturn (r : Ret) (rest : Bytes) (ts : List Tok) (hw : wfRet r = true)
    (hrest : lexAll rest = some ts) :
    (lexAll (fmtReturn r ++ rest)).bind pReturn = some (normRet r, ts) := by
  rw [lexAll_of_lexOK (lexOK_fmtReturn r hw) rest, hrest]
  simp only [Option.map_some, Option.bind_some]
  exact pReturn_toks r ts hw

/-- **Round trip with rest, `retain`** -/
theorem pPRetain_fmtPRetain (rs : List Exp) (rest : Bytes) (ts : List Tok) (hw : wfPRetain rs = true)
    (hrest : lexAll rest = some ts) :
    (lexAll (fmtPRetain rs ++ rest)).bind pPRetain = some (some rs, ts) := by
  rw [lexAll_of_lexOK (lexOK_fmtPRetain rs hw) rest, hrest]
  simp only [Option.map_some, Option.bind_some]
  exact pPRetain_toks rs ts hw

/-! ## the statements of a pipeline -/

theorem lexOK_fmtCalls : ∀ cs : List Call2, cs.all wfCall2 = true →
    LexOK (fmtCalls cs) (toksCalls cs) AnyRest
  | [], _ => (LexOK.nil _).congr (by simp [fmtCalls]) (by simp [toksCalls])
  | c :: cs, hw => by
    simp only [List.all_cons, Bool.and_eq_true] at hw
    have hnl : LexOK [0x0A] [] AnyRest := LexOK.spaces (by decide) _
    have h := (hnl.append (lexOK_fmtCall2 indent c all_isSp_indent hw.1) (fun _ _ => trivial)).append
      (lexOK_fmtCalls cs hw.2) (fun _ _ => trivial)
    exact h.congr (by simp [fmtCalls]) (by simp [toksCalls])

/-- **Lexing layer, pipeline body** -/
theorem lexOK_fmtBody (b : Body) (hw : wfBody b = true) : LexOK (fmtBody b) (toksBody b) AnyRest := by
  obtain ⟨cs, ret, rt⟩ := b
  simp only [wfBody, Bool.and_eq_true] at hw
  obtain ⟨⟨hcs, hret⟩, hrt⟩ := hw
  have hnl : LexOK [0x0A] [] AnyRest := LexOK.spaces (by decide) _
  have h4 : LexOK [0x7D, 0x0A] [tRC] AnyRest := by
    have h1 : LexOK [0x7D] [tRC] AnyRest := LexOK.punct (by decide) _
    exact (h1.append hnl (fun _ _ => trivial)).congr (by simp) (by simp)
  have hpre := ((lexOK_fmtCalls cs hcs).append hnl (fun _ _ => trivial)).append
    (lexOK_fmtReturn ret hret) (fun _ _ => trivial)
  cases rt with
  | none =>
    exact (hpre.append h4 (fun _ _ => trivial)).congr (by simp [fmtBody])
      (by simp [toksBody, toksRetainOpt])
  | some rs =>
    have h3 := hnl.append (lexOK_fmtPRetain rs hrt) (fun _ _ => trivial)
    exact ((hpre.append h3 (fun _ _ => trivial)).append h4 (fun _ _ => trivial)).congr
      (by simp [fmtBody]) (by simp [toksBody, toksRetainOpt])

/-- **Round trip with rest, pipeline body**: what `Pipeline.format` writes after `")\n{"`, followed
by any text (the next declaration …) -/
theorem pBody_fmtBody (b : Body) (rest : Bytes) (ts : List Tok) (hw : wfBody b = true)
    (hrest : lexAll rest = some ts) :
    (lexAll (fmtBody b ++ rest)).bind pBody = some (normBody b, ts) := by
  rw [lexAll_of_lexOK (lexOK_fmtBody b hw) rest, hrest]
  simp only [Option.map_some, Option.bind_some]
  exact pBody_toks b ts hw

theorem parseBody_fmtBody (b : Body) (hw : wfBody b = true) :
    parseBody (fmtBody b) = some (normBody b) := by
  have h := pBody_toks b [] hw
  rw [List.append_nil] at h
  simp only [parseBody, lexAll_of_lexOK_nil (lexOK_fmtBody b hw), Option.bind_some, h]

/-! ## printing the normal form -/

theorem idWidthGo_norm (tail : List Bind) : ∀ bs : List Bind,
    idWidthGo (bs.map normBind ++ tail) = idWidthGo (bs ++ tail)
  | [] => rfl
  | b :: bs => by
    simp only [List.map_cons, List.cons_append, idWidthGo, normBind, idWidthGo_norm tail bs]

theorem fmtBindsGo_norm (p : Bytes) (w : Nat) (tail : List Bind) : ∀ bs : List Bind,
    bs.all wfBind = true → fmtBindsGo p w (bs.map normBind ++ tail) = fmtBindsGo p w (bs ++ tail)
  | [], _ => rfl
  | b :: bs, hw => by
    simp only [List.all_cons, Bool.and_eq_true] at hw
    have hb := hw.1
    simp only [wfBind, Bool.and_eq_true] at hb
    have h1 : fmtBind p w (normBind b) = fmtBind p w b := by
      unfold fmtBind bindPre
      simp only [normBind]
      rw [fmt_norm b.exp (p ++ indent) hb.1.2]
      rfl
    simp only [List.map_cons, List.cons_append, fmtBindsGo, h1, fmtBindsGo_norm p w tail bs hw.2]
    rfl

theorem rawBinds_norm (bs : List Bind) (w : Option Exp) :
    rawBinds (bs.map normBind) w = bs.map normBind ++ (rawBinds [] w) := by
  simp [rawBinds]

theorem fmtBindStms_norm (p : Bytes) (bs : List Bind) (w : Option Exp) (hw : bs.all wfBind = true) :
    fmtBindStms p (rawBinds (bs.map normBind) w) = fmtBindStms p (rawBinds bs w) := by
  have e1 : rawBinds (bs.map normBind) w = bs.map normBind ++ rawBinds [] w := by simp [rawBinds]
  have e2 : rawBinds bs w = bs ++ rawBinds [] w := by simp [rawBinds]
  rw [fmtBindStms, fmtBindStms, e1, e2, idWidthGo_norm, fmtBindsGo_norm p _ _ bs hw]

theorem usingPrinted_norm (m : Mods) : usingPrinted (normMods m) = usingPrinted m := by
  rw [usingPrinted_eq, usingPrinted_eq, modList_normMods]

/-- **Idempotent, call statement** -/
theorem fmtCall2_norm (p : Bytes) (c : Call2) (hw : wfCall2 c = true) :
    fmtCall2 p (normCall2 c) = fmtCall2 p c := by
  obtain ⟨d, i, bs, w, m⟩ := c
  simp only [wfCall2, Bool.and_eq_true] at hw
  simp only [fmtCall2, fmtCallRaw, normCall2, isMap2, any_split_norm2, fmtBindStms_norm p bs w hw.1.1.2,
    usingPrinted_norm, modList_normMods, rawBinds_isEmpty, List.isEmpty_map]
  rfl

/-- **Idempotent, `return`** -/
theorem fmtReturn_norm (r : Ret) (hw : wfRet r = true) : fmtReturn (normRet r) = fmtReturn r := by
  obtain ⟨bs, w⟩ := r
  simp only [wfRet, Bool.and_eq_true] at hw
  simp only [fmtReturn, normRet, fmtBindStms_norm indent bs w hw.1.1]

theorem fmtCalls_norm : ∀ cs : List Call2, cs.all wfCall2 = true →
    fmtCalls (cs.map normCall2) = fmtCalls cs
  | [], _ => rfl
  | c :: cs, hw => by
    simp only [List.all_cons, Bool.and_eq_true] at hw
    simp only [List.map_cons, fmtCalls, fmtCall2_norm indent c hw.1, fmtCalls_norm cs hw.2]

/-- **Idempotent, pipeline body** -/
theorem fmtBody_norm (b : Body) (hw : wfBody b = true) : fmtBody (normBody b) = fmtBody b := by
  obtain ⟨cs, ret, rt⟩ := b
  simp only [wfBody, Bool.and_eq_true] at hw
  simp only [fmtBody, normBody, fmtCalls_norm cs hw.1.1, fmtReturn_norm ret hw.1.2]

/-! ## the Go loops on lists the parser does not build -/

/-- `BindStms.format` prints nothing after the wildcard binding, and does not measure it -/
theorem fmtBindStms_trunc (p : Bytes) (bs : List Bind) (e : Exp) (junk : List Bind)
    (h : ∀ b ∈ bs, b.id ≠ sStar) :
    fmtBindStms p (bs ++ wildBind e :: junk) = fmtBindStms p (bs ++ [wildBind e]) := by
  have hw : ∀ (bs : List Bind) (j : List Bind), (∀ b ∈ bs, b.id ≠ sStar) →
      idWidthGo (bs ++ wildBind e :: j) = idWidthGo (bs ++ [wildBind e]) := by
    intro bs j
    induction bs with
    | nil => intro _; simp [idWidthGo, wildBind]
    | cons b bs ih =>
      intro hb
      simp only [List.cons_append, idWidthGo, ih (fun b' hb' => hb b' (List.mem_cons_of_mem _ hb'))]
  have hf : ∀ (w : Nat) (bs : List Bind) (j : List Bind), (∀ b ∈ bs, b.id ≠ sStar) →
      fmtBindsGo p w (bs ++ wildBind e :: j) = fmtBindsGo p w (bs ++ [wildBind e]) := by
    intro w bs j
    induction bs with
    | nil => intro _; simp [fmtBindsGo, wildBind]
    | cons b bs ih =>
      intro hb
      simp only [List.cons_append, fmtBindsGo, ih (fun b' hb' => hb b' (List.mem_cons_of_mem _ hb'))]
  rw [fmtBindStms, fmtBindStms, hw bs junk h, hf _ bs junk h]

/-- a call without wildcard and modifiers at the top level is printed as in `Martian.FormatCall` -/
theorem fmtCall2_plain (c : Call) (h : c.binds.all wfBind = true) :
    fmtCall2 [] ⟨c.decId, c.id, c.binds, none, noMods⟩ = fmtCall c := by
  obtain ⟨d, i, bs⟩ := c
  have hw : ∀ bs : List Bind, bs.all wfBind = true → idWidthGo bs = idWidth bs := by
    intro bs
    induction bs with
    | nil => intro _; rfl
    | cons b bs ih =>
      intro hb
      simp only [List.all_cons, Bool.and_eq_true] at hb
      have hid : b.id ≠ sStar := by
        have := hb.1
        simp only [wfBind, Bool.and_eq_true] at this
        exact ne_star_of_isIdent this.1.1
      simp only [idWidthGo, idWidth, hid, ↓reduceIte, ih hb.2]
  have hf : ∀ (w : Nat) (bs : List Bind), bs.all wfBind = true → fmtBindsGo [] w bs = fmtBinds w bs := by
    intro w bs
    induction bs with
    | nil => intro _; rfl
    | cons b bs ih =>
      intro hb
      simp only [List.all_cons, Bool.and_eq_true] at hb
      have hid : b.id ≠ sStar := by
        have := hb.1
        simp only [wfBind, Bool.and_eq_true] at this
        exact ne_star_of_isIdent this.1.1
      simp [fmtBindsGo, fmtBinds, fmtBind, hid, ih hb.2]
  simp only at h
  have e1 : rawBinds bs none = bs := by simp [rawBinds]
  simp [fmtCall2, fmtCallRaw, fmtCall, isMap2, isMap, e1, usingPrinted, noMods, fmtBindStms, hw bs h,
    hf _ bs h]

end Martian.FormatCall2
