/-
C01 — soundness of the decidable type check `wellTypedRB` (the fragment of `wellTypedEB` plus map
calls in typed-map mode; sizes static or run-time).
-/
import Proofs.ResolverStaticDisCheck
import Proofs.ResolverStaticRun

namespace Proofs.ResolverStatic
open Martian.Dataflow Martian.Resolver Martian.ResolverForks Martian.ResolverStatic Proofs.Dataflow

/-- the typed-map-free part of a projection does not depend on the array nesting -/
theorem pathTy_arr_indep (st : StructTable) : ∀ (path : List String) (b : String) (a a' : Nat),
    (pathTy st ⟨b, 0, a⟩ path).mapDim = (pathTy st ⟨b, 0, a'⟩ path).mapDim ∧
    (pathTy st ⟨b, 0, a⟩ path).base = (pathTy st ⟨b, 0, a'⟩ path).base ∧
    (FieldsExist st ⟨b, 0, a⟩ path ↔ FieldsExist st ⟨b, 0, a'⟩ path)
  | [], _, _, _ => ⟨rfl, rfl, Iff.rfl⟩
  | f :: r, b, a, a' => by
    simp only [pathTy, FieldsExist]
    cases hf : fieldTy st b f with
    | none =>
      simp only [Martian.Dataflow.projTy1, hf]
      have := pathTy_arr_indep st r "?" a a'
      exact ⟨this.1, this.2.1, by simp⟩
    | some ft =>
      simp only [Martian.Dataflow.projTy1, hf, if_true, Option.isSome_some, true_and]
      cases hm : ft.mapDim with
      | zero =>
        exact pathTy_arr_indep st r ft.base (ft.arrDim + a) (ft.arrDim + a')
      | succ k =>
        -- a typed-map field: the rest of the path does not see the array nesting at all
        exact pathTy_map_arr_indep st r ft.base (k + 1) (ft.arrDim + a) (ft.arrDim + a')
where
  pathTy_map_arr_indep (st : StructTable) : ∀ (path : List String) (b : String) (m a a' : Nat),
      (pathTy st ⟨b, m, a⟩ path).mapDim = (pathTy st ⟨b, m, a'⟩ path).mapDim ∧
      (pathTy st ⟨b, m, a⟩ path).base = (pathTy st ⟨b, m, a'⟩ path).base ∧
      (FieldsExist st ⟨b, m, a⟩ path ↔ FieldsExist st ⟨b, m, a'⟩ path)
    | [], _, _, _, _ => ⟨rfl, rfl, Iff.rfl⟩
    | f :: r, b, m, a, a' => by
      simp only [pathTy, FieldsExist]
      cases hf : fieldTy st b f with
      | none =>
        simp only [Martian.Dataflow.projTy1, hf]
        have := pathTy_map_arr_indep st r "?" m a a'
        exact ⟨this.1, this.2.1, by simp⟩
      | some ft =>
        simp only [Martian.Dataflow.projTy1, hf, Option.isSome_some, true_and]
        by_cases hm : m = 0
        · simp only [hm, if_true]
          have h1 := pathTy_map_arr_indep st r ft.base ft.mapDim (ft.arrDim + a) (ft.arrDim + a')
          exact h1
        · simp only [hm, if_false]
          exact pathTy_map_arr_indep st r ft.base (m + ft.arrDim) a a'

theorem NoMapBelow.arr_shift {st : StructTable} {b : String} {a : Nat} (h : NoMapBelow st ⟨b, 0, a⟩) (a' : Nat) :
    NoMapBelow st ⟨b, 0, a'⟩ := by
  intro path hp
  obtain ⟨h1, _, h3⟩ := pathTy_arr_indep st path b a' a
  rw [h1]
  exact h path (h3.mp hp)

theorem noMapBelowB_sound (st : StructTable) (hst : StructsOk st) :
    ∀ (n : Nat) (t : Ty), noMapBelowB st n t = true → NoMapBelow st t
  | 0, _, h => by simp [noMapBelowB] at h
  | n+1, t, h => by
    simp only [noMapBelowB, Bool.and_eq_true, beq_iff_eq] at h
    obtain ⟨hm, hrest⟩ := h
    intro path hp
    cases path with
    | nil => exact hm
    | cons f r =>
      simp only [FieldsExist] at hp
      simp only [pathTy]
      cases hf : fieldTy st t.base f with
      | none => simp [hf] at hp
      | some ft =>
        obtain ⟨ps, p, hl, hpm, hpn, hpt, _⟩ := fieldTy_mem st _ _ _ hf
        rw [hl] at hrest
        simp only [List.all_eq_true] at hrest
        have ih := noMapBelowB_sound st hst n p.ty (hrest p hpm)
        rw [hpt] at ih
        have hft0 : ft.mapDim = 0 := ih.mapDim
        have e : Martian.Dataflow.projTy1 st t f = ⟨ft.base, 0, ft.arrDim + t.arrDim⟩ := by
          simp only [Martian.Dataflow.projTy1, hf, hm, if_true]
          cases ft; simp_all
        rw [e] at hp ⊢
        have ih' : NoMapBelow st ⟨ft.base, 0, ft.arrDim⟩ := by
          have : ft = ⟨ft.base, 0, ft.arrDim⟩ := by cases ft; simp_all
          rw [← this]; exact ih
        exact (ih'.arr_shift (ft.arrDim + t.arrDim)) r hp.2

theorem mappedOkKB_sound (st : StructTable) (hst : StructsOk st) (n : Nat) (P : Program) (sT cT : String → Ty)
    (c : Call) (h : mappedOkKB st n P sT cT c = true) : MappedOkK st P sT cT c := by
  simp only [mappedOkKB, Bool.and_eq_true, Option.isNone_iff_eq_none, List.any_eq_true, List.all_eq_true,
    decide_eq_true_eq, Bool.or_eq_true, Bool.not_eq_true', beq_iff_eq] at h
  obtain ⟨⟨⟨⟨⟨hm, hd⟩, hex⟩, hnd⟩, hpar⟩, hty⟩ := h
  refine ⟨hm, hd, ?_, ?_, ?_, ?_⟩
  · obtain ⟨b, hb, hs⟩ := hex
    exact ⟨b, hb, hs⟩
  · intro b hb hs
    cases hpar b hb with
    | inl h0 => rw [h0] at hs; cases hs
    | inr h0 =>
      obtain ⟨p, hp, hpn⟩ := h0
      refine ⟨p, hp, ?_⟩
      rw [hpn]
      exact find_key_of_nodup c.binds (·.param) hnd b hb
  · intro p hp b hb
    have := hty p hp
    simp only [hb, Bool.and_eq_true] at this
    exact hasTyB_sound st n sT cT b.exp _ this.1
  · intro p hp b hb hs
    have := hty p hp
    simp only [hb, Bool.and_eq_true, Bool.or_eq_true, Bool.not_eq_true'] at this
    cases this.2 with
    | inl h0 => rw [h0] at hs; cases hs
    | inr h0 => exact noMapBelowB_sound st hst _ _ h0

theorem callsOkRB_sound (st : StructTable) (hst : StructsOk st) (n : Nat) (P : Program) (sT : String → Ty) :
    ∀ (cs : List Call) (L : List (String × Ty)), callsOkRB st n P sT L cs = true → CallsOkR st P sT L cs
  | [], _, _ => trivial
  | c :: cs, L, h => by
    simp only [callsOkRB, Bool.and_eq_true, callOkRB, callOkTB, Bool.or_eq_true, List.all_eq_true,
      Bool.not_eq_true'] at h
    refine ⟨⟨callCleanB_sound c h.1.1, ?_⟩, callsOkRB_sound st hst n P sT cs _ h.2⟩
    rcases h.1.2 with ((h1 | h1) | h1) | h1
    · exact Or.inl ⟨callOkB_sound st n P.insOf sT _ c (by rw [← callTyOfB_eq]; exact h1.1), h1.2⟩
    · exact Or.inr (Or.inl (mappedOkTB_sound st n P sT _ c (by rw [← callTyOfB_eq]; exact h1)))
    · exact Or.inr (Or.inr (Or.inl (disabledOkEB_sound st n P sT _ c (by rw [← callTyOfB_eq]; exact h1))))
    · exact Or.inr (Or.inr (Or.inr (mappedOkKB_sound st hst n P sT _ c (by rw [← callTyOfB_eq]; exact h1))))

theorem wellTypedRB_sound (P : Program) (h : wellTypedRB P = true) : WellTypedR P := by
  simp only [wellTypedRB, Bool.and_eq_true, List.all_eq_true, beq_iff_eq, Bool.not_eq_true'] at h
  obtain ⟨⟨⟨⟨⟨h1, h2⟩, h3⟩, h4⟩, h5⟩, h6⟩ := h
  have hst := structsOkB_sound _ h1
  refine ⟨hst, ?_, ?_, ?_⟩
  · intro name c hl
    exact h2 (name, c) (mem_of_lookup _ _ _ hl)
  · intro name pins outs calls ret hl
    have := h3 (name, _) (mem_of_lookup _ _ _ hl)
    simp only [pipelineOkRB, Bool.and_eq_true, List.all_eq_true] at this
    refine ⟨callsOkRB_sound _ hst _ _ _ calls [] (by rw [← selfTyOfB_eq]; exact this.1), ?_⟩
    intro p hp e he
    have h7 := this.2 p hp
    simp only [he, Bool.and_eq_true] at h7
    exact ⟨h7.1, hasTyB_sound _ _ _ _ e p.ty h7.2⟩
  · exact ⟨callOkB_sound _ _ _ _ _ _ h4, h5, h6⟩

end Proofs.ResolverStatic
