/-
C09: the exact domain of the resource round trip (`gbRoundTrips`, third audit A10): true below
256 GB and for every whole number of GB up to 64 TB; what it gives the stage reader.
-/
import Proofs.FormatStageRangeGB32

namespace Martian.FormatRes
open Martian.Lexer (Bytes parseInt numTok)
open Martian.FormatExp

theorem gbRoundTrips_lt63 {mb : Int} (h : gbRoundTrips mb = true) : mb.natAbs < 2 ^ 63 := by
  simp only [gbRoundTrips, Bool.and_eq_true, decide_eq_true_eq] at h
  exact h.1

/-- on the token `formatGB` prints, the real reader returns `mb` -/
theorem gbRoundTrips_tok {mb : Int} (h : gbRoundTrips mb = true) : readGB32Tok (tokGB mb) = some mb := by
  have hb := gbRoundTrips_lt63 h
  simp only [gbRoundTrips, Bool.and_eq_true, beq_iff_eq] at h
  have h2 := h.2
  unfold readGB32 at h2
  rw [numTok_fmtGB mb hb] at h2
  unfold tokGB
  by_cases hm : mb.natAbs % 1024 = 0
  · simp only [hm, ↓reduceIte] at h2 ⊢; exact h2
  · simp only [hm, ↓reduceIte] at h2 ⊢; exact h2

theorem gbRoundTrips_of_tok {mb : Int} (hb : mb.natAbs < 2 ^ 63) (h : readGB32Tok (tokGB mb) = some mb) :
    gbRoundTrips mb = true := by
  simp only [gbRoundTrips, Bool.and_eq_true, decide_eq_true_eq, beq_iff_eq]
  refine ⟨hb, ?_⟩
  unfold readGB32
  rw [numTok_fmtGB mb hb]
  unfold tokGB at h
  by_cases hm : mb.natAbs % 1024 = 0
  · simp only [hm, ↓reduceIte] at h ⊢; exact h
  · simp only [hm, ↓reduceIte] at h ⊢; exact h

/-- below 256 GB every value round-trips -/
theorem gbRoundTrips_of_lt (mb : Int) (hb : mb.natAbs < 262144) : gbRoundTrips mb = true :=
  gbRoundTrips_of_tok (Nat.lt_of_lt_of_le hb (by decide)) (readGB32Tok_fmtGB mb hb)

/-! ## whole numbers of GB: `formatGB` prints an integer, which float32 holds exactly -/

def wholeOK (lo hi : Nat) : Bool :=
  (List.range (hi - lo)).all (fun i => f32MB (f32Round (lo + i) 1) == (lo + i) * 1024)

set_option maxRecDepth 100000 in
theorem whole_s0 : wholeOK 0 16384 = true := by decide +kernel
set_option maxRecDepth 100000 in
theorem whole_s1 : wholeOK 16384 32768 = true := by decide +kernel
set_option maxRecDepth 100000 in
theorem whole_s2 : wholeOK 32768 49152 = true := by decide +kernel
set_option maxRecDepth 100000 in
theorem whole_s3 : wholeOK 49152 65536 = true := by decide +kernel

theorem wholeOK_at {lo hi I : Nat} (h : wholeOK lo hi = true) (h1 : lo ≤ I) (h2 : I < hi) :
    f32MB (f32Round I 1) = I * 1024 := by
  simp only [wholeOK, List.all_eq_true, List.mem_range, beq_iff_eq] at h
  have := h (I - lo) (by omega)
  have e : lo + (I - lo) = I := by omega
  rw [e] at this
  exact this

theorem gb32_whole64T {I : Nat} (hI : I < 65536) : f32MB (f32Round I 1) = I * 1024 := by
  by_cases h0 : I < 16384
  · exact wholeOK_at whole_s0 (by omega) h0
  · by_cases h1 : I < 32768
    · exact wholeOK_at whole_s1 (by omega) h1
    · by_cases h2 : I < 49152
      · exact wholeOK_at whole_s2 (by omega) h2
      · exact wholeOK_at whole_s3 (by omega) hI

/-- every whole number of GB up to 64 TB (either sign) round-trips -/
theorem gbRoundTrips_whole (k : Int) (hk : k.natAbs < 65536) : gbRoundTrips (1024 * k) = true := by
  have hb63 : (1024 * k).natAbs < 2 ^ 63 := by
    have : (2 : Nat) ^ 63 = 9223372036854775808 := by decide
    omega
  apply gbRoundTrips_of_tok hb63
  have hm : (1024 * k).natAbs % 1024 = 0 := by omega
  have hdiv : (1024 * k) / 1024 = k := by omega
  simp only [tokGB, hm, ↓reduceIte, readGB32Tok]
  rw [fmtGB_whole (1024 * k) hm, hdiv, (fmtInt_lex k (by
    simp only [Martian.Lexer.inInt64, Bool.and_eq_true, decide_eq_true_eq]; omega)).2]
  simp only [Option.map_some, Option.some.injEq, gb32_whole64T hk]
  split <;> omega

end Martian.FormatRes
