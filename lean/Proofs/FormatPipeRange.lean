import Proofs.FormatCallRange2

/-!
C09, accepted texts of pipelines: the RANGE of the parameter-list readers of
`Martian.FormatDecl` as `pPipeline` uses them (`pType`, `pInParam`, `pOutParam`,
`pInParams`, `pOutParams`: whatever they return satisfies `pipeParamRaw` = `wfParam`
without the validity of the help text and the out name) and of `pPipeline` /
`parsePipeline` (`wfPipelineRaw`).

Core Lean only.
-/

namespace Martian.FormatCallText
open Martian.Lexer (Bytes unquoteBytes)
open Martian.FormatExp Martian.FormatCall2 Martian.FormatDecl Martian.FormatPipe

theorem pArr_range (ts : List Tok) (h : ts.all tokOK = true) : (pArr ts).2.all tokOK = true := by
  fun_induction pArr ts with
  | case1 a b r hc ih => exact ih (all_tokOK_tail (all_tokOK_tail h))
  | case2 a b r hc => exact h
  | case3 r hr => exact h

theorem all_tokOK_drop1 {ts : List Tok} (h : ts.all tokOK = true) : (ts.drop 1).all tokOK = true := by
  cases ts with
  | nil => exact h
  | cons t r => exact all_tokOK_tail h

/-- a base type name the reader returns: one builtin keyword, or a non-empty list of identifiers -/
def baseOK (n : List Bytes) : Prop :=
  (∃ w, n = [w] ∧ isNonMapBuiltin w = true) ∨ (∃ x xs, n = x :: xs ∧ (x :: xs).all isIdent = true)

theorem wfType_of_base {n : List Bytes} (hn : baseOK n) (a m : Nat) (ha : a ≤ 32767) (hm : m ≤ 32767) :
    wfType ⟨n, a, m⟩ = true := by
  rcases hn with ⟨w, rfl, hw⟩ | ⟨x, xs, rfl, hx⟩
  · simp [wfType, hw, ha, hm]
  · cases xs with
    | nil =>
      simp only [List.all_cons, List.all_nil, Bool.and_true] at hx
      simp [wfType, hx, ha, hm]
    | cons y ys =>
      simp only [wfType, hx, Bool.true_and, Bool.and_eq_true, decide_eq_true_eq]
      exact ⟨ha, hm⟩

theorem wfType_map (a : Nat) (ha : a ≤ 32767) : wfType ⟨[sMap], a, 0⟩ = true := by
  simp [wfType, ha]

theorem pBase_range (f : Nat) (ts : List Tok) (n : List Bytes) (rest : List Tok) (hts : ts.all tokOK = true)
    (h : pBase f ts = some (n, rest)) : baseOK n ∧ rest.all tokOK = true := by
  unfold pBase at h
  split at h
  · rename_i w r
    split at h
    · rename_i hw
      simp only [Option.some.injEq, Prod.mk.injEq] at h
      obtain ⟨rfl, rfl⟩ := h
      exact ⟨Or.inl ⟨w, rfl, hw⟩, all_tokOK_tail hts⟩
    · cases h
  · rename_i x r
    simp only [List.all_cons, Bool.and_eq_true] at hts
    cases hd : pDots f r with
    | none => simp [hd] at h
    | some p =>
      obtain ⟨xs, r'⟩ := p
      simp only [hd, Option.map_some, Option.some.injEq, Prod.mk.injEq] at h
      obtain ⟨rfl, rfl⟩ := h
      have ⟨hxs, hr'⟩ := pDots_range f r xs r' hts.2 hd
      refine ⟨Or.inr ⟨x, xs, rfl, ?_⟩, hr'⟩
      simp only [List.all_cons, Bool.and_eq_true]
      exact ⟨by simpa [tokOK] using hts.1, hxs⟩
  · cases h

theorem pPlain_range (n : List Bytes) (r : List Tok) (t : TypeId) (rest : List Tok)
    (hn : baseOK n ∨ n = [sMap]) (hr : r.all tokOK = true) (h : pPlain n r = some (t, rest)) :
    wfType t = true ∧ rest.all tokOK = true := by
  unfold pPlain at h
  split at h
  · rename_i ha
    simp only [Option.some.injEq, Prod.mk.injEq] at h
    obtain ⟨rfl, rfl⟩ := h
    refine ⟨?_, pArr_range r hr⟩
    rcases hn with hn | rfl
    · exact wfType_of_base hn _ _ ha (by omega)
    · exact wfType_map _ ha
  · cases h

theorem pMapArg_range (f : Nat) (r : List Tok) (t : TypeId) (rest : List Tok) (hr : r.all tokOK = true)
    (h : pMapArg f r = some (t, rest)) : wfType t = true ∧ rest.all tokOK = true := by
  unfold pMapArg at h
  split at h
  · rename_i n r1 hb
    have ⟨hn, hr1⟩ := pBase_range f r n r1 hr hb
    split at h
    · rename_i hc
      simp only [Bool.and_eq_true, decide_eq_true_eq] at hc
      simp only [Option.some.injEq, Prod.mk.injEq] at h
      obtain ⟨rfl, rfl⟩ := h
      exact ⟨wfType_of_base hn _ _ hc.2 (by omega),
        pArr_range _ (all_tokOK_drop1 (pArr_range r1 hr1))⟩
    · cases h
  · cases h

/-- range of `type_id`: a builtin keyword (`map` only bare or with a type argument), or a dotted
list of identifiers; the dimensions fit `int16` -/
theorem pType_range (f : Nat) (ts : List Tok) (t : TypeId) (rest : List Tok) (hts : ts.all tokOK = true)
    (h : pType f ts = some (t, rest)) : wfType t = true ∧ rest.all tokOK = true := by
  unfold pType at h
  split at h
  · rename_i w r
    have hr := all_tokOK_tail hts
    split at h
    · split at h
      · exact pMapArg_range f _ t rest (all_tokOK_drop1 hr) h
      · exact pPlain_range _ r t rest (Or.inr rfl) hr h
    · split at h
      · rename_i hw
        exact pPlain_range _ r t rest (Or.inl (Or.inl ⟨w, rfl, hw⟩)) hr h
      · cases h
  · rename_i x r
    simp only [List.all_cons, Bool.and_eq_true] at hts
    split at h
    · rename_i xs r1 hd
      have ⟨hxs, hr1⟩ := pDots_range f r xs r1 hts.2 hd
      refine pPlain_range _ r1 t rest (Or.inl (Or.inr ⟨x, xs, rfl, ?_⟩)) hr1 h
      simp only [List.all_cons, Bool.and_eq_true]
      exact ⟨by simpa [tokOK] using hts.1, hxs⟩
    · cases h
  · cases h

theorem pInTail_range (ts : List Tok) (hp : Bytes) (rest : List Tok) (hts : ts.all tokOK = true)
    (h : pInTail ts = some (hp, rest)) : rest.all tokOK = true := by
  unfold pInTail at h
  split at h
  · split at h
    · simp only [Option.some.injEq, Prod.mk.injEq] at h
      obtain ⟨_, rfl⟩ := h
      exact all_tokOK_tail hts
    · cases h
  · rename_i s c r
    split at h
    · cases hu : unquoteBytes s with
      | none => simp [hu] at h
      | some h' =>
        simp only [hu, Option.map_some, Option.some.injEq, Prod.mk.injEq] at h
        obtain ⟨_, rfl⟩ := h
        exact all_tokOK_tail (all_tokOK_tail hts)
    · cases h
  · cases h

theorem pTail_range (ts : List Tok) (hp o : Bytes) (rest : List Tok) (hts : ts.all tokOK = true)
    (h : pTail ts = some (hp, o, rest)) : rest.all tokOK = true := by
  unfold pTail at h
  split at h
  · split at h
    · simp only [Option.some.injEq, Prod.mk.injEq] at h
      obtain ⟨_, _, rfl⟩ := h
      exact all_tokOK_tail hts
    · cases h
  · rename_i s c r
    split at h
    · cases hu : unquoteBytes s with
      | none => simp [hu] at h
      | some h' =>
        simp only [hu, Option.map_some, Option.some.injEq, Prod.mk.injEq] at h
        obtain ⟨_, _, rfl⟩ := h
        exact all_tokOK_tail (all_tokOK_tail hts)
    · cases h
  · rename_i s o' c r
    split at h
    · split at h
      · simp only [Option.some.injEq, Prod.mk.injEq] at h
        obtain ⟨_, _, rfl⟩ := h
        exact all_tokOK_tail (all_tokOK_tail (all_tokOK_tail hts))
      · cases h
    · cases h
  · cases h

/-- range of `in_param`: an input, the id an identifier, no out name -/
theorem pInParam_range (f : Nat) (ts : List Tok) (p : Param) (rest : List Tok) (hts : ts.all tokOK = true)
    (h : pInParam f ts = some (p, rest)) :
    pipeParamRaw p = true ∧ p.out = false ∧ rest.all tokOK = true := by
  unfold pInParam at h
  split at h
  · rename_i w ts'
    split at h
    · split at h
      · rename_i t x r ht
        have ⟨hwt, hr⟩ := pType_range f ts' t _ (all_tokOK_tail hts) ht
        simp only [List.all_cons, Bool.and_eq_true] at hr
        have hx : isIdent x = true := by simpa [tokOK] using hr.1
        cases hti : pInTail r with
        | none => simp [hti] at h
        | some q =>
          obtain ⟨hp, r'⟩ := q
          simp only [hti, Option.map_some, Option.some.injEq, Prod.mk.injEq] at h
          obtain ⟨rfl, rfl⟩ := h
          exact ⟨by simp [pipeParamRaw, hwt, hx], rfl, pInTail_range r hp r' hr.2 hti⟩
      · cases h
    · cases h
  · cases h

/-- range of `out_param`: an output, the id an identifier or `default` (unnamed) -/
theorem pOutParam_range (f : Nat) (ts : List Tok) (p : Param) (rest : List Tok) (hts : ts.all tokOK = true)
    (h : pOutParam f ts = some (p, rest)) :
    pipeParamRaw p = true ∧ p.out = true ∧ rest.all tokOK = true := by
  unfold pOutParam at h
  split at h
  · rename_i w ts'
    split at h
    · split at h
      · rename_i t x r ht
        have ⟨hwt, hr⟩ := pType_range f ts' t _ (all_tokOK_tail hts) ht
        simp only [List.all_cons, Bool.and_eq_true] at hr
        have hx : isIdent x = true := by simpa [tokOK] using hr.1
        cases hti : pTail r with
        | none => simp [hti] at h
        | some q =>
          obtain ⟨hp, o, r'⟩ := q
          simp only [hti, Option.map_some, Option.some.injEq, Prod.mk.injEq] at h
          obtain ⟨rfl, rfl⟩ := h
          exact ⟨by simp [pipeParamRaw, hwt, hx], rfl, pTail_range r hp o r' hr.2 hti⟩
      · rename_i t r _ ht
        have ⟨hwt, hr⟩ := pType_range f ts' t _ (all_tokOK_tail hts) ht
        cases hti : pTail r with
        | none => simp [hti] at h
        | some q =>
          obtain ⟨hp, o, r'⟩ := q
          simp only [hti, Option.map_some, Option.some.injEq, Prod.mk.injEq] at h
          obtain ⟨rfl, rfl⟩ := h
          exact ⟨by simp [pipeParamRaw, hwt], rfl, pTail_range r hp o r' hr hti⟩
      · cases h
    · cases h
  · cases h

theorem pInParams_range : ∀ (f : Nat) (ts : List Tok) (ps : List Param) (rest : List Tok),
    ts.all tokOK = true → pInParams f ts = some (ps, rest) →
    ps.all pipeParamRaw = true ∧ ps.all (fun q => !q.out) = true ∧ rest.all tokOK = true
  | 0, _, _, _, _, h => by simp [pInParams] at h
  | f + 1, ts, ps, rest, hts, h => by
    unfold pInParams at h
    split at h
    · split at h
      · rename_i p r hp
        have ⟨h1, h2, hr⟩ := pInParam_range f ts p r hts hp
        cases hrec : pInParams f r with
        | none => simp [hrec] at h
        | some q =>
          obtain ⟨ps', r'⟩ := q
          simp only [hrec, Option.map_some, Option.some.injEq, Prod.mk.injEq] at h
          obtain ⟨rfl, rfl⟩ := h
          have ⟨i1, i2, i3⟩ := pInParams_range f r ps' r' hr hrec
          exact ⟨by simp only [List.all_cons, Bool.and_eq_true]; exact ⟨h1, i1⟩,
            by simp only [List.all_cons, Bool.and_eq_true]; exact ⟨by simp [h2], i2⟩, i3⟩
      · cases h
    · simp only [Option.some.injEq, Prod.mk.injEq] at h
      obtain ⟨rfl, rfl⟩ := h
      exact ⟨rfl, rfl, hts⟩

theorem pOutParams_range : ∀ (f : Nat) (ts : List Tok) (ps : List Param) (rest : List Tok),
    ts.all tokOK = true → pOutParams f ts = some (ps, rest) →
    ps.all pipeParamRaw = true ∧ ps.all (fun q => q.out) = true ∧ rest.all tokOK = true
  | 0, _, _, _, _, h => by simp [pOutParams] at h
  | f + 1, ts, ps, rest, hts, h => by
    unfold pOutParams at h
    split at h
    · split at h
      · rename_i p r hp
        have ⟨h1, h2, hr⟩ := pOutParam_range f ts p r hts hp
        cases hrec : pOutParams f r with
        | none => simp [hrec] at h
        | some q =>
          obtain ⟨ps', r'⟩ := q
          simp only [hrec, Option.map_some, Option.some.injEq, Prod.mk.injEq] at h
          obtain ⟨rfl, rfl⟩ := h
          have ⟨i1, i2, i3⟩ := pOutParams_range f r ps' r' hr hrec
          exact ⟨by simp only [List.all_cons, Bool.and_eq_true]; exact ⟨h1, i1⟩,
            by simp only [List.all_cons, Bool.and_eq_true]; exact ⟨h2, i2⟩, i3⟩
      · cases h
    · simp only [Option.some.injEq, Prod.mk.injEq] at h
      obtain ⟨rfl, rfl⟩ := h
      exact ⟨rfl, rfl, hts⟩

/-- **Range of the pipeline reader** -/
theorem pPipeline_range' (ts : List Tok) (p : Pipeline) (rest : List Tok) (hts : ts.all tokOK = true)
    (h : pPipeline ts = some (p, rest)) : wfPipelineRaw p = true ∧ rest.all tokOK = true := by
  unfold pPipeline at h
  generalize ts.length = n at h
  split at h
  · rename_i k x r
    simp only [List.all_cons, Bool.and_eq_true] at hts
    have hx : isIdent x = true := by simpa [tokOK] using hts.2.1
    split at h
    · split at h
      · rename_i ins r1 hi
        have ⟨hi1, hi2, hr1⟩ := pInParams_range _ r ins r1 hts.2.2.2 hi
        split at h
        · rename_i outs r2 ho
          have ⟨ho1, ho2, hr2⟩ := pOutParams_range _ r1 outs _ hr1 ho
          split at h
          · rename_i b r3 hb
            have ⟨hwb, hr3⟩ := pBody_range r2 b r3 (all_tokOK_tail (all_tokOK_tail hr2)) hb
            simp only [Option.some.injEq, Prod.mk.injEq] at h
            obtain ⟨rfl, rfl⟩ := h
            exact ⟨by simp only [wfPipelineRaw, hx, hi1, hi2, ho1, ho2, hwb, Bool.and_self], hr3⟩
          · cases h
        · cases h
      · cases h
    · cases h
  · cases h

theorem pPipeline_range (ts : List Tok) (p : Pipeline) (rest : List Tok)
    (hts : ∀ tok ∈ ts, tokOK tok = true) (h : pPipeline ts = some (p, rest)) : wfPipelineRaw p = true :=
  (pPipeline_range' ts p rest (List.all_eq_true.mpr hts) h).1

theorem parsePipeline_range (src : Bytes) (p : Pipeline) (h : parsePipeline src = some p) :
    wfPipelineRaw p = true := by
  unfold parsePipeline at h
  cases hl : lexAll src with
  | none => simp [hl] at h
  | some ts =>
    simp only [hl, Option.bind_some] at h
    split at h
    · rename_i p' hp
      injection h with h; subst h
      exact pPipeline_range ts _ [] (range_lexAll src ts hl) hp
    · cases h

theorem parseBody_range (src : Bytes) (b : Body) (h : parseBody src = some b) : wfBodyRaw b = true := by
  unfold parseBody at h
  cases hl : lexAll src with
  | none => simp [hl] at h
  | some ts =>
    simp only [hl, Option.bind_some] at h
    split at h
    · rename_i b' hp
      injection h with h; subst h
      exact (pBody_range ts _ [] (List.all_eq_true.mpr (range_lexAll src ts hl)) hp).1
    · cases h

end Martian.FormatCallText
