import Martian.Vdr
import Proofs.VdrInv
import Proofs.VdrNonVol
import Proofs.VdrShrink
import Proofs.VdrExact

/-! Temp directories are gone once a fork is final. -/
namespace Martian.Vdr

/-- the phases whose temp entries a complete-state pass cleans -/
def Needed (c : Cfg) (ph : Nat) : Prop := ph < 3 ∧ (ph ≠ 0 ∨ c.splits = true)

def Ready (c : Cfg) (s : St) : Prop := ∀ ph, Needed c ph → ph ∈ s.ran

structure TInv (c : Cfg) (s : St) : Prop where
  clean : ∀ ph ∈ s.ran, ∀ d ∈ s.disk, d.kind ≠ .tmp ph
  fin : s.final = true → Ready c s

theorem TInv.frame {c : Cfg} {s s' : St} (t : TInv c s) (f : Frame s s') : TInv c s' := by
  refine ⟨?_, ?_⟩
  · intro ph hp d hd; rw [f.ran] at hp; rw [f.disk] at hd; exact t.clean ph hp d hd
  · intro hf ph hn; rw [f.ran]; exact t.fin (f.final ▸ hf) ph hn

/-- same cleaned phases, fewer entries, final only if ready -/
theorem TInv.shrink {c : Cfg} {s s' : St} (t : TInv c s) (hr : s'.ran = s.ran)
    (hd : ∀ d ∈ s'.disk, d ∈ s.disk) (hf : s'.final = true → Ready c s) : TInv c s' := by
  refine ⟨?_, ?_⟩
  · intro ph hp d hdd; rw [hr] at hp; exact t.clean ph hp d (hd d hdd)
  · intro h ph hn; rw [hr]; exact hf h ph hn

theorem cleanPhase_ran_mono (c : Cfg) (s : St) (ph : Nat) : ∀ x ∈ s.ran, x ∈ (cleanPhase c s ph).ran := by
  intro x hx
  unfold cleanPhase
  split
  · exact hx
  · exact List.mem_cons_of_mem _ hx

theorem cleanPhase_adds (c : Cfg) (s : St) (ph : Nat) (h : ph ≠ 0 ∨ c.splits = true) :
    ph ∈ (cleanPhase c s ph).ran := by
  unfold cleanPhase
  split
  · rename_i hc
    simp only [Bool.or_eq_true, Bool.and_eq_true, beq_iff_eq, Bool.not_eq_true'] at hc
    rcases hc with hc | ⟨h0, hs⟩
    · simpa using hc
    · rcases h with h | h
      · exact absurd h0 h
      · rw [hs] at h; cases h
  · exact List.mem_cons_self

theorem cleanPhase_final (c : Cfg) (s : St) (ph : Nat) : (cleanPhase c s ph).final = s.final := by
  unfold cleanPhase; split <;> rfl

theorem TInv.cleanPhase {c : Cfg} {s : St} (t : TInv c s) (ph : Nat) : TInv c (cleanPhase c s ph) := by
  refine ⟨?_, ?_⟩
  · unfold Martian.Vdr.cleanPhase
    split
    · exact t.clean
    · intro x hx d hd
      have hd' := List.mem_filter.mp hd
      rcases List.mem_cons.mp hx with rfl | hx
      · intro e; rw [e] at hd'; simp at hd'
      · exact t.clean x hx d hd'.1
  · intro hf x hn
    rw [cleanPhase_final] at hf
    exact cleanPhase_ran_mono c s ph x (t.fin hf x hn)

theorem TInv.cleanTmp {c : Cfg} {s : St} (t : TInv c s) (upto : Nat) : TInv c (cleanTmp c s upto) := by
  rw [cleanTmp_eq]
  generalize List.range upto = l
  induction l generalizing s with
  | nil => exact t
  | cons y r ih => exact ih (t.cleanPhase y)

theorem cleanTmp3_ready (c : Cfg) (s : St) : Ready c (cleanTmp c s 3) := by
  have h3 : List.range 3 = [0, 1, 2] := by decide
  rw [cleanTmp_eq, h3]
  simp only [List.foldl_cons, List.foldl_nil]
  intro ph ⟨hlt, hne⟩
  have h012 : ph = 0 ∨ ph = 1 ∨ ph = 2 := by omega
  rcases h012 with rfl | rfl | rfl
  · apply cleanPhase_ran_mono; apply cleanPhase_ran_mono; exact cleanPhase_adds c s 0 hne
  · apply cleanPhase_ran_mono; exact cleanPhase_adds c _ 1 (Or.inl (by decide))
  · exact cleanPhase_adds c _ 2 (Or.inl (by decide))

theorem cacheMap_ran (c : Cfg) (s : St) : (cacheMap c s).ran = s.ran := by
  unfold cacheMap
  have f1 : Frame s (dropNoFiles c s) := foldRemove_frame (fun a => (c.filesOf a).isEmpty) s.dom s
  have f2 : Frame (dropNoFiles c s) (dropUnused (cacheEntries c s) (dropNoFiles c s)) :=
    foldRemove_frame (fun a => !((cacheEntries c s).any (fun e => e.args.contains a))) _ _
  show (dropUnused (cacheEntries c s) (dropNoFiles c s)).ran = s.ran
  rw [f2.ran, f1.ran]

theorem normCache_ran (c : Cfg) (s : St) : (normCache c s).ran = s.ran := by
  unfold normCache
  split
  · exact cacheMap_ran c s
  · rfl

theorem vdrKillSome_ran (c : Cfg) (s : St) (done : Bool) : (vdrKillSome c s done).ran = s.ran := by
  unfold vdrKillSome
  dsimp only
  split
  · split
    · exact normCache_ran c s
    · exact normCache_ran c s
  · split
    · exact normCache_ran c s
    · exact normCache_ran c s

theorem vdrKill_ran (c : Cfg) (s : St) : (vdrKill c s).ran = s.ran := by
  unfold vdrKill
  split
  · rfl
  · split
    · exact vdrKillSome_ran c s true
    · rfl

theorem TInv.kill {c : Cfg} {s : St} (t : TInv c s) : TInv c (kill c s) := by
  unfold Martian.Vdr.kill
  split
  · exact t
  · dsimp only
    have t1 := t.cleanTmp 3
    have rd := cleanTmp3_ready c s
    generalize Martian.Vdr.cleanTmp c s 3 = s1 at *
    have f2 := removePostNodes_frame ((s1.postNodes.map (·.1)).filter (fun n => s1.doneNodes.contains n)) s1
    have t2 := t1.frame f2
    have rd2 : Ready c (removePostNodes s1 ((s1.postNodes.map (·.1)).filter (fun n => s1.doneNodes.contains n))) := by
      intro ph hn; rw [f2.ran]; exact rd ph hn
    generalize removePostNodes s1 _ = s2 at *
    split
    · split
      · exact t2.shrink (vdrKillSome_ran c s2 true) (shr_vdrKillSome c s2 true).disk (fun _ => rd2)
      · exact t2.shrink (vdrKill_ran c s2) (shr_vdrKill c s2).disk (fun _ => rd2)
    · split
      · exact t2.shrink (vdrKillSome_ran c s2 false) (shr_vdrKillSome c s2 false).disk (fun _ => rd2)
      · exact t2

theorem TInv.step {c : Cfg} {s : St} (t : TInv c s) (e : Ev) : TInv c (step c s e) := by
  cases e with
  | nodeDone n => exact ⟨t.clean, t.fin⟩
  | nodeFailed n => exact t
  | nodeReset n => exact t
  | restart => exact ⟨t.clean, t.fin⟩
  | removeEmpty => exact t.frame (foldRemove_frame (fun a => (c.namesOf a).isEmpty) s.dom s)
  | cacheMap =>
    refine t.shrink (cacheMap_ran c s) (fun d h => cacheMap_disk c s ▸ h) ?_
    intro h
    have h' : (Martian.Vdr.cacheMap c s).final = true := h
    rw [cacheMap_final] at h'
    exact t.fin h'
  | early upto =>
    show TInv c (if s.final then s else Martian.Vdr.cleanTmp c s (min upto 3))
    split
    · exact t
    · exact t.cleanTmp _
  | kill => exact t.kill

theorem TInv.run {c : Cfg} {s : St} (t : TInv c s) (evs : List Ev) : TInv c (run c s evs) := by
  unfold Martian.Vdr.run
  induction evs generalizing s with
  | nil => exact t
  | cons e r ih => exact ih (t.step e)

end Martian.Vdr
