import Proofs.SemaphoreSys

/-! `Sys.act` preserves the invariant. -/
namespace Martian.Semaphore

theorem eq_of_mem_of_id (l : List LJob) (nd : (l.map LJob.id).Nodup) (b c : LJob)
    (hb : b ∈ l) (hc : c ∈ l) (h : c.id = b.id) : c = b := by
  induction l with
  | nil => simp at hb
  | cons x xs ih =>
    simp only [List.map_cons, List.nodup_cons] at nd
    rcases List.mem_cons.mp hb with hb | hb <;> rcases List.mem_cons.mp hc with hc | hc
    · rw [hb, hc]
    · exfalso; apply nd.1; rw [← hb, ← h]; exact List.mem_map.mpr ⟨c, hc, rfl⟩
    · exfalso; apply nd.1; rw [← hc, h]; exact List.mem_map.mpr ⟨b, hb, rfl⟩
    · exact ih nd.2 hb hc

theorem holds_acq (s i : Nat) (w : Bool) : (Phase.acq s w).holds i = decide (i < s) := rfl
theorem holds_rel (r i : Nat) : (Phase.rel r).holds i = decide (i < r) := rfl

theorem holds_succ_ne (s i : Nat) (w w' : Bool) (h : i ≠ s) :
    (Phase.acq (s+1) w).holds i = (Phase.acq s w').holds i := by
  simp only [Phase.holds]
  by_cases hi : i < s
  · have : i < s + 1 := by omega
    simp [hi, this]
  · have : ¬ i < s + 1 := by omega
    simp [hi, this]

theorem holds_rel_succ_ne (r i : Nat) (h : i ≠ r) :
    (Phase.rel r).holds i = (Phase.rel (r+1)).holds i := by
  simp only [Phase.holds]
  by_cases hi : i < r
  · have : i < r + 1 := by omega
    simp [hi, this]
  · have : ¬ i < r + 1 := by omega
    simp [hi, this]

/-- the acquire action -/
theorem act_acquire_inv (y : Sys) (inv : SInv y) (b : LJob) (hb : b ∈ y.jobs) (s : Nat)
    (hph : b.ph = .acq s false) (g : G) (hs : y.gs[s]? = some g) :
    SInv { gs := y.gs.set s (gstep g (.acquire b.id (b.amts.getD s 0))).1,
           jobs := y.jobs.map fun c =>
             if c.id = b.id then
               { c with ph := acqPhase s (gstep g (.acquire b.id (b.amts.getD s 0))).2,
                        failed := c.failed || hasReject (gstep g (.acquire b.id (b.amts.getD s 0))).2 }
             else c } := by
  have hgm : g ∈ y.gs := List.mem_iff_getElem?.mpr ⟨s, hs⟩
  have hlt : s < y.gs.length := by
    rcases List.getElem?_eq_some_iff.mp hs with ⟨h, _⟩; exact h
  have ha : 0 ≤ b.amts.getD s 0 := (inv.wf b hb).2 s
  obtain ⟨hG, _, hM⟩ := gstep_inv g (.acquire b.id (b.amts.getD s 0)) (inv.good g hgm).1 ha
  have hC := gstep_cur g (.acquire b.id (b.amts.getD s 0)) rfl (by intro n h; cases h) (by intro f u h; cases h)
  have hlb := inv.link s g hs b hb
  rw [hph, holds_acq] at hlb
  have hjh : b.id ∉ hidG g := by
    intro h; have := hlb.1.mp h; simp at this
  have hjw : b.id ∉ widG g := by
    intro h; have := hlb.2.mp h; simp at this
  have uniq : ∀ c ∈ y.jobs, c.id = b.id → c = b := fun c hc h => eq_of_mem_of_id _ inv.nd b c hb hc h
  have hcases := gstep_acquire_cases g b.id (b.amts.getD s 0)
  generalize gstep g (.acquire b.id (b.amts.getD s 0)) = q at *
  simp only at hcases
  apply sinv_update y s g q.1 _ inv hs
  · intro c; by_cases h : c.id = b.id <;> simp [h]
  · intro c; by_cases h : c.id = b.id <;> simp [h]
  · exact ⟨hG, by rw [hC, hM]; exact (inv.good g hgm).2⟩
  · exact hM
  · -- nodup
    rcases hcases with ⟨_, _, hh, hw⟩ | ⟨_, _, hq, _⟩ | ⟨_, _, hh, hw⟩
    · constructor
      · simp only [hidG, hh, List.map_append, List.map_cons, List.map_nil]
        rw [List.nodup_append]
        refine ⟨(inv.hnd g hgm).1, by simp, ?_⟩
        intro a ha' c hc'; simp only [List.mem_cons, List.not_mem_nil, or_false] at hc'
        subst hc'; intro h; subst h; exact hjh ha'
      · simp only [widG, hw]; exact (inv.hnd g hgm).2
    · rw [hq]; exact inv.hnd g hgm
    · constructor
      · simp only [hidG, hh]; exact (inv.hnd g hgm).1
      · simp only [widG, hw, List.map_append, List.map_cons, List.map_nil]
        rw [List.nodup_append]
        refine ⟨(inv.hnd g hgm).2, by simp, ?_⟩
        intro a ha' c hc'; simp only [List.mem_cons, List.not_mem_nil, or_false] at hc'
        subst hc'; intro h; subst h; exact hjw ha'
  · -- own
    intro id hidm
    have : (id ∈ hidG g ∨ id ∈ widG g) ∨ id = b.id := by
      rcases hcases with ⟨_, _, hh, hw⟩ | ⟨_, _, hq, _⟩ | ⟨_, _, hh, hw⟩
      · simp only [hidG, widG, hh, hw, List.map_append, List.mem_append, List.map_cons, List.map_nil,
          List.mem_cons, List.not_mem_nil, or_false] at hidm
        simp only [hidG, widG]; rcases hidm with (h | h) | h <;> simp [h]
      · rw [hq] at hidm; exact Or.inl hidm
      · simp only [hidG, widG, hh, hw, List.map_append, List.mem_append, List.map_cons, List.map_nil,
          List.mem_cons, List.not_mem_nil, or_false] at hidm
        simp only [hidG, widG]; rcases hidm with h | h | h <;> simp [h]
    rcases this with h | h
    · exact inv.own g hgm id h
    · exact ⟨b, hb, h.symm⟩
  · -- other semaphores
    intro c hc i his
    by_cases h : c.id = b.id
    · have := uniq c hc h; subst this
      simp only [if_true]
      rcases hcases with ⟨hg, _, _, _⟩ | ⟨hg, hr, _, _⟩ | ⟨hg, hr, _, _⟩
      · simp only [acqPhase, hg, hph]
        exact ⟨holds_succ_ne s i false false his, by simp⟩
      · simp only [acqPhase, hg, hr, hph]
        exact ⟨by simp [Phase.holds], by simp⟩
      · simp only [acqPhase, hg, hr, hph]
        refine ⟨by simp [Phase.holds], ?_⟩
        simp only [List.isEmpty_nil, Bool.true_eq_false, Bool.false_eq_true, if_false, if_true,
          Phase.acq.injEq, and_true, reduceCtorEq, iff_false]
        constructor
        · intro h; exact absurd h.symm his
        · intro h; exact h.2.elim
    · simp [h]
  · -- this semaphore
    intro c hc
    by_cases h : c.id = b.id
    · have := uniq c hc h; subst this
      simp only [if_true]
      rcases hcases with ⟨hg, _, hh, hw⟩ | ⟨hg, hr, hq, _⟩ | ⟨hg, hr, hh, hw⟩
      · simp only [acqPhase, hg, holds_acq, hidG, widG, hh, hw, List.map_append, List.mem_append]
        have : c.id ∉ List.map Prod.fst g.sem.waiters := hjw
        simp [this, Phase.holds]
      · simp only [acqPhase, hg, hr, holds_rel, hq]
        simp [hjh, hjw, Phase.holds]
      · simp only [acqPhase, hg, hr, holds_acq, hidG, widG, hh, hw, List.map_append, List.mem_append]
        have : c.id ∉ List.map Prod.fst g.held := hjh
        simp [this, Phase.holds]
    · simp only [h, if_false]
      have hl := inv.link s g hs c hc
      rcases hcases with ⟨_, _, hh, hw⟩ | ⟨_, _, hq, _⟩ | ⟨_, _, hh, hw⟩
      · simp only [hidG, widG, hh, hw, List.map_append, List.mem_append, List.map_cons, List.map_nil,
          List.mem_cons, List.not_mem_nil, or_false, h]
        simpa [hidG, widG] using hl
      · rw [hq]; exact hl
      · simp only [hidG, widG, hh, hw, List.map_append, List.mem_append, List.map_cons, List.map_nil,
          List.mem_cons, List.not_mem_nil, or_false, h]
        simpa [hidG, widG] using hl
  · -- phases well-formed
    intro c hc
    by_cases h : c.id = b.id
    · have := uniq c hc h; subst this
      simp only [if_true]
      rcases hcases with ⟨hg, _, _, _⟩ | ⟨hg, hr, _, _⟩ | ⟨hg, hr, _, _⟩
      · simp only [acqPhase, hg]; simp [PhaseOK]; omega
      · simp only [acqPhase, hg, hr]; simp [PhaseOK]; omega
      · simp only [acqPhase, hg, hr]; simp [PhaseOK]; omega
    · simp only [h, if_false]; exact (inv.wf c hc).1
  · -- flags
    intro c hc
    by_cases h : c.id = b.id
    · have := uniq c hc h; subst this
      simp only [if_true]
      have hfl := inv.flags c hc
      rcases hcases with ⟨hg, hr, _, _⟩ | ⟨hg, hr, _, hmax⟩ | ⟨hg, hr, _, _⟩
      · simp only [acqPhase, hg, hr, Bool.or_false]
        exact ⟨hfl.1, by intro r h; simp at h⟩
      · simp only [acqPhase, hg, hr, Bool.or_true]
        refine ⟨fun _ hfit => ?_, fun _ _ => Or.inr (by trivial)⟩
        have := hfit s g hs; omega
      · simp only [acqPhase, hg, hr, Bool.or_false]
        exact ⟨hfl.1, by intro r h; simp at h⟩
    · simp only [h, if_false]; exact inv.flags c hc

end Martian.Semaphore
