import Proofs.SemaphoreSys

/-! `Sys.act` preserves the invariant. -/
namespace Martian.Semaphore

theorem eq_of_mem_of_id (l : List LJob) (nd : (l.map LJob.id).Nodup) (b c : LJob)
    (hb : b ∈ l) (hc : c ∈ l) (h : c.id = b.id) : c = b := by
  induction l with
  | nil => simp at hb
  | cons x xs ih =>
    simp only [List.map_cons, List.nodup_cons] at nd
    rcases List.mem_cons.mp hb with hb | hb <;> rcases List.mem_cons.mp hc with hc | hc
    · rw [hb, hc]
    · exfalso; apply nd.1; rw [← hb, ← h]; exact List.mem_map.mpr ⟨c, hc, rfl⟩
    · exfalso; apply nd.1; rw [← hc, h]; exact List.mem_map.mpr ⟨b, hb, rfl⟩
    · exact ih nd.2 hb hc

theorem holds_acq (s i : Nat) (w : Bool) : (Phase.acq s w).holds i = decide (i < s) := rfl
theorem holds_rel (r i : Nat) : (Phase.rel r).holds i = decide (i < r) := rfl

theorem holds_succ_ne (s i : Nat) (w w' : Bool) (h : i ≠ s) :
    (Phase.acq (s+1) w).holds i = (Phase.acq s w').holds i := by
  simp only [Phase.holds]
  by_cases hi : i < s
  · have : i < s + 1 := by omega
    simp [hi, this]
  · have : ¬ i < s + 1 := by omega
    simp [hi, this]

theorem holds_rel_succ_ne (r i : Nat) (h : i ≠ r) :
    (Phase.rel r).holds i = (Phase.rel (r+1)).holds i := by
  simp only [Phase.holds]
  by_cases hi : i < r
  · have : i < r + 1 := by omega
    simp [hi, this]
  · have : ¬ i < r + 1 := by omega
    simp [hi, this]

/-- the acquire action -/
theorem act_acquire_inv (y : Sys) (inv : SInv y) (b : LJob) (hb : b ∈ y.jobs) (s : Nat)
    (hph : b.ph = .acq s false) (g : G) (hs : y.gs[s]? = some g) :
    SInv { gs := y.gs.set s (gstep g (.acquire b.id (b.amts.getD s 0))).1,
           jobs := y.jobs.map fun c =>
             if c.id = b.id then
               { c with ph := acqPhase s (gstep g (.acquire b.id (b.amts.getD s 0))).2,
                        failed := c.failed || hasReject (gstep g (.acquire b.id (b.amts.getD s 0))).2 }
             else c } := by
  have hgm : g ∈ y.gs := List.mem_iff_getElem?.mpr ⟨s, hs⟩
  have hlt : s < y.gs.length := by
    rcases List.getElem?_eq_some_iff.mp hs with ⟨h, _⟩; exact h
  have ha : 0 ≤ b.amts.getD s 0 := (inv.wf b hb).2 s
  obtain ⟨hG, _, hM⟩ := gstep_inv g (.acquire b.id (b.amts.getD s 0)) (inv.good g hgm).1 ha
  have hC := gstep_cur g (.acquire b.id (b.amts.getD s 0)) rfl (by intro n h; cases h) (by intro f u h; cases h)
  have hlb := inv.link s g hs b hb
  rw [hph, holds_acq] at hlb
  have hjh : b.id ∉ hidG g := by
    intro h; have := hlb.1.mp h; simp at this
  have hjw : b.id ∉ widG g := by
    intro h; have := hlb.2.mp h; simp at this
  have uniq : ∀ c ∈ y.jobs, c.id = b.id → c = b := fun c hc h => eq_of_mem_of_id _ inv.nd b c hb hc h
  have hcases := gstep_acquire_cases g b.id (b.amts.getD s 0)
  generalize gstep g (.acquire b.id (b.amts.getD s 0)) = q at *
  simp only at hcases
  apply sinv_update y s g q.1 _ inv hs
  · intro c; by_cases h : c.id = b.id <;> simp [h]
  · intro c; by_cases h : c.id = b.id <;> simp [h]
  · exact ⟨hG, by rw [hC, hM]; exact (inv.good g hgm).2⟩
  · exact hM
  · -- nodup
    rcases hcases with ⟨_, _, hh, hw⟩ | ⟨_, _, hq, _⟩ | ⟨_, _, hh, hw⟩
    · constructor
      · simp only [hidG, hh, List.map_append, List.map_cons, List.map_nil]
        rw [List.nodup_append]
        refine ⟨(inv.hnd g hgm).1, by simp, ?_⟩
        intro a ha' c hc'; simp only [List.mem_cons, List.not_mem_nil, or_false] at hc'
        subst hc'; intro h; subst h; exact hjh ha'
      · simp only [widG, hw]; exact (inv.hnd g hgm).2
    · rw [hq]; exact inv.hnd g hgm
    · constructor
      · simp only [hidG, hh]; exact (inv.hnd g hgm).1
      · simp only [widG, hw, List.map_append, List.map_cons, List.map_nil]
        rw [List.nodup_append]
        refine ⟨(inv.hnd g hgm).2, by simp, ?_⟩
        intro a ha' c hc'; simp only [List.mem_cons, List.not_mem_nil, or_false] at hc'
        subst hc'; intro h; subst h; exact hjw ha'
  · -- own
    intro id hidm
    have : (id ∈ hidG g ∨ id ∈ widG g) ∨ id = b.id := by
      rcases hcases with ⟨_, _, hh, hw⟩ | ⟨_, _, hq, _⟩ | ⟨_, _, hh, hw⟩
      · simp only [hidG, widG, hh, hw, List.map_append, List.mem_append, List.map_cons, List.map_nil,
          List.mem_cons, List.not_mem_nil, or_false] at hidm
        simp only [hidG, widG]; rcases hidm with (h | h) | h <;> simp [h]
      · rw [hq] at hidm; exact Or.inl hidm
      · simp only [hidG, widG, hh, hw, List.map_append, List.mem_append, List.map_cons, List.map_nil,
          List.mem_cons, List.not_mem_nil, or_false] at hidm
        simp only [hidG, widG]; rcases hidm with h | h | h <;> simp [h]
    rcases this with h | h
    · exact inv.own g hgm id h
    · exact ⟨b, hb, h.symm⟩
  · -- other semaphores
    intro c hc i his
    by_cases h : c.id = b.id
    · have := uniq c hc h; subst this
      simp only [if_true]
      rcases hcases with ⟨hg, _, _, _⟩ | ⟨hg, hr, _, _⟩ | ⟨hg, hr, _, _⟩
      · simp only [acqPhase, hg, hph]
        exact ⟨holds_succ_ne s i false false his, by simp⟩
      · simp only [acqPhase, hg, hr, hph]
        exact ⟨by simp [Phase.holds], by simp⟩
      · simp only [acqPhase, hg, hr, hph]
        refine ⟨by simp [Phase.holds], ?_⟩
        simp only [List.isEmpty_nil, Bool.true_eq_false, Bool.false_eq_true, if_false, if_true,
          Phase.acq.injEq, and_true, reduceCtorEq, iff_false]
        constructor
        · intro h; exact absurd h.symm his
        · intro h; exact h.2.elim
    · simp [h]
  · -- this semaphore
    intro c hc
    by_cases h : c.id = b.id
    · have := uniq c hc h; subst this
      simp only [if_true]
      rcases hcases with ⟨hg, _, hh, hw⟩ | ⟨hg, hr, hq, _⟩ | ⟨hg, hr, hh, hw⟩
      · simp only [acqPhase, hg, holds_acq, hidG, widG, hh, hw, List.map_append, List.mem_append]
        have : c.id ∉ List.map Prod.fst g.sem.waiters := hjw
        simp [this, Phase.holds]
      · simp only [acqPhase, hg, hr, holds_rel, hq]
        simp [hjh, hjw, Phase.holds]
      · simp only [acqPhase, hg, hr, holds_acq, hidG, widG, hh, hw, List.map_append, List.mem_append]
        have : c.id ∉ List.map Prod.fst g.held := hjh
        simp [this, Phase.holds]
    · simp only [h, if_false]
      have hl := inv.link s g hs c hc
      rcases hcases with ⟨_, _, hh, hw⟩ | ⟨_, _, hq, _⟩ | ⟨_, _, hh, hw⟩
      · simp only [hidG, widG, hh, hw, List.map_append, List.mem_append, List.map_cons, List.map_nil,
          List.mem_cons, List.not_mem_nil, or_false, h]
        simpa [hidG, widG] using hl
      · rw [hq]; exact hl
      · simp only [hidG, widG, hh, hw, List.map_append, List.mem_append, List.map_cons, List.map_nil,
          List.mem_cons, List.not_mem_nil, or_false, h]
        simpa [hidG, widG] using hl
  · -- phases well-formed
    intro c hc
    by_cases h : c.id = b.id
    · have := uniq c hc h; subst this
      simp only [if_true]
      rcases hcases with ⟨hg, _, _, _⟩ | ⟨hg, hr, _, _⟩ | ⟨hg, hr, _, _⟩
      · simp only [acqPhase, hg]; simp [PhaseOK]; omega
      · simp only [acqPhase, hg, hr]; simp [PhaseOK]; omega
      · simp only [acqPhase, hg, hr]; simp [PhaseOK]; omega
    · simp only [h, if_false]; exact (inv.wf c hc).1
  · -- flags
    intro c hc
    by_cases h : c.id = b.id
    · have := uniq c hc h; subst this
      simp only [if_true]
      have hfl := inv.flags c hc
      rcases hcases with ⟨hg, hr, _, _⟩ | ⟨hg, hr, _, hmax⟩ | ⟨hg, hr, _, _⟩
      · simp only [acqPhase, hg, hr, Bool.or_false]
        exact ⟨hfl.1, by intro r h; simp at h⟩
      · simp only [acqPhase, hg, hr, Bool.or_true]
        refine ⟨fun _ hfit => ?_, fun _ _ => Or.inr (by trivial)⟩
        have := hfit s g hs; omega
      · simp only [acqPhase, hg, hr, Bool.or_false]
        exact ⟨hfl.1, by intro r h; simp at h⟩
    · simp only [h, if_false]; exact inv.flags c hc

end Martian.Semaphore

namespace Martian.Semaphore

theorem mem_contains {l : List Nat} {a : Nat} : l.contains a = true ↔ a ∈ l := by
  simp

/-- the release action -/
theorem act_release_inv (y : Sys) (inv : SInv y) (b : LJob) (hb : b ∈ y.jobs) (r : Nat)
    (hph : b.ph = .rel (r + 1)) (g : G) (hs : y.gs[r]? = some g) :
    SInv { gs := y.gs.set r (gstep g (.release b.id)).1,
           jobs := y.jobs.map fun c =>
             if c.id = b.id then { c with ph := .rel r }
             else if c.id ∈ (grantsOf (gstep g (.release b.id)).2).map Prod.fst then
               { c with ph := .acq (r + 1) false }
             else c } := by
  have hgm : g ∈ y.gs := List.mem_iff_getElem?.mpr ⟨r, hs⟩
  have hlt : r < y.gs.length := by
    rcases List.getElem?_eq_some_iff.mp hs with ⟨h, _⟩; exact h
  obtain ⟨hG, _, hM⟩ := gstep_inv g (.release b.id) (inv.good g hgm).1 (by simp [COp.reqNonneg])
  have hC := gstep_cur g (.release b.id) rfl (by intro n h; cases h) (by intro f u h; cases h)
  have hlb := inv.link r g hs b hb
  rw [hph] at hlb
  have hjh : b.id ∈ hidG g := hlb.1.mpr (by simp [Phase.holds])
  have hjw : b.id ∉ widG g := by
    intro h; have := hlb.2.mp h; simp at this
  have uniq : ∀ c ∈ y.jobs, c.id = b.id → c = b := fun c hc h => eq_of_mem_of_id _ inv.nd b c hb hc h
  obtain ⟨hH, hF⟩ := gstep_release_holder g b.id hjh
  generalize gstep g (.release b.id) = q at *
  -- ids
  have hWsplit : (grantsOf q.2).map Prod.fst ++ widG q.1 = widG g := by
    simp only [widG, ← hF, List.map_append]
  generalize hgr : (grantsOf q.2).map Prod.fst = granted at *
  have hwnd := (inv.hnd g hgm).2
  rw [← hWsplit, List.nodup_append] at hwnd
  obtain ⟨hgnd, hw'nd, hdisj⟩ := hwnd
  have hgr_w : ∀ x ∈ granted, x ∈ widG g := by
    intro x hx; rw [← hWsplit]; simp [hx]
  have hw'_w : ∀ x ∈ widG q.1, x ∈ widG g := by
    intro x hx; rw [← hWsplit]; simp [hx]
  -- a waiter does not hold this semaphore
  have wait_not_hold : ∀ x ∈ widG g, x ∉ hidG g := by
    intro x hx hxh
    obtain ⟨c, hc, hcid⟩ := inv.own g hgm x (Or.inr hx)
    have hl := inv.link r g hs c hc
    rw [hcid] at hl
    have h1 := hl.2.mp hx
    have h2 := hl.1.mp hxh
    rw [h1] at h2; simp [Phase.holds] at h2
  have hnd_h := (inv.hnd g hgm).1
  have mem_erase : ∀ x, x ∈ (hidG g).erase b.id ↔ x ≠ b.id ∧ x ∈ hidG g :=
    fun x => List.Nodup.mem_erase_iff hnd_h
  have hjg : b.id ∉ granted := fun h => hjw (hgr_w _ h)
  apply sinv_update y r g q.1 _ inv hs
  · intro c; by_cases h : c.id = b.id
    · simp [h]
    · simp only [h, if_false]; split <;> rfl
  · intro c; by_cases h : c.id = b.id
    · simp [h]
    · simp only [h, if_false]; split <;> rfl
  · exact ⟨hG, by rw [hC, hM]; exact (inv.good g hgm).2⟩
  · exact hM
  · -- nodup
    refine ⟨?_, hw'nd⟩
    rw [hH, List.nodup_append]
    refine ⟨List.Nodup.erase _ hnd_h, hgnd, ?_⟩
    intro a ha c hc hac
    subst hac
    exact wait_not_hold a (hgr_w a hc) ((mem_erase a).mp ha).2
  · -- own
    intro id hidm
    apply inv.own g hgm id
    rcases hidm with h | h
    · rw [hH, List.mem_append] at h
      rcases h with h | h
      · exact Or.inl ((mem_erase id).mp h).2
      · exact Or.inr (hgr_w id h)
    · exact Or.inr (hw'_w id h)
  · -- other semaphores
    intro c hc i his
    by_cases h : c.id = b.id
    · have := uniq c hc h; subst this
      simp only [if_true, hph]
      exact ⟨holds_rel_succ_ne r i his, by simp⟩
    · simp only [h, if_false]
      by_cases h2 : c.id ∈ granted
      · simp only [h2, if_true]
        have hcw : c.ph = .acq r true := (inv.link r g hs c hc).2.mp (hgr_w _ h2)
        rw [hcw]
        refine ⟨holds_succ_ne r i false true his, ?_⟩
        simp only [Phase.acq.injEq, reduceCtorEq, and_false, and_true, false_iff]
        intro h; exact his h.symm
      · simp [h2]
  · -- this semaphore
    intro c hc
    by_cases h : c.id = b.id
    · have := uniq c hc h; subst this
      simp only [if_true]
      constructor
      · rw [hH, List.mem_append]
        simp only [Phase.holds, Nat.lt_irrefl, decide_false, Bool.false_eq_true, iff_false, not_or]
        exact ⟨fun h => ((mem_erase _).mp h).1 rfl, hjg⟩
      · simp only [reduceCtorEq, iff_false]
        exact fun h => hjw (hw'_w _ h)
    · simp only [h, if_false]
      by_cases h2 : c.id ∈ granted
      · simp only [h2, if_true]
        have hcg := h2
        constructor
        · rw [hH, List.mem_append]; simp [Phase.holds, hcg]
        · simp only [Phase.acq.injEq, reduceCtorEq, and_false, iff_false, Nat.succ_ne_self, false_and]
          exact fun h => hdisj _ hcg _ h rfl
      · simp only [h2, if_false]
        have hcg : c.id ∉ granted := h2
        have hl := inv.link r g hs c hc
        constructor
        · rw [hH, List.mem_append, mem_erase, ← hl.1]; simp [h, hcg]
        · rw [← hl.2, ← hWsplit, List.mem_append]; simp [hcg]
  · -- phases well-formed
    intro c hc
    by_cases h : c.id = b.id
    · simp only [h, if_true, PhaseOK]; omega
    · simp only [h, if_false]
      by_cases h2 : c.id ∈ granted
      · simp only [h2, if_true, PhaseOK]; simp; omega
      · simp only [h2, if_false]; exact (inv.wf c hc).1
  · -- flags
    intro c hc
    have hfl := inv.flags c hc
    by_cases h : c.id = b.id
    · have := uniq c hc h; subst this
      simp only [if_true]
      exact ⟨hfl.1, fun _ _ => hfl.2 (r + 1) hph⟩
    · simp only [h, if_false]
      by_cases h2 : c.id ∈ granted
      · simp only [h2, if_true]
        exact ⟨hfl.1, by intro r h; simp at h⟩
      · simp only [h2, if_false]; exact hfl

end Martian.Semaphore

namespace Martian.Semaphore

/-- every action (of any job id, enabled or not) preserves the invariant -/
theorem act_inv (y : Sys) (inv : SInv y) (j : Nat) : SInv (y.act j) := by
  unfold Sys.act
  cases hf : y.jobs.find? (fun b => b.id == j) with
  | none => exact inv
  | some b =>
    have hb : b ∈ y.jobs := List.mem_of_find?_eq_some hf
    have hbid : b.id = j := by simpa using List.find?_some hf
    subst hbid
    have uniq : ∀ c ∈ y.jobs, c.id = b.id → c = b := fun c hc h => eq_of_mem_of_id _ inv.nd b c hb hc h
    simp only
    cases hph : b.ph with
    | acq s w =>
      cases w with
      | true => exact inv
      | false =>
        simp only
        cases hs : y.gs[s]? with
        | some g => exact act_acquire_inv y inv b hb s hph g hs
        | none =>
          simp only
          apply sinv_jobs y _ inv
          · intro c; by_cases h : c.id = b.id <;> simp [h]
          · intro c; by_cases h : c.id = b.id <;> simp [h]
          · intro c hc i
            by_cases h : c.id = b.id
            · have := uniq c hc h; subst this
              simp only [if_true, hph]
              exact ⟨by simp [Phase.holds], by simp⟩
            · simp [h]
          · intro c hc
            by_cases h : c.id = b.id
            · have := uniq c hc h; subst this
              have := (inv.wf c hc).1
              rw [hph] at this
              simp only [if_true, PhaseOK] at this ⊢
              exact this.1
            · simp only [h, if_false]; exact (inv.wf c hc).1
          · intro c hc
            have hfl := inv.flags c hc
            by_cases h : c.id = b.id
            · simp only [h, if_true]
              exact ⟨hfl.1, fun _ _ => Or.inl (by trivial)⟩
            · simp only [h, if_false]; exact hfl
    | rel r =>
      cases r with
      | zero => exact inv
      | succ r =>
        simp only
        cases hs : y.gs[r]? with
        | some g => exact act_release_inv y inv b hb r hph g hs
        | none =>
          exfalso
          have := (inv.wf b hb).1
          rw [hph] at this
          simp only [PhaseOK] at this
          have := List.getElem?_eq_none_iff.mp hs
          omega

theorem runSched_inv (y : Sys) (inv : SInv y) (js : List Nat) : SInv (y.runSched js) := by
  induction js generalizing y with
  | nil => exact inv
  | cons j js ih => exact ih _ (act_inv y inv j)

theorem init_inv (sizes : List Int) (jobs : List (Nat × List Int))
    (hnd : (jobs.map Prod.fst).Nodup) (hnn : ∀ p ∈ jobs, ∀ s, 0 ≤ p.2.getD s 0) :
    SInv (Sys.init sizes jobs) := by
  refine ⟨?_, ?_, ?_, ?_, ?_, ?_, ?_⟩
  · simpa [Sys.init, List.map_map, Function.comp_def] using hnd
  · intro g hg
    simp only [Sys.init, List.mem_map] at hg
    obtain ⟨m, _, rfl⟩ := hg
    exact ⟨good_init m, rfl⟩
  · intro g hg
    simp only [Sys.init, List.mem_map] at hg
    obtain ⟨m, _, rfl⟩ := hg
    simp [hidG, widG, G.init, Sem.init]
  · intro g hg id hid
    simp only [Sys.init, List.mem_map] at hg
    obtain ⟨m, _, rfl⟩ := hg
    simp [hidG, widG, G.init, Sem.init] at hid
  · intro i g hi b hb
    have hg : g ∈ (Sys.init sizes jobs).gs := List.mem_iff_getElem?.mpr ⟨i, hi⟩
    simp only [Sys.init, List.mem_map] at hg hb
    obtain ⟨m, _, rfl⟩ := hg
    obtain ⟨p, _, rfl⟩ := hb
    simp [hidG, widG, G.init, Sem.init, Phase.holds]
  · intro b hb
    simp only [Sys.init, List.mem_map] at hb
    obtain ⟨p, hp, rfl⟩ := hb
    exact ⟨by simp [PhaseOK], hnn p hp⟩
  · intro b hb
    simp only [Sys.init, List.mem_map] at hb
    obtain ⟨p, hp, rfl⟩ := hb
    exact ⟨by simp, by intro r h; simp at h⟩

end Martian.Semaphore
