/-
The exact-decimal model (`Martian.Types`) and the model over numerals as Go
reads them (`Martian.TypesR`) agree on every JSON value all of whose numerals
are float64 values (`Num.exact64`): validation verdict, filtered value and
error class are equal, for every type.  Core Lean only.
-/
import Martian.Types
import Proofs.Types
import Proofs.JsonRound
namespace Martian.TypesR
open Martian.Json Martian.Types

/-- every numeral in the value is exactly a float64 value -/
inductive NumsExact : J → Prop where
  | null : NumsExact .null
  | bool (b : Bool) : NumsExact (.bool b)
  | str (s : Bytes) : NumsExact (.str s)
  | num (n : Num) : n.exact64 = true → NumsExact (.num n)
  | arr (xs : List J) : (∀ x, x ∈ xs → NumsExact x) → NumsExact (.arr xs)
  | obj (kvs : List (Bytes × J)) : (∀ kv, kv ∈ kvs → NumsExact kv.2) → NumsExact (.obj kvs)

theorem filterBase_agree (b : Base) (v : J) (h : NumsExact v) :
    filterBase b v = Martian.Types.filterBase b v := by
  cases h with
  | num n hn =>
    cases b <;> try rfl
    · -- int
      cases n with
      | int i =>
        simp only [filterBase, Martian.Types.filterBase]
        by_cases hr : Num.inInt64 i = true
        · simp [hr]
        · have hr' : Num.inInt64 i = false := by simpa using hr
          simp [hr', Num.goInt?_of_exact_int i hn hr']
      | flt m e =>
        simp only [filterBase, Martian.Types.filterBase, Num.goInt?_of_exact_flt m e hn]
        cases (Num.flt m e).intValue? with
        | none => rfl
        | some i => by_cases hr : Num.inInt64 i = true <;> simp [hr]
    · -- float
      simp [filterBase, Martian.Types.filterBase, Num.finite64_of_exact n hn]
  | _ => cases b <;> rfl

theorem checkBase_agree (b : Base) (v : J) (h : NumsExact v) :
    checkBase b v = Martian.Types.checkBase b v := by
  cases h with
  | num n hn =>
    cases b with
    | int => cases n <;> rfl
    | float => simp [checkBase, Martian.Types.checkBase, Num.finite64_of_exact n hn]
    | _ => cases n <;> rfl
  | _ => cases b <;> rfl

theorem filterFields_agree : ∀ (fs : Fields) (kvs : List (Bytes × J)),
    (∀ k t, (k, t) ∈ fs.toList → ∀ v, NumsExact v → filter t v = Martian.Types.filter t v) →
    (∀ kv, kv ∈ kvs → NumsExact kv.2) →
    filterFields fs kvs = Martian.Types.filterFields fs kvs
  | .nil, _, _, _ => rfl
  | .cons k t r, kvs, ih, hk => by
    have hr := filterFields_agree r kvs (fun k' t' hm => ih k' t' (by simp [Fields.toList, hm])) hk
    simp only [filterFields, Martian.Types.filterFields, hr]
    cases hg : getKey k kvs with
    | none => rfl
    | some v =>
      have hv : NumsExact v := hk (k, v) (getKey_mem hg)
      simp only [ih k t (by simp [Fields.toList]) v hv]

theorem checkFields_agree : ∀ (fs : Fields) (kvs : List (Bytes × J)),
    (∀ k t, (k, t) ∈ fs.toList → ∀ v, NumsExact v → check t v = Martian.Types.check t v) →
    (∀ kv, kv ∈ kvs → NumsExact kv.2) →
    checkFields fs kvs = Martian.Types.checkFields fs kvs
  | .nil, _, _, _ => rfl
  | .cons k t r, kvs, ih, hk => by
    have hr := checkFields_agree r kvs (fun k' t' hm => ih k' t' (by simp [Fields.toList, hm])) hk
    simp only [checkFields, Martian.Types.checkFields, hr]
    cases hg : getKey k kvs with
    | none => rfl
    | some v =>
      have hv : NumsExact v := hk (k, v) (getKey_mem hg)
      simp only [ih k t (by simp [Fields.toList]) v hv]

theorem filter_agree (t : Ty) : ∀ v, NumsExact v → filter t v = Martian.Types.filter t v := by
  induction t using Martian.Types.Ty.induct' with
  | base b => intro v h; simp only [filter, Martian.Types.filter]; exact filterBase_agree b v h
  | user n => intro v h; cases v <;> rfl
  | arr t ih =>
    intro v h
    cases h with
    | arr xs hx =>
      simp only [filter, Martian.Types.filter]
      split
      · rfl
      · have : ∀ x ∈ xs, filter t x = Martian.Types.filter t x := fun x hm => ih x (hx x hm)
        have h1 : xs.map (fun x => (filter t x).1) = xs.map (fun x => (Martian.Types.filter t x).1) :=
          List.map_congr_left (fun x hm => by rw [this x hm])
        have h2 : xs.map (fun x => (filter t x).2) = xs.map (fun x => (Martian.Types.filter t x).2) :=
          List.map_congr_left (fun x hm => by rw [this x hm])
        rw [h1, h2]
    | _ => simp only [filter, Martian.Types.filter]
  | tmap t ih =>
    intro v h
    cases h with
    | obj kvs hk =>
      simp only [filter, Martian.Types.filter]
      split
      · rfl
      · have : ∀ kv ∈ kvs, filter t kv.2 = Martian.Types.filter t kv.2 := fun kv hm => ih kv.2 (hk kv hm)
        have h1 : kvs.map (fun kv => (kv.1, (filter t kv.2).1))
            = kvs.map (fun kv => (kv.1, (Martian.Types.filter t kv.2).1)) :=
          List.map_congr_left (fun kv hm => by rw [this kv hm])
        have h2 : kvs.map (fun kv => (filter t kv.2).2) = kvs.map (fun kv => (Martian.Types.filter t kv.2).2) :=
          List.map_congr_left (fun kv hm => by rw [this kv hm])
        rw [h1, h2]
    | _ => simp only [filter, Martian.Types.filter]
  | struct n fs ih =>
    intro v h
    cases h with
    | obj kvs hk =>
      simp only [filter, Martian.Types.filter, filterFields_agree fs kvs ih hk]
    | _ => simp only [filter, Martian.Types.filter]

theorem check_agree (t : Ty) : ∀ v, NumsExact v → check t v = Martian.Types.check t v := by
  induction t using Martian.Types.Ty.induct' with
  | base b => intro v h; simp only [check, Martian.Types.check]; exact checkBase_agree b v h
  | user n => intro v h; cases v <;> rfl
  | arr t ih =>
    intro v h
    cases h with
    | arr xs hx =>
      simp only [check, Martian.Types.check]
      have : xs.map (fun x => check t x) = xs.map (fun x => Martian.Types.check t x) :=
        List.map_congr_left (fun x hm => ih x (hx x hm))
      rw [this]
    | _ => simp only [check, Martian.Types.check]
  | tmap t ih =>
    intro v h
    cases h with
    | obj kvs hk =>
      simp only [check, Martian.Types.check]
      have : kvs.map (fun kv => (check t kv.2).max (if isDirMap t && !legalName kv.1 then .error else .ok))
          = kvs.map (fun kv => (Martian.Types.check t kv.2).max
              (if isDirMap t && !legalName kv.1 then .error else .ok)) :=
        List.map_congr_left (fun kv hm => by rw [ih kv.2 (hk kv hm)])
      rw [this]
    | _ => simp only [check, Martian.Types.check]
  | struct n fs ih =>
    intro v h
    cases h with
    | obj kvs hk =>
      simp only [check, Martian.Types.check, checkFields_agree fs kvs ih hk]
    | _ => simp only [check, Martian.Types.check]

end Martian.TypesR
