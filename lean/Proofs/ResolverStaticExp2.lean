/-
C01 — the two-phase resolver on one expression, part 2: L1 (`narrow_evalRT`),
P (`proj1_evalRT`, `projPath_evalRT`), E (`eval_resolveRefs`).  See
Proofs/ResolverStaticExp.lean for the overview.
-/
import Proofs.ResolverStaticExp

namespace Proofs.ResolverStatic
open Martian.Dataflow Martian.Resolver Martian.ResolverForks Martian.ResolverStatic Proofs.Dataflow
  Proofs.ResolverForks

theorem mem_of_lookup {β : Type} : ∀ (kvs : List (String × β)) (k : String) (e : β),
    kvs.lookup k = some e → (k, e) ∈ kvs
  | [], _, _, h => by simp at h
  | (k', e') :: es, k, e, h => by
    simp only [List.lookup_cons] at h
    cases hk : (k == k') with
    | true =>
      simp only [hk, Option.some.injEq] at h
      have : k = k' := by simpa using hk
      subst this; subst h
      simp
    | false =>
      simp only [hk] at h
      simp [mem_of_lookup es k e h]

theorem Sub.scalar_right {st : StructTable} {t t' : Ty} (h : Sub st t t') (hs : Scalar st t) : Scalar st t' := by
  cases h with
  | refl => exact hs
  | struct _ _ ps ps' _ _ h3 => rw [hs.2.2] at h3; cases h3
  | scalar _ _ h1 h2 _ h4 => exact ⟨h2 ▸ hs.1, h1 ▸ hs.2.1, h4⟩

theorem Sub.lookup_right {st : StructTable} {t t' : Ty} (h : Sub st t t') (ps : List Param)
    (hl : st.lookup t.base = some ps) : ∃ ps', st.lookup t'.base = some ps' := by
  cases h with
  | refl => exact ⟨ps, hl⟩
  | struct _ _ _ ps' _ _ _ h4 => exact ⟨ps', h4⟩
  | scalar _ _ _ _ h3 => rw [hl] at h3; cases h3

/-! ## L1 -/

theorem elemArr_narrow {st : StructTable} {F : Nat} (hF : NarrowFix st F) (b : String) (m a : Nat) (v : J)
    (ix : Idx) : narrow st F ⟨b, m, a⟩ (elemArr v ix) = elemArr (narrow st F ⟨b, m, a + 1⟩ v) ix := by
  cases ix with
  | none => simp [elemArr, narrow_dnull hF]
  | k s => simp [elemArr, narrow_dnull hF]
  | i k =>
    simp only [elemArr]
    cases v with
    | arr xs =>
      rw [narrow_arr hF]
      simp only [elemAt]
      exact (getD_map_null _ (narrow_null hF _) xs k).symm
    | dnull => simp [elemAt, narrow_dnull hF]
    | null => simp [elemAt, narrow_null hF]
    | atom s =>
      have : narrow st F ⟨b, m, a + 1⟩ (.atom s) = .null := by rw [hF]; simp [atBase, mapArr]
      simp [elemAt, this, narrow_null hF]
    | obj kvs =>
      have : narrow st F ⟨b, m, a + 1⟩ (.obj kvs) = .null := by rw [hF]; simp [atBase, mapArr]
      simp [elemAt, this, narrow_null hF]

section L1
variable (st : StructTable) (hst : StructsOk st) (F : Nat) (hF : NarrowFix st F) (ρ : Store)
include hst hF

mutual
theorem narrow_evalRT :
    ∀ (r : RExp) (t t' : Ty) (f : ForkAssign), HasTyR st t r → Sub st t t' →
      narrow st F t' (evalRT st F ρ f t r) = evalRT st F ρ f t' r ∧ HasTyR st t' r
  | .lit j, t, t', f, h, hs => by
    simp only [HasTyR, LitOk] at h
    cases h with
    | inl h => subst h; simp [evalRT, narrow_null hF, HasTyR, LitOk]
    | inr h =>
      obtain ⟨⟨s, rfl⟩, hsc⟩ := h
      have hsc := hs.scalar_right hsc
      obtain ⟨b, m, a⟩ := t'
      obtain ⟨ha, hm, hl⟩ := hsc
      simp only at ha hm hl
      subst ha; subst hm
      simp only [evalRT, narrow_scalar hF b hl, HasTyR, LitOk]
      exact ⟨trivial, Or.inr ⟨⟨s, rfl⟩, rfl, rfl, hl⟩⟩
  | .arr xs, t, t', f, h, hs => by
    obtain ⟨b, m, a⟩ := t
    obtain ⟨b', m', a'⟩ := t'
    simp only [HasTyR] at h
    obtain ⟨hd1, hd2⟩ := hs.dims
    simp only at hd1 hd2
    subst hd1; subst hd2
    cases a with
    | zero => exact absurd rfl h.1
    | succ n =>
      have ih := narrow_evalRTList xs ⟨b, m, n⟩ ⟨b', m, n⟩ f h.2 (hs.redim m n)
      simp only [evalRT, Nat.add_sub_cancel, narrow_arr hF, ih.1, HasTyR]
      exact ⟨trivial, by simp, ih.2⟩
  | .map kvs, t, t', f, h, hs => by
    obtain ⟨b, m, a⟩ := t
    obtain ⟨b', m', a'⟩ := t'
    simp only [HasTyR] at h
    obtain ⟨ha, hm, hk⟩ := h
    obtain ⟨hd1, hd2⟩ := hs.dims
    simp only at hd1 hd2 ha hm
    subst hd1; subst hd2; subst ha
    cases m with
    | zero => exact absurd rfl hm
    | succ k =>
      have ih := narrow_evalRTFields kvs ⟨b, 0, k⟩ ⟨b', 0, k⟩ f hk (hs.redim 0 k)
      have c : ((0 : Nat) == 0 && (k + 1 != 0)) = true := by simp
      simp only [evalRT, c, if_true, Nat.add_sub_cancel, narrow_obj hF, ih.1, HasTyR]
      exact ⟨trivial, trivial, by simp, ih.2⟩
  | .struct kvs, t, t', f, h, hs => by
    obtain ⟨b, m, a⟩ := t
    obtain ⟨b', m', a'⟩ := t'
    simp only [HasTyR] at h
    obtain ⟨ha, hm, ps, hl, hmem, hall⟩ := h
    obtain ⟨hd1, hd2⟩ := hs.dims
    simp only at hd1 hd2 ha hm hl
    subst hd1; subst hd2; subst ha; subst hm
    obtain ⟨ps', hl'⟩ := hs.lookup_right ps hl
    simp only at hl'
    obtain ⟨ps0, hl0, hview⟩ := Sub.members hst hs ps' hl'
    simp only at hl0
    rw [hl] at hl0
    cases hl0
    have hn' := hst _ _ hl'
    have c2 : ((0 : Nat) == 0 && (0 : Nat) != 0) = false := by decide
    constructor
    · simp only [evalRT, c2, Bool.false_eq_true, if_false, hl, hl']
      rw [narrow_struct hF b' ps' hl']
      simp only [J.obj.injEq]
      apply List.map_congr_left
      intro p' hp'
      simp only [Prod.mk.injEq, true_and]
      obtain ⟨p, hp, hpn, hfind, hsub⟩ := hview p' hp'
      rw [field_map_find ps _ p'.name p hfind, lookup_evalRTMembers, lookup_evalRTMembers, hpn,
        memberTy_find ps p'.name p hfind,
        memberTy_find ps' p'.name p' (find_name_of_nodup ps' hn' p' hp')]
      have hsome := hall p hp
      rw [hpn] at hsome
      cases he : kvs.lookup p'.name with
      | none => simp [he] at hsome
      | some e =>
        simp only [Option.map_some, Option.getD_some]
        exact (narrow_evalRTMembers ps kvs f hmem p'.name e (mem_of_lookup kvs _ _ he) p p'.ty hfind hsub).1
    · simp only [HasTyR]
      refine ⟨trivial, trivial, ps', hl', ?_, ?_⟩
      · apply HasTyRMembers_of_mem
        intro k e hke hsome
        cases hf' : ps'.find? (fun q => q.name == k) with
        | none => simp [hf'] at hsome
        | some p' =>
          obtain ⟨hpk, hp'⟩ := find_name_eq ps' k p' hf'
          obtain ⟨p, hp, hpn, hfind, hsub⟩ := hview p' hp'
          rw [hpk] at hfind
          rw [memberTy_find ps' k p' hf']
          exact (narrow_evalRTMembers ps kvs f hmem k e hke p p'.ty hfind hsub).2
      · intro p' hp'
        obtain ⟨p, hp, hpn, _, _⟩ := hview p' hp'
        have := hall p hp
        rwa [hpn] at this
  | .ref n sty path, t, t', f, h, hs => by
    simp only [HasTyR] at h
    simp only [evalRT, HasTyR]
    exact ⟨narrow_narrow hst hF hs _, Sub.trans hst h hs⟩
  | .split c false e, t, t', f, h, hs => by
    obtain ⟨b, m, a⟩ := t
    obtain ⟨b', m', a'⟩ := t'
    simp only [HasTyR] at h
    obtain ⟨hd1, hd2⟩ := hs.dims
    simp only at hd1 hd2
    subst hd1; subst hd2
    have ih := narrow_evalRT e ⟨b, m, a + 1⟩ ⟨b', m, a + 1⟩ f h (hs.redim m (a + 1))
    simp only [evalRT, HasTyR]
    rw [elemArr_narrow hF, ih.1]
    exact ⟨rfl, ih.2⟩
  | .split _ true _, _, _, _, h, _ => by simp [HasTyR] at h
  | .merge c false e, t, t', f, h, hs => by
    obtain ⟨b, m, a⟩ := t
    obtain ⟨b', m', a'⟩ := t'
    simp only [HasTyR] at h
    obtain ⟨hd1, hd2⟩ := hs.dims
    simp only at hd1 hd2
    subst hd1; subst hd2
    cases a with
    | zero => exact absurd rfl h.1
    | succ n =>
      simp only [evalRT, Nat.add_sub_cancel, narrow_arr hF, HasTyR, List.map_map]
      refine ⟨?_, by simp, h.2.1, (narrow_evalRT e ⟨b, m, n⟩ ⟨b', m, n⟩ f h.2.2 (hs.redim m n)).2⟩
      congr 1
      apply List.map_congr_left
      intro ix _
      exact (narrow_evalRT e ⟨b, m, n⟩ ⟨b', m, n⟩ (fset f c ix) h.2.2 (hs.redim m n)).1
  | .merge _ true _, _, _, _, h, _ => by simp [HasTyR] at h
  | .disabled d v, t, t', f, h, hs => by
    simp only [HasTyR] at h
    have ih := narrow_evalRT v t t' f h.2 hs
    simp only [evalRT, HasTyR]
    refine ⟨?_, h.1, ih.2⟩
    split
    · exact narrow_null hF t'
    · exact ih.1
  | .fork c ix e, t, t', f, h, hs => by
    simp only [HasTyR] at h
    simp only [evalRT, HasTyR]
    exact narrow_evalRT e t t' (fset f c ix) h hs
theorem narrow_evalRTList :
    ∀ (rs : List RExp) (t t' : Ty) (f : ForkAssign), HasTyRList st t rs → Sub st t t' →
      (evalRTList st F ρ f t rs).map (narrow st F t') = evalRTList st F ρ f t' rs ∧ HasTyRList st t' rs
  | [], _, _, _, _, _ => by simp [evalRTList, HasTyRList]
  | r :: rs, t, t', f, h, hs => by
    simp only [HasTyRList] at h
    have h1 := narrow_evalRT r t t' f h.1 hs
    have h2 := narrow_evalRTList rs t t' f h.2 hs
    simp only [evalRTList, List.map_cons, h1.1, h2.1, HasTyRList]
    exact ⟨trivial, h1.2, h2.2⟩
theorem narrow_evalRTFields :
    ∀ (kvs : List (String × RExp)) (t t' : Ty) (f : ForkAssign), HasTyRFields st t kvs → Sub st t t' →
      (evalRTFields st F ρ f t kvs).map (fun kv => (kv.1, narrow st F t' kv.2)) = evalRTFields st F ρ f t' kvs ∧
      HasTyRFields st t' kvs
  | [], _, _, _, _, _ => by simp [evalRTFields, HasTyRFields]
  | (k, r) :: rs, t, t', f, h, hs => by
    simp only [HasTyRFields] at h
    have h1 := narrow_evalRT r t t' f h.1 hs
    have h2 := narrow_evalRTFields rs t t' f h.2 hs
    simp only [evalRTFields, List.map_cons, h1.1, h2.1, HasTyRFields]
    exact ⟨trivial, h1.2, h2.2⟩
theorem narrow_evalRTMembers (ps : List Param) :
    ∀ (kvs : List (String × RExp)) (f : ForkAssign), HasTyRMembers st ps kvs →
      ∀ (k : String) (e : RExp), (k, e) ∈ kvs → ∀ (p : Param) (t' : Ty),
        ps.find? (fun q => q.name == k) = some p → Sub st p.ty t' →
        narrow st F t' (evalRT st F ρ f p.ty e) = evalRT st F ρ f t' e ∧ HasTyR st t' e
  | [], _, _, _, _, h, _, _, _, _ => by simp at h
  | (k', e') :: es, f, hm, k, e, h, p, t', hf, hs => by
    simp only [HasTyRMembers] at hm
    simp only [List.mem_cons, Prod.mk.injEq] at h
    cases h with
    | inl h =>
      obtain ⟨rfl, rfl⟩ := h
      have hty := hm.1 (by simp [hf])
      rw [memberTy_find ps k p hf] at hty
      exact narrow_evalRT e p.ty t' f hty hs
    | inr h => exact narrow_evalRTMembers ps es f hm.2 k e h p t' hf hs
end

end L1

/-! ## `makeDisabledExp` under the typed evaluation -/

theorem evalRT_mkDisabled (st : StructTable) (F : Nat) (ρ : Store) (f : ForkAssign) (t : Ty) (d inner : RExp) :
    evalRT st F ρ f t (mkDisabled d inner)
      = if Martian.Dataflow.isTrue (evalRT st F ρ f ⟨"bool", 0, 0⟩ d) then .null else evalRT st F ρ f t inner := by
  unfold mkDisabled
  split
  · simp [evalRT]
  · simp only [evalRT, Martian.Dataflow.isTrue, beq_iff_eq]
    split <;> simp [evalRT]
  · simp [evalRT]

theorem HasTyR_mkDisabled (st : StructTable) (d inner : RExp) (t : Ty)
    (hd : HasTyR st ⟨"bool", 0, 0⟩ d) (hi : HasTyR st t inner) : HasTyR st t (mkDisabled d inner) := by
  unfold mkDisabled
  split
  · simp [HasTyR, LitOk]
  · split
    · simp [HasTyR, LitOk]
    · exact hi
  · simp only [HasTyR]; exact ⟨hd, hi⟩

/-! ## P: static projection commutes with the run-time evaluation -/

/-- `f` is a member of `t`'s struct (and, through a typed map, not itself a typed map) -/
def FieldOk (st : StructTable) (t : Ty) (f : String) : Prop :=
  ∃ ft, fieldTy st t.base f = some ft ∧ (t.mapDim ≠ 0 → ft.mapDim = 0)

def PathOk (st : StructTable) : Ty → List String → Prop
  | _, [] => True
  | t, f :: r => FieldOk st t f ∧ PathOk st (projTy1 st t f) r

theorem pathTy_append (st : StructTable) (path : List String) :
    ∀ (t : Ty) (f : String), pathTy st t (path ++ [f]) = projTy1 st (pathTy st t path) f := by
  induction path with
  | nil => intro t f; simp [pathTy]
  | cons g r ih => intro t f; simp [pathTy, ih]

theorem Sub.projTy1 {st : StructTable} (hst : StructsOk st) {t0 t : Ty} (h : Sub st t0 t) (f : String)
    (ft : Ty) (hf : fieldTy st t.base f = some ft) : Sub st (projTy1 st t0 f) (projTy1 st t f) := by
  obtain ⟨ps', p', hl', hp', hpn', hpt', _⟩ := fieldTy_mem st _ _ _ hf
  obtain ⟨ps, hl, hview⟩ := Sub.members hst h ps' hl'
  obtain ⟨p, hp, hpn, hfind, hsub⟩ := hview p' hp'
  have hf0 : fieldTy st t0.base f = some p.ty := by
    have := fieldTy_of_mem st hst t0.base ps hl p hp
    rwa [hpn, hpn'] at this
  obtain ⟨d1, d2⟩ := h.dims
  obtain ⟨e1, e2⟩ := hsub.dims
  unfold Martian.Dataflow.projTy1
  rw [hf0, hf]
  simp only
  rw [hpt'] at hsub e1 e2
  by_cases hz : t0.mapDim = 0
  · have hz' : t.mapDim = 0 := by omega
    simp only [hz, hz', if_true]
    rw [← e1, ← e2, ← d2]
    exact hsub.redim _ _
  · have hz' : ¬ t.mapDim = 0 := by omega
    simp only [hz, hz', if_false]
    rw [← e2, ← d1, ← d2]
    exact hsub.redim _ _

section P
variable (st : StructTable) (hst : StructsOk st) (F : Nat) (hF : NarrowFix st F) (ρ : Store)
include hst hF

theorem FieldOk.redim {st : StructTable} {b : String} {m a : Nat} {fld : String}
    (h : FieldOk st ⟨b, m, a⟩ fld) (a' : Nat) : FieldOk st ⟨b, m, a'⟩ fld := h

mutual
theorem proj1_evalRT :
    ∀ (r : RExp) (t : Ty) (fld : String) (f : ForkAssign), HasTyR st t r → FieldOk st t fld →
      proj1 t fld (evalRT st F ρ f t r) = evalRT st F ρ f (projTy1 st t fld) (bpR fld r) ∧
      HasTyR st (projTy1 st t fld) (bpR fld r)
  | .lit j, t, fld, f, h, hfo => by
    simp only [HasTyR, LitOk] at h
    cases h with
    | inl h => subst h; simp [evalRT, bpR, proj1_null, HasTyR, LitOk]
    | inr h =>
      obtain ⟨_, _, _, hl⟩ := h
      obtain ⟨ft, hft, _⟩ := hfo
      obtain ⟨ps, _, hl2, _⟩ := fieldTy_mem st _ _ _ hft
      rw [hl] at hl2; cases hl2
  | .arr xs, t, fld, f, h, hfo => by
    obtain ⟨b, m, a⟩ := t
    simp only [HasTyR] at h
    cases a with
    | zero => exact absurd rfl h.1
    | succ n =>
      have ih := proj1_evalRTList xs ⟨b, m, n⟩ fld f h.2 hfo
      rw [projTy1_arr]
      generalize Martian.Dataflow.projTy1 st ⟨b, m, n⟩ fld = T at ih ⊢
      obtain ⟨B, M, A⟩ := T
      simp only [evalRT, bpR, Nat.add_sub_cancel, proj1_arr, ih.1, HasTyR]
      exact ⟨trivial, by simp, ih.2⟩
  | .map kvs, t, fld, f, h, hfo => by
    obtain ⟨b, m, a⟩ := t
    simp only [HasTyR] at h
    obtain ⟨ha, hm, hk⟩ := h
    try simp only at ha hm
    subst ha
    cases m with
    | zero => exact absurd rfl hm
    | succ k =>
      obtain ⟨ft, hft, hmap⟩ := hfo
      have hnm : ∀ ft', fieldTy st b fld = some ft' → ft'.mapDim = 0 := by
        intro ft' h'
        simp only at hft
        rw [hft] at h'
        cases h'
        exact hmap (by simp)
      obtain ⟨e1, e2⟩ := projTy1_map st b k fld hnm
      have ih := proj1_evalRTFields kvs ⟨b, 0, k⟩ fld f hk ⟨ft, hft, by simp⟩
      rw [e1]
      rw [e2] at ih
      have c : ((0 : Nat) == 0 && ((Martian.Dataflow.projTy1 st ⟨b, 0, k⟩ fld).arrDim + 1 != 0)) = true := by simp
      simp only [evalRT, bpR, Nat.add_sub_cancel, proj1_obj, c, if_true, ih.1, HasTyR]
      simp
      refine ⟨?_, ih.2⟩
      rw [proj1_obj, ih.1]
  | .struct kvs, t, fld, f, h, hfo => by
    obtain ⟨b, m, a⟩ := t
    simp only [HasTyR] at h
    obtain ⟨ha, hm, ps, hl, hmem, hall⟩ := h
    try simp only at ha hm hl
    subst ha; subst hm
    obtain ⟨ft, hft, _⟩ := hfo
    obtain ⟨ps0, p, hl0, hp, hpn, hpt, hfind⟩ := fieldTy_mem st _ _ _ hft
    simp only at hl0
    rw [hl] at hl0; cases hl0
    have hT : Martian.Dataflow.projTy1 st ⟨b, 0, 0⟩ fld = ft := by
      simp only [Martian.Dataflow.projTy1, hft, if_true, Nat.add_zero]
    rw [hT]
    have hsome := hall p hp
    rw [hpn] at hsome
    have c2 : ((0 : Nat) == 0 && (0 : Nat) != 0) = false := by decide
    cases he : kvs.lookup fld with
    | none => simp [he] at hsome
    | some e =>
      have hty := HasTyRMembers_lookup st ps kvs fld e p hmem he hfind
      rw [hpt] at hty
      simp only [evalRT, c2, Bool.false_eq_true, if_false, hl, bpR, he, Option.getD_some]
      refine ⟨?_, hty⟩
      simp only [proj1, atBase, mapArr]
      rw [field_map_find ps _ fld p hfind, lookup_evalRTMembers, hpn, he, memberTy_find ps fld p hfind, hpt]
      rfl
  | .ref n sty path, t, fld, f, h, hfo => by
    simp only [HasTyR] at h
    obtain ⟨ft, hft, hmap⟩ := hfo
    obtain ⟨d1, d2⟩ := h.dims
    simp only [evalRT, bpR, HasTyR]
    constructor
    · rw [proj1_narrow hF t fld ft hft hmap, projPath_append,
        proj1_dims (pathTy st sty path) t d1 d2]
    · rw [pathTy_append]
      exact Sub.projTy1 hst h fld ft hft
  | .split c false e, t, fld, f, h, hfo => by
    obtain ⟨b, m, a⟩ := t
    simp only [HasTyR] at h
    have ih := proj1_evalRT e ⟨b, m, a + 1⟩ fld f h hfo
    rw [projTy1_arr] at ih
    simp only [evalRT, bpR, HasTyR]
    rw [← elemArr_proj1, ih.1]
    exact ⟨rfl, ih.2⟩
  | .split _ true _, _, _, _, h, _ => by simp [HasTyR] at h
  | .merge c false e, t, fld, f, h, hfo => by
    obtain ⟨b, m, a⟩ := t
    simp only [HasTyR] at h
    cases a with
    | zero => exact absurd rfl h.1
    | succ n =>
      have hns := Proofs.ResolverForks.noSplitOf_bpR c fld e h.2.1
      rw [projTy1_arr]
      have ih0 := (proj1_evalRT e ⟨b, m, n⟩ fld f h.2.2 hfo).2
      have ihf := fun ix => (proj1_evalRT e ⟨b, m, n⟩ fld (fset f c ix) h.2.2 hfo).1
      generalize Martian.Dataflow.projTy1 st ⟨b, m, n⟩ fld = T at ih0 ihf ⊢
      obtain ⟨B, M, A⟩ := T
      simp only [bpR, Proofs.ResolverForks.mkMerge_noSplit c false _ hns, evalRT, Nat.add_sub_cancel, proj1_arr,
        HasTyR, List.map_map]
      refine ⟨?_, by simp, hns, ih0⟩
      congr 1
      apply List.map_congr_left
      intro ix _
      exact ihf ix
  | .merge _ true _, _, _, _, h, _ => by simp [HasTyR] at h
  | .disabled d v, t, fld, f, h, hfo => by
    simp only [HasTyR] at h
    have ih := proj1_evalRT v t fld f h.2 hfo
    simp only [bpR]
    refine ⟨?_, HasTyR_mkDisabled st d _ _ h.1 ih.2⟩
    rw [evalRT_mkDisabled]
    simp only [evalRT]
    split
    · exact proj1_null _ _
    · exact ih.1
  | .fork c ix e, t, fld, f, h, hfo => by
    simp only [HasTyR] at h
    simp only [evalRT, bpR, HasTyR]
    exact proj1_evalRT e t fld (fset f c ix) h hfo
theorem proj1_evalRTList :
    ∀ (rs : List RExp) (t : Ty) (fld : String) (f : ForkAssign), HasTyRList st t rs → FieldOk st t fld →
      (evalRTList st F ρ f t rs).map (proj1 t fld) = evalRTList st F ρ f (projTy1 st t fld) (bpRList fld rs) ∧
      HasTyRList st (projTy1 st t fld) (bpRList fld rs)
  | [], _, _, _, _, _ => by simp [evalRTList, bpRList, HasTyRList]
  | r :: rs, t, fld, f, h, hfo => by
    simp only [HasTyRList] at h
    have h1 := proj1_evalRT r t fld f h.1 hfo
    have h2 := proj1_evalRTList rs t fld f h.2 hfo
    simp only [evalRTList, bpRList, List.map_cons, h1.1, h2.1, HasTyRList]
    exact ⟨trivial, h1.2, h2.2⟩
theorem proj1_evalRTFields :
    ∀ (kvs : List (String × RExp)) (t : Ty) (fld : String) (f : ForkAssign), HasTyRFields st t kvs → FieldOk st t fld →
      (evalRTFields st F ρ f t kvs).map (fun kv => (kv.1, proj1 t fld kv.2))
        = evalRTFields st F ρ f (projTy1 st t fld) (bpRFields fld kvs) ∧
      HasTyRFields st (projTy1 st t fld) (bpRFields fld kvs)
  | [], _, _, _, _, _ => by simp [evalRTFields, bpRFields, HasTyRFields]
  | (k, r) :: rs, t, fld, f, h, hfo => by
    simp only [HasTyRFields] at h
    have h1 := proj1_evalRT r t fld f h.1 hfo
    have h2 := proj1_evalRTFields rs t fld f h.2 hfo
    simp only [evalRTFields, bpRFields, List.map_cons, h1.1, h2.1, HasTyRFields]
    exact ⟨trivial, h1.2, h2.2⟩
end

/-- along a whole path -/
theorem projPath_evalRT (f : ForkAssign) (path : List String) :
    ∀ (r : RExp) (t : Ty), HasTyR st t r → PathOk st t path →
      projPath st t path (evalRT st F ρ f t r) = evalRT st F ρ f (pathTy st t path) (bpPath path r) ∧
      HasTyR st (pathTy st t path) (bpPath path r) := by
  induction path with
  | nil => intro r t h _; exact ⟨rfl, h⟩
  | cons g rest ih =>
    intro r t h hp
    simp only [PathOk] at hp
    have h1 := proj1_evalRT st hst F hF ρ r t g f h hp.1
    have h2 := ih (bpR g r) (projTy1 st t g) h1.2 hp.2
    simp only [projPath, pathTy, bpPath, h1.1]
    exact h2

end P

end Proofs.ResolverStatic
