import Martian.VdrHyp
import Proofs.VdrInv
import Proofs.VdrExact
import Proofs.VdrListed
import Proofs.VdrBuild

/-! The executable checks imply the hypotheses they stand for. -/
namespace Martian.Vdr

theorem noTrailing_of_endsSlash {p : Path} (h : endsSlash p = false) : NoTrailingSlash p := by
  intro q e
  subst e
  simp [endsSlash] at h

theorem endsSlash_eq {p : Path} (h : endsSlash p = true) : p = p.dropLast ++ ['/'] := by
  have hne : p ≠ [] := by intro e; subst e; simp [endsSlash] at h
  have hl : p.getLast hne = '/' := by
    simp only [endsSlash, beq_iff_eq] at h
    rw [List.getLast?_eq_some_getLast hne] at h
    exact Option.some.inj h
  rw [← hl]
  exact (List.dropLast_concat_getLast hne).symm

theorem stripN_spec : ∀ (n : Nat) (p : Path), ∃ k, p = stripN n p ++ List.replicate k '/' := by
  intro n
  induction n with
  | zero => intro p; exact ⟨0, by simp [stripN]⟩
  | succ n ih =>
    intro p
    simp only [stripN]
    split
    · rename_i he
      obtain ⟨k, hk⟩ := ih p.dropLast
      refine ⟨k + 1, ?_⟩
      rw [List.replicate_succ', ← List.append_assoc, ← hk]
      exact endsSlash_eq he
    · exact ⟨0, by simp⟩

theorem noDbl_of_hasDbl {p : Path} (h : hasDbl p = false) : NoDbl p := by
  rintro ⟨s, t, e⟩
  induction s generalizing p with
  | nil =>
    simp at e
    subst e
    simp [hasDbl] at h
  | cons a r ih =>
    cases p with
    | nil => simp at e
    | cons b q =>
      simp only [List.cons_append, List.cons.injEq] at e
      simp only [hasDbl, Bool.or_eq_false_iff] at h
      exact ih h.2 e.2

theorem cfgOKB_sound {c : Cfg} {s : St} (h : cfgOKB c s = true) : CfgOK c s := by
  simp only [cfgOKB, Bool.and_eq_true, List.all_eq_true, Bool.or_eq_true, Bool.not_eq_true',
    decide_eq_true_eq] at h
  obtain ⟨⟨⟨⟨h1, h2⟩, h3⟩, h4⟩, h5⟩ := h
  refine ⟨?_, ?_, ?_, ?_, ⟨h4, h5⟩⟩
  · intro a ha
    unfold Cfg.filesOf
    cases hl : c.argFiles.lookup a with
    | none => rfl
    | some fs =>
      have hm := lookup_some_mem hl
      rcases h1 (a, fs) hm with h | h
      · rw [ha] at h; cases h
      · simpa using h
  · intro a f hf
    unfold Cfg.filesOf at hf ⊢
    cases hl : c.argFiles.lookup a with
    | none => rw [hl] at hf; cases hf
    | some fs =>
      rw [hl] at hf
      simp only [Option.getD_some] at hf ⊢
      have hm := lookup_some_mem hl
      rcases h2 (a, fs) hm f hf with hc | hc
      · exact Or.inl (noTrailing_of_endsSlash hc)
      · cases he : endsSlash f with
        | false => exact Or.inl (noTrailing_of_endsSlash he)
        | true =>
          obtain ⟨k, hk⟩ := stripN_spec f.length f
          refine Or.inr ⟨stripSlashes f, by simpa using hc.1, noTrailing_of_endsSlash hc.2, k, ?_, hk⟩
          cases k with
          | zero =>
            exfalso
            have h0 : f = stripSlashes f := by simpa [stripSlashes] using hk
            rw [← h0, he] at hc
            exact absurd hc.2 (by decide)
          | succ k => omega
  · intro d hd
    exact noTrailing_of_endsSlash (h3 d hd).1
  · intro d hd
    exact noDbl_of_hasDbl (h3 d hd).2

theorem pathKindsB_sound {disk : List DiskEnt} (h : pathKindsB disk = true) : PathKinds disk := by
  simp only [pathKindsB, List.all_eq_true, Bool.or_eq_true, decide_eq_true_eq, bne_iff_ne, ne_eq] at h
  intro d hd d' hd' e
  rcases h d hd d' hd' with h1 | h1
  · exact absurd e h1
  · exact h1

theorem diskWFB_sound {disk : List DiskEnt} (h1 : sepB disk = true) (h2 : linksTopB disk = true) : DiskWF disk := by
  refine ⟨?_, ?_⟩
  · simp only [sepB, List.all_eq_true, Bool.or_eq_true, Bool.not_eq_true'] at h1
    intro d hd ht d' hd' ht'
    rcases h1 d hd with h | h
    · rw [ht] at h; cases h
    · rcases h d' hd' with h | h
      · rw [ht'] at h; cases h
      · exact h
  · simp only [linksTopB, List.all_eq_true, Bool.or_eq_true, Bool.not_eq_true', decide_eq_true_eq,
      List.isEmpty_iff] at h2
    intro d hd ha d' hd' ht' hin
    rcases h2 d hd with h | h
    · exact absurd h ha
    · rcases h d' hd' with (h | h) | h
      · rw [ht'] at h; cases h
      · rw [hin] at h; cases h
      · exact h

end Martian.Vdr
