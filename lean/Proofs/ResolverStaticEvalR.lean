/-
C01 — audit M-5 / M-6.
* `evalRT_eq_narrow_evalR`: on well-typed resolved expressions the TYPED run-time evaluation
  (`evalRT`, the one the refinement and the driver use) is the UNTYPED evaluation (`evalR`, the
  one the split / merge / projection kernel laws are stated in) followed by narrowing to the type.
* `runCallable_fuel_stable`: for a program whose call graph is acyclic (`CallRankOk`) den does
  not depend on the call-depth fuel once it exceeds the depth of the callee.
-/
import Proofs.ResolverStaticTree3
import Proofs.DataflowAliasKeys
import Martian.ResolverStaticCheck

namespace Proofs.ResolverStatic
open Martian.Dataflow Martian.Resolver Martian.ResolverForks Martian.ResolverStatic Proofs.Dataflow
  Proofs.ResolverForks

/-- narrowing at a type without array / map levels does not change whether a value is `true` -/
theorem isTrue_narrow0 {st : StructTable} {F : Nat} (hF : NarrowFix st F) (b : String) (v : J) :
    Martian.Dataflow.isTrue (narrow st F ⟨b, 0, 0⟩ v) = Martian.Dataflow.isTrue v := by
  rw [hF]
  simp only [atBase, mapArr, narrowBase]
  cases st.lookup b with
  | none => rfl
  | some ps => cases v <;> simp [Martian.Dataflow.isTrue]

section evalR
variable (st : StructTable) (hst : StructsOk st) (F : Nat) (hF : NarrowFix st F) (ρ : Store)
include hst hF

mutual
theorem evalRT_eq_narrow_evalR :
    ∀ (r : RExp) (t : Ty) (f : ForkAssign), HasTyR st t r →
      evalRT st F ρ f t r = narrow st F t (evalR st ρ f r)
  | .lit j, t, f, h => by
    simp only [HasTyR, LitOk] at h
    cases h with
    | inl h => subst h; simp [evalRT, evalR, narrow_null hF]
    | inr h =>
      obtain ⟨⟨s, rfl⟩, ha, hm, hl⟩ := h
      obtain ⟨b, m, a⟩ := t
      simp only at ha hm hl
      subst ha; subst hm
      simp [evalRT, evalR, narrow_scalar hF b hl]
  | .arr xs, t, f, h => by
    obtain ⟨b, m, a⟩ := t
    simp only [HasTyR] at h
    cases a with
    | zero => exact absurd rfl h.1
    | succ n =>
      simp only [evalRT, evalR, Nat.add_sub_cancel, narrow_arr hF]
      rw [evalRT_eq_narrow_evalRList xs ⟨b, m, n⟩ f h.2]
  | .map kvs, t, f, h => by
    obtain ⟨b, m, a⟩ := t
    simp only [HasTyR] at h
    obtain ⟨ha, hm, hk⟩ := h
    try simp only at ha hm
    subst ha
    cases m with
    | zero => exact absurd rfl hm
    | succ k =>
      have c : ((0 : Nat) == 0 && (k + 1 != 0)) = true := by simp
      simp only [evalRT, evalR, c, if_true, Nat.add_sub_cancel, narrow_obj hF]
      rw [evalRT_eq_narrow_evalRFields kvs ⟨b, 0, k⟩ f hk]
  | .struct kvs, t, f, h => by
    obtain ⟨b, m, a⟩ := t
    simp only [HasTyR] at h
    obtain ⟨ha, hm, ps, hl, hmem, hall⟩ := h
    try simp only at ha hm hl
    subst ha; subst hm
    have hn := hst _ _ hl
    have c2 : ((0 : Nat) == 0 && (0 : Nat) != 0) = false := by decide
    simp only [evalRT, evalR, c2, Bool.false_eq_true, if_false, hl]
    rw [narrow_struct hF b ps hl]
    simp only [J.obj.injEq]
    apply List.map_congr_left
    intro p hp
    simp only [Prod.mk.injEq, true_and]
    have hfind := find_name_of_nodup ps hn p hp
    rw [lookup_evalRTMembers, memberTy_find ps p.name p hfind]
    simp only [J.field, lookup_evalRFields]
    have hsome := hall p hp
    cases he : kvs.lookup p.name with
    | none => simp [he] at hsome
    | some e =>
      simp only [Option.map_some, Option.getD_some]
      exact evalRT_eq_narrow_evalRMembers ps kvs f hmem p.name e (mem_of_lookup kvs _ _ he) p hfind
  | .ref n sty path, t, f, _ => by simp [evalRT, evalR]
  | .split c false e, t, f, h => by
    obtain ⟨b, m, a⟩ := t
    simp only [HasTyR] at h
    simp only [evalRT, evalR]
    rw [evalRT_eq_narrow_evalR e ⟨b, m, a + 1⟩ f h, elemArr_narrow hF]
  | .split _ true _, _, _, h => by simp [HasTyR] at h
  | .merge c false e, t, f, h => by
    obtain ⟨b, m, a⟩ := t
    simp only [HasTyR] at h
    cases a with
    | zero => exact absurd rfl h.1
    | succ n =>
      simp only [evalRT, evalR, Nat.add_sub_cancel, narrow_arr hF, List.map_map]
      congr 1
      apply List.map_congr_left
      intro ix _
      exact evalRT_eq_narrow_evalR e ⟨b, m, n⟩ (fset f c ix) h.2.2
  | .merge _ true _, _, _, h => by simp [HasTyR] at h
  | .disabled d v, t, f, h => by
    simp only [HasTyR] at h
    simp only [evalRT, evalR]
    rw [evalRT_eq_narrow_evalR d _ f h.1, isTrue_narrow0 hF]
    split
    · exact (narrow_null hF t).symm
    · exact evalRT_eq_narrow_evalR v t f h.2
  | .fork c ix e, t, f, h => by
    simp only [HasTyR] at h
    simp only [evalRT, evalR]
    exact evalRT_eq_narrow_evalR e t (fset f c ix) h
theorem evalRT_eq_narrow_evalRList :
    ∀ (rs : List RExp) (t : Ty) (f : ForkAssign), HasTyRList st t rs →
      evalRTList st F ρ f t rs = (evalRList st ρ f rs).map (narrow st F t)
  | [], _, _, _ => by simp [evalRTList, evalRList]
  | r :: rs, t, f, h => by
    simp only [HasTyRList] at h
    simp [evalRTList, evalRList, evalRT_eq_narrow_evalR r t f h.1, evalRT_eq_narrow_evalRList rs t f h.2]
theorem evalRT_eq_narrow_evalRFields :
    ∀ (kvs : List (String × RExp)) (t : Ty) (f : ForkAssign), HasTyRFields st t kvs →
      evalRTFields st F ρ f t kvs = (evalRFields st ρ f kvs).map fun kv => (kv.1, narrow st F t kv.2)
  | [], _, _, _ => by simp [evalRTFields, evalRFields]
  | (k, r) :: rs, t, f, h => by
    simp only [HasTyRFields] at h
    simp [evalRTFields, evalRFields, evalRT_eq_narrow_evalR r t f h.1, evalRT_eq_narrow_evalRFields rs t f h.2]
theorem evalRT_eq_narrow_evalRMembers (ps : List Param) :
    ∀ (kvs : List (String × RExp)) (f : ForkAssign), HasTyRMembers st ps kvs →
      ∀ (k : String) (e : RExp), (k, e) ∈ kvs → ∀ (p : Param), ps.find? (fun q => q.name == k) = some p →
        evalRT st F ρ f p.ty e = narrow st F p.ty (evalR st ρ f e)
  | [], _, _, _, _, h, _, _ => by simp at h
  | (k0, e0) :: es, f, hm, k, e, h, p, hf => by
    simp only [HasTyRMembers] at hm
    simp only [List.mem_cons, Prod.mk.injEq] at h
    cases h with
    | inl h =>
      obtain ⟨rfl, rfl⟩ := h
      have hty := hm.1 (by simp [hf])
      rw [memberTy_find ps k p hf] at hty
      exact evalRT_eq_narrow_evalR e p.ty f hty
    | inr h => exact evalRT_eq_narrow_evalRMembers ps es f hm.2 k e h p hf
end

end evalR

/-! ## call-depth fuel -/

/-- the call graph is acyclic: callees rank lower than their callers -/
def CallRankOk (P : Program) (rank : String → Nat) : Prop :=
  ∀ name pins outs calls ret, P.callables.lookup name = some (.pipeline pins outs calls ret) →
    ∀ c ∈ calls, (P.callables.lookup c.callee).isSome → rank c.callee < rank name

theorem runCallable_fuel_stable (P : Program) (O : Oracle) (nf : Nat) (rank : String → Nat)
    (hr : CallRankOk P rank) :
    ∀ (fuel : Nat) (callee : String), rank callee < fuel →
      ∀ p f args, runCallable P O nf (fuel + 1) callee p f args = runCallable P O nf fuel callee p f args := by
  intro fuel
  induction fuel with
  | zero => intro callee h; omega
  | succ fuel ih =>
    intro callee hlt p f args
    cases hl : P.callables.lookup callee with
    | none => simp [runCallable, hl]
    | some cb =>
      cases cb with
      | stage i o => simp [runCallable, hl]
      | pipeline pins outs calls ret =>
        rw [Proofs.DataflowAlias.runCallable_pipeline P O nf (fuel + 1) callee p f args pins outs calls ret hl,
          Proofs.DataflowAlias.runCallable_pipeline P O nf fuel callee p f args pins outs calls ret hl]
        have hcongr := Proofs.DataflowAlias.evalCalls_congr_run P.table nf P.insOf (runCallable P O nf fuel)
          (runCallable P O nf (fuel + 1)) p f calls ⟨pins, args, []⟩ [] (by
            intro c hc q g x
            cases hcl : P.callables.lookup c.callee with
            | none =>
              cases fuel with
              | zero => simp [runCallable, hcl]
              | succ k => simp [runCallable, hcl]
            | some cb' =>
              have := hr callee pins outs calls ret hl c hc (by simp [hcl])
              exact ih c.callee (by omega) q g x)
        rw [hcongr]

/-- den does not depend on the call-depth fuel beyond the depth of the program -/
theorem den_fuel_independent (P : Program) (O : Oracle) (rank : String → Nat) (hr : CallRankOk P rank)
    (htop : rank P.top.callee < P.fuel) (k : Nat) :
    runCallable P O P.nfuel (P.fuel + k) P.top.callee [P.top.id] [] P.topArgs = den P O := by
  induction k with
  | zero => rfl
  | succ k ih =>
    have := runCallable_fuel_stable P O P.nfuel rank hr (P.fuel + k) P.top.callee (by omega)
      [P.top.id] [] P.topArgs
    rw [show P.fuel + (k + 1) = P.fuel + k + 1 from rfl, this, ih]

end Proofs.ResolverStatic

namespace Proofs.ResolverStatic
open Martian.Dataflow Martian.ResolverStatic

theorem callRankOk_of_B (P : Program) (h : callGraphAcyclicB P = true) :
    CallRankOk P (callDepth P P.callables.length) ∧ callDepth P P.callables.length P.top.callee < P.fuel := by
  simp only [callGraphAcyclicB, Bool.and_eq_true, List.all_eq_true, decide_eq_true_eq] at h
  refine ⟨?_, h.2⟩
  intro name pins outs calls ret hl c hc hs
  have := h.1 (name, _) (mem_of_lookup _ _ _ hl)
  simp only [List.all_eq_true, Bool.or_eq_true, Option.isNone_iff_eq_none, decide_eq_true_eq] at this
  cases this c hc with
  | inl h0 => rw [h0] at hs; cases hs
  | inr h0 => exact h0

end Proofs.ResolverStatic
