import Martian.JobTemplate
import Proofs.ShellQuote
namespace Martian.JobTemplate
open Martian.ShellQuote

theorem run_nil (s : St) : run s [] = some ([], s) := rfl

theorem run_cons (s : St) (b : UInt8) (r : Bytes) :
    run s (b :: r) = (step s b).bind fun p => (run p.2 r).map fun q => (p.1 ++ q.1, q.2) := by
  rw [run]
  cases step s b with
  | none => rfl
  | some p =>
    obtain ⟨t1, s1⟩ := p
    simp only [Option.bind_some]
    cases run s1 r with
    | none => rfl
    | some q => rfl

theorem run_append (s : St) (a b : Bytes) :
    run s (a ++ b) = (run s a).bind fun p => (run p.2 b).map fun q => (p.1 ++ q.1, q.2) := by
  induction a generalizing s with
  | nil => simp [run_nil]
  | cons x a ih =>
    rw [List.cons_append, run_cons, run_cons]
    cases step s x with
    | none => rfl
    | some p =>
      obtain ⟨t1, s1⟩ := p
      simp only [Option.bind_some]
      rw [ih]
      cases run s1 a with
      | none => rfl
      | some q =>
        obtain ⟨t2, s2⟩ := q
        simp only [Option.bind_some, Option.map_some]
        cases run s2 b with
        | none => rfl
        | some u => simp [List.append_assoc]

/-- a text that produces no token -/
theorem run_silent_append {s s' : St} {a : Bytes} (h : run s a = some ([], s')) (b : Bytes) :
    run s (a ++ b) = run s' b := by
  rw [run_append, h]
  simp only [Option.bind_some, List.nil_append]
  cases run s' b <;> simp

theorem run_emit_append {s s' : St} {a : Bytes} {t : List Tok} (h : run s a = some (t, s')) (b : Bytes) :
    run s (a ++ b) = (run s' b).map fun q => (t ++ q.1, q.2) := by
  rw [run_append, h]; rfl


/-! ### inside double quotes -/

theorem step_dq_plain (cur : Bytes) (ws : WS) (a e : Bool) (b : UInt8)
    (h1 : (b == 0x22) = false) (h2 : (b == 0x24) = false) (h3 : (b == 0x60) = false)
    (h4 : (b == 0x5C) = false) :
    step ⟨.dq, cur, ws, a, e⟩ b = some ([], ⟨.dq, cur ++ [b], ws, a, e⟩) := by
  simp [step, h1, h2, h3, h4]

theorem run_dq_esc {tbl : EscTable} (cur : Bytes) (ws : WS) (a e : Bool) (b : UInt8)
    (h : escShapeOK tbl b = true) :
    run ⟨.dq, cur, ws, a, e⟩ (escOf tbl b) = some ([], ⟨.dq, cur ++ [b], ws, a, e⟩) := by
  unfold escShapeOK at h
  simp only [Bool.or_eq_true, Bool.and_eq_true, Bool.not_eq_true', beq_iff_eq] at h
  rcases h with ⟨he, hs⟩ | ⟨he, hs⟩
  · rw [he]
    simp only [dqSpecial, Bool.or_eq_false_iff] at hs
    obtain ⟨⟨⟨h24, h60⟩, h22⟩, h5c⟩ := hs
    rw [run_cons, step_dq_plain cur ws a e b h22 h24 h60 h5c]
    simp [run_nil]
  · rw [he, run_cons]
    have : step ⟨.dq, cur, ws, a, e⟩ 0x5C = some ([], ⟨.dqbs, cur, ws, a, e⟩) := by
      simp [step]
    rw [this]
    simp only [Option.bind_some, run_cons, run_nil]
    simp [step, hs]

theorem run_dq_quoteFrom {tbl : EscTable} (ht : TableOK tbl = true) :
    ∀ (s : Bytes) (k : Nat) (cur : Bytes) (ws : WS) (a e : Bool),
      validFrom s k = true → (∀ x ∈ s.take k, ¬ x < 0x80) → (0 : UInt8) ∉ s →
      run ⟨.dq, cur, ws, a, e⟩ (quoteFrom tbl s k) = some ([], ⟨.dq, cur ++ s, ws, a, e⟩) := by
  intro s
  induction s with
  | nil => intro k cur ws a e _ _ _; cases k <;> simp [quoteFrom, run_nil]
  | cons b r ih =>
    intro k cur ws a e hv hk h0
    have h0r : (0 : UInt8) ∉ r := fun h => h0 (List.mem_cons_of_mem _ h)
    have hb0 : b ≠ 0 := fun e => h0 (by simp [e])
    have fin : cur ++ [b] ++ r = cur ++ b :: r := by simp
    cases k with
    | succ k =>
      have hb : ¬ b < 0x80 := hk b (by simp)
      obtain ⟨h22, h24, h60, h5c⟩ := ge80_not_special b hb
      simp only [quoteFrom]
      rw [run_cons, step_dq_plain cur ws a e b h22 h24 h60 h5c]
      simp only [validFrom] at hv
      simp only [Option.bind_some]
      rw [ih k _ ws a e hv (fun x hx => hk x (by simp [List.take_succ_cons, hx])) h0r, fin]
      rfl
    | zero =>
      by_cases hb : b < 0x80
      · have hw : runeWidth (b :: r) = some 1 := by simp [runeWidth, hb]
        simp only [validFrom, hw] at hv
        simp only [quoteFrom, hb, if_true]
        rw [run_silent_append (run_dq_esc cur ws a e b (tableOK_ascii ht b hb hb0))]
        rw [ih 0 _ ws a e hv (by simp) h0r, fin]
      · simp only [validFrom] at hv
        cases hw : runeWidth (b :: r) with
        | none => simp [hw] at hv
        | some w =>
          simp only [hw] at hv
          obtain ⟨h22, h24, h60, h5c⟩ := ge80_not_special b hb
          simp only [quoteFrom, hb, if_false, hw]
          rw [run_cons, step_dq_plain cur ws a e b h22 h24 h60 h5c]
          simp only [Option.bind_some]
          rw [ih (w - 1) _ ws a e hv (runeWidth_cont b r w hb hw) h0r, fin]
          rfl

/-- a word part produced by the Go quoter, met outside quotes: no token is
completed, the original bytes are appended to the current word -/
theorem run_quote {tbl : EscTable} (ht : TableOK tbl = true) (s cur : Bytes) (ws : WS) (a e : Bool)
    (hv : validUtf8 s = true) (h0 : (0 : UInt8) ∉ s) :
    run ⟨.normal, cur, ws, a, e⟩ (quote tbl s) = some ([], ⟨.normal, cur ++ s, .quoted, a, e⟩) := by
  have h1 : run ⟨.normal, cur, ws, a, e⟩ [0x22] = some ([], ⟨.dq, cur, .quoted, a, e⟩) := by
    simp [run, step, stepNormal]
  have h2 := run_dq_quoteFrom ht s 0 cur .quoted a e hv (by simp) h0
  have h3 : run ⟨.dq, cur ++ s, .quoted, a, e⟩ [0x22] = some ([], ⟨.normal, cur ++ s, .quoted, a, e⟩) := by
    simp [run, step]
  have : quote tbl s = [0x22] ++ (quoteFrom tbl s 0 ++ [0x22]) := by simp [quote, quoteBody]
  rw [this, run_silent_append h1, run_silent_append h2, h3]

/-! ### names, assignments, separators -/

theorem nameCh_not_special (b : UInt8) (hb : isNameCh b = true) :
    (b == 0x20) = false ∧ (b == 0x09) = false ∧ (b == 0x0A) = false ∧ (b == 0x5C) = false ∧
    (b == 0x22) = false ∧ (b == 0x27) = false ∧ (b == 0x23) = false ∧ (b == 0x3E) = false ∧
    (b == 0x26) = false ∧ (b == 0x24) = false ∧ (b == 0x3D) = false := by
  refine ⟨?_, ?_, ?_, ?_, ?_, ?_, ?_, ?_, ?_, ?_, ?_⟩ <;>
  · apply Bool.eq_false_iff.mpr
    intro e
    have := eq_of_beq e
    subst this
    revert hb
    decide

theorem bareWS_bareWS (ws : WS) : bareWS (bareWS ws) = bareWS ws := by cases ws <;> rfl

theorem step_nameCh (cur : Bytes) (ws : WS) (a e : Bool) (b : UInt8) (hb : isNameCh b = true) :
    step ⟨.normal, cur, ws, a, e⟩ b = some ([], ⟨.normal, cur ++ [b], bareWS ws, a, e⟩) := by
  obtain ⟨h1, h2, h3, h4, h5, h6, h7, h8, h9, h10, h11⟩ := nameCh_not_special b hb
  simp [step, stepNormal, h1, h2, h3, h4, h5, h6, h7, h8, h9, h10, h11, hb]

theorem run_nameChs (k : Bytes) (hk : ∀ b ∈ k, isNameCh b = true) (hne : k ≠ []) :
    ∀ (cur : Bytes) (ws : WS) (a e : Bool),
      run ⟨.normal, cur, ws, a, e⟩ k = some ([], ⟨.normal, cur ++ k, bareWS ws, a, e⟩) := by
  induction k with
  | nil => exact absurd rfl hne
  | cons b k ih =>
    intro cur ws a e
    rw [run_cons, step_nameCh cur ws a e b (hk b (by simp))]
    simp only [Option.bind_some]
    by_cases hk' : k = []
    · subst hk'; simp [run_nil]
    · rw [ih (fun x hx => hk x (by simp [hx])) hk' _ _ a e, bareWS_bareWS]
      simp

theorem isName_chars {k : Bytes} (h : isName k = true) : k ≠ [] ∧ ∀ b ∈ k, isNameCh b = true := by
  cases k with
  | nil => simp [isName] at h
  | cons b r =>
    simp only [isName, Bool.and_eq_true, List.all_eq_true] at h
    refine ⟨by simp, ?_⟩
    intro x hx
    rcases List.mem_cons.mp hx with rfl | hx
    · simp [isNameCh, h.1]
    · exact h.2 x hx

/-- `NAME=` at the start of a word: the word is marked as an assignment -/
theorem run_name_eq (k : Bytes) (hk : isName k = true) :
    run clean (k ++ [0x3D]) = some ([], ⟨.normal, k ++ [0x3D], .bare, true, false⟩) := by
  obtain ⟨hne, hch⟩ := isName_chars hk
  have h1 := run_nameChs k hch hne [] .none false false
  rw [clean, run_silent_append h1]
  simp [run, step, stepNormal, bareWS, hk]

theorem run_sep (cur : Bytes) (a : Bool) :
    run ⟨.normal, cur, .quoted, a, false⟩ sep = some ([Tok.word cur a], clean) := by
  simp [sep, run, step, stepNormal, flush, clean]

/-- one `KEY="value" \⏎  ` group of `formatArgs` -/
theorem run_env {tbl : EscTable} (ht : TableOK tbl = true) (k v : Bytes)
    (hk : isName k = true) (hv : validUtf8 v = true) (h0 : (0 : UInt8) ∉ v) :
    run clean (envStr tbl (k, v) ++ sep) = some ([Tok.word (assignWord (k, v)) true], clean) := by
  have e : envStr tbl (k, v) ++ sep = (k ++ [0x3D]) ++ (quote tbl v ++ sep) := by simp [envStr]
  rw [e, run_silent_append (run_name_eq k hk),
    run_silent_append (run_quote ht v _ _ _ _ hv h0), run_sep]
  simp [assignWord]

theorem run_envs {tbl : EscTable} (ht : TableOK tbl = true) (envs : List (Bytes × Bytes))
    (hk : ∀ kv ∈ envs, isName kv.1 = true ∧ validUtf8 kv.2 = true ∧ (0 : UInt8) ∉ kv.2) :
    run clean ((envs.map fun kv => envStr tbl kv ++ sep).flatten)
      = some (envs.map (fun kv => Tok.word (assignWord kv) true), clean) := by
  induction envs with
  | nil => simp [run_nil]
  | cons kv es ih =>
    obtain ⟨k, v⟩ := kv
    have h := hk (k, v) (by simp)
    simp only [List.map_cons, List.flatten_cons]
    rw [run_emit_append (run_env ht k v h.1 h.2.1 h.2.2), ih (fun x hx => hk x (by simp [hx]))]
    simp

/-- all but the last of `x :: ys`, and the last -/
def initOf : Bytes → List Bytes → List Bytes
  | _, [] => []
  | x, y :: ys => x :: initOf y ys

def lastOf : Bytes → List Bytes → Bytes
  | x, [] => x
  | _, y :: ys => lastOf y ys

theorem initOf_lastOf (x : Bytes) (ys : List Bytes) : initOf x ys ++ [lastOf x ys] = x :: ys := by
  induction ys generalizing x with
  | nil => rfl
  | cons y ys ih => simp [initOf, lastOf, ih]

theorem run_args {tbl : EscTable} (ht : TableOK tbl = true) (argv : List Bytes)
    (hv : ∀ a ∈ argv, validUtf8 a = true ∧ (0 : UInt8) ∉ a) :
    ∀ cur : Bytes,
      run ⟨.normal, cur, .quoted, false, false⟩ ((argv.map fun a => sep ++ quote tbl a).flatten)
        = some ((initOf cur argv).map w, ⟨.normal, lastOf cur argv, .quoted, false, false⟩) := by
  induction argv with
  | nil => intro cur; simp [run_nil, initOf, lastOf]
  | cons a as ih =>
    intro cur
    have ha := hv a (by simp)
    simp only [List.map_cons, List.flatten_cons, List.append_assoc]
    rw [run_emit_append (run_sep cur false), clean,
      run_silent_append (run_quote ht a _ _ _ _ ha.1 ha.2)]
    simp only [List.nil_append]
    rw [ih (fun x hx => hv x (by simp [hx])) a]
    simp [initOf, lastOf, w]

/-- `formatArgs` from a clean state: every word but the last is complete, the
last one is pending (it is completed by whatever ends the word) -/
theorem run_formatArgsOrdered {tbl : EscTable} (ht : TableOK tbl = true)
    (envs : List (Bytes × Bytes)) (cmd : Bytes) (argv : List Bytes)
    (hk : ∀ kv ∈ envs, isName kv.1 = true ∧ validUtf8 kv.2 = true ∧ (0 : UInt8) ∉ kv.2)
    (hc : validUtf8 cmd = true ∧ (0 : UInt8) ∉ cmd)
    (ha : ∀ a ∈ argv, validUtf8 a = true ∧ (0 : UInt8) ∉ a) :
    run clean (formatArgsOrdered tbl envs cmd argv)
      = some (envs.map (fun kv => Tok.word (assignWord kv) true) ++ (initOf cmd argv).map w,
          ⟨.normal, lastOf cmd argv, .quoted, false, false⟩) := by
  unfold formatArgsOrdered
  rw [List.append_assoc, run_emit_append (run_envs ht envs hk), clean,
    run_silent_append (run_quote ht cmd _ _ _ _ hc.1 hc.2)]
  simp only [List.nil_append]
  rw [run_args ht argv ha cmd]
  simp

end Martian.JobTemplate
