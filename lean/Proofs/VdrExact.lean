import Martian.Vdr
import Proofs.VdrPath
import Proofs.VdrInv
import Proofs.VdrNonVol
import Proofs.VdrShrink

/-! Exact accounting for every configuration: the file -> arguments cache is
aligned one-to-one with the entries below the files/ directories, so what a
file-level pass counts is what it removes. -/
namespace Martian.Vdr

/-- symbolic links (the entries with further logical names) are not below
another entry of the files/ directories: the shape the exactness of the
report depends on (see `report_undercounts_nested_link`) -/
def LinksTop (disk : List DiskEnt) : Prop :=
  ∀ d ∈ disk, d.alts ≠ [] → ∀ d' ∈ disk, isTmp d'.kind = false →
    pathIsInside d.path d'.path = true → d' = d

/-- two lists related position by position -/
inductive All2 {α β : Type} (R : α → β → Prop) : List α → List β → Prop
  | nil : All2 R [] []
  | cons {a b l1 l2} : R a b → All2 R l1 l2 → All2 R (a :: l1) (b :: l2)

/-- a cache entry describes a disk entry -/
def Rel (e : Entry) (d : DiskEnt) : Prop :=
  e.path = d.path ∧ e.size = d.size ∧ e.count = 1 ∧ e.names = d.path :: d.alts

/-- the cache has exactly one entry, in order, per entry below a files/ directory -/
def Aligned (es : List Entry) (disk : List DiskEnt) : Prop :=
  All2 Rel es (disk.filter (fun d => !isTmp d.kind))

/-- whoever keeps something alive keeps everything above it alive -/
def Mono (es : List Entry) : Prop :=
  ∀ e ∈ es, ∀ e' ∈ es, pathIsInside e.path e'.path = true → ∀ a ∈ e.args, a ∈ e'.args

/-- temp entries are not below entries of a files/ directory -/
def Sep (disk : List DiskEnt) : Prop :=
  ∀ d ∈ disk, isTmp d.kind = true → ∀ d' ∈ disk, isTmp d'.kind = false → pathIsInside d.path d'.path = false

theorem forall2_filter {α β : Type} {R : α → β → Prop} {p : α → Bool} {q : β → Bool} {l1 : List α} {l2 : List β}
    (h : All2 R l1 l2) (hpq : ∀ a b, a ∈ l1 → b ∈ l2 → R a b → p a = q b) :
    All2 R (l1.filter p) (l2.filter q) := by
  induction h with
  | nil => exact All2.nil
  | @cons a b l1 l2 hab _ ih =>
    have e := hpq a b List.mem_cons_self List.mem_cons_self hab
    have ih' := ih (fun x y hx hy => hpq x y (List.mem_cons_of_mem _ hx) (List.mem_cons_of_mem _ hy))
    cases hq : q b with
    | true => simp only [List.filter, e, hq]; exact All2.cons hab ih'
    | false => simp only [List.filter, e, hq]; exact ih'

theorem forall2_map_self {α β : Type} {R : α → β → Prop} (f : β → α) (h : ∀ b, R (f b) b) (l : List β) :
    All2 R (l.map f) l := by
  induction l with
  | nil => exact All2.nil
  | cons x r ih => exact All2.cons (h x) ih

theorem forall2_map_left {α β : Type} {R : α → β → Prop} (g : α → α) {l1 : List α} {l2 : List β}
    (h : All2 R l1 l2) (hg : ∀ a b, R a b → R (g a) b) : All2 R (l1.map g) l2 := by
  induction h with
  | nil => exact All2.nil
  | cons hab _ ih => exact All2.cons (hg _ _ hab) ih

theorem forall2_mem_left {α β : Type} {R : α → β → Prop} {l1 : List α} {l2 : List β}
    (h : All2 R l1 l2) : ∀ a ∈ l1, ∃ b ∈ l2, R a b := by
  induction h with
  | nil => intro a ha; cases ha
  | cons hab _ ih =>
    intro x hx
    rcases List.mem_cons.mp hx with rfl | hx
    · exact ⟨_, List.mem_cons_self, hab⟩
    · obtain ⟨b, hb, r⟩ := ih x hx
      exact ⟨b, List.mem_cons_of_mem _ hb, r⟩

theorem forall2_mem_right {α β : Type} {R : α → β → Prop} {l1 : List α} {l2 : List β}
    (h : All2 R l1 l2) : ∀ b ∈ l2, ∃ a ∈ l1, R a b := by
  induction h with
  | nil => intro a ha; cases ha
  | cons hab _ ih =>
    intro x hx
    rcases List.mem_cons.mp hx with rfl | hx
    · exact ⟨_, List.mem_cons_self, hab⟩
    · obtain ⟨b, hb, r⟩ := ih x hx
      exact ⟨b, List.mem_cons_of_mem _ hb, r⟩

theorem rel_sums {es : List Entry} {ds : List DiskEnt} (h : All2 Rel es ds) :
    sumECount es = ds.length ∧ sumESize es = sumSize ds := by
  induction h with
  | nil => simp [sumECount, sumESize, sumSize]
  | cons hab _ ih =>
    obtain ⟨_, hs, hc, _⟩ := hab
    obtain ⟨i1, i2⟩ := ih
    simp only [sumECount, sumESize, sumSize, List.map_cons, List.sum_cons, List.length_cons] at *
    omega

theorem filter_of_imp {α : Type} (p q : α → Bool) (l : List α) (h : ∀ x ∈ l, p x = true → q x = true) :
    l.filter p = (l.filter q).filter p := by
  induction l with
  | nil => rfl
  | cons x r ih =>
    have ih' := ih (fun y hy => h y (List.mem_cons_of_mem _ hy))
    cases hp : p x with
    | true =>
      have hq := h x List.mem_cons_self hp
      simp [List.filter, hp, hq, ih']
    | false =>
      cases hq : q x with
      | true => simp [List.filter, hp, hq, ih']
      | false => simp [List.filter, hp, hq, ih']

theorem filter_comm_nonTmp (p : DiskEnt → Bool) (l : List DiskEnt) :
    (l.filter p).filter (fun d => !isTmp d.kind) = (l.filter (fun d => !isTmp d.kind)).filter p := by
  rw [List.filter_filter, List.filter_filter]
  apply List.filter_congr
  intro x _
  exact Bool.and_comm _ _

structure DiskWF (disk : List DiskEnt) : Prop where
  sep : Sep disk
  top : LinksTop disk

/-- the invariant behind `report_exact` -/
structure XInv (s0 s : St) : Prop where
  exact : Exact s
  sub : ∀ d ∈ s.disk, d ∈ s0.disk
  al : s.final = false → ∀ es, s.cache = some es → Aligned es s.disk ∧ Mono es

theorem XInv.frame {s0 s s' : St} (x : XInv s0 s) (f : Frame s s') : XInv s0 s' := by
  refine ⟨x.exact.ofEq f.removed f.report, fun d h => x.sub d (f.disk ▸ h), ?_⟩
  intro hf es he
  rw [f.disk]
  exact x.al (f.final ▸ hf) es (f.cache ▸ he)

theorem XInv.setFinal {s0 s : St} (x : XInv s0 s) : XInv s0 { s with final := true } :=
  ⟨x.exact, x.sub, fun h => by cases h⟩

theorem cacheEntries_aligned (c : Cfg) (s : St) : Aligned (cacheEntries c s) s.disk := by
  unfold Aligned cacheEntries
  exact forall2_map_self _ (fun d => ⟨rfl, rfl, rfl, rfl⟩) _

theorem cacheEntries_mono (c : Cfg) (s0 s : St) (ok : CfgOK c s0) (top : LinksTop s0.disk)
    (sub : ∀ d ∈ s.disk, d ∈ s0.disk) : Mono (cacheEntries c s) := by
  intro e he e' he' hin a ha
  unfold cacheEntries at he he'
  simp only [List.mem_map, List.mem_filter] at he he'
  obtain ⟨d, ⟨hd, _⟩, rfl⟩ := he
  obtain ⟨d', ⟨hd', ht'⟩, rfl⟩ := he'
  simp only [List.mem_filter] at ha ⊢
  refine ⟨ha.1, ?_⟩
  by_cases hal : d.alts = []
  · have h1 : refs c a d.path = true := by
      have := ha.2
      rw [hal] at this
      exact this
    exact anyOverlap_cons_mono _ _ _
      (refs_mono (ok.cleanD d (sub d hd)) (ok.cleanD d' (sub d' hd')) (ok.noDbl d (sub d hd)) (ok.noDbl d' (sub d' hd')) (ok.cleanF a) hin h1)
  · have := top d (sub d hd) hal d' (sub d' hd') (by simpa using ht') hin
    rw [this]
    exact ha.2

theorem cacheMap_final (c : Cfg) (s : St) : (cacheMap c s).final = s.final := by
  unfold cacheMap
  have f1 : Frame s (dropNoFiles c s) := foldRemove_frame (fun a => (c.filesOf a).isEmpty) s.dom s
  have f2 : Frame (dropNoFiles c s) (dropUnused (cacheEntries c s) (dropNoFiles c s)) :=
    foldRemove_frame (fun a => !((cacheEntries c s).any (fun e => e.args.contains a))) _ _
  show (dropUnused (cacheEntries c s) (dropNoFiles c s)).final = s.final
  rw [f2.final, f1.final]

theorem cacheMap_report (c : Cfg) (s : St) : (cacheMap c s).report = s.report := by
  unfold cacheMap
  have f1 : Frame s (dropNoFiles c s) := foldRemove_frame (fun a => (c.filesOf a).isEmpty) s.dom s
  have f2 : Frame (dropNoFiles c s) (dropUnused (cacheEntries c s) (dropNoFiles c s)) :=
    foldRemove_frame (fun a => !((cacheEntries c s).any (fun e => e.args.contains a))) _ _
  show (dropUnused (cacheEntries c s) (dropNoFiles c s)).report = s.report
  rw [f2.report, f1.report]

theorem XInv.cacheMap {c : Cfg} {s0 s : St} (ok : CfgOK c s0) (top : LinksTop s0.disk) (x : XInv s0 s) :
    XInv s0 (cacheMap c s) := by
  refine ⟨x.exact.ofEq (cacheMap_removed c s) (cacheMap_report c s), ?_, ?_⟩
  · intro d h; rw [cacheMap_disk] at h; exact x.sub d h
  · intro _ es he
    have : (Martian.Vdr.cacheMap c s).cache = some (cacheEntries c s) := rfl
    rw [this] at he
    cases he
    rw [cacheMap_disk]
    exact ⟨cacheEntries_aligned c s, cacheEntries_mono c s0 s ok top x.sub⟩

theorem XInv.normCache {c : Cfg} {s0 s : St} (ok : CfgOK c s0) (top : LinksTop s0.disk) (x : XInv s0 s) :
    XInv s0 (normCache c s) := by
  unfold Martian.Vdr.normCache
  split
  · exact x.cacheMap ok top
  · rename_i es he
    refine ⟨x.exact, x.sub, ?_⟩
    intro hf es' he'
    simp only [Option.some.injEq] at he'
    subst he'
    obtain ⟨al, mo⟩ := x.al hf es he
    constructor
    · unfold Aligned updateCache at *
      exact forall2_map_left _ al (fun e d r => r)
    · intro e hm e' hm' hin a ha
      unfold updateCache at hm hm'
      simp only [List.mem_map] at hm hm'
      obtain ⟨e0, h0, rfl⟩ := hm
      obtain ⟨e0', h0', rfl⟩ := hm'
      simp only [List.mem_filter] at ha ⊢
      exact ⟨mo e0 h0 e0' h0' hin a ha.1, ha.2⟩

theorem XInv.cleanPhase {c : Cfg} {s0 s : St} (x : XInv s0 s) (ph : Nat) : XInv s0 (cleanPhase c s ph) := by
  refine ⟨exact_cleanPhase c s ph x.exact, fun d h => x.sub d ((shr_cleanPhase c s ph).disk d h), ?_⟩
  unfold Martian.Vdr.cleanPhase
  split
  · exact x.al
  · intro hf es he
    obtain ⟨al, mo⟩ := x.al hf es he
    refine ⟨?_, mo⟩
    unfold Aligned at *
    show All2 Rel es ((s.disk.filter (fun d => !(d.kind == Kind.tmp ph))).filter (fun d => !isTmp d.kind))
    rw [filter_comm_nonTmp]
    have : (s.disk.filter (fun d => !isTmp d.kind)).filter (fun d => !(d.kind == Kind.tmp ph))
        = s.disk.filter (fun d => !isTmp d.kind) := by
      apply List.filter_eq_self.mpr
      intro d hd
      have hk := (List.mem_filter.mp hd).2
      cases hkd : d.kind with
      | tmp n => rw [hkd] at hk; simp [isTmp] at hk
      | out => simp
      | chunk => simp
    rw [this]
    exact al

theorem XInv.cleanTmp {c : Cfg} {s0 s : St} (x : XInv s0 s) (upto : Nat) : XInv s0 (cleanTmp c s upto) := by
  rw [cleanTmp_eq]
  generalize List.range upto = l
  induction l generalizing s with
  | nil => exact x
  | cons y r ih => exact ih (x.cleanPhase y)


theorem XInv.killCore {s0 s : St} (wf : DiskWF s0.disk) (x : XInv s0 s) (es : List Entry)
    (hf : s.final = false) (he : s.cache = some es) : XInv s0 (killCore s es) := by
  obtain ⟨al, mo⟩ := x.al hf es he
  -- the two predicates agree on related pairs
  have hpq : ∀ e d, e ∈ es → d ∈ s.disk.filter (fun d => !isTmp d.kind) → Rel e d →
      e.args.isEmpty = ((es.filter (fun e => e.args.isEmpty)).map (·.path)).any (fun k => pathIsInside d.path k) := by
    intro e d hes _ r
    cases hemp : e.args.isEmpty with
    | true =>
      symm
      simp only [List.any_eq_true, List.mem_map, List.mem_filter]
      refine ⟨e.path, ⟨e, ⟨hes, hemp⟩, rfl⟩, ?_⟩
      rw [r.1]; simp [pathIsInside]
    | false =>
      symm
      cases hany : ((es.filter (fun e => e.args.isEmpty)).map (·.path)).any (fun k => pathIsInside d.path k) with
      | false => rfl
      | true =>
        exfalso
        simp only [List.any_eq_true, List.mem_map, List.mem_filter] at hany
        obtain ⟨k, ⟨e', ⟨hes', hemp'⟩, rfl⟩, hin⟩ := hany
        rw [← r.1] at hin
        have hsub := mo e hes e' hes' hin
        have hnil : e'.args = [] := by simpa using hemp'
        rw [List.isEmpty_eq_false_iff_exists_mem] at hemp
        obtain ⟨a, ha⟩ := hemp
        have := hsub a ha
        rw [hnil] at this
        cases this
  -- temp entries are not inside kill paths
  have htmp : ∀ d ∈ s.disk,
      ((es.filter (fun e => e.args.isEmpty)).map (·.path)).any (fun k => pathIsInside d.path k) = true →
      (!isTmp d.kind) = true := by
    intro d hd hany
    cases ht : isTmp d.kind with
    | false => rfl
    | true =>
      exfalso
      simp only [List.any_eq_true, List.mem_map, List.mem_filter] at hany
      obtain ⟨k, ⟨e', ⟨hes', _⟩, rfl⟩, hin⟩ := hany
      obtain ⟨d', hd', r⟩ := forall2_mem_left al e' hes'
      have hd'' := List.mem_filter.mp hd'
      have := wf.sep d (x.sub d hd) ht d' (x.sub d' hd''.1) (by simpa using hd''.2)
      rw [← r.1, hin] at this
      cases this
  have hgone : s.disk.filter (fun d => ((es.filter (fun e => e.args.isEmpty)).map (·.path)).any (fun k => pathIsInside d.path k))
      = (s.disk.filter (fun d => !isTmp d.kind)).filter
          (fun d => ((es.filter (fun e => e.args.isEmpty)).map (·.path)).any (fun k => pathIsInside d.path k)) :=
    filter_of_imp _ _ _ htmp
  have hkill : All2 Rel (es.filter (fun e => e.args.isEmpty))
      ((s.disk.filter (fun d => !isTmp d.kind)).filter
          (fun d => ((es.filter (fun e => e.args.isEmpty)).map (·.path)).any (fun k => pathIsInside d.path k))) :=
    forall2_filter al hpq
  obtain ⟨hc, hs⟩ := rel_sums hkill
  unfold Martian.Vdr.killCore
  refine ⟨?_, fun d h => x.sub d (List.mem_filter.mp h).1, ?_⟩
  · unfold Exact
    simp only [List.length_append, sumSize_append]
    rw [hgone, hc, hs]
    obtain ⟨e1, e2⟩ := x.exact
    omega
  · intro _ es' he'
    simp only [Option.some.injEq] at he'
    subst he'
    constructor
    · unfold Aligned
      rw [filter_comm_nonTmp]
      apply forall2_filter al
      intro e d hes hd r
      rw [hpq e d hes hd r]
    · intro e hm e' hm' hin a ha
      exact mo e (List.mem_filter.mp hm).1 e' (List.mem_filter.mp hm').1 hin a ha

theorem normCache_final (c : Cfg) (s : St) : (normCache c s).final = s.final := by
  unfold normCache
  split
  · exact cacheMap_final c s
  · rfl

theorem XInv.vdrKillSome {c : Cfg} {s0 s : St} (ok : CfgOK c s0) (wf : DiskWF s0.disk) (x : XInv s0 s)
    (hf : s.final = false) (done : Bool) : XInv s0 (vdrKillSome c s done) := by
  unfold Martian.Vdr.vdrKillSome
  dsimp only
  have x1 := x.normCache ok wf.top
  have hf1 : (Martian.Vdr.normCache c s).final = false := by rw [normCache_final]; exact hf
  obtain ⟨es, hes⟩ := normCache_cache c s
  generalize Martian.Vdr.normCache c s = s1 at *
  have hget : s1.cache.getD [] = es := by rw [hes]; rfl
  rw [hget]
  split
  · split
    · exact x1.setFinal
    · exact x1
  · have x2 := x1.killCore wf es hf1 hes
    split
    · exact x2.setFinal
    · exact x2

theorem XInv.vdrKill {c : Cfg} {s0 s : St} (ok : CfgOK c s0) (wf : DiskWF s0.disk) (x : XInv s0 s) :
    XInv s0 (vdrKill c s) := by
  unfold Martian.Vdr.vdrKill
  split
  · exact x
  · rename_i hf
    split
    · exact x.vdrKillSome ok wf (by simpa using hf) true
    · refine ⟨?_, fun d h => x.sub d (List.mem_filter.mp h).1, fun h => by cases h⟩
      obtain ⟨e1, e2⟩ := x.exact
      unfold Exact
      simp only [List.length_append, sumSize_append]
      omega

theorem XInv.kill {c : Cfg} {s0 s : St} (ok : CfgOK c s0) (wf : DiskWF s0.disk) (x : XInv s0 s) :
    XInv s0 (kill c s) := by
  unfold Martian.Vdr.kill
  split
  · exact x
  · rename_i hf
    dsimp only
    have x1 := x.cleanTmp (c := c) 3
    have hf1 : (Martian.Vdr.cleanTmp c s 3).final = false := by
      have : ∀ (l : List Nat) (s : St), (l.foldl (Martian.Vdr.cleanPhase c) s).final = s.final := by
        intro l
        induction l with
        | nil => intro s; rfl
        | cons y r ih =>
          intro s
          simp only [List.foldl_cons]
          rw [ih]
          unfold Martian.Vdr.cleanPhase
          split <;> rfl
      rw [cleanTmp_eq, this]; simpa using hf
    generalize Martian.Vdr.cleanTmp c s 3 = s1 at *
    have f2 := removePostNodes_frame ((s1.postNodes.map (·.1)).filter (fun n => s1.doneNodes.contains n)) s1
    have x2 := x1.frame f2
    have hf2 := f2.final.trans hf1
    generalize removePostNodes s1 _ = s2 at *
    split
    · split
      · exact x2.vdrKillSome ok wf hf2 true
      · exact x2.vdrKill ok wf
    · split
      · exact x2.vdrKillSome ok wf hf2 false
      · exact x2

theorem XInv.step {c : Cfg} {s0 s : St} (ok : CfgOK c s0) (wf : DiskWF s0.disk) (x : XInv s0 s) (e : Ev) :
    XInv s0 (step c s e) := by
  cases e with
  | nodeDone n => exact ⟨x.exact, x.sub, x.al⟩
  | nodeFailed n => exact x
  | nodeReset n => exact x
  | restart => exact ⟨x.exact, x.sub, fun _ es he => by cases he⟩
  | removeEmpty => exact x.frame (foldRemove_frame (fun a => (c.namesOf a).isEmpty) s.dom s)
  | cacheMap => exact x.cacheMap ok wf.top
  | early upto =>
    show XInv s0 (if s.final then s else Martian.Vdr.cleanTmp c s (min upto 3))
    split
    · exact x
    · exact x.cleanTmp _
  | kill => exact x.kill ok wf

theorem XInv.run {c : Cfg} {s0 s : St} (ok : CfgOK c s0) (wf : DiskWF s0.disk) (x : XInv s0 s) (evs : List Ev) :
    XInv s0 (run c s evs) := by
  unfold Martian.Vdr.run
  induction evs generalizing s with
  | nil => exact x
  | cons e r ih => exact ih (x.step ok wf e)

theorem XInv.init (s0 : St) (fr : Fresh s0) (h0 : s0.report.count = 0 ∧ s0.report.size = 0) : XInv s0 s0 := by
  refine ⟨?_, fun d h => h, ?_⟩
  · unfold Exact
    rw [fr.removed, h0.1, h0.2]; simp [sumSize]
  · intro _ es he
    rw [fr.cache] at he
    cases he

end Martian.Vdr
