/-
Helper lemmas for C13: the abstract file system, the leaf operation
`moveOutFile`, and the per-level combinators of the recursion.
-/
import Martian.PostProcess
import Martian.PostProcessDefs

namespace Martian.PostProcess

/-! ## prefixes -/

theorem stripPrefix_append (p s : Path) : stripPrefix p (p ++ s) = some s := by
  induction p with
  | nil => rfl
  | cons a p ih => simp [stripPrefix, ih]

theorem stripPrefix_some {p q s : Path} (h : stripPrefix p q = some s) : q = p ++ s := by
  induction p generalizing q with
  | nil => simp [stripPrefix] at h; simp [h]
  | cons a p ih =>
    cases q with
    | nil => simp [stripPrefix] at h
    | cons b q =>
      simp only [stripPrefix] at h
      split at h
      · next hab => rw [hab, ih h]; rfl
      · cases h

theorem isPrefix_append (p s : Path) : isPrefix p (p ++ s) = true := by
  simp [isPrefix, stripPrefix_append]

theorem isPrefix_self (p : Path) : isPrefix p p = true := by
  have := isPrefix_append p []
  simpa using this

theorem not_isPrefix_append {p q : Path} (h : isPrefix p q = false) (s : Path) :
    isPrefix (p ++ s) q = false := by
  cases hq : stripPrefix (p ++ s) q with
  | none => simp [isPrefix, hq]
  | some r =>
    have := stripPrefix_some hq
    rw [List.append_assoc] at this
    rw [this, isPrefix_append] at h
    cases h

theorem stripPrefix_none_of_not_isPrefix {p q : Path} (h : isPrefix p q = false) :
    stripPrefix p q = none := by
  cases hq : stripPrefix p q with
  | none => rfl
  | some r => simp [isPrefix, hq] at h

/-! ## the leaf operation -/

theorem recoverMoved_free (ps dest p : Path) (fs : FS) (h : fs.get dest = none) :
    recoverMoved ps dest p fs = (.null, fs) := by
  unfold recoverMoved
  split
  · rfl
  · rw [h]

/-- a file that does not exist, and whose destination holds nothing, is
reported as null and nothing changes -/
theorem moveOutFile_missing (ps outs : Path) (name s : String) (p : Path) (fs : FS)
    (hs : s ≠ "") (hp : parsePath s = some p) (hnone : fs.get p = none)
    (hfree : fs.get (outs ++ [name]) = none) :
    moveOutFile ps outs name (.str s) fs = (.null, fs) := by
  simp [moveOutFile, hs, hp, hnone, recoverMoved_free _ _ _ _ hfree]

/-- interrupted earlier (file already under outs/, link not yet left behind):
the destination is reported, the link is put in place, the destination is untouched -/
theorem moveOutFile_recovered (ps outs : Path) (name s : String) (p : Path) (e : Entry) (fs : FS)
    (hs : s ≠ "") (hp : parsePath s = some p) (hnone : fs.get p = none) (hin : inside ps p = true)
    (hd : fs.get (outs ++ [name]) = some e) (hl : e.isLink = false) :
    moveOutFile ps outs name (.str s) fs =
      (.str (renderPath (outs ++ [name])),
        symlinkAt fs p (.rel (relPath p.dropLast (outs ++ [name])))) := by
  cases e with
  | link t => simp [Entry.isLink] at hl
  | file c => simp [moveOutFile, hs, hp, hnone, recoverMoved, hin, hd]
  | dir => simp [moveOutFile, hs, hp, hnone, recoverMoved, hin, hd]

/-- the empty string is reported as null -/
theorem moveOutFile_empty (ps outs : Path) (name : String) (fs : FS) :
    moveOutFile ps outs name (.str "") fs = (.null, fs) := by
  simp [moveOutFile]

theorem symlinkAt_get_ne (fs : FS) (a : Path) (t : LinkT) (q : Path) (h : q ≠ a) :
    (symlinkAt fs a t).get q = fs.get q := by
  unfold symlinkAt
  split <;> simp [FS.set, h]

theorem symlinkAt_get_free (fs : FS) (a : Path) (t : LinkT) (h : fs.get a = none) :
    (symlinkAt fs a t).get a = some (.link t) := by
  unfold symlinkAt
  rw [h]; simp [FS.set]

theorem symlinkAt_get_occupied (fs : FS) (a : Path) (t : LinkT) (q : Path) (e : Entry)
    (h : fs.get a = some e) : (symlinkAt fs a t).get q = fs.get q := by
  unfold symlinkAt
  rw [h]

theorem rename_get_dst (fs : FS) (src dst suf : Path) :
    (rename fs src dst).get (dst ++ suf) = fs.get (src ++ suf) := by
  simp [rename, stripPrefix_append]

theorem rename_get_src (fs : FS) (src dst : Path) (h : isPrefix dst src = false) :
    (rename fs src dst).get src = none := by
  simp [rename, stripPrefix_none_of_not_isPrefix h, isPrefix_self]

theorem rename_get_other (fs : FS) (src dst q : Path) (h1 : isPrefix dst q = false)
    (h2 : isPrefix src q = false) : (rename fs src dst).get q = fs.get q := by
  simp [rename, stripPrefix_none_of_not_isPrefix h1, h2]

theorem mkdirAll_get_some (fs : FS) (o q : Path) (e : Entry) (h : fs.get q = some e) :
    (mkdirAll fs o).get q = some e := by
  simp [mkdirAll, h]

theorem mkdirAll_get_other (fs : FS) (o q : Path) (h : isPrefix q o = false) :
    (mkdirAll fs o).get q = fs.get q := by
  simp only [mkdirAll]
  cases fs.get q with
  | some x => rfl
  | none => simp [h]

/-- the moved case of `moveOutFile`, as an equation -/
theorem moveOutFile_moved_eq (ps outs : Path) (name s : String) (p : Path) (e : Entry) (fs : FS)
    (hs : s ≠ "") (hp : parsePath s = some p) (he : fs.get p = some e) (hl : e.isLink = false)
    (hin : inside ps p = true) (hfree : statExists fs statFuel (outs ++ [name]) = false) :
    moveOutFile ps outs name (.str s) fs =
      (.str (renderPath (outs ++ [name])),
        symlinkAt (rename (mkdirAll fs outs) p (outs ++ [name])) p
          (.rel (relPath p.dropLast (outs ++ [name])))) := by
  cases e with
  | link t => simp [Entry.isLink] at hl
  | file c => simp [moveOutFile, hs, hp, he, hin, hfree]
  | dir => simp [moveOutFile, hs, hp, he, hin, hfree]

/-- a regular file or directory inside the pipestance whose destination is
free: the recorded value becomes the destination; the whole tree at the
source is found at the destination; the source becomes a symlink to it. -/
theorem moveOutFile_moved (ps outs : Path) (name s : String) (p : Path) (e : Entry) (fs : FS)
    (hs : s ≠ "") (hp : parsePath s = some p) (he : fs.get p = some e) (hl : e.isLink = false)
    (hin : inside ps p = true) (hfree : statExists fs statFuel (outs ++ [name]) = false)
    (hsrc : isPrefix p outs = false) (hdst : isPrefix (outs ++ [name]) p = false) :
    (moveOutFile ps outs name (.str s) fs).1 = .str (renderPath (outs ++ [name])) ∧
    (∀ suf, (moveOutFile ps outs name (.str s) fs).2.get ((outs ++ [name]) ++ suf) = fs.get (p ++ suf)) ∧
    (moveOutFile ps outs name (.str s) fs).2.get p =
      some (.link (.rel (relPath p.dropLast (outs ++ [name])))) := by
  rw [moveOutFile_moved_eq ps outs name s p e fs hs hp he hl hin hfree]
  refine ⟨rfl, ?_, ?_⟩
  · intro suf
    have hne : (outs ++ [name]) ++ suf ≠ p := by
      intro h; rw [← h, isPrefix_append] at hdst; cases hdst
    show (symlinkAt _ p _).get _ = _
    rw [symlinkAt_get_ne _ _ _ _ hne, rename_get_dst,
      mkdirAll_get_other _ _ _ (not_isPrefix_append hsrc suf)]
  · show (symlinkAt _ p _).get p = _
    exact symlinkAt_get_free _ _ _ (rename_get_src _ _ _ hdst)

/-- … and nothing else changes: paths that are neither under the source, nor
under the destination, nor (missing) ancestors of the outs directory. -/
theorem moveOutFile_moved_frame (ps outs : Path) (name s : String) (p : Path) (e : Entry) (fs : FS)
    (hs : s ≠ "") (hp : parsePath s = some p) (he : fs.get p = some e) (hl : e.isLink = false)
    (hin : inside ps p = true) (hfree : statExists fs statFuel (outs ++ [name]) = false)
    (q : Path) (hq1 : isPrefix p q = false) (hq2 : isPrefix (outs ++ [name]) q = false)
    (hq3 : isPrefix q outs = false) :
    (moveOutFile ps outs name (.str s) fs).2.get q = fs.get q := by
  rw [moveOutFile_moved_eq ps outs name s p e fs hs hp he hl hin hfree]
  have hqp : q ≠ p := by
    intro h; rw [h, isPrefix_self] at hq1; cases hq1
  show (symlinkAt _ p _).get q = _
  rw [symlinkAt_get_ne _ _ _ _ hqp, rename_get_other _ _ _ _ hq2 hq1, mkdirAll_get_other _ _ _ hq3]

/-- a regular file or directory outside the pipestance: the recorded value is
unchanged, the file stays where it is, a symlink to it is placed at the
destination (when the destination is free). -/
theorem moveOutFile_outside (ps outs : Path) (name s : String) (p : Path) (e : Entry) (fs : FS)
    (hs : s ≠ "") (hp : parsePath s = some p) (he : fs.get p = some e) (hl : e.isLink = false)
    (hout : inside ps p = false) :
    (moveOutFile ps outs name (.str s) fs).1 = .str s ∧
    (moveOutFile ps outs name (.str s) fs).2.get p = some e ∧
    ((mkdirAll fs outs).get (outs ++ [name]) = none →
      (moveOutFile ps outs name (.str s) fs).2.get (outs ++ [name]) = some (.link (.abs p))) := by
  have heq : moveOutFile ps outs name (.str s) fs =
      (.str s, symlinkAt (mkdirAll fs outs) (outs ++ [name]) (.abs p)) := by
    cases e with
    | link t => simp [Entry.isLink] at hl
    | file c => simp [moveOutFile, hs, hp, he, hout]
    | dir => simp [moveOutFile, hs, hp, he, hout]
  rw [heq]
  have hmk : (mkdirAll fs outs).get p = some e := mkdirAll_get_some _ _ _ _ he
  refine ⟨rfl, ?_, ?_⟩
  · show (symlinkAt _ _ _).get p = _
    cases hd : (mkdirAll fs outs).get (outs ++ [name]) with
    | none =>
      have : p ≠ outs ++ [name] := by intro hh; rw [hh, hd] at hmk; cases hmk
      rw [symlinkAt_get_ne _ _ _ _ this, hmk]
    | some x => rw [symlinkAt_get_occupied _ _ _ _ x hd, hmk]
  · intro h
    exact symlinkAt_get_free _ _ _ h

/-- shape of a leaf result: null, the value itself, or some path string -/
theorem copyOutSymlink_shape (ps dest : Path) (v : J) (p : Path) (t : LinkT) (fs : FS) :
    (copyOutSymlink ps dest v p t fs).1 = v ∨ ∃ s, (copyOutSymlink ps dest v p t fs).1 = .str s := by
  unfold copyOutSymlink
  split
  · exact Or.inl rfl
  · split
    · exact Or.inr ⟨_, rfl⟩
    · split
      · exact Or.inr ⟨_, rfl⟩
      · dsimp only
        split <;> exact Or.inr ⟨_, rfl⟩

theorem moveOutFile_shape (ps outs : Path) (name : String) (v : J) (fs : FS) :
    (moveOutFile ps outs name v fs).1 = .null ∨ (moveOutFile ps outs name v fs).1 = v ∨
      ∃ s, (moveOutFile ps outs name v fs).1 = .str s := by
  unfold moveOutFile
  split
  · next s =>
    split
    · exact Or.inl rfl
    · split
      · exact Or.inl rfl
      · split
        · unfold recoverMoved
          split
          · exact Or.inl rfl
          · split
            · exact Or.inr (Or.inr ⟨_, rfl⟩)
            · exact Or.inr (Or.inr ⟨_, rfl⟩)
            · exact Or.inl rfl
        · next t _ =>
          rcases copyOutSymlink_shape ps (outs ++ [name]) (.str s) _ t (mkdirAll fs outs) with h | h
          · exact Or.inr (Or.inl h)
          · exact Or.inr (Or.inr h)
        · dsimp only
          split
          · exact Or.inr (Or.inl rfl)
          · split
            · exact Or.inr (Or.inl rfl)
            · exact Or.inr (Or.inr ⟨_, rfl⟩)
  · exact Or.inr (Or.inl rfl)

/-! ## one level of the recursion -/

theorem mapIdx_length (f : Nat → J → FS → J × FS) (i : Nat) (xs : List J) (fs : FS) :
    (mapIdx f i xs fs).1.length = xs.length := by
  induction xs generalizing i fs with
  | nil => rfl
  | cons x xs ih => simp [mapIdx, ih]

/-- every element of the result is the element function applied to the
corresponding input element (at its index, in some file-system state) -/
theorem mapIdx_get (f : Nat → J → FS → J × FS) (i : Nat) (xs : List J) (fs : FS) (n : Nat)
    (hn : n < xs.length) :
    ∃ fs', (mapIdx f i xs fs).1[n]'(by rw [mapIdx_length]; exact hn) = (f (i + n) xs[n] fs').1 := by
  induction xs generalizing i fs n with
  | nil => cases hn
  | cons x xs ih =>
    cases n with
    | zero => exact ⟨fs, by simp [mapIdx]⟩
    | succ n =>
      have hn' : n < xs.length := by simpa using hn
      obtain ⟨fs', h⟩ := ih (i + 1) (f i x fs).2 n hn'
      refine ⟨fs', ?_⟩
      simp only [mapIdx, List.getElem_cons_succ]
      rw [h]
      congr 2
      omega

theorem arrLevel_shape (da : Bool) (h : Handler) (k : Nat) (xs : List J) (o : Path) (fs : FS) :
    ∃ ys, (arrLevel da h k (.arr xs) o fs).1 = .arr ys ∧ ys.length = xs.length := by
  cases k with
  | zero => exact ⟨_, rfl, mapIdx_length _ _ _ _⟩
  | succ k => exact ⟨_, rfl, mapIdx_length _ _ _ _⟩

theorem mapKeys_keys (f : String → FS → J × FS) (ks : List String) (fs : FS) :
    (mapKeys f ks fs).1.map Prod.fst = ks := by
  induction ks generalizing fs with
  | nil => rfl
  | cons k ks ih => simp [mapKeys, ih]

/-- every value of the result is the key function applied to its key -/
theorem mapKeys_vals (f : String → FS → J × FS) (ks : List String) (fs : FS) :
    ∀ kv ∈ (mapKeys f ks fs).1, ∃ fs', kv.2 = (f kv.1 fs').1 := by
  induction ks generalizing fs with
  | nil => intro kv h; simp [mapKeys] at h
  | cons k ks ih =>
    intro kv h
    simp only [mapKeys, List.mem_cons] at h
    rcases h with h | h
    · exact ⟨fs, by rw [h]⟩
    · exact ih _ kv h

theorem mapLevel_keys (h : Handler) (kvs : List (String × J)) (o : Path) (fs : FS) :
    ∃ kvs', (mapLevel h (.obj kvs) o fs).1 = .obj kvs' ∧
      kvs'.map Prod.fst = sortStrings (dedup ((kvs.map Prod.fst).filter legalName)) :=
  ⟨_, rfl, mapKeys_keys _ _ _⟩

theorem structLevel_keys (hs : MemberHandlers) (kv : String × J) (kvs : List (String × J)) (o : Path)
    (fs : FS) :
    ∃ kvs', (structLevel hs (.obj (kv :: kvs)) o fs).1 = .obj kvs' ∧
      kvs'.map Prod.fst = sortStrings (hs.map Prod.fst) :=
  ⟨_, rfl, mapKeys_keys _ _ _⟩

theorem handlersMs_keys (da : Bool) (ps : Path) (ms : List (String × String × Ty)) :
    (handlersMs da ps ms).map Prod.fst = ms.map (·.1) := by
  induction ms with
  | nil => simp [handlersMs]
  | cons m ms ih =>
    obtain ⟨id, on, t⟩ := m
    simp [handlersMs, ih]

/-- null stays null and nothing is touched, at every type -/
theorem handler_null (da : Bool) (ps : Path) (ty : Ty) (id on : String) (outs : Path) (fs : FS) :
    handler da ps ty id on .null outs fs = (.null, fs) := by
  cases ty <;> simp [handler] <;> split <;> rfl

/-- a value whose type has no file in it is copied verbatim and nothing is touched -/
theorem handler_nofile (da : Bool) (ps : Path) (ty : Ty) (id on : String) (v : J) (outs : Path) (fs : FS)
    (h : hasFile ty = false) :
    handler da ps ty id on v outs fs = (v, fs) := by
  cases ty with
  | scalar => simp [handler]
  | file ext => simp [hasFile] at h
  | arr e k => simp [hasFile] at h; simp [handler, h]
  | tmap e => simp [hasFile] at h; simp [handler, h]
  | struct ms => simp [hasFile] at h; simp [handler, h]

end Martian.PostProcess
