import Proofs.FormatStageRangeGB32S0
import Proofs.FormatStageRangeGB32S1
import Proofs.FormatStageRangeGB32S2
import Proofs.FormatStageRangeGB32S3

/-!
C09: the REAL parser's reading of `mem_gb` / `vmem_gb` (`readGB32`: float32 rounding of the
literal, then `roundUpTo(·, 1024)`) inverts `formatGB` below 256 GB:

    |mb| < 262144  →  readGB32 (fmtGB mb) = some mb   (= readGB (fmtGB mb)).

From 256 GB + 44 MB on it does not (finding F29, `Props.C09.formatGB_float32_witness`).  The proof
reduces the text `±I.DDDD` to the arithmetic `f32MB (f32Round (I·10^k + D) (10^k))` (as
`readGBFloat_dec` does for the exact reader) and then uses the finite obligation `gb32OK`
(262 144 values, kernel evaluation in 64 slices).

Core Lean only.
-/

namespace Martian.FormatRes
open Martian.Lexer (Bytes decValFrom parseFloat parseInt numTok isDigit)
open Martian.FormatExp

theorem gb32Slice_all : ∀ j, j < 64 → gb32Slice j = true
  | 0, _ => gb32Slice_0
  | 1, _ => gb32Slice_1
  | 2, _ => gb32Slice_2
  | 3, _ => gb32Slice_3
  | 4, _ => gb32Slice_4
  | 5, _ => gb32Slice_5
  | 6, _ => gb32Slice_6
  | 7, _ => gb32Slice_7
  | 8, _ => gb32Slice_8
  | 9, _ => gb32Slice_9
  | 10, _ => gb32Slice_10
  | 11, _ => gb32Slice_11
  | 12, _ => gb32Slice_12
  | 13, _ => gb32Slice_13
  | 14, _ => gb32Slice_14
  | 15, _ => gb32Slice_15
  | 16, _ => gb32Slice_16
  | 17, _ => gb32Slice_17
  | 18, _ => gb32Slice_18
  | 19, _ => gb32Slice_19
  | 20, _ => gb32Slice_20
  | 21, _ => gb32Slice_21
  | 22, _ => gb32Slice_22
  | 23, _ => gb32Slice_23
  | 24, _ => gb32Slice_24
  | 25, _ => gb32Slice_25
  | 26, _ => gb32Slice_26
  | 27, _ => gb32Slice_27
  | 28, _ => gb32Slice_28
  | 29, _ => gb32Slice_29
  | 30, _ => gb32Slice_30
  | 31, _ => gb32Slice_31
  | 32, _ => gb32Slice_32
  | 33, _ => gb32Slice_33
  | 34, _ => gb32Slice_34
  | 35, _ => gb32Slice_35
  | 36, _ => gb32Slice_36
  | 37, _ => gb32Slice_37
  | 38, _ => gb32Slice_38
  | 39, _ => gb32Slice_39
  | 40, _ => gb32Slice_40
  | 41, _ => gb32Slice_41
  | 42, _ => gb32Slice_42
  | 43, _ => gb32Slice_43
  | 44, _ => gb32Slice_44
  | 45, _ => gb32Slice_45
  | 46, _ => gb32Slice_46
  | 47, _ => gb32Slice_47
  | 48, _ => gb32Slice_48
  | 49, _ => gb32Slice_49
  | 50, _ => gb32Slice_50
  | 51, _ => gb32Slice_51
  | 52, _ => gb32Slice_52
  | 53, _ => gb32Slice_53
  | 54, _ => gb32Slice_54
  | 55, _ => gb32Slice_55
  | 56, _ => gb32Slice_56
  | 57, _ => gb32Slice_57
  | 58, _ => gb32Slice_58
  | 59, _ => gb32Slice_59
  | 60, _ => gb32Slice_60
  | 61, _ => gb32Slice_61
  | 62, _ => gb32Slice_62
  | 63, _ => gb32Slice_63
  | n + 64, h => absurd h (by omega)

theorem gb32OK_all (m : Nat) (h : m < 1024) : gb32OK m = true := by
  have hs := gb32Slice_all (m / 16) (by omega)
  unfold gb32Slice at hs
  exact List.all_eq_true.mp hs m (List.mem_range'_1.mpr ⟨by omega, by omega⟩)

theorem gb32_val {m I : Nat} (hm0 : m ≠ 0) (hm : m < 1024) (hI : I < 256) :
    f32MB (f32Round (I * 10 ^ (fracDigits m).length + decValFrom 0 (fracDigits m))
      (10 ^ (fracDigits m).length)) = I * 1024 + m := by
  have h := gb32OK_all m hm
  simp only [gb32OK, Bool.or_eq_true, beq_iff_eq, hm0, false_or, List.all_eq_true, List.mem_range] at h
  exact h I hI

theorem gb32_whole_all : (List.range 256).all (fun I => f32MB (f32Round I 1) == I * 1024) = true := by
  decide +kernel

theorem gb32_whole {I : Nat} (hI : I < 256) : f32MB (f32Round I 1) = I * 1024 := by
  have h := List.all_eq_true.mp gb32_whole_all I (List.mem_range.mpr hI)
  simpa using h

/-- the real reader on the text `sg d1 . ds` (a fraction `formatGB` prints, whole part below 256) -/
theorem readGB32Tok_dec (sg d1 : Bytes) (I m : Nat) (hsg : sg = [] ∨ sg = [0x2D])
    (hne1 : d1 ≠ []) (hd1 : ∀ c ∈ d1, isDigit c = true) (hv1 : decValFrom 0 d1 = I)
    (hI : I < 256) (hm0 : m ≠ 0) (hm : m < 1024) :
    readGB32Tok (.float (sg ++ d1 ++ 0x2E :: fracDigits m)) =
      some (if (sg == [0x2D]) = true then -((I * 1024 + m : Nat) : Int) else ((I * 1024 + m : Nat) : Int)) := by
  have S := fracSpec hm0 hm
  have hmant : decValFrom 0 (d1 ++ fracDigits m) = I * 10 ^ (fracDigits m).length + decValFrom 0 (fracDigits m) := by
    rw [decValFrom_append, hv1, decValFrom_shift]
  have h53 : I < 2 ^ 53 := Nat.lt_of_lt_of_le hI (by decide)
  have hb := mant_bound h53 S.len S.lt
  have hp := parseFloat_dec true sg d1 (fracDigits m) hsg hne1 hd1 S.dig (by rw [hmant]; exact hb)
  have hk1 : 1 ≤ (fracDigits m).length := by
    cases hds : fracDigits m with
    | nil => exact absurd hds S.ne
    | cons c r => simp
  have hlt0 : (-((fracDigits m).length : Int) < 0) = True := by
    simp only [eq_iff_iff, iff_true]; omega
  have hlen : ¬ ((fracDigits m).length > (sg ++ d1 ++ 0x2E :: fracDigits m).length + 50) := by
    simp only [List.length_append, List.length_cons]; omega
  have hge : ¬ (-((fracDigits m).length : Int) ≥ 0) := by omega
  simp only [readGB32Tok, hp, hmant, Int.neg_neg, Int.toNat_natCast, hlt0, decide_true, Bool.true_and, hlen,
    decide_false, Bool.false_eq_true, ↓reduceIte, hge, gb32_val hm0 hm hI]

/-- **The real reader inverts `formatGB` below 256 GB** (token form) -/
theorem readGB32Tok_fmtGB (mb : Int) (hb : mb.natAbs < 262144) : readGB32Tok (tokGB mb) = some mb := by
  have hb63 : mb.natAbs < 2 ^ 63 := Nat.lt_of_lt_of_le hb (by decide)
  by_cases hm : mb.natAbs % 1024 = 0
  · simp only [tokGB, hm, ↓reduceIte, readGB32Tok]
    rw [fmtGB_whole mb hm, (fmtInt_lex _ (inInt64_whole mb hb63)).2]
    have hI : (mb / 1024).natAbs < 256 := by omega
    simp only [Option.map_some, Option.some.injEq, gb32_whole hI]
    split <;> omega
  · simp only [tokGB, hm, ↓reduceIte]
    have ⟨f1, f2, f3⟩ := fmtNat_spec (mb.natAbs / 1024)
    rw [fmtGB_frac mb hm,
      readGB32Tok_dec _ _ (mb.natAbs / 1024) (mb.natAbs % 1024) (gbSign_cases mb) f2 f1 f3
        (by omega) hm (Nat.mod_lt _ (by decide))]
    simp only [Option.some.injEq, gbSign]
    by_cases hneg : mb < 0
    · simp only [hneg, ↓reduceIte, beq_self_eq_true]; omega
    · have : (([] : Bytes) == [0x2D]) = false := by decide
      simp only [hneg, ↓reduceIte, this, Bool.false_eq_true]; omega

/-- **The real reader inverts `formatGB` below 256 GB**, and agrees there with the exact reader -/
theorem readGB32_fmtGB (mb : Int) (hb : mb.natAbs < 262144) :
    readGB32 (fmtGB mb) = some mb ∧ readGB32 (fmtGB mb) = readGB (fmtGB mb) := by
  have hb63 : mb.natAbs < 2 ^ 63 := Nat.lt_of_lt_of_le hb (by decide)
  have h := readGB32Tok_fmtGB mb hb
  have h1 : readGB32 (fmtGB mb) = some mb := by
    unfold readGB32
    rw [numTok_fmtGB mb hb63]
    unfold tokGB at h
    by_cases hm : mb.natAbs % 1024 = 0
    · simp only [hm, ↓reduceIte] at h ⊢; exact h
    · simp only [hm, ↓reduceIte] at h ⊢; exact h
  exact ⟨h1, by rw [h1, readGB_fmtGB mb hb63]⟩

end Martian.FormatRes
