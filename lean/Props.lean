import Props.C18
