#!/bin/sh
# Build the framework from files on disk only (offline).  Run once after a fresh restore.
set -e
cd "$(dirname "$0")"
export GOFLAGS=-mod=mod GOPROXY=off GOSUMDB=off GOTOOLCHAIN=local CGO_ENABLED=0
mkdir -p .build evidence replay
(cd extract && go build -o ../.build/extract .)
./.build/extract -repo "${VERIF_REPO:-/repo}" -out lean/Gen/Facts.lean -json .build/facts-setup.json
(cd lean && lake build Martian Gen Proofs driver)
# property theorems: a failure here is reported by the individual checks, not by setup
(cd lean && lake build Props) || echo "setup: some Props modules do not build against the current tree (the checks will report)"
(cd harness && cp /repo/go.sum go.sum 2>/dev/null || true; go build -tags verif -o ../.build/harness-setup .) || echo "setup: harness does not build (the checks will report)"
echo "setup done"
