package main

// The functions (and fragments of functions) that are translated; the tie
// theorems are in lean/Props/<ID>Tie.lean.  `deflt` is the translation of the
// tree the tie theorems were last proved against (used, with a note, when the
// current source leaves the subset).

func init() {
	// C02  Metadata._getStateNoLock: sentinel files present → (state, found)
	addTranslated(trTarget{
		name: "getStateNoLock", file: "martian/core/metadata.go", recv: "Metadata", fn: "_getStateNoLock",
		params:    []trParam{{lean: "present", goText: "self._existsNoLock", leanTy: "String → Bool", ty: tyBool, isFunc: true}},
		autoNames: true, dropCalls: []string{"self._removeNoLock"},
		leanTy: "(String → Bool) → String × Bool", resTy: tyName,
		deflt: trDefaults["getStateNoLock"],
	})
	// C04  pathIsInside (filepath.Clean abstracted)
	addTranslated(trTarget{
		name: "pathIsInside", file: "martian/core/storage.go", fn: "pathIsInside", goParams: true, strElem: "Char",
		params: []trParam{{lean: "clean", goText: "filepath.Clean", leanTy: "List Char → List Char", ty: tyStr, isFunc: true}},
		leanTy: "(List Char → List Char) → List Char → List Char → Bool", resTy: tyBool,
		deflt: trDefaults["pathIsInside"],
	})
	// C11  util.WidthForInt (the float tail n ↦ int(math.Log10(float64(n))) abstracted; recursion with fuel)
	addTranslated(trTarget{
		name: "WidthForInt", file: "martian/util/util.go", fn: "WidthForInt", goParams: true, recFuel: true,
		params: []trParam{{lean: "log10", goText: "math.Log10", leanTy: "Int → Int", ty: tyInt, isFunc: true}},
		leanTy: "(Int → Int) → Nat → Int → Int", resTy: tyInt, resLean: "Int → Int",
		deflt: trDefaults["WidthForInt"],
	})
	// C12  LocalJobManager.GetSystemReqs, the integer logic after the float → int conversions
	gsr := func(name, from, to, ty string, outs []string, params ...trParam) {
		addTranslated(trTarget{name: name, file: "martian/core/jobmanager_local.go", recv: "LocalJobManager", fn: "GetSystemReqs",
			from: from, to: to, outs: outs, params: params, leanTy: ty, deflt: trDefaults[name]})
	}
	i := func(lean, text string) trParam { return trParam{lean: lean, goText: text, leanTy: "Int", ty: tyInt} }
	gsr("GSR_centi", "if centiCores == 0", "", "Int → Int → Int → Int", []string{"centiCores"},
		i("threadsPerJob", "self.jobSettings.ThreadsPerJob"), i("maxCores", "self.maxCores"), i("centiCores", "centiCores"))
	gsr("GSR_mem", "if memMb == 0", "", "Int → Int → Int → Int", []string{"memMb"},
		i("memGBPerJob", "self.jobSettings.MemGBPerJob"), i("memCur", "self.memMBSem.CurrentSize()"), i("memMb", "memMb"))
	gsr("GSR_vmem", "if vmemMb == 0", "if vmemMb > 0 && vmemMb < memMb", "Int → Bool → Int → Int → Int → Int → Int → Int × Int",
		[]string{"memMb", "vmemMb"},
		i("extraVmemGB", "self.jobSettings.ExtraVmemGB"),
		trParam{lean: "hasVmemSem", goText: "self.vmemMBSem != nil", leanTy: "Bool", ty: tyBool},
		i("vmemCur", "self.vmemMBSem.CurrentSize()"), i("maxMemGB", "self.maxMemGB"), i("maxVmemMB", "self.maxVmemMB"),
		i("memMb", "memMb"), i("vmemMb", "vmemMb"))
	// C07/C17  syntax.IsLegalUnixFilename (nil ↦ none; range read byte-wise: the loop only compares with '/' and 0,
	// which never occur inside a multi-byte UTF-8 sequence)
	addTranslated(trTarget{
		name: "IsLegalUnixFilename", file: "martian/syntax/compile_params.go", fn: "IsLegalUnixFilename", goParams: true, rangeBytes: true,
		leanTy: "List UInt8 → Option String", resTy: tyErr, retLean: "Option String",
		deflt: trDefaults["IsLegalUnixFilename"],
	})
	// C13  StructMember.GetOutFilename (the default base file name of an output)
	addTranslated(trTarget{
		name: "GetOutFilename", file: "martian/syntax/struct_type.go", recv: "StructMember", fn: "GetOutFilename", strElem: "Char",
		params: []trParam{{lean: "isFile", goText: "s.isFile", leanTy: "String", ty: tyName},
			{lean: "outName", goText: "s.OutName", leanTy: "List Char", ty: tyStr},
			{lean: "isComplex", goText: "s.isComplex", leanTy: "Bool", ty: tyBool},
			{lean: "tname", goText: "s.Tname.Tname", leanTy: "List Char", ty: tyStr},
			{lean: "id_", goText: "s.Id", leanTy: "List Char", ty: tyStr}},
		nameConsts: []string{"KindIsFile", "KindIsDirectory"},
		strConsts:  map[string]string{"KindFile": "file", "KindPath": "path"},
		leanTy:     "String → List Char → Bool → List Char → List Char → List Char", resTy: tyStr,
		deflt: trDefaults["GetOutFilename"],
	})
	// C18  appendShellSafeQuote: what is appended for a rune of width 1
	addTranslated(trTarget{
		name: "shellEscape", file: "martian/core/shell_quote.go", fn: "appendShellSafeQuote", from: "switch r", outs: []string{"buf"},
		params: []trParam{{lean: "r", goText: "r", leanTy: "Int", ty: tyInt}, {lean: "s0", goText: "s[0]", leanTy: "UInt8", ty: tyByte},
			{lean: "buf", goText: "buf", leanTy: "List UInt8", ty: tyStr}},
		intConsts: map[string]int64{"utf8.RuneError": 0xFFFD, "utf8.RuneSelf": 0x80},
		leanTy:    "Int → UInt8 → List UInt8 → List UInt8",
		deflt:     trDefaults["shellEscape"],
	})
	// C15  Pipestance.Lock: the order of its effects and its verdict, as a function of the outcome of the
	// exclusive create (`err == nil`: created; `os.IsExist(err)`: refused because the file exists)
	addTranslated(trTarget{
		name: "Lock", file: "martian/core/pipestance.go", recv: "Pipestance", fn: "Lock", traceTy: "events",
		params: []trParam{{lean: "created", goText: "err == nil", leanTy: "Bool", ty: tyBool},
			{lean: "exists_", goText: "os.IsExist(err)", leanTy: "Bool", ty: tyBool}},
		effects: []trEffect{{"self.metadata.loadCache", "event", "loadCache"}, {"os.OpenFile", "event", "create"}, {"f.Close", "event", "close"},
			{"util.RegisterSignalHandler", "event", "RegisterSignalHandler"}, {"self.metadata.WriteTime", "event", "WriteTime"}},
		leanTy: "Bool → Bool → List String × Option String", resTy: tyErr,
		deflt: trDefaults["Lock"],
	})
	// C05/C03  Chunk.step: the guard of a chunk's job submission and the `hasBeenRun` flag
	addTranslated(trTarget{
		name: "ChunkStep", file: "martian/core/stage.go", recv: "Chunk", fn: "step", void: true, traceTy: "events",
		params: []trParam{{lean: "state", goText: "self.getState()", leanTy: "String", ty: tyName},
			{lean: "hasBeenRun", goText: "self.hasBeenRun", leanTy: "Bool", ty: tyBool, isState: true}},
		nameConsts: []string{"Ready"},
		effects:    []trEffect{{"self.metadata.Write", "event", "Write"}, {"self.fork.node.runChunk", "event", "runChunk"}},
		dropCalls:  []string{"self.fork.node.setChunkJobReqs", "self.chunkDef.Merge", "makeOutArgs"},
		dropStmts:  []string{"if self.chunkDef.Resources == nil", "if self.fork.Split()", "self.fork.lastPrint ="},
		voidOuts:   []string{"hasBeenRun"},
		leanTy:     "String → Bool → List String × Bool",
		deflt:      trDefaults["ChunkStep"],
	})
	// C09  BindStms.format, first loop: the column of the `=` signs
	addTranslated(trTarget{
		name: "idWidth", file: "martian/syntax/format_callable.go", recv: "BindStms", fn: "format",
		from: "idWidth := 0", to: "for _, bindstm := range self.List", outs: []string{"idWidth"},
		params: []trParam{{lean: "ids", goText: "self.List", leanTy: "List (List UInt8)", ty: tyRecList, fields: []trField{{"Id", tyStr}}}},
		leanTy: "List (List UInt8) → Int",
		deflt:  trDefaults["idWidth"],
	})
	// C09  BindStm.format: the bytes written for one binding (comments apart; the value by Exp.format)
	addTranslated(trTarget{
		name: "BindStmFormat", file: "martian/syntax/format_callable.go", recv: "BindStm", fn: "format", void: true, traceTy: "bytes",
		params: []trParam{{lean: "pfx", goText: "prefix", leanTy: "List UInt8", ty: tyStr},
			{lean: "idWidth", goText: "idWidth", leanTy: "Int", ty: tyInt},
			{lean: "id_", goText: "self.Id", leanTy: "List UInt8", ty: tyStr},
			{lean: "expFormat", goText: "self.Exp.format", leanTy: "List UInt8 → List UInt8", ty: tyStr, isFunc: true}},
		effects: []trEffect{{"printer.mustWriteString", "writeStr", ""}, {"printer.mustWriteRune", "writeByte", ""},
			{"self.Exp.format", "writeFn", "expFormat"}},
		skipArgs: []string{"printer"}, dropCalls: []string{"printer.printComments"},
		strConsts: map[string]string{"INDENT": "    ", "NEWLINE": "\n"},
		leanTy:    "List UInt8 → Int → List UInt8 → (List UInt8 → List UInt8) → List UInt8",
		deflt:     trDefaults["BindStmFormat"],
	})
}
