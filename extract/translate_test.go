package main

import (
	"os"
	"strings"
	"testing"
)

// The loop forms no production target uses yet (fold with state, index loops,
// tagless switch inside a loop); run with TRANSLATE_TEST_REPO=<dir containing martian/x/x.go>.
func TestTranslateLoops(t *testing.T) {
	repo := os.Getenv("TRANSLATE_TEST_REPO")
	if repo == "" {
		t.Skip("TRANSLATE_TEST_REPO not set")
	}
	for _, fn := range []string{"countDots", "sumIdx", "sumTo", "firstBig"} {
		tt := trTarget{name: fn, file: "martian/x/x.go", fn: fn, goParams: true, leanTy: "List UInt8 → Int", resTy: tyInt, retLean: "Int"}
		s, _, err := translateTarget(repo, &tt)
		if err != nil {
			t.Fatalf("%s: %v", fn, err)
		}
		t.Logf("def %s := %s", fn, s)
	}
}

// Forms whose translation would be UNSOUND (second audit pass, X3) must be extraction errors, not terms:
// byte shifts by a count that is not a literal < 8 (Lean takes the count mod 8), unsigned and narrow
// integer types (Int does not wrap), a text-matched parameter consulted after one of its variables has
// been assigned.  testdata/fake is the auditor's adversarial file plus two cases.
func TestTranslateRejectsUnsoundForms(t *testing.T) {
	repo := "testdata/fake"
	cases := []struct {
		fn     string
		reject string // substring of the error ("" = must translate)
	}{
		{"shift8", "byte shift"}, {"shift3", ""}, {"uwrap", "uint"}, {"i8", "int8"},
		{"textparam", "matched by text"}, {"twoerrs", "matched by text"}, {"divmod", ""}, {"sw", ""},
		// third audit pass, X3': modelled effects must not vanish inside ignored calls / ignored statements
		{"nestedEffect", "not in the ignore list"}, {"droppedBody", "contains a modelled effect"},
	}
	for _, cs := range cases {
		tt := trTarget{name: cs.fn, file: "martian/x/x.go", fn: cs.fn, goParams: true, leanTy: "?", resTy: tyInt, retLean: "Int"}
		switch cs.fn {
		case "textparam":
			tt.params = []trParam{{lean: "s0", goText: "s[0]", leanTy: "UInt8", ty: tyByte}}
		case "nestedEffect":
			tt.resTy, tt.traceTy, tt.goParams = tyErr, "events", false
			tt.effects = []trEffect{{"remove", "event", "remove"}}
		case "droppedBody":
			tt.resTy, tt.traceTy = tyErr, "events"
			tt.effects = []trEffect{{"run", "event", "run"}}
			tt.dropStmts = []string{"if len(s) == 0"}
		case "twoerrs":
			tt.resTy, tt.traceTy = tyErr, "events"
			tt.effects = []trEffect{{"open", "event", "open"}}
			tt.params = []trParam{{lean: "ok", goText: "err == nil", leanTy: "Bool", ty: tyBool}}
		}
		s, _, err := translateTarget(repo, &tt)
		switch {
		case cs.reject == "" && err != nil:
			t.Errorf("%s: must translate, got %v", cs.fn, err)
		case cs.reject != "" && err == nil:
			t.Errorf("%s: must be refused (%s), got %s", cs.fn, cs.reject, s)
		case cs.reject != "" && !strings.Contains(err.Error(), cs.reject):
			t.Errorf("%s: refused for another reason: %v", cs.fn, err)
		default:
			t.Logf("%s: %v", cs.fn, err)
		}
	}
}
