package main

import (
	"os"
	"testing"
)

// The loop forms no production target uses yet (fold with state, index loops,
// tagless switch inside a loop); run with TRANSLATE_TEST_REPO=<dir containing martian/x/x.go>.
func TestTranslateLoops(t *testing.T) {
	repo := os.Getenv("TRANSLATE_TEST_REPO")
	if repo == "" {
		t.Skip("TRANSLATE_TEST_REPO not set")
	}
	for _, fn := range []string{"countDots", "sumIdx", "sumTo", "firstBig"} {
		tt := trTarget{name: fn, file: "martian/x/x.go", fn: fn, goParams: true, leanTy: "List UInt8 → Int", resTy: tyInt, retLean: "Int"}
		s, _, err := translateTarget(repo, &tt)
		if err != nil {
			t.Fatalf("%s: %v", fn, err)
		}
		t.Logf("def %s := %s", fn, s)
	}
}
