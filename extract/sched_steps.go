package main

// Transition structure of the scheduler's state functions, regenerated as Lean
// tables (Gen.*) — which state leads to which action, and in which order the
// conditions are tested:
//
//	stepStageChain      Fork.stepStage   (stage.go): the chain `if state == X { state = self.doY() }`
//	forkGetStateSteps   Fork.getState    (stage.go): members consulted, in order, and what each returns
//	forkChunkSwitch     Fork.getState    the switch over chunk states inside the chunk loop
//	forkChunkAfter      Fork.getState    the flags tested after the chunk loop, in order
//	nodeGetStateLoop    Node.getState    (node.go): the if / else-if chain of the fork loop
//	nodeGetStateTail    Node.getState    what follows the loop (complete? disabled? prenodes, running)
//
// States are printed with the string values of the MetadataState constants
// (`Waiting`, the empty string, is printed `none` as everywhere in the model);
// `X.Prefixed(P)` is printed as value(P)+value(X).  A pattern that is no longer
// found is an error (committed default + note); a re-ordering or a changed
// condition changes the table and breaks the `decide` obligations of
// lean/Props/C02.lean.

import (
	"fmt"
	"go/ast"
	"go/token"
	"strings"
)

type schedConsts map[string]string

func loadSchedConsts(repo string) (schedConsts, error) {
	_, f, err := parseFile(repo, "martian/core/metadata.go")
	if err != nil {
		return nil, err
	}
	return schedConsts(stringConsts(f)), nil
}

// stateName renders a MetadataState-valued expression.
func (c schedConsts) stateName(e ast.Expr) (string, error) {
	switch x := e.(type) {
	case *ast.Ident:
		v, ok := c[x.Name]
		if !ok {
			return "", fmt.Errorf("unknown state constant %s", x.Name)
		}
		if v == "" {
			v = "none"
		}
		return v, nil
	case *ast.CallExpr:
		sel, ok := x.Fun.(*ast.SelectorExpr)
		if ok && sel.Sel.Name == "Prefixed" && len(x.Args) == 1 {
			base, err := c.stateName(sel.X)
			if err != nil {
				return "", err
			}
			p, ok := x.Args[0].(*ast.Ident)
			if !ok {
				return "", fmt.Errorf("non-constant prefix")
			}
			pv, ok := c[p.Name]
			if !ok {
				return "", fmt.Errorf("unknown prefix constant %s", p.Name)
			}
			return pv + base, nil
		}
	}
	return "", fmt.Errorf("unsupported state expression %T", e)
}

// cond renders a condition over one state variable: `s == Failed` -> "==failed",
// `a && b` -> "a&&b", `a || b` -> "a||b"; bare identifiers by name.
func (c schedConsts) cond(e ast.Expr) (string, error) {
	switch x := e.(type) {
	case *ast.ParenExpr:
		return c.cond(x.X)
	case *ast.Ident:
		return x.Name, nil
	case *ast.BinaryExpr:
		switch x.Op {
		case token.LAND, token.LOR:
			l, err := c.cond(x.X)
			if err != nil {
				return "", err
			}
			r, err := c.cond(x.Y)
			if err != nil {
				return "", err
			}
			return l + x.Op.String() + r, nil
		case token.EQL, token.NEQ:
			if _, ok := x.X.(*ast.Ident); !ok {
				return "", fmt.Errorf("comparison of a non-variable")
			}
			s, err := c.stateName(x.Y)
			if err != nil {
				return "", err
			}
			return x.Op.String() + s, nil
		}
	}
	return "", fmt.Errorf("unsupported condition %T", e)
}

// action renders the statements of a branch: `return X` -> "return x",
// `v = false` -> "v=false", `break` -> "break"; joined with ';'.
func (c schedConsts) action(stmts []ast.Stmt) (string, error) {
	var parts []string
	for _, st := range stmts {
		switch x := st.(type) {
		case *ast.ReturnStmt:
			if len(x.Results) != 1 {
				return "", fmt.Errorf("return with %d results", len(x.Results))
			}
			if id, ok := x.Results[0].(*ast.Ident); ok {
				if _, isConst := c[id.Name]; !isConst {
					parts = append(parts, "return "+id.Name)
					continue
				}
			}
			s, err := c.stateName(x.Results[0])
			if err != nil {
				// `return state.Prefixed(P)`
				if call, ok := x.Results[0].(*ast.CallExpr); ok {
					if sel, ok := call.Fun.(*ast.SelectorExpr); ok && sel.Sel.Name == "Prefixed" && len(call.Args) == 1 {
						if p, ok := call.Args[0].(*ast.Ident); ok {
							if pv, ok := c[p.Name]; ok {
								parts = append(parts, "return "+pv+"*")
								continue
							}
						}
					}
				}
				return "", err
			}
			parts = append(parts, "return "+s)
		case *ast.AssignStmt:
			if len(x.Lhs) != 1 || len(x.Rhs) != 1 {
				return "", fmt.Errorf("unsupported assignment")
			}
			l, ok1 := x.Lhs[0].(*ast.Ident)
			r, ok2 := x.Rhs[0].(*ast.Ident)
			if !ok1 || !ok2 {
				return "", fmt.Errorf("unsupported assignment")
			}
			parts = append(parts, l.Name+"="+r.Name)
		case *ast.BranchStmt:
			parts = append(parts, x.Tok.String())
		default:
			return "", fmt.Errorf("unsupported statement %T in a branch", st)
		}
	}
	return strings.Join(parts, ";"), nil
}

func leanPairs(ps [][2]string) (string, interface{}) {
	parts := make([]string, len(ps))
	js := make([][]string, len(ps))
	for i, p := range ps {
		parts[i] = fmt.Sprintf("(%s, %s)", leanStr(p[0]), leanStr(p[1]))
		js[i] = []string{p[0], p[1]}
	}
	return "[" + strings.Join(parts, ", ") + "]", js
}

// selfMember reports the member m of an expression `self.m.getState()`.
func selfMemberOfGetState(e ast.Expr) string {
	call, ok := e.(*ast.CallExpr)
	if !ok {
		return ""
	}
	sel, ok := call.Fun.(*ast.SelectorExpr)
	if !ok || sel.Sel.Name != "getState" {
		return ""
	}
	inner, ok := sel.X.(*ast.SelectorExpr)
	if !ok {
		return ""
	}
	if id, ok := inner.X.(*ast.Ident); ok && id.Name == "self" {
		return inner.Sel.Name
	}
	return ""
}

func init() {
	// ---------------- Fork.stepStage ----------------
	addFact(fact{
		name:   "stepStageChain",
		leanTy: "List (String × String)",
		deflt: `[("disabled", "return"), ("ready", "doSplit"), ("split_complete", "doChunks"), ` +
			`("chunks_complete", "doJoin"), ("join_complete", "doComplete")]`,
		extract: func(repo string) (string, interface{}, error) {
			c, err := loadSchedConsts(repo)
			if err != nil {
				return "", nil, err
			}
			_, f, err := parseFile(repo, "martian/core/stage.go")
			if err != nil {
				return "", nil, err
			}
			fd := findMethod(f, "Fork", "stepStage")
			if fd == nil {
				return "", nil, fmt.Errorf("Fork.stepStage not found")
			}
			var out [][2]string
			for _, st := range fd.Body.List {
				ifs, ok := st.(*ast.IfStmt)
				if !ok {
					continue
				}
				be, ok := ifs.Cond.(*ast.BinaryExpr)
				if !ok || be.Op != token.EQL {
					continue
				}
				if id, ok := be.X.(*ast.Ident); !ok || id.Name != "state" {
					continue
				}
				sn, err := c.stateName(be.Y)
				if err != nil {
					return "", nil, err
				}
				act := ""
				for _, b := range ifs.Body.List {
					var call *ast.CallExpr
					switch x := b.(type) {
					case *ast.AssignStmt:
						if len(x.Lhs) == 1 && len(x.Rhs) == 1 {
							if id, ok := x.Lhs[0].(*ast.Ident); ok && id.Name == "state" {
								call, _ = x.Rhs[0].(*ast.CallExpr)
							}
						}
					case *ast.ExprStmt:
						call, _ = x.X.(*ast.CallExpr)
					case *ast.ReturnStmt:
						if act == "" {
							act = "return"
						}
					}
					if call != nil {
						if sel, ok := call.Fun.(*ast.SelectorExpr); ok {
							if id, ok := sel.X.(*ast.Ident); ok && id.Name == "self" && strings.HasPrefix(sel.Sel.Name, "do") {
								act = sel.Sel.Name
								break
							}
						}
					}
				}
				if act == "" {
					return "", nil, fmt.Errorf("no action in the arm for state %s", sn)
				}
				out = append(out, [2]string{sn, act})
			}
			if len(out) == 0 {
				return "", nil, fmt.Errorf("no `if state == X` arms in Fork.stepStage")
			}
			l, js := leanPairs(out)
			return l, js, nil
		},
	})

	// ---------------- Fork.getState ----------------
	forkGetState := func(repo string) (steps, sw, after [][2]string, err error) {
		c, err := loadSchedConsts(repo)
		if err != nil {
			return nil, nil, nil, err
		}
		_, f, err := parseFile(repo, "martian/core/stage.go")
		if err != nil {
			return nil, nil, nil, err
		}
		fd := findMethod(f, "Fork", "getState")
		if fd == nil {
			return nil, nil, nil, fmt.Errorf("Fork.getState not found")
		}
		for _, st := range fd.Body.List {
			switch x := st.(type) {
			case *ast.ReturnStmt:
				a, err := c.action([]ast.Stmt{x})
				if err != nil {
					return nil, nil, nil, err
				}
				steps = append(steps, [2]string{"", a})
			case *ast.IfStmt:
				if as, ok := x.Init.(*ast.AssignStmt); ok && len(as.Rhs) == 1 {
					m := selfMemberOfGetState(as.Rhs[0])
					if m == "" {
						return nil, nil, nil, fmt.Errorf("unexpected init statement in Fork.getState")
					}
					if id, ok := x.Cond.(*ast.Ident); ok && id.Name == "ok" {
						// if state, ok := self.m.getState(); ok { if state == Failed { return state } else { return state.Prefixed(P) } }
						if len(x.Body.List) != 1 {
							return nil, nil, nil, fmt.Errorf("unexpected body for member %s", m)
						}
						inner, ok := x.Body.List[0].(*ast.IfStmt)
						if !ok {
							return nil, nil, nil, fmt.Errorf("unexpected body for member %s", m)
						}
						cd, err := c.cond(inner.Cond)
						if err != nil {
							return nil, nil, nil, err
						}
						a1, err := c.action(inner.Body.List)
						if err != nil {
							return nil, nil, nil, err
						}
						eb, ok := inner.Else.(*ast.BlockStmt)
						if !ok {
							return nil, nil, nil, fmt.Errorf("no else branch for member %s", m)
						}
						a2, err := c.action(eb.List)
						if err != nil {
							return nil, nil, nil, err
						}
						steps = append(steps, [2]string{m, "ok:" + cd + ":" + a1 + ";else:" + a2})
					} else {
						cd, err := c.cond(x.Cond)
						if err != nil {
							return nil, nil, nil, err
						}
						a, err := c.action(x.Body.List)
						if err != nil {
							return nil, nil, nil, err
						}
						steps = append(steps, [2]string{m, cd + ":" + a})
					}
					continue
				}
				// if len(self.chunks) > 0 { … for … switch … }
				steps = append(steps, [2]string{"chunks", "loop"})
				for _, b := range x.Body.List {
					switch y := b.(type) {
					case *ast.RangeStmt:
						for _, lb := range y.Body.List {
							ss, ok := lb.(*ast.SwitchStmt)
							if !ok {
								return nil, nil, nil, fmt.Errorf("chunk loop body is not a switch")
							}
							if selfLess := ss.Tag; selfLess == nil {
								return nil, nil, nil, fmt.Errorf("switch without tag")
							}
							for _, cc := range ss.Body.List {
								cl := cc.(*ast.CaseClause)
								var labels []string
								for _, e := range cl.List {
									s, err := c.stateName(e)
									if err != nil {
										return nil, nil, nil, err
									}
									labels = append(labels, s)
								}
								lab := strings.Join(labels, ",")
								if cl.List == nil {
									lab = "default"
								}
								a, err := c.action(cl.Body)
								if err != nil {
									return nil, nil, nil, err
								}
								sw = append(sw, [2]string{lab, a})
							}
						}
					case *ast.IfStmt:
						cd, err := c.cond(y.Cond)
						if err != nil {
							return nil, nil, nil, err
						}
						a, err := c.action(y.Body.List)
						if err != nil {
							return nil, nil, nil, err
						}
						after = append(after, [2]string{cd, a})
					}
				}
			}
		}
		if len(steps) == 0 || len(sw) == 0 || len(after) == 0 {
			return nil, nil, nil, fmt.Errorf("Fork.getState: pattern not found")
		}
		return steps, sw, after, nil
	}
	addFact(fact{
		name:   "forkGetStateSteps",
		leanTy: "List (String × String)",
		deflt: `[("metadata", "==failed||==complete||==disabled:return state"), ` +
			`("join_metadata", "ok:==failed:return state;else:return join_*"), ("chunks", "loop"), ` +
			`("split_metadata", "ok:==failed:return state;else:return split_*"), ("", "return ready")]`,
		extract: func(repo string) (string, interface{}, error) {
			s, _, _, err := forkGetState(repo)
			if err != nil {
				return "", nil, err
			}
			l, js := leanPairs(s)
			return l, js, nil
		},
	})
	addFact(fact{
		name:   "forkChunkSwitch",
		leanTy: "List (String × String)",
		deflt: `[("failed", "return failed"), ("complete", ""), ("queued,running", "complete=false"), ` +
			`("default", "complete=false;running=false")]`,
		extract: func(repo string) (string, interface{}, error) {
			_, s, _, err := forkGetState(repo)
			if err != nil {
				return "", nil, err
			}
			l, js := leanPairs(s)
			return l, js, nil
		},
	})
	addFact(fact{
		name:   "forkChunkAfter",
		leanTy: "List (String × String)",
		deflt:  `[("complete", "return chunks_complete"), ("running", "return chunks_running")]`,
		extract: func(repo string) (string, interface{}, error) {
			_, _, s, err := forkGetState(repo)
			if err != nil {
				return "", nil, err
			}
			l, js := leanPairs(s)
			return l, js, nil
		},
	})

	// ---------------- Node.getState ----------------
	nodeGetState := func(repo string) (loop, tail [][2]string, err error) {
		c, err := loadSchedConsts(repo)
		if err != nil {
			return nil, nil, err
		}
		_, f, err := parseFile(repo, "martian/core/node.go")
		if err != nil {
			return nil, nil, err
		}
		fd := findMethod(f, "Node", "getState")
		if fd == nil {
			return nil, nil, fmt.Errorf("Node.getState not found")
		}
		rangeOver := func(rs *ast.RangeStmt) string {
			if sel, ok := rs.X.(*ast.SelectorExpr); ok {
				if id, ok := sel.X.(*ast.Ident); ok && id.Name == "self" {
					return sel.Sel.Name
				}
			}
			return ""
		}
		for _, st := range fd.Body.List {
			switch x := st.(type) {
			case *ast.RangeStmt:
				switch rangeOver(x) {
				case "forks":
					if len(x.Body.List) != 1 {
						return nil, nil, fmt.Errorf("fork loop of Node.getState has %d statements", len(x.Body.List))
					}
					var cur ast.Stmt = x.Body.List[0]
					for cur != nil {
						ifs, ok := cur.(*ast.IfStmt)
						if !ok {
							return nil, nil, fmt.Errorf("fork loop of Node.getState: final else branch")
						}
						cd, err := c.cond(ifs.Cond)
						if err != nil {
							return nil, nil, err
						}
						a, err := c.action(ifs.Body.List)
						if err != nil {
							return nil, nil, err
						}
						loop = append(loop, [2]string{cd, a})
						cur = ifs.Else
					}
				case "prenodes":
					for _, b := range x.Body.List {
						ifs, ok := b.(*ast.IfStmt)
						if !ok {
							return nil, nil, fmt.Errorf("prenode loop of Node.getState: unexpected statement")
						}
						cd, err := c.cond(ifs.Cond)
						if err != nil {
							return nil, nil, err
						}
						a, err := c.action(ifs.Body.List)
						if err != nil {
							return nil, nil, err
						}
						tail = append(tail, [2]string{"prenode:" + cd, a})
					}
				default:
					return nil, nil, fmt.Errorf("Node.getState: unexpected loop")
				}
			case *ast.IfStmt:
				cd, err := c.cond(x.Cond)
				if err != nil {
					return nil, nil, err
				}
				for _, b := range x.Body.List {
					if inner, ok := b.(*ast.IfStmt); ok {
						icd, err := c.cond(inner.Cond)
						if err != nil {
							return nil, nil, err
						}
						a, err := c.action(inner.Body.List)
						if err != nil {
							return nil, nil, err
						}
						tail = append(tail, [2]string{cd + "&&" + icd, a})
					} else {
						a, err := c.action([]ast.Stmt{b})
						if err != nil {
							return nil, nil, err
						}
						tail = append(tail, [2]string{cd, a})
					}
				}
			case *ast.ReturnStmt:
				a, err := c.action([]ast.Stmt{x})
				if err != nil {
					return nil, nil, err
				}
				tail = append(tail, [2]string{"", a})
			}
		}
		if len(loop) == 0 || len(tail) == 0 {
			return nil, nil, fmt.Errorf("Node.getState: pattern not found")
		}
		return loop, tail, nil
	}
	addFact(fact{
		name:   "nodeGetStateLoop",
		leanTy: "List (String × String)",
		deflt: `[("==failed", "return failed"), ("!=complete&&!=disabled", "complete=false;break"), ` +
			`("!=disabled", "disabled=false")]`,
		extract: func(repo string) (string, interface{}, error) {
			l, _, err := nodeGetState(repo)
			if err != nil {
				return "", nil, err
			}
			s, js := leanPairs(l)
			return s, js, nil
		},
	})
	addFact(fact{
		name:   "nodeGetStateTail",
		leanTy: "List (String × String)",
		deflt: `[("complete&&disabled", "return disabled"), ("complete", "return complete"), ` +
			`("prenode:!=complete&&!=disabled", "return none"), ("", "return running")]`,
		extract: func(repo string) (string, interface{}, error) {
			_, t, err := nodeGetState(repo)
			if err != nil {
				return "", nil, err
			}
			s, js := leanPairs(t)
			return s, js, nil
		},
	})
}
