package main

import (
	"fmt"
	"go/ast"
	"go/token"
	"strconv"
)

// C12 facts from martian/core/jobmanager_local.go:
//   localProcsPerJob   — const procsPerJob
//   localAcquireOrder  — the semaphores on which Enqueue calls Acquire, in
//                        source order (every job takes them in this one order,
//                        the precondition for deadlock freedom of the nesting)
func init() {
	addFact(fact{
		name:   "localProcsPerJob",
		leanTy: "Int",
		deflt:  "15",
		extract: func(repo string) (string, interface{}, error) {
			_, f, err := parseFile(repo, "martian/core/jobmanager_local.go")
			if err != nil {
				return "", nil, err
			}
			for _, d := range f.Decls {
				gd, ok := d.(*ast.GenDecl)
				if !ok || gd.Tok != token.CONST {
					continue
				}
				for _, sp := range gd.Specs {
					vs := sp.(*ast.ValueSpec)
					for i, n := range vs.Names {
						if n.Name == "procsPerJob" && i < len(vs.Values) {
							bl, ok := vs.Values[i].(*ast.BasicLit)
							if !ok || bl.Kind != token.INT {
								return "", nil, fmt.Errorf("procsPerJob is not an integer literal")
							}
							v, err := strconv.ParseInt(bl.Value, 0, 64)
							if err != nil {
								return "", nil, err
							}
							return strconv.FormatInt(v, 10), v, nil
						}
					}
				}
			}
			return "", nil, fmt.Errorf("const procsPerJob not found")
		},
	})
	addFact(fact{
		name:   "localAcquireOrder",
		leanTy: "List String",
		deflt:  `["centcoreSem", "memMBSem", "vmemMBSem", "procsSem"]`,
		extract: func(repo string) (string, interface{}, error) {
			_, f, err := parseFile(repo, "martian/core/jobmanager_local.go")
			if err != nil {
				return "", nil, err
			}
			fd := findMethod(f, "LocalJobManager", "Enqueue")
			if fd == nil {
				return "", nil, fmt.Errorf("LocalJobManager.Enqueue not found")
			}
			alias := map[string]string{} // local ident := self.<field>
			var order []string
			var bad error
			ast.Inspect(fd.Body, func(n ast.Node) bool {
				switch x := n.(type) {
				case *ast.AssignStmt:
					if x.Tok == token.DEFINE && len(x.Lhs) == 1 && len(x.Rhs) == 1 {
						if id, ok := x.Lhs[0].(*ast.Ident); ok {
							if se, ok := x.Rhs[0].(*ast.SelectorExpr); ok {
								if r, ok := se.X.(*ast.Ident); ok && r.Name == "self" {
									alias[id.Name] = se.Sel.Name
								}
							}
						}
					}
				case *ast.CallExpr:
					se, ok := x.Fun.(*ast.SelectorExpr)
					if !ok || se.Sel.Name != "Acquire" {
						return true
					}
					switch rx := se.X.(type) {
					case *ast.SelectorExpr:
						order = append(order, rx.Sel.Name)
					case *ast.Ident:
						if a, ok := alias[rx.Name]; ok {
							order = append(order, a)
						} else {
							bad = fmt.Errorf("Acquire on unknown receiver %s", rx.Name)
						}
					default:
						bad = fmt.Errorf("Acquire on an unrecognised receiver expression")
					}
				}
				return true
			})
			if bad != nil {
				return "", nil, bad
			}
			if len(order) == 0 {
				return "", nil, fmt.Errorf("no Acquire calls found in Enqueue")
			}
			return leanStrList(order), order, nil
		},
	})
}
