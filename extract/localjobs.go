package main

import (
	"fmt"
	"go/ast"
	"go/token"
	"strconv"
)

// C12 facts from martian/core/jobmanager_local.go:
//
//	localProcsPerJob   — const procsPerJob
//	localAcquireOrder  — the semaphores on which Enqueue calls Acquire, in
//	                     source order (every job takes them in this one order,
//	                     the precondition for deadlock freedom of the nesting)
func init() {
	addFact(fact{
		name:   "localProcsPerJob",
		leanTy: "Int",
		deflt:  "15",
		extract: func(repo string) (string, interface{}, error) {
			_, f, err := parseFile(repo, "martian/core/jobmanager_local.go")
			if err != nil {
				return "", nil, err
			}
			for _, d := range f.Decls {
				gd, ok := d.(*ast.GenDecl)
				if !ok || gd.Tok != token.CONST {
					continue
				}
				for _, sp := range gd.Specs {
					vs := sp.(*ast.ValueSpec)
					for i, n := range vs.Names {
						if n.Name == "procsPerJob" && i < len(vs.Values) {
							bl, ok := vs.Values[i].(*ast.BasicLit)
							if !ok || bl.Kind != token.INT {
								return "", nil, fmt.Errorf("procsPerJob is not an integer literal")
							}
							v, err := strconv.ParseInt(bl.Value, 0, 64)
							if err != nil {
								return "", nil, err
							}
							return strconv.FormatInt(v, 10), v, nil
						}
					}
				}
			}
			return "", nil, fmt.Errorf("const procsPerJob not found")
		},
	})
	addFact(fact{
		name:   "localAcquireOrder",
		leanTy: "List String",
		deflt:  `["centcoreSem", "memMBSem", "vmemMBSem", "procsSem"]`,
		extract: func(repo string) (string, interface{}, error) {
			_, f, err := parseFile(repo, "martian/core/jobmanager_local.go")
			if err != nil {
				return "", nil, err
			}
			fd := findMethod(f, "LocalJobManager", "Enqueue")
			if fd == nil {
				return "", nil, fmt.Errorf("LocalJobManager.Enqueue not found")
			}
			alias := map[string]string{} // local ident := self.<field>
			var order []string
			var bad error
			ast.Inspect(fd.Body, func(n ast.Node) bool {
				switch x := n.(type) {
				case *ast.AssignStmt:
					if x.Tok == token.DEFINE && len(x.Lhs) == 1 && len(x.Rhs) == 1 {
						if id, ok := x.Lhs[0].(*ast.Ident); ok {
							if se, ok := x.Rhs[0].(*ast.SelectorExpr); ok {
								if r, ok := se.X.(*ast.Ident); ok && r.Name == "self" {
									alias[id.Name] = se.Sel.Name
								}
							}
						}
					}
				case *ast.CallExpr:
					se, ok := x.Fun.(*ast.SelectorExpr)
					if !ok || se.Sel.Name != "Acquire" {
						return true
					}
					switch rx := se.X.(type) {
					case *ast.SelectorExpr:
						order = append(order, rx.Sel.Name)
					case *ast.Ident:
						if a, ok := alias[rx.Name]; ok {
							order = append(order, a)
						} else {
							bad = fmt.Errorf("Acquire on unknown receiver %s", rx.Name)
						}
					default:
						bad = fmt.Errorf("Acquire on an unrecognised receiver expression")
					}
				}
				return true
			})
			if bad != nil {
				return "", nil, bad
			}
			if len(order) == 0 {
				return "", nil, fmt.Errorf("no Acquire calls found in Enqueue")
			}
			return leanStrList(order), order, nil
		},
	})
}

// C12 facts about LocalJobManager.refreshResources (the availability-update path):
//
//	refreshTreeCall          — the arguments of its GetProcessTreeMemory call, as source text
//	refreshTreeIncludesParent — the includeParent literal of that call
//	refreshUpdateArgs        — (semaphore field, method, argument expressions) of every
//	                           Update* call on a semaphore, in source order
func init() {
	find := func(repo string) (*token.FileSet, *ast.FuncDecl, error) {
		fset, f, err := parseFile(repo, "martian/core/jobmanager_local.go")
		if err != nil {
			return nil, nil, err
		}
		fd := findMethod(f, "LocalJobManager", "refreshResources")
		if fd == nil || fd.Body == nil {
			return nil, nil, fmt.Errorf("LocalJobManager.refreshResources not found")
		}
		return fset, fd, nil
	}
	treeCall := func(repo string) ([]string, error) {
		fset, fd, err := find(repo)
		if err != nil {
			return nil, err
		}
		var calls [][]string
		ast.Inspect(fd.Body, func(n ast.Node) bool {
			if c, ok := n.(*ast.CallExpr); ok && exprText(fset, c.Fun) == "GetProcessTreeMemory" {
				var a []string
				for _, e := range c.Args {
					a = append(a, exprText(fset, e))
				}
				calls = append(calls, a)
			}
			return true
		})
		if len(calls) != 1 || len(calls[0]) != 3 {
			return nil, fmt.Errorf("expected exactly one GetProcessTreeMemory(pid, includeParent, io) call in refreshResources, found %d", len(calls))
		}
		return calls[0], nil
	}
	addFact(fact{
		name:   "refreshTreeCall",
		leanTy: "List String",
		deflt:  `["os.Getpid()", "false", "nil"]`,
		extract: func(repo string) (string, interface{}, error) {
			a, err := treeCall(repo)
			if err != nil {
				return "", nil, err
			}
			return leanStrList(a), a, nil
		},
	})
	addFact(fact{
		name:   "refreshTreeIncludesParent",
		leanTy: "Bool",
		deflt:  "false",
		extract: func(repo string) (string, interface{}, error) {
			a, err := treeCall(repo)
			if err != nil {
				return "", nil, err
			}
			switch a[1] {
			case "true":
				return "true", true, nil
			case "false":
				return "false", false, nil
			}
			return "", nil, fmt.Errorf("includeParent is not a literal: %s", a[1])
		},
	})
	addFact(fact{
		name:   "refreshUpdateArgs",
		leanTy: "List (String × String × List String)",
		deflt: `[("memMBSem", "UpdateFreeUsed", ["(sysMem.ActualFree + 1024*1024 - 1) / (1024 * 1024)", "(usedMem.Rss + 1024*1024 - 1) / (1024 * 1024)"]), ` +
			`("vmemMBSem", "UpdateActual", ["self.maxVmemMB - usedMem.Vmem/(1024*1024)"]), ` +
			`("centcoreSem", "UpdateActual", ["int64((float64(runtime.NumCPU()) - load.One + 0.9) * 100)"]), ` +
			`("procsSem", "UpdateFreeUsed", ["rlimCur(rlim) - int64(userProcs)", "int64(usedMem.Procs) + startingThreadCount"])]`,
		extract: func(repo string) (string, interface{}, error) {
			fset, fd, err := find(repo)
			if err != nil {
				return "", nil, err
			}
			var parts []string
			var js [][]interface{}
			ast.Inspect(fd.Body, func(n ast.Node) bool {
				c, ok := n.(*ast.CallExpr)
				if !ok {
					return true
				}
				se, ok := c.Fun.(*ast.SelectorExpr)
				if !ok || len(se.Sel.Name) < 6 || se.Sel.Name[:6] != "Update" {
					return true
				}
				rx, ok := se.X.(*ast.SelectorExpr)
				if !ok {
					return true
				}
				var a []string
				for _, e := range c.Args {
					a = append(a, exprText(fset, e))
				}
				parts = append(parts, fmt.Sprintf("(%s, %s, %s)", leanStr(rx.Sel.Name), leanStr(se.Sel.Name), leanStrList(a)))
				js = append(js, []interface{}{rx.Sel.Name, se.Sel.Name, a})
				return true
			})
			if len(parts) == 0 {
				return "", nil, fmt.Errorf("no Update* calls found in refreshResources")
			}
			s := "["
			for i, p := range parts {
				if i > 0 {
					s += ", "
				}
				s += p
			}
			return s + "]", js, nil
		},
	})
}

// localAcquireOrders — EVERY order in which a path through Enqueue can call Acquire on the
// job manager's semaphores (the straight-line fact localAcquireOrder only sees the source
// order).  A small abstract interpretation of the job goroutine's body: statements in sequence;
// both arms of an `if` (an absent else = the empty arm); a loop body zero or one time; `return`
// ends the path; a call of a local variable bound to a function literal runs that literal's
// paths, and when a variable can hold several literals (assigned on different paths, swapped by
// tuple assignment) every one of them is an alternative at each call.  Deadlock freedom of
// hold-and-wait on several semaphores needs all paths to acquire along ONE order.
type acqPath struct {
	seq  []string
	done bool // the path has returned
}

type acqInterp struct {
	fset  *token.FileSet
	alias map[string]string // local ident := self.<field>
	env   map[string][]*ast.FuncLit
	depth int
	err   error
}

func (in *acqInterp) semName(x ast.Expr) (string, bool) {
	switch rx := x.(type) {
	case *ast.SelectorExpr:
		if id, ok := rx.X.(*ast.Ident); ok && id.Name == "self" {
			return rx.Sel.Name, true
		}
	case *ast.Ident:
		if a, ok := in.alias[rx.Name]; ok {
			return a, true
		}
	}
	return "", false
}

func extend(paths []acqPath, alts [][]string) []acqPath {
	var out []acqPath
	for _, p := range paths {
		if p.done {
			out = append(out, p)
			continue
		}
		for _, a := range alts {
			out = append(out, acqPath{seq: append(append([]string{}, p.seq...), a...)})
		}
	}
	return dedupPaths(out)
}

func dedupPaths(ps []acqPath) []acqPath {
	seen := map[string]bool{}
	var out []acqPath
	for _, p := range ps {
		k := fmt.Sprint(p.seq, p.done)
		if !seen[k] {
			seen[k] = true
			out = append(out, p)
		}
	}
	if len(out) > 512 {
		out = out[:512]
	}
	return out
}

// exprAlts: the acquisition sequences evaluating the expression can perform
func (in *acqInterp) exprAlts(e ast.Node) [][]string {
	alts := [][]string{{}}
	if e == nil {
		return alts
	}
	ast.Inspect(e, func(n ast.Node) bool {
		switch x := n.(type) {
		case *ast.FuncLit:
			return false // only runs when called
		case *ast.CallExpr:
			// arguments first
			for _, a := range x.Args {
				sub := in.exprAlts(a)
				alts = crossAlts(alts, sub)
			}
			if se, ok := x.Fun.(*ast.SelectorExpr); ok && se.Sel.Name == "Acquire" {
				if name, ok := in.semName(se.X); ok {
					alts = crossAlts(alts, [][]string{{name}})
				} else {
					in.err = fmt.Errorf("Acquire on an unrecognised receiver %s", exprText(in.fset, se.X))
				}
				return false
			}
			if id, ok := x.Fun.(*ast.Ident); ok {
				if lits, ok := in.env[id.Name]; ok && in.depth < 6 {
					var callee [][]string
					for _, fl := range lits {
						in.depth++
						for _, p := range in.block(fl.Body.List, []acqPath{{}}) {
							callee = append(callee, p.seq)
						}
						in.depth--
					}
					alts = crossAlts(alts, callee)
					return false
				}
			}
			if fl, ok := x.Fun.(*ast.FuncLit); ok {
				var callee [][]string
				for _, p := range in.block(fl.Body.List, []acqPath{{}}) {
					callee = append(callee, p.seq)
				}
				alts = crossAlts(alts, callee)
				return false
			}
			ast.Inspect(x.Fun, func(m ast.Node) bool { return true })
			return false
		}
		return true
	})
	return alts
}

func crossAlts(a, b [][]string) [][]string {
	var out [][]string
	seen := map[string]bool{}
	for _, x := range a {
		for _, y := range b {
			s := append(append([]string{}, x...), y...)
			if k := fmt.Sprint(s); !seen[k] {
				seen[k] = true
				out = append(out, s)
			}
		}
	}
	return out
}

func (in *acqInterp) bind(lhs []ast.Expr, rhs []ast.Expr, define bool) {
	if len(lhs) != len(rhs) {
		return
	}
	newv := make([][]*ast.FuncLit, len(lhs))
	isfn := make([]bool, len(lhs))
	for i, r := range rhs {
		switch x := r.(type) {
		case *ast.FuncLit:
			newv[i], isfn[i] = []*ast.FuncLit{x}, true
		case *ast.Ident:
			if l, ok := in.env[x.Name]; ok {
				newv[i], isfn[i] = l, true
			}
		case *ast.SelectorExpr:
			if id, ok := lhs[i].(*ast.Ident); ok && define {
				if r, ok := x.X.(*ast.Ident); ok && r.Name == "self" {
					in.alias[id.Name] = x.Sel.Name
				}
			}
		}
	}
	for i, l := range lhs {
		if id, ok := l.(*ast.Ident); ok && isfn[i] {
			in.env[id.Name] = newv[i]
		}
	}
}

func copyEnv(e map[string][]*ast.FuncLit) map[string][]*ast.FuncLit {
	o := map[string][]*ast.FuncLit{}
	for k, v := range e {
		o[k] = append([]*ast.FuncLit{}, v...)
	}
	return o
}

func mergeEnv(a, b map[string][]*ast.FuncLit) map[string][]*ast.FuncLit {
	o := copyEnv(a)
	for k, v := range b {
		for _, f := range v {
			dup := false
			for _, g := range o[k] {
				if g == f {
					dup = true
				}
			}
			if !dup {
				o[k] = append(o[k], f)
			}
		}
	}
	return o
}

func (in *acqInterp) block(stmts []ast.Stmt, paths []acqPath) []acqPath {
	for _, st := range stmts {
		paths = in.stmt(st, paths)
	}
	return paths
}

func (in *acqInterp) stmt(st ast.Stmt, paths []acqPath) []acqPath {
	switch x := st.(type) {
	case *ast.BlockStmt:
		return in.block(x.List, paths)
	case *ast.AssignStmt:
		for _, r := range x.Rhs {
			paths = extend(paths, in.exprAlts(r))
		}
		in.bind(x.Lhs, x.Rhs, x.Tok == token.DEFINE)
		return paths
	case *ast.DeclStmt:
		return paths
	case *ast.ExprStmt:
		return extend(paths, in.exprAlts(x.X))
	case *ast.ReturnStmt:
		for _, r := range x.Results {
			paths = extend(paths, in.exprAlts(r))
		}
		for i := range paths {
			paths[i].done = true
		}
		return paths
	case *ast.IfStmt:
		if x.Init != nil {
			paths = in.stmt(x.Init, paths)
		}
		paths = extend(paths, in.exprAlts(x.Cond))
		env0 := copyEnv(in.env)
		thenP := in.block(x.Body.List, append([]acqPath{}, paths...))
		envT := in.env
		in.env = copyEnv(env0)
		elseP := append([]acqPath{}, paths...)
		if x.Else != nil {
			elseP = in.stmt(x.Else, elseP)
		}
		in.env = mergeEnv(envT, in.env)
		return dedupPaths(append(thenP, elseP...))
	case *ast.ForStmt:
		env0 := copyEnv(in.env)
		once := in.block(x.Body.List, append([]acqPath{}, paths...))
		in.env = mergeEnv(env0, in.env)
		return dedupPaths(append(once, paths...))
	case *ast.RangeStmt:
		env0 := copyEnv(in.env)
		once := in.block(x.Body.List, append([]acqPath{}, paths...))
		in.env = mergeEnv(env0, in.env)
		return dedupPaths(append(once, paths...))
	case *ast.SwitchStmt:
		var out []acqPath
		env0 := copyEnv(in.env)
		envAll := copyEnv(env0)
		for _, cc := range x.Body.List {
			in.env = copyEnv(env0)
			out = append(out, in.block(cc.(*ast.CaseClause).Body, append([]acqPath{}, paths...))...)
			envAll = mergeEnv(envAll, in.env)
		}
		in.env = envAll
		return dedupPaths(append(out, paths...))
	case *ast.DeferStmt, *ast.GoStmt:
		return paths // releases / other goroutines
	}
	return paths
}

func init() {
	addFact(fact{
		name:   "localAcquireOrders",
		leanTy: "List (List String)",
		deflt:  `[]`,
		extract: func(repo string) (string, interface{}, error) {
			fset, f, err := parseFile(repo, "martian/core/jobmanager_local.go")
			if err != nil {
				return "", nil, err
			}
			fd := findMethod(f, "LocalJobManager", "Enqueue")
			if fd == nil || fd.Body == nil {
				return "", nil, fmt.Errorf("LocalJobManager.Enqueue not found")
			}
			in := &acqInterp{fset: fset, alias: map[string]string{}, env: map[string][]*ast.FuncLit{}}
			// Enqueue binds the job goroutine's body to a local (`enc := func() {…}`) and starts it
			// with `go enc()` / time.AfterFunc(…, enc): interpret the statements, then every bound literal
			in.block(fd.Body.List, []acqPath{{}})
			var orders [][]string
			seen := map[string]bool{}
			add := func(ps []acqPath) {
				for _, p := range ps {
					if k := fmt.Sprint(p.seq); !seen[k] {
						seen[k] = true
						orders = append(orders, p.seq)
					}
				}
			}
			var names []string
			for n := range in.env {
				names = append(names, n)
			}
			if len(names) == 0 {
				return "", nil, fmt.Errorf("no function literal bound in Enqueue")
			}
			sortStrings(names)
			for _, n := range names {
				for _, fl := range in.env[n] {
					add(in.block(fl.Body.List, []acqPath{{}}))
				}
			}
			if in.err != nil {
				return "", nil, in.err
			}
			var nonEmpty [][]string
			for _, o := range orders {
				if len(o) > 0 {
					nonEmpty = append(nonEmpty, o)
				}
			}
			if len(nonEmpty) == 0 {
				return "", nil, fmt.Errorf("no Acquire calls found on any path of Enqueue")
			}
			sortOrders(nonEmpty)
			parts := make([]string, len(nonEmpty))
			for i, o := range nonEmpty {
				parts[i] = leanStrList(o)
			}
			s := "["
			for i, p := range parts {
				if i > 0 {
					s += ", "
				}
				s += p
			}
			return s + "]", nonEmpty, nil
		},
	})
}

func sortStrings(a []string) {
	for i := 1; i < len(a); i++ {
		for j := i; j > 0 && a[j] < a[j-1]; j-- {
			a[j], a[j-1] = a[j-1], a[j]
		}
	}
}

func sortOrders(a [][]string) {
	less := func(x, y []string) bool { return fmt.Sprint(x) < fmt.Sprint(y) }
	for i := 1; i < len(a); i++ {
		for j := i; j > 0 && less(a[j], a[j-1]); j-- {
			a[j], a[j-1] = a[j-1], a[j]
		}
	}
}
