package main

import (
	"fmt"
	"go/ast"
	"go/token"
	"strconv"
)

// C12 facts from martian/core/jobmanager_local.go:
//
//	localProcsPerJob   — const procsPerJob
//	localAcquireOrder  — the semaphores on which Enqueue calls Acquire, in
//	                     source order (every job takes them in this one order,
//	                     the precondition for deadlock freedom of the nesting)
func init() {
	addFact(fact{
		name:   "localProcsPerJob",
		leanTy: "Int",
		deflt:  "15",
		extract: func(repo string) (string, interface{}, error) {
			_, f, err := parseFile(repo, "martian/core/jobmanager_local.go")
			if err != nil {
				return "", nil, err
			}
			for _, d := range f.Decls {
				gd, ok := d.(*ast.GenDecl)
				if !ok || gd.Tok != token.CONST {
					continue
				}
				for _, sp := range gd.Specs {
					vs := sp.(*ast.ValueSpec)
					for i, n := range vs.Names {
						if n.Name == "procsPerJob" && i < len(vs.Values) {
							bl, ok := vs.Values[i].(*ast.BasicLit)
							if !ok || bl.Kind != token.INT {
								return "", nil, fmt.Errorf("procsPerJob is not an integer literal")
							}
							v, err := strconv.ParseInt(bl.Value, 0, 64)
							if err != nil {
								return "", nil, err
							}
							return strconv.FormatInt(v, 10), v, nil
						}
					}
				}
			}
			return "", nil, fmt.Errorf("const procsPerJob not found")
		},
	})
	addFact(fact{
		name:   "localAcquireOrder",
		leanTy: "List String",
		deflt:  `["centcoreSem", "memMBSem", "vmemMBSem", "procsSem"]`,
		extract: func(repo string) (string, interface{}, error) {
			_, f, err := parseFile(repo, "martian/core/jobmanager_local.go")
			if err != nil {
				return "", nil, err
			}
			fd := findMethod(f, "LocalJobManager", "Enqueue")
			if fd == nil {
				return "", nil, fmt.Errorf("LocalJobManager.Enqueue not found")
			}
			alias := map[string]string{} // local ident := self.<field>
			var order []string
			var bad error
			ast.Inspect(fd.Body, func(n ast.Node) bool {
				switch x := n.(type) {
				case *ast.AssignStmt:
					if x.Tok == token.DEFINE && len(x.Lhs) == 1 && len(x.Rhs) == 1 {
						if id, ok := x.Lhs[0].(*ast.Ident); ok {
							if se, ok := x.Rhs[0].(*ast.SelectorExpr); ok {
								if r, ok := se.X.(*ast.Ident); ok && r.Name == "self" {
									alias[id.Name] = se.Sel.Name
								}
							}
						}
					}
				case *ast.CallExpr:
					se, ok := x.Fun.(*ast.SelectorExpr)
					if !ok || se.Sel.Name != "Acquire" {
						return true
					}
					switch rx := se.X.(type) {
					case *ast.SelectorExpr:
						order = append(order, rx.Sel.Name)
					case *ast.Ident:
						if a, ok := alias[rx.Name]; ok {
							order = append(order, a)
						} else {
							bad = fmt.Errorf("Acquire on unknown receiver %s", rx.Name)
						}
					default:
						bad = fmt.Errorf("Acquire on an unrecognised receiver expression")
					}
				}
				return true
			})
			if bad != nil {
				return "", nil, bad
			}
			if len(order) == 0 {
				return "", nil, fmt.Errorf("no Acquire calls found in Enqueue")
			}
			return leanStrList(order), order, nil
		},
	})
}

// C12 facts about LocalJobManager.refreshResources (the availability-update path):
//
//	refreshTreeCall          — the arguments of its GetProcessTreeMemory call, as source text
//	refreshTreeIncludesParent — the includeParent literal of that call
//	refreshUpdateArgs        — (semaphore field, method, argument expressions) of every
//	                           Update* call on a semaphore, in source order
func init() {
	find := func(repo string) (*token.FileSet, *ast.FuncDecl, error) {
		fset, f, err := parseFile(repo, "martian/core/jobmanager_local.go")
		if err != nil {
			return nil, nil, err
		}
		fd := findMethod(f, "LocalJobManager", "refreshResources")
		if fd == nil || fd.Body == nil {
			return nil, nil, fmt.Errorf("LocalJobManager.refreshResources not found")
		}
		return fset, fd, nil
	}
	treeCall := func(repo string) ([]string, error) {
		fset, fd, err := find(repo)
		if err != nil {
			return nil, err
		}
		var calls [][]string
		ast.Inspect(fd.Body, func(n ast.Node) bool {
			if c, ok := n.(*ast.CallExpr); ok && exprText(fset, c.Fun) == "GetProcessTreeMemory" {
				var a []string
				for _, e := range c.Args {
					a = append(a, exprText(fset, e))
				}
				calls = append(calls, a)
			}
			return true
		})
		if len(calls) != 1 || len(calls[0]) != 3 {
			return nil, fmt.Errorf("expected exactly one GetProcessTreeMemory(pid, includeParent, io) call in refreshResources, found %d", len(calls))
		}
		return calls[0], nil
	}
	addFact(fact{
		name:   "refreshTreeCall",
		leanTy: "List String",
		deflt:  `["os.Getpid()", "false", "nil"]`,
		extract: func(repo string) (string, interface{}, error) {
			a, err := treeCall(repo)
			if err != nil {
				return "", nil, err
			}
			return leanStrList(a), a, nil
		},
	})
	addFact(fact{
		name:   "refreshTreeIncludesParent",
		leanTy: "Bool",
		deflt:  "false",
		extract: func(repo string) (string, interface{}, error) {
			a, err := treeCall(repo)
			if err != nil {
				return "", nil, err
			}
			switch a[1] {
			case "true":
				return "true", true, nil
			case "false":
				return "false", false, nil
			}
			return "", nil, fmt.Errorf("includeParent is not a literal: %s", a[1])
		},
	})
	addFact(fact{
		name:   "refreshUpdateArgs",
		leanTy: "List (String × String × List String)",
		deflt: `[("memMBSem", "UpdateFreeUsed", ["(sysMem.ActualFree + 1024*1024 - 1) / (1024 * 1024)", "(usedMem.Rss + 1024*1024 - 1) / (1024 * 1024)"]), ` +
			`("vmemMBSem", "UpdateActual", ["self.maxVmemMB - usedMem.Vmem/(1024*1024)"]), ` +
			`("centcoreSem", "UpdateActual", ["int64((float64(runtime.NumCPU()) - load.One + 0.9) * 100)"]), ` +
			`("procsSem", "UpdateFreeUsed", ["rlimCur(rlim) - int64(userProcs)", "int64(usedMem.Procs) + startingThreadCount"])]`,
		extract: func(repo string) (string, interface{}, error) {
			fset, fd, err := find(repo)
			if err != nil {
				return "", nil, err
			}
			var parts []string
			var js [][]interface{}
			ast.Inspect(fd.Body, func(n ast.Node) bool {
				c, ok := n.(*ast.CallExpr)
				if !ok {
					return true
				}
				se, ok := c.Fun.(*ast.SelectorExpr)
				if !ok || len(se.Sel.Name) < 6 || se.Sel.Name[:6] != "Update" {
					return true
				}
				rx, ok := se.X.(*ast.SelectorExpr)
				if !ok {
					return true
				}
				var a []string
				for _, e := range c.Args {
					a = append(a, exprText(fset, e))
				}
				parts = append(parts, fmt.Sprintf("(%s, %s, %s)", leanStr(rx.Sel.Name), leanStr(se.Sel.Name), leanStrList(a)))
				js = append(js, []interface{}{rx.Sel.Name, se.Sel.Name, a})
				return true
			})
			if len(parts) == 0 {
				return "", nil, fmt.Errorf("no Update* calls found in refreshResources")
			}
			s := "["
			for i, p := range parts {
				if i > 0 {
					s += ", "
				}
				s += p
			}
			return s + "]", js, nil
		},
	})
}
