package main

import (
	"fmt"
	"go/ast"
)

// c15SelfCompare: in (*Modifiers).EquivalentTo (martian/syntax/equivalence.go)
// the binding that the receiver's `disabled` binding is compared with is read
// by `ob := X.Bindings.Table[disabled]`.  The fact is `true` when X is the
// receiver itself (the comparison is then vacuous, defect F11) and `false`
// when X is the method's parameter.
func init() {
	addFact(fact{
		name:   "c15SelfCompare",
		leanTy: "Bool",
		deflt:  "false",
		extract: func(repo string) (string, interface{}, error) {
			_, f, err := parseFile(repo, "martian/syntax/equivalence.go")
			if err != nil {
				return "", nil, err
			}
			fd := findMethod(f, "Modifiers", "EquivalentTo")
			if fd == nil || len(fd.Recv.List[0].Names) != 1 || fd.Type.Params == nil ||
				len(fd.Type.Params.List) != 1 || len(fd.Type.Params.List[0].Names) != 1 {
				return "", nil, fmt.Errorf("(*Modifiers).EquivalentTo(other) not found")
			}
			recv := fd.Recv.List[0].Names[0].Name
			param := fd.Type.Params.List[0].Names[0].Name
			// all `<lhs> := <X>.Bindings.Table[disabled]` short declarations
			type site struct{ lhs, x string }
			var sites []site
			ast.Inspect(fd.Body, func(n ast.Node) bool {
				as, ok := n.(*ast.AssignStmt)
				if !ok || len(as.Lhs) != 1 || len(as.Rhs) != 1 {
					return true
				}
				lhs, ok := as.Lhs[0].(*ast.Ident)
				if !ok {
					return true
				}
				ix, ok := as.Rhs[0].(*ast.IndexExpr)
				if !ok {
					return true
				}
				if id, ok := ix.Index.(*ast.Ident); !ok || id.Name != "disabled" {
					return true
				}
				sel, ok := ix.X.(*ast.SelectorExpr) // X.Bindings.Table
				if !ok || sel.Sel.Name != "Table" {
					return true
				}
				sel2, ok := sel.X.(*ast.SelectorExpr)
				if !ok || sel2.Sel.Name != "Bindings" {
					return true
				}
				x, ok := sel2.X.(*ast.Ident)
				if !ok {
					return true
				}
				sites = append(sites, site{lhs.Name, x.Name})
				return true
			})
			// expected shape: b := <recv>…; ob := <param or recv>…
			var first, second *site
			for i := range sites {
				if sites[i].x == recv && first == nil {
					first = &sites[i]
				} else if first != nil && second == nil {
					second = &sites[i]
				}
			}
			if first == nil || second == nil {
				return "", nil, fmt.Errorf("pattern `b := %s.Bindings.Table[disabled]` … `ob := X.Bindings.Table[disabled]` not found (%v)", recv, sites)
			}
			js := map[string]string{"receiver": recv, "parameter": param, "second_lookup_reads": second.x}
			switch second.x {
			case recv:
				return "true", js, nil
			case param:
				return "false", js, nil
			}
			return "", nil, fmt.Errorf("second disabled lookup reads %q, neither receiver nor parameter", second.x)
		},
	})
}

// c15RegisterFirst: in (*Pipestance).Lock (martian/core/pipestance.go) is
// util.RegisterSignalHandler(self) called BEFORE the statement that returns
// PipestanceLockedError when the lock file exists?  (Then an attacher that was
// refused stays registered and its HandleSignal removes the holder's lock.)
func init() {
	addFact(fact{
		name:   "c15RegisterFirst",
		leanTy: "Bool",
		deflt:  "false",
		extract: func(repo string) (string, interface{}, error) {
			_, f, err := parseFile(repo, "martian/core/pipestance.go")
			if err != nil {
				return "", nil, err
			}
			fd := findMethod(f, "Pipestance", "Lock")
			if fd == nil {
				return "", nil, fmt.Errorf("(*Pipestance).Lock not found")
			}
			reg, chk := -1, -1
			for i, st := range fd.Body.List {
				ast.Inspect(st, func(n ast.Node) bool {
					switch n := n.(type) {
					case *ast.CallExpr:
						if sel, ok := n.Fun.(*ast.SelectorExpr); ok && sel.Sel.Name == "RegisterSignalHandler" && reg < 0 {
							reg = i
						}
					case *ast.CompositeLit:
						if id, ok := n.Type.(*ast.Ident); ok && id.Name == "PipestanceLockedError" && chk < 0 {
							chk = i
						}
					}
					return true
				})
			}
			if reg < 0 || chk < 0 {
				return "", nil, fmt.Errorf("RegisterSignalHandler call (%d) or PipestanceLockedError return (%d) not found in Lock", reg, chk)
			}
			js := map[string]int{"register_statement": reg, "locked_error_statement": chk}
			if reg <= chk {
				return "true", js, nil
			}
			return "false", js, nil
		},
	})
}

// c15LockExclusive: (*Pipestance).Lock creates the lock file with an
// os.OpenFile call whose flag argument contains both os.O_CREATE and os.O_EXCL
// (atomic test-and-set by the OS).  False when no such call exists (e.g. the
// lock is written with os.WriteFile after an existence check).
func init() {
	addFact(fact{
		name:   "c15LockExclusive",
		leanTy: "Bool",
		deflt:  "true",
		extract: func(repo string) (string, interface{}, error) {
			fset, f, err := parseFile(repo, "martian/core/pipestance.go")
			if err != nil {
				return "", nil, err
			}
			_ = fset
			fd := findMethod(f, "Pipestance", "Lock")
			if fd == nil {
				return "", nil, fmt.Errorf("(*Pipestance).Lock not found")
			}
			found, excl := false, false
			var flags []string
			ast.Inspect(fd.Body, func(n ast.Node) bool {
				call, ok := n.(*ast.CallExpr)
				if !ok {
					return true
				}
				sel, ok := call.Fun.(*ast.SelectorExpr)
				if !ok || sel.Sel.Name != "OpenFile" || len(call.Args) < 2 {
					return true
				}
				if pk, ok := sel.X.(*ast.Ident); !ok || pk.Name != "os" {
					return true
				}
				found = true
				flags = nil
				ast.Inspect(call.Args[1], func(m ast.Node) bool {
					if s, ok := m.(*ast.SelectorExpr); ok {
						flags = append(flags, s.Sel.Name)
					}
					return true
				})
				hasC, hasX := false, false
				for _, fl := range flags {
					hasC = hasC || fl == "O_CREATE"
					hasX = hasX || fl == "O_EXCL"
				}
				excl = excl || (hasC && hasX)
				return true
			})
			js := map[string]interface{}{"os.OpenFile_in_Lock": found, "flags": flags}
			if found && excl {
				return "true", js, nil
			}
			return "false", js, nil
		},
	})
}

// c15LockCreateErrorIgnored: in (*Pipestance).Lock, when the exclusive create of the lock file
// fails with an error OTHER than "exists", the function logs the error and goes on (registers the
// signal handler, writes the file non-exclusively, returns nil) instead of returning the error.
// Pattern: the `if f, err := os.OpenFile(...); err == nil { } else if os.IsExist(err) { } else { }`
// chain; `false` iff its final else block contains a return statement whose result is not the
// identifier nil; `true` when there is no final else or it does not return an error.
func init() {
	addFact(fact{
		name:   "c15LockCreateErrorIgnored",
		leanTy: "Bool",
		deflt:  "true",
		extract: func(repo string) (string, interface{}, error) {
			_, f, err := parseFile(repo, "martian/core/pipestance.go")
			if err != nil {
				return "", nil, err
			}
			fd := findMethod(f, "Pipestance", "Lock")
			if fd == nil || fd.Body == nil {
				return "", nil, fmt.Errorf("(*Pipestance).Lock not found")
			}
			isOpenFile := func(st ast.Stmt) bool {
				as, ok := st.(*ast.AssignStmt)
				if !ok || len(as.Rhs) != 1 {
					return false
				}
				ce, ok := as.Rhs[0].(*ast.CallExpr)
				if !ok {
					return false
				}
				sel, ok := ce.Fun.(*ast.SelectorExpr)
				return ok && sel.Sel.Name == "OpenFile"
			}
			for _, st := range fd.Body.List {
				is, ok := st.(*ast.IfStmt)
				if !ok || is.Init == nil || !isOpenFile(is.Init) {
					continue
				}
				// walk to the end of the else-if chain
				depth := 0
				cur := is
				for {
					next, ok := cur.Else.(*ast.IfStmt)
					if !ok {
						break
					}
					cur = next
					depth++
				}
				js := map[string]interface{}{"else_if_branches": depth}
				blk, ok := cur.Else.(*ast.BlockStmt)
				if !ok {
					js["final_else"] = false
					return "true", js, nil
				}
				returnsErr := false
				for _, x := range blk.List {
					if rs, ok := x.(*ast.ReturnStmt); ok && len(rs.Results) == 1 {
						if id, ok := rs.Results[0].(*ast.Ident); !ok || id.Name != "nil" {
							returnsErr = true
						}
					}
				}
				js["final_else"] = true
				js["final_else_returns_error"] = returnsErr
				if returnsErr {
					return "false", js, nil
				}
				return "true", js, nil
			}
			return "", nil, fmt.Errorf("the os.OpenFile if-chain was not found in (*Pipestance).Lock")
		},
	})
}

// c15StructsCompared: (*Ast).EquivalentCall (martian/syntax/equivalence.go) runs,
// after the call comparison, the second pass `structComparer{...}.call(...)`
// which compares the DEFINITIONS of the struct types used by the compared
// parameters (repair of F20), and returns false when that pass fails.  The
// fact is `true` when the function contains a composite literal of type
// `structComparer` and a call of its method `call` inside the condition of an
// `if` whose body returns false; `false` when the function exists without it.
func init() {
	addFact(fact{
		name:   "c15StructsCompared",
		leanTy: "Bool",
		deflt:  "true",
		extract: func(repo string) (string, interface{}, error) {
			_, f, err := parseFile(repo, "martian/syntax/equivalence.go")
			if err != nil {
				return "", nil, err
			}
			fd := findMethod(f, "Ast", "EquivalentCall")
			if fd == nil || fd.Body == nil {
				return "", nil, fmt.Errorf("(*Ast).EquivalentCall not found")
			}
			comparers := map[string]bool{}
			ast.Inspect(fd.Body, func(n ast.Node) bool {
				as, ok := n.(*ast.AssignStmt)
				if !ok || len(as.Lhs) != 1 || len(as.Rhs) != 1 {
					return true
				}
				lhs, ok := as.Lhs[0].(*ast.Ident)
				if !ok {
					return true
				}
				if cl, ok := as.Rhs[0].(*ast.CompositeLit); ok {
					if id, ok := cl.Type.(*ast.Ident); ok && id.Name == "structComparer" {
						comparers[lhs.Name] = true
					}
				}
				return true
			})
			guarded := false
			ast.Inspect(fd.Body, func(n ast.Node) bool {
				is, ok := n.(*ast.IfStmt)
				if !ok {
					return true
				}
				un, ok := is.Cond.(*ast.UnaryExpr)
				if !ok || un.Op.String() != "!" {
					return true
				}
				ce, ok := un.X.(*ast.CallExpr)
				if !ok {
					return true
				}
				sel, ok := ce.Fun.(*ast.SelectorExpr)
				if !ok || sel.Sel.Name != "call" {
					return true
				}
				if x, ok := sel.X.(*ast.Ident); !ok || !comparers[x.Name] {
					return true
				}
				// the body must return false
				for _, st := range is.Body.List {
					if rs, ok := st.(*ast.ReturnStmt); ok && len(rs.Results) == 1 {
						if id, ok := rs.Results[0].(*ast.Ident); ok && id.Name == "false" {
							guarded = true
						}
					}
				}
				return true
			})
			if guarded {
				return "true", map[string]interface{}{"second_pass": "structComparer.call guards the verdict"}, nil
			}
			return "false", map[string]interface{}{"second_pass": "absent"}, nil
		},
	})
}

// c15RefusedStartRemovesDir: in (*Runtime).InvokePipeline (martian/core/runtime.go) the error
// branch right after the call of `instantiatePipeline` — where a start arrives that lost the
// race for the lock (PipestanceLockedError) or failed even earlier (parse / compile / call-graph
// error) — removes the pipestance directory although this call does not own it.  `false` only
// when every `os.RemoveAll` / `os.Remove` of that branch sits under a condition `<p> != nil`,
// `<p>` being the pipestance returned by instantiatePipeline (non-nil exactly when this call took
// the lock); `true` when one is unconditional, guarded by anything else, or in an else branch
// (removing even the still-empty folder makes a concurrent starter's lock-file create fail with
// ENOENT, which Lock() logs and ignores).
func init() {
	addFact(fact{
		name:   "c15RefusedStartRemovesDir",
		leanTy: "Bool",
		deflt:  "false",
		extract: func(repo string) (string, interface{}, error) {
			_, f, err := parseFile(repo, "martian/core/runtime.go")
			if err != nil {
				return "", nil, err
			}
			fd := findMethod(f, "Runtime", "InvokePipeline")
			if fd == nil || fd.Body == nil {
				return "", nil, fmt.Errorf("(*Runtime).InvokePipeline not found")
			}
			isRemoveAll := func(st ast.Stmt) bool {
				es, ok := st.(*ast.ExprStmt)
				if !ok {
					return false
				}
				ce, ok := es.X.(*ast.CallExpr)
				if !ok {
					return false
				}
				sel, ok := ce.Fun.(*ast.SelectorExpr)
				return ok && (sel.Sel.Name == "RemoveAll" || sel.Sel.Name == "Remove")
			}
			for i, st := range fd.Body.List {
				as, ok := st.(*ast.AssignStmt)
				if !ok || len(as.Rhs) != 1 || len(as.Lhs) != 4 {
					continue
				}
				ce, ok := as.Rhs[0].(*ast.CallExpr)
				if !ok {
					continue
				}
				sel, ok := ce.Fun.(*ast.SelectorExpr)
				if !ok || sel.Sel.Name != "instantiatePipeline" {
					continue
				}
				pid, ok := as.Lhs[2].(*ast.Ident)
				if !ok || i+1 >= len(fd.Body.List) {
					break
				}
				is, ok := fd.Body.List[i+1].(*ast.IfStmt)
				if !ok {
					break
				}
				// guardedByOwner(stmt): stmt is `if <pid> != nil { ... }` (else branches are not the guard)
				unguarded, guarded := 0, 0
				var walk func(b *ast.BlockStmt, owned bool)
				walk = func(b *ast.BlockStmt, owned bool) {
					for _, x := range b.List {
						if isRemoveAll(x) {
							if owned {
								guarded++
							} else {
								unguarded++
							}
						}
						if inner, ok := x.(*ast.IfStmt); ok {
							own := false
							if be, ok := inner.Cond.(*ast.BinaryExpr); ok && be.Op.String() == "!=" {
								if id, ok := be.X.(*ast.Ident); ok && id.Name == pid.Name {
									if n, ok := be.Y.(*ast.Ident); ok && n.Name == "nil" {
										own = true
									}
								}
							}
							walk(inner.Body, owned || own)
							if eb, ok := inner.Else.(*ast.BlockStmt); ok {
								walk(eb, owned)
							}
						}
					}
				}
				walk(is.Body, false)
				js := map[string]interface{}{"remove_all_not_under_ownership_guard": unguarded, "remove_all_under_ownership_guard": guarded}
				if unguarded > 0 {
					return "true", js, nil
				}
				return "false", js, nil
			}
			return "", nil, fmt.Errorf("error branch after instantiatePipeline not found in InvokePipeline")
		},
	})
}
