package main

// Go → Lean translator for a deliberately small, pure subset of Go (see
// TRANSLATOR.md).  For every target (translate_targets.go) the function, or a
// fragment of it, is re-read from the working tree on every run and emitted as
// the fact `Gen.tr_<name>` – a closed Lean term `fun … => …` over core Lean
// only.  Props/<ID>Tie.lean proves that term equal to the hand-written model,
// so a semantic change of the Go code changes the regenerated definition and
// the tie theorem stops checking.  Anything outside the subset is an
// extraction error: the committed default is emitted and ./check notes it.
//
// Representation: Go integers of every width → `Int` (no wrap-around: none of
// the tied properties is about overflow), byte → `UInt8` (wraps like Go),
// bool → `Bool`, string / []byte → `List UInt8` or `List Char` (per target),
// named constants (MetadataState, …) → `String` (the identifier).  Everything
// the function reads from outside itself – receiver fields, method calls,
// library functions that are not built in – is a parameter of the term, matched
// by the Go expression's text.

import (
	"fmt"
	"go/ast"
	"go/token"
	"strconv"
	"strings"
)

type trTy int

const (
	tyUnknown trTy = iota // untyped constant / not yet known
	tyInt
	tyByte
	tyBool
	tyStr
	tyName
	tyFunc
	tyTuple
	tyErr     // Go `error`: nil ↦ none, fmt.Errorf("literal") ↦ some "literal"
	tyOpaque  // result of an effect call (file handle, error): only usable through a parameter matched by text
	tyTrace   // the trace of modelled effects (translate_effects.go)
	tyRecList // parameter: a list of records of which the function reads the listed fields
	tyRec     // loop variable over such a list
)

type trParam struct {
	lean   string // binder name in the Lean term
	goText string // Go expression (whitespace-normalised go/printer text) it stands for
	leanTy string
	ty     trTy // type of the expression (for functions: of the result)
	isFunc bool
	// isState: a receiver field the function also ASSIGNS (`self.hasBeenRun = true`): a variable of the
	// term whose initial value is this parameter; delivered through `voidOuts`
	isState bool
	// fields of the records of a tyRecList parameter, in the order of the components of the Lean tuple
	fields []trField
}

type trField struct {
	name string
	ty   trTy
}

type trTarget struct {
	name       string // fact Gen.tr_<name>
	file       string
	recv, fn   string
	from, to   string // fragment: first statement starting with `from` … the sibling starting with `to` (""=just that one); both "" = whole body
	params     []trParam
	goParams   bool     // whole function: the Go parameters follow `params` as binders
	outs       []string // fragment: Go variables delivered, in this order
	leanTy     string
	strElem    string   // "UInt8" (default) or "Char"
	dropCalls  []string // effects to ignore (call text prefixes), besides logging
	nameConsts []string // identifiers that are named constants (→ their name as a String)
	autoNames  bool     // every identifier that is not a variable is a named constant
	intConsts  map[string]int64
	strConsts  map[string]string // identifiers / selectors that are string constants
	rangeBytes bool              // `for _, c := range <string>` reads bytes (sound when c is only compared with ASCII constants)
	retLean    string            // Lean type of the result (needed for loops with early return)
	recFuel    bool              // self-recursive: emitted with an explicit fuel parameter (Nat.rec)
	resTy      trTy              // result type of a recursive function
	resLean    string            // … and its Lean type, e.g. "Int → Int" for the function after fuel
	doc        string
	deflt      string
	// modelled effects (translate_effects.go)
	traceTy   string     // "" / "events" (List String) / "bytes" (List elem): type of the trace
	effects   []trEffect // calls that append to the trace
	skipArgs  []string   // arguments (text) of a writeFn effect that are not passed on (the writer itself)
	dropStmts []string   // statements (text prefixes) that are ignored like logging
	void      bool       // function without result: every `return` and the end deliver (trace, voidOuts…)
	voidOuts  []string   // … these variables (Lean names of isState parameters / Go locals)
}

type trCtx struct {
	t     *trTarget
	fset  *token.FileSet
	vars  map[string]trTy
	depth map[string]int // block depth at which a variable was declared
	cur   int
	self  string // name of the function (recursion)

	inAbstract bool                    // inside the arguments of an abstracted function (float conversions allowed)
	loopRet    func(val string) string // inside a loop with early return: how `return val` is delivered

	allowLoopReturn bool
	strVars         map[string]bool // Go variables of type `string` (range yields runes)

	assignCount map[string]int         // how often a Go variable has been assigned so far (text-matched parameters)
	opaqueFrom  map[string]string      // opaque variable ↦ the effect / call it is a result of
	allowBreak  bool                   // while the state of a loop is computed: `break` is not an error
	loopBreak   func() (string, error) // inside a loop with `break`: the state with the flag set
	recOf       map[string]*trParam    // loop variables over a tyRecList parameter
}

var leanReserved = map[string]bool{"at": true, "end": true, "from": true, "have": true, "show": true, "then": true, "else": true,
	"fun": true, "let": true, "in": true, "do": true, "match": true, "with": true, "open": true, "def": true, "Type": true,
	"max": true, "min": true, "name": true, "test": true, "parent": true, "id": true, "some": true, "none": true, "instance": true, "where": true,
	"variable": true, "section": true, "namespace": true, "import": true, "by": true, "if": true, "for": true, "return": true, "mut": true}

func leanIdent(s string) string {
	if leanReserved[s] {
		return s + "_"
	}
	return s
}

func trErr(format string, a ...interface{}) error { return fmt.Errorf("translate: "+format, a...) }

func (c *trCtx) elem() string {
	if c.t.strElem == "" {
		return "UInt8"
	}
	return c.t.strElem
}

func (c *trCtx) strLit(s string) string {
	parts := make([]string, 0, len(s))
	for i := 0; i < len(s); i++ {
		if c.elem() == "Char" {
			parts = append(parts, fmt.Sprintf("Char.ofNat %d", s[i]))
		} else {
			parts = append(parts, fmt.Sprintf("0x%02X", s[i]))
		}
	}
	return "([" + strings.Join(parts, ", ") + "] : List " + c.elem() + ")"
}

func (c *trCtx) param(text string) *trParam {
	for i := range c.t.params {
		if c.t.params[i].goText == text {
			return &c.t.params[i]
		}
	}
	return nil
}

func intLit(v int64, ty trTy) (string, trTy) {
	if ty == tyByte {
		return fmt.Sprintf("(%d : UInt8)", v), tyByte
	}
	if v < 0 {
		return fmt.Sprintf("(%d : Int)", v), tyInt
	}
	return fmt.Sprintf("(%d : Int)", v), tyInt
}

// typeOf: the type of an expression without translating it (tyUnknown for
// untyped constants and for what only expr() can decide).
func (c *trCtx) typeOf(e ast.Expr) trTy {
	if p := c.param(exprText(c.fset, e)); p != nil {
		return p.ty
	}
	switch x := e.(type) {
	case *ast.ParenExpr:
		return c.typeOf(x.X)
	case *ast.BasicLit:
		if x.Kind == token.STRING {
			return tyStr
		}
		return tyUnknown
	case *ast.Ident:
		if x.Name == "true" || x.Name == "false" {
			return tyBool
		}
		if t, ok := c.vars[x.Name]; ok {
			return t
		}
		for _, n := range c.t.nameConsts {
			if n == x.Name {
				return tyName
			}
		}
		if _, ok := c.t.strConsts[x.Name]; ok {
			return tyStr
		}
		if c.t.autoNames {
			return tyName
		}
		return tyUnknown
	case *ast.UnaryExpr:
		if x.Op == token.NOT {
			return tyBool
		}
		return c.typeOf(x.X)
	case *ast.BinaryExpr:
		switch x.Op {
		case token.LAND, token.LOR, token.EQL, token.NEQ, token.LSS, token.LEQ, token.GTR, token.GEQ:
			return tyBool
		}
		if t := c.typeOf(x.X); t != tyUnknown {
			return t
		}
		return c.typeOf(x.Y)
	case *ast.IndexExpr:
		return tyByte
	case *ast.SliceExpr:
		return tyStr
	case *ast.SelectorExpr:
		if _, t, ok := c.recField(x); ok {
			return t
		}
		return tyUnknown
	case *ast.CallExpr:
		switch exprText(c.fset, x.Fun) {
		case "int", "int64", "int32", "rune", "len", "float64", "float32", "max", "min":
			return tyInt
		case "byte", "uint8":
			return tyByte
		case "string", "append", "[]byte":
			return tyStr
		case "strings.HasPrefix", "strings.HasSuffix":
			return tyBool
		}
		if p := c.param(exprText(c.fset, x.Fun)); p != nil {
			return p.ty
		}
		if exprText(c.fset, x.Fun) == c.self {
			return c.t.resTy
		}
	}
	return tyUnknown
}

func (c *trCtx) expr(e ast.Expr, want trTy) (string, trTy, error) {
	text := exprText(c.fset, e)
	if p := c.param(text); p != nil && !p.isFunc {
		if err := c.paramStillMeansTheSame(p, e); err != nil {
			return "", 0, err
		}
		return p.lean, p.ty, nil
	}
	switch x := e.(type) {
	case *ast.ParenExpr:
		return c.expr(x.X, want)
	case *ast.BasicLit:
		switch x.Kind {
		case token.INT:
			v, err := strconv.ParseInt(x.Value, 0, 64)
			if err != nil {
				return "", 0, trErr("integer literal %s", x.Value)
			}
			s, t := intLit(v, want)
			return s, t, nil
		case token.CHAR:
			r, _, _, err := strconv.UnquoteChar(x.Value[1:len(x.Value)-1], '\'')
			if err != nil {
				return "", 0, trErr("char literal %s", x.Value)
			}
			s, t := intLit(int64(r), want)
			return s, t, nil
		case token.STRING:
			s, err := strconv.Unquote(x.Value)
			if err != nil {
				return "", 0, trErr("string literal %s", x.Value)
			}
			return c.strLit(s), tyStr, nil
		}
		return "", 0, trErr("literal %s is outside the subset", x.Value)
	case *ast.Ident:
		switch x.Name {
		case "true", "false":
			return x.Name, tyBool, nil
		}
		if t, ok := c.vars[x.Name]; ok {
			if t == tyOpaque || t == tyRec || t == tyTrace {
				return "", 0, trErr("%s (result of an effect / a record) can only be used through a parameter of the target", x.Name)
			}
			return leanIdent(x.Name), t, nil
		}
		for _, n := range c.t.nameConsts {
			if n == x.Name {
				return strconv.Quote(x.Name), tyName, nil
			}
		}
		if v, ok := c.t.intConsts[x.Name]; ok {
			s, t := intLit(v, want)
			return s, t, nil
		}
		if v, ok := c.t.strConsts[x.Name]; ok {
			return c.strLit(v), tyStr, nil
		}
		if c.t.autoNames {
			return strconv.Quote(x.Name), tyName, nil
		}
		return "", 0, trErr("unbound identifier %s", x.Name)
	case *ast.SelectorExpr:
		if v, ok := c.t.intConsts[text]; ok {
			s, t := intLit(v, want)
			return s, t, nil
		}
		if s, t, ok := c.recField(x); ok {
			return s, t, nil
		}
		return "", 0, trErr("selector %s is not a parameter of the target", text)
	case *ast.UnaryExpr:
		switch x.Op {
		case token.SUB:
			s, t, err := c.expr(x.X, want)
			if err != nil {
				return "", 0, err
			}
			return "(-" + s + ")", t, nil
		case token.NOT:
			s, _, err := c.expr(x.X, tyBool)
			if err != nil {
				return "", 0, err
			}
			return "(!" + s + ")", tyBool, nil
		case token.ADD:
			return c.expr(x.X, want)
		}
		return "", 0, trErr("unary operator %s", x.Op)
	case *ast.BinaryExpr:
		return c.binary(x, want)
	case *ast.IndexExpr:
		s, st, err := c.expr(x.X, tyStr)
		if err != nil {
			return "", 0, err
		}
		if st != tyStr {
			return "", 0, trErr("index into %s which is not a string / []byte", text)
		}
		i, _, err := c.expr(x.Index, tyInt)
		if err != nil {
			return "", 0, err
		}
		dflt := "(0 : UInt8)"
		if c.elem() == "Char" {
			dflt = "(Char.ofNat 0)"
		}
		return fmt.Sprintf("(List.getD %s (Int.toNat %s) %s)", s, i, dflt), tyByte, nil
	case *ast.SliceExpr:
		if x.Slice3 {
			return "", 0, trErr("3-index slice")
		}
		s, st, err := c.expr(x.X, tyStr)
		if err != nil {
			return "", 0, err
		}
		if st != tyStr {
			return "", 0, trErr("slice of %s which is not a string / []byte", text)
		}
		lo := "(0 : Int)"
		if x.Low != nil {
			if lo, _, err = c.expr(x.Low, tyInt); err != nil {
				return "", 0, err
			}
		}
		if x.High == nil {
			return fmt.Sprintf("(List.drop (Int.toNat %s) %s)", lo, s), tyStr, nil
		}
		hi, _, err := c.expr(x.High, tyInt)
		if err != nil {
			return "", 0, err
		}
		return fmt.Sprintf("(List.take (Int.toNat (%s - %s)) (List.drop (Int.toNat %s) %s))", hi, lo, lo, s), tyStr, nil
	case *ast.CallExpr:
		return c.call(x, want)
	}
	return "", 0, trErr("expression %s (%T) is outside the subset", text, e)
}

func (c *trCtx) binary(x *ast.BinaryExpr, want trTy) (string, trTy, error) {
	switch x.Op {
	case token.LAND, token.LOR:
		a, _, err := c.expr(x.X, tyBool)
		if err != nil {
			return "", 0, err
		}
		b, _, err := c.expr(x.Y, tyBool)
		if err != nil {
			return "", 0, err
		}
		op := "&&"
		if x.Op == token.LOR {
			op = "||"
		}
		return "(" + a + " " + op + " " + b + ")", tyBool, nil
	}
	// operand type: whichever side has one; untyped constants follow
	ot := c.typeOf(x.X)
	if ot == tyUnknown {
		ot = c.typeOf(x.Y)
	}
	cmp := map[token.Token]string{token.LSS: "<", token.LEQ: "≤", token.GTR: ">", token.GEQ: "≥"}
	_, isCmp := cmp[x.Op]
	isEq := x.Op == token.EQL || x.Op == token.NEQ
	if ot == tyUnknown {
		if isCmp || isEq {
			ot = tyInt
		} else {
			ot = want
			if ot == tyUnknown || ot == tyBool {
				ot = tyInt
			}
		}
	}
	// a shift count is an integer whatever the shifted operand is
	yt := ot
	if x.Op == token.SHR || x.Op == token.SHL {
		if ot == tyByte {
			yt = tyByte
		}
	}
	a, at, err := c.expr(x.X, ot)
	if err != nil {
		return "", 0, err
	}
	b, bt, err := c.expr(x.Y, yt)
	if err != nil {
		return "", 0, err
	}
	if at != bt {
		return "", 0, trErr("operands of %s have different types in %s", x.Op, exprText(c.fset, x))
	}
	switch {
	case isEq:
		op := "=="
		if x.Op == token.NEQ {
			op = "!="
		}
		return "(" + a + " " + op + " " + b + ")", tyBool, nil
	case isCmp:
		if at != tyInt && at != tyByte {
			return "", 0, trErr("ordering of non-integers in %s", exprText(c.fset, x))
		}
		return "(decide (" + a + " " + cmp[x.Op] + " " + b + "))", tyBool, nil
	}
	switch at {
	case tyStr:
		if x.Op == token.ADD {
			return "(" + a + " ++ " + b + ")", tyStr, nil
		}
	case tyInt:
		switch x.Op {
		case token.ADD, token.SUB, token.MUL:
			return "(" + a + " " + x.Op.String() + " " + b + ")", tyInt, nil
		case token.QUO:
			return "(Int.tdiv " + a + " " + b + ")", tyInt, nil
		case token.REM:
			return "(Int.tmod " + a + " " + b + ")", tyInt, nil
		}
	case tyByte:
		switch x.Op {
		case token.ADD, token.SUB, token.MUL:
			return "(" + a + " " + x.Op.String() + " " + b + ")", tyByte, nil
		case token.SHR, token.SHL:
			// Lean's UInt8 shifts take the count mod 8, Go shifts everything out: only literal counts < 8
			lit, ok := x.Y.(*ast.BasicLit)
			if n, err := strconv.ParseInt(func() string {
				if ok {
					return lit.Value
				}
				return "x"
			}(), 0, 64); !ok || lit.Kind != token.INT || err != nil || n < 0 || n >= 8 {
				return "", 0, trErr("byte shift %s: the count must be an integer literal < 8", exprText(c.fset, x))
			}
			if x.Op == token.SHR {
				return "(" + a + " >>> " + b + ")", tyByte, nil
			}
			return "(" + a + " <<< " + b + ")", tyByte, nil
		case token.AND:
			return "(" + a + " &&& " + b + ")", tyByte, nil
		case token.OR:
			return "(" + a + " ||| " + b + ")", tyByte, nil
		}
	}
	return "", 0, trErr("operator %s on these operands is outside the subset (%s)", x.Op, exprText(c.fset, x))
}

func (c *trCtx) call(x *ast.CallExpr, want trTy) (string, trTy, error) {
	fn := exprText(c.fset, x.Fun)
	text := exprText(c.fset, x)
	args := x.Args
	switch fn {
	case "uint", "uint64", "uint32", "uint16", "uintptr":
		return "", 0, trErr("unsigned arithmetic (%s) is outside the subset: Int does not wrap around", text)
	case "int", "int64", "int32", "rune", "float64", "float32":
		// integer conversions are the identity on Int; a float conversion is only legal
		// around / inside a call of an abstracted (parameter) function, where the parameter
		// stands for the integer function  n ↦ int(f(float64(n)))
		if len(args) != 1 {
			return "", 0, trErr("conversion %s", text)
		}
		if (fn == "float64" || fn == "float32") && !c.inAbstract {
			return "", 0, trErr("floating point (%s) is outside the subset", text)
		}
		s, t, err := c.expr(args[0], tyInt)
		if err != nil {
			return "", 0, err
		}
		if t == tyByte {
			return "(Int.ofNat (UInt8.toNat " + s + "))", tyInt, nil
		}
		if t != tyInt {
			return "", 0, trErr("conversion %s of a non-integer", text)
		}
		return s, tyInt, nil
	case "byte", "uint8":
		if len(args) != 1 {
			return "", 0, trErr("conversion %s", text)
		}
		s, t, err := c.expr(args[0], tyByte)
		if err != nil {
			return "", 0, err
		}
		if t == tyInt {
			return "(UInt8.ofNat (Int.toNat " + s + "))", tyByte, nil
		}
		return s, tyByte, nil
	case "string", "[]byte":
		if len(args) != 1 {
			return "", 0, trErr("conversion %s", text)
		}
		s, t, err := c.expr(args[0], tyStr)
		if err != nil {
			return "", 0, err
		}
		if t != tyStr {
			return "", 0, trErr("conversion %s of a non-string", text)
		}
		return s, tyStr, nil
	case "max", "min":
		if len(args) != 2 {
			return "", 0, trErr("%s with %d arguments", fn, len(args))
		}
		a, at, err := c.expr(args[0], tyInt)
		if err != nil {
			return "", 0, err
		}
		b, bt, err := c.expr(args[1], tyInt)
		if err != nil {
			return "", 0, err
		}
		if at != tyInt || bt != tyInt {
			return "", 0, trErr("%s of non-integers in %s", fn, text)
		}
		return "(" + fn + " " + a + " " + b + ")", tyInt, nil
	case "len":
		s, t, err := c.expr(args[0], tyStr)
		if err != nil {
			return "", 0, err
		}
		if t != tyStr {
			return "", 0, trErr("len of a non-string in %s", text)
		}
		return "(Int.ofNat (List.length " + s + "))", tyInt, nil
	case "append":
		if len(args) != 2 {
			return "", 0, trErr("append with %d arguments", len(args))
		}
		buf, t, err := c.expr(args[0], tyStr)
		if err != nil {
			return "", 0, err
		}
		if t != tyStr {
			return "", 0, trErr("append to a non-[]byte in %s", text)
		}
		if x.Ellipsis.IsValid() {
			s, _, err := c.expr(args[1], tyStr)
			if err != nil {
				return "", 0, err
			}
			return "(" + buf + " ++ " + s + ")", tyStr, nil
		}
		s, et, err := c.expr(args[1], tyByte)
		if err != nil {
			return "", 0, err
		}
		if et != tyByte {
			return "", 0, trErr("append of a non-byte in %s", text)
		}
		return "(" + buf + " ++ [" + s + "])", tyStr, nil
	case "strings.HasPrefix", "strings.HasSuffix":
		a, _, err := c.expr(args[0], tyStr)
		if err != nil {
			return "", 0, err
		}
		b, _, err := c.expr(args[1], tyStr)
		if err != nil {
			return "", 0, err
		}
		if fn == "strings.HasPrefix" {
			return "(List.isPrefixOf " + b + " " + a + ")", tyBool, nil
		}
		return "(List.isSuffixOf " + b + " " + a + ")", tyBool, nil
	}
	callee := ""
	var rt trTy
	if p := c.param(fn); p != nil && p.isFunc {
		callee, rt = p.lean, p.ty
	} else if fn == c.self && c.t.recFuel {
		callee, rt = "self_", c.t.resTy
	} else {
		return "", 0, trErr("call %s is outside the subset (not built in, not a parameter of the target)", text)
	}
	was := c.inAbstract
	c.inAbstract = true
	defer func() { c.inAbstract = was }()
	parts := []string{callee}
	for _, a := range args {
		s, _, err := c.expr(a, tyUnknown)
		if err != nil {
			return "", 0, err
		}
		parts = append(parts, s)
	}
	return "(" + strings.Join(parts, " ") + ")", rt, nil
}
