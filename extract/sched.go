package main

import (
	"fmt"
	"go/ast"
	"go/token"
	"strings"
)

// metaStatePrecedence: the order in which Metadata._getStateNoLock
// (martian/core/metadata.go) tests sentinel files and the state each one
// yields: a chain of `if self._existsNoLock(<Const>) { ... return <State>, true }`.
// Emitted as (file name, state name) pairs using the string values of the
// MetadataFileName / MetadataState constants of the same file.
//
// forkStateOrder: the order in which Fork.getState (martian/core/stage.go)
// consults its members: own metadata, join metadata, chunks, split metadata.
func init() {
	addFact(fact{
		name:   "metaStatePrecedence",
		leanTy: "List (String × String)",
		deflt: `[("errors", "failed"), ("assert", "failed"), ("complete", "complete"), ` +
			`("disabled", "disabled"), ("log", "running"), ("jobinfo", "queued")]`,
		extract: func(repo string) (string, interface{}, error) {
			_, f, err := parseFile(repo, "martian/core/metadata.go")
			if err != nil {
				return "", nil, err
			}
			consts := stringConsts(f)
			fd := findMethod(f, "Metadata", "_getStateNoLock")
			if fd == nil {
				return "", nil, fmt.Errorf("_getStateNoLock not found")
			}
			var pairs [][2]string
			for _, st := range fd.Body.List {
				ifs, ok := st.(*ast.IfStmt)
				if !ok {
					continue
				}
				call, ok := ifs.Cond.(*ast.CallExpr)
				if !ok || len(call.Args) != 1 {
					return "", nil, fmt.Errorf("unexpected condition in _getStateNoLock")
				}
				sel, ok := call.Fun.(*ast.SelectorExpr)
				if !ok || sel.Sel.Name != "_existsNoLock" {
					return "", nil, fmt.Errorf("condition is not _existsNoLock")
				}
				arg, ok := call.Args[0].(*ast.Ident)
				if !ok {
					return "", nil, fmt.Errorf("non-constant sentinel")
				}
				// the (last) return statement directly in the if body
				var ret *ast.ReturnStmt
				for _, b := range ifs.Body.List {
					if r, ok := b.(*ast.ReturnStmt); ok {
						ret = r
					}
				}
				if ret == nil || len(ret.Results) != 2 {
					return "", nil, fmt.Errorf("no return in arm for %s", arg.Name)
				}
				stId, ok := ret.Results[0].(*ast.Ident)
				okId, ok2 := ret.Results[1].(*ast.Ident)
				if !ok || !ok2 || okId.Name != "true" {
					return "", nil, fmt.Errorf("unexpected return in arm for %s", arg.Name)
				}
				fn, ok := consts[arg.Name]
				sn, ok2 := consts[stId.Name]
				if !ok || !ok2 {
					return "", nil, fmt.Errorf("constant %s or %s not found", arg.Name, stId.Name)
				}
				pairs = append(pairs, [2]string{fn, sn})
			}
			if len(pairs) == 0 {
				return "", nil, fmt.Errorf("no sentinel tests found")
			}
			parts := make([]string, len(pairs))
			js := make([][]string, len(pairs))
			for i, p := range pairs {
				parts[i] = fmt.Sprintf("(%s, %s)", leanStr(p[0]), leanStr(p[1]))
				js[i] = []string{p[0], p[1]}
			}
			return "[" + strings.Join(parts, ", ") + "]", js, nil
		},
	})
	addFact(fact{
		name:   "forkStateOrder",
		leanTy: "List String",
		deflt:  `["metadata", "join_metadata", "chunks", "split_metadata"]`,
		extract: func(repo string) (string, interface{}, error) {
			_, f, err := parseFile(repo, "martian/core/stage.go")
			if err != nil {
				return "", nil, err
			}
			fd := findMethod(f, "Fork", "getState")
			if fd == nil {
				return "", nil, fmt.Errorf("Fork.getState not found")
			}
			// first mention of each member `self.<member>` in top-level statement order
			var order []string
			seen := map[string]bool{}
			want := map[string]bool{"metadata": true, "join_metadata": true, "chunks": true, "split_metadata": true}
			for _, st := range fd.Body.List {
				var first []string
				ast.Inspect(st, func(n ast.Node) bool {
					sel, ok := n.(*ast.SelectorExpr)
					if !ok {
						return true
					}
					if id, ok := sel.X.(*ast.Ident); ok && id.Name == "self" && want[sel.Sel.Name] {
						first = append(first, sel.Sel.Name)
					}
					return true
				})
				for _, m := range first {
					if !seen[m] {
						seen[m] = true
						order = append(order, m)
					}
				}
			}
			if len(order) != 4 {
				return "", nil, fmt.Errorf("expected 4 members, found %v", order)
			}
			return leanStrList(order), order, nil
		},
	})
}

// stringConsts collects `Name <Type> = "value"` constants of a file.
func stringConsts(f *ast.File) map[string]string {
	out := map[string]string{}
	for _, d := range f.Decls {
		gd, ok := d.(*ast.GenDecl)
		if !ok || gd.Tok != token.CONST {
			continue
		}
		for _, sp := range gd.Specs {
			vs, ok := sp.(*ast.ValueSpec)
			if !ok {
				continue
			}
			for i, n := range vs.Names {
				if i < len(vs.Values) {
					if bl, ok := vs.Values[i].(*ast.BasicLit); ok && bl.Kind == token.STRING {
						out[n.Name] = strings.Trim(bl.Value, "\"`")
					}
				}
			}
		}
	}
	return out
}
