package main

import (
	"fmt"
	"go/ast"
	"go/printer"
	"go/token"
	"os"
	"path/filepath"
	"strconv"
	"strings"
)

// The regexp source strings of the token rules in martian/syntax/tokenizer.go:
//
//	tokXRule = regexpRule(<string constant expression>, TOKEN)
//
// (C08: the Lean recognisers were written for specific regex strings; the
// theorems are stated for the rule whose source equals the regenerated one.)

func constString(e ast.Expr) (string, error) {
	switch x := e.(type) {
	case *ast.BasicLit:
		if x.Kind != token.STRING {
			return "", fmt.Errorf("non-string literal %s", x.Value)
		}
		return strconv.Unquote(x.Value)
	case *ast.BinaryExpr:
		if x.Op != token.ADD {
			return "", fmt.Errorf("unexpected operator %s", x.Op)
		}
		a, err := constString(x.X)
		if err != nil {
			return "", err
		}
		b, err := constString(x.Y)
		if err != nil {
			return "", err
		}
		return a + b, nil
	case *ast.ParenExpr:
		return constString(x.X)
	}
	return "", fmt.Errorf("not a constant string expression")
}

func tokenRuleRegex(repo, rule string) (string, error) {
	_, f, err := parseFile(repo, "martian/syntax/tokenizer.go")
	if err != nil {
		return "", err
	}
	var res string
	var rerr error = fmt.Errorf("%s = regexpRule(...) not found", rule)
	ast.Inspect(f, func(n ast.Node) bool {
		vs, ok := n.(*ast.ValueSpec)
		if !ok {
			return true
		}
		for i, name := range vs.Names {
			if name.Name != rule || i >= len(vs.Values) {
				continue
			}
			call, ok := vs.Values[i].(*ast.CallExpr)
			if !ok || len(call.Args) < 1 {
				continue
			}
			if id, ok := call.Fun.(*ast.Ident); !ok || id.Name != "regexpRule" {
				continue
			}
			res, rerr = constString(call.Args[0])
		}
		return true
	})
	return res, rerr
}

func init() {
	for _, r := range []struct{ fact, rule, deflt string }{
		{"tokIntRegex", "tokIntRule", `^-?0*\d{1,19}\b`},
		{"tokFloatRegex", "tokFloatRule", `^-?\d+(?:(?:\.\d+)?[eE][+-]?|\.)\d+\b`},
		{"tokStringRegex", "tokStringRule", `^"(?:[^\\"]|\\(?:[abfnrtv\\"]|[0-7]{3}|x[[:xdigit:]]{2}|u[[:xdigit:]]{4}|U[[:xdigit:]]{8}))*"`},
		{"tokIdRegex", "tokIdRule", `^_?[[:alpha:]]\w*\b`},
	} {
		r := r
		addFact(fact{
			name:   r.fact,
			leanTy: "String",
			deflt:  leanStr(r.deflt),
			extract: func(repo string) (string, interface{}, error) {
				s, err := tokenRuleRegex(repo, r.rule)
				if err != nil {
					return "", nil, err
				}
				return leanStr(s), s, nil
			},
		})
	}
}

// ---------- the whole tokenizer: token ids and the first-byte switch of keywordToken ----------

func leanNatList(xs []int) string {
	o := make([]string, len(xs))
	for i, x := range xs {
		o[i] = "0x" + strconv.FormatInt(int64(x), 16)
	}
	return "[" + strings.Join(o, ", ") + "]"
}

type tokId struct {
	Name string
	Id   int
}

// tokenIds: every `const NAME = <int >= 57346>` of grammar.go, in source order.
func tokenIds(repo string) ([]tokId, error) {
	_, f, err := parseFile(repo, "martian/syntax/grammar.go")
	if err != nil {
		return nil, err
	}
	var ids []tokId
	for _, d := range f.Decls {
		gd, ok := d.(*ast.GenDecl)
		if !ok || gd.Tok != token.CONST {
			continue
		}
		for _, sp := range gd.Specs {
			vs, ok := sp.(*ast.ValueSpec)
			if !ok || len(vs.Names) != 1 || len(vs.Values) != 1 || vs.Type != nil {
				continue
			}
			lit, ok := vs.Values[0].(*ast.BasicLit)
			if !ok || lit.Kind != token.INT {
				continue
			}
			v, err := strconv.Atoi(lit.Value)
			if err != nil || v < 57346 {
				continue
			}
			ids = append(ids, tokId{vs.Names[0].Name, v})
		}
	}
	if len(ids) == 0 {
		return nil, fmt.Errorf("no token constants (const NAME = 57346...) in grammar.go")
	}
	return ids, nil
}

func leanTokIds(ids []tokId) string {
	o := make([]string, len(ids))
	for i, t := range ids {
		o[i] = fmt.Sprintf("(%s, %d)", leanStr(t.Name), t.Id)
	}
	return "[" + strings.Join(o, ",\n   ") + "]"
}

// lexerStringConsts: the package-level string constants of package syntax
// (`name = "text"`, also inside a const group, also `name = T("text")`).
func lexerStringConsts(repo string) (map[string]string, error) {
	dir := filepath.Join(repo, "martian/syntax")
	ents, err := os.ReadDir(dir)
	if err != nil {
		return nil, err
	}
	res := map[string]string{}
	for _, e := range ents {
		n := e.Name()
		if e.IsDir() || !strings.HasSuffix(n, ".go") || strings.HasSuffix(n, "_test.go") {
			continue
		}
		_, f, err := parseFile(repo, filepath.Join("martian/syntax", n))
		if err != nil {
			return nil, err
		}
		for _, d := range f.Decls {
			gd, ok := d.(*ast.GenDecl)
			if !ok || gd.Tok != token.CONST {
				continue
			}
			for _, sp := range gd.Specs {
				vs, ok := sp.(*ast.ValueSpec)
				if !ok || len(vs.Names) != len(vs.Values) {
					continue
				}
				for i, nm := range vs.Names {
					v := vs.Values[i]
					if call, ok := v.(*ast.CallExpr); ok && len(call.Args) == 1 {
						if _, isId := call.Fun.(*ast.Ident); isId {
							v = call.Args[0]
						}
					}
					if s, err := constString(v); err == nil {
						res[nm.Name] = s
					}
				}
			}
		}
	}
	return res, nil
}

func nodeText(n ast.Node) string {
	var sb strings.Builder
	if err := printer.Fprint(&sb, token.NewFileSet(), n); err != nil {
		return "<unprintable>"
	}
	return strings.Join(strings.Fields(sb.String()), " ")
}

func stmtsText(ss []ast.Stmt) string {
	o := make([]string, len(ss))
	for i, s := range ss {
		o[i] = nodeText(s)
	}
	return strings.Join(o, " ; ")
}

// the numeric clause of keywordToken, as the Lean model `Martian.Lexer.numTok`
// was written for it (comments do not count)
const tokNumberClause = `if v, id := tokFloatRule(b); len(v) > 0 { if _, err := tryParseFloat(v); err != nil { return v, INVALID } return v, id }` +
	` ; v, id := tokIntRule(b)` +
	` ; if len(v) > 0 { if _, err := tryParseInt(v); err != "" { return v, INVALID } }` +
	` ; return v, id`

type tokKeyword struct {
	Text  string
	Token string
}

type tokClause struct {
	Bytes    []int
	Kind     string
	Keywords []tokKeyword
}

// keywordTest: `bytesPrefixString(b, X)` -> the text of X
func keywordTest(e ast.Expr, consts map[string]string) (string, error) {
	call, ok := e.(*ast.CallExpr)
	if !ok || len(call.Args) != 2 {
		return "", fmt.Errorf("not a bytesPrefixString call: %s", nodeText(e))
	}
	if id, ok := call.Fun.(*ast.Ident); !ok || id.Name != "bytesPrefixString" {
		return "", fmt.Errorf("not a bytesPrefixString call: %s", nodeText(e))
	}
	if id, ok := call.Args[0].(*ast.Ident); !ok || id.Name != "b" {
		return "", fmt.Errorf("bytesPrefixString not applied to b: %s", nodeText(e))
	}
	if id, ok := call.Args[1].(*ast.Ident); ok {
		s, ok := consts[id.Name]
		if !ok {
			return "", fmt.Errorf("keyword constant %s not found among the string constants of package syntax", id.Name)
		}
		return s, nil
	}
	return constString(call.Args[1])
}

func keywordClause(body []ast.Stmt, consts map[string]string) ([]tokKeyword, error) {
	var kws []tokKeyword
	for i, st := range body {
		switch s := st.(type) {
		case *ast.IfStmt:
			// if v := bytesPrefixString(b, X); len(v) > 0 { return v, T }
			as, ok := s.Init.(*ast.AssignStmt)
			if !ok || as.Tok != token.DEFINE || len(as.Lhs) != 1 || len(as.Rhs) != 1 || nodeText(as.Lhs[0]) != "v" ||
				nodeText(s.Cond) != "len(v) > 0" || s.Else != nil || len(s.Body.List) != 1 {
				return nil, fmt.Errorf("unexpected keyword test: %s", nodeText(s))
			}
			ret, ok := s.Body.List[0].(*ast.ReturnStmt)
			if !ok || len(ret.Results) != 2 || nodeText(ret.Results[0]) != "v" {
				return nil, fmt.Errorf("unexpected keyword test: %s", nodeText(s))
			}
			tok, ok := ret.Results[1].(*ast.Ident)
			if !ok {
				return nil, fmt.Errorf("unexpected keyword token: %s", nodeText(s))
			}
			text, err := keywordTest(as.Rhs[0], consts)
			if err != nil {
				return nil, err
			}
			kws = append(kws, tokKeyword{text, tok.Name})
		case *ast.ReturnStmt:
			// return bytesPrefixString(b, X), T   (last statement)
			if i != len(body)-1 || len(s.Results) != 2 {
				return nil, fmt.Errorf("unexpected return: %s", nodeText(s))
			}
			tok, ok := s.Results[1].(*ast.Ident)
			if !ok {
				return nil, fmt.Errorf("unexpected keyword token: %s", nodeText(s))
			}
			text, err := keywordTest(s.Results[0], consts)
			if err != nil {
				return nil, err
			}
			kws = append(kws, tokKeyword{text, tok.Name})
		default:
			return nil, fmt.Errorf("unexpected statement in a keyword clause: %s", nodeText(st))
		}
	}
	if len(kws) == 0 {
		return nil, fmt.Errorf("empty clause")
	}
	for _, k := range kws {
		if k.Text == "" {
			return nil, fmt.Errorf("empty keyword for token %s", k.Token)
		}
		for i := 0; i < len(k.Text); i++ {
			// bytesPrefixString compares b[i] with byte(r) for the RUNES r of the keyword
			if k.Text[i] >= 0x80 {
				return nil, fmt.Errorf("keyword %q is not ASCII", k.Text)
			}
		}
	}
	return kws, nil
}

// tokenSwitch: the `switch r` of keywordToken, clause by clause.  The frame
// around it (`if len(b) > 0 { r := b[0]; switch r {…}; if r > utf8.RuneSelf
// { return leadingSpace(b) } }; return nil, 0`) is checked too.
func tokenSwitch(repo string) ([]tokClause, error) {
	_, f, err := parseFile(repo, "martian/syntax/tokenizer.go")
	if err != nil {
		return nil, err
	}
	fd := findFunc(f, "keywordToken")
	if fd == nil || fd.Body == nil {
		return nil, fmt.Errorf("func keywordToken not found")
	}
	if len(fd.Body.List) != 2 || nodeText(fd.Body.List[1]) != "return nil, 0" {
		return nil, fmt.Errorf("keywordToken: unexpected frame")
	}
	outer, ok := fd.Body.List[0].(*ast.IfStmt)
	if !ok || outer.Init != nil || outer.Else != nil || nodeText(outer.Cond) != "len(b) > 0" || len(outer.Body.List) != 3 ||
		nodeText(outer.Body.List[0]) != "r := b[0]" ||
		nodeText(outer.Body.List[2]) != "if r > utf8.RuneSelf { return leadingSpace(b) }" {
		return nil, fmt.Errorf("keywordToken: unexpected frame around the switch")
	}
	sw, ok := outer.Body.List[1].(*ast.SwitchStmt)
	if !ok || sw.Init != nil || nodeText(sw.Tag) != "r" {
		return nil, fmt.Errorf("keywordToken: no `switch r`")
	}
	consts, err := lexerStringConsts(repo)
	if err != nil {
		return nil, err
	}
	var res []tokClause
	seen := map[int]bool{}
	for _, st := range sw.Body.List {
		cc, ok := st.(*ast.CaseClause)
		if !ok || len(cc.List) == 0 {
			return nil, fmt.Errorf("keywordToken: default clause / unexpected statement in the switch")
		}
		var cl tokClause
		for _, e := range cc.List {
			lit, ok := e.(*ast.BasicLit)
			if !ok || lit.Kind != token.CHAR {
				return nil, fmt.Errorf("case value %s is not a character literal", nodeText(e))
			}
			v, _, _, err := strconv.UnquoteChar(lit.Value[1:len(lit.Value)-1], '\'')
			if err != nil || v < 0 || v > 255 {
				return nil, fmt.Errorf("case value %s is not a byte", lit.Value)
			}
			if seen[int(v)] {
				return nil, fmt.Errorf("duplicate case value %s", lit.Value)
			}
			seen[int(v)] = true
			cl.Bytes = append(cl.Bytes, int(v))
		}
		txt := stmtsText(cc.Body)
		switch txt {
		case "return b[:1:1], int(r)":
			cl.Kind = "punct"
		case "return tokStringRule(b)":
			cl.Kind = "string"
		case "return tokCommentRule(b)":
			cl.Kind = "comment"
		case "return leadingSpace(b)":
			cl.Kind = "space"
		case "return tokIdRule(b)":
			cl.Kind = "ident"
		case tokNumberClause:
			cl.Kind = "number"
		default:
			kws, err := keywordClause(cc.Body, consts)
			if err != nil {
				return nil, fmt.Errorf("clause %s: %v", nodeText(cc.List[0]), err)
			}
			for _, v := range cl.Bytes {
				// a clause that falls out of the switch reaches `if r > utf8.RuneSelf`
				if v >= 0x80 {
					return nil, fmt.Errorf("keyword clause for the non-ASCII byte 0x%02x", v)
				}
			}
			cl.Kind = "keywords"
			cl.Keywords = kws
		}
		res = append(res, cl)
	}
	return res, nil
}

func leanTokSwitch(cls []tokClause) string {
	o := make([]string, len(cls))
	for i, c := range cls {
		kws := make([]string, len(c.Keywords))
		for j, k := range c.Keywords {
			kws[j] = "(" + leanStr(k.Text) + ", " + leanStr(k.Token) + ")"
		}
		o[i] = "(" + leanNatList(c.Bytes) + ", " + leanStr(c.Kind) + ", [" + strings.Join(kws, ", ") + "])"
	}
	return "[" + strings.Join(o, ",\n   ") + "]"
}

func init() {
	addFact(fact{
		name:   "tokIds",
		leanTy: "List (String × Nat)",
		deflt:  tokIdsDefault,
		extract: func(repo string) (string, interface{}, error) {
			ids, err := tokenIds(repo)
			if err != nil {
				return "", nil, err
			}
			return leanTokIds(ids), ids, nil
		},
	})
	addFact(fact{
		name:   "tokSwitch",
		leanTy: "List (List Nat × String × List (String × String))",
		deflt:  tokSwitchDefault,
		extract: func(repo string) (string, interface{}, error) {
			cls, err := tokenSwitch(repo)
			if err != nil {
				return "", nil, err
			}
			return leanTokSwitch(cls), cls, nil
		},
	})
}
