package main

import (
	"fmt"
	"go/ast"
	"go/token"
	"strconv"
)

// The regexp source strings of the token rules in martian/syntax/tokenizer.go:
//
//	tokXRule = regexpRule(<string constant expression>, TOKEN)
//
// (C08: the Lean recognisers were written for specific regex strings; the
// theorems are stated for the rule whose source equals the regenerated one.)

func constString(e ast.Expr) (string, error) {
	switch x := e.(type) {
	case *ast.BasicLit:
		if x.Kind != token.STRING {
			return "", fmt.Errorf("non-string literal %s", x.Value)
		}
		return strconv.Unquote(x.Value)
	case *ast.BinaryExpr:
		if x.Op != token.ADD {
			return "", fmt.Errorf("unexpected operator %s", x.Op)
		}
		a, err := constString(x.X)
		if err != nil {
			return "", err
		}
		b, err := constString(x.Y)
		if err != nil {
			return "", err
		}
		return a + b, nil
	case *ast.ParenExpr:
		return constString(x.X)
	}
	return "", fmt.Errorf("not a constant string expression")
}

func tokenRuleRegex(repo, rule string) (string, error) {
	_, f, err := parseFile(repo, "martian/syntax/tokenizer.go")
	if err != nil {
		return "", err
	}
	var res string
	var rerr error = fmt.Errorf("%s = regexpRule(...) not found", rule)
	ast.Inspect(f, func(n ast.Node) bool {
		vs, ok := n.(*ast.ValueSpec)
		if !ok {
			return true
		}
		for i, name := range vs.Names {
			if name.Name != rule || i >= len(vs.Values) {
				continue
			}
			call, ok := vs.Values[i].(*ast.CallExpr)
			if !ok || len(call.Args) < 1 {
				continue
			}
			if id, ok := call.Fun.(*ast.Ident); !ok || id.Name != "regexpRule" {
				continue
			}
			res, rerr = constString(call.Args[0])
		}
		return true
	})
	return res, rerr
}

func init() {
	for _, r := range []struct{ fact, rule, deflt string }{
		{"tokIntRegex", "tokIntRule", `^-?0*\d{1,19}\b`},
		{"tokFloatRegex", "tokFloatRule", `^-?\d+(?:(?:\.\d+)?[eE][+-]?|\.)\d+\b`},
		{"tokStringRegex", "tokStringRule", `^"(?:[^\\"]|\\(?:[abfnrtv\\"]|[0-7]{3}|x[[:xdigit:]]{2}|u[[:xdigit:]]{4}|U[[:xdigit:]]{8}))*"`},
		{"tokIdRegex", "tokIdRule", `^_?[[:alpha:]]\w*\b`},
	} {
		r := r
		addFact(fact{
			name:   r.fact,
			leanTy: "String",
			deflt:  leanStr(r.deflt),
			extract: func(repo string) (string, interface{}, error) {
				s, err := tokenRuleRegex(repo, r.rule)
				if err != nil {
					return "", nil, err
				}
				return leanStr(s), s, nil
			},
		})
	}
}
