package main

import (
	"fmt"
	"go/ast"
	"go/token"
	"strconv"
	"strings"
)

// C17 facts: the literal tables of martian/syntax/builtin_types.go
//   builtinKinds      – the names in `builtinTypes`, in order
//   builtinAssign     – all (dst, src) pairs of builtin kinds for which the
//                       `case *BuiltinType:` arm of BuiltinType.IsAssignableFrom
//                       (or the pointer-equality shortcut) returns nil
//   builtinFileKinds  – the `switch s.Id` of BuiltinType.IsFile (0 not a file,
//                       1 may contain paths, 2 file)
//   builtinCanFilter  – the kinds for which BuiltinType.CanFilter is true
// obtained by evaluating the Go expressions symbolically for every kind.

type ttEnv struct {
	consts map[string]string // KindX -> "x"
	dst    string            // value of s.Id
	src    string            // value of other.Id
}

// eval: string for kinds / idents, bool for conditions
func (e *ttEnv) eval(x ast.Expr) (interface{}, error) {
	switch x := x.(type) {
	case *ast.ParenExpr:
		return e.eval(x.X)
	case *ast.BasicLit:
		if x.Kind == token.STRING {
			return strconv.Unquote(x.Value)
		}
	case *ast.Ident:
		switch x.Name {
		case "s":
			return "ptr:" + e.dst, nil
		case "other":
			return "ptr:" + e.src, nil
		case "nil":
			return "ptr:", nil
		case "true":
			return true, nil
		case "false":
			return false, nil
		}
		if v, ok := e.consts[x.Name]; ok {
			return v, nil
		}
	case *ast.SelectorExpr:
		if id, ok := x.X.(*ast.Ident); ok && x.Sel.Name == "Id" {
			switch id.Name {
			case "s":
				return e.dst, nil
			case "other":
				return e.src, nil
			}
		}
	case *ast.BinaryExpr:
		l, err := e.eval(x.X)
		if err != nil {
			return nil, err
		}
		// short-circuit like Go
		if lb, ok := l.(bool); ok {
			if x.Op == token.LOR && lb {
				return true, nil
			}
			if x.Op == token.LAND && !lb {
				return false, nil
			}
		}
		r, err := e.eval(x.Y)
		if err != nil {
			return nil, err
		}
		switch x.Op {
		case token.LOR, token.LAND:
			lb, ok1 := l.(bool)
			rb, ok2 := r.(bool)
			if !ok1 || !ok2 {
				return nil, fmt.Errorf("non-boolean operand")
			}
			if x.Op == token.LOR {
				return lb || rb, nil
			}
			return lb && rb, nil
		case token.EQL, token.NEQ:
			ls, ok1 := l.(string)
			rs, ok2 := r.(string)
			if !ok1 || !ok2 {
				return nil, fmt.Errorf("non-string comparison")
			}
			return (ls == rs) == (x.Op == token.EQL), nil
		}
	}
	return nil, fmt.Errorf("unsupported expression %T", x)
}

func ttKindConsts(repo string) (map[string]string, error) {
	_, f, err := parseFile(repo, "martian/syntax/expression.go")
	if err != nil {
		return nil, err
	}
	consts := map[string]string{}
	for _, d := range f.Decls {
		gd, ok := d.(*ast.GenDecl)
		if !ok || gd.Tok != token.CONST {
			continue
		}
		for _, sp := range gd.Specs {
			vs := sp.(*ast.ValueSpec)
			for i, n := range vs.Names {
				if !strings.HasPrefix(n.Name, "Kind") || i >= len(vs.Values) {
					continue
				}
				v := vs.Values[i]
				if call, ok := v.(*ast.CallExpr); ok && len(call.Args) == 1 {
					v = call.Args[0]
				}
				if bl, ok := v.(*ast.BasicLit); ok && bl.Kind == token.STRING {
					if s, err := strconv.Unquote(bl.Value); err == nil {
						consts[n.Name] = s
					}
				}
			}
		}
	}
	if len(consts) == 0 {
		return nil, fmt.Errorf("no Kind constants found")
	}
	return consts, nil
}

// the kinds listed in `builtinTypes`, via `builtinX = BuiltinType{KindX}`
func ttBuiltinKinds(f *ast.File, consts map[string]string) ([]string, error) {
	vars := map[string]string{}
	var list []string
	for _, d := range f.Decls {
		gd, ok := d.(*ast.GenDecl)
		if !ok || gd.Tok != token.VAR {
			continue
		}
		for _, sp := range gd.Specs {
			vs := sp.(*ast.ValueSpec)
			for i, n := range vs.Names {
				if i >= len(vs.Values) {
					continue
				}
				cl, ok := vs.Values[i].(*ast.CompositeLit)
				if !ok {
					continue
				}
				if n.Name == "builtinTypes" {
					for _, el := range cl.Elts {
						u, ok := el.(*ast.UnaryExpr)
						if !ok || u.Op != token.AND {
							return nil, fmt.Errorf("unexpected element in builtinTypes")
						}
						id, ok := u.X.(*ast.Ident)
						if !ok {
							return nil, fmt.Errorf("unexpected element in builtinTypes")
						}
						list = append(list, id.Name)
					}
				} else if t, ok := cl.Type.(*ast.Ident); ok && t.Name == "BuiltinType" && len(cl.Elts) == 1 {
					el := cl.Elts[0]
					if kv, ok := el.(*ast.KeyValueExpr); ok {
						el = kv.Value
					}
					if id, ok := el.(*ast.Ident); ok {
						if k, ok := consts[id.Name]; ok {
							vars[n.Name] = k
						}
					}
				}
			}
		}
	}
	if len(list) == 0 {
		return nil, fmt.Errorf("builtinTypes not found")
	}
	kinds := make([]string, len(list))
	for i, v := range list {
		k, ok := vars[v]
		if !ok {
			return nil, fmt.Errorf("cannot resolve %s", v)
		}
		kinds[i] = k
	}
	return kinds, nil
}

func ttReturnsNil(body *ast.BlockStmt) bool {
	if len(body.List) != 1 {
		return false
	}
	rs, ok := body.List[0].(*ast.ReturnStmt)
	if !ok || len(rs.Results) != 1 {
		return false
	}
	id, ok := rs.Results[0].(*ast.Ident)
	return ok && id.Name == "nil"
}

type ttTables struct {
	kinds     []string
	assign    [][2]string
	fileKinds map[string]int
	canFilter []string
}

func ttExtract(repo string) (*ttTables, error) {
	consts, err := ttKindConsts(repo)
	if err != nil {
		return nil, err
	}
	_, f, err := parseFile(repo, "martian/syntax/builtin_types.go")
	if err != nil {
		return nil, err
	}
	t := &ttTables{fileKinds: map[string]int{}}
	if t.kinds, err = ttBuiltinKinds(f, consts); err != nil {
		return nil, err
	}
	// ---- IsAssignableFrom: `case *BuiltinType:` arm ----
	fd := findMethod(f, "BuiltinType", "IsAssignableFrom")
	if fd == nil {
		return nil, fmt.Errorf("BuiltinType.IsAssignableFrom not found")
	}
	var arm *ast.CaseClause
	ast.Inspect(fd.Body, func(n ast.Node) bool {
		ts, ok := n.(*ast.TypeSwitchStmt)
		if !ok {
			return true
		}
		for _, st := range ts.Body.List {
			cc := st.(*ast.CaseClause)
			for _, e := range cc.List {
				if se, ok := e.(*ast.StarExpr); ok {
					if id, ok := se.X.(*ast.Ident); ok && id.Name == "BuiltinType" {
						arm = cc
					}
				}
			}
		}
		return false
	})
	if arm == nil {
		return nil, fmt.Errorf("case *BuiltinType arm not found")
	}
	var conds []ast.Expr
	for _, st := range arm.Body {
		if is, ok := st.(*ast.IfStmt); ok && is.Init == nil && ttReturnsNil(is.Body) {
			conds = append(conds, is.Cond)
		}
	}
	if len(conds) == 0 {
		return nil, fmt.Errorf("no `if … { return nil }` in the *BuiltinType arm")
	}
	for _, d := range t.kinds {
		for _, s := range t.kinds {
			env := &ttEnv{consts: consts, dst: d, src: s}
			for _, c := range conds {
				v, err := env.eval(c)
				if err != nil {
					return nil, err
				}
				if b, ok := v.(bool); ok && b {
					t.assign = append(t.assign, [2]string{d, s})
					break
				}
			}
		}
	}
	// ---- IsFile ----
	fd = findMethod(f, "BuiltinType", "IsFile")
	if fd == nil {
		return nil, fmt.Errorf("BuiltinType.IsFile not found")
	}
	rank := map[string]int{"KindIsNotFile": 0, "KindMayContainPaths": 1, "KindIsFile": 2, "KindIsDirectory": 3}
	var sw *ast.SwitchStmt
	ast.Inspect(fd.Body, func(n ast.Node) bool {
		if s, ok := n.(*ast.SwitchStmt); ok && sw == nil {
			sw = s
		}
		return true
	})
	if sw == nil {
		return nil, fmt.Errorf("switch in IsFile not found")
	}
	deflt := -1
	for _, st := range sw.Body.List {
		cc := st.(*ast.CaseClause)
		if len(cc.Body) != 1 {
			return nil, fmt.Errorf("unexpected IsFile arm")
		}
		rs, ok := cc.Body[0].(*ast.ReturnStmt)
		if !ok || len(rs.Results) != 1 {
			return nil, fmt.Errorf("unexpected IsFile arm")
		}
		id, ok := rs.Results[0].(*ast.Ident)
		r, ok2 := rank[fmt.Sprint(id)]
		if !ok || !ok2 {
			return nil, fmt.Errorf("unexpected IsFile result")
		}
		if cc.List == nil {
			deflt = r
		}
		for _, e := range cc.List {
			id, ok := e.(*ast.Ident)
			if !ok {
				return nil, fmt.Errorf("unexpected IsFile case")
			}
			k, ok := consts[id.Name]
			if !ok {
				return nil, fmt.Errorf("unknown kind %s", id.Name)
			}
			t.fileKinds[k] = r
		}
	}
	for _, k := range t.kinds {
		if _, ok := t.fileKinds[k]; !ok {
			if deflt < 0 {
				return nil, fmt.Errorf("IsFile has no default arm")
			}
			t.fileKinds[k] = deflt
		}
	}
	// ---- CanFilter ----
	fd = findMethod(f, "BuiltinType", "CanFilter")
	if fd == nil || len(fd.Body.List) != 1 {
		return nil, fmt.Errorf("BuiltinType.CanFilter not found")
	}
	rs, ok := fd.Body.List[0].(*ast.ReturnStmt)
	if !ok || len(rs.Results) != 1 {
		return nil, fmt.Errorf("unexpected CanFilter body")
	}
	for _, k := range t.kinds {
		env := &ttEnv{consts: consts, dst: k, src: k}
		v, err := env.eval(rs.Results[0])
		if err != nil {
			return nil, err
		}
		if b, ok := v.(bool); ok && b {
			t.canFilter = append(t.canFilter, k)
		}
	}
	return t, nil
}

func init() {
	addFact(fact{
		name:   "builtinKinds",
		leanTy: "List (List UInt8)",
		deflt:  "[[0x73, 0x74, 0x72, 0x69, 0x6E, 0x67], [0x69, 0x6E, 0x74], [0x66, 0x6C, 0x6F, 0x61, 0x74], [0x62, 0x6F, 0x6F, 0x6C], [0x70, 0x61, 0x74, 0x68], [0x66, 0x69, 0x6C, 0x65], [0x6D, 0x61, 0x70]]",
		extract: func(repo string) (string, interface{}, error) {
			t, err := ttExtract(repo)
			if err != nil {
				return "", nil, err
			}
			parts := make([]string, len(t.kinds))
			for i, k := range t.kinds {
				parts[i] = leanBytes(k)
			}
			return "[" + strings.Join(parts, ", ") + "]", t.kinds, nil
		},
	})
	addFact(fact{
		name:   "builtinAssign",
		leanTy: "List (List UInt8 × List UInt8)",
		deflt:  "[([0x73, 0x74, 0x72, 0x69, 0x6E, 0x67], [0x73, 0x74, 0x72, 0x69, 0x6E, 0x67]), ([0x69, 0x6E, 0x74], [0x69, 0x6E, 0x74]), ([0x66, 0x6C, 0x6F, 0x61, 0x74], [0x69, 0x6E, 0x74]), ([0x66, 0x6C, 0x6F, 0x61, 0x74], [0x66, 0x6C, 0x6F, 0x61, 0x74]), ([0x62, 0x6F, 0x6F, 0x6C], [0x62, 0x6F, 0x6F, 0x6C]), ([0x70, 0x61, 0x74, 0x68], [0x73, 0x74, 0x72, 0x69, 0x6E, 0x67]), ([0x70, 0x61, 0x74, 0x68], [0x70, 0x61, 0x74, 0x68]), ([0x66, 0x69, 0x6C, 0x65], [0x73, 0x74, 0x72, 0x69, 0x6E, 0x67]), ([0x66, 0x69, 0x6C, 0x65], [0x66, 0x69, 0x6C, 0x65]), ([0x6D, 0x61, 0x70], [0x6D, 0x61, 0x70])]",
		extract: func(repo string) (string, interface{}, error) {
			t, err := ttExtract(repo)
			if err != nil {
				return "", nil, err
			}
			var parts, js []string
			for _, p := range t.assign {
				parts = append(parts, fmt.Sprintf("(%s, %s)", leanBytes(p[0]), leanBytes(p[1])))
				js = append(js, p[0]+" <- "+p[1])
			}
			return "[" + strings.Join(parts, ",\n   ") + "]", js, nil
		},
	})
	addFact(fact{
		name:   "builtinFileKinds",
		leanTy: "List (List UInt8 × Nat)",
		deflt:  "[([0x73, 0x74, 0x72, 0x69, 0x6E, 0x67], 1), ([0x69, 0x6E, 0x74], 0), ([0x66, 0x6C, 0x6F, 0x61, 0x74], 0), ([0x62, 0x6F, 0x6F, 0x6C], 0), ([0x70, 0x61, 0x74, 0x68], 2), ([0x66, 0x69, 0x6C, 0x65], 2), ([0x6D, 0x61, 0x70], 1)]",
		extract: func(repo string) (string, interface{}, error) {
			t, err := ttExtract(repo)
			if err != nil {
				return "", nil, err
			}
			var parts []string
			for _, k := range t.kinds {
				parts = append(parts, fmt.Sprintf("(%s, %d)", leanBytes(k), t.fileKinds[k]))
			}
			return "[" + strings.Join(parts, ", ") + "]", t.fileKinds, nil
		},
	})
	addFact(fact{
		name:   "builtinCanFilter",
		leanTy: "List (List UInt8)",
		deflt:  "[[0x69, 0x6E, 0x74]]",
		extract: func(repo string) (string, interface{}, error) {
			t, err := ttExtract(repo)
			if err != nil {
				return "", nil, err
			}
			parts := make([]string, len(t.canFilter))
			for i, k := range t.canFilter {
				parts[i] = leanBytes(k)
			}
			return "[" + strings.Join(parts, ", ") + "]", t.canFilter, nil
		},
	})
}
