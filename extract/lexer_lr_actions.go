package main

import (
	"bytes"
	"fmt"
	"go/ast"
	"go/printer"
	"go/token"
	"sort"
	"strings"
)

// mmProdBody: for every production that has a semantic action (`case N:` of the `switch mmnt` in
// (*mmParserImpl).Parse of grammar.go) the text of that action, printed by go/printer without
// comments and with every run of white space collapsed to one blank; the `mmDollar = mmS[…]`
// assignment that goyacc puts first is left out.  Productions without a case have goyacc's default
// action ($$ = $1).  The Lean model (Martian/LexerLRSem.lean) recognises the actions of the
// value-expression sub-grammar by this text, so a changed action is no longer recognised.

func lrProdBodies(repo string) (map[int]string, error) {
	fset, f, err := parseFile(repo, lrGrammarFile)
	if err != nil {
		return nil, err
	}
	fd := findMethod(f, "mmParserImpl", "Parse")
	if fd == nil || fd.Body == nil {
		return nil, fmt.Errorf("method (*mmParserImpl).Parse not found")
	}
	var sw *ast.SwitchStmt
	ast.Inspect(fd.Body, func(n ast.Node) bool {
		if s, ok := n.(*ast.SwitchStmt); ok {
			if id, ok := s.Tag.(*ast.Ident); ok && id.Name == "mmnt" {
				sw = s
				return false
			}
		}
		return true
	})
	if sw == nil {
		return nil, fmt.Errorf("`switch mmnt` not found")
	}
	res := map[int]string{}
	for _, st := range sw.Body.List {
		cc, ok := st.(*ast.CaseClause)
		if !ok || cc.List == nil {
			continue
		}
		var buf bytes.Buffer
		for _, b := range cc.Body {
			if as, ok := b.(*ast.AssignStmt); ok && len(as.Lhs) == 1 {
				if id, ok := as.Lhs[0].(*ast.Ident); ok && id.Name == "mmDollar" {
					continue
				}
			}
			// print without comments: use a fresh config on the node (comments are attached to the
			// file, not the node, so they are not printed)
			if err := (&printer.Config{Mode: printer.RawFormat}).Fprint(&buf, token.NewFileSet(), b); err != nil {
				_ = fset
				return nil, err
			}
			buf.WriteByte(' ')
		}
		text := strings.Join(strings.Fields(buf.String()), " ")
		for _, e := range cc.List {
			v, err := lrIntExpr(e)
			if err != nil {
				return nil, err
			}
			res[v] = text
		}
	}
	if len(res) == 0 {
		return nil, fmt.Errorf("no action found")
	}
	return res, nil
}

func init() {
	addFact(fact{
		name:   "mmProdBody",
		leanTy: "List (Nat × String)",
		deflt:  "[]",
		extract: func(repo string) (string, interface{}, error) {
			m, err := lrProdBodies(repo)
			if err != nil {
				return "", nil, err
			}
			var ks []int
			for k := range m {
				ks = append(ks, k)
			}
			sort.Ints(ks)
			o := make([]string, len(ks))
			for i, k := range ks {
				o[i] = fmt.Sprintf("(%d, %s)", k, leanStr(m[k]))
			}
			return "[" + strings.Join(o, ",\n   ") + "]", m, nil
		},
	})
}
