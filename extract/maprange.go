package main

// C10: every map-iteration site in martian/syntax and martian/core (go/types,
// packages type-checked from source; no `go list`), with enclosing function,
// an automatic coarse classification and a hash of the statement, compared
// with the committed REVIEWED classification corpus/C10/map_range_sites.json.
//
// Forms listed (mrSite.Form):
//   range        `for … range m` over a map-typed expression (ids `…:range m#n`,
//                unchanged since the first round)
//   maps.<F>     a reference to maps.Keys / Values / All / Clone / Copy / Collect /
//                Insert / DeleteFunc / Equal / EqualFunc (std `maps` or
//                golang.org/x/exp/maps), reported with the outermost enclosing
//                chain of slices.* / maps.* consumers, e.g.
//                `slices.Collect(maps.Keys(m))`, `slices.Sorted(maps.Keys(m))`
//   reflect.<M>  calls of (reflect.Value).MapKeys / MapRange
//   sync.Map.Range
//   range-func   `for … range f(…)` over a function-typed expression
//                (iter.Seq / iter.Seq2 …) which is not itself one of the above
//   range-untyped  `range` over an expression whose type could not be determined
//                (partial type information must not hide a map)
// The package qualifier is resolved through go/types (types.PkgName); when
// type information is missing it falls back to the file's import table
// (syntactic recognition), reflect method calls then match by name.
//
// Facts:
//   c10Unreviewed      : sites that are new, or whose statement changed since
//                        it was reviewed (id or hash not in the reviewed file)
//   c10Vanished        : entries of the reviewed file (`sites`) for which no site
//                        is found any more (the loop was deleted or rewritten in
//                        another form); a reviewer moves such an entry to
//                        `resolved_sites` with the outcome
//   c10OrderDependent  : sites whose reviewed class is "order-dependent-output"
//                        (iteration order reaches compiler/formatter/call-graph output)
//   c10MapRangeCount   : number of sites found
//   c10IterFormsRecognised : the forms found in an embedded sample package, once
//                        with full and once with crippled type information
//                        (the recognisers are not vacuous)

import (
	"bytes"
	"crypto/sha1"
	"encoding/hex"
	"encoding/json"
	"fmt"
	"go/ast"
	"go/build"
	"go/importer"
	"go/parser"
	"go/printer"
	"go/token"
	"go/types"
	"os"
	"path/filepath"
	"sort"
	"strconv"
	"strings"
)

const martianPrefix = "github.com/martian-lang/martian/"

type mrSite struct {
	Id    string `json:"id"`
	Pkg   string `json:"pkg"`
	File  string `json:"file"`
	Func  string `json:"func"`
	Expr  string `json:"expr"`
	Auto  string `json:"auto"` // keys-collected-then-sorted | map-or-set-insert | other
	Hash  string `json:"hash"`
	Line  int    `json:"line"`
	Form  string `json:"form,omitempty"`  // "" (= range over a map) | maps.Keys | reflect.MapKeys | range-func | …
	Class string `json:"class,omitempty"` // reviewed class (from the committed file)
	Why   string `json:"why,omitempty"`
}

type mrImporter struct {
	repo  string
	fset  *token.FileSet
	std   types.Importer
	cache map[string]*types.Package
	infos map[string]*types.Info
	files map[string][]*ast.File
}

func (im *mrImporter) Import(path string) (*types.Package, error) {
	if p, ok := im.cache[path]; ok {
		return p, nil
	}
	if strings.HasPrefix(path, martianPrefix) {
		p, err := im.check(path)
		return p, err
	}
	if !strings.Contains(strings.SplitN(path, "/", 2)[0], ".") {
		if p, err := im.std.Import(path); err == nil {
			im.cache[path] = p
			return p, nil
		}
	}
	// third-party (golang.org/x/sys/unix, …): an empty stand-in; type errors are tolerated
	name := path[strings.LastIndex(path, "/")+1:]
	p := types.NewPackage(path, name)
	p.MarkComplete()
	im.cache[path] = p
	return p, nil
}

func (im *mrImporter) check(path string) (*types.Package, error) {
	dir := filepath.Join(im.repo, strings.TrimPrefix(path, martianPrefix))
	ents, err := os.ReadDir(dir)
	if err != nil {
		return nil, err
	}
	ctx := build.Default
	ctx.BuildTags = nil
	var files []*ast.File
	for _, e := range ents {
		n := e.Name()
		if e.IsDir() || !strings.HasSuffix(n, ".go") || strings.HasSuffix(n, "_test.go") {
			continue
		}
		if ok, err := ctx.MatchFile(dir, n); err != nil || !ok {
			continue
		}
		f, err := parser.ParseFile(im.fset, filepath.Join(dir, n), nil, parser.ParseComments)
		if err != nil {
			return nil, err
		}
		files = append(files, f)
	}
	info := &types.Info{Types: map[ast.Expr]types.TypeAndValue{}, Uses: map[*ast.Ident]types.Object{}, Defs: map[*ast.Ident]types.Object{}, Selections: map[*ast.SelectorExpr]*types.Selection{}}
	conf := types.Config{Importer: im, Error: func(error) {}, FakeImportC: true}
	pkg, _ := conf.Check(path, im.fset, files, info)
	if pkg == nil {
		return nil, fmt.Errorf("cannot type-check %s", path)
	}
	im.cache[path] = pkg
	im.infos[path] = info
	im.files[path] = files
	return pkg, nil
}

func mrExprString(fset *token.FileSet, n ast.Node) string {
	var b bytes.Buffer
	printer.Fprint(&b, fset, n)
	return b.String()
}

func mrFuncName(fd *ast.FuncDecl) string {
	if fd.Recv != nil && len(fd.Recv.List) == 1 {
		t := fd.Recv.List[0].Type
		if s, ok := t.(*ast.StarExpr); ok {
			t = s.X
		}
		if ix, ok := t.(*ast.IndexExpr); ok {
			t = ix.X
		}
		if id, ok := t.(*ast.Ident); ok {
			return id.Name + "." + fd.Name.Name
		}
	}
	return fd.Name.Name
}

// coarse automatic classification of the loop body
func mrAuto(fnBody ast.Node, rs *ast.RangeStmt, fset *token.FileSet) string {
	// slices appended to inside the body
	appended := map[string]bool{}
	onlyInserts := true
	for _, st := range rs.Body.List {
		ok := false
		switch st := st.(type) {
		case *ast.AssignStmt:
			if len(st.Lhs) == 1 && len(st.Rhs) == 1 {
				if call, isCall := st.Rhs[0].(*ast.CallExpr); isCall {
					if id, isId := call.Fun.(*ast.Ident); isId && id.Name == "append" && len(call.Args) >= 1 {
						appended[mrExprString(fset, st.Lhs[0])] = true
						ok = true
						onlyInserts = false
					}
				}
				if _, isIdx := st.Lhs[0].(*ast.IndexExpr); isIdx && !ok {
					ok = true // m[k] = v
				}
			}
		case *ast.ExprStmt:
			if call, isCall := st.X.(*ast.CallExpr); isCall {
				if id, isId := call.Fun.(*ast.Ident); isId && id.Name == "delete" {
					ok = true
				}
			}
		case *ast.IncDecStmt:
			ok = true
		}
		if !ok {
			onlyInserts = false
			// nested statements may still append (if …{ keys = append(keys,k) })
			ast.Inspect(st, func(n ast.Node) bool {
				if as, isAs := n.(*ast.AssignStmt); isAs && len(as.Lhs) == 1 && len(as.Rhs) == 1 {
					if call, isCall := as.Rhs[0].(*ast.CallExpr); isCall {
						if id, isId := call.Fun.(*ast.Ident); isId && id.Name == "append" {
							appended[mrExprString(fset, as.Lhs[0])] = true
						}
					}
				}
				return true
			})
		}
	}
	if len(appended) > 0 {
		// is one of the appended slices sorted later in the same function?
		sorted := false
		ast.Inspect(fnBody, func(n ast.Node) bool {
			call, ok := n.(*ast.CallExpr)
			if !ok || call.Pos() < rs.End() {
				return true
			}
			sel, ok := call.Fun.(*ast.SelectorExpr)
			if !ok {
				return true
			}
			pk, ok := sel.X.(*ast.Ident)
			if !ok || (pk.Name != "sort" && pk.Name != "slices") || len(call.Args) == 0 {
				return true
			}
			arg := mrExprString(fset, call.Args[0])
			for s := range appended {
				if arg == s || strings.Contains(arg, "("+s+")") {
					sorted = true
				}
			}
			return true
		})
		if sorted {
			return "keys-collected-then-sorted"
		}
	}
	if onlyInserts && len(rs.Body.List) > 0 {
		return "map-or-set-insert"
	}
	return "other"
}

func mrCollect(repo string) ([]mrSite, error) {
	fset := token.NewFileSet()
	im := &mrImporter{repo: repo, fset: fset, std: importer.ForCompiler(fset, "source", nil),
		cache: map[string]*types.Package{}, infos: map[string]*types.Info{}, files: map[string][]*ast.File{}}
	var sites []mrSite
	for _, rel := range []string{"martian/syntax", "martian/core"} {
		path := martianPrefix + rel
		if _, err := im.Import(path); err != nil {
			return nil, err
		}
		info := im.infos[path]
		for _, f := range im.files[path] {
			fname := filepath.Base(fset.Position(f.Pos()).Filename)
			if strings.HasPrefix(fname, "verif_") {
				continue
			}
			sites = append(sites, mrScanFile(fset, info, rel, fname, f)...)
			mrUnsupported = append(mrUnsupported, mrUnsupportedForms(rel, fname, f)...)
		}
	}
	sort.Slice(sites, func(i, j int) bool { return sites[i].Id < sites[j].Id })
	sort.Strings(mrUnsupported)
	return sites, nil
}

// forms of map iteration the scanner does NOT follow; their presence must be reviewed by hand
// (obligation no_unsupported_iteration_form): a DOT-import of a package whose functions walk
// maps (the calls then are bare identifiers), and files excluded from this platform's build.
var mrUnsupported []string

func mrUnsupportedForms(rel, fname string, f *ast.File) []string {
	var out []string
	for _, im := range f.Imports {
		if im.Name != nil && im.Name.Name == "." {
			p, _ := strconv.Unquote(im.Path.Value)
			switch p {
			case "maps", "slices", "golang.org/x/exp/maps", "golang.org/x/exp/slices", "reflect", "sync", "iter":
				out = append(out, rel+"/"+fname+": dot-import of "+p)
			}
		}
	}
	return out
}

// every map-iteration site of one file
func mrScanFile(fset *token.FileSet, info *types.Info, rel, fname string, f *ast.File) []mrSite {
	var sites []mrSite
	imports := mrImportTable(f)
	short := rel[strings.LastIndex(rel, "/")+1:]
	for _, d := range f.Decls {
		switch d := d.(type) {
		case *ast.FuncDecl:
			if d.Body != nil {
				sites = append(sites, mrScanBody(fset, info, imports, rel, short, fname, mrFuncName(d), d, d.Body)...)
			}
		case *ast.GenDecl:
			// function literals in package-level variable initialisers
			if d.Tok != token.VAR {
				continue
			}
			for _, sp := range d.Specs {
				vs, ok := sp.(*ast.ValueSpec)
				if !ok || len(vs.Names) == 0 {
					continue
				}
				for _, v := range vs.Values {
					sites = append(sites, mrScanBody(fset, info, imports, rel, short, fname, "var "+vs.Names[0].Name, nil, v)...)
				}
			}
		}
	}
	return sites
}

// local package name -> import path (syntactic fallback when go/types has no PkgName)
func mrImportTable(f *ast.File) map[string]string {
	t := map[string]string{}
	for _, im := range f.Imports {
		p := strings.Trim(im.Path.Value, "\"`")
		name := p[strings.LastIndex(p, "/")+1:]
		if im.Name != nil {
			name = im.Name.Name
		}
		t[name] = p
	}
	return t
}

// functions of package maps that walk (or are fed by a walk over) a map
var mrMapsFuncs = map[string]bool{"Keys": true, "Values": true, "All": true, "Clone": true, "Copy": true,
	"Collect": true, "Insert": true, "DeleteFunc": true, "Equal": true, "EqualFunc": true}

func mrIsMapsPath(p string) bool { return p == "maps" || p == "golang.org/x/exp/maps" }

// the import path an identifier used as package qualifier stands for ("" = not a package)
func mrPkgPath(info *types.Info, imports map[string]string, id *ast.Ident) string {
	if obj, ok := info.Uses[id]; ok && obj != nil {
		if pn, ok := obj.(*types.PkgName); ok {
			return pn.Imported().Path()
		}
		return "" // a variable, field, … shadows the package name
	}
	if id.Obj != nil {
		return "" // resolved by the parser to a local declaration
	}
	return imports[id.Name]
}

// pkg-qualified callee of a call: ("slices", "Collect")
func mrQualifiedCallee(info *types.Info, imports map[string]string, call *ast.CallExpr) (string, string) {
	fun := call.Fun
	for {
		switch x := fun.(type) {
		case *ast.IndexExpr: // explicit instantiation slices.Collect[string](…)
			fun = x.X
			continue
		case *ast.IndexListExpr:
			fun = x.X
			continue
		case *ast.ParenExpr:
			fun = x.X
			continue
		}
		break
	}
	sel, ok := fun.(*ast.SelectorExpr)
	if !ok {
		return "", ""
	}
	id, ok := sel.X.(*ast.Ident)
	if !ok {
		return "", ""
	}
	return mrPkgPath(info, imports, id), sel.Sel.Name
}

// mrCore: the type that decides what `range x` walks.  For a TYPE PARAMETER the underlying
// type is its constraint interface; the core type is what the terms of the constraint share:
// when every term (or, conservatively, ANY term) is a map the operand is a map.
func mrCore(t types.Type) types.Type {
	tp, ok := t.(*types.TypeParam)
	if !ok {
		return t.Underlying()
	}
	iface, ok := tp.Constraint().Underlying().(*types.Interface)
	if !ok {
		return t.Underlying()
	}
	var found types.Type
	var walk func(t types.Type)
	walk = func(t types.Type) {
		switch x := t.(type) {
		case *types.Union:
			for i := 0; i < x.Len(); i++ {
				walk(x.Term(i).Type())
			}
		default:
			if in, ok := x.Underlying().(*types.Interface); ok {
				for i := 0; i < in.NumEmbeddeds(); i++ {
					walk(in.EmbeddedType(i))
				}
			} else if m, ok := x.Underlying().(*types.Map); ok && found == nil {
				found = m
			}
		}
	}
	for i := 0; i < iface.NumEmbeddeds(); i++ {
		walk(iface.EmbeddedType(i))
	}
	if found != nil {
		return found
	}
	return t.Underlying()
}

func mrNamedType(t types.Type) string {
	if p, ok := t.(*types.Pointer); ok {
		t = p.Elem()
	}
	if n, ok := t.(*types.Named); ok && n.Obj() != nil && n.Obj().Pkg() != nil {
		return n.Obj().Pkg().Path() + "." + n.Obj().Name()
	}
	return ""
}

// is one of the slices in `names` sorted after position `after` in `body`?
func mrSortedLater(fset *token.FileSet, body ast.Node, after token.Pos, names map[string]bool) bool {
	sorted := false
	if body == nil {
		return false
	}
	ast.Inspect(body, func(n ast.Node) bool {
		call, ok := n.(*ast.CallExpr)
		if !ok || call.Pos() < after {
			return true
		}
		sel, ok := call.Fun.(*ast.SelectorExpr)
		if !ok {
			return true
		}
		pk, ok := sel.X.(*ast.Ident)
		if !ok || (pk.Name != "sort" && pk.Name != "slices") || len(call.Args) == 0 {
			return true
		}
		arg := mrExprString(fset, call.Args[0])
		for s := range names {
			if arg == s || strings.Contains(arg, "("+s+")") {
				sorted = true
			}
		}
		return true
	})
	return sorted
}

func mrScanBody(fset *token.FileSet, info *types.Info, imports map[string]string,
	rel, short, fname, fn string, fd *ast.FuncDecl, body ast.Node) []mrSite {
	var sites []mrSite
	seen := map[string]int{}     // `range` over a map, keyed by expression (ids of the first round)
	seenIter := map[string]int{} // every other form, keyed by form + expression
	var stack []ast.Node
	var sortBody ast.Node = body
	// the calls already reported as (part of) an iterator-form site: a `range` over
	// such a call is not reported a second time as range-func / range-untyped
	claimed := map[ast.Node]bool{}

	add := func(form, expr, auto string, stmt ast.Node, pos token.Pos) {
		key := form + " " + expr
		seenIter[key]++
		var idForm string
		switch {
		case strings.HasPrefix(form, "range-"):
			idForm = form + " " + expr
		default:
			idForm = "call " + expr
		}
		id := fmt.Sprintf("%s/%s:%s:%s#%d", short, fname, fn, idForm, seenIter[key])
		h := sha1.Sum([]byte(mrExprString(fset, stmt)))
		sites = append(sites, mrSite{Id: id, Pkg: rel, File: fname, Func: fn, Expr: expr, Auto: auto,
			Hash: hex.EncodeToString(h[:6]), Line: fset.Position(pos).Line, Form: form})
	}
	// innermost statement on the stack (not a bare block)
	enclosingStmt := func() ast.Node {
		for i := len(stack) - 1; i >= 0; i-- {
			if st, ok := stack[i].(ast.Stmt); ok {
				if _, isBlock := st.(*ast.BlockStmt); !isBlock {
					return st
				}
			}
		}
		if len(stack) > 0 {
			return stack[0]
		}
		return body
	}
	// the outermost chain of slices.* / maps.* calls that consume `inner` as an argument;
	// returns that call, and the names of the consumers from the inside out
	wrap := func(inner ast.Node, from int) (ast.Node, []string) {
		var chain []string
		cur := inner
		for i := from; i >= 0; i-- {
			call, ok := stack[i].(*ast.CallExpr)
			if !ok {
				break
			}
			isArg := false
			for _, a := range call.Args {
				if a == cur {
					isArg = true
				}
			}
			pk, name := mrQualifiedCallee(info, imports, call)
			if !isArg || !(pk == "slices" || pk == "golang.org/x/exp/slices" || mrIsMapsPath(pk)) {
				break
			}
			if mrIsMapsPath(pk) {
				chain = append(chain, "maps."+name)
			} else {
				chain = append(chain, "slices."+name)
			}
			claimed[call] = true
			cur = call
		}
		return cur, chain
	}
	// the variable a call result is assigned to by the innermost statement: `x := <outer>` / `x = <outer>`
	assignedTo := func(outer ast.Node, stmt ast.Node) map[string]bool {
		as, ok := stmt.(*ast.AssignStmt)
		if !ok || len(as.Lhs) != len(as.Rhs) {
			return nil
		}
		for i, r := range as.Rhs {
			if r == outer {
				return map[string]bool{mrExprString(fset, as.Lhs[i]): true}
			}
		}
		return nil
	}
	autoOf := func(form string, chain []string, outer ast.Node, stmt ast.Node) string {
		for _, c := range chain {
			switch c {
			case "slices.Sorted":
				return "keys-collected-then-sorted"
			case "slices.SortedFunc", "slices.SortedStableFunc":
				if form == "maps.Keys" || form == "reflect.MapKeys" {
					return "keys-collected-then-sorted" // distinct keys: any consistent comparison orders them
				}
				return "other"
			case "maps.Collect", "maps.Insert":
				return "map-or-set-insert"
			}
		}
		switch form {
		case "maps.Clone", "maps.Copy", "maps.Collect", "maps.Insert":
			return "map-or-set-insert"
		}
		collected := form == "reflect.MapKeys"
		for _, c := range chain {
			if c == "slices.Collect" || c == "slices.AppendSeq" {
				collected = true
			}
		}
		if collected {
			if names := assignedTo(outer, stmt); names != nil && mrSortedLater(fset, sortBody, outer.End(), names) {
				return "keys-collected-then-sorted"
			}
		}
		return "other"
	}

	ast.Inspect(body, func(n ast.Node) bool {
		if n == nil {
			stack = stack[:len(stack)-1]
			return true
		}
		switch x := n.(type) {
		case *ast.RangeStmt:
			tv, ok := info.Types[x.X]
			var under types.Type
			if ok && tv.Type != nil && tv.Type != types.Typ[types.Invalid] {
				under = mrCore(tv.Type)
			}
			switch under.(type) {
			case *types.Map:
				expr := mrExprString(fset, x.X)
				seen[expr]++
				id := fmt.Sprintf("%s/%s:%s:range %s#%d", short, fname, fn, expr, seen[expr])
				h := sha1.Sum([]byte(mrExprString(fset, x)))
				sites = append(sites, mrSite{Id: id, Pkg: rel, File: fname, Func: fn, Expr: expr,
					Auto: mrAuto(sortBody, x, fset), Hash: hex.EncodeToString(h[:6]), Line: fset.Position(x.Pos()).Line})
			case *types.Signature, nil:
				// decided when the walk leaves the statement header: see below (needs `claimed`)
			}
		case *ast.SelectorExpr:
			// maps.Keys etc., called or used as a function value
			if id, ok := x.X.(*ast.Ident); ok && mrMapsFuncs[x.Sel.Name] && mrIsMapsPath(mrPkgPath(info, imports, id)) {
				form := "maps." + x.Sel.Name
				// climb to the call this selector is the callee of (through instantiation / parens)
				var inner ast.Node = x
				i := len(stack) - 1
				for ; i >= 0; i-- {
					switch p := stack[i].(type) {
					case *ast.IndexExpr, *ast.IndexListExpr, *ast.ParenExpr:
						inner = p
						continue
					case *ast.CallExpr:
						if p.Fun == inner {
							inner = p
							i--
						}
					}
					break
				}
				if call, isCall := inner.(*ast.CallExpr); isCall && (form == "maps.Collect" || form == "maps.Insert") {
					// maps.Collect(maps.All(m)), maps.Insert(dst, maps.Keys(..)): reported with the inner site
					fed := false
					for _, a := range call.Args {
						if ac, ok := a.(*ast.CallExpr); ok {
							if pk, name := mrQualifiedCallee(info, imports, ac); mrIsMapsPath(pk) && (name == "Keys" || name == "Values" || name == "All") {
								fed = true
							}
						}
					}
					if fed {
						break
					}
				}
				claimed[inner] = true
				outer, chain := wrap(inner, i)
				stmt := enclosingStmt()
				add(form, mrExprString(fset, outer), autoOf(form, chain, outer, stmt), stmt, x.Pos())
			}
		case *ast.CallExpr:
			sel, ok := x.Fun.(*ast.SelectorExpr)
			if !ok {
				break
			}
			switch sel.Sel.Name {
			case "MapKeys", "MapRange":
				if len(x.Args) != 0 {
					break
				}
				recv := ""
				if tv, ok := info.Types[sel.X]; ok && tv.Type != nil && tv.Type != types.Typ[types.Invalid] {
					recv = mrNamedType(tv.Type)
					if recv != "reflect.Value" {
						break
					}
				} else if _, has := imports["reflect"]; !has {
					break // type unknown and the file does not import reflect
				}
				form := "reflect." + sel.Sel.Name
				claimed[x] = true
				outer, chain := wrap(x, len(stack)-1)
				stmt := enclosingStmt()
				add(form, mrExprString(fset, outer), autoOf(form, chain, outer, stmt), stmt, x.Pos())
			case "Range":
				isSyncMap := false
				if tv, ok := info.Types[sel.X]; ok && tv.Type != nil && mrNamedType(tv.Type) == "sync.Map" {
					isSyncMap = true
				} else if s, ok := info.Selections[sel]; ok && s != nil {
					// a method promoted from an embedded sync.Map
					if fn, ok := s.Obj().(*types.Func); ok {
						if sig, ok := fn.Type().(*types.Signature); ok && sig.Recv() != nil && mrNamedType(sig.Recv().Type()) == "sync.Map" {
							isSyncMap = true
						}
					}
				}
				if isSyncMap {
					claimed[x] = true
					add("sync.Map.Range", mrExprString(fset, x.Fun), "other", enclosingStmt(), x.Pos())
				}
			}
		}
		stack = append(stack, n)
		return true
	})
	// second pass: `range` over a function or over an expression of unknown type whose
	// operand is not (a consumer chain around) a site reported above
	ast.Inspect(body, func(n ast.Node) bool {
		x, ok := n.(*ast.RangeStmt)
		if !ok {
			return true
		}
		var opnd ast.Node = x.X
		for {
			if p, ok := opnd.(*ast.ParenExpr); ok {
				opnd = p.X
				continue
			}
			break
		}
		if claimed[opnd] {
			return true
		}
		tv, ok := info.Types[x.X]
		form := ""
		if !ok || tv.Type == nil || tv.Type == types.Typ[types.Invalid] {
			if _, isLit := opnd.(*ast.BasicLit); !isLit {
				form = "range-untyped"
			}
		} else if _, isTP := tv.Type.(*types.TypeParam); isTP {
			if _, isMap := mrCore(tv.Type).(*types.Map); !isMap {
				form = "range-untyped" // a type parameter whose constraint does not pin a map: reviewed by hand
			}
		} else if _, isFunc := tv.Type.Underlying().(*types.Signature); isFunc {
			form = "range-func"
			// iterators of the standard library over slices / strings / integers are not derived from a map
			if call, ok := opnd.(*ast.CallExpr); ok {
				if pk, _ := mrQualifiedCallee(info, imports, call); pk == "slices" || pk == "strings" || pk == "bytes" {
					form = "" // a wrapped site (if any) is reported with this statement as its hash
				}
			}
		}
		if form != "" {
			key := form + " " + mrExprString(fset, x.X)
			seenIter[key]++
			id := fmt.Sprintf("%s/%s:%s:%s %s#%d", short, fname, fn, form, mrExprString(fset, x.X), seenIter[key])
			h := sha1.Sum([]byte(mrExprString(fset, x)))
			sites = append(sites, mrSite{Id: id, Pkg: rel, File: fname, Func: fn, Expr: mrExprString(fset, x.X),
				Auto: mrAuto(sortBody, x, fset), Hash: hex.EncodeToString(h[:6]), Line: fset.Position(x.Pos()).Line, Form: form})
		}
		return true
	})
	return sites
}

func mrReviewedPath() string {
	if p := os.Getenv("VERIF_C10_SITES"); p != "" {
		return p
	}
	exe, err := os.Executable()
	if err != nil {
		return ""
	}
	return filepath.Join(filepath.Dir(filepath.Dir(exe)), "corpus", "C10", "map_range_sites.json")
}

var mrCache struct {
	done         bool
	sites        []mrSite
	unreviewed   []string
	orderDep     []string
	staleEntries []string
	selfTest     []string
	err          error
}

func mrRun(repo string) {
	if mrCache.done {
		return
	}
	mrCache.done = true
	sites, err := mrCollect(repo)
	if err != nil {
		mrCache.err = err
		return
	}
	if len(sites) < 20 {
		mrCache.err = fmt.Errorf("only %d map-range sites found (type-check failed?)", len(sites))
		return
	}
	if dump := os.Getenv("VERIF_C10_DUMP"); dump != "" {
		b, _ := json.MarshalIndent(map[string]interface{}{"sites": sites}, "", " ")
		os.WriteFile(dump, b, 0o644)
	}
	var reviewed struct {
		Sites []mrSite `json:"sites"`
	}
	if b, err := os.ReadFile(mrReviewedPath()); err != nil {
		mrCache.err = fmt.Errorf("reviewed classification not readable: %v", err)
		return
	} else if err := json.Unmarshal(b, &reviewed); err != nil {
		mrCache.err = err
		return
	}
	byId := map[string]mrSite{}
	for _, s := range reviewed.Sites {
		byId[s.Id] = s
	}
	present := map[string]bool{}
	for i := range sites {
		s := &sites[i]
		present[s.Id] = true
		rv, ok := byId[s.Id]
		if !ok {
			mrCache.unreviewed = append(mrCache.unreviewed, s.Id+" [new site, auto="+s.Auto+"]")
			continue
		}
		s.Class, s.Why = rv.Class, rv.Why
		if rv.Hash != s.Hash || rv.Auto != s.Auto {
			mrCache.unreviewed = append(mrCache.unreviewed, s.Id+" [statement changed since review, auto="+s.Auto+"]")
		}
		if rv.Class == "order-dependent-output" {
			mrCache.orderDep = append(mrCache.orderDep, s.Id)
		}
	}
	for id := range byId {
		if !present[id] {
			mrCache.staleEntries = append(mrCache.staleEntries, id)
		}
	}
	sort.Strings(mrCache.staleEntries)
	mrCache.sites = sites
	mrCache.selfTest, mrCache.err = mrSelfTest()
}

// A sample package holding one instance of every form, scanned once with the real
// standard-library importer and once with an importer that resolves NO import (every
// package an empty stand-in: the situation of a third-party or unavailable package).
const mrSampleSrc = `package sample

import (
	"iter"
	"maps"
	"reflect"
	"slices"
	"sort"
	"strings"
	"sync"
)

type T struct{ m map[string]int }

func (t T) Keys() iter.Seq[string] { return maps.Keys(t.m) }

var pkgLevel = func(m map[string]int) []string { return slices.Collect(maps.Keys(m)) }

type wrapsSync struct{ sync.Map }

func generic[M ~map[string]int](m M) {
	for k := range m {
		_ = k
	}
}

func anyParam[A any](a A, w *wrapsSync) {
	w.Range(func(k, v any) bool { return true })
}

func f(m map[string]int, v reflect.Value, sm *sync.Map, t T) {
	a := slices.Collect(maps.Keys(m))
	b := slices.Sorted(maps.Keys(m))
	c := slices.SortedFunc(maps.Keys(m), strings.Compare)
	d := slices.Collect(maps.Values(m))
	sort.Ints(d)
	for k, x := range maps.All(m) {
		_, _ = k, x
	}
	e := maps.Collect(maps.All(m))
	maps.Insert(e, maps.All(m))
	for _, k := range v.MapKeys() {
		_ = k
	}
	it := v.MapRange()
	for k := range t.Keys() {
		_ = k
	}
	g := maps.Clone(m)
	sm.Range(func(k, v any) bool { return true })
	for k := range m {
		_ = k
	}
	h := maps.Keys
	for _, k := range slices.Sorted(maps.Keys(m)) {
		_ = k
	}
	_, _, _, _, _, _, _, _ = a, b, c, d, it, g, h, e
}
`

type mrNoImporter struct{}

func (mrNoImporter) Import(path string) (*types.Package, error) {
	p := types.NewPackage(path, path[strings.LastIndex(path, "/")+1:])
	p.MarkComplete()
	return p, nil
}

func mrSelfTest() ([]string, error) {
	var out []string
	for _, mode := range []string{"typed", "untyped"} {
		fset := token.NewFileSet()
		f, err := parser.ParseFile(fset, "sample.go", mrSampleSrc, parser.ParseComments)
		if err != nil {
			return nil, err
		}
		var imp types.Importer = mrNoImporter{}
		if mode == "typed" {
			imp = importer.ForCompiler(fset, "source", nil)
		}
		info := &types.Info{Types: map[ast.Expr]types.TypeAndValue{}, Uses: map[*ast.Ident]types.Object{}, Defs: map[*ast.Ident]types.Object{}, Selections: map[*ast.SelectorExpr]*types.Selection{}}
		conf := types.Config{Importer: imp, Error: func(error) {}}
		conf.Check("sample", fset, []*ast.File{f}, info)
		sites := mrScanFile(fset, info, "x/sample", "sample.go", f)
		sort.Slice(sites, func(i, j int) bool { return sites[i].Line < sites[j].Line })
		for _, s := range sites {
			form := s.Form
			if form == "" {
				form = "range"
			}
			out = append(out, fmt.Sprintf("%s %s:%s %s [%s]", mode, s.Func, form, s.Expr, s.Auto))
		}
	}
	return out, nil
}

func init() {
	addFact(fact{
		name: "c10Unreviewed", leanTy: "List String", deflt: "[]",
		extract: func(repo string) (string, interface{}, error) {
			mrRun(repo)
			if mrCache.err != nil {
				return "", nil, mrCache.err
			}
			return leanStrList(mrCache.unreviewed), map[string]interface{}{"unreviewed": mrCache.unreviewed,
				"reviewed_entries_without_site": mrCache.staleEntries}, nil
		},
	})
	addFact(fact{
		// the default makes the obligation FAIL when the site list cannot be computed
		name: "c10Vanished", leanTy: "List String", deflt: "[\"site list not extracted\"]",
		extract: func(repo string) (string, interface{}, error) {
			mrRun(repo)
			if mrCache.err != nil {
				return "", nil, mrCache.err
			}
			return leanStrList(mrCache.staleEntries), mrCache.staleEntries, nil
		},
	})
	addFact(fact{
		name: "c10IterFormsRecognised", leanTy: "List String", deflt: "[]",
		extract: func(repo string) (string, interface{}, error) {
			mrRun(repo)
			if mrCache.err != nil {
				return "", nil, mrCache.err
			}
			return leanStrList(mrCache.selfTest), mrCache.selfTest, nil
		},
	})
	addFact(fact{
		name: "c10UnsupportedForms", leanTy: "List String", deflt: "[\"not extracted\"]",
		extract: func(repo string) (string, interface{}, error) {
			mrRun(repo)
			if mrCache.err != nil {
				return "", nil, mrCache.err
			}
			if mrUnsupported == nil {
				mrUnsupported = []string{}
			}
			return leanStrList(mrUnsupported), mrUnsupported, nil
		},
	})
	addFact(fact{
		name: "c10OrderDependent", leanTy: "List String", deflt: "[]",
		extract: func(repo string) (string, interface{}, error) {
			mrRun(repo)
			if mrCache.err != nil {
				return "", nil, mrCache.err
			}
			return leanStrList(mrCache.orderDep), mrCache.orderDep, nil
		},
	})
	addFact(fact{
		name: "c10MapRangeCount", leanTy: "Nat", deflt: "0",
		extract: func(repo string) (string, interface{}, error) {
			mrRun(repo)
			if mrCache.err != nil {
				return "", nil, mrCache.err
			}
			hist := map[string]int{}
			for _, s := range mrCache.sites {
				hist[s.Class+"/"+s.Auto]++
			}
			forms := map[string]int{}
			for _, s := range mrCache.sites {
				if s.Form == "" {
					forms["range"]++
				} else {
					forms[s.Form]++
				}
			}
			return fmt.Sprint(len(mrCache.sites)), map[string]interface{}{"count": len(mrCache.sites), "by_class": hist, "by_form": forms, "sites": mrCache.sites}, nil
		},
	})
}
