package main

// C10: every `range` over a map-typed expression in martian/syntax and
// martian/core (go/types, packages type-checked from source; no `go list`),
// with enclosing function, an automatic coarse classification and a hash of
// the statement, compared with the committed REVIEWED classification
// corpus/C10/map_range_sites.json.
//
// Facts:
//   c10Unreviewed      : sites that are new, or whose statement changed since
//                        it was reviewed (id or hash not in the reviewed file)
//   c10OrderDependent  : sites whose reviewed class is "order-dependent-output"
//                        (iteration order reaches compiler/formatter/call-graph output)
//   c10MapRangeCount   : number of sites found

import (
	"bytes"
	"crypto/sha1"
	"encoding/hex"
	"encoding/json"
	"fmt"
	"go/ast"
	"go/build"
	"go/importer"
	"go/parser"
	"go/printer"
	"go/token"
	"go/types"
	"os"
	"path/filepath"
	"sort"
	"strings"
)

const martianPrefix = "github.com/martian-lang/martian/"

type mrSite struct {
	Id    string `json:"id"`
	Pkg   string `json:"pkg"`
	File  string `json:"file"`
	Func  string `json:"func"`
	Expr  string `json:"expr"`
	Auto  string `json:"auto"` // keys-collected-then-sorted | map-or-set-insert | other
	Hash  string `json:"hash"`
	Line  int    `json:"line"`
	Class string `json:"class,omitempty"` // reviewed class (from the committed file)
	Why   string `json:"why,omitempty"`
}

type mrImporter struct {
	repo  string
	fset  *token.FileSet
	std   types.Importer
	cache map[string]*types.Package
	infos map[string]*types.Info
	files map[string][]*ast.File
}

func (im *mrImporter) Import(path string) (*types.Package, error) {
	if p, ok := im.cache[path]; ok {
		return p, nil
	}
	if strings.HasPrefix(path, martianPrefix) {
		p, err := im.check(path)
		return p, err
	}
	if !strings.Contains(strings.SplitN(path, "/", 2)[0], ".") {
		if p, err := im.std.Import(path); err == nil {
			im.cache[path] = p
			return p, nil
		}
	}
	// third-party (golang.org/x/sys/unix, …): an empty stand-in; type errors are tolerated
	name := path[strings.LastIndex(path, "/")+1:]
	p := types.NewPackage(path, name)
	p.MarkComplete()
	im.cache[path] = p
	return p, nil
}

func (im *mrImporter) check(path string) (*types.Package, error) {
	dir := filepath.Join(im.repo, strings.TrimPrefix(path, martianPrefix))
	ents, err := os.ReadDir(dir)
	if err != nil {
		return nil, err
	}
	ctx := build.Default
	ctx.BuildTags = nil
	var files []*ast.File
	for _, e := range ents {
		n := e.Name()
		if e.IsDir() || !strings.HasSuffix(n, ".go") || strings.HasSuffix(n, "_test.go") {
			continue
		}
		if ok, err := ctx.MatchFile(dir, n); err != nil || !ok {
			continue
		}
		f, err := parser.ParseFile(im.fset, filepath.Join(dir, n), nil, parser.ParseComments)
		if err != nil {
			return nil, err
		}
		files = append(files, f)
	}
	info := &types.Info{Types: map[ast.Expr]types.TypeAndValue{}, Uses: map[*ast.Ident]types.Object{}, Defs: map[*ast.Ident]types.Object{}}
	conf := types.Config{Importer: im, Error: func(error) {}, FakeImportC: true}
	pkg, _ := conf.Check(path, im.fset, files, info)
	if pkg == nil {
		return nil, fmt.Errorf("cannot type-check %s", path)
	}
	im.cache[path] = pkg
	im.infos[path] = info
	im.files[path] = files
	return pkg, nil
}

func mrExprString(fset *token.FileSet, n ast.Node) string {
	var b bytes.Buffer
	printer.Fprint(&b, fset, n)
	return b.String()
}

func mrFuncName(fd *ast.FuncDecl) string {
	if fd.Recv != nil && len(fd.Recv.List) == 1 {
		t := fd.Recv.List[0].Type
		if s, ok := t.(*ast.StarExpr); ok {
			t = s.X
		}
		if ix, ok := t.(*ast.IndexExpr); ok {
			t = ix.X
		}
		if id, ok := t.(*ast.Ident); ok {
			return id.Name + "." + fd.Name.Name
		}
	}
	return fd.Name.Name
}

// coarse automatic classification of the loop body
func mrAuto(fd *ast.FuncDecl, rs *ast.RangeStmt, fset *token.FileSet) string {
	// slices appended to inside the body
	appended := map[string]bool{}
	onlyInserts := true
	for _, st := range rs.Body.List {
		ok := false
		switch st := st.(type) {
		case *ast.AssignStmt:
			if len(st.Lhs) == 1 && len(st.Rhs) == 1 {
				if call, isCall := st.Rhs[0].(*ast.CallExpr); isCall {
					if id, isId := call.Fun.(*ast.Ident); isId && id.Name == "append" && len(call.Args) >= 1 {
						appended[mrExprString(fset, st.Lhs[0])] = true
						ok = true
						onlyInserts = false
					}
				}
				if _, isIdx := st.Lhs[0].(*ast.IndexExpr); isIdx && !ok {
					ok = true // m[k] = v
				}
			}
		case *ast.ExprStmt:
			if call, isCall := st.X.(*ast.CallExpr); isCall {
				if id, isId := call.Fun.(*ast.Ident); isId && id.Name == "delete" {
					ok = true
				}
			}
		case *ast.IncDecStmt:
			ok = true
		}
		if !ok {
			onlyInserts = false
			// nested statements may still append (if …{ keys = append(keys,k) })
			ast.Inspect(st, func(n ast.Node) bool {
				if as, isAs := n.(*ast.AssignStmt); isAs && len(as.Lhs) == 1 && len(as.Rhs) == 1 {
					if call, isCall := as.Rhs[0].(*ast.CallExpr); isCall {
						if id, isId := call.Fun.(*ast.Ident); isId && id.Name == "append" {
							appended[mrExprString(fset, as.Lhs[0])] = true
						}
					}
				}
				return true
			})
		}
	}
	if len(appended) > 0 {
		// is one of the appended slices sorted later in the same function?
		sorted := false
		ast.Inspect(fd.Body, func(n ast.Node) bool {
			call, ok := n.(*ast.CallExpr)
			if !ok || call.Pos() < rs.End() {
				return true
			}
			sel, ok := call.Fun.(*ast.SelectorExpr)
			if !ok {
				return true
			}
			pk, ok := sel.X.(*ast.Ident)
			if !ok || (pk.Name != "sort" && pk.Name != "slices") || len(call.Args) == 0 {
				return true
			}
			arg := mrExprString(fset, call.Args[0])
			for s := range appended {
				if arg == s || strings.Contains(arg, "("+s+")") {
					sorted = true
				}
			}
			return true
		})
		if sorted {
			return "keys-collected-then-sorted"
		}
	}
	if onlyInserts && len(rs.Body.List) > 0 {
		return "map-or-set-insert"
	}
	return "other"
}

func mrCollect(repo string) ([]mrSite, error) {
	fset := token.NewFileSet()
	im := &mrImporter{repo: repo, fset: fset, std: importer.ForCompiler(fset, "source", nil),
		cache: map[string]*types.Package{}, infos: map[string]*types.Info{}, files: map[string][]*ast.File{}}
	var sites []mrSite
	for _, rel := range []string{"martian/syntax", "martian/core"} {
		path := martianPrefix + rel
		if _, err := im.Import(path); err != nil {
			return nil, err
		}
		info := im.infos[path]
		for _, f := range im.files[path] {
			fname := filepath.Base(fset.Position(f.Pos()).Filename)
			if strings.HasPrefix(fname, "verif_") {
				continue
			}
			for _, d := range f.Decls {
				fd, ok := d.(*ast.FuncDecl)
				if !ok || fd.Body == nil {
					continue
				}
				seen := map[string]int{}
				ast.Inspect(fd.Body, func(n ast.Node) bool {
					rs, ok := n.(*ast.RangeStmt)
					if !ok {
						return true
					}
					tv, ok := info.Types[rs.X]
					if !ok || tv.Type == nil {
						return true
					}
					if _, isMap := tv.Type.Underlying().(*types.Map); !isMap {
						return true
					}
					expr := mrExprString(fset, rs.X)
					fn := mrFuncName(fd)
					seen[expr]++
					id := fmt.Sprintf("%s/%s:%s:range %s#%d", rel[strings.LastIndex(rel, "/")+1:], fname, fn, expr, seen[expr])
					h := sha1.Sum([]byte(mrExprString(fset, rs)))
					sites = append(sites, mrSite{Id: id, Pkg: rel, File: fname, Func: fn, Expr: expr,
						Auto: mrAuto(fd, rs, fset), Hash: hex.EncodeToString(h[:6]), Line: fset.Position(rs.Pos()).Line})
					return true
				})
			}
		}
	}
	sort.Slice(sites, func(i, j int) bool { return sites[i].Id < sites[j].Id })
	return sites, nil
}

func mrReviewedPath() string {
	if p := os.Getenv("VERIF_C10_SITES"); p != "" {
		return p
	}
	exe, err := os.Executable()
	if err != nil {
		return ""
	}
	return filepath.Join(filepath.Dir(filepath.Dir(exe)), "corpus", "C10", "map_range_sites.json")
}

var mrCache struct {
	done         bool
	sites        []mrSite
	unreviewed   []string
	orderDep     []string
	staleEntries []string
	err          error
}

func mrRun(repo string) {
	if mrCache.done {
		return
	}
	mrCache.done = true
	sites, err := mrCollect(repo)
	if err != nil {
		mrCache.err = err
		return
	}
	if len(sites) < 20 {
		mrCache.err = fmt.Errorf("only %d map-range sites found (type-check failed?)", len(sites))
		return
	}
	if dump := os.Getenv("VERIF_C10_DUMP"); dump != "" {
		b, _ := json.MarshalIndent(map[string]interface{}{"sites": sites}, "", " ")
		os.WriteFile(dump, b, 0o644)
	}
	var reviewed struct {
		Sites []mrSite `json:"sites"`
	}
	if b, err := os.ReadFile(mrReviewedPath()); err != nil {
		mrCache.err = fmt.Errorf("reviewed classification not readable: %v", err)
		return
	} else if err := json.Unmarshal(b, &reviewed); err != nil {
		mrCache.err = err
		return
	}
	byId := map[string]mrSite{}
	for _, s := range reviewed.Sites {
		byId[s.Id] = s
	}
	present := map[string]bool{}
	for i := range sites {
		s := &sites[i]
		present[s.Id] = true
		rv, ok := byId[s.Id]
		if !ok {
			mrCache.unreviewed = append(mrCache.unreviewed, s.Id+" [new site, auto="+s.Auto+"]")
			continue
		}
		s.Class, s.Why = rv.Class, rv.Why
		if rv.Hash != s.Hash || rv.Auto != s.Auto {
			mrCache.unreviewed = append(mrCache.unreviewed, s.Id+" [statement changed since review, auto="+s.Auto+"]")
		}
		if rv.Class == "order-dependent-output" {
			mrCache.orderDep = append(mrCache.orderDep, s.Id)
		}
	}
	for id := range byId {
		if !present[id] {
			mrCache.staleEntries = append(mrCache.staleEntries, id)
		}
	}
	sort.Strings(mrCache.staleEntries)
	mrCache.sites = sites
}

func init() {
	addFact(fact{
		name: "c10Unreviewed", leanTy: "List String", deflt: "[]",
		extract: func(repo string) (string, interface{}, error) {
			mrRun(repo)
			if mrCache.err != nil {
				return "", nil, mrCache.err
			}
			return leanStrList(mrCache.unreviewed), map[string]interface{}{"unreviewed": mrCache.unreviewed,
				"reviewed_entries_without_site": mrCache.staleEntries}, nil
		},
	})
	addFact(fact{
		name: "c10OrderDependent", leanTy: "List String", deflt: "[]",
		extract: func(repo string) (string, interface{}, error) {
			mrRun(repo)
			if mrCache.err != nil {
				return "", nil, mrCache.err
			}
			return leanStrList(mrCache.orderDep), mrCache.orderDep, nil
		},
	})
	addFact(fact{
		name: "c10MapRangeCount", leanTy: "Nat", deflt: "0",
		extract: func(repo string) (string, interface{}, error) {
			mrRun(repo)
			if mrCache.err != nil {
				return "", nil, mrCache.err
			}
			hist := map[string]int{}
			for _, s := range mrCache.sites {
				hist[s.Class+"/"+s.Auto]++
			}
			return fmt.Sprint(len(mrCache.sites)), map[string]interface{}{"count": len(mrCache.sites), "by_class": hist, "sites": mrCache.sites}, nil
		},
	})
}
